import OpusProofs.ResetState
import OpusProofs.ResetDecode
import OpusProofs.ResetMs
import OpusProofs.ResetSettings
/-
  OpusProps.C12 — codec state is deterministic, freely copyable and reset-equivalent
  (DESIGN.md §7.C12).  Model: OpusModel.ResetState (init / OPUS_RESET_STATE / settings transcribed
  member by member; an encode call as a footprint over the `view`, DSP as uninterpreted oracles);
  struct description: OpusModel.Gen.StructFields, regenerated from /repo on every run.

  Determinism of every modelled layer is definitional (the model consists of pure functions of the
  object and the call arguments: there is nothing else they could depend on); it is NOT counted as an
  obligation.  Determinism, copyability and reset-equivalence of the DSP interior are searched on the
  implementation (twin-object harness), not proved.
-/
namespace OpusProps.C12
open Opus Opus.ResetState Opus.Gen.StructFields

/-- Clause "after OPUS_RESET_STATE an object behaves exactly like a newly created one carrying the
    same settings", state form: for every encoder state reachable from `opus_encoder_init` by accepted
    setting requests, resets and encode calls (any DSP behaviour, any input), the reset object and a new
    object carrying the same settings agree on every member that any later call can read before
    writing it.  (The reset is the one of fix 14e3a558, which clears the inter-frame members kept outside
    the cleared area; for the reset before it see the counterexample `example` below.) -/
theorem reset_eq_init (s : Enc) (h : Reach s) :
    ObsEq (encReset s) (encFresh s.fs s.channels s.arch s.silkEncOffset s.celtEncOffset (settingsOf s)) :=
  view_reset_eq_fresh (reach_inv h)

example : Reach (encodeStep ⟨fun _ _ => .full, fun _ _ => ⟨.used 1, 5, 77, 1104, .used 2, 17000⟩,
    fun _ _ _ => ⟨1, 1000, 1103, 1103, 0, 0, 0, 1, true, .used 3,
                  silkCtlInit 16000 1, .used 4, celtCfgInit 16000 1 0, 16384, 1, 2, .used 5, .used 6, 0, 0, 99, 1000, 1, 320, 0⟩,
    fun _ _ => ⟨35, 1⟩⟩ (encInit 16000 1 2048 0 18152 38416) ⟨320, 1500, 16, 0, 7⟩).1 :=
  .encode _ _ (.init ..)

/-- Same clause, behavioural form: a reset object and a new object carrying the same settings return
    the same codes, getter values and packets for EVERY later sequence of setting requests, getters,
    resets and encode calls, whatever the DSP oracles compute (they see the same members). -/
theorem reset_indistinguishable (O : Oracles) (G : GetOracle) (s : Enc) (h : Reach s) (ops : List Op) :
    run O G (encReset s) ops =
      run O G (encFresh s.fs s.channels s.arch s.silkEncOffset s.celtEncOffset (settingsOf s)) ops :=
  run_congr O G ops (reset_eq_init s h)

example : run ⟨fun _ _ => .lowBudget, fun v _ => ⟨.used 1, 0, v.voiceRatio, 0, .used 1, 0⟩,
                fun _ _ _ => ⟨1, 1, 1, 1, 1, 1, 1, 1, false, .fresh, silkCtlInit 8000 1, .fresh, celtCfgInit 8000 1 0,
                              1, 1, 1, .fresh, .fresh, 1, 1, 1, 1, 1, 1, 1⟩, fun v _ => ⟨v.voiceRatio, 0⟩⟩
              ⟨fun v r => if r = 4011 then v.complexity else v.rangeFinal⟩
              (encInit 8000 1 2048 0 18152 38416) [.set 4010 3, .get 4011, .encode ⟨160, 2, 16, 0, 0⟩, .reset, .get 4011]
          = [(0, 0), (3, 0), (-1, 0), (0, 0), (3, 0)] := by decide

/-- "A newly created one carrying the same settings", read as calls: for every state reachable from a VALID
    `opus_encoder_init` (1 or 2 channels, a defined application), a new encoder initialised with ANY valid
    application and then given the requests `settingsRequests (settingsOf s)` — OPUS_SET_APPLICATION,
    OPUS_SET_BITRATE, … one OPUS_SET_* per setting — accepts every one of them, and the reset object is
    indistinguishable from the result (so `encFresh`'s "init, then store the setting members" and
    "init, then issue the requests" are the same object as far as any later call can tell; they differ only in
    `silk_mode.useCBR` / `maxInternalSampleRate`, which every encode assigns before use). -/
theorem reset_eq_init_by_requests (s : Enc) (h : ReachOk s) (app0 : Int) (ha : app0 = 2048 ∨ app0 = 2049 ∨ app0 = 2051) :
    ∃ f, replay (encInit s.fs s.channels app0 s.arch s.silkEncOffset s.celtEncOffset) (settingsRequests (settingsOf s)) = some f ∧
         ObsEq (encReset s) f := by
  obtain ⟨f, hf, hv⟩ := replay_requests s.fs s.channels app0 s.arch s.silkEncOffset s.celtEncOffset (settingsOf s) ha (reachOk_good h).2
  exact ⟨f, hf, (reset_eq_init s (reachOk_reach h)).trans hv.symm⟩

example : ReachOk (encodeStep ⟨fun _ _ => .lowBudget, fun v _ => ⟨.used 1, 0, v.voiceRatio, 0, .used 1, 0⟩,
      fun _ _ _ => ⟨1, 1, 1, 1, 1, 1, 1, 1, false, .fresh, silkCtlInit 8000 1, .fresh, celtCfgInit 8000 1 0,
                    1, 1, 1, .fresh, .fresh, 1, 1, 1, 1, 1, 1, 1⟩, fun _ _ => ⟨3, 0⟩⟩
    (encInit 8000 1 2048 0 18152 38416) ⟨160, 2, 16, 0, 0⟩).1 := .encode _ _ (.init _ _ _ _ _ _ ⟨Or.inl rfl, Or.inl rfl⟩)

/-- Documented counterexample about the OLD reset (the tree before fix 14e3a558, where
    `silk_mode.LBRR_coded`, `voice_ratio`, … survived OPUS_RESET_STATE; `encResetUnrepaired` is kept in the
    model only for this): a reachable state whose old-style reset differs observably from a new encoder
    with the same settings — the model-level image of corpus/C12/reset_witnesses.json.  Not a statement
    about the current code. -/
example :
    ∃ s, Reach s ∧
      ¬ ObsEq (encResetUnrepaired s) (encFresh s.fs s.channels s.arch s.silkEncOffset s.celtEncOffset (settingsOf s)) := by
  refine ⟨(encodeStep ⟨fun _ _ => .full, fun _ _ => ⟨.used 1, 5, 77, 1104, .used 2, 17000⟩,
      fun _ _ _ => ⟨1, 1000, 1103, 1103, 0, 0, 0, 1, true, .used 3,
                    silkCtlInit 16000 1, .used 4, celtCfgInit 16000 1 0, 16384, 1, 2, .used 5, .used 6, 0, 0, 99, 1000, 1, 320, 0⟩,
      fun _ _ => ⟨35, 1⟩⟩ (encInit 16000 1 2048 0 18152 38416) ⟨320, 1500, 16, 0, 7⟩).1, .encode _ _ (.init ..), ?_⟩
  decide

/-- Same clause for the decoder (state form): reset = new decoder with the same gain / complexity /
    phase-inversion setting on every member a later call can read before writing, for every decoder
    state whose constant members are those of `opus_decoder_init` (the reset clears
    `DecControl.prevPitchLag`, which OPUS_GET_PITCH reads: fix 14e3a558). -/
theorem dec_reset_eq_init (s : Dec) (h : DecInv s) :
    DecObsEq (decReset s)
      (decFresh s.fs s.channels s.arch s.silkDecOffset s.celtDecOffset s.decodeGain s.complexity
        s.celtComplexity s.celtDisableInv) :=
  decView_reset_eq_fresh h

example : DecInv { (decInit 48000 2 4 96 8712) with dcPrevPitchLag := 228, prevMode := 1000, bandwidth := 1103 } :=
  ⟨rfl, rfl⟩

/-- Same clause for the decoder, behavioural form: for every decoder state reachable from
    `opus_decoder_init` by setting requests, resets and decode calls (any DSP behaviour, any packets), the
    reset decoder and a new decoder carrying the same settings return the same codes, getter values and PCM
    for EVERY later sequence of setting requests, getters, resets and decode calls (normal, lost-packet and
    FEC calls are all `decode` footprints). -/
theorem dec_reset_indistinguishable (O : DOracles) (s : Dec) (h : DReach s) (ops : List DOp) :
    runDec O (decReset s) ops =
      runDec O (decFresh s.fs s.channels s.arch s.silkDecOffset s.celtDecOffset s.decodeGain s.complexity
                 s.celtComplexity s.celtDisableInv) ops :=
  runDec_congr O ops (decView_reset_eq_fresh (dreach_inv h))

example : DReach (decodeStep ⟨fun _ _ => .packet, fun _ _ => ⟨1, 1103, 1000, 1000, 320, 0, 320, .used 1, 77, true, .used 2,
    .used 3, 1, 16000, 20, 228, 0, 1, 1⟩, fun _ _ => ⟨320, 5⟩, fun v _ => v.dcPrevPitchLag⟩
    (decInit 16000 1 4 96 8712) ⟨3, 5760, 0, 1⟩).1 := .decode _ _ (.init ..)

example : runDec ⟨fun _ _ => .packet, fun _ _ => ⟨1, 1103, 1000, 1000, 320, 0, 320, .used 1, 77, true, .used 2,
    .used 3, 1, 16000, 20, 228, 0, 1, 1⟩, fun _ _ => ⟨320, 5⟩, fun v _ => v.dcPrevPitchLag⟩
    (decInit 16000 1 4 96 8712) [.decode ⟨3, 5760, 0, 1⟩, .get 4033, .reset, .get 4033]
  = [(320, 5), (228, 0), (0, 0), (0, 0)] := by decide

/-- The decode-call footprint is tied to the code through `decStepCheck` (suite `misc decstep`: members before
    and after each real decode call).  The checker is not stricter than the model: whatever the oracles answer,
    the state `decodeStep` produces is accepted — so a rejected real call is something the model cannot do
    (a constant member written; concealment that does not keep `prev_mode` / DecControl as claimed; a packet that
    changes DecControl.nChannelsInternal / internalSampleRate without leaving `prev_mode` SILK-only or hybrid). -/
theorem decode_footprint_check_sound (O : DOracles) (s : Dec) (x : DInp) (dataNull : Bool)
    (hn : dataNull = true → O.path (decView s) x ≠ .packet) :
    decStepCheck s (decodeStep O s x).1 dataNull = "ok" :=
  decStepCheck_model O s x dataNull hn

example : decStepCheck (decInit 16000 1 4 96 8712) { (decInit 16000 1 4 96 8712) with prevMode := 1002, dcInternalSampleRate := 8000 } false
    = "packet-claim-violated" := by decide

/-- Same clause for the multistream encoder (and the projection encoder, whose ctl forwards the request),
    state form: OPUS_RESET_STATE — clear the surround memories, then the per-stream reset through the
    fan-out loop — returns OPUS_OK and leaves an object whose own members and memories equal, and whose
    stream encoders are pairwise indistinguishable from, those of a new multistream encoder whose streams
    carry the same settings; hence every stream answers every later per-stream call sequence identically.
    (What opus_multistream_encode_native computes from the multistream-level members is not modelled: the
    multistream encode call is searched by the twin harness.)
    NON-TRIVIAL CONTENT: `msEncFresh m` keeps `m`'s layout and multistream-level settings by definition, so ten
    of the conjuncts of `MsObsEq` read `m.x = m.x` (the reset does not write those members — that is tied to
    the code by the `misc msreset` correspondence, not proved here).  What the theorem adds is (i) the fan-out
    returns OPUS_OK and visits every stream, (ii) the surround memories are as after creation (cleared in the
    SURROUND mapping, never written in the others: `MsInv.mems`), (iii) every stream encoder is `ObsEq` to a
    new one with its settings and therefore answers every later per-stream call sequence identically. -/
theorem ms_reset_eq_init (m : MsEnc) (h : MsInv m) (O : Oracles) (G : GetOracle) (ops : List Op) :
    MsObsEq (msEncReset m).1 (msEncFresh m) ∧ (msEncReset m).2 = Ctl.Ret.ok ∧
    (msEncReset m).1.streams.map (fun e => run O G e ops) = (msEncFresh m).streams.map (fun e => run O G e ops) :=
  ⟨(msEncReset_eq_fresh m h).1, (msEncReset_eq_fresh m h).2, allPairs_run O G ops (msEncReset_eq_fresh m h).1.2.2.2.2.2.2.2.2.2.2.2⟩

example : MsInv { nbChannels := 3, nbStreams := 2, nbCoupled := 1, mapping := [0, 2, 1], arch := 4, lfeStream := -1,
                  application := 2049, variableDuration := 5000, mappingType := 1, bitrateBps := -1000, mems := .used 9,
                  streams := [encInit 48000 2 2049 4 18152 38416, encInit 48000 1 2049 4 18152 38416] } :=
  ⟨fun e he => by
      simp only [List.mem_cons, List.mem_nil_iff, or_false] at he
      rcases he with rfl | rfl <;> exact .init .., fun hs => absurd rfl hs⟩

/-- Same for the multistream / projection decoder: the fan-out of the per-stream reset leaves stream decoders
    pairwise indistinguishable from new ones with the same settings, for every later per-stream call sequence.
    NON-TRIVIAL CONTENT: the four layout conjuncts are `m.x = m.x` by definition of `msDecFresh` (tied to the code by
    `misc msdecreset`); the content is the fan-out (OPUS_OK, every stream visited) and the per-stream `DecObsEq`. -/
theorem ms_dec_reset_eq_init (m : MsDec) (h : ∀ d ∈ m.streams, DReach d) (O : DOracles) (ops : List DOp) :
    MsDecObsEq (msDecReset m).1 (msDecFresh m) ∧ (msDecReset m).2 = Ctl.Ret.ok ∧
    (msDecReset m).1.streams.map (fun d => runDec O d ops) = (msDecFresh m).streams.map (fun d => runDec O d ops) :=
  have hr := msDecReset_eq_fresh m (fun d hd => dreach_inv (h d hd))
  ⟨hr.1, hr.2, allPairs_runDec O ops hr.1.2.2.2.2⟩

example : ∀ d ∈ [decInit 48000 2 4 96 8712, decInit 48000 1 4 96 8712], DReach d := fun d hd => by
  simp only [List.mem_cons, List.mem_nil_iff, or_false] at hd
  rcases hd with rfl | rfl <;> exact .init ..

/-- Clause "a state copied with memcpy behaves like the original", pointer part: in the regenerated
    member lists the only pointer-typed member of OpusEncoder / OpusDecoder is `energy_masking`
    (caller-owned); every pointer-typed member of the complete state (SILK / CELT sub-states,
    repacketizer) is declared static-const or caller-owned and, on used objects, is observed to be
    null or to point into the static image / the caller's buffer — never into the object; and a
    conservative scan of every used object (encoder, decoder, multistream, projection, repacketizer;
    get_size bytes each) finds no word holding an address inside the object. -/
theorem no_self_pointers :
    (encFields.filter (·.kind = "P")).map (·.name) = ["energy_masking"] ∧
    (decFields.filter (·.kind = "P")).map (·.name) = [] ∧
    (silkEncFields ++ silkDecFields ++ celtEncCfgFields.drop 1).all (fun f => f.kind = "I") = true ∧
    pointerMembers.all (fun (_, owner, seen) =>
      (owner = "static" || owner = "caller") && (seen = "null" || seen = owner)) = true ∧
    selfPointerWords = 0 ∧ 0 < scannedObjects := by
  decide +kernel

example : ("enc2.celt.mode", "static", "static") ∈ pointerMembers := by decide +kernel

/-- Clause "the number of bytes reported by the size query is all that needs copying": the listed
    members tile their structs (nothing is missing), every member lies inside `sizeof`, and
    `opus_*_get_size` = aligned struct + SILK state + CELT state with the sub-states at the offsets
    init stores — so the modelled state is a function of those `get_size` bytes. -/
theorem get_size_covers_state :
    encTiles = true ∧ silkEncTiles = true ∧ decTiles = true ∧ silkDecTiles = true ∧ celtEncCfgTiles = true ∧
    celtEncCfgEnd = celtEncResetStart ∧
    encFields.all (fun f => f.off + f.size ≤ encSizeof) = true ∧
    decFields.all (fun f => f.off + f.size ≤ decSizeof) = true ∧
    encLayout.all (fun (_, size, hdr, silkOff, silkSz, celtOff, celtSz) =>
      encSizeof ≤ hdr && silkOff == hdr && celtOff == silkOff + silkSz && size == celtOff + celtSz) = true ∧
    decLayout.all (fun (_, size, hdr, silkOff, silkSz, celtOff, celtSz) =>
      decSizeof ≤ hdr && silkOff == hdr && celtOff == silkOff + silkSz && size == celtOff + celtSz) = true ∧
    encLayout.length = 2 ∧ decLayout.length = 2 := by
  decide +kernel

/-- The model speaks about the structs the compiler sees: its member lists are exactly the
    regenerated ones (a member added to or removed from OpusEncoder, OpusDecoder, the SILK control
    structs or the CELT configuration breaks this), and the members at or after
    OPUS_ENCODER_RESET_START / OPUS_DECODER_RESET_START are exactly those the model's reset clears
    or re-derives. -/
theorem model_fields_cover_struct :
    (encFields.filter (fun f => f.kind = "I" || f.kind = "F" || f.kind = "P")).map (·.name) = encTopNames ∧
    (encFields.filter (fun f => f.kind = "R" || f.kind = "A")).map (·.name) = encBlobNames ∧
    silkEncFields.map (·.name) = silkCtlNames ∧
    (celtEncCfgFields.drop 1).map (·.name) = celtCfgNames ∧
    (decFields.filter (fun f => f.kind = "I")).map (·.name) = decTopNames ∧
    silkDecFields.map (·.name) = decControlNames ∧
    (encFields.filter (·.afterMarker)).map (·.name) = encAfterMarkerNames ∧
    (decFields.filter (·.afterMarker)).map (·.name) = decAfterMarkerNames := by
  decide +kernel

/-- `encInit` / `decInit` give, member for member, the values the compiled `opus_encoder_init` /
    `opus_decoder_init` leave in a 0xA5-poisoned block, for all 5 rates × 2 channel counts
    (× 3 applications). -/
theorem init_matches_code :
    encInitValues.all initRowOk = true ∧ encInitValues.length = 30 ∧
    decInitValues.all decInitRowOk = true ∧ decInitValues.length = 10 := by
  decide +kernel

end OpusProps.C12
