import OpusProofs.DtxRun
import OpusProofs.DtxRange
import OpusProofs.DtxBudget
import OpusProofs.DtxDecodeSkel
import OpusProofs.SilkVadOut
import OpusProofs.SilkVadDtx
/-
  C20 — DTX sends bounded runs of tiny packets when inactive and resumes at once.

  Model: OpusModel/Dtx.lean — `decide_dtx_mode` (`decideDtx`, schedules: `dtxSteps`), the SILK
  `noSpeechCounter`/`inDTX` machine (`silkVad`, schedules: `silkSteps`), and the packet-level skeleton of
  `opus_encode_native`/`opus_encode_frame_native` (`encodeCall`, whole runs: `run`/`pkts`) with
  `OPUS_GET_IN_DTX` (`inDtx`).  Constants regenerated from /repo into OpusModel/Gen/DtxConsts.lean
  (NB_SPEECH_FRAMES_BEFORE_DTX = 10, MAX_CONSECUTIVE_DTX = 20; a change makes `onsetQ1_eq`, `limitQ1_eq`,
  `nb_eq`, `max_eq` of OpusProofs/Dtx.lean fail, and with them every bound below).
  Times are in the code's unit, Q1 milliseconds (half ms): 200 ms = 400, 400 ms = 800; a packet of
  `q` 2.5-ms units lasts `5*q`.  Everything the DSP decides (digital silence, `analysis_info.valid`,
  the detector's decision per coded frame, the per-frame `analysis_info.valid`, the mode, SILK's VAD
  outcome per frame) is an oracle: the theorems hold for ALL oracle values, subject only to the shape
  contract `oracleOk` (= `shapeOk`: how many `silk_Encode` calls / SILK frames a coded frame has; true by
  construction and monitored on every call of the correspondence run) where stated.  In particular the
  per-frame analysis results of a multi-frame packet need not agree with the call-level one.

  Vocabulary: `GenCall c o` — the generalised detector is in charge of call `o`
  (`silk_mode.useDTX = 0`, src/opus_encoder.c:1388); `SilkCall c o` — SILK's own DTX is
  (`silk_mode.useDTX = 1`); `AllDtx l` — every packet of `l` is a DTX packet; `Regular c` — the call
  reaches the frame loop (`frame_size ≠ 0` and the budget is above the code's low-budget class, :1267).

  History (2): before the repair at src/opus_encoder.c:2432 each coded frame of a multi-frame packet took
  its DTX decision from its own `analysis_info->valid` while the detector in charge had been chosen from
  the call-level one; with one NaN sample per 60 ms packet frames were dropped alternately by SILK and by
  `decide_dtx_mode` and a run lasted 8.76 s (witness-search scenario `nan-pattern`).  The frame tail now
  follows the call-level choice, and no theorem below needs a coherence assumption.
  History (1): the run bound across a change of the detector in charge was FALSE of the code before the
  repair at src/opus_encoder.c:1388-1399 (two independent run counters, `silk_mode.useDTX` re-decided per
  call: 40 consecutive 20-ms DTX packets on 16 kHz stereo with faint anti-phase noise between two
  stretches of digital silence — witness-search scenario `regime-switch` of tools/props/C20.py keeps
  replaying it).  With the repair (both counters cleared when the detector changes) the full statement
  `dtx_run_bound` below is proved; the example after it shows the former counterexample run.
-/
namespace OpusProps.C20
open Opus Opus.Dtx Opus.Gen.DtxConsts

/-! ## The counter machine of `decide_dtx_mode` — all activity schedules -/

/-- Clause "starting … the 200 ms mark", frame level.  With constant inactivity from a cleared counter
    (frame durations `fs`, any mix of 2.5–60 ms, total within 600 ms) coded frame `i` is dropped exactly
    when the inactivity including it exceeds 200 ms; the counter is the accumulated inactivity. -/
theorem dtx_first_decision (fs : List Nat) (h : fs.sum ≤ 1200) :
    (dtxSteps 0 (fs.map (fun f => (false, f)))).1 =
      (List.range fs.length).map (fun i => decide (400 < (fs.take (i + 1)).sum)) ∧
    (dtxSteps 0 (fs.map (fun f => (false, f)))).2 = fs.sum := by
  have := dtxSteps_inactive 0 fs (by rw [limitQ1_eq]; omega)
  simp only [Nat.zero_add, onsetQ1_eq] at this
  exact ⟨this.2, this.1⟩

example : (dtxSteps 0 ([40, 40, 40, 40, 40, 40, 40, 40, 40, 40, 40, 20].map (fun f => (false, f)))).1
    = [false, false, false, false, false, false, false, false, false, false, true, true] := by decide

/-- Clause "a run of consecutive DTX packets exceeds 400 ms by less than one frame duration", frame
    level, for EVERY activity schedule: in any schedule `pre ++ seg ++ post` of coded frames
    (activity flag, duration), from any counter value, if every frame of the window `seg` is dropped
    then `seg` lasts less than 400 ms plus the duration of its first frame. -/
theorem dtx_machine_run_bound (nb : Nat) (pre post : List (Bool × Nat)) (a : Bool) (f : Nat) (rest : List (Bool × Nat))
    (h : ∀ d ∈ ((dtxSteps nb (pre ++ (a, f) :: rest ++ post)).1.drop pre.length).take ((a, f) :: rest).length, d = true) :
    durSum ((a, f) :: rest) < 800 + f := by
  rw [dtxSteps_window] at h
  exact dtx_run_bound_seg _ a f rest h

example : (dtxSteps 0 (List.replicate 31 (false, 40))).1 =
    List.replicate 10 false ++ List.replicate 20 true ++ [false] := by decide

/-- Clause "before a regular refresh packet is sent": the inactive frame that would pass the 600 ms
    limit is not dropped (the refresh), it puts the counter back to the 200 ms mark, and the next
    inactive frame (of any duration up to 400 ms) is dropped again. -/
theorem dtx_machine_refresh (nb f f' : Nat) (h : 1200 < nb + f) (hf1 : 0 < f') (hf2 : f' ≤ 800) :
    decideDtx false nb f = (false, 400) ∧ (decideDtx false 400 f').1 = true := by
  have := decideDtx_refresh_then nb f f' (by rw [limitQ1_eq]; exact h) hf1 hf2
  rwa [onsetQ1_eq] at this

example : decideDtx false 1200 40 = (false, 400) := by decide

/-- Clause "the first frame of renewed activity is coded normally", frame level: an active frame is
    never dropped and clears the counter, whatever the counter was. -/
theorem dtx_machine_resume (nb f : Nat) : decideDtx true nb f = (false, 0) := decideDtx_active nb f

/-! ## The SILK `noSpeechCounter` machine — all VAD schedules (frames of 20 ms, or 10 ms) -/

/-- SILK onset: with constant inactivity from a cleared counter, SILK frame `i` (0-based) may be
    dropped exactly when `i ≥ 10`, i.e. after NB_SPEECH_FRAMES_BEFORE_DTX = 10 coded frames
    (200 ms of 20 ms frames), up to the limit of 30 frames. -/
theorem silk_onset (n : Nat) (h : n ≤ 30) :
    silkSteps 0 (List.replicate n true) = ((List.range n).map (fun i => decide (10 < i + 1)), n) := by
  have := silkSteps_inactive 0 n (by rw [nb_eq, max_eq]; omega)
  simpa [nb_eq] using this

/-- SILK run bound for EVERY VAD schedule: a window of SILK frames that may all be dropped has at
    most MAX_CONSECUTIVE_DTX = 20 frames (400 ms), from any counter value. -/
theorem silk_run_bound (cnt : Nat) (pre post : List Bool) (low : Bool) (rest : List Bool)
    (h : ∀ d ∈ ((silkSteps cnt (pre ++ low :: rest ++ post)).1.drop pre.length).take (low :: rest).length, d = true) :
    (low :: rest).length ≤ 20 := by
  rw [silkSteps_window] at h
  exact silk_run_bound_seg _ low rest h

example : (silkSteps 0 (List.replicate 31 true)).1 = List.replicate 10 false ++ List.replicate 20 true ++ [false] := by
  decide

/-- SILK refresh and resume: the 21st consecutive droppable frame is coded and puts the counter back to
    10; a frame with voice activity is never dropped and clears the counter. -/
theorem silk_refresh_resume (cnt : Nat) (s : SilkCh) :
    (30 < cnt + 1 → silkVad ⟨cnt, true⟩ true = ⟨10, false⟩) ∧ silkVad s false = ⟨0, false⟩ := by
  refine ⟨fun h => ?_, silkVad_active s⟩
  have := silkVad_refresh cnt (by rw [nb_eq, max_eq]; omega)
  rwa [nb_eq] at this

example : silkVad ⟨30, true⟩ true = ⟨10, false⟩ ∧ silkVad ⟨17, true⟩ false = ⟨0, false⟩ := by decide

/-! ## Packets: `opus_encode*` calls -/

/-- Clause "DTX packets (at most 2 bytes)".  Whenever a call of the skeleton returns a DTX packet, from any
    state and for all oracle values, its length is `dtxPacketLen` of the number of coded frames — 1 byte
    (TOC alone, also for two frames: code 1) or 2 bytes (code 3 with the frame count) — and so is every
    DTX packet of every run.  (`AllDtx l`, the premise of `dtx_run_bound`, says "every packet of `l` is
    `Pkt.dtx n` for some `n`"; by this theorem such an `n` is 1 or 2.) -/
theorem dtx_packet_at_most_two_bytes (c : Cfg) :
    (∀ (st : St) (o : CallOr) (n : Nat), (encodeCall c st o).2.1 = Pkt.dtx n →
      n = dtxPacketLen (nSub c o.mode) ∧ 1 ≤ n ∧ n ≤ 2) ∧
    (∀ (ors : List CallOr) (st : St) (n : Nat), Pkt.dtx n ∈ pkts c st ors → 1 ≤ n ∧ n ≤ 2) :=
  ⟨fun st o n h => encodeCall_dtx_len c st o n h, pkts_dtx_len c⟩

example : dtxPacketLen 1 = 1 ∧ dtxPacketLen 2 = 1 ∧ dtxPacketLen 3 = 2 ∧ dtxPacketLen 6 = 2 := by decide

/-- Clause "whenever the activity analysis is running (complexity ≥ 7, Fs ≥ 16 kHz) digital silence
    makes it emit DTX packets starting within one frame duration of the 200 ms mark after activity
    stops".  Any API sampling rate and frame duration (`q` = 1…48 units of 2.5 ms), any mode /
    bandwidth / channel decisions per call, counter just cleared by activity: in a run of calls fed
    digital silence there is a first DTX packet — of 1 or 2 bytes, clause "DTX packets (at most 2 bytes)",
    see `dtx_packet_at_most_two_bytes` —, every earlier packet is a normal one, and it starts at
    `t = P·F` with `200 ms − F < t < 200 ms + F` (`F = 5q` the packet duration in Q1 ms).
    (`NoBust`: no coded frame overran its byte budget — else "normal" would read "normal or the 2-byte
    overrun packet"; the existence and position of the first DTX packet do not depend on it.) -/
theorem dtx_onset (c : Cfg) (hfs : c.fs ∈ [8000, 12000, 16000, 24000, 48000])
    (hq : c.q ∈ [1, 2, 4, 8, 16, 24, 32, 40, 48]) (hr : Regular c) (hdtx : c.useDtx = true)
    (hon : c.complexity ≥ 7 ∧ c.fs ≥ 16000) (ors : List CallOr) (st : St) (hnb : st.nb = 0)
    (hsil : ∀ o ∈ ors, o.digSil = true ∧ o.subs.length = nSub c o.mode ∧ NoBust o)
    (hlong : 400 + 2 * (5 * c.q) ≤ ors.length * (5 * c.q)) :
    ∃ P, P < ors.length ∧ (∀ j < P, (pkts c st ors)[j]? = some Pkt.normal) ∧
      (∃ n, 1 ≤ n ∧ n ≤ 2 ∧ (pkts c st ors)[P]? = some (Pkt.dtx n)) ∧
      400 < P * (5 * c.q) + 5 * c.q ∧ P * (5 * c.q) < 400 + 5 * c.q := by
  have hq' : 1 ≤ c.q ∧ c.q ≤ 48 := by
    simp only [List.mem_cons, List.not_mem_nil, or_false] at hq
    omega
  have hon' : analysisOn c = true := by simp [analysisOn, hon.1, hon.2]
  have := onset_window c hr (goodGeom_of_api c hfs hq) hdtx hon' hq' ors st hnb hsil (by rw [onsetQ1_eq]; exact hlong)
  rw [onsetQ1_eq] at this
  obtain ⟨P, hP, hbefore, ⟨n, hn⟩, h1, h2⟩ := this
  have hlen := pkts_dtx_len c ors st n (List.mem_of_getElem? hn)
  exact ⟨P, hP, hbefore, ⟨n, hlen.1, hlen.2, hn⟩, h1, h2⟩

/- 20 ms packets at 16 kHz: ten normal packets, the eleventh (starting at t = 200 ms) is a DTX packet. -/
example : pkts Ex.cfg (initSt 1) (List.replicate 12 Ex.silent) =
    List.replicate 10 Pkt.normal ++ List.replicate 2 (Pkt.dtx 1) := by decide

/- 60 ms packets coded as 3 x 20 ms (CELT-only): a packet is tiny only when all three coded frames are
   dropped, so the first DTX packet (2 bytes: code 3) starts at 240 ms = 200 ms + 40 ms < 200 ms + F. -/
example : nSub Ex.cfg60 .celt = 3 ∧ pkts Ex.cfg60 (initSt 1) (List.replicate 6 Ex.silent60) =
    List.replicate 4 Pkt.normal ++ List.replicate 2 (Pkt.dtx 2) := by decide

/-- Clause "in every configuration a run of consecutive DTX packets exceeds 400 ms by less than one
    frame duration before a regular refresh packet is sent".  Any API sampling rate and packet duration,
    any state `st` (so: after any history), any run `pre ++ seg ++ post` of calls with arbitrary oracle
    values satisfying the contract — whichever detector is in charge of which call, any modes, mono
    or stereo, single- or multi-frame packets: if every packet of the window `seg` is a DTX packet then
    `seg` lasts less than 400 ms plus one packet duration (so a regular packet must follow within that
    time).  (A DTX packet has 1 or 2 bytes: `dtx_packet_at_most_two_bytes`.) -/
theorem dtx_run_bound (c : Cfg) (hfs : c.fs ∈ [8000, 12000, 16000, 24000, 48000])
    (hq : c.q ∈ [1, 2, 4, 8, 16, 24, 32, 40, 48]) (st : St) (pre seg post : List CallOr)
    (hok : ∀ o ∈ seg, oracleOk c o = true)
    (hall : AllDtx (((pkts c st (pre ++ seg ++ post)).drop pre.length).take seg.length)) :
    seg.length * (5 * c.q) < 800 + 5 * c.q := by
  rw [pkts_window] at hall
  have hq' : 1 ≤ c.q ∧ c.q ≤ 48 := by
    simp only [List.mem_cons, List.not_mem_nil, or_false] at hq
    omega
  exact run_dtx_bound c (goodGeom_of_api c hfs hq) hq' seg _ hok hall

/- generalised detector: 10 normal, 20 DTX (400 ms), refresh, DTX again -/
example : pkts Ex.cfg (initSt 1) (List.replicate 33 Ex.silent) =
    List.replicate 10 Pkt.normal ++ List.replicate 20 (Pkt.dtx 1) ++ [Pkt.normal] ++ List.replicate 2 (Pkt.dtx 1) := by
  decide
/- SILK's own DTX (complexity 5): the same pattern from the SILK counter -/
example : pkts Ex.cfgLow (initSt 1) (List.replicate 33 Ex.faint) =
    List.replicate 10 Pkt.normal ++ List.replicate 20 (Pkt.dtx 1) ++ [Pkt.normal] ++ List.replicate 2 (Pkt.dtx 1) := by
  decide
/- the oracle contract holds for these records -/
example : oracleOk Ex.cfg Ex.silent = true ∧ oracleOk Ex.cfgLow Ex.faint = true ∧ oracleOk Ex.cfg Ex.faint = true := by decide

/-- The mechanism behind the run bound across detectors: a call at which the detector in charge
    changes (`silk_mode.useDTX` decided for the call differs from the stored one) never returns a DTX
    packet, because both run counters were cleared (src/opus_encoder.c:1388-1399). -/
theorem dtx_detector_switch_no_dtx (c : Cfg) (hfs : c.fs ∈ [8000, 12000, 16000, 24000, 48000])
    (hq : c.q ∈ [1, 2, 4, 8, 16, 24, 32, 40, 48]) (st : St) (o : CallOr) (hok : oracleOk c o = true)
    (hsw : sdtxOf c o ≠ st.silkUseDtx) (n : Nat) : (encodeCall c st o).2.1 ≠ Pkt.dtx n := by
  intro h
  have hq' : c.q ≤ 48 := by
    simp only [List.mem_cons, List.not_mem_nil, or_false] at hq
    omega
  exact hsw (encodeCall_dtx_no_switch c st o (goodGeom_of_api c hfs hq) hq' hok n h)

/- The former counterexample run: ten silent calls (generalised detector), twenty calls with faint input and
   no valid analysis (SILK's DTX takes over: counters cleared, 200 ms hang-over, then SILK drops), twenty-one
   silent calls (generalised detector takes over: counters cleared, hang-over, then DTX).  Before the
   repair this run had 40 DTX packets in a row. -/
example : pkts Ex.cfg (initSt 1) (List.replicate 10 Ex.silent ++ List.replicate 20 Ex.faint ++ List.replicate 21 Ex.silent) =
      List.replicate 20 Pkt.normal ++ List.replicate 10 (Pkt.dtx 1) ++ List.replicate 10 Pkt.normal ++
        List.replicate 11 (Pkt.dtx 1) := by decide

/- Per-frame analysis results that disagree with the call-level one (hybrid 60 ms packets, call-level and
   second coded frame invalid, first and third valid and inactive: one NaN sample per packet): SILK's DTX
   is in charge of every frame of the call, runs of six DTX packets (360 ms) with a refresh in between.
   Before the repair at src/opus_encoder.c:2432 the refresh frames were dropped by `decide_dtx_mode`. -/
example : oracleOk Ex.cfgHyb Ex.nanPkt = true ∧ pkts Ex.cfgHyb (initSt 1) (List.replicate 25 Ex.nanPkt) =
    List.replicate 4 Pkt.normal ++ List.replicate 6 (Pkt.dtx 2) ++ [Pkt.normal] ++ List.replicate 6 (Pkt.dtx 2) ++ [Pkt.normal] ++
      List.replicate 6 (Pkt.dtx 2) ++ [Pkt.normal] := by decide

/-- Clause "the first frame of renewed activity is coded normally" — generalised detector.  On a
    regular call with a valid analysis and non-silent input, if the detector judges some coded frame
    of the packet active, the packet is a normal one (whatever the counters were), provided no coded
    frame overran its byte budget (`NoBust`, the inner-encoder contract; see `dtx_off_no_tiny`). -/
theorem dtx_resume (c : Cfg) (st : St) (o : CallOr) (hr : Regular c) (hlen : o.subs.length = nSub c o.mode)
    (hon : c.complexity ≥ 7 ∧ c.fs ≥ 16000) (hv0 : o.valid0 = true) (hsil : o.digSil = false)
    (hact : ∃ s ∈ o.subs, s.valid = true ∧ s.det = true) (hnb : NoBust o) : (encodeCall c st o).2.1 = Pkt.normal :=
  encodeCall_active c st o hr hlen (by simp [analysisOn, hon.1, hon.2]) hv0 hsil hact hnb

/-- … and the coded frame judged active is itself never returned as a DTX frame and clears
    `nb_no_activity_ms_Q1` (any mode, any state in which SILK's own DTX is off). -/
theorem dtx_resume_counter (useDtx : Bool) (mode : Mode) (fQ1 : Nat) (tc : Bool) (st : St) (o : Sub)
    (hs : st.silkUseDtx = false) (hv : o.valid = true) (hd : o.det = true) :
    (frameStep useDtx false mode fQ1 tc st o).2.1 = false ∧ (frameStep useDtx false mode fQ1 tc st o).1.nb = 0 :=
  frameStep_active useDtx mode fQ1 tc st o hs hv hd

/-- Clause "the first frame of renewed activity is coded normally" — SILK's own DTX in charge, for ALL
    oracle values: if, in some coded frame of the call for which Opus did not force "no activity" (its
    analysis result is not valid, or the detector judged it active), SILK's VAD marks a frame of the mid
    channel active, the call does not return a DTX packet. -/
theorem dtx_resume_silk (c : Cfg) (st : St) (o : CallOr) (hsk : SilkCall c o)
    (hact : ∃ s ∈ o.subs, (s.valid = true → s.det = true) ∧
      ∃ m, s.silk.getLast? = some m ∧ ∃ f ∈ m.frames, f.low0 = false) (n : Nat) :
    (encodeCall c st o).2.1 ≠ Pkt.dtx n :=
  encodeCall_silk_active c st o hsk hact n

/- after 600 ms of silence (in the middle of a DTX run) speech is coded normally at once, under either detector -/
example : pkts Ex.cfg (initSt 1) (List.replicate 15 Ex.silent ++ [Ex.speech]) =
      List.replicate 10 Pkt.normal ++ List.replicate 5 (Pkt.dtx 1) ++ [Pkt.normal] ∧
    pkts Ex.cfgLow (initSt 1) (List.replicate 15 Ex.faint ++ [Ex.speechLow]) =
      List.replicate 10 Pkt.normal ++ List.replicate 5 (Pkt.dtx 1) ++ [Pkt.normal] := by decide

/-- Clause "the in-DTX query is true on every DTX packet".  For a fresh encoder (any channel count),
    any configuration and any run of calls whose oracle records satisfy the shape contract — whichever
    detector is in charge of which call, single- or multi-frame packets, mono or stereo SILK — after
    every call that returned a DTX packet `OPUS_GET_IN_DTX` answers 1. -/
theorem in_dtx_on_dtx_packets (c : Cfg) (ch : Nat) (ors : List CallOr) (hok : ∀ o ∈ ors, oracleOk c o = true) :
    ∀ x ∈ run c (initSt ch) ors, (∃ n, x.1 = Pkt.dtx n) → x.2 = true :=
  run_inDtx c ors (initSt ch) (inv_init ch) hok

/- the query along a run with two changes of detector: true from the 200 ms mark of each stretch on -/
example : (run Ex.cfg (initSt 1) (List.replicate 10 Ex.silent ++ List.replicate 20 Ex.faint ++ List.replicate 20 Ex.silent)).map Prod.snd =
    List.replicate 9 false ++ [true] ++ List.replicate 9 false ++ List.replicate 11 true ++ List.replicate 9 false ++ List.replicate 11 true := by
  decide

/-- Range of the two run counters (behind the run bound and the in-DTX query; also: the C `int`s never
    overflow).  Along any run of calls, with arbitrary oracle values, from a fresh encoder:
    `nb_no_activity_ms_Q1 ≤ 1200` (600 ms in Q1) and both SILK `noSpeechCounter`s `≤ 30` after every call. -/
theorem counters_in_range (c : Cfg) (ch : Nat) (ors : List CallOr) :
    (runFinal c (initSt ch) ors).nb ≤ 1200 ∧ (runFinal c (initSt ch) ors).silk.c0 ≤ 30 ∧
      (runFinal c (initSt ch) ors).silk.c1 ≤ 30 := by
  have := run_counters_bounded c (initSt ch) ors ⟨Nat.zero_le _, Nat.zero_le _, Nat.zero_le _⟩
  rw [limitQ1_eq] at this
  unfold SilkBounded at this
  rw [nb_eq, max_eq] at this
  exact ⟨this.1, this.2.1, this.2.2⟩

example : (runFinal Ex.cfg (initSt 1) (List.replicate 30 Ex.silent)).nb = 1200 ∧
    (runFinal Ex.cfgLow (initSt 1) (List.replicate 30 Ex.faint)).silk.c0 = 30 := by decide +kernel

/-- `Regular` — the premise "bitrate and buffer allow at least three bytes per frame" as the code has it
    (src/opus_encoder.c:1249-1268) — in bitrate / buffer terms.  With `(max_data_bytes, bitrate) = budget c`
    (the buffer clamped to 1276 and, for CBR, to the byte count of one packet at the bitrate) and
    `frame_rate = Fs/frame_size`: the call reaches the frame loop iff `frame_size ≠ 0`, three bytes fit
    and are paid for (`ThreeBytes`), and — packets longer than 20 ms only — at least 300 bytes/s and
    2400 bit/s are available (`LongFrameFloor`). -/
theorem regular_iff_budget (c : Cfg) :
    Regular c ↔ frameSize c ≠ 0 ∧ (3 ≤ (budget c).1 ∧ 3 * frameRate c * 8 ≤ (budget c).2) ∧
      (50 ≤ frameRate c ∨ (300 ≤ (budget c).1 * frameRate c ∧ 2400 ≤ (budget c).2)) :=
  regular_iff c

/-- For packets of at most 20 ms (`frame_rate ≥ 50`) the code's rule is exactly the property's wording:
    three bytes fit the buffer and the bitrate pays for three bytes per packet. -/
theorem regular_iff_three_bytes (c : Cfg) (h : 50 ≤ frameRate c) :
    Regular c ↔ frameSize c ≠ 0 ∧ 3 ≤ (budget c).1 ∧ 3 * frameRate c * 8 ≤ (budget c).2 :=
  regular_iff_short c h

/- VBR 12 kb/s, 20 ms, full buffer: regular.  The gray zone of longer packets (known finding
   C20-low-budget-long-frames): 60 ms, VBR 64 kb/s, 18-byte buffer — 18 bytes fit and 64 kb/s pay for far more
   than three bytes per packet, yet the call returns the 2-byte low-budget packet, DTX off. -/
example : Regular Ex.cfg ∧ budget Ex.cfgGray = (18, 64000) ∧ frameRate Ex.cfgGray = 16 ∧ ThreeBytes Ex.cfgGray ∧
    ¬ Regular Ex.cfgGray ∧ (encodeCall Ex.cfgGray (initSt 1) Ex.speech).2.1 = Pkt.lowBudget 2 := by
  refine ⟨⟨by decide, by decide⟩, by decide, by decide, ⟨by decide, by decide⟩, ?_, by decide⟩
  intro h; exact absurd h.2 (by decide)

/-- Clause "with DTX disabled no packet of two bytes or fewer is ever emitted as long as bitrate and
    buffer allow at least three bytes per frame" — the DTX, low-budget and budget-overrun return paths.
    With `use_dtx = 0`, a frame size accepted by the API and a budget outside the code's low-budget class
    (`Regular c`, the code's own rule of src/opus_encoder.c:1267; in bitrate / buffer terms by
    `regular_iff_budget`: `max_data_bytes ≥ 3`, `bitrate ≥ 3·8·frame_rate`, and for packets longer than
    20 ms at least 300 bytes/s and 2400 bit/s; for packets of at most 20 ms this is exactly the property's
    "three bytes per frame", `regular_iff_three_bytes`; for longer packets the code demands more and
    emits 1–2-byte PLC packets in between — known finding C20-low-budget-long-frames, example after
    `regular_iff_budget`), from any state and for all oracle
    values, UNDER THE INNER-ENCODER CONTRACT `NoBust` ("the SILK payload fits the frame budget": the
    branch `ec_tell(&enc) > (max_data_bytes-1)*8` of :2448-2457 is not taken in any coded frame),
    every call goes through the frame loop, none of its coded frames takes a DTX return and the packet is
    the inner encoders' coded audio.  The contract is an explicit hypothesis, not a theorem: the real
    SILK encoder does overrun tight budgets (known finding C20-silk-bust-2byte: 60 ms stereo, FEC on,
    79-byte buffer), and then the call returns the 2-byte packet `Pkt.bust` — see the example below. -/
theorem dtx_off_no_tiny (c : Cfg) (hr : Regular c) (hoff : c.useDtx = false) (st : St) (ors : List CallOr)
    (hlen : ∀ o ∈ ors, o.subs.length = nSub c o.mode ∧ NoBust o) : ∀ p ∈ pkts c st ors, p = Pkt.normal :=
  run_dtx_off c hr hoff ors st hlen

example : Regular Ex.cfgOff ∧ pkts Ex.cfgOff (initSt 1) (List.replicate 40 Ex.silent) = List.replicate 40 Pkt.normal := by
  refine ⟨⟨by decide, by decide⟩, by decide⟩
/- the contract is necessary: a single-frame packet whose payload overran the budget is the 2-byte packet,
   DTX off or on, and it is never a DTX packet (the in-DTX query stays 0 during speech) -/
example : pkts Ex.cfgOff (initSt 1) [Ex.speech, Ex.speechBust] = [Pkt.normal, Pkt.bust] ∧
    run Ex.cfg (initSt 1) [Ex.speech, Ex.speechBust] = [(Pkt.normal, false), (Pkt.bust, false)] := by decide

/-! ## The SILK voice activity detector (the detector in charge when the analysis does not run) -/

section SilkVad
open Opus.SilkVad Opus.SilkParams

/-- `silk_VAD_Init` establishes the VAD state invariant: `0 ≤ counter ≤ 1000`, `NoiseLevelBias ≥ 1`,
    `0 ≤ NL ≤ 2^24-1`, `1 ≤ inv_NL ≤ int32_MAX`, `0 ≤ XnrgSubfr`, `1 ≤ NrgRatioSmth_Q8`, `|HPstate| ≤ 2^14`. -/
theorem vad_init_invariant : VadInv vadInit := vadInv_init

/-- `silk_VAD_GetSA_Q8_c` is total and in range, for every reachable VAD state and every input frame:
    from any state satisfying the invariant (so: after `silk_VAD_Init` and any history of calls), for any
    legal `frame_length` (a multiple of 8, at most 512) and any frame, the call returns — no assertion, no
    read outside the frame, every divisor positive (`nrg`, `inv_NL`, `NL+1`, `(NL>>8)+1`:
    `noiseBand_inv`, `snrBand_range`) — the invariant holds again, `NoiseLevelBias` is unchanged, and
    `speech_activity_Q8 ∈ [0,255]`, `input_tilt_Q15 ∈ [-32768,32766]`, `input_quality_bands_Q15 ∈ [0,32767]`. -/
theorem vad_total_in_range (st : VadState) (hinv : VadInv st) (fsKHz frameLength : Nat)
    (hlen : frameLength ≤ 512 ∧ frameLength % 8 = 0) (pIn : List Int) (hp : frameLength ≤ pIn.length) :
    ∃ o, getSA st fsKHz frameLength pIn = .ok o ∧ VadInv o.st ∧ OutOk o ∧ o.st.bias = st.bias :=
  getSA_ok st hinv fsKHz frameLength hlen pIn hp

/- first frame of a fresh detector on digital silence (16 kHz, 20 ms): inactive (2 < 13) -/
example : (match getSA vadInit 16 320 (List.replicate 320 0) with | .ok o => o.speechActivityQ8 | _ => -1) = 2 := by
  decide +kernel

/-- 32-bit range of the energy accumulators: for an int16 band signal of decimated length at most 256
    (`frame_length ≤ 512`), every sub-frame sum of squares stays in `[0, 2^30]` (the plain C accumulation
    cannot overflow) and the accumulation with the documented `silk_ADD_POS_SAT32` stays in
    `[0, int32_MAX]`, whatever non-negative energy was carried over from the previous frame. -/
theorem vad_energy_fits_32bit (carry : Int) (x : List Int) (len : Nat) (hc : 0 ≤ carry ∧ carry ≤ 2147483647)
    (hx : ∀ y ∈ x, -32768 ≤ y ∧ y ≤ 32767) (hlen : len ≤ 256) :
    (0 ≤ (bandEnergy carry x len).1 ∧ (bandEnergy carry x len).1 ≤ 2147483647) ∧
    (0 ≤ (bandEnergy carry x len).2 ∧ (bandEnergy carry x len).2 ≤ 1073741824) :=
  bandEnergy_range carry x len hc hx hlen

example : bandEnergy 2147483000 (List.replicate 160 (-32768)) 160 = (2147483647, 40 * 4096 * 4096) := by decide +kernel

/-- 32-bit range of the filter bank (`silk_ana_filt_bank_1`, plain C `+`/`-`): from filter states bounded by
    `1.5·10^8` (`Lvl st stBn stBn stBn`; true after `silk_VAD_Init`, `lvl_init`) every call on an int16 frame
    returns with the invariant, the output ranges and the same bound on all six filter states again; and in
    one iteration of the filter loop on int16 samples from such states every intermediate (`Y`, `X`,
    `out_1`, `out_2`, their sum and difference, the new states) lies inside 32 bits, so that the model's
    unbounded arithmetic is the C arithmetic. -/
theorem vad_filter_state_32bit :
    Lvl vadInit stBn stBn stBn ∧
    (∀ (st : VadState) (fsKHz frameLength : Nat) (pIn : List Int), Lvl st stBn stBn stBn →
      frameLength ≤ 512 ∧ frameLength % 8 = 0 → frameLength ≤ pIn.length → (∀ x ∈ pIn, -32768 ≤ x ∧ x ≤ 32767) →
      ∃ o, getSA st fsKHz frameLength pIn = .ok o ∧ Lvl o.st stBn stBn stBn ∧ OutOk o) ∧
    (∀ (s : Int × Int) (x0 x1 : Int), AbsLe s stB → I16 x0 → I16 x1 →
      let y := x0 * 1024 - s.1
      let x := y + y * (-24290) / 65536
      let y2 := x1 * 1024 - s.2
      let x2 := y2 * 10788 / 65536
      (anaStep s x0 x1).1 = (x0 * 1024 + x, x1 * 1024 + x2) ∧ AbsLe (anaStep s x0 x1).1 stB ∧
      Fits32 y ∧ Fits32 x ∧ Fits32 (s.1 + x) ∧ Fits32 y2 ∧ Fits32 x2 ∧ Fits32 (s.2 + x2) ∧
      Fits32 ((s.2 + x2) + (s.1 + x)) ∧ Fits32 ((s.2 + x2) - (s.1 + x))) := by
  refine ⟨lvl_init, fun st fs len pIn h hl hp h16 => getSA_lvl st h fs len hl pIn hp h16, ?_⟩
  intro s x0 x1 hs h0 h1
  have h := anaStep_spec s x0 x1 hs h0 h1
  simp only at h ⊢
  rw [h.1]
  exact ⟨rfl, h.2.1, h.2.2⟩

example : stB = 150000000 ∧ stB < 2147483647 := by decide

/-- **Digital silence is inactive** (clause needed where SILK's detector is in charge).  For every SILK
    configuration (frame length `8·j` samples with `10 ≤ j ≤ 64`: 8/12/16 kHz, 10 or 20 ms) and EVERY
    reachable VAD state (invariant + bounded filter memories), on all-zero input frames the eighth frame
    and every later one (0-based index `n ≥ 7`) report `speech_activity_Q8 = 2 < 13 =
    SPEECH_ACTIVITY_DTX_THRES` — so `silk_encode_do_VAD` increments `noSpeechCounter` from then on.  (The
    first seven frames may still be active: ringing of the three cascaded all-pass stages — 10 iterations
    per frame for the last one at 8 kHz / 10 ms —, the differentiator state and the look-ahead sub-frame
    energy carried in `XnrgSubfr`; 7 is a proved bound, the search has never seen more than 3.) -/
theorem vad_silence_inactive (st : VadState) (fsKHz j : Nat) (hj : 10 ≤ j ∧ j ≤ 64) (h : Lvl st stBn stBn stBn)
    (n : Nat) (hn : 7 ≤ n) :
    getSA (stZ st fsKHz j n) fsKHz (8 * j) (List.replicate (8 * j) 0) = .ok (stepZ (stZ st fsKHz j n) fsKHz j) ∧
    saZ st fsKHz j n = 2 ∧ saZ st fsKHz j n < speechActivityDtxThresQ8 := by
  have := silence_inactive st fsKHz j hj h n hn
  exact ⟨getSA_zero _ _ _ hj.2, this, by rw [this]; decide⟩

/- a loud full-scale Nyquist frame, then silence, 8 kHz / 10 ms: the first silent frame is still fully active
   (carried look-ahead energy and filter ringing), the second and all later ones are inactive -/
example : (match getSA vadInit 8 80 ((List.range 80).map (fun i => if i % 2 = 0 then 32767 else -32768)) with
    | .ok o => (o.speechActivityQ8, saZ o.st 8 10 0, saZ o.st 8 10 1, saZ o.st 8 10 7) | _ => (0, 0, 0, 0)) = (255, 255, 2, 2) := by
  decide +kernel

/-- **Onset of SILK's own DTX on digital silence** — the onset clause for the configurations where the
    tonality analysis does not run (complexity < 7 or Fs < 16 kHz: `silk_mode.useDTX = use_dtx`, Opus passes
    `VAD_NO_DECISION`, and a frame is dropped exactly when the `noSpeechCounter` machine allows it).  For
    every SILK frame length, every reachable VAD state and every value `cnt ≤ 30` the counter can hold, if
    the VAD input is all-zero for `n ≥ 18` frames then every frame from the eighth on is judged inactive
    and a frame that SILK may drop occurs among the first 18 frames: DTX starts within
    `NB_SPEECH_FRAMES_BEFORE_DTX + 7` frames (200 ms + 7 frames of 20 ms; the generalised detector's
    window is 200 ms ± one packet).  The VAD input is SILK's internal-rate signal: digital silence at the API
    reaches it as exact zeros only after the resampler and high-pass memories have run out — that part is
    not modelled and is covered by the witness search on the real encoder. -/
theorem silk_dtx_onset_on_silence (st : VadState) (fsKHz j n cnt : Nat) (hj : 10 ≤ j ∧ j ≤ 64)
    (h : Lvl st stBn stBn stBn) (hc : cnt ≤ 30) (hn : 18 ≤ n) :
    (∀ i, 7 ≤ i → i < n → (lowsZ st fsKHz j n)[i]? = some true) ∧
    ∃ i, i ≤ 17 ∧ (silkSteps cnt (lowsZ st fsKHz j n)).1[i]? = some true :=
  silk_onset_on_silence st fsKHz j n cnt hj h hc hn

/- fresh detector and counter, 16 kHz / 20 ms: inactive at once, the 11th frame is the first droppable one -/
example : (silkSteps 0 (lowsZ vadInit 16 40 12)).1 = List.replicate 10 false ++ [true, true] := by decide +kernel

end SilkVad

/-! ## The decoder fed the DTX stream -/

/-- Clause "a decoder fed the DTX stream (treating DTX packets as given or as losses) produces the
    requested durations".  For the decoder skeleton of C01 (any oracle within its contracts, any decoder
    state satisfying the decoder invariant, any decoder rate / channel count) and EVERY DTX packet shape
    the encoder emits — `dtxBytes t n`: the TOC alone, code 1 for two coded frames, code 3 with the
    frame count for 3…6 coded frames, any TOC `t` with clear code bits, at most 120 ms:
    * as given: `opus_decode_native` returns exactly `n` times the TOC's frame duration (and reports it
      as the last packet duration) whenever the caller's `frame_size` has room for it;
    * as a loss (`data = NULL`): it returns exactly the requested `frame_size` (a positive multiple of
      2.5 ms);
    and the TOC that `gen_toc` writes for a coded frame of `u` 2.5-ms units tells every decoder rate
    `Fs` a frame duration of `Fs·u/400` samples, so "`n` times the TOC's frame duration" is the duration
    the encoder was asked to code. -/
theorem dtx_stream_decodes (o : DecSkel.Oracle) (ho : DecSkel.OracleOk o) (r : DecSkel.Run) (hinv : DecSkel.DecInv r.st)
    (hlog : r.log = []) (t n : Nat) (ht : t ∈ tocs) (hn : n ∈ [1, 2, 3, 4, 5, 6])
    (hdur : n * Framing.samplesPerFrame t 48000 ≤ 5760) (pcm : DecSkel.Ptr) (frame_size : Int) (sc : Bool)
    (hbuf : pcm.buf = .pcm) (hroom : 0 ≤ pcm.off ∧ pcm.off + frame_size * r.st.channels ≤ pcm.cap) :
    ((n : Int) * (Framing.samplesPerFrame t r.st.Fs.toNat : Int) ≤ frame_size →
      (DecSkel.decodeNative o (some (dtxBytes t n)) (dtxBytes t n).length pcm frame_size 0 false sc r).ret =
          .ret ((n : Int) * (Framing.samplesPerFrame t r.st.Fs.toNat : Int)) ∧
      (DecSkel.decodeNative o (some (dtxBytes t n)) (dtxBytes t n).length pcm frame_size 0 false sc r).run.st.last_packet_duration =
          (n : Int) * (Framing.samplesPerFrame t r.st.Fs.toNat : Int)) ∧
    (0 < frame_size → frame_size % (r.st.Fs / 400) = 0 →
      (DecSkel.decodeNative o none 0 pcm frame_size 0 false sc r).ret = .ret frame_size) ∧
    (∀ x ∈ encCombos, ∀ ch ∈ [(1 : Int), 2], EncDecide.genToc x.1 x.2.1 x.2.2 ch ∈ tocs ∧
      ∀ fsd ∈ [8000, 12000, 16000, 24000, 48000],
        Framing.samplesPerFrame (EncDecide.genToc x.1 x.2.1 x.2.2 ch) fsd * 400 = fsd * frameUnits x.2.1) :=
  ⟨fun hfit => decode_dtx_given o ho r hinv hlog t n ht hn hdur pcm frame_size sc hbuf hroom hfit,
   fun hpos hmul => (OpusProps.C01.decodeNative_plc_duration o ho r hinv hlog none (fun _ h => by cases h) 0 pcm frame_size 0
      false sc hbuf hroom (Or.inl rfl) hpos hmul (Or.inl (Or.inl rfl))).1,
   genToc_frame⟩

/- an instance through C01's example oracle: fresh 48 kHz mono decoder, SILK-only WB 20 ms TOC 0x48: the 1-byte
   DTX packet decodes to 960 samples, the 2-byte code-3 packet of three frames to 2880, a loss to the requested 960 -/
example : ∃ st, DecSkel.init 48000 1 = some st ∧
    (DecSkel.decodeNative DecSkel.exOracle (some [72]) 1 ⟨.pcm, 0, 5760⟩ 5760 0 false false ⟨st, 0, []⟩).ret = .ret 960 ∧
    (DecSkel.decodeNative DecSkel.exOracle (some [75, 3]) 2 ⟨.pcm, 0, 5760⟩ 5760 0 false false ⟨st, 0, []⟩).ret = .ret 2880 ∧
    (DecSkel.decodeNative DecSkel.exOracle none 0 ⟨.pcm, 0, 5760⟩ 960 0 false false ⟨st, 0, []⟩).ret = .ret 960 := by
  refine ⟨_, rfl, ?_, ?_, ?_⟩
  · exact ((dtx_stream_decodes DecSkel.exOracle DecSkel.exOracle_ok ⟨_, 0, []⟩ (DecSkel.init_inv (fs := 48000) (ch := 1) rfl) rfl
      72 1 (by decide) (by decide) (by decide) ⟨.pcm, 0, 5760⟩ 5760 false rfl (by decide)).1 (by decide)).1
  · exact ((dtx_stream_decodes DecSkel.exOracle DecSkel.exOracle_ok ⟨_, 0, []⟩ (DecSkel.init_inv (fs := 48000) (ch := 1) rfl) rfl
      72 3 (by decide) (by decide) (by decide) ⟨.pcm, 0, 5760⟩ 5760 false rfl (by decide)).1 (by decide)).1
  · exact (dtx_stream_decodes DecSkel.exOracle DecSkel.exOracle_ok ⟨_, 0, []⟩ (DecSkel.init_inv (fs := 48000) (ch := 1) rfl) rfl
      72 1 (by decide) (by decide) (by decide) ⟨.pcm, 0, 5760⟩ 960 false rfl (by decide)).2.1 (by decide) (by decide)

/- the three shapes, with their lengths as `dtxPacketLen` has them; SILK-only WB 20 ms mono (TOC 0x48):
   three coded frames decode to 60 ms = 2880 samples at 48 kHz -/
example : dtxBytes 72 1 = [72] ∧ dtxBytes 72 2 = [73] ∧ dtxBytes 72 3 = [75, 3] ∧
    (dtxBytes 72 3).length = dtxPacketLen 3 ∧ 72 ∈ tocs ∧ 3 * Framing.samplesPerFrame 72 48000 = 2880 ∧
    EncDecide.genToc 1000 50 1103 1 = 72 := by decide

end OpusProps.C20
