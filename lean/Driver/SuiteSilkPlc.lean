import OpusModel.SilkPlcConceal
import OpusModel.SilkPlcCng
import OpusModel.SilkPlcGlue
import Driver.Util
/-! Suite `silkplc` (C09 extension `SilkPlc`): SILK concealment / comfort noise value model against the real
    silk_PLC / silk_CNG / silk_PLC_glue_frames on live decoder states (harness/c09_silkplc.c).  Lists are `a,b,c`
    (`-` = empty).  A PLC state is the 13 tokens
      pitchL_Q8 LTPCoef_Q14[5] prevLPC_Q12[16] last_frame_lost rand_seed randScale_Q14 conc_energy conc_energy_shift
      prevLTP_scale_Q14 prevGain_Q16[2] fs_kHz nb_subfr subfr_length.

    conceal fs nb L sl ltpMem order lossCnt prevSig firstAfterReset exc_Q14[320] sLPC_Q14_buf[16] outBuf[480] <plc>
        → silk_PLC( …, lost = 1 ):  `OK f=<frame> sLPC=… lossCnt=… prevSig=… pitchL=<ctrl pitchL[4]> plc= <plc>` / ABORT
    upd fs nb L sl order signalType pitchL[4] Gains_Q16[4] PredCoef_Q12[1][16] LTPCoef_Q14[20] LTP_scale_Q14 <plc>
        → silk_PLC( …, lost = 0 ):  `OK prevSig=… plc= <plc>`
    cng fs nb sl order lossCnt prevSig prevNLSF[16] exc_Q14 Gains_Q16[4] randScale prevGain1
        CNG_exc_buf[320] smth_NLSF[16] synth_state[16] smth_Gain rand_seed fs_kHz frame
        → silk_CNG:  `OK f=… exc=… nlsf=… st=… g=… seed=… fs=…`
    glue lossCnt last_frame_lost conc_energy conc_energy_shift frame
        → silk_PLC_glue_frames:  `OK f=… lfl=… ce=… cs=…`                                                   -/
namespace Driver.SuiteSilkPlc
open Opus Opus.SilkPlc Driver

def parsePlc : List String → Option Plc
  | [pq8, ltp, lpc, lfl, seed, rs, ce, cs, pls, pg, fs, nb, sl] => do
    some { pitchLQ8 := ← parseInt pq8, ltpCoef := ← parseIntList ltp, prevLPC := ← parseIntList lpc,
           lastFrameLost := ← parseInt lfl, randSeed := ← parseInt seed, randScale := ← parseInt rs,
           concEnergy := ← parseInt ce, concEnergyShift := ← parseInt cs, prevLtpScale := ← parseInt pls,
           prevGain := ← parseIntList pg, fsKHz := ← parseInt fs, nbSubfr := ← parseInt nb, subfrLength := ← parseInt sl }
  | _ => none

def plcStr (p : Plc) : String :=
  s!" {p.pitchLQ8} {intList p.ltpCoef} {intList p.prevLPC} {p.lastFrameLost} {p.randSeed} {p.randScale} {p.concEnergy} " ++
  s!"{p.concEnergyShift} {p.prevLtpScale} {intList p.prevGain} {p.fsKHz} {p.nbSubfr} {p.subfrLength}"

def csv (l : List Int) : String := if l.isEmpty then "-" else intList l

def handle (args : List String) : String :=
  match args with
  | "conceal" :: fs :: nb :: fl :: sl :: ltpMem :: order :: lossCnt :: prevSig :: ffar :: exc :: slpc :: outBuf :: plc =>
    match parseInt fs, parseNat nb, parseNat fl, parseNat sl, parseNat ltpMem, parseNat order, parseInt lossCnt,
          parseInt prevSig, parseInt ffar, parseIntList exc, parseIntList slpc, parseIntList outBuf, parsePlc plc with
    | some fs, some nb, some fl, some sl, some ltpMem, some order, some lossCnt, some prevSig, some ffar, some exc,
      some slpc, some outBuf, some plc =>
      let d : Dec := { fsKHz := fs, nbSubfr := nb, frameLength := fl, subfrLength := sl, ltpMemLength := ltpMem,
                       lpcOrder := order, lossCnt := lossCnt, prevSignalType := prevSig, firstFrameAfterReset := ffar,
                       signalType := 0, excQ14 := exc, sLPC := slpc, outBuf := outBuf, plc := plc }
      let c : Ctrl := { pitchL := [], gains := [], predCoef1 := [], ltpCoef := [], ltpScale := 0 }
      match silkPLC d c true with
      | .ok o =>
        s!"OK f={csv o.frame} sLPC={csv o.dec.sLPC} lossCnt={o.dec.lossCnt} prevSig={o.dec.prevSignalType} " ++
        s!"pitchL={csv o.pitchL} plc={plcStr o.dec.plc}"
      | .abort => "ABORT"
      | .oob => "OOB"
      | .err e => errStr e
    | _, _, _, _, _, _, _, _, _, _, _, _, _ => "bad-op"
  | "upd" :: fs :: nb :: fl :: sl :: order :: sig :: pitchL :: gains :: pred :: ltp :: ltpScale :: plc =>
    match parseInt fs, parseNat nb, parseNat fl, parseNat sl, parseNat order, parseInt sig, parseIntList pitchL,
          parseIntList gains, parseIntList pred, parseIntList ltp, parseInt ltpScale, parsePlc plc with
    | some fs, some nb, some fl, some sl, some order, some sig, some pitchL, some gains, some pred, some ltp,
      some ltpScale, some plc =>
      let d : Dec := { fsKHz := fs, nbSubfr := nb, frameLength := fl, subfrLength := sl, ltpMemLength := 0,
                       lpcOrder := order, lossCnt := 0, prevSignalType := 0, firstFrameAfterReset := 0,
                       signalType := sig, excQ14 := [], sLPC := [], outBuf := [], plc := plc }
      let c : Ctrl := { pitchL := pitchL, gains := gains, predCoef1 := pred, ltpCoef := ltp, ltpScale := ltpScale }
      match silkPLC d c false with
      | .ok o => s!"OK prevSig={o.dec.prevSignalType} plc={plcStr o.dec.plc}"
      | .abort => "ABORT"
      | .oob => "OOB"
      | .err e => errStr e
    | _, _, _, _, _, _, _, _, _, _, _, _ => "bad-op"
  | ["cng", fs, nb, sl, order, lossCnt, prevSig, prevNlsf, exc, gains, rs, pg1, excBuf, nlsf, st, sg, seed, cfs, frame] =>
    match parseInt fs, parseNat nb, parseNat sl, parseNat order, parseInt lossCnt, parseInt prevSig, parseIntList prevNlsf,
          parseIntList exc, parseIntList gains, parseInt rs, parseInt pg1 with
    | some fs, some nb, some sl, some order, some lossCnt, some prevSig, some prevNlsf, some exc, some gains, some rs, some pg1 =>
      match parseIntList excBuf, parseIntList nlsf, parseIntList st, parseInt sg, parseInt seed, parseInt cfs, parseIntList frame with
      | some excBuf, some nlsf, some st, some sg, some seed, some cfs, some frame =>
        let x : CngIn := { fsKHz := fs, nbSubfr := nb, subfrLength := sl, lpcOrder := order, lossCnt := lossCnt,
                           prevSignalType := prevSig, prevNLSF := prevNlsf, excQ14 := exc, gains := gains,
                           randScale := rs, prevGain1 := pg1 }
        let c : Cng := { excBuf := excBuf, smthNLSF := nlsf, synthState := st, smthGain := sg, randSeed := seed, fsKHz := cfs }
        match silkCNG x c frame with
        | .ok (f, c') =>
          s!"OK f={csv f} exc={csv c'.excBuf} nlsf={csv c'.smthNLSF} st={csv c'.synthState} g={c'.smthGain} " ++
          s!"seed={c'.randSeed} fs={c'.fsKHz}"
        | .abort => "ABORT"
        | .oob => "OOB"
        | .err e => errStr e
      | _, _, _, _, _, _, _ => "bad-op"
    | _, _, _, _, _, _, _, _, _, _, _ => "bad-op"
  | ["glue", lossCnt, lfl, ce, cs, frame] =>
    match parseInt lossCnt, parseInt lfl, parseInt ce, parseInt cs, parseIntList frame with
    | some lossCnt, some lfl, some ce, some cs, some frame =>
      let r := glueFrames { lossCnt := lossCnt, lastFrameLost := lfl, concEnergy := ce, concEnergyShift := cs } frame
      s!"OK f={csv r.1} lfl={r.2.lastFrameLost} ce={r.2.concEnergy} cs={r.2.concEnergyShift}"
    | _, _, _, _, _ => "bad-op"
  | _ => "bad-op"

end Driver.SuiteSilkPlc
