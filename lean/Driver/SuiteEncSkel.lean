import OpusModel.EncSkel
import OpusModel.EncSkelRanges
import Driver.Util
/- Suite `encskel`: replay of opus_encode_native from pre-state + recorded oracles (C02, C05),
   plus the pure helpers (`silkrate`, `gentoc`, `fss`) and the multistream budget split. -/
namespace Driver.SuiteEncSkel
open Opus Opus.EncSkel Opus.EncDecide Driver

def lookup (kv : List (String × String)) (k : String) : Option String :=
  match kv with
  | [] => none
  | (k', v) :: rest => if k' = k then some v else lookup rest k

def parseKV (toks : List String) : List (String × String) :=
  toks.filterMap fun t =>
    match t.splitOn "=" with
    | [k, v] => some (k, v)
    | _ => none

def getInt (kv : List (String × String)) (k : String) : Option Int := (lookup kv k).bind parseInt
def getInts (kv : List (String × String)) (k : String) : Option (List Int) := (lookup kv k).bind parseIntList

def stOfList (l : List Int) : Option St :=
  if l.length = 38 then some { fs := l.getD 0 0, channels := l.getD 1 0, application := l.getD 2 0, useVbr := l.getD 3 0, userBitrate := l.getD 4 0, forceChannels := l.getD 5 0, signalType := l.getD 6 0, userBandwidth := l.getD 7 0, maxBandwidth := l.getD 8 0, userForcedMode := l.getD 9 0, lfe := l.getD 10 0, useDtx := l.getD 11 0, fecConfig := l.getD 12 0, variableDuration := l.getD 13 0, complexity := l.getD 14 0, lossPerc := l.getD 15 0, useInBandFEC := l.getD 16 0, energyMasking := l.getD 17 0, streamChannels := l.getD 18 0, mode := l.getD 19 0, prevMode := l.getD 20 0, prevChannels := l.getD 21 0, prevFramesize := l.getD 22 0, bandwidth := l.getD 23 0, autoBandwidth := l.getD 24 0, silkBwSwitch := l.getD 25 0, first := l.getD 26 0, voiceRatio := l.getD 27 0, detectedBandwidth := l.getD 28 0, nbNoActivity := l.getD 29 0, nonfinalFrame := l.getD 30 0, bitrateBps := l.getD 31 0, toMono := l.getD 32 0, lbrrCoded := l.getD 33 0, allowBwSwitch := l.getD 34 0, inWBmode := l.getD 35 0, opusCanSwitch := l.getD 36 0, silkUseDtx := l.getD 37 0 }
  else none

def stToList (s : St) : List Int :=
  [s.fs, s.channels, s.application, s.useVbr, s.userBitrate, s.forceChannels, s.signalType, s.userBandwidth,
   s.maxBandwidth, s.userForcedMode, s.lfe, s.useDtx, s.fecConfig, s.variableDuration, s.complexity, s.lossPerc,
   s.useInBandFEC, s.energyMasking, s.streamChannels, s.mode, s.prevMode, s.prevChannels, s.prevFramesize,
   s.bandwidth, s.autoBandwidth, s.silkBwSwitch, s.first, s.voiceRatio, s.detectedBandwidth, s.nbNoActivity,
   s.nonfinalFrame, s.bitrateBps, s.toMono, s.lbrrCoded, s.allowBwSwitch, s.inWBmode, s.opusCanSwitch, s.silkUseDtx]

def frameOfList (l : List Int) : Option FrameOr :=
  if l.length = 20 then some { aValid := l.getD 0 0, activity := l.getD 1 0, silkBitRateIn := l.getD 2 0, silkRet := l.getD 3 0, nBytes := l.getD 4 0, isr := l.getD 5 0, switchReady := l.getD 6 0, allowBw := l.getD 7 0, inWB := l.getD 8 0, tellA := l.getD 9 0, tellB := l.getD 10 0, tellC := l.getD 11 0, tellD := l.getD 12 0, tellE := l.getD 13 0, stripTo := l.getD 14 0, celtRed1 := l.getD 15 0, celtMain := l.getD 16 0, celtRed2 := l.getD 17 0, used1 := l.getD 18 0, used2 := l.getD 19 0 }
  else none

def framesOf (kv : List (String × String)) (n : Nat) : Option (List FrameOr) :=
  (List.range n).mapM fun i => (getInts kv s!"f{i}").bind frameOfList

def callStr (c : Call) : String := ":".intercalate (toString c.1 :: c.2.map toString)
def callsStr (cs : List Call) : String := if cs.isEmpty then "-" else "|".intercalate (cs.map callStr)

def natResStr (r : NatRes) : String :=
  if r.abort then "ABORT"
  else
    let pk := if r.ret ≥ 1 then s!"cfg={r.pkt.tocCfg} lens={natList r.pkt.lens} hdr={toHex r.pkt.hdr}"
              else "cfg=0 lens=- hdr=x"
    let pk := if r.ret ≥ 1 ∧ r.pkt.lens.isEmpty then s!"cfg={r.pkt.tocCfg} lens=- hdr={toHex r.pkt.hdr}" else pk
    s!"ret={r.ret} ok={if r.ok then 1 else 0} {pk} st={intList (stToList r.st)} calls={callsStr r.calls}"

def handleNative (toks : List String) : String :=
  let kv := parseKV toks
  match getInt kv "fuzz", (getInts kv "st").bind stOfList, getInt kv "frame", getInt kv "out",
        getInt kv "o.sil", getInt kv "o.aval", getInt kv "o.abw", getInt kv "o.vr0", getInt kv "o.vr1",
        getInt kv "o.vr2", getInt kv "o.mv", getInt kv "o.mm", getInts kv "o.rands", getInt kv "nf" with
  | some fuzz, some st, some frame, some out, some sil, some aval, some abw, some vr0, some vr1, some vr2,
    some mv, some mm, some rands, some nf =>
    match framesOf kv nf.toNat with
    | some frames =>
      let o : NatOr := { isSilence := sil, aValid := aval, aBandwidth := abw, vr0, vr1, vr2, modeVoice := mv,
                         modeMusic := mm, rands, frames }
      natResStr (encodeNative st (fuzz ≠ 0) frame out o)
    | none => "bad-op"
  | _, _, _, _, _, _, _, _, _, _, _, _, _, _ => "bad-op"

/-! Op `wf-native` (slice C02wf): the packet the real encoder emitted for one recorded opus_encode_native call is parsed by
    the Lean parser (`Opus.Framing.parseImpl`) and compared with the skeleton's prediction for the same call. -/

/-- Answer line: the parser's view of `bytes` (same fields the harness prints from opus_packet_parse_impl /
    opus_packet_get_nb_samples), `skel` = the skeleton's predicted header / frame lengths / size are what the packet has
    (or the skeleton makes no prediction: an oracle contract was not met), `dur` = the duration clause of C02. -/
def wfAnswer (r : NatRes) (fs : Nat) (frame : Int) (bytes : Bytes) : String :=
  let b01 (b : Bool) : String := if b then "1" else "0"
  match Opus.Framing.parseImpl false bytes with
  | .ok p =>
    let nbs := p.count * Opus.Framing.samplesPerFrame p.toc fs
    let dur := decide ((nbs : Int) = frame) && p.sizes.all (· ≤ 1275) && decide (p.packetOffset = bytes.length)
    let hl := r.pkt.hdr.length
    let skel := !r.ok ||
      (!r.abort && decide (r.ret = (bytes.length : Int)) && decide (p.toc / 4 * 4 = r.pkt.tocCfg) &&
       decide (p.sizes = r.pkt.lens) && decide (bytes.take hl = r.pkt.hdr) && decide (p.payloadOffset = hl) &&
       decide (r.pkt.size = bytes.length) && (bytes.drop (hl + sumN r.pkt.lens)).all (· = 0))
    let sizes := if p.sizes.isEmpty then "-" else natList p.sizes
    s!"parse={p.count} toc={p.toc} sizes={sizes} poff={p.payloadOffset} off={p.packetOffset} nbs={nbs} skel={b01 skel} dur={b01 dur}"
  | e =>
    let name := resStr (fun (_ : Opus.Framing.Parsed) => "OK") e
    -- opus_packet_get_nb_samples reads only the TOC / count byte: it may still answer when the full parse fails
    let nbs := resStr (fun (n : Nat) => toString n) (Opus.Framing.getNbSamples bytes fs)
    s!"parse={name} toc=0 sizes=- poff=0 off=0 nbs={nbs} skel={b01 (!r.ok)} dur=0"

def wfNative (toks : List String) : String :=
  let kv := parseKV toks
  match getInt kv "fuzz", (getInts kv "st").bind stOfList, getInt kv "frame", getInt kv "out",
        getInt kv "o.sil", getInt kv "o.aval", getInt kv "o.abw", getInt kv "o.vr0", getInt kv "o.vr1",
        getInt kv "o.vr2", getInt kv "o.mv", getInt kv "o.mm", getInts kv "o.rands", getInt kv "nf",
        (lookup kv "pkt").bind parseHex with
  | some fuzz, some st, some frame, some out, some sil, some aval, some abw, some vr0, some vr1, some vr2,
    some mv, some mm, some rands, some nf, some bytes =>
    match framesOf kv nf.toNat with
    | some frames =>
      let o : NatOr := { isSilence := sil, aValid := aval, aBandwidth := abw, vr0, vr1, vr2, modeVoice := mv,
                         modeMusic := mm, rands, frames }
      wfAnswer (encodeNative st (fuzz ≠ 0) frame out o) st.fs.toNat frame bytes
    | none => "bad-op"
  | _, _, _, _, _, _, _, _, _, _, _, _, _, _, _ => "bad-op"

/-- Suite op `ranges` (C05 slice Ranges): the trace of one budget function, entry by entry, and whether all entries fit
    `opus_int32`. -/
def traceStr (t : List Int) : String :=
  s!"t={intList t} w={if t.all (fun x => decide (Fits32 x)) then 1 else 0}"

def rangesSt (fs ch ub mode vbr br : Int) : St :=
  { (default : St) with fs := fs, channels := ch, userBitrate := ub, mode := mode, useVbr := vbr, bitrateBps := br }

def handleRanges (fn : String) (a : List Int) : String :=
  match fn, a with
  | "ub", [fs, ch, ub, fsz, m] => traceStr (ubTrace (rangesSt fs ch ub 0 1 0) fsz m)
  | "cbr", [fs, fsz, b, m] => traceStr (cbrTrace fs fsz b m)
  | "gate", [fs, fsz, br, cbr, m] => traceStr (gateTrace fs fsz { bitrateBps := br, cbr := cbr, maxDataBytes := m })
  | "er", [br, ch, fr, vbr, mode, cx, loss] => traceStr (erTrace br ch fr vbr mode cx loss)
  | "rb", [m, br, fr, ch] => traceStr (rbTrace m br fr ch)
  | "ml", [fs, mode, vbr, ub, fsz, out, cbr] => traceStr (mlTrace (rangesSt fs 1 ub mode vbr 0) fsz out cbr)
  | "cm", [fs, br, encFs, nb, mls, tot] =>
    traceStr (cmTrace (rangesSt fs 1 0 0 1 br) { encFs := encFs, nbFrames := nb, repacketizeLen := 0, maxLenSum := mls } tot)
  | "bt", [fs, fsz, br, m, red] => traceStr (btTrace fs fsz br m red)
  | "fss", [fsz, vd, fs] => traceStr (fssTrace fsz vd fs)
  | "ms", [vbr, br, rs, nb, fs, fsz, m, tot, s] => traceStr (msTrace vbr br rs nb fs fsz m tot s)
  | _, _ => "bad-op"

def handle : List String → String
  | "ranges" :: fn :: args =>
    match args.mapM parseInt with
    | some a => handleRanges fn a
    | none => "bad-op"
  | "native" :: toks => handleNative toks
  | "wf-native" :: toks => wfNative toks
  | ["silkrate", rate, bw, f20, vbr, fec, ch] =>
    match parseInt rate, parseInt bw, parseInt f20, parseInt vbr, parseInt fec, parseInt ch with
    | some rate, some bw, some f20, some vbr, some fec, some ch =>
      s!"v={computeSilkRateForHybrid rate bw f20 vbr fec ch}"
    | _, _, _, _, _, _ => "bad-op"
  | ["gentoc", mode, fr, bw, ch] =>
    match parseInt mode, parseInt fr, parseInt bw, parseInt ch with
    | some mode, some fr, some bw, some ch => s!"v={genToc mode fr bw ch}"
    | _, _, _, _ => "bad-op"
  | ["fss", a, v, fs] =>
    match parseInt a, parseInt v, parseInt fs with
    | some a, some v, some fs => s!"v={frameSizeSelect a v fs}"
    | _, _, _ => "bad-op"
  | ["mscurr", nb, fs, frame, maxb, tot, s] =>
    match parseInt nb, parseInt fs, parseInt frame, parseInt maxb, parseInt tot, parseInt s with
    | some nb, some fs, some frame, some maxb, some tot, some s => s!"v={msCurrMax nb fs frame maxb tot s}"
    | _, _, _, _, _, _ => "bad-op"
  | ["cvbrrel", v, res, nb, ret] =>
    match parseInt v, parseInt res, parseInt nb, parseInt ret with
    | some v, some res, some nb, some ret =>
      -- the relation `cvbrStep_spec` proves of `cvbrStep`: reservoir' = max 0 (res + 64*bytes - vbr_rate),
      -- bytes within `max_allowed`
      let ok := decide (2 ≤ ret ∧ ret ≤ cvbrMaxAllowed v res nb)
      s!"v={max 0 (res + 64 * ret - v)} ok={if ok then 1 else 0}"
    | _, _, _, _ => "bad-op"
  | ["mscurr2", nb, fs, frame, vbr, br, out, tot, s] =>
    match parseInt nb, parseInt fs, parseInt frame, parseInt vbr, parseInt br, parseInt out, parseInt tot, parseInt s with
    | some nb, some fs, some frame, some vbr, some br, some out, some tot, some s =>
      s!"v={msCurrMax nb fs frame (msMaxBytes vbr br 0 nb fs frame out) tot s}"
    | _, _, _, _, _, _, _, _ => "bad-op"
  | ["msrate", fs, frame, nb, c, lfe, amb, br] =>
    match parseInt fs, parseInt frame, parseInt nb, parseInt c, parseInt lfe, parseInt amb, parseInt br with
    | some fs, some frame, some nb, some c, some lfe, some amb, some br =>
      let l : MsLayout := { nbStreams := nb, nbCoupled := c, lfeStream := lfe, ambisonics := amb != 0 }
      s!"sum={msRateSum l fs frame br} fits={if msFits l fs frame br then 1 else 0} r={intList (msRates l fs frame br)}"
    | _, _, _, _, _, _, _ => "bad-op"
  | ["msctl", nch, v] =>
    match parseInt nch, parseInt v with
    | some nch, some v => s!"v={(msCtlBitrate nch v).getD (-99999)}"
    | _, _ => "bad-op"
  | ["msuser", fs, frame, nb, c, lfe, amb, br, i] =>
    match parseInt fs, parseInt frame, parseInt nb, parseInt c, parseInt lfe, parseInt amb, parseInt br, parseInt i with
    | some fs, some frame, some nb, some c, some lfe, some amb, some br, some i =>
      let l : MsLayout := { nbStreams := nb, nbCoupled := c, lfeStream := lfe, ambisonics := amb != 0 }
      s!"v={(msStreamUserBitrate l fs frame br i).getD (-99999)}"
    | _, _, _, _, _, _, _, _ => "bad-op"
  | ["mscurr3", nb, c, lfe, amb, fs, frame, vbr, br, out, tot, s] =>
    match parseInt nb, parseInt c, parseInt lfe, parseInt amb, parseInt fs, parseInt frame, parseInt vbr, parseInt br,
          parseInt out, parseInt tot, parseInt s with
    | some nb, some c, some lfe, some amb, some fs, some frame, some vbr, some br, some out, some tot, some s =>
      let l : MsLayout := { nbStreams := nb, nbCoupled := c, lfeStream := lfe, ambisonics := amb != 0 }
      s!"v={msCurrMax nb fs frame (msMaxBytesAlloc l vbr br fs frame out) tot s}"
    | _, _, _, _, _, _, _, _, _, _, _ => "bad-op"
  | _ => "bad-op"

end Driver.SuiteEncSkel
