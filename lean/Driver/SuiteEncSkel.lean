import Driver.Util
/- Suite stub — replaced by the owner of this suite. -/
namespace Driver.SuiteEncSkel
def handle (_ : List String) : String := "bad-op"
end Driver.SuiteEncSkel
