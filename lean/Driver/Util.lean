import OpusModel.Basic
/-
  Driver.Util — line-protocol helpers shared by all suites (DESIGN.md §4).
  Arguments are decimal integers or `x<hex bytes>` (`x` alone = empty).
-/
namespace Driver
open Opus

def hexVal (c : Char) : Option Nat :=
  if '0' ≤ c ∧ c ≤ '9' then some (c.toNat - '0'.toNat)
  else if 'a' ≤ c ∧ c ≤ 'f' then some (c.toNat - 'a'.toNat + 10)
  else if 'A' ≤ c ∧ c ≤ 'F' then some (c.toNat - 'A'.toNat + 10)
  else none

/-- Parse `x0a0b..` into bytes. -/
def parseHex (s : String) : Option Bytes :=
  match s.toList with
  | 'x' :: cs =>
    let rec go : List Char → List Nat → Option (List Nat)
      | [], acc => some acc.reverse
      | [_], _ => none
      | a :: b :: rest, acc =>
        match hexVal a, hexVal b with
        | some h, some l => go rest ((h * 16 + l) :: acc)
        | _, _ => none
    go cs []
  | _ => none

def hexDigit (n : Nat) : Char :=
  if n < 10 then Char.ofNat ('0'.toNat + n) else Char.ofNat ('a'.toNat + n - 10)

def toHex (bs : Bytes) : String :=
  String.ofList ('x' :: bs.flatMap (fun b => [hexDigit (b / 16 % 16), hexDigit (b % 16)]))

def parseInt (s : String) : Option Int := s.toInt?
def parseNat (s : String) : Option Nat := s.toNat?

def errStr (e : Err) : String := e.name

def natList (l : List Nat) : String := ",".intercalate (l.map toString)
def intList (l : List Int) : String := ",".intercalate (l.map toString)

/-- Parse `a,b,c` (or `-` for empty) into integers. -/
def parseIntList (s : String) : Option (List Int) :=
  if s = "-" then some [] else (s.splitOn ",").mapM (·.toInt?)
def parseNatList (s : String) : Option (List Nat) :=
  if s = "-" then some [] else (s.splitOn ",").mapM (·.toNat?)

def resStr {α} (f : α → String) : Res α → String
  | .ok a => f a
  | .err e => errStr e
  | .oob => "OOB"
  | .abort => "ABORT"

end Driver
