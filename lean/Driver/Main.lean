import Driver.Util
import Driver.SuiteFraming
import Driver.SuiteRangeCoder
import Driver.SuiteRepack
import Driver.SuiteExt
import Driver.SuiteCwrs
import Driver.SuiteLaplace
import Driver.SuiteSilkParams
import Driver.SuiteSilkSyms
import Driver.SuiteCtl
import Driver.SuiteDtx
import Driver.SuiteLayout
import Driver.SuitePcm
import Driver.SuiteKernels
import Driver.SuiteSoftClip
import Driver.SuiteDecSkel
import Driver.SuiteEncSkel
import Driver.SuiteMisc
import Driver.SuiteSilkCore
import Driver.SuiteSilkResamp
import Driver.SuiteSilkPlc
import Driver.SuiteSilkApi
/-
  `opusmodel check` reads the combined stream written by a C harness:
     I <suite> <op> <args…>      an operation and its arguments
     O <canonical output>        what the implementation answered
  evaluates the model on every `I` line and compares with the following `O` line.
  It prints each disagreement, a few samples, a distribution of first output
  tokens and a final `SUMMARY` line.  `opusmodel eval` prints the model's answer
  for each input line (without the `I ` prefix).
-/
open Driver

def dispatch (line : String) : String :=
  match line.trimAscii.toString.splitOn " " with
  | "framing" :: args => SuiteFraming.handle args
  | "rangecoder" :: args => SuiteRangeCoder.handle args
  | "repack" :: args => SuiteRepack.handle args
  | "ext" :: args => SuiteExt.handle args
  | "cwrs" :: args => SuiteCwrs.handle args
  | "laplace" :: args => SuiteLaplace.handle args
  | "silkparams" :: args => SuiteSilkParams.handle args
  | "silksyms" :: args => SuiteSilkSyms.handle args
  | "ctl" :: args => SuiteCtl.handle args
  | "dtx" :: args => SuiteDtx.handle args
  | "layout" :: args => SuiteLayout.handle args
  | "pcm" :: args => SuitePcm.handle args
  | "kernels" :: args => SuiteKernels.handle args
  | "softclip" :: args => SuiteSoftClip.handle args
  | "decskel" :: args => SuiteDecSkel.handle args
  | "encskel" :: args => SuiteEncSkel.handle args
  | "misc" :: args => SuiteMisc.handle args
  | "silkcore" :: args => SuiteSilkCore.handle args
  | "silkresamp" :: args => SuiteSilkResamp.handle args
  | "silkplc" :: args => SuiteSilkPlc.handle args
  | "silkapi" :: args => SuiteSilkApi.handle args
  | _ => "bad-suite"

structure Stats where
  cases : Nat := 0
  mismatches : Nat := 0
  dist : List (String × Nat) := []
  samples : Nat := 0

def bump (d : List (String × Nat)) (k : String) : List (String × Nat) :=
  match d with
  | [] => [(k, 1)]
  | (k', n) :: rest => if k' = k then (k', n + 1) :: rest else (k', n) :: bump rest k

def firstTok (s : String) : String := (((s.splitOn " ").headD "").splitOn "=").headD ""

partial def checkLoop (h : IO.FS.Stream) (maxPrint : Nat) (st : Stats) (pending : Option (String × String)) : IO Stats := do
  let line ← h.getLine
  if line.isEmpty then return st
  let line := (line.dropEndWhile (fun c => c == '\n' || c == '\r')).toString
  if line.startsWith "I " then
    let inp := (line.drop 2).toString
    checkLoop h maxPrint st (some (inp, dispatch inp))
  else if line.startsWith "O " then
    match pending with
    | none => checkLoop h maxPrint st none
    | some (inp, model) =>
      let impl := (line.drop 2).toString
      let suite := firstTok inp
      let key := suite ++ ":" ++ ((inp.splitOn " ").getD 1 "") ++ ":" ++ firstTok impl
      let mut st := { st with cases := st.cases + 1, dist := bump st.dist key }
      if impl != model then
        st := { st with mismatches := st.mismatches + 1 }
        if st.mismatches ≤ maxPrint then
          IO.println s!"MISMATCH\n  I {inp}\n  impl:  {impl}\n  model: {model}"
      else if st.samples < 4 && st.cases % 97 == 1 then
        st := { st with samples := st.samples + 1 }
        IO.println s!"SAMPLE {inp} => {impl}"
      checkLoop h maxPrint st none
  else
    -- pass-through lines (harness statistics, comments)
    if line.startsWith "#" then IO.println line
    checkLoop h maxPrint st pending

partial def evalLoop (h : IO.FS.Stream) : IO Unit := do
  let line ← h.getLine
  if line.isEmpty then return ()
  IO.println (dispatch line)
  evalLoop h

def main (args : List String) : IO UInt32 := do
  let stdin ← IO.getStdin
  match args with
  | ["check"] =>
    let st ← checkLoop stdin 20 {} none
    for (k, n) in st.dist do
      IO.println s!"DIST {k} {n}"
    IO.println s!"SUMMARY cases={st.cases} mismatches={st.mismatches}"
    return (if st.mismatches == 0 then 0 else 2)
  | ["eval"] => evalLoop stdin; return 0
  | _ => IO.eprintln "usage: opusmodel check|eval"; return 64
