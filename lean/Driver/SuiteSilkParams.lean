import OpusModel.SilkParams
import OpusModel.SilkSynthIdx
import OpusModel.SilkSynthIdxFrame
import OpusModel.SilkSynthIdxParams
import OpusModel.SilkSynthIdxOut
import OpusModel.SilkStereo
import OpusModel.SilkStereoEnc
import OpusModel.RangeCoder
import OpusModel.SilkSyms
import Driver.Util
/- Suite `silkparams` (property C18): SILK side-information dequantisers.
   Lists are `a,b,c`; codebooks are `nbmb` / `wb`. -/
namespace Driver.SuiteSilkParams
open Opus Opus.SilkParams Driver

def plcTieArrays : List Opus.SilkSynthIdx.Arr :=
  [.sLTP, .sLTP_Q14, .exc_buf, .exc_Q14, .outBuf, .sLPC_Q14_buf, .plcLtp, .prevLPC, .prevGain, .predCoef, .ltpCoef,
   .gains, .pitchL, .xq]
def topTieArrays : List Opus.SilkSynthIdx.Arr := [.outBuf, .xq, .pitchL]
def cngTieArrays : List Opus.SilkSynthIdx.Arr :=
  [.cngExcBuf, .cngSmthNlsf, .cngSynth, .cngSig, .prevNlsf, .gains, .exc_Q14, .prevGain, .xq]

def parseCB : String → Option NlsfCB
  | "nbmb" => some cbNbMb
  | "wb" => some cbWb
  | _ => none

def okList (l : List Int) : String := s!"OK {intList l}"

/-- `0101` → `[false, true, false, true]`; anything else → `none`. -/
def parseBits (s : String) : Option (List Bool) :=
  s.toList.mapM fun c => if c = '0' then some false else if c = '1' then some true else none

/-- The arrays whose accesses the instrumented harness records for `silk_decode_core` (the stack array
    `A_Q12_tmp` and the constant table `silk_Quantization_Offsets_Q10` are outside its reach). -/
def coreTieArrays : List Opus.SilkSynthIdx.Arr :=
  [.sLTP, .sLTP_Q15, .res_Q14, .sLPC_Q14, .exc_Q14, .outBuf, .sLPC_Q14_buf, .predCoef, .ltpCoef, .gains,
   .pitchL, .xq, .pulses]

/-! Diagnostics (op `path`): which branch of the model an input exercises.  Used only to report the
    branch coverage of the generated cases in the evidence; not part of any comparison. -/

/-- Number of corrective moves before the early exit of the stabiliser, or `fallback`. -/
def stabPath (d : List Int) : Nat → List Int → String
  | 0, _ => "fallback"
  | n + 1, x =>
    match diffsFrom 0 x d with
    | [] => "empty"
    | e0 :: es =>
      let r := argMin es e0 0 1
      if r.1 ≥ 0 then s!"exit{Opus.Gen.SilkNlsf.nlsfStabilizeMaxLoops - (n + 1)}"
      else stabPath d n (stabAdjust x d r.2)

/-- Number of bandwidth-expansion rounds of the NLSF2A stabilisation loop. -/
def nlsf2aRounds : Nat → Nat → List Int → List Int → Nat
  | 0, i, _, _ => i
  | n + 1, i, a32, aQ12 =>
    if lpcInversePredGain aQ12 = 0 then
      let a32' := bwexpander32 a32 (65536 - lshift32 2 i)
      nlsf2aRounds n (i + 1) a32' (requantQ12 a32')
    else i

def nlsf2aPath (nlsf : List Int) : String :=
  let d := nlsf.length
  match cosLsfAll nlsf with
  | .ok vals =>
    let ordering := if d = 16 then ordering16 else ordering10
    let cosQA := (List.range d).map fun j => vals.getD (ordering.idxOf j) 0
    let a32 := nlsf2aPoly cosQA
    let clipped := (lpcFitLoop 5 10 a32 0).2
    let r := lpcFit a32 5
    s!"fit{if clipped then "clip" else "ok"}-bwe{nlsf2aRounds Opus.Gen.SilkNlsf.maxLpcStabilizeIterations 0 r.2 r.1}"
  | _ => "oob"


/-! Slice C18 Stereo (OpusModel/SilkStereo.lean): ops `stereo-*`. -/

/-- `stereo-rt`: model quantiser → `silk_stereo_encode_pred` through the range-coder model (`ec_enc_icdf`, 8 bits) into a
    zeroed `size`-byte buffer, `ec_enc_done` → the symbol layer's `silk_stereo_decode_pred` on those bytes. -/
def stereoRoundTrip (p0 p1 : Int) (size : Nat) : String :=
  match Opus.SilkStereo.quantPred p0 p1 [0, 0, 0, 0, 0, 0] with
  | none => "UB"
  | some q =>
    match Opus.SilkStereo.encodeSyms q.ix with
    | .ok syms =>
      let tabs := [Opus.Gen.SilkStereoTabs.predJointIcdf, Opus.Gen.SilkStereoTabs.uniform3Icdf,
                   Opus.Gen.SilkStereoTabs.uniform5Icdf, Opus.Gen.SilkStereoTabs.uniform3Icdf,
                   Opus.Gen.SilkStereoTabs.uniform5Icdf]
      let e := (syms.zip tabs).foldl (fun e st => Opus.RangeCoder.encIcdf e st.1.1.toNat st.2 8) (Opus.RangeCoder.encInit (List.replicate size 0) size)
      let e := Opus.RangeCoder.encDone e
      let d := Opus.SilkSyms.stereoDecodePred (Opus.RangeCoder.decInit e.buf size)
      s!"OK {q.pred0} {q.pred1} {intList q.ix} {toHex e.buf} {e.error} {d.1.pred0} {d.1.pred1}"
    | _ => "ABORT"

def handle : List String → String
  | ["path", "stab", xs, ds] =>
    match parseIntList xs, parseIntList ds with
    | some x, some d => stabPath d Opus.Gen.SilkNlsf.nlsfStabilizeMaxLoops x
    | _, _ => "bad-op"
  | ["path", "nlsf2a", xs] =>
    match parseIntList xs with
    | some x => nlsf2aPath x
    | none => "bad-op"
  | ["path", "invgain", xs] =>
    match parseIntList xs with
    | some x => if lpcInversePredGain x = 0 then "unstable" else "stable"
    | none => "bad-op"
  | ["stab", xs, ds] =>
    match parseIntList xs, parseIntList ds with
    | some x, some d => resStr okList (nlsfStabilize x d)
    | _, _ => "bad-op"
  | ["unpack", cb, i] =>
    match parseCB cb, parseInt i with
    | some cb, some i => resStr (fun r => s!"OK ec={intList r.1} pred={intList r.2}") (nlsfUnpack cb i)
    | _, _ => "bad-op"
  | ["nlsfdec", cb, idx] =>
    match parseCB cb, parseIntList idx with
    | some cb, some idx => resStr okList (nlsfDecode cb idx)
    | _, _ => "bad-op"
  | ["nlsf2a", xs] =>
    match parseIntList xs with
    | some x => resStr (fun r => s!"OK a={intList r.1} ig={lpcInversePredGain r.1} tr={r.2}") (nlsf2aTr x)
    | none => "bad-op"
  | ["invgain", xs] =>
    match parseIntList xs with
    | some x => if x.isEmpty then "bad-op" else s!"OK {lpcInversePredGain x}"
    | none => "bad-op"
  | ["lpcfit", xs] =>
    match parseIntList xs with
    | some x => if x.isEmpty then "bad-op" else
      let r := lpcFit x 5
      s!"OK q={intList r.1} a={intList r.2} tr={truncCount (lpcFitCasts x)}"
    | none => "bad-op"
  | ["bwexp32", xs, c] =>
    match parseIntList xs, parseInt c with
    | some x, some c => if x.isEmpty then "bad-op" else okList (bwexpander32 x c)
    | _, _ => "bad-op"
  | ["gdeq", prev, cond, ind] =>
    match parseInt prev, parseInt cond, parseIntList ind with
    | some p, some c, some ind =>
      let r := gainsDequant ind p c
      s!"OK g={intList r.1} prev={r.2}"
    | _, _, _ => "bad-op"
  | ["gq", prev, cond, gains] =>
    match parseInt prev, parseInt cond, parseIntList gains with
    | some p, some c, some g =>
      let r := gainsQuant g p c
      s!"OK ind={intList r.1} g={intList r.2.1} prev={r.2.2}"
    | _, _, _ => "bad-op"
  | ["log2lin", x] =>
    match parseInt x with
    | some x => s!"OK {log2lin x}"
    | none => "bad-op"
  | ["lin2log", x] =>
    match parseInt x with
    | some x => s!"OK {lin2log x}"
    | none => "bad-op"
  | ["pitch", lag, contour, fs, nb] =>
    match parseInt lag, parseInt contour, parseInt fs, parseNat nb with
    | some lag, some c, some fs, some nb => resStr okList (decodePitch lag c fs nb)
    | _, _, _, _ => "bad-op"
  | ["pitchenc", fs, nb, li, ci] =>
    -- integer tail of silk_pitch_analysis_core_FLP at lag = min_lag + lagIndex, CBimax = contourIndex, followed by
    -- silk_decode_pitch on the indices it stores
    match parseInt fs, parseNat nb, parseInt li, parseInt ci with
    | some fs, some nb, some li, some ci =>
      match pitchEncTail fs nb (Opus.Gen.SilkNlsf.peMinLagMs * fs + li) ci with
      | .ok o => s!"OK enc={intList o.pitchOut} li={o.lagIndex} ci={o.contourIndex} dec={resStr intList (decodePitch o.lagIndex o.contourIndex fs nb)}"
      | r => resStr (fun _ => "") r
    | _, _, _, _ => "bad-op"
  | ["interp", coef, prev, cur] =>
    match parseInt coef, parseIntList prev, parseIntList cur with
    | some k, some p, some c =>
      if p.length ≠ c.length then "bad-op" else okList (nlsfInterpEnc k p c)
    | _, _, _ => "bad-op"
  | ["decparams", cb, idx, prev, coef, ffar] =>
    match parseCB cb, parseIntList idx, parseIntList prev, parseInt coef, parseInt ffar with
    | some cb, some idx, some prev, some coef, some ffar =>
      if prev.length ≠ cb.order then "bad-op" else
      resStr (fun r => s!"OK a0={intList r.1} a1={intList r.2.1} nlsf={intList r.2.2}")
        (decodeNlsfParams cb idx prev coef ffar)
    | _, _, _, _, _ => "bad-op"
  | ["synthcore", fs, nb, sig, qoff, interp, pl, loss, prev, lagPrev, gd, ad] =>
    match parseInt fs, parseNat nb, parseInt sig, parseInt qoff, parseInt interp, parseIntList pl with
    | some fs, some nb, some sig, some qoff, some interp, some pl =>
      match parseInt loss, parseInt prev, parseInt lagPrev, parseBits gd, parseBits ad with
      | some loss, some prev, some lagPrev, some gd, some ad =>
        if pl.length ≠ 4 ∨ gd.length ≠ 4 ∨ ad.length ≠ 4 ∨ (nb ≠ 2 ∧ nb ≠ 4) ∨ (fs ≠ 8 ∧ fs ≠ 12 ∧ fs ≠ 16) then "bad-op"
        else
          let x : Opus.SilkSynthIdx.CoreIn :=
            { fsKHz := fs, nbSubfr := nb, signalType := sig, quantOffsetType := qoff, interp := interp ≠ 0,
              pitchL := pl, lossCnt := loss, prevSignalType := prev, lagPrev := lagPrev, gainDiff := gd, adjNe := ad }
          let r := Opus.SilkSynthIdx.coreAccesses x
          if r.2 then "ABORT"
          else s!"OK {Opus.SilkSynthIdx.extentsStr r.1 coreTieArrays} alloc\{{Opus.SilkSynthIdx.allocStr (Opus.SilkSynthIdx.cfgOf fs nb) [.sLTP, .sLTP_Q15, .res_Q14, .sLPC_Q14]}} init\{sLTP_Q15={if Opus.SilkSynthIdx.coreInitOk x then "ok" else "bad"}}"
      | _, _, _, _, _ => "bad-op"
    | _, _, _, _, _, _ => "bad-op"
  | ["synthparams", fs, nb, sig, per, ltp, scale, interp, ffar, loss] =>
    match [fs, sig, per, scale, interp, ffar, loss].mapM parseInt, parseNat nb, parseIntList ltp with
    | some [fs, sig, per, scale, interp, ffar, loss], some nb, some ltp =>
      if ltp.length ≠ 4 ∨ (nb ≠ 2 ∧ nb ≠ 4) ∨ (fs ≠ 8 ∧ fs ≠ 12 ∧ fs ≠ 16) then "bad-op"
      else
        let a := Opus.SilkSynthIdx.paramsAccesses
          { fsKHz := fs, nbSubfr := nb, signalType := sig, perIndex := per, ltpIndex := ltp, ltpScaleIndex := scale,
            interpCoefQ2 := interp, firstFrameAfterReset := ffar ≠ 0, lossCnt := loss }
        s!"OK {Opus.SilkSynthIdx.extentsStr a [.gainsIdx, .gains, .nlsfIdx, .predCoef, .prevNlsf, .pitchL, .ltpIdx, .ltpVq0, .ltpVq1, .ltpVq2, .ltpCoef]}"
    | _, _, _ => "bad-op"
  | ["synthout", fs, nb, nci, nca, api, hs, stm, lost, sst] =>
    match [fs, nci, nca, api, hs, stm, lost, sst].mapM parseInt, parseNat nb with
    | some [fs, nci, nca, api, hs, stm, lost, sst], some nb =>
      if (nb ≠ 2 ∧ nb ≠ 4) ∨ (fs ≠ 8 ∧ fs ≠ 12 ∧ fs ≠ 16) then "bad-op"
      else
        let x : Opus.SilkSynthIdx.OutIn :=
          { fsKHz := fs, nbSubfr := nb, nChInt := nci, nChAPI := nca, apiHz := api, hasSide := hs ≠ 0, stereoToMono := stm ≠ 0, lost := lost ≠ 0, stereoStart := sst ≠ 0 }
        let r := Opus.SilkSynthIdx.outAccesses x
        if r.aborted then "ABORT"
        else
          let e := Opus.SilkSynthIdx.extentsStr
          let arrs : List Opus.SilkSynthIdx.Arr := [.tmp0, .tmp1, .out2, .samplesOut, .sMid, .sSide, .predPrev, .delayBuf0, .delayBuf1]
          s!"OK n={x.cfg.frameLen * api / (fs * 1000)} top\{{e r.top arrs}} dec\{{e r.dec [.tmp0, .tmp1]}} ms\{{e r.ms arrs}} res0\{{e r.res0 arrs}} res1\{{e r.res1 arrs}} alloc\{{Opus.SilkSynthIdx.allocStr x.cfg [.tmpStore, .out2]}}"
    | _, _ => "bad-op"
  | ["synthframe", fs, nb, loss, prev, lagPrev, ffar, plcFs, pq8, plcNb, plcS, lastLost, plcSeed, cngFs, cngSeed,
     lost, sig, qoff, interp, pl, ltp, gains, gd, ad, lowFirst] =>
    match [fs, loss, prev, lagPrev, ffar, plcFs, pq8, plcNb, plcS, lastLost, plcSeed, cngFs, cngSeed, lost, sig, qoff,
           interp, lowFirst].mapM parseInt, parseNat nb, parseIntList pl, parseIntList ltp, parseIntList gains, parseBits gd,
          parseBits ad with
    | some [fs, loss, prev, lagPrev, ffar, plcFs, pq8, plcNb, plcS, lastLost, plcSeed, cngFs, cngSeed, lost, sig, qoff,
            interp, lowFirst], some nb, some pl, some ltp, some gains, some gd, some ad =>
      if pl.length ≠ 4 ∨ ltp.length ≠ 20 ∨ gains.length ≠ 4 ∨ gd.length ≠ 4 ∨ ad.length ≠ 4 ∨ (nb ≠ 2 ∧ nb ≠ 4) ∨
          (fs ≠ 8 ∧ fs ≠ 12 ∧ fs ≠ 16) then "bad-op"
      else
        let st : Opus.SilkSynthIdx.DecSt :=
          { fsKHz := fs, nbSubfr := nb, lossCnt := loss, prevSignalType := prev, lagPrev := lagPrev,
            firstFrameAfterReset := ffar ≠ 0, plcFs := plcFs, pitchLQ8 := pq8, plcNb := plcNb, plcSubfr := plcS,
            lastFrameLost := lastLost ≠ 0, plcSeed := plcSeed, cngFs := cngFs, cngSeed := cngSeed }
        let fi : Opus.SilkSynthIdx.FrameIn :=
          { lost := lost ≠ 0, signalType := sig, quantOffsetType := qoff, interp := interp ≠ 0, pitchL := pl,
            ltpCoef := ltp, gains := gains, gainDiff := gd, adjNe := ad, lowFirst := lowFirst ≠ 0 }
        let r := Opus.SilkSynthIdx.frameStep st fi
        if r.1.aborted then "ABORT"
        else
          let e := Opus.SilkSynthIdx.extentsStr
          let b (x : Bool) : Int := if x then 1 else 0
          let t := r.2
          let g := match Opus.SilkSynthIdx.extent r.1.glue .xq false with
            | none => "-" | some (lo, hi) => s!"{lo}..{hi}"
          s!"OK core\{{e r.1.core coreTieArrays}} plc\{{e r.1.plc plcTieArrays}} top\{{e r.1.top topTieArrays}} cng\{{e r.1.cng cngTieArrays}} glue\{xq:r={g},w=ok} alloc\{{Opus.SilkSynthIdx.allocStr st.cfg (if fi.lost then [.sLTP, .sLTP_Q14, .exc_buf, .cngSig] else [.pulses, .sLTP, .sLTP_Q15, .res_Q14, .sLPC_Q14])}} init\{{if fi.lost then "sLTP_Q14" else "sLTP_Q15"}={if Opus.SilkSynthIdx.frameInitOk st fi then "ok" else "bad"}} st={t.fsKHz} {t.nbSubfr} {t.lossCnt} {t.prevSignalType} {t.lagPrev} {b t.firstFrameAfterReset} {t.plcFs} {t.pitchLQ8} {t.plcNb} {t.plcSubfr} {b t.lastFrameLost} {t.plcSeed} {t.cngFs} {t.cngSeed}"
    | _, _, _, _, _, _, _ => "bad-op"
  | ["stereo-quant", p0, p1, ixs] =>
    match parseInt p0, parseInt p1, parseIntList ixs with
    | some p0, some p1, some ix =>
      if ix.length ≠ 6 then "bad-op"
      else match Opus.SilkStereo.quantPred p0 p1 ix with
        | some q => s!"OK {q.pred0} {q.pred1} {intList q.ix}"
        | none => "UB"
    | _, _, _ => "bad-op"
  | ["stereo-dec", n, a0, b0, a1, b1] =>
    match [n, a0, b0, a1, b1].mapM parseInt with
    | some [n, a0, b0, a1, b1] =>
      match Opus.SilkStereo.decodePred n a0 b0 a1 b1 with
      | .ok (x, y) => s!"OK {x} {y}"
      | _ => "OOB"
    | _ => "bad-op"
  | ["stereo-syms", ixs] =>
    match parseIntList ixs with
    | some ix =>
      if ix.length ≠ 6 then "bad-op"
      else match Opus.SilkStereo.encodeSyms ix with
        | .ok syms => s!"OK {intList (syms.map (·.1))} {natList (syms.map (·.2))}"
        | _ => "ABORT"
    | none => "bad-op"
  | ["stereo-rt", p0, p1, size] =>
    match parseInt p0, parseInt p1, parseNat size with
    | some p0, some p1, some size => if size < 4 ∨ size > 64 then "bad-op" else stereoRoundTrip p0 p1 size
    | _, _, _ => "bad-op"
  | ["stereo-tabs"] =>
    s!"OK {intList Opus.SilkStereo.tab} {natList Opus.Gen.SilkStereoTabs.predJointIcdf} {natList Opus.Gen.SilkStereoTabs.uniform3Icdf} {natList Opus.Gen.SilkStereoTabs.uniform5Icdf} {natList Opus.Gen.SilkStereoTabs.onlyCodeMidIcdf} {Opus.SilkStereo.subSteps} {Opus.SilkStereo.halfSubStepQ16}"
  | ["stereo-findpred", nrgx, s1, nrgy, s2, corr, a0, a1, coef] =>
    match [nrgx, s1, nrgy, s2, corr, a0, a1, coef].mapM parseInt with
    | some [nrgx, s1, nrgy, s2, corr, a0, a1, coef] =>
      if s1 < 0 ∨ s2 < 0 ∨ s1 > 31 ∨ s2 > 31 then "bad-op"
      else
        let r := Opus.SilkStereo.findPredictor nrgx s1 nrgy s2 corr a0 a1 coef
        s!"OK {r.pred} {r.ratio} {r.amp0} {r.amp1}"
    | _ => "bad-op"
  | ["stereo-lrpreds", smth, wprev, rate, fs, is10, act, toMono, p0, l0, p1, l1] =>
    match [smth, wprev, rate, fs, is10, act, toMono, p0, l0, p1, l1].mapM parseInt with
    | some [smth, wprev, rate, fs, is10, act, toMono, p0, l0, p1, l1] =>
      let x : Opus.SilkStereo.LrIn :=
        { smth := smth, widthPrev := wprev, totalRate := rate, fsKHz := fs, is10ms := is10 ≠ 0, act := act, toMono := toMono ≠ 0 }
      let r := Opus.SilkStereo.lrPreds x p0 l0 p1 l1
      s!"OK {r.q0} {r.q1} {r.smth} {r.width}"
    | _ => "bad-op"
  | ["stereo-midonly", flag, size] =>
    match parseNat flag, parseNat size with
    | some flag, some size =>
      if flag > 1 ∨ size < 2 ∨ size > 64 then "bad-op"
      else
        let sy := Opus.SilkStereo.encodeMidOnlySym flag
        let e := Opus.RangeCoder.encDone (Opus.RangeCoder.encIcdf (Opus.RangeCoder.encInit (List.replicate size 0) size) sy.1.toNat sy.2 8)
        let d := Opus.SilkSyms.stereoDecodeMidOnly (Opus.RangeCoder.decInit e.buf size)
        s!"OK {toHex e.buf} {e.error} {d.1}"
    | _, _ => "bad-op"
  | _ => "bad-op"

end Driver.SuiteSilkParams
