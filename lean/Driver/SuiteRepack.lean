import OpusModel.Repack
import OpusModel.RepackInPlace
import Driver.Util
import Driver.SuiteExt
/- Suite `repack`: src/repacketizer.c.

   repack seq <op> <op> …       one repacketizer, ops (fields separated by '/'):
        i | n | c/x<packet> | o/<maxlen> | r/<begin>/<end>/<maxlen> | R/<begin>/<end>/<maxlen>/<sd>/<pad>/<exts>
        → ops=<k> then one token per op: - | <nb_frames> | OK/err | <ret>:x<bytes> / err
   repack pad x<packet> <new_len>                     → OK x<bytes> | err
   repack unpad x<packet>                             → OK <ret> x<bytes> | err
   repack mspad x<packet> <new_len> <nb_streams>      → OK x<bytes> | err
   repack msunpad x<packet> <nb_streams>              → OK <ret> x<bytes> | err
   repack padimpl x<packet> <new_len> <pad> <exts>    → OK <ret> x<bytes> | err
   repack unpadip x<packet>                           → OK <ret> x<whole buffer, len bytes> | err   (single-array model)
   repack msunpadip x<packet> <nb_streams>            → OK <ret> x<whole buffer, len bytes> | err            -/
namespace Driver.SuiteRepack
open Opus Opus.Repack Driver

def outStr (r : Res Bytes) : String :=
  match r with
  | .ok bs => s!"{bs.length}:{toHex bs}"
  | .err e => errStr e
  | .oob => "OOB"
  | .abort => "ABORT"

def codeStr (r : Res Unit) : String := resStr (fun _ => "OK") r

def runOps : Rp → List String → List String → Option (List String)
  | _, [], acc => some acc.reverse
  | rp, op :: ops, acc =>
    match op.splitOn "/" with
    | ["i"] => runOps (init rp) ops ("-" :: acc)
    | ["n"] => runOps rp ops (toString (getNbFrames rp) :: acc)
    | ["c", hex] =>
      match parseHex hex with
      | some bs => let (rp', r) := cat rp bs; runOps rp' ops (codeStr r :: acc)
      | none => none
    | ["o", ml] =>
      match parseInt ml with
      | some ml => runOps rp ops (outStr (out rp ml) :: acc)
      | none => none
    | ["r", b, e, ml] =>
      match parseInt b, parseInt e, parseInt ml with
      | some b, some e, some ml => runOps rp ops (outStr (outRange rp b e ml) :: acc)
      | _, _, _ => none
    | ["R", b, e, ml, sd, pad, exts] =>
      match parseInt b, parseInt e, parseInt ml, parseNat sd, parseNat pad, SuiteExt.parseExtList exts with
      | some b, some e, some ml, some sd, some pad, some exts =>
        runOps rp ops (outStr (outRangeImpl rp b e ml (sd != 0) (pad != 0) exts) :: acc)
      | _, _, _, _, _, _ => none
    | _ => none

def handle : List String → String
  | "seq" :: ops =>
    match runOps Rp.empty ops [] with
    | some l => s!"ops={l.length}" ++ String.join (l.map (" " ++ ·))
    | none => "bad-op"
  | ["pad", hex, nl] =>
    match parseHex hex, parseInt nl with
    | some bs, some nl => resStr (fun o => "OK " ++ toHex o) (packetPad bs nl)
    | _, _ => "bad-op"
  | ["unpad", hex] =>
    match parseHex hex with
    | some bs => resStr (fun o => s!"OK {o.length} {toHex o}") (packetUnpad bs)
    | none => "bad-op"
  | ["unpadip", hex] =>
    match parseHex hex with
    | some bs => resStr (fun (o : Bytes × Nat) => s!"OK {o.2} {toHex o.1}") (packetUnpadInPlace bs)
    | none => "bad-op"
  | ["msunpadip", hex, ns] =>
    match parseHex hex, parseInt ns with
    | some bs, some ns => resStr (fun (o : Bytes × Nat) => s!"OK {o.2} {toHex o.1}") (msUnpadInPlace bs ns)
    | _, _ => "bad-op"
  | ["mspad", hex, nl, ns] =>
    match parseHex hex, parseInt nl, parseInt ns with
    | some bs, some nl, some ns => resStr (fun o => "OK " ++ toHex o) (msPad bs nl ns)
    | _, _, _ => "bad-op"
  | ["msunpad", hex, ns] =>
    match parseHex hex, parseInt ns with
    | some bs, some ns => resStr (fun o => s!"OK {o.length} {toHex o}") (msUnpad bs ns)
    | _, _ => "bad-op"
  | ["padimpl", hex, nl, pad, exts] =>
    match parseHex hex, parseInt nl, parseNat pad, SuiteExt.parseExtList exts with
    | some bs, some nl, some pad, some exts =>
      let same := (bs.length : Int) = nl ∧ bs.length ≥ 1
      resStr (fun o => s!"OK {if same then 0 else o.length} {toHex o}") (padImpl bs nl (pad != 0) exts)
    | _, _, _, _ => "bad-op"
  | _ => "bad-op"

end Driver.SuiteRepack
