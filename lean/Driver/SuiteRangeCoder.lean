import OpusModel.RangeCoder
import OpusModel.RangeCoderCodes
import OpusModel.SilkSymsEnc
import OpusModel.OpusFrameEnc
import Driver.Util
import OpusModel.OpusFrameHybridDec
/-
  Suite `rangecoder` (property C08).  Line protocol (harness/c08_rangecoder.c emits the same):

    rangecoder seq <size> <fill> <tables> <ops>
        size    buffer size handed to ec_enc_init (1..1275); the physical buffer has 16 guard
                bytes before and after it (only the part from the buffer start on is modelled:
                size+16 bytes), initial content of physical byte i (i from the buffer start)
                = (fill + 37*i) % 256
        tables  `-` or `/`-separated inverse-CDF tables, each a `,`-separated list of decimals
        ops     `-` or `;`-separated operations
                  e:fl:fh:ft   ec_encode            b:fl:fh:bits ec_encode_bin
                  l:v:logp     ec_enc_bit_logp      i:s:t:ftb    ec_enc_icdf   (table index t)
                  j:s:t:ftb    ec_enc_icdf16        u:v:ft       ec_enc_uint
                  r:v:n        ec_enc_bits          p:v:n        ec_enc_patch_initial_bits
                  s:size       ec_enc_shrink
      answer:  <ok|err> E <st>|<st>|…  D <st> B <hex: size+16 bytes> S <storage> X <st>|<v>@<st>|…
        E   encoder state after ec_enc_init and after every op,   D  after ec_enc_done,
        B   physical buffer and trailing guard bytes after ec_enc_done, S final storage,
        X   decoder (run on the first S bytes): state after ec_dec_init, then value@state per op
        st = rng,val,offs,end_offs,end_window,nend_bits,nbits_total,rem,ext,error,tell,tell_frac

    rangecoder cseq <size> <fill> <codes>          (harness/c08_codes.c; composition with C17)
        codes   `;`-separated coding steps
                  L:value:fs:decay   ec_laplace_encode / ec_laplace_decode
                  P:K:y0,y1,…        encode_pulses / decode_pulses (N = number of y)
                  e: b: l: u: r:     plain calls as in `seq`
      answer:  <ok|err> W <values written back by ec_laplace_encode|-> D <st> B <hex size+16>
               X <decoded: L<int> | P<y,…> | S<n>, `|`-separated, or - on err> Y <decoder st|->

    rangecoder sframe <size> <fill> <fs_kHz> <nb_subfr> <lbrr> <cc> <prevSig> <prevLag> <ix> <pulses>
        (harness/c08_silksyms.c; composition with C03: OpusModel.SilkSymsEnc against OpusModel.SilkSyms)
        ix      sig,qoff,<gains>,nlsf0,<residuals>,interp,lag,contour,per,<ltp>,scale,seed  (lists `/`-separated, `-` = empty)
        pulses  `,`-separated, frame_length values
      answer:  <ok|err> E <st after silk_encode_indices + silk_encode_pulses> D <st after ec_enc_done> B <hex size+16>
               X <ix decoded by C03's model from the bytes> P <pulses decoded, iter*16 values> Y <decoder st>  (X - P - Y - on err)

    rangecoder spacket <size> <fs_kHz> <nCh> <nfpp> <nb_subfr> <flags> <records>
        (harness/c08_silkpacket.c: what the real silk_Encode decided to write, recorded by wrappers, in semantic form)
        records  `;`-separated:  L<n>.<i>=<ix>:<pulses> / F<n>.<i>=<ix>:<pulses>  LBRR / regular frame i of channel n
                                 Q<i>=<a/b/c/d/e/f> / P<i>=…   predictor coded with LBRR / regular frame i
                                 N<i>=<v> / M<i>=<v>           mid-only flag coded with LBRR / regular frame i
      answer:  <ok|err> D <st after ec_enc_done> B <hex: size bytes> R ok   (OpusModel.SilkSymsEnc.packetOps on a zeroed buffer;
               `R` is the harness's model-free round trip through the real silk_Decode, which the theorem says is `ok`)

    rangecoder oframe <max_data_bytes> <fill> <bandwidth> <nCh> <ms10> <flags> <records>
        (harness/c08_silkpacket.c mode `oframe`: the real opus_encode forced to SILK-only; records as in `spacket`)
      answer:  P <hex payload> F <rangeFinal> R ok   (OpusModel.OpusFrameEnc.silkOnlyFrame; R: the harness' real-decoder check; caller buffer byte j = (fill+37j)%256)
    rangecoder oframer <max_data_bytes> <fill> <bandwidth> <nCh> <ms10> <flags> <records> <celt_to_silk> <hex R> <redundant_rng>
        (same, for packets to which the real encoder appended a 5 ms redundancy frame: its bytes R and final range are inputs)
      answer:  P <hex payload> F <rangeFinal> R ok   (OpusModel.OpusFrameEnc.silkRedFrame)

    rangecoder hred <bandwidth> <nCh> <ms10> <spf48> <hex frame>
        (harness/c08_hybrid.c: one HYBRID frame — the packet of the real opus_encode without its TOC byte; C08 slice Hybrid)
      answer:  <redundancy> <celt_to_silk, printed as 0 when redundancy = 0: the harness observes it through the redundancy decode only> <redundancy_bytes> F <final range> E ok
               (C03's decodeOpusFrame — SILK part + redundancy parse — then OpusModel.OpusFrameHybridDec.hybridRangeFinal (0 when the parse left len <= 1, else decRangeFinal): the CELT part
                from band 17 on the shared coder and the 5 ms redundancy frame decoded from data+len, XOR of the two rng)

    rangecoder tf <l> <rlo> <n> <low> <nbits>
        ec_tell / ec_tell_frac for rng = (r << (l-16)) + (low ? 2^(l-16)-1 : 0), r = rlo..rlo+n-1,
        nbits_total = nbits;   answer: `,`-separated `tell:tell_frac`
    rangecoder ilog <v,v,…>     EC_ILOG of each value (> 0);  answer: `,`-separated
-/
namespace Driver.SuiteRangeCoder
open Opus Opus.RangeCoder Driver

def stStr (c : Ctx) : String :=
  s!"{c.rng},{c.val},{c.offs},{c.endOffs},{c.endWindow},{c.nendBits},{c.nbitsTotal},{c.rem},{c.ext},{c.error},{tell c},{tellFrac c}"

def parseTables (s : String) : Option (List (List Nat)) :=
  if s = "-" then some [] else (s.splitOn "/").mapM parseNatList

def parseOp (tbls : List (List Nat)) (s : String) : Option Op :=
  match s.splitOn ":" with
  | [k, a, b, c] =>
    match parseNat a, parseNat b, parseNat c with
    | some a, some b, some c =>
      if k = "e" then some (.encode a b c)
      else if k = "b" then some (.encodeBin a b c)
      else if k = "i" then (tbls[b]?).map (fun t => .icdf a t c)
      else if k = "j" then (tbls[b]?).map (fun t => .icdf16 a t c)
      else none
    | _, _, _ => none
  | [k, a, b] =>
    match parseNat a, parseNat b with
    | some a, some b =>
      if k = "l" then some (.bitLogp a b)
      else if k = "u" then some (.uint a b)
      else if k = "r" then some (.bits a b)
      else if k = "p" then some (.patchInitial a b)
      else none
    | _, _ => none
  | [k, a] =>
    match parseNat a with
    | some a => if k = "s" then some (.shrink a) else none
    | none => none
  | _ => none

def parseOps (tbls : List (List Nat)) (s : String) : Option (List Op) :=
  if s = "-" then some [] else (s.splitOn ";").mapM (parseOp tbls)

def encTrace (c : Enc) : List Op → List String → Enc × List String
  | [], acc => (c, acc.reverse)
  | op :: ops, acc => let c1 := encOp c op; encTrace c1 ops (stStr c1 :: acc)

def decTrace (c : Dec) : List Op → List String → List String
  | [], acc => acc.reverse
  | op :: ops, acc =>
    let (v, c1) := decOp c op
    decTrace c1 ops (s!"{v}@{stStr c1}" :: acc)

def runSeq (size fill : Nat) (ops : List Op) : String :=
  let phys := (List.range (size + 16)).map (fun i => (fill + 37 * i) % 256)
  let e0 := encInit phys size
  let (e1, tr) := encTrace e0 ops [stStr e0]
  let e2 := encDone e1
  let d0 := decInit (e2.buf.take e2.storage) e2.storage
  let dtr := decTrace d0 ops [stStr d0]
  let tag := if e2.error = 0 then "ok" else "err"
  s!"{tag} E {"|".intercalate tr} D {stStr e2} B {toHex e2.buf} S {e2.storage} X {"|".intercalate dtr}"

def tfCtx (rng nbits : Nat) : Ctx :=
  { (default : Ctx) with rng := rng, nbitsTotal := nbits }

def parseCode (s : String) : Option Code :=
  match s.splitOn ":" with
  | ["L", a, b, c] =>
    match parseInt a, parseNat b, parseNat c with
    | some a, some b, some c => some (.laplace a b c)
    | _, _, _ => none
  | ["P", k, ys] =>
    match parseNat k, parseIntList ys with
    | some k, some ys => some (.pulses ys k)
    | _, _ => none
  | _ => (parseOp [] s).map .op

def valStr : CodeVal → String
  | .sym x => s!"S{x}"
  | .lap v => s!"L{v}"
  | .vec y => "P" ++ intList y

def faultStr {α} : Res α → String
  | .ok _ => "ok"
  | .err e => e.name
  | .oob => "OOB"
  | .abort => "ABORT"

def runCseq (size fill : Nat) (cs : List Code) : String :=
  let phys := (List.range (size + 16)).map (fun i => (fill + 37 * i) % 256)
  match codesOps cs with
  | .ok ops =>
    let e2 := encodeAll phys size ops
    let wb := cs.filterMap (fun c =>
      match c with
      | .laplace v fs d => (match Laplace.encode v fs d with | .ok r => some r.2.2 | _ => none)
      | _ => none)
    let tag := if e2.error = 0 then "ok" else "err"
    let wbs := if wb.isEmpty then "-" else intList wb
    let head := s!"{tag} W {wbs} D {stStr e2} B {toHex e2.buf}"
    if e2.error ≠ 0 then head ++ " X - Y -"
    else
      match decCodes (decInit (e2.buf.take e2.storage) e2.storage) cs with
      | .ok (vals, d) => head ++ s!" X {"|".intercalate (vals.map valStr)} Y {stStr d}"
      | r => head ++ " X " ++ faultStr r
  | r => faultStr r

def parseSlash (s : String) : Option (List Int) :=
  if s = "-" then some [] else (s.splitOn "/").mapM parseInt

def slashStr (l : List Int) : String := if l.isEmpty then "-" else "/".intercalate (l.map toString)

def parseIx (s : String) : Option SilkSyms.Indices :=
  match s.splitOn "," with
  | [sig, qoff, gains, n0, res, ip, lag, con, per, ltp, sc, seed] =>
    match parseNat sig, parseNat qoff, parseSlash gains, parseNat n0, parseSlash res, parseNat ip with
    | some sig, some qoff, some gains, some n0, some res, some ip =>
      match parseInt lag, parseNat con, parseNat per, parseSlash ltp, parseNat sc, parseNat seed with
      | some lag, some con, some per, some ltp, some sc, some seed =>
        some { signalType := sig, quantOffsetType := qoff, gains := gains.map Int.toNat, nlsf0 := n0, nlsfRes := res, interp := ip, lagIndex := lag, contourIndex := con, perIndex := per, ltp := ltp.map Int.toNat, ltpScale := sc, seed := seed }
      | _, _, _, _, _, _ => none
    | _, _, _, _, _, _ => none
  | _ => none

def ixStr (ix : SilkSyms.Indices) : String :=
  s!"{ix.signalType},{ix.quantOffsetType},{slashStr (ix.gains.map Int.ofNat)},{ix.nlsf0},{slashStr ix.nlsfRes},{ix.interp},{ix.lagIndex},{ix.contourIndex},{ix.perIndex},{slashStr (ix.ltp.map Int.ofNat)},{ix.ltpScale},{ix.seed}"

def runSframe (size fill : Nat) (rate : SilkSyms.Rate) (nb lbrr cc prevSig : Nat) (prevLag : Int) (ix : SilkSyms.Indices)
    (pulses : List Int) : String :=
  let phys := (List.range (size + 16)).map (fun i => (fill + 37 * i) % 256)
  match SilkSymsEnc.encodeFrame rate nb (lbrr ≠ 0) cc prevSig prevLag ix pulses with
  | .ok ops =>
    let e1 := encRun (encInit phys size) ops
    let e2 := encDone e1
    let tag := if e2.error = 0 then "ok" else "err"
    let head := s!"{tag} E {stStr e1} D {stStr e2} B {toHex e2.buf}"
    if e2.error ≠ 0 then head ++ " X - P - Y -"
    else
      let d0 := decInit (e2.buf.take e2.storage) e2.storage
      let (ix', d1) := SilkSyms.decodeIndices rate nb (decide (lbrr ≠ 0 ∨ ix.signalType ≠ 0)) cc prevSig prevLag d0
      let (pu, d2) := SilkSyms.decodePulses ix'.signalType ix'.quantOffsetType (SilkSyms.frameLength rate nb) d1
      head ++ s!" X {ixStr ix'} P {intList pu.pulses} Y {stStr d2}"
  | r => faultStr r

/-- Build the payload writer's input from the harness record. -/
def parsePacket (nCh nfpp flags : Nat) (recs : List String) : Option SilkSymsEnc.PacketIn := do
  let k := (nfpp + 1) * nCh
  let bit (j : Nat) : Nat := flags / 2 ^ (k - 1 - j) % 2
  let mut l0 : List (Nat × SilkSymsEnc.FrameIn) := []
  let mut l1 : List (Nat × SilkSymsEnc.FrameIn) := []
  let mut f0 : List (Nat × SilkSymsEnc.FrameIn) := []
  let mut f1 : List (Nat × SilkSymsEnc.FrameIn) := []
  let mut pr : List (Nat × List Nat) := []
  let mut qr : List (Nat × List Nat) := []
  let mut mr : List (Nat × Nat) := []
  let mut nr : List (Nat × Nat) := []
  for r in recs do
    match r.splitOn "=" with
    | [key, val] =>
      let kind : String := (key.take 1).toString
      let idx : String := (key.drop 1).toString
      if kind = "L" ∨ kind = "F" then
        match idx.splitOn ".", val.splitOn ":" with
        | [n, i], [ixs, pus] =>
          let n ← parseNat n
          let i ← parseNat i
          let ix ← parseIx ixs
          let pu ← parseIntList pus
          let fr : SilkSymsEnc.FrameIn := { ix := ix, pulses := pu }
          if kind = "L" then
            if n = 0 then l0 := (i, fr) :: l0 else l1 := (i, fr) :: l1
          else
            if n = 0 then f0 := (i, fr) :: f0 else f1 := (i, fr) :: f1
        | _, _ => none
      else if kind = "P" ∨ kind = "Q" then
        let i ← parseNat idx
        let v ← parseSlash val
        if kind = "P" then pr := (i, v.map Int.toNat) :: pr else qr := (i, v.map Int.toNat) :: qr
      else if kind = "M" ∨ kind = "N" then
        let i ← parseNat idx
        let v ← parseNat val
        if kind = "M" then mr := (i, v) :: mr else nr := (i, v) :: nr
      else none
    | _ => none
  let look {α} [Inhabited α] (l : List (Nat × α)) (i : Nat) : α := ((l.find? (fun p => p.1 = i)).map (·.2)).getD default
  let has {α} (l : List (Nat × α)) (i : Nat) : Nat := if (l.find? (fun p => p.1 = i)).isSome then 1 else 0
  let rng := List.range nfpp
  let ch0 : SilkSymsEnc.ChanIn := { vad := rng.map bit, lbrrFlags := rng.map (has l0), lbrr := rng.map (look l0), frames := rng.map (look f0), prev := {} }
  let ch1 : SilkSymsEnc.ChanIn := { vad := rng.map (fun i => bit (nfpp + 1 + i)), lbrrFlags := rng.map (has l1), lbrr := rng.map (look l1), frames := rng.map (look f1), prev := {} }
  -- a side frame that was not coded (no F1.i record) means the mid-only flag was set, whether or not it was coded
  let mid := rng.map (fun i => if nCh = 2 ∧ has f1 i = 0 then 1 else look mr i)
  pure { ch0 := ch0, ch1 := ch1, predIx := rng.map (look pr), midOnly := mid, lbrrPredIx := rng.map (look qr), lbrrMidOnly := rng.map (look nr) }

def runSpacket (size : Nat) (cfg : SilkSyms.Cfg) (pk : SilkSymsEnc.PacketIn) : String :=
  let e := encodeAll (List.replicate size 0) size (SilkSymsEnc.packetOps cfg pk)
  let tag := if e.error = 0 then "ok" else "err"
  s!"{tag} D {stStr e} B {toHex e.buf} R ok"

def runOframe (maxData fill bw nCh ms10 : Nat) (pk : SilkSymsEnc.PacketIn) : String :=
  let buf := (List.range (maxData - 1)).map (fun j => (fill + 37 * j) % 256)
  let f := OpusFrameEnc.silkOnlyFrame buf maxData (OpusFrameEnc.silkCfg bw nCh ms10) pk
  s!"P {toHex f.payload} F {f.rangeFinal} R ok"

def runOframeR (maxData fill bw nCh ms10 : Nat) (pk : SilkSymsEnc.PacketIn) (c2s : Nat) (R : Bytes) (rr : Nat) : String :=
  let buf := (List.range (maxData - 1)).map (fun j => (fill + 37 * j) % 256)
  let f := OpusFrameEnc.silkRedFrame buf maxData (OpusFrameEnc.silkCfg bw nCh ms10) pk c2s R rr
  s!"P {toHex f.payload} F {f.rangeFinal} R ok"

def runHred (bw nCh ms10 spf48 : Nat) (fr : Bytes) : String :=
  match SilkSyms.decodeOpusFrame 1001 bw nCh ms10 false {} fr with
  | .ok o =>
    match OpusFrameHybridDec.hybridRangeFinal bw nCh spf48 fr o with
    | .ok f => s!"{o.redundancy} {if o.redundancy = 0 then 0 else o.celtToSilk} {o.redundancyBytes} F {f} E ok"
    | .err e => s!"celt-err {repr e}"
    | .oob => "celt-oob"
    | .abort => "celt-abort"
  | .err e => s!"silk-err {repr e}"
  | .oob => "silk-oob"
  | .abort => "silk-abort"

def handle : List String → String
  | ["hred", bw, nCh, ms10, spf48, hex] =>
    match parseNat bw, parseNat nCh, parseNat ms10, parseNat spf48, parseHex hex with
    | some bw, some nCh, some ms10, some spf48, some fr => runHred bw nCh ms10 spf48 fr
    | _, _, _, _, _ => "bad-op"
  | ["oframer", maxData, fill, bw, nCh, ms10, flags, recs, c2s, r, rr] =>
    match parseNat maxData, parseNat fill, parseNat bw, parseNat nCh, parseNat ms10, parseNat flags with
    | some maxData, some fill, some bw, some nCh, some ms10, some flags =>
      match parsePacket nCh (OpusFrameEnc.silkCfg bw nCh ms10).nfpp flags (if recs = "-" then [] else recs.splitOn ";"),
            parseNat c2s, parseHex r, parseNat rr with
      | some pk, some c2s, some r, some rr => runOframeR maxData fill bw nCh ms10 pk c2s r rr
      | _, _, _, _ => "bad-op"
    | _, _, _, _, _, _ => "bad-op"
  | ["oframe", maxData, fill, bw, nCh, ms10, flags, recs] =>
    match parseNat maxData, parseNat fill, parseNat bw, parseNat nCh, parseNat ms10, parseNat flags with
    | some maxData, some fill, some bw, some nCh, some ms10, some flags =>
      match parsePacket nCh (OpusFrameEnc.silkCfg bw nCh ms10).nfpp flags (if recs = "-" then [] else recs.splitOn ";") with
      | some pk => runOframe maxData fill bw nCh ms10 pk
      | none => "bad-op"
    | _, _, _, _, _, _ => "bad-op"
  | ["spacket", size, fs, nCh, nfpp, nb, flags, recs] =>
    match parseNat size, parseNat fs, parseNat nCh, parseNat nfpp, parseNat nb, parseNat flags with
    | some size, some fs, some nCh, some nfpp, some nb, some flags =>
      match (if fs = 8 then some SilkSyms.Rate.nb else if fs = 12 then some .mb else if fs = 16 then some .wb else none),
            parsePacket nCh nfpp flags (if recs = "-" then [] else recs.splitOn ";") with
      | some rate, some pk => runSpacket size { rate, nCh, nfpp, nbSubfr := nb, lostFlag := 0 } pk
      | _, _ => "bad-op"
    | _, _, _, _, _, _ => "bad-op"
  | ["sframe", size, fill, fs, nb, lbrr, cc, prevSig, prevLag, ix, pulses] =>
    match parseNat size, parseNat fill, parseNat fs, parseNat nb, parseNat lbrr, parseNat cc with
    | some size, some fill, some fs, some nb, some lbrr, some cc =>
      match parseNat prevSig, parseInt prevLag, parseIx ix, parseIntList pulses with
      | some prevSig, some prevLag, some ix, some pulses =>
        match (if fs = 8 then some SilkSyms.Rate.nb else if fs = 12 then some .mb else if fs = 16 then some .wb else none) with
        | some rate => runSframe size fill rate nb lbrr cc prevSig prevLag ix pulses
        | none => "bad-op"
      | _, _, _, _ => "bad-op"
    | _, _, _, _, _, _ => "bad-op"
  | ["cseq", size, fill, codes] =>
    match parseNat size, parseNat fill, (codes.splitOn ";").mapM parseCode with
    | some size, some fill, some cs => runCseq size fill cs
    | _, _, _ => "bad-op"
  | ["seq", size, fill, tbls, ops] =>
    match parseNat size, parseNat fill, parseTables tbls with
    | some size, some fill, some tbls =>
      match parseOps tbls ops with
      | some ops => runSeq size fill ops
      | none => "bad-op"
    | _, _, _ => "bad-op"
  | ["tf", l, rlo, n, low, nbits] =>
    match parseNat l, parseNat rlo, parseNat n, parseNat low, parseNat nbits with
    | some l, some rlo, some n, some low, some nbits =>
      if l < 16 ∨ l > 32 then "bad-op" else
      ",".intercalate ((List.range n).map (fun i =>
        let rng := (rlo + i) * 2 ^ (l - 16) + (if low ≠ 0 then 2 ^ (l - 16) - 1 else 0)
        let c := tfCtx rng nbits
        s!"{tell c}:{tellFrac c}"))
    | _, _, _, _, _ => "bad-op"
  | ["ilog", vs] =>
    match parseNatList vs with
    | some vs => natList (vs.map ilog)
    | none => "bad-op"
  | _ => "bad-op"

end Driver.SuiteRangeCoder
