import OpusModel.Ctl
import OpusModel.SilkBw
import OpusModel.Framing
import Driver.Util
/-
  Suite `ctl` (property C11).  One `I` line carries a whole history for one object.

    ctl toc <mode> <framerate> <bandwidth> <channels>                  gen_toc (on GenTocDom)
    ctl fss <frame_size> <variable_duration> <Fs>                      frame_size_select
    ctl create enc <Fs> <ch> <app> <failk>                             create (+ k-th malloc fails)
    ctl create dec <Fs> <ch> <failk>
    ctl create encinit <Fs> <ch> <app>   /   ctl create decinit <Fs> <ch>   (init on caller memory)
    ctl create msenc <Fs> <ch> <streams> <coupled> <map> <app> <failk>
    ctl create mssur <Fs> <ch> <family> <app> <failk>
    ctl create msdec <Fs> <ch> <streams> <coupled> <map> <failk>
    ctl create projenc <Fs> <ch> <family> <app> <failk>
    ctl enc <Fs> <ch> <app> <op>*                                      ctl / encode history
    ctl dec <Fs> <ch> <op>*
    ctl msenc <Fs> <ch> <streams> <coupled> <map> <app> <op>*
    ctl mssur <Fs> <ch> <family> <app> <op>*
    ctl projenc <Fs> <ch> <app> <op>*
    ctl msdec <Fs> <ch> <streams> <coupled> <map> <op>*                (also projection decoder)
    ctl honour <Fs> <ch> <app> <sets> <frame_size> <bytes> <k> <sets2> <pk>*
    ctl silkbw <fs_kHz> <saved_fs_kHz> <mode> <tfn> <API_fs> <desired> <max> <min> <allow> <can>
                                                                       silk_control_audio_bandwidth → <ret> <mode'> <tfn'> <switchReady set>
    ctl silkbwseq <Fs> <call>*                                         the calls logged inside one real encoder history, call =
              <ch>,<fs_kHz>,<saved>,<mode>,<tfn>,<API_fs>,<desired>,<max>,<min>,<allow>,<can>,<ret>,<mode'>,<tfn'>,<ready>,<opus mode>,<opus bandwidth>
              checked: every call against `controlBw`; the control inputs against `opusSilkIn` (some max_data_bytes);
              channel 0's state before a call is reachable from its state after the previous call by a `Gap`

  op tokens:  s<id>:<v>  setter      g<id> getter (valid pointer)   n<id> getter (NULL)
              r  OPUS_RESET_STATE    m0|m1 SET_ENERGY_MASK(NULL|ptr)   c0|c1 CELT_GET_MODE(NULL|ptr)
              u<id>  request number the object does not implement
              x<id>:<0|1>  MULTISTREAM_GET_{EN,DE}CODER_STATE(id, NULL|ptr)
              q<0|1> / a<0|1> / t<0|1>:<size>  projection demixing size / gain / matrix requests
              E<frame_size>:<bytes>:<ret>:<obs,…>:<toc>:<payload>:<frames>:<sig>:<seed>:<fmt>   opus_encode{,24,_float} + fields observed afterwards, packet, signal
              D<frame_size>:<ret>:<obs,…>           opus_decode + fields observed afterwards
  After every op the answer is `<code>[=<value>]/<snapshot>`.
-/
namespace Driver.SuiteCtl
open Opus Opus.EncDecide Opus.Ctl Driver

def retStr (r : Ret) : String :=
  let c := if r.code = 0 then "OK" else
    match [Err.badArg, .bufferTooSmall, .internalError, .invalidPacket, .unimplemented, .invalidState, .allocFail].find?
      (fun e => e.code = r.code) with
    | some e => e.name
    | none => s!"ERR{r.code}"
  match r.val with
  | some v => s!"{c}={v}"
  | none => c

def b2i (b : Bool) : Int := if b then 1 else 0

/-- All getters (through `encCtl`) followed by the hidden fields. -/
def encSnap (s : EncSt) : String :=
  let gs := EncGetK.all.map (fun k => match (encCtl s (.get k true)).2.val with
    | some v => toString v
    | none => "?")
  let hidden : List Int :=
    [s.userBitrate, s.userBandwidth, s.userForcedMode, s.lfe, b2i s.first, s.maxInternalSampleRate,
     s.useCBR, s.useInBandFEC, s.celtComplexity, s.celtLossRate, s.celtDisableInv, s.celtLfe,
     b2i s.celtEnergyMask, b2i s.energyMasking]
  ",".intercalate (gs ++ hidden.map toString)

def decSnap (s : DecSt) : String :=
  let gs := DecGetK.all.map (fun k => match (decCtl s (.get k true)).2.val with
    | some v => toString v
    | none => "?")
  ",".intercalate (gs ++ [toString s.celtComplexity])

def msEncSnap (s : MsEncSt) : String :=
  let gs := EncGetK.all.map (fun k =>
    let r := (msEncCtl s (.get k true)).2
    match r.val with
    | some v => toString v
    | none => retStr r)
  ",".intercalate (gs ++ [toString s.bitrateBps]) ++ ";" ++ ";".intercalate (s.streams.map encSnap)

def msDecSnap (s : MsDecSt) : String :=
  let gs := DecGetK.all.map (fun k =>
    let r := (msDecCtl s (.get k true)).2
    match r.val with
    | some v => toString v
    | none => retStr r)
  ",".intercalate gs ++ ";" ++ ";".intercalate (s.streams.map decSnap)

def tokBody (t : String) : String := String.ofList (t.toList.drop 1)

def encKnownIds : List Int :=
  EncSetK.all.map (·.id) ++ EncGetK.all.map (·.id) ++ [OPUS_RESET_STATE, OPUS_SET_ENERGY_MASK_REQUEST, CELT_GET_MODE_REQUEST]
def decKnownIds : List Int := DecSetK.all.map (·.id) ++ DecGetK.all.map (·.id) ++ [OPUS_RESET_STATE]
def msEncKnownIds : List Int :=
  (EncSetK.all.filter (fun k => msEncFwdSet k || k = .bitrate || k = .expertFrameDuration)).map (·.id) ++
  (EncGetK.all.filter (fun k => msEncFwdGet k || k = .bitrate || k = .finalRange || k = .expertFrameDuration)).map (·.id) ++
  [OPUS_RESET_STATE, OPUS_MULTISTREAM_GET_ENCODER_STATE_REQUEST]
def msDecKnownIds : List Int :=
  (DecSetK.all.filter msDecFwdSet).map (·.id) ++
  (DecGetK.all.filter (fun k => msDecFwdGet k || k = .finalRange)).map (·.id) ++
  [OPUS_RESET_STATE, OPUS_MULTISTREAM_GET_DECODER_STATE_REQUEST]

/-- Parse a plain ctl token for the encoder. -/
def parseEncReq (t : String) : Option EncReq :=
  let body := tokBody t
  match t.toList.head? with
  | some 's' => match body.splitOn ":" with
    | [i, v] => do
      let i ← i.toInt?; let v ← v.toInt?
      let k ← EncSetK.all.find? (·.id = i)
      pure (.set k v)
    | _ => none
  | some 'g' => do let i ← body.toInt?; let k ← EncGetK.all.find? (·.id = i); pure (.get k true)
  | some 'n' => do let i ← body.toInt?; let k ← EncGetK.all.find? (·.id = i); pure (.get k false)
  | some 'r' => if body = "" then some .resetState else none
  | some 'm' => if body = "1" then some (.setEnergyMask true) else if body = "0" then some (.setEnergyMask false) else none
  | some 'c' => if body = "1" then some (.celtGetMode true) else if body = "0" then some (.celtGetMode false) else none
  | some 'u' => do let i ← body.toInt?; if encKnownIds.contains i then none else pure (.unknown i)
  | _ => none

def parseDecReq (t : String) : Option DecReq :=
  let body := tokBody t
  match t.toList.head? with
  | some 's' => match body.splitOn ":" with
    | [i, v] => do
      let i ← i.toInt?; let v ← v.toInt?
      let k ← DecSetK.all.find? (·.id = i)
      pure (.set k v)
    | _ => none
  | some 'g' => do let i ← body.toInt?; let k ← DecGetK.all.find? (·.id = i); pure (.get k true)
  | some 'n' => do let i ← body.toInt?; let k ← DecGetK.all.find? (·.id = i); pure (.get k false)
  | some 'r' => if body = "" then some .resetState else none
  | some 'u' => do let i ← body.toInt?; if decKnownIds.contains i then none else pure (.unknown i)
  | _ => none

/-- Multistream encoder requests.  A setter/getter kind the MS layer does not forward is still a
    well-typed call (int / int* argument); the model answers UNIMPLEMENTED for it. -/
def parseMsEncReq (t : String) : Option MsEncReq :=
  let body := tokBody t
  match t.toList.head? with
  | some 's' => match body.splitOn ":" with
    | [i, v] => do
      let i ← i.toInt?; let v ← v.toInt?
      let k ← EncSetK.all.find? (·.id = i)
      pure (.set k v)
    | _ => none
  | some 'g' => do let i ← body.toInt?; let k ← EncGetK.all.find? (·.id = i); pure (.get k true)
  | some 'n' => do let i ← body.toInt?; let k ← EncGetK.all.find? (·.id = i); pure (.get k false)
  | some 'r' => if body = "" then some .resetState else none
  | some 'x' => match body.splitOn ":" with
    | [i, p] => do let i ← i.toInt?; let p ← p.toNat?; pure (.getEncoderState i (p != 0))
    | _ => none
  | some 'u' => do let i ← body.toInt?; if msEncKnownIds.contains i then none else pure (.unknown i)
  | _ => none

def parseMsDecReq (t : String) : Option MsDecReq :=
  let body := tokBody t
  match t.toList.head? with
  | some 's' => match body.splitOn ":" with
    | [i, v] => do
      let i ← i.toInt?; let v ← v.toInt?
      let k ← DecSetK.all.find? (·.id = i)
      pure (.set k v)
    | _ => none
  | some 'g' => do let i ← body.toInt?; let k ← DecGetK.all.find? (·.id = i); pure (.get k true)
  | some 'n' => do let i ← body.toInt?; let k ← DecGetK.all.find? (·.id = i); pure (.get k false)
  | some 'r' => if body = "" then some .resetState else none
  | some 'x' => match body.splitOn ":" with
    | [i, p] => do let i ← i.toInt?; let p ← p.toNat?; pure (.getDecoderState i (p != 0))
    | _ => none
  | some 'u' => do let i ← body.toInt?; if msDecKnownIds.contains i then none else pure (.unknown i)
  | _ => none

def parseProjReq (t : String) : Option ProjEncReq :=
  let body := tokBody t
  match t.toList.head? with
  | some 'q' => if body = "1" then some (.demixSize true) else if body = "0" then some (.demixSize false) else none
  | some 'a' => if body = "1" then some (.demixGain true) else if body = "0" then some (.demixGain false) else none
  | some 't' => match body.splitOn ":" with
    | [p, sz] => do let p ← p.toNat?; let sz ← sz.toInt?; pure (.demixMatrix (p != 0) sz)
    | _ => none
  | _ => (parseMsEncReq t).map .ms

/-- `obs` list of an `E` token → `EncObs` (17 values, order of the structure). -/
def parseEncObs (l : List Int) : Option EncObs :=
  match l with
  | [first, bw, pfs, rng, vr, fc, mir, cbr, sdtx, pm, sin, noact, sc, mode, pc, tm, cem] =>
    some { first := first != 0, bandwidth := bw, prevFramesize := pfs, rangeFinal := rng.toNat,
           voiceRatio := vr, forceChannels := fc, maxInternalSampleRate := mir, useCBR := cbr,
           silkUseDTX := sdtx, prevMode := pm, silkInDtx := sin, noActivityQ1 := noact,
           streamChannels := sc, mode, prevChannels := pc, toMono := tm, celtEnergyMask := cem != 0 }
  | _ => none

/-- `E<frame_size>:<bytes>:<ret>:<obs>` on a single encoder. -/
def encEncodeOp (s : EncSt) (body : String) : Option (EncSt × String) :=
  -- (the trailing toc:payload:frames describe the packet on the wire; they are read by the S4 search only)
  match body.splitOn ":" with
  | [fsz, bytes, ret, obs, _, _, _, _, _, fmt] => do
    let fsz ← fsz.toInt?; let bytes ← bytes.toInt?; let ret ← ret.toInt?; let fmt ← fmt.toNat?
    let o ← (← parseIntList obs) |> parseEncObs
    match encodeContract s fsz bytes ret o fmt with
    | some why => pure (encAdopt s o, s!"CONTRACT({why})")
    | none => pure (encAdopt s o, "enc")
  | _ => none

def runEnc (s : EncSt) : List String → List String → String
  | [], acc => " ".intercalate acc.reverse
  | t :: ts, acc =>
    if t.toList.head? = some 'E' then
      match encEncodeOp s (tokBody t) with
      | some (s', r) => runEnc s' ts (s!"{r}/{encSnap s'}" :: acc)
      | none => "bad-op"
    else match parseEncReq t with
      | none => "bad-op"
      | some req =>
        let (s', r) := encCtl s req
        runEnc s' ts (s!"{retStr r}/{encSnap s'}" :: acc)

def parseDecObs (l : List Int) : Option DecObs :=
  match l with
  | [bw, pm, dur, rng, cp, sp] =>
    some { bandwidth := bw, prevMode := pm, lastPacketDuration := dur, rangeFinal := rng.toNat,
           celtPitch := cp, silkPitch := sp }
  | _ => none

def runDec (s : DecSt) : List String → List String → String
  | [], acc => " ".intercalate acc.reverse
  | t :: ts, acc =>
    if t.toList.head? = some 'D' then
      match (tokBody t).splitOn ":" with
      | [_, _, obs] =>
        match (parseIntList obs).bind parseDecObs with
        | some o => let s' := decAdopt s o; runDec s' ts (s!"dec/{decSnap s'}" :: acc)
        | none => "bad-op"
      | _ => "bad-op"
    else match parseDecReq t with
      | none => "bad-op"
      | some req =>
        let (s', r) := decCtl s req
        runDec s' ts (s!"{retStr r}/{decSnap s'}" :: acc)

/-- Observation after a multistream encode: per stream `EncObs` (17) followed by
    user_bitrate_bps, user_bandwidth, user_forced_mode, energy_masking!=0. -/
def adoptMsStream (e : EncSt) (l : List Int) : Option EncSt :=
  match parseEncObs (l.take 17), l.drop 17 with
  | some o, [ub, ubw, ufm, em] =>
    some { encAdopt e o with userBitrate := ub, userBandwidth := ubw, userForcedMode := ufm,
                             energyMasking := em != 0 }
  | _, _ => none

def adoptMs (s : MsEncSt) (obs : String) : Option MsEncSt := do
  let parts := obs.splitOn ";"
  if parts.length ≠ s.streams.length then none
  let ss ← (s.streams.zip parts).mapM (fun (e, p) => (parseIntList p).bind (adoptMsStream e))
  pure { s with streams := ss }

/-- Settings part of a multistream encode call against `Ctl.msPrep`: with the observed per-stream bit-rates as the
    rate oracle and some surround bandwidth, the model must leave exactly the observed user_bandwidth /
    user_forced_mode / force_channels (and energy mask on success) in every stream; an early exit changes nothing. -/
def msSettingsCheck (s : MsEncSt) (fsz bytes ret : Int) (m : MsEncSt) : Option String :=
  match msEncodeEarly s fsz bytes with
  | some e =>
    if ret ≠ e.code then some s!"ms-early-ret {e.name}"
    else if m.streams ≠ s.streams then some "ms-early-state" else none
  | none =>
    let bws : List Int := if s.surround then [BW_NB, BW_WB, BW_SWB, BW_FB] else [BW_FB]
    let okFor (bw : Int) : Bool :=
      ((List.range s.streams.length).all fun i =>
        match s.streams[i]?, m.streams[i]? with
        | some e, some e' =>
          let e1 := msPrep s i e e'.userBitrate bw
          e1.userBandwidth == e'.userBandwidth && e1.userForcedMode == e'.userForcedMode &&
          e1.forceChannels == e'.forceChannels && e1.maxInternalSampleRate == (if s.surround then maxIntRate bw else e.maxInternalSampleRate) &&
          (decide (ret < 0) || e'.energyMasking == (s.surround || e.energyMasking)) &&
          e1.application == e'.application && e1.useVbr == e'.useVbr && e1.lfe == e'.lfe && e1.complexity == e'.complexity
        | _, _ => false)
    if bws.any okFor then none else some "ms-settings"

def runProj (s : ProjEncSt) : List String → List String → String
  | [], acc => " ".intercalate acc.reverse
  | t :: ts, acc =>
    if t.toList.head? = some 'E' then
      match (tokBody t).splitOn ":" with
      | [fszT, bytesT, retT, obs, _, _] =>
        match adoptMs s.ms obs with
        | some m =>
          let settingsBad := match fszT.toInt?, bytesT.toInt?, retT.toInt? with
            | some fsz, some bytes, some ret => msSettingsCheck s.ms fsz bytes ret m
            | _, _, _ => some "bad-op"
          let s' := { s with ms := m }
          -- monitored part of `msEncodeContract`: per-stream ranges (streams may differ in `first` since fix 9ffbe457)
          -- (the multistream layer rewrites per-stream bitrate / bandwidth / forced mode / force_channels
          --  through opus_encoder_ctl, so these are checked against their legal ranges, not for equality)
          let rangeBad := m.streams.any (fun e =>
            (obsRange e (encObserve e)).isSome ||
            !(decide (e.forceChannels = OPUS_AUTO ∨ (1 ≤ e.forceChannels ∧ e.forceChannels ≤ e.channels))) ||
            !(decide (e.userBitrate = OPUS_AUTO ∨ e.userBitrate = OPUS_BITRATE_MAX ∨
                      (500 ≤ e.userBitrate ∧ e.userBitrate ≤ 300000 * e.channels))) ||
            !(decide (e.userBandwidth = OPUS_AUTO ∨ (BW_NB ≤ e.userBandwidth ∧ e.userBandwidth ≤ BW_FB))) ||
            !(decide (e.userForcedMode = OPUS_AUTO ∨ (MODE_SILK_ONLY ≤ e.userForcedMode ∧ e.userForcedMode ≤ MODE_CELT_ONLY))))
          let tag := if let some why := settingsBad then s!"CONTRACT({why})"
                     else if rangeBad then "CONTRACT(ms-range)" else "enc"
          runProj s' ts (s!"{tag}/{msEncSnap s'.ms}" :: acc)
        | none => "bad-op"
      | _ => "bad-op"
    else match parseProjReq t with
      | none => "bad-op"
      | some req =>
        let (s', r) := projEncCtl s req
        runProj s' ts (s!"{retStr r}/{msEncSnap s'.ms}" :: acc)

def runMsDec (s : MsDecSt) : List String → List String → String
  | [], acc => " ".intercalate acc.reverse
  | t :: ts, acc =>
    match parseMsDecReq t with
    | none => "bad-op"
    | some req =>
      let (s', r) := msDecCtl s req
      runMsDec s' ts (s!"{retStr r}/{msDecSnap s'}" :: acc)

def resHead {α} : Res α → String
  | .ok _ => "OK"
  | .err e => e.name
  | .oob => "OOB"
  | .abort => "ABORT"

/-! ### honour -/

def applySets (s : EncSt) (sets : String) : Option EncSt :=
  if sets = "-" then some s else
  (sets.splitOn ",").foldlM (fun s t =>
    match t.splitOn ":" with
    | [i, v] => do
      let i ← i.toInt?; let v ← v.toInt?
      let k ← EncSetK.all.find? (·.id = i)
      encSet s k v
    | _ => none) s

structure PkObs where
  len : Int
  toc : Nat
  b1 : Int

def parsePk (t : String) : Option PkObs :=
  match t.splitOn ":" with
  | [l, toc, b1] => do pure { len := ← l.toInt?, toc := ← toc.toNat?, b1 := ← b1.toInt? }
  | _ => none

def pkFrames (p : PkObs) : Nat :=
  if p.toc % 4 = 0 then 1 else if p.toc % 4 = 3 then (p.b1.toNat % 64) else 2

/-- Check one packet of the normal path against the settings. -/
def checkPkt (s : EncSt) (fsel : Int) (p : PkObs) : Option String :=
  let toc := p.toc
  let mode : Int := Framing.getMode toc
  let bw : Int := Framing.getBandwidth toc
  let ch : Int := Framing.getNbChannels toc
  if (pkFrames p : Int) * (Framing.samplesPerFrame toc s.fs.toNat : Int) ≠ fsel then some "duration"
  else if bw > bwLimit s.toDSt mode then some s!"bandwidth {bw}>{bwLimit s.toDSt mode}"
  else if s.channels = 1 ∧ ch ≠ 1 then some "channels"
  else if (s.application = APP_RESTRICTED_LOWDELAY ∨ fsel < s.fs / 100 ∨ s.lfe ≠ 0) ∧ mode ≠ MODE_CELT_ONLY
    then some "mode-not-celt"
  else if s.application ≠ APP_RESTRICTED_LOWDELAY ∧ s.lfe = 0 ∧ fsel ≥ s.fs / 100 ∧
          s.userForcedMode = MODE_CELT_ONLY ∧ mode ≠ MODE_CELT_ONLY then some "forced-celt"
  else if s.application ≠ APP_RESTRICTED_LOWDELAY ∧ s.lfe = 0 ∧ fsel ≥ s.fs / 100 ∧
          (s.userForcedMode = MODE_SILK_ONLY ∨ s.userForcedMode = MODE_HYBRID) ∧ mode = MODE_CELT_ONLY
    then some "forced-silk"
  else if s.lfe ≠ 0 ∧ bw ≠ BW_NB then some "lfe-bandwidth"
  else none

/-- Channel constraint for packet `i` when `force_channels` is `f0` for packets `< k` and `f1` after. -/
def checkChannels (s : EncSt) (k : Nat) (f1 : Int) (pks : List PkObs) : Option String :=
  let chOf (p : PkObs) : Int := Framing.getNbChannels p.toc
  let idx := List.range pks.length
  let bad := (idx.zip pks).find? (fun (i, p) =>
    if s.channels ≠ 2 then false
    else if i < k then
      (s.forceChannels = 2 && chOf p ≠ 2) || (s.forceChannels = 1 && chOf p ≠ 1)
    else if f1 = 2 then chOf p ≠ 2
    else if f1 = 1 then
      -- "takes effect within three packets": packets k, k+1, k+2 may still be stereo (the model proves
      -- that only packet k is); DTX packets (TOC only) are exempt
      decide (i ≥ k + 3) && decide (p.len > 2) && chOf p ≠ 1
    else false)
  match bad with
  | some (i, _) => some s!"channels@{i}"
  | none => none

def honour (fs ch app : Int) (sets : String) (fsz bytes : Int) (k : Nat) (sets2 : String)
    (pks : List String) : String :=
  match encCreate fs ch app with
  | .ok s0 =>
    match applySets s0 sets with
    | none => "bad-op"
    | some s =>
      let f1? : Option Int :=
        if sets2 = "-" then some s.forceChannels
        else match sets2.splitOn ":" with
          | ["4022", v] => v.toInt?.bind (fun v => (encSet s .forceChannels v).map (·.forceChannels))
          | _ => none
      match f1? with
      | none => "bad-op"
      | some f1 =>
      let fsel := frameSizeSelect fsz s.variableDuration s.fs
      -- error answers are `e<code>:0:0`
      if pks.any (fun t => t.startsWith "e-3") then "VIOLATES internal-error"
      else if fsel ≤ 0 then
        if pks.all (fun t => t.startsWith "e-1:") then "OK" else "VIOLATES bad-frame-size-accepted"
      else match entryError s.toDSt fsel bytes with
      | some e => if pks.all (fun t => t.startsWith s!"e{e.code}:") then "OK" else s!"VIOLATES entry-{e.name}"
      | none =>
        match (pks.filter (fun t => !t.startsWith "e")).mapM parsePk with
        | none => "bad-op"
        | some ps =>
          if lowBudget s.toDSt fsel bytes then
            -- nothing but bitrate_bps changes on this path: every packet is the initial low-budget packet
            let lp := lowBudgetPacket s.toDSt fsel bytes
            -- (CBR pads the packet, which re-codes it as code 3 with the same TOC config and frame count)
            match ps.find? (fun p => p.toc / 4 ≠ lp.toc / 4 ∨ pkFrames p ≠ lp.frames ∨
                     (pkFrames p : Int) * (Framing.samplesPerFrame p.toc s.fs.toNat : Int) ≠ fsel) with
            | some p => s!"VIOLATES lowbudget toc={p.toc} expected={lp.toc}"
            | none => "OK"
          else
            match ps.findSome? (checkPkt s fsel) with
            | some why => s!"VIOLATES {why}"
            | none =>
              match checkChannels s k f1 ps with
              | some why => s!"VIOLATES {why}"
              | none => "OK"
  | r => resHead r

/-! ### SILK's internal rate -/

def bwOutStr (o : SilkBw.BwOut) : String := s!"{o.fsKHz} {o.st.mode} {o.st.tfn} {b2i o.ready}"

/-- States channel 0 may be in before a call, given its state after the previous one: up to 8 coded
    frames (a call covers at most 3; prefill adds 1), then possibly a prefill reset, or an init. -/
def bwReach (p : SilkBw.BwSt) : List SilkBw.BwSt :=
  let fr := (List.range 9).map (fun k => SilkBw.lpSteps k p)
  fr ++ fr.map (SilkBw.prefillReset true) ++ [SilkBw.bwInit]

/-- the control inputs Opus may hand over for (mode, bw): one per class of `effective_max_rate`. -/
def bwOpusCands (fs mode bw : Int) (allow can : Bool) : List SilkBw.BwIn :=
  [0, 18, 1276].map (fun mdb => SilkBw.opusSilkIn fs mode bw 50 mdb allow can)

def silkSeq (fs : Int) : Nat → SilkBw.BwSt → List String → String
  | n, _, [] => s!"ok {n}"
  | n, prev, t :: rest =>
    match parseIntList t with
    | some [ch, f, sv, md, tf, api, des, mx, mn, al, cn, ret, md', tf', rdy, omode, obw] =>
      let st : SilkBw.BwSt := { fsKHz := f, savedFsKHz := sv, mode := md, tfn := tf }
      let i : SilkBw.BwIn := { apiFs := api, desired := des, maxFs := mx, minFs := mn, allow := al ≠ 0, can := cn ≠ 0 }
      let o := SilkBw.controlBw st i
      if bwOutStr o ≠ s!"{ret} {md'} {tf'} {rdy}" then s!"call {n}: controlBw gives {bwOutStr o}, the code {ret} {md'} {tf'} {rdy}"
      else if api ≠ fs then s!"call {n}: API_fs_Hz {api} is not the encoder's rate"
      else if (omode = 1000 ∨ omode = 1001) ∧ ¬ (bwOpusCands fs omode obw i.allow i.can).contains i then
        s!"call {n}: control inputs ({des},{mx},{mn}) are not opusSilkIn of mode {omode} bandwidth {obw}"
      else if ¬ (ret * 1000 ≤ mx ∧ mn ≤ ret * 1000 ∧ ret * 1000 ≤ api ∧ (ret = 8 ∨ ret = 12 ∨ ret = 16)) then
        s!"call {n}: rate {ret} outside [min,max] / above the API rate"
      else if ch = 0 then
        if ¬ (bwReach prev).contains st then s!"call {n}: state before the call is not reachable from the state after the previous call"
        else silkSeq fs (n + 1) (SilkBw.afterCall o) rest
      else silkSeq fs (n + 1) prev rest
    | _ => "bad-op"

def handle : List String → String
  | ["silkbw", f, sv, md, tf, api, des, mx, mn, al, cn] =>
    match [f, sv, md, tf, api, des, mx, mn, al, cn].mapM parseInt with
    | some [f, sv, md, tf, api, des, mx, mn, al, cn] =>
      bwOutStr (SilkBw.controlBw { fsKHz := f, savedFsKHz := sv, mode := md, tfn := tf }
        { apiFs := api, desired := des, maxFs := mx, minFs := mn, allow := al ≠ 0, can := cn ≠ 0 })
    | _ => "bad-op"
  | "silkbwseq" :: fs :: calls =>
    match parseInt fs with
    | some fs => silkSeq fs 0 SilkBw.bwInit calls
    | none => "bad-op"
  | ["toc", mode, fr, bw, ch] =>
    match parseInt mode, parseInt fr, parseInt bw, parseInt ch with
    | some mode, some fr, some bw, some ch =>
      if GenTocDom mode fr bw then toString (genToc mode fr bw ch) else "out-of-domain"
    | _, _, _, _ => "bad-op"
  | ["fss", fsz, vd, fs] =>
    match parseInt fsz, parseInt vd, parseInt fs with
    | some fsz, some vd, some fs => toString (frameSizeSelect fsz vd fs)
    | _, _, _ => "bad-op"
  | ["create", "enc", fs, ch, app, k] =>
    match parseInt fs, parseInt ch, parseInt app, parseInt k with
    | some fs, some ch, some app, some k =>
      match encCreate fs ch app (k ≠ 0) with
      | .ok s => s!"OK live=0 {encSnap s}"
      | r => resHead r ++ " live=0"
    | _, _, _, _ => "bad-op"
  | ["create", "encinit", fs, ch, app] =>
    match parseInt fs, parseInt ch, parseInt app with
    | some fs, some ch, some app => if encArgsOk fs ch app then "OK" else "BAD_ARG"
    | _, _, _ => "bad-op"
  | ["create", "decinit", fs, ch] =>
    match parseInt fs, parseInt ch with
    | some fs, some ch => if decArgsOk fs ch then "OK" else "BAD_ARG"
    | _, _ => "bad-op"
  | ["create", "dec", fs, ch, k] =>
    match parseInt fs, parseInt ch, parseInt k with
    | some fs, some ch, some k =>
      match decCreate fs ch (k ≠ 0) with
      | .ok s => s!"OK live=0 {decSnap s}"
      | r => resHead r ++ " live=0"
    | _, _, _ => "bad-op"
  | ["create", "msenc", fs, ch, st, cp, mp, app, k] =>
    match parseInt fs, parseInt ch, parseInt st, parseInt cp, parseHex mp, parseInt app, parseInt k with
    | some fs, some ch, some st, some cp, some mp, some app, some k =>
      match msEncCreate fs ch st cp mp app (k ≠ 0) with
      | .ok s => s!"OK live=0 {msEncSnap s}"
      | r => resHead r ++ " live=0"
    | _, _, _, _, _, _, _ => "bad-op"
  | ["create", "mssur", fs, ch, fam, app, k] =>
    match parseInt fs, parseInt ch, parseInt fam, parseInt app, parseInt k with
    | some fs, some ch, some fam, some app, some k =>
      match msSurroundCreate fs ch fam app (k ≠ 0) with
      | .ok (s, st, cp, mp) => s!"OK live=0 {st} {cp} {toHex mp} {msEncSnap s}"
      | r => resHead r ++ " live=0"
    | _, _, _, _, _ => "bad-op"
  | ["create", "msdec", fs, ch, st, cp, mp, k] =>
    match parseInt fs, parseInt ch, parseInt st, parseInt cp, parseHex mp, parseInt k with
    | some fs, some ch, some st, some cp, some mp, some k =>
      match msDecCreate fs ch st cp mp (k ≠ 0) with
      | .ok s => s!"OK live=0 {msDecSnap s}"
      | r => resHead r ++ " live=0"
    | _, _, _, _, _, _ => "bad-op"
  | ["create", "projenc", fs, ch, fam, app, k] =>
    match parseInt fs, parseInt ch, parseInt fam, parseInt app, parseInt k with
    | some fs, some ch, some fam, some app, some k =>
      match projEncCreate fs ch fam app (k ≠ 0) with
      | .ok (s, st, cp) => s!"OK live=0 {st} {cp} {msEncSnap s.ms}"
      | r => resHead r ++ " live=0"
    | _, _, _, _, _ => "bad-op"
  | "enc" :: fs :: ch :: app :: ops =>
    match parseInt fs, parseInt ch, parseInt app with
    | some fs, some ch, some app =>
      match encCreate fs ch app with
      | .ok s => runEnc s ops []
      | r => resHead r
    | _, _, _ => "bad-op"
  | "dec" :: fs :: ch :: ops =>
    match parseInt fs, parseInt ch with
    | some fs, some ch =>
      match decCreate fs ch with
      | .ok s => runDec s ops []
      | r => resHead r
    | _, _ => "bad-op"
  | "msenc" :: fs :: ch :: st :: cp :: mp :: app :: ops =>
    match parseInt fs, parseInt ch, parseInt st, parseInt cp, parseHex mp, parseInt app with
    | some fs, some ch, some st, some cp, some mp, some app =>
      match msEncCreate fs ch st cp mp app with
      | .ok s => runProj { ms := s, demixGain := 0 } ops []
      | r => resHead r
    | _, _, _, _, _, _ => "bad-op"
  | "mssur" :: fs :: ch :: fam :: app :: ops =>
    match parseInt fs, parseInt ch, parseInt fam, parseInt app with
    | some fs, some ch, some fam, some app =>
      match msSurroundCreate fs ch fam app with
      | .ok (s, _, _, _) => runProj { ms := s, demixGain := 0 } ops []
      | r => resHead r
    | _, _, _, _ => "bad-op"
  | "projenc" :: fs :: ch :: app :: ops =>
    match parseInt fs, parseInt ch, parseInt app with
    | some fs, some ch, some app =>
      match projEncCreate fs ch 3 app with
      | .ok (s, _, _) => runProj s ops []
      | r => resHead r
    | _, _, _ => "bad-op"
  | "msdec" :: fs :: ch :: st :: cp :: mp :: ops =>
    match parseInt fs, parseInt ch, parseInt st, parseInt cp, parseHex mp with
    | some fs, some ch, some st, some cp, some mp =>
      match msDecCreate fs ch st cp mp with
      | .ok s => runMsDec s ops []
      | r => resHead r
    | _, _, _, _, _ => "bad-op"
  | "honour" :: fs :: ch :: app :: sets :: fsz :: bytes :: k :: sets2 :: pks =>
    match parseInt fs, parseInt ch, parseInt app, parseInt fsz, parseInt bytes, parseNat k with
    | some fs, some ch, some app, some fsz, some bytes, some k => honour fs ch app sets fsz bytes k sets2 pks
    | _, _, _, _, _, _ => "bad-op"
  | _ => "bad-op"

end Driver.SuiteCtl
