import OpusModel.Ext
import Driver.Util
/- Suite `ext`: src/extensions.c — iterator, count, count_ext, parse, parse_ext, generate.

   ext scan <nb_frames> x<padding>
        → cnt=… cx=…:c0,c1,… p=… ps=… px=… it=…      (all readers on the same bytes)
   ext iter <nb_frames> x<padding> <op,op,…>       ops: n | r | m<frame_max> | f<id>
        → one token per op: E<id.frame.off.len> | D | X | -
   ext gen <dry> <len> <nb_frames> <pad> <ext,ext,…>   ext = id:frame:len:x<data>
        → OK <ret> x<bytes> | error name                                                  -/
namespace Driver.SuiteExt
open Opus Opus.Ext Driver

def refStr (e : ExtRef) : String := s!"{e.id}.{e.frame}.{e.off}.{e.len}"

def refsStr (l : List ExtRef) : String :=
  if l.isEmpty then "-" else ";".intercalate (l.map refStr)

def orefsStr (l : List (Option ExtRef)) : String :=
  if l.isEmpty then "-" else ";".intercalate (l.map fun | some e => refStr e | none => "?")

def stepStr : Step → String
  | .ext e => "E" ++ refStr e
  | .done => "D"
  | .invalid => "X"

/-- Plain iteration with `opus_extension_iterator_next` until it returns `<= 0`. -/
def iterAll (it : Iter) (acc : Array ExtRef) : Res (Array ExtRef × Step) :=
  match h : next it with
  | .ok (it', .ext e) => iterAll it' (acc.push e)
  | .ok (_, s) => .ok (acc, s)
  | .err e => .err e
  | .oob => .oob
  | .abort => .abort
termination_by it.mu
decreasing_by exact next_decreases h

def doScan (nbf : Int) (d : Bytes) : String :=
  let len : Int := d.length
  let cnt := count d len nbf
  let cx := countExt d len nbf
  let cntS := resStr toString cnt
  let cxS := resStr (fun (p : Nat × List Nat) => s!"{p.1}:{if p.2.isEmpty then "-" else natList p.2}") cx
  let n : Int := match cnt with | .ok n => n | _ => 0
  let p := resStr refsStr (parse d len n nbf)
  let ps := if n > 0 then resStr refsStr (parse d len (n - 1) nbf) else "-"
  let px := match cx with
    | .ok (_, fc) => resStr orefsStr (parseExt d len n (fc.map Int.ofNat) nbf)
    | _ => "-"
  let pxs := match cx with
    | .ok (_, fc) => if n > 0 then resStr orefsStr (parseExt d len (n - 1) (fc.map Int.ofNat) nbf) else "-"
    | _ => "-"
  let itS := match iterInit d len nbf with
    | .ok it => resStr (fun (p : Array ExtRef × Step) => s!"{refsStr p.1.toList}|{stepStr p.2}") (iterAll it #[])
    | .err e => errStr e
    | .oob => "OOB"
    | .abort => "ABORT"
  s!"cnt={cntS} cx={cxS} p={p} ps={ps} px={px} pxs={pxs} it={itS}"

def doIterOps : Iter → List String → List String → Option (List String)
  | _, [], acc => some acc.reverse
  | it, op :: ops, acc =>
    if op = "n" then
      match next it with
      | .ok (it', s) => doIterOps it' ops (stepStr s :: acc)
      | .err e => some (("ERR:" ++ errStr e) :: acc).reverse
      | .oob => some ("OOB" :: acc).reverse
      | .abort => some ("ABORT" :: acc).reverse
    else if op = "r" then doIterOps (iterReset it) ops ("-" :: acc)
    else if op.startsWith "m" then
      match (op.drop 1).toString.toInt? with
      | some k => doIterOps (iterSetFrameMax it k) ops ("-" :: acc)
      | none => none
    else if op.startsWith "f" then
      match (op.drop 1).toString.toInt? with
      | some k =>
        match find it k with
        | .ok (it', s) => doIterOps it' ops (stepStr s :: acc)
        | .err e => some (("ERR:" ++ errStr e) :: acc).reverse
        | .oob => some ("OOB" :: acc).reverse
        | .abort => some ("ABORT" :: acc).reverse
      | none => none
    else none

def parseExtSpec (s : String) : Option Ext :=
  match s.splitOn ":" with
  | [id, fr, len, hex] =>
    match id.toInt?, fr.toInt?, len.toInt?, parseHex hex with
    | some id, some fr, some len, some bs => some { id := id, frame := fr, data := bs, len := len }
    | _, _, _, _ => none
  | _ => none

def parseExtList (s : String) : Option (Array Ext) :=
  if s = "-" then some #[] else ((s.splitOn ",").mapM parseExtSpec).map List.toArray

def handle : List String → String
  | ["scan", nbf, hex] =>
    match parseInt nbf, parseHex hex with
    | some nbf, some d => doScan nbf d
    | _, _ => "bad-op"
  | ["iter", nbf, hex, ops] =>
    match parseInt nbf, parseHex hex with
    | some nbf, some d =>
      match iterInit d d.length nbf with
      | .ok it =>
        match doIterOps it (ops.splitOn ",") [] with
        | some l => s!"n={l.length} " ++ " ".intercalate l
        | none => "bad-op"
      | .err e => errStr e
      | .oob => "OOB"
      | .abort => "ABORT"
    | _, _ => "bad-op"
  | ["gen", dry, len, nbf, pad, exts] =>
    match parseNat dry, parseInt len, parseInt nbf, parseNat pad, parseExtList exts with
    | some dry, some len, some nbf, some pad, some exts =>
      match generate (dry != 0) len exts nbf (pad != 0) with
      | .ok out => s!"OK {out.size} {if dry != 0 then "x" else toHex out.toList}"
      | .err e => errStr e
      | .oob => "OOB"
      | .abort => "ABORT"
    | _, _, _, _, _ => "bad-op"
  | _ => "bad-op"

end Driver.SuiteExt
