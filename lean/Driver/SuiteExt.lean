import Driver.Util
/- Suite stub — replaced by the owner of this suite. -/
namespace Driver.SuiteExt
def handle (_ : List String) : String := "bad-op"
end Driver.SuiteExt
