import OpusModel.SoftClip
import Driver.Util
/- Suite `softclip`: opus_pcm_soft_clip at binary32 (C19), OPUS_SET_GAIN, the gain factor.

   clip <N> <C> <flags> <mem> <x>   flags: bit0 = _x is NULL, bit1 = declip_mem is NULL;
                                    <mem>, <x> = the caller's float arrays as little-endian bytes
                                    → `<class> <x'> <mem'>` (same encoding; class ∈ ignored/same/same-carry/clipped/clipped-carry) or OOB
   gainctl <cur> <value>            OPUS_SET_GAIN(value) on a decoder whose gain is cur → `OK <gain'>` / `BAD_ARG <gain'>`
   gainval <g>                      celt_exp2(6.48814081e-4f*g) → bit pattern (decimal)              -/
namespace Driver.SuiteSoftClip
open Opus Opus.SoftClip Driver

def bytesToF32 (bs : Bytes) : Option (Array Float32) :=
  let rec go : List Nat → Array Float32 → Option (Array Float32)
    | [], acc => some acc
    | a :: b :: c :: d :: rest, acc =>
      go rest (acc.push (Float32.ofBits (UInt32.ofNat (a + 256 * b + 65536 * c + 16777216 * d))))
    | _, _ => none
  go bs #[]

def f32ToBytes (xs : Array Float32) : Bytes :=
  xs.toList.flatMap fun f =>
    let u := f.toBits.toNat   -- `toBits` canonicalises NaN to 0x7fc00000; the harness prints NaNs the same way
    [u % 256, u / 256 % 256, u / 65536 % 256, u / 16777216 % 256]

def handle : List String → String
  | ["clip", n, c, flags, memh, xh] =>
    match parseInt n, parseInt c, parseNat flags, parseHex memh, parseHex xh with
    | some n, some c, some flags, some memb, some xb =>
      match bytesToF32 memb, bytesToF32 xb with
      | some mem, some x =>
        match softClip (flags % 2 == 1) (flags / 2 % 2 == 1) x mem n c with
        | .ok (x', mem') =>
          let xb' := f32ToBytes x'
          let changed := xb' != xb
          let carried := mem'.any (fun m => m.toBits != 0)
          let cls := if n < 1 || c < 1 || flags % 4 != 0 then "ignored"
            else if changed then (if carried then "clipped-carry" else "clipped")
            else (if carried then "same-carry" else "same")
          s!"{cls} {toHex xb'} {toHex (f32ToBytes mem')}"
        | r => resStr (fun _ => "") r
      | _, _ => "bad-op"
    | _, _, _, _, _ => "bad-op"
  | ["gainctl", cur, v] =>
    match parseInt cur, parseInt v with
    | some cur, some v =>
      match setGain cur v with
      | (.ok _, g) => s!"OK {g}"
      | (r, g) => s!"{resStr (fun (_ : Int) => "") r} {g}"
    | _, _ => "bad-op"
  | ["gainval", g] =>
    match parseInt g with
    | some g => s!"G {(gainOfF32 g).toBits.toNat}"
    | none => "bad-op"
  | _ => "bad-op"

end Driver.SuiteSoftClip
