import Driver.Util
/- Suite stub — replaced by the owner of this suite. -/
namespace Driver.SuiteSoftClip
def handle (_ : List String) : String := "bad-op"
end Driver.SuiteSoftClip
