import OpusModel.SilkResamp
import Driver.Util
/-! Suite `silkresamp` (property C03, slice SilkResamp): the SILK resampler, model `OpusModel/SilkResamp.lean`.

   init <Fs_in> <Fs_out> <forEnc> <hard>     silk_resampler_init; hard = 1: library built with ENABLE_HARDENING /
                                             ENABLE_ASSERTIONS (celt_assert aborts), 0: assertions are no-ops
        → `<kernel> ret=<r> <state>` or `ABORT`
   hist <Fs_in> <Fs_out> <forEnc> <lens> <samples>
        init, then one silk_resampler call per entry of <lens> (comma list) on consecutive pieces of <samples>
        → `<kernel> <cfg> | n=<written> out=<samples> <dyn> | …` (one group per call, <dyn> = sIIR, sFIR, delayBuf
          after the call) or `ABORT` / `OOB`
   <kernel> ∈ copy up2hq iirfir downfir18 downfir24 downfir36 rejected
   <state> = <cfg> <dyn>;  <cfg> = fn= batch= inv= order= fracs= fsin= fsout= delay= coef=
   sFIR is shown through the view the selected kernel uses (i16 for iirfir, i32 otherwise), all 36 elements. -/
namespace Driver.SuiteSilkResamp
open Opus Opus.SilkResamp Opus.Gen.SilkResampRom Driver

def kernelName (c : Cfg) : String :=
  if c.fn = useCopy then "copy" else if c.fn = useUp2HQ then "up2hq" else if c.fn = useIIRFIR then "iirfir"
  else if c.fn = useDownFIR then s!"downfir{c.firOrder}" else "unknown"

def cfgStr (c : Cfg) : String :=
  s!"fn={c.fn} batch={c.batchSize} inv={c.invRatio} order={c.firOrder} fracs={c.firFracs} fsin={c.fsIn} fsout={c.fsOut} delay={c.inputDelay} coef={c.coefId}"

def dynStr (S : RS) : String :=
  s!"iir={intList S.sIIR.toList} fir={intList S.sFIR} dbuf={intList S.delayBuf}"

def splitLens : List Nat → List Int → Option (List (List Int))
  | [], [] => some []
  | [], _ :: _ => none
  | n :: ns, xs =>
    if xs.length < n then none
    else match splitLens ns (xs.drop n) with
      | some r => some (xs.take n :: r)
      | none => none

/-- Calls one after the other, a group per call. -/
def runShow (S : RS) : List (List Int) → String
  | [] => ""
  | xs :: rest =>
    match resampler S xs with
    | .ok r => s!" | n={r.2.length} out={intList r.2} {dynStr r.1}" ++ runShow r.1 rest
    | .err e => " | " ++ errStr e
    | .oob => " | OOB"
    | .abort => " | ABORT"

def handle (args : List String) : String :=
  match args with
  | ["init", a, b, e, h] =>
    match parseInt a, parseInt b, parseNat e, parseNat h with
    | some a, some b, some e, some h =>
      if e > 1 || h > 1 then "bad-op"
      else if h = 1 then
        match init a b (e = 1) with
        | .ok S => s!"{kernelName S.cfg} ret=0 {cfgStr S.cfg} {dynStr S}"
        | r => resStr (fun _ => "") r
      else
        match initRet a b (e = 1) with
        | .ok (r, S) => s!"{if r = 0 then kernelName S.cfg else "rejected"} ret={r} {cfgStr S.cfg} {dynStr S}"
        | r => resStr (fun _ => "") r
    | _, _, _, _ => "bad-op"
  | ["hist", a, b, e, lens, samples] =>
    match parseInt a, parseInt b, parseNat e, parseNatList lens, parseIntList samples with
    | some a, some b, some e, some lens, some xs =>
      if e > 1 then "bad-op"
      else match splitLens lens xs with
        | none => "bad-op"
        | some blocks =>
          match init a b (e = 1) with
          | .ok S => s!"{kernelName S.cfg} {cfgStr S.cfg}" ++ runShow S blocks
          | r => resStr (fun _ => "") r
    | _, _, _, _, _ => "bad-op"
  | _ => "bad-op"

end Driver.SuiteSilkResamp
