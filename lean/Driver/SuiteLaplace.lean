import OpusModel.Laplace
import OpusModel.Icdf
import Driver.Util
/- Suite `laplace`: celt/laplace.c at the interval level (the range coder is stubbed in the harness).

   ops   enc fs decay value       → `fl= fh= value=` handed to ec_encode_bin(…,15) and the clamped *value
         dec fs decay fm          → `val= fl= fh=`: return value and the ec_dec_update interval for fm
         decall fs decay          → hash over fm = 0..32767 of (val, fl, fh), and the number of symbols
         encall fs decay lo hi    → hash over value = lo..hi of (fl, fh, value')
         p0enc p0 decay value     → ICDFs and symbols ec_laplace_encode_p0 hands to ec_enc_icdf16
         p0dec p0 decay s v1,v2,… → value ec_laplace_decode_p0 returns when ec_dec_icdf16 answers s, v1, …
         icdf ftb t0,t1,…         → `known=`: the table (entries up to its terminating 0) with this ftb is in the catalogue
                                    `Opus.Icdf.allIcdfs`; `ok=`: it satisfies `icdfOk ftb`  -/
namespace Driver.SuiteLaplace
open Opus Opus.Laplace Driver

def mix (h : UInt64) (v : Int) : UInt64 :=
  let u : UInt64 := if v ≥ 0 then v.toNat.toUInt64 else 0 - (-v).toNat.toUInt64
  (h ^^^ u) * 0x100000001b3

def hex64 (h : UInt64) : String :=
  let ds := Nat.toDigits 16 h.toNat
  String.ofList (List.replicate (16 - ds.length) '0' ++ ds)

/-- fold over fm = start, start+1, …; counts the positions where the decoded interval changes. -/
def decAll (fs decay : Nat) : Nat → Nat → UInt64 → Nat → Nat → UInt64 × Nat
  | 0, _, h, _, syms => (h, syms)
  | cnt + 1, fm, h, lastFl, syms =>
    match decode fm fs decay with
    | .ok (v, fl, fh) =>
      let h := mix (mix (mix h v) fl) fh
      decAll fs decay cnt (fm + 1) h fl (if fm = 0 ∨ fl ≠ lastFl then syms + 1 else syms)
    | _ => decAll fs decay cnt (fm + 1) (mix h (-1)) lastFl syms

def encAll (fs decay : Nat) : Nat → Int → UInt64 → UInt64
  | 0, _, h => h
  | cnt + 1, v, h =>
    let h := match encode v fs decay with
      | .ok (fl, fh, v') => mix (mix (mix h fl) fh) v'
      | _ => mix h (-1)
    encAll fs decay cnt (v + 1) h

def handle : List String → String
  | ["enc", fs, decay, v] =>
    match parseNat fs, parseNat decay, parseInt v with
    | some fs, some decay, some v => resStr (fun r => s!"fl={r.1} fh={r.2.1} value={r.2.2}") (encode v fs decay)
    | _, _, _ => "bad-op"
  | ["dec", fs, decay, fm] =>
    match parseNat fs, parseNat decay, parseNat fm with
    | some fs, some decay, some fm => resStr (fun r => s!"val={r.1} fl={r.2.1} fh={r.2.2}") (decode fm fs decay)
    | _, _, _ => "bad-op"
  | ["decall", fs, decay] =>
    match parseNat fs, parseNat decay with
    | some fs, some decay =>
      let r := decAll fs decay 32768 0 0xcbf29ce484222325 0 0
      s!"h={hex64 r.1} syms={r.2}"
    | _, _ => "bad-op"
  | ["encall", fs, decay, lo, hi] =>
    match parseNat fs, parseNat decay, parseInt lo, parseInt hi with
    | some fs, some decay, some lo, some hi =>
      s!"h={hex64 (encAll fs decay (hi - lo + 1).toNat lo 0xcbf29ce484222325)}"
    | _, _, _, _ => "bad-op"
  | ["p0enc", p0, decay, v] =>
    match parseNat p0, parseNat decay, parseInt v with
    | some p0, some decay, some v =>
      let r := encodeP0 v
      let mag := if v = 0 then "-" else natList (magIcdf decay)
      s!"sign={natList (signIcdf p0)} s={r.1} mag={mag} syms={if r.2.isEmpty then "-" else natList r.2}"
    | _, _, _ => "bad-op"
  | ["p0dec", p0, decay, s, vs] =>
    match parseNat p0, parseNat decay, parseNat s, parseNatList vs with
    | some p0, some decay, some s, some vs =>
      match decodeP0 s vs with
      | some (v, rest) =>
        let mag := if s = 0 then "-" else natList (magIcdf decay)
        s!"value={v} used={vs.length - rest.length} sign={natList (signIcdf p0)} mag={mag}"
      | none => "OOB"
    | _, _, _, _ => "bad-op"
  | ["icdf", ftb, tab] =>
    match parseNat ftb, parseNatList tab with
    | some ftb, some t =>
      -- the catalogue, or the run-time placeholder `{256 - (256 >> ((nFramesPerPacket+1)*nChannels)), 0}` of enc_API.c:347-351
      let known := Opus.Icdf.allIcdfs.any (fun e => e.ftb == ftb && e.tab == t) ||
        (ftb == 8 && (List.range 3).any fun a => (List.range 2).any fun b => Opus.Icdf.vadLbrrPlaceholder (a + 1) (b + 1) == t)
      s!"known={if known then 1 else 0} ok={if Opus.Icdf.icdfOk ftb t then 1 else 0}"
    | _, _ => "bad-op"
  | _ => "bad-op"

end Driver.SuiteLaplace
