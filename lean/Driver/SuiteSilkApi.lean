import Driver.Util
/-! Suite `silkapi` (line protocol, DESIGN.md §4): stub registered in Driver/Main.lean; the owner fills in `handle`. -/
namespace Driver.SuiteSilkApi

def handle (args : List String) : String :=
  match args with
  | _ => "bad-op"

end Driver.SuiteSilkApi
