import Driver.Util
import OpusModel.SilkApi
/-! Suite `silkapi` (line protocol, DESIGN.md §4) — control layer of the SILK decoder (C01 extension `SilkApi`).

    silkapi dec <state> <args> <orc ints> <f0 ints> <f0 samples> <f1 ints> <f1 samples> <#rs> <ret0> <out0> <ret1> <out1>
        => <ret> <nSamplesOut> <prevPitchLag> st=<state> ev=<inner calls> out=<hash> hi=<nSamplesOut*nChannelsAPI>
           (ABORT when a celt_assert of the modelled code fails; BOUNDS <acc> when a recorded access leaves its array)
    silkapi init <state>  => 0 <state>
    silkapi mstolr <stereo state (6)> <p0,p1,fs_kHz,N> <x1 samples> <x2 samples>  => ms <stereo state> <x1 hex> <x2 hex>
    <state> = <chan0>;<chan1>;<stereo>;<nChannelsAPI,nChannelsInternal,prev_decode_only_middle>, <chan> = 25 integers
    in the order of `pr_chan` (harness/c01_silkapi.c); samples are `x` + 4 hex digits per int16. -/
namespace Driver.SuiteSilkApi
open Opus.SilkApi

def parseChan (s : String) : Option Chan := do
  match ← parseIntList s with
  | [a0, a1, a2, a3, a4, a5, a6, a7, a8, a9, a10, a11, a12, a13, a14, a15, v0, v1, v2, lf, l0, l1, l2, ri, ro] =>
    some { fs_kHz := a0, fs_API_hz := a1, nb_subfr := a2, frame_length := a3, subfr_length := a4, ltp_mem_length := a5,
           LPC_order := a6, first_frame_after_reset := a7, lagPrev := a8, LastGainIndex := a9, prevSignalType := a10,
           lagLowBits := a11, pitchContour := a12, nlsfCb := a13, nFramesDecoded := a14, nFramesPerPacket := a15,
           vad := [v0, v1, v2], lbrrFlag := lf, lbrr := [l0, l1, l2], rsIn := ri, rsOut := ro }
  | _ => none

def chanStr (c : Chan) : String :=
  intList ([c.fs_kHz, c.fs_API_hz, c.nb_subfr, c.frame_length, c.subfr_length, c.ltp_mem_length, c.LPC_order,
            c.first_frame_after_reset, c.lagPrev, c.LastGainIndex, c.prevSignalType, c.lagLowBits, c.pitchContour, c.nlsfCb,
            c.nFramesDecoded, c.nFramesPerPacket] ++ c.vad ++ [c.lbrrFlag] ++ c.lbrr ++ [c.rsIn, c.rsOut])

def parseStereo (s : String) : Option Stereo := do
  match ← parseIntList s with
  | [a, b, c, d, e, f] => some { pred_prev0 := a, pred_prev1 := b, sMid0 := c, sMid1 := d, sSide0 := e, sSide1 := f }
  | _ => none

def stereoStr (s : Stereo) : String := intList [s.pred_prev0, s.pred_prev1, s.sMid0, s.sMid1, s.sSide0, s.sSide1]

def parseDec (s : String) : Option Dec := do
  match s.splitOn ";" with
  | [c0, c1, st, top] =>
    let c0 ← parseChan c0
    let c1 ← parseChan c1
    let st ← parseStereo st
    match ← parseIntList top with
    | [a, b, c] => some { ch0 := c0, ch1 := c1, st := st, nChannelsAPI := a, nChannelsInternal := b, prev_decode_only_middle := c }
    | _ => none
  | _ => none

def decStr (d : Dec) : String :=
  chanStr d.ch0 ++ ";" ++ chanStr d.ch1 ++ ";" ++ stereoStr d.st ++ ";" ++ intList [d.nChannelsAPI, d.nChannelsInternal, d.prev_decode_only_middle]

def parseArgs (s : String) : Option Args := do
  match ← parseIntList s with
  | [a, b, c, d, e, f, g] => some { nChannelsAPI := a, nChannelsInternal := b, API_sampleRate := c, internalSampleRate := d,
                                     payloadSize_ms := e, lostFlag := f, newPacketFlag := g }
  | _ => none

/-- `x` + 4 hex digits per int16 sample -/
def parseHex16 (s : String) : Option (List Int) := do
  let bs ← parseHex s
  let rec go : List Nat → List Int → Option (List Int)
    | [], acc => some acc.reverse
    | [_], _ => none
    | h :: l :: rest, acc =>
      let v : Int := (h * 256 + l : Nat)
      go rest ((if v ≥ 32768 then v - 65536 else v) :: acc)
  go bs []

def hex16Str (l : List Int) : String :=
  toHex (l.flatMap fun v => let u := ((v % 65536 + 65536) % 65536).toNat; [u / 256, u % 256])

def parseFrame (ints samples : String) : Option FrameOrc := do
  let s ← parseHex16 samples
  match ← parseIntList ints with
  | [r, a, b, c, d] => some { ret := r, samples := s, lagPrev := a, LastGainIndex := b, prevSignalType := c, first_frame_after_reset := d }
  | _ => none

def evStr (l : List Ev) : String :=
  if l.isEmpty then "-" else String.join (l.map fun e => e.1 ++ ":" ++ intList e.2 ++ ";")

def accStr (a : Acc) : String := s!"{a.buf}[{a.lo}+{a.stride}*{a.n})/{a.cap}"

def runStr (a : Args) (r : Run) : String :=
  if !r.ok then "ABORT" else
  match r.ac.find? (fun x => !decide x.InBounds) with
  | some x => "BOUNDS " ++ accStr x
  | none =>
    match r.err with
    | some e => s!"{e} 0 0 st={decStr r.d} ev=- out=7 hi=0"
    | none => s!"{r.ret} {r.nSamplesOut} {r.prevPitchLag} st={decStr r.d} ev={evStr r.ev} out={hashList r.out} hi={r.nSamplesOut * a.nChannelsAPI}"

def handle (args : List String) : String :=
  match args with
  | ["dec", st, ar, oi, f0i, f0s, f1i, f1s, _nrs, r0, h0, r1, h1] =>
    match parseDec st, parseArgs ar, parseIntList oi, parseFrame f0i f0s, parseFrame f1i f1s, r0.toInt?, parseHex16 h0, r1.toInt?, parseHex16 h1 with
    | some d, some a, some [v00, v01, v02, v10, v11, v12, lf0, lf1, ls0, ls1, p0, p1, mid], some f0, some f1, some r0, some h0, some r1, some h1 =>
      let o : Orc := { vad0 := [v00, v01, v02], vad1 := [v10, v11, v12], lbrrFlag0 := lf0, lbrrFlag1 := lf1, lbrrSym0 := ls0,
                       lbrrSym1 := ls1, pred0 := p0, pred1 := p1, midOnly := mid, frame0 := f0, frame1 := f1,
                       rs := [(r0, h0), (r1, h1)] }
      runStr a (silkDecode d a o)
    | _, _, _, _, _, _, _, _, _ => "bad-op"
  | ["init", st] =>
    match parseDec st with
    | some d => "0 " ++ decStr (initDecoder d)
    | none => "bad-op"
  | ["mstolr", st, pa, x1, x2] =>
    match parseStereo st, parseIntList pa, parseHex16 x1, parseHex16 x2 with
    | some st, some [p0, p1, fs, n], some x1, some x2 =>
      let r := msToLR st x1 x2 p0 p1 fs n
      "ms " ++ stereoStr r.st ++ " " ++ hex16Str r.x1 ++ " " ++ hex16Str r.x2
    | _, _, _, _ => "bad-op"
  | _ => "bad-op"

end Driver.SuiteSilkApi
