import Driver.Util
/- Suite stub — replaced by the owner of this suite. -/
namespace Driver.SuiteSilkSyms
def handle (_ : List String) : String := "bad-op"
end Driver.SuiteSilkSyms
