import OpusModel.SilkSyms
import OpusModel.CeltSyms
import OpusModel.CeltBands
import Driver.Util
/- Suite `silksyms` (property C03): the SILK symbol layer as driven by opus_decode.

   silksyms packet <Fs> <channels> <decode_fec> <prev_mode_celt> x<packet>
     → `OK ret=<samples> <frame record>… F<final>` or an error name.
   A frame record (one per SILK/hybrid frame with more than one byte) is
     silk@<offset> fs=<internalSampleRate> ms=<payloadSize_ms> nch=<nChannelsInternal> lost=<lostFlag>
     followed by tokens in call order:
       H<ch>:<VAD_flags>/<LBRR_flag>/<LBRR_flags>         header flags of a channel
       P<pred0>,<pred1>   M<mid_only>                       stereo predictor, mid-only flag
       X<ch>,<FrameIndex>,<decode_LBRR>,<condCoding>:…      silk_decode_indices: arguments and indices
       Q<signalType>,<quantOffsetType>,<frame_length>:…     silk_decode_pulses: arguments and pulses[]
       D<rng>,<tell>                                        state after a silk_Decode call
       E<offset>,<bytes>                                    redundancy frame handed to CELT
       C<len>,<storage>,<rng>,<tell>                        state at entry of the main CELT decode (hybrid)
   silksyms frame <mode> <bandwidth> <nch> <ms10> <fec> x<frame>   one Opus frame, same record. -/
namespace Driver.SuiteSilkSyms
open Opus Opus.SilkSyms Driver
open Opus.CeltSyms (CEv CeltHdr)

def dots (l : List Nat) : String := ".".intercalate (l.map toString)
def dotsI (l : List Int) : String := ".".intercalate (l.map toString)
def digits (l : List Nat) : String := String.join (l.map toString)

def ixStr (ix : Indices) : String :=
  let base := s!"s{ix.signalType},q{ix.quantOffsetType},g{dots ix.gains},n{ix.nlsf0}.{dotsI ix.nlsfRes},i{ix.interp}"
  let v := if ix.signalType = 2 then
      s!",l{ix.lagIndex},c{ix.contourIndex},p{ix.perIndex},t{dots ix.ltp},k{ix.ltpScale}" else ""
  base ++ v ++ s!",d{ix.seed}"

def evStr : Ev → String
  | .flags ch vad lf lfs => s!"H{ch}:{digits vad}/{lf}/{digits lfs}"
  | .pred p => s!"P{p.pred0},{p.pred1}"
  | .midOnly v => s!"M{v}"
  | .indices ch fi lb cc _ _ _ _ ix => s!"X{ch},{fi},{lb},{cc}:{ixStr ix}"
  | .pulses sig qoff fl p => s!"Q{sig},{qoff},{fl}:{dotsI p.pulses}"
  | .ret rng tl => s!"D{rng},{tl}"

def cevStr : CEv → String
  | .bit logp v => s!"b{logp}={v}"
  | .uint ft v => s!"u{ft}={v}"
  | .raw n v => s!"r{n}={v}"
  | .icdf ftb tbl v => s!"i{ftb}:{dots tbl}={v}"
  | .bin bits fm => s!"d{bits}={fm}"
  | .upd fl fh ft => s!"p{fl},{fh},{ft}"
  | .dec ft fs => s!"e{ft}={fs}"

/-- The entropy-decoder calls of a CELT header and the entry of `clt_compute_allocation`. -/
def hdrStr (cfg : CeltSyms.CeltCfg) (r : Res CeltHdr) : List String :=
  match r with
  | .ok h =>
    h.trace.map cevStr ++
      [s!"A{cfg.start},{cfg.end_},{cfg.C},{cfg.LM},{h.trim},{h.bits}:{dots h.offsets}:{dots h.caps}:{h.dec.rng},{RangeCoder.tellFrac h.dec}"]
  | .err e => [errStr e]
  | .oob => ["OOB"]
  | .abort => ["ABORT"]

/-- A whole CELT frame: header, `A…` (entry of the allocation), the allocation's calls, `L…` (its results), the calls of
    fine energy / band data / anti-collapse / finalise, `Z<rng>` (state at the end); and the final range. -/
def celtStr (cfg : CeltSyms.CeltCfg) (len : Nat) (c : RangeCoder.Dec) : List String × Nat :=
  match CeltBands.celtFrame cfg len c with
  | .ok f =>
    (hdrStr cfg (.ok f.hdr) ++ f.allocSt.tr.reverse.map cevStr ++
      [s!"L{f.alloc.codedBands},{f.alloc.intensity},{f.alloc.dualStereo},{f.alloc.balance}:{dotsI (f.alloc.bands.map (·.pulses))}:{dotsI (f.alloc.bands.map (·.ebits))}:{dotsI (f.alloc.bands.map (·.prio))}"] ++
      f.fin.tr.reverse.map cevStr ++ [s!"Z{f.fin.c.rng}"], f.fin.c.rng)
  | .err e => (hdrStr cfg (CeltSyms.celtHeader cfg len c) ++ [errStr e], 0)
  | .oob => (hdrStr cfg (CeltSyms.celtHeader cfg len c) ++ ["OOB"], 0)
  | .abort => (hdrStr cfg (CeltSyms.celtHeader cfg len c) ++ ["ABORT"], 0)

/-- Record of a SILK / hybrid frame and its `rangeFinal` (opus_decoder.c:670-673). -/
def frameStr (toc : Nat) (pkt : Bytes) (mode : Nat) (fec : Bool) (off : Nat) (o : FrameOut) : String × Nat :=
  let head := s!"silk@{off} fs={o.internalRate} ms={o.payloadMs} nch={o.nCh} lost={o.lostFlag}"
  let evs := o.evs.map evStr
  let bw := Framing.getBandwidth toc
  let spf := Framing.samplesPerFrame toc 48000
  let redBytes := (pkt.drop ((off : Int) + o.len).toNat).take o.redundancyBytes
  let red := if o.redundancy ≠ 0 then
      celtStr { start := 0, end_ := CeltSyms.endBandOf bw, C := o.nCh, LM := 1 } redBytes.length
        (RangeCoder.decInit redBytes redBytes.length) else ([], 0)
  let e := if o.redundancy ≠ 0 then red.1 ++ [s!"E{(off : Int) + o.len},{o.redundancyBytes}"] else []
  let main := if mode = 1001 ∧ ¬ fec ∧ o.len > 1 then
      celtStr { start := 17, end_ := CeltSyms.endBandOf bw, C := o.nCh, LM := CeltSyms.lmOf spf } o.len.toNat o.dec
    else ([], o.dec.rng)
  let c := if mode = 1001 ∧ ¬ fec then
      [s!"C{o.len},{o.dec.storage},{o.dec.rng},{RangeCoder.tell o.dec}"] ++ main.1 else []
  let tail := if o.celtToSilk ≠ 0 then e ++ c else c ++ e
  (" ".intercalate (head :: evs ++ tail), if o.len ≤ 1 then 0 else main.2 ^^^ red.2)

def celtFrameStr (toc : Nat) (pkt : Bytes) (off sz : Nat) : String × Nat :=
  let bw := Framing.getBandwidth toc
  let spf := Framing.samplesPerFrame toc 48000
  let nch := Framing.getNbChannels toc
  let fr := (pkt.drop off).take sz
  let r := celtStr { start := 0, end_ := CeltSyms.endBandOf bw, C := nch, LM := CeltSyms.lmOf spf } fr.length
             (RangeCoder.decInit fr fr.length)
  (" ".intercalate (s!"celt@{off}" :: r.1), r.2)

def packetStr (fs : Nat) (fec : Bool) (pkt : Bytes) (r : Option (List FrameRes)) : String :=
  let toc := pkt.headD 0
  let mode := Framing.getMode toc
  let spf := Framing.samplesPerFrame toc fs
  match r with
  | none => s!"OK ret={spf} F0"
  | some l =>
    let recs : List (String × Nat) := l.filterMap fun
      | .silk off o => some (frameStr toc pkt mode fec off o)
      | .celt off sz => some (celtFrameStr toc pkt off sz)
      | _ => none
    let ret := if fec then spf else l.length * spf
    let fin := match l.getLast? with
      | none => 0
      | some .plc => 0
      | some _ => (recs.getLast?.map (fun (x : String × Nat) => x.2)).getD 0
    " ".intercalate ([s!"OK ret={ret}"] ++ recs.map (fun (x : String × Nat) => x.1) ++ [s!"F{fin}"])

def handle : List String → String
  | ["packet", fs, _ch, fec, pc, hex] =>
    match parseNat fs, parseNat fec, parseNat pc, parseHex hex with
    | some fs, some fec, some pc, some pkt =>
      resStr (packetStr fs (fec != 0) pkt) (decodePacket fs (fec != 0) (pc != 0) {} pkt)
    | _, _, _, _ => "bad-op"
  | ["frame", mode, bw, nch, ms10, fec, hex] =>
    match parseNat mode, parseNat bw, parseNat nch, parseNat ms10, parseNat fec, parseHex hex with
    | some mode, some bw, some nch, some ms10, some fec, some fr =>
      resStr (fun o => let r := frameStr 0 fr mode (fec != 0) 0 o; r.1 ++ s!" F{r.2}")
        (decodeOpusFrame mode bw nch ms10 (fec != 0) {} fr)
    | _, _, _, _, _, _ => "bad-op"
  | _ => "bad-op"

end Driver.SuiteSilkSyms
