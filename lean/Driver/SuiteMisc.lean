import Driver.Util
import OpusModel.ResetState
/-
  Suite `misc` — line protocol of OpusModel.ResetState (property C12), driven by harness/c12_state.c:
    misc encinit <Fs> <ch> <app> <arch> <silk_off> <celt_off>      → the 92 members after opus_encoder_init
    misc encreset <92 members>                                      → the members after OPUS_RESET_STATE
    misc encset <92 members> <request> <value>                      → BAD_ARG or the members after the request
    misc decinit <Fs> <ch> <arch> <silk_off> <celt_off>            → the 29 decoder members after opus_decoder_init
    misc decreset <29 members>                                      → after OPUS_RESET_STATE
  Member order: Enc.toList / Dec.toList (declaration order of the C structs; blobs as 1 = bitwise fresh).
-/
namespace Driver.SuiteMisc
open Opus Opus.ResetState

def ints (l : List String) : Option (List Int) := l.mapM (·.toInt?)

def handle : List String → String
  | ["encinit", fs, ch, app, arch, so, co] =>
    match ints [fs, ch, app, arch, so, co] with
    | some [fs, ch, app, arch, so, co] => "INIT " ++ intList (encInit fs ch app arch so co).toList
    | _ => "bad-op"
  | ["encreset", st] =>
    match (parseIntList st).bind Enc.ofList with
    | some s => "RESET " ++ intList (encReset s).toList
    | none => "bad-op"
  | ["encset", st, req, v] =>
    match (parseIntList st).bind Enc.ofList, req.toInt?, v.toInt? with
    | some s, some req, some v =>
      match encSet s req v with
      | some s' => "SET " ++ intList s'.toList
      | none => "BAD_ARG"
    | _, _, _ => "bad-op"
  | ["decinit", fs, ch, arch, so, co] =>
    match ints [fs, ch, arch, so, co] with
    | some [fs, ch, arch, so, co] => "INIT " ++ intList (decInit fs ch arch so co).toList
    | _ => "bad-op"
  | ["decreset", st] =>
    match (parseIntList st).bind Dec.ofList with
    | some s => "RESET " ++ intList (decReset s).toList
    | none => "bad-op"
  | _ => "bad-op"

end Driver.SuiteMisc
