import Driver.Util
import OpusModel.ResetState
import OpusModel.ResetDecode
import OpusModel.ResetMs
/-
  Suite `misc` — line protocol of OpusModel.ResetState (property C12), driven by harness/c12_state.c:
    misc encinit <Fs> <ch> <app> <arch> <silk_off> <celt_off>      → the 92 members after opus_encoder_init
    misc encreset <92 members>                                      → the members after OPUS_RESET_STATE
    misc encset <92 members> <request> <value>                      → BAD_ARG or the members after the request
    misc decinit <Fs> <ch> <arch> <silk_off> <celt_off>            → the 29 decoder members after opus_decoder_init
    misc decreset <29 members>                                      → after OPUS_RESET_STATE
    misc decstep <29 before> <29 after> <dataNull 0/1>              → ok | which structural claim of decodeStep the call violated
    misc msreset <10 multistream members> <stream;stream;…>         → code, members and streams after the multistream reset
    misc msdecreset <3 layout members> <stream;stream;…>            → likewise for the multistream decoder
  Member order: Enc.toList / Dec.toList (declaration order of the C structs; blobs as 1 = bitwise fresh).
-/
namespace Driver.SuiteMisc
open Opus Opus.ResetState

def ints (l : List String) : Option (List Int) := l.mapM (·.toInt?)

def handle : List String → String
  | ["encinit", fs, ch, app, arch, so, co] =>
    match ints [fs, ch, app, arch, so, co] with
    | some [fs, ch, app, arch, so, co] => "INIT " ++ intList (encInit fs ch app arch so co).toList
    | _ => "bad-op"
  | ["encreset", st] =>
    match (parseIntList st).bind Enc.ofList with
    | some s => "RESET " ++ intList (encReset s).toList
    | none => "bad-op"
  | ["encset", st, req, v] =>
    match (parseIntList st).bind Enc.ofList, req.toInt?, v.toInt? with
    | some s, some req, some v =>
      match encSet s req v with
      | some s' => "SET " ++ intList s'.toList
      | none => "BAD_ARG"
    | _, _, _ => "bad-op"
  | ["decinit", fs, ch, arch, so, co] =>
    match ints [fs, ch, arch, so, co] with
    | some [fs, ch, arch, so, co] => "INIT " ++ intList (decInit fs ch arch so co).toList
    | _ => "bad-op"
  | ["decreset", st] =>
    match (parseIntList st).bind Dec.ofList with
    | some s => "RESET " ++ intList (decReset s).toList
    | none => "bad-op"
  | ["decstep", pre, post, dn] =>
    match (parseIntList pre).bind Dec.ofList, (parseIntList post).bind Dec.ofList, dn.toInt? with
    | some a, some b, some d => decStepCheck a b (d ≠ 0)
    | _, _, _ => "bad-op"
  | ["msreset", ms, streams] =>
    match parseIntList ms, (streams.splitOn ";").mapM (fun t => (parseIntList t).bind Enc.ofList) with
    | some [nc, ns, ncp, arch, lfe, app, vd, mt, br, mz], some es =>
      let m : MsEnc := { nbChannels := nc, nbStreams := ns, nbCoupled := ncp, mapping := [], arch, lfeStream := lfe,
                         application := app, variableDuration := vd, mappingType := mt, bitrateBps := br,
                         mems := Blob.ofInt mz, streams := es }
      let r := msEncReset m
      let o := r.1
      s!"MSRESET {r.2.code} " ++ intList [o.nbChannels, o.nbStreams, o.nbCoupled, o.arch, o.lfeStream, o.application,
                                          o.variableDuration, o.mappingType, o.bitrateBps, o.mems.toInt] ++ " " ++
        ";".intercalate (o.streams.map (fun e => intList e.toList))
    | _, _ => "bad-op"
  | ["msdecreset", ms, streams] =>
    match parseIntList ms, (streams.splitOn ";").mapM (fun t => (parseIntList t).bind Dec.ofList) with
    | some [nc, ns, ncp], some ds =>
      let r := msDecReset { nbChannels := nc, nbStreams := ns, nbCoupled := ncp, mapping := [], streams := ds }
      s!"MSRESET {r.2.code} " ++ intList [r.1.nbChannels, r.1.nbStreams, r.1.nbCoupled] ++ " " ++
        ";".intercalate (r.1.streams.map (fun d => intList d.toList))
    | _, _ => "bad-op"
  | _ => "bad-op"

end Driver.SuiteMisc
