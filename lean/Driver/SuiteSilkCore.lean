import OpusModel.SilkCoreFrame
import OpusModel.SilkPipe
import Driver.Util
/-! Suite `silkcore` (property C03, slice SilkCore; line protocol DESIGN.md §4).

    `frame|core fs nb lossCnt prevSignalType lagPrev LastGainIndex first_frame_after_reset prev_gain_Q16
        sLPC_Q14_buf[16] prevNLSF_Q15[16] outBuf[480]
        condCoding signalType quantOffsetType GainsIndices NLSFIndices NLSFInterpCoef_Q2 lagIndex contourIndex PERIndex
        LTPIndex LTP_scaleIndex Seed pulses`
    answer: `P <what silk_decode_parameters left> C <what silk_decode_core left>` and, for `frame`, ` F <outBuf, lagPrev after the
    buffer update>`; `OOB` / `ABORT` when the model reaches that outcome. -/
namespace Driver.SuiteSilkCore
open Opus Opus.SilkCore Driver

def paramsStr (p : ParamsOut) : String :=
  s!"P g={intList p.ctrl.gainsQ16} a0={intList p.ctrl.pred0} a1={intList p.ctrl.pred1} ltp={intList p.ctrl.ltpCoef} " ++
  s!"pl={intList p.ctrl.pitchL} sc={p.ctrl.ltpScaleQ14} lgi={p.lastGainIndex} nlsf={intList p.prevNlsf} ic={p.interp} per={p.perIndex}"

def coreStr (fs nb : Nat) (c : CoreOut) : String :=
  s!"C xq={intList c.xq} slpc={intList c.sLPC} ob={intList c.outBuf} exc={intList (c.excQ14.take (frameLen fs nb))} " ++
  s!"pg={c.prevGainQ16} ltp={intList c.ltpCoef} pl={intList c.pitchL}"

def parseArgs (a : List String) : Option (DecState × FrameIn) :=
  match a with
  | [fs, nb, lc, ps, lp, lgi, ffar, pg, slpc, pn, ob, cc, st, qo, gi, ni, ic, li, ci, per, lti, lsi, seed, pulses] => do
    let s : DecState := {
      fsKHz := ← parseNat fs, nbSubfr := ← parseNat nb, sLPC := ← parseIntList slpc, outBuf := ← parseIntList ob,
      excQ14 := List.replicate Opus.Frozen.SilkCoreTabs.szExcQ14 0, prevGainQ16 := ← parseInt pg, lagPrev := ← parseInt lp,
      lastGainIndex := ← parseInt lgi, prevNlsf := ← parseIntList pn, firstFrameAfterReset := ← parseInt ffar,
      prevSignalType := ← parseInt ps, lossCnt := ← parseInt lc }
    let f : FrameIn := {
      condCoding := ← parseInt cc, gainsIdx := ← parseIntList gi, nlsfIdx := ← parseIntList ni, interp := ← parseInt ic,
      signalType := ← parseInt st, quantOffsetType := ← parseInt qo, lagIndex := ← parseInt li, contourIndex := ← parseInt ci,
      perIndex := ← parseInt per, ltpIdx := ← parseIntList lti, ltpScaleIndex := ← parseInt lsi, seed := ← parseInt seed,
      pulses := ← parseIntList pulses }
    if (s.fsKHz = 8 ∨ s.fsKHz = 12 ∨ s.fsKHz = 16) ∧ (s.nbSubfr = 2 ∨ s.nbSubfr = 4) then some (s, f) else none
  | _ => none

/-! ops `pipe-*` (slice SilkPipe): `pipe-stream <fs_kHz> <Fs_API> <packet> …` — a fresh mono decoder, every packet through
    `Opus.SilkPipe.silkOnlyDecode`; answer `PCM <pcm of packet 0>;<pcm of packet 1>;…`, ended by `ERR@k:<outcome>` if packet `k` is not `.ok`. -/
def pipeLoop (apiHz : Nat) : Opus.SilkPipe.PipeSt → Nat → List Bytes → List String → String
  | _, _, [], acc => "PCM " ++ ";".intercalate acc.reverse
  | S, k, p :: ps, acc =>
    match Opus.SilkPipe.silkOnlyDecode apiHz S p with
    | .ok (S', pcm) => pipeLoop apiHz S' (k + 1) ps (intList pcm :: acc)
    | r => "PCM " ++ ";".intercalate (s!"ERR@{k}:{resStr (fun _ => "OK") r}" :: acc).reverse

/-- Diagnostic (op `pipe-why`, not compared): why the first packet outside the class is outside. -/
def whyFrames (S : Opus.SilkPipe.PipeSt) : List Opus.SilkSyms.FrameRes → String
  | [] => "inside"
  | .plc :: _ => "frame-of-at-most-1-byte(PLC/DTX)"
  | .celt _ _ :: _ => "celt-frame"
  | .silk _ o :: rest =>
    if o.redundancy ≠ 0 then s!"redundancy-frame(celt_to_silk={o.celtToSilk},bytes={o.redundancyBytes})"
    else if o.nCh ≠ 1 then "stereo"
    else if o.internalRate ≠ S.dec.fsKHz * 1000 then s!"internal-rate-change({S.dec.fsKHz}kHz->{o.internalRate})"
    else whyFrames S rest

def pipeWhyLoop (apiHz : Nat) : Opus.SilkPipe.PipeSt → Nat → List Bytes → String
  | _, _, [] => "all-inside"
  | S, k, p :: ps =>
    match Opus.SilkPipe.silkOnlyDecode apiHz S p with
    | .ok (S', _) => pipeWhyLoop apiHz S' (k + 1) ps
    | _ =>
      if !Opus.SilkPipe.silkOnlyMono p then s!"packet {k}: TOC not SILK-only mono"
      else match Opus.SilkSyms.decodePacket apiHz false false S.syms p with
        | .ok (some frs) => s!"packet {k}: {whyFrames S frs}"
        | _ => s!"packet {k}: rejected by the parser"

def pipeStream (args : List String) : String :=
  match args with
  | fs :: api :: pkts =>
    match parseNat fs, parseNat api, pkts.mapM parseHex with
    | some fs, some api, some pk =>
      match Opus.SilkPipe.initPipe fs api with
      | .ok S => pipeLoop api S 0 pk []
      | _ => "bad-op"
    | _, _, _ => "bad-op"
  | _ => "bad-op"

def handle (args : List String) : String :=
  match args with
  | "frame" :: a =>
    match parseArgs a with
    | some (s, f) =>
      resStr (fun (o : FrameOut) =>
        paramsStr o.params ++ " " ++ coreStr s.fsKHz s.nbSubfr o.core ++ s!" F ob={intList o.st.outBuf} lp={o.st.lagPrev}") (frameGood s f)
    | none => "bad-op"
  | "core" :: a =>
    match parseArgs a with
    | some (s, f) =>
      resStr (fun (o : FrameOut) => paramsStr o.params ++ " " ++ coreStr s.fsKHz s.nbSubfr o.core) (frameGood s f)
    | none => "bad-op"
  /- diagnostics for the evidence (not compared): number of signed-overflow events (decode_core.c:193) the model counted -/
  | "ub" :: a =>
    match parseArgs a with
    | some (s, f) => resStr (fun (o : FrameOut) => s!"ub={o.core.ub}") (frameGood s f)
    | none => "bad-op"
  | "pipe-stream" :: a => pipeStream a
  | "pipe-why" :: fs :: api :: pkts =>
    match parseNat fs, parseNat api, pkts.mapM parseHex with
    | some fs, some api, some pk =>
      match Opus.SilkPipe.initPipe fs api with
      | .ok S => pipeWhyLoop api S 0 pk
      | _ => "bad-op"
    | _, _, _ => "bad-op"
  | _ => "bad-op"

end Driver.SuiteSilkCore
