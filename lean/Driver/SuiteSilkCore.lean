import Driver.Util
/-! Suite `silkcore` (line protocol, DESIGN.md §4): stub registered in Driver/Main.lean; the owner fills in `handle`. -/
namespace Driver.SuiteSilkCore

def handle (args : List String) : String :=
  match args with
  | _ => "bad-op"

end Driver.SuiteSilkCore
