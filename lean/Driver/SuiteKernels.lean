import OpusModel.Kernels
import Driver.Util
/-
  Suite `kernels` (C15): the Lean models of OpusModel/Kernels.lean evaluated over ℤ (exact domain) and
  printed as IEEE-754 bit patterns, the integer VQ kernel, the arch decision list and the dispatch-table spec.

    inner <xs> <ys>                         celt_inner_prod_sse            -> f<8 hex>
    dual <xs> <y1s> <y2s>                   dual_inner_prod_sse            -> f.. f..
    xcorr4 <len> <xs> <ys> <sum0..3>        xcorr_kernel_sse               -> f..,f..,f..,f..
    pitchxcorr <len> <maxpitch> <xs> <ys>   celt_pitch_xcorr_avx2          -> f..,…   (maxpitch values)
    comb <T> <N> <g10> <g11> <g12> <xs>     comb_filter_const_sse, y ≠ x   -> f..,…   (4*(N/4) values)
    combip <T> <N> <g10> <g11> <g12> <xs>   the same in place (y = x)      -> f..,…
    flp c|avx2 <xs> <ys>                    silk_inner_product_FLP_*       -> d<16 hex>
    vqwmat c|sse <XX> <xX> <cb> <cbgain> <cl> <subfr> <maxgain> <L>        -> ind=.. res=.. rate=.. gain=..
    selectarch <nIds> <ecx1> <edx1> <ebx7> <cap|->                         -> arch
    dispatch <TABLE> <mask> <a>                                            -> symbol the table must hold at index a
-/
namespace Driver.SuiteKernels
open Opus Opus.Kernels Driver

def hex (n digits : Nat) : String :=
  String.ofList ((List.range digits).reverse.map (fun i => hexDigit (n / 16 ^ i % 16)))

/-- binary32 bit pattern of an integer that is exactly representable (|n| < 2^24). -/
def f32Bits (n : Int) : String :=
  let a := n.natAbs
  if a ≥ 16777216 then "INEXACT"
  else if a = 0 then "f00000000"
  else
    let e := a.log2
    let mant := (a * 2 ^ (23 - e)) % 8388608
    "f" ++ hex ((if n < 0 then 2147483648 else 0) + (e + 127) * 8388608 + mant) 8

/-- binary64 bit pattern of an integer with |n| < 2^53. -/
def f64Bits (n : Int) : String :=
  let a := n.natAbs
  if a ≥ 9007199254740992 then "INEXACT"
  else if a = 0 then "d0000000000000000"
  else
    let e := a.log2
    let mant := (a * 2 ^ (52 - e)) % 4503599627370496
    "d" ++ hex ((if n < 0 then 9223372036854775808 else 0) + (e + 1023) * 4503599627370496 + mant) 16

def mem (l : List Int) : Nat → Int :=
  let a := l.toArray
  fun i => a.getD i 0

def f32List (l : List Int) : String := ",".intercalate (l.map f32Bits)

/-- comb_filter_const in place: the sequential C semantics on one buffer (celt.c:163-186 with y = x);
    `buf` index 0 is `x[-T-2]`. -/
def combInPlace (buf : Array Int) (T N : Nat) (g10 g11 g12 : Int) : Array Int :=
  (List.range N).foldl (fun b i =>
    let x := fun (j : Nat) => b.getD j 0
    b.setIfInBounds (i + T + 2) (combC x T g10 g11 g12 i)) buf

def handle : List String → String
  | ["inner", xs, ys] =>
    match parseIntList xs, parseIntList ys with
    | some x, some y =>
      if x.length != y.length then "bad-op" else f32Bits (innerProdSse (mem x) (mem y) x.length)
    | _, _ => "bad-op"
  | ["dual", xs, y1s, y2s] =>
    match parseIntList xs, parseIntList y1s, parseIntList y2s with
    | some x, some y1, some y2 =>
      if x.length != y1.length || x.length != y2.length then "bad-op"
      else
        let r := dualInnerProdSse (mem x) (mem y1) (mem y2) x.length
        s!"{f32Bits r.1} {f32Bits r.2}"
    | _, _, _ => "bad-op"
  | ["xcorr4", len, xs, ys, sums] =>
    match parseNat len, parseIntList xs, parseIntList ys, parseIntList sums with
    | some len, some x, some y, some s =>
      if x.length != len || y.length != len + 3 || s.length != 4 then "bad-op"
      else
        let r := xcorrKernelSse (mem x) (mem y) (mem s) len
        f32List [r 0, r 1, r 2, r 3]
    | _, _, _, _ => "bad-op"
  | ["pitchxcorr", len, mp, xs, ys] =>
    match parseNat len, parseNat mp, parseIntList xs, parseIntList ys with
    | some len, some mp, some x, some y =>
      if x.length != len || y.length != len + mp || mp = 0 then "bad-op"
      else f32List ((List.range mp).map (pitchXcorrAvx2 (mem x) (mem y) len mp))
    | _, _, _, _ => "bad-op"
  | ["comb", t, n, g10, g11, g12, xs] =>
    match parseNat t, parseNat n, parseInt g10, parseInt g11, parseInt g12, parseIntList xs with
    | some t, some n, some g10, some g11, some g12, some x =>
      if x.length != t + 2 + n then "bad-op"
      else f32List ((List.range (n / 4 * 4)).map (combSse (mem x) t g10 g11 g12))
    | _, _, _, _, _, _ => "bad-op"
  | ["combip", t, n, g10, g11, g12, xs] =>
    match parseNat t, parseNat n, parseInt g10, parseInt g11, parseInt g12, parseIntList xs with
    | some t, some n, some g10, some g11, some g12, some x =>
      if x.length != t + 2 + n then "bad-op"
      else
        let r := combInPlace x.toArray t (n / 4 * 4) g10 g11 g12
        f32List ((List.range (n / 4 * 4)).map (fun i => r.getD (i + t + 2) 0))
    | _, _, _, _, _, _ => "bad-op"
  | ["flp", v, xs, ys] =>
    match parseIntList xs, parseIntList ys with
    | some x, some y =>
      if x.length != y.length then "bad-op"
      else if v = "c" then f64Bits (innerProductFlpC (mem x) (mem y) x.length)
      else if v = "avx2" then f64Bits (innerProductFlpAvx2 (mem x) (mem y) x.length)
      else "bad-op"
    | _, _ => "bad-op"
  | ["vqwmat", v, xx, xX, cb, cbg, cl, subfr, maxg, l] =>
    match parseIntList xx, parseIntList xX, parseIntList cb, parseIntList cbg, parseIntList cl,
          parseInt subfr, parseInt maxg, parseNat l with
    | some xx, some xX, some cb, some cbg, some cl, some subfr, some maxg, some l =>
      if xx.length != 25 || xX.length != 5 || cb.length != 5 * l || cbg.length != l || cl.length != l then "bad-op"
      else
        let inp : VQIn := ⟨xx, xX, cb, cbg, cl, subfr, maxg, l⟩
        let r := if v = "c" then some (vqWMatEC_c inp) else if v = "sse" then some (vqWMatEC_sse inp) else none
        match r with
        | none => "bad-op"
        | some r =>
          let g := match r.gain with | some g => toString g | none => "-"
          s!"ind={r.ind} res={r.resNrg} rate={r.rateDist} gain={g}"
    | _, _, _, _, _, _, _, _ => "bad-op"
  | ["selectarch", nIds, ecx1, edx1, ebx7, cap] =>
    match parseNat nIds, parseNat ecx1, parseNat edx1, parseNat ebx7 with
    | some nIds, some ecx1, some edx1, some ebx7 =>
      let f := cpuFeatureCheck nIds ecx1 edx1 ebx7
      if cap = "-" then toString (selectArch f none)
      else match parseNat cap with
        | some c => if c ≤ 9 then toString (selectArch f (some c)) else "bad-op"
        | none => "bad-op"
    | _, _, _, _ => "bad-op"
  | ["dispatch", table, mask, a] =>
    match specOf table, parseNat mask, parseNat a with
    | some k, some mask, some a => if a ≤ mask then (expectedTable k mask).getD a "bad-op" else "bad-op"
    | _, _, _ => "bad-op"
  | _ => "bad-op"

end Driver.SuiteKernels
