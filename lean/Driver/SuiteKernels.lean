import OpusModel.Kernels
import OpusModel.KernelsNsq
import OpusModel.KernelsPvq
import OpusModel.Gen.DispatchTables
import Driver.Util
/-
  Suite `kernels` (C15): the Lean models of OpusModel/Kernels.lean evaluated over ℤ (exact domain) and
  printed as IEEE-754 bit patterns, the integer VQ kernel, the arch decision list and the dispatch-table spec.

  `<vs>` is a comma-separated list of *variants* of the kernel that the harness ran on the same data:
     c            the portable function            sse / sse4_1 / avx2   the SIMD function, called by symbol
     a0 … a4      the codec's own call macro (`celt_inner_prod(x,y,N,arch)` …) with that arch value; the model
                  resolves it through the regenerated dispatch table, or — when the kernel's level is presumed at
                  compile time and there is no table — to the presumed SIMD function.
  The answer is `v=<result>` for every requested variant, in order; each variant is evaluated with *its own*
  Lean definition (lane structure included), so a disagreement names the variant.

    inner <vs> <xs> <ys>                         celt_inner_prod                -> v=f<8 hex>
    dual <vs> <xs> <y1s> <y2s>                   dual_inner_prod                -> v=f..,f..
    xcorr4 <vs> <len> <xs> <ys> <sum0..3>        xcorr_kernel (ys: len+3)       -> v=f..,f..,f..,f..
    pitchxcorr <vs> <len> <maxpitch> <xs> <ys>   celt_pitch_xcorr (ys: len+maxpitch-1) -> v=f..,…  (maxpitch values)
    comb <vs> <T> <N> <g10> <g11> <g12> <xs>     comb_filter_const, y ≠ x       -> v=f..,…   (4*(N/4) values)
    combip <vs> <T> <N> <g10> <g11> <g12> <xs>   the same in place (y = x)      -> v=f..,…
    flp <vs> <xs> <ys>                           silk_inner_product_FLP         -> v=d<16 hex>
    vqwmat <vs> <XX> <xX> <cb> <cbgain> <cl> <subfr> <maxgain> <L>  silk_VQ_WMat_EC -> v=ind:res:rate:gain
    selectarch <nIds> <ecx1> <edx1> <ebx7> <cap|->                         -> arch
    dispatch <TABLE> <mask> <a>                                            -> symbol the table must hold at index a
    nsqscale <vs> <subfr_length> <ltp_mem_length> <x16> <sLTP> <lag> <subfr> <LTP_scale_Q14> <gain> <signal_type>
             <rewhite_flag> <sLTP_buf_idx> <sLTP_shp_buf_idx> <sLTP_shp_Q14> <sLTP_Q15> <sLF_AR_shp> <sDiff_shp> <sLPC[16]>
             <sAR2[24]> <prev_gain>      silk_nsq_scale_states (c) / _sse4_1        -> v=xsc:…;shp:…;ltp:…;lf:…;diff:…;lpc:…;ar2:…;prev:…
    vadnrg <vs> <xs>                     VAD sub-frame energy loop (c / sse4_1)      -> v=<sumSquared>
    invvarq <b> <Q> / divvarq <a> <b> <Q>   silk_INVERSE32_varQ / silk_DIV32_varQ    -> value
    sarround <vs> <a> <b> <bits>         silk_sar_round_smulww (avx2) / the C expression (c) -> v=value
    pvq <c|sse2> <N> <K> <proj> <picks> <signs>   the PVQ search bookkeeping (OpusModel/KernelsPvq.lean) driven by the
                                         pre-search counts and arg-max positions RECORDED in the compiled kernel
                                         -> iy=<list> yy=<int>   (contract-violated:… if the recording breaks a contract)
    lane <op> <vs> <a> <b> <c>           one lane of the NSQ_del_dec_avx2.c helpers (avx2) / the C macro (c):
                                         addsat a b, subsat a b, limit num l1 l2, smulww a b, smulwb a b,
                                         srairound a bits, rand seed                  -> v=value
-/
namespace Driver.SuiteKernels
open Opus Opus.Kernels Driver

def hex (n digits : Nat) : String :=
  String.ofList ((List.range digits).reverse.map (fun i => hexDigit (n / 16 ^ i % 16)))

/-- binary32 bit pattern of an integer that is exactly representable (|n| < 2^24). -/
def f32Bits (n : Int) : String :=
  let a := n.natAbs
  if a ≥ 16777216 then "INEXACT"
  else if a = 0 then "f00000000"
  else
    let e := a.log2
    let mant := (a * 2 ^ (23 - e)) % 8388608
    "f" ++ hex ((if n < 0 then 2147483648 else 0) + (e + 127) * 8388608 + mant) 8

/-- binary64 bit pattern of an integer with |n| < 2^53. -/
def f64Bits (n : Int) : String :=
  let a := n.natAbs
  if a ≥ 9007199254740992 then "INEXACT"
  else if a = 0 then "d0000000000000000"
  else
    let e := a.log2
    let mant := (a * 2 ^ (52 - e)) % 4503599627370496
    "d" ++ hex ((if n < 0 then 9223372036854775808 else 0) + (e + 1023) * 4503599627370496 + mant) 16

/-- memory as an index function over an array built once per line (out-of-range reads give 0; the harness
    allocates exact-size blocks, so the real kernels cannot read there without an ASan report). -/
@[inline] def mem (a : Array Int) : Nat → Int := fun i => a.getD i 0

def f32List (l : List Int) : String := ",".intercalate (l.map f32Bits)

/-- comb_filter_const in place: the sequential C semantics on one buffer (celt.c:163-186 with y = x);
    `buf` index 0 is `x[-T-2]`. -/
def combInPlace (buf : Array Int) (T N : Nat) (g10 g11 g12 : Int) : Array Int :=
  (List.range N).foldl (fun b i =>
    let x := fun (j : Nat) => b.getD j 0
    b.setIfInBounds (i + T + 2) (combC x T g10 g11 g12 i)) buf

/-- the symbol the codec's call macro reaches for kernel table `table` at arch value `a`: the regenerated
    table's entry when the table exists, else the function presumed at compile time. -/
def dispatched (table : String) (a : Nat) : Option String :=
  match specOf table with
  | none => none
  | some k =>
    match Opus.Gen.DispatchTables.tables.find? (fun t => t.1 == table) with
    | some t => t.2.2[a]?
    | none => some (symbolAt k (presumedLevel Opus.Gen.DispatchTables.presume))

/-- variant token → symbol name. -/
def symbolOf (table : String) (v : String) : Option String :=
  match specOf table with
  | none => none
  | some k =>
    if v = "c" then some k.base
    else match v.toList with
      | ['a', d] => if '0' ≤ d ∧ d ≤ '4' then dispatched table (d.toNat - '0'.toNat) else none
      | _ =>
        match k.levels.find? (fun ls => ls.2 == (k.base.dropEnd 1).toString ++ v) with
        | some ls => some ls.2
        | none => none

/-- run `f sym` for every variant and join `v=result`. -/
def perVariant (table : String) (vs : String) (f : String → Option String) : String :=
  let out := (vs.splitOn ",").map (fun v =>
    match symbolOf table v with
    | none => none
    | some sym => (f sym).map (fun r => v ++ "=" ++ r))
  if vs = "" || out.any (·.isNone) then "bad-op" else " ".intercalate (out.filterMap id)

def range4 (r : Nat → Int) : String := f32List [r 0, r 1, r 2, r 3]

def handle : List String → String
  | ["inner", vs, xs, ys] =>
    match parseIntList xs, parseIntList ys with
    | some x, some y =>
      if x.length != y.length then "bad-op"
      else
      let x := x.toArray; let y := y.toArray
      perVariant "CELT_INNER_PROD_IMPL" vs (fun sym =>
        if sym = "celt_inner_prod_c" then some (f32Bits (innerProdC (mem x) (mem y) x.size))
        else if sym = "celt_inner_prod_sse" then some (f32Bits (innerProdSse (mem x) (mem y) x.size))
        else none)
    | _, _ => "bad-op"
  | ["dual", vs, xs, y1s, y2s] =>
    match parseIntList xs, parseIntList y1s, parseIntList y2s with
    | some x, some y1, some y2 =>
      if x.length != y1.length || x.length != y2.length then "bad-op"
      else
      let x := x.toArray; let y1 := y1.toArray; let y2 := y2.toArray
      perVariant "DUAL_INNER_PROD_IMPL" vs (fun sym =>
        let pr := fun (r : Int × Int) => s!"{f32Bits r.1},{f32Bits r.2}"
        if sym = "dual_inner_prod_c" then some (pr (dualInnerProdC (mem x) (mem y1) (mem y2) x.size))
        else if sym = "dual_inner_prod_sse" then some (pr (dualInnerProdSse (mem x) (mem y1) (mem y2) x.size))
        else none)
    | _, _, _ => "bad-op"
  | ["xcorr4", vs, len, xs, ys, sums] =>
    match parseNat len, parseIntList xs, parseIntList ys, parseIntList sums with
    | some len, some x, some y, some s =>
      if x.length != len || y.length != len + 3 || s.length != 4 then "bad-op"
      else
      let x := x.toArray; let y := y.toArray; let s := s.toArray
      perVariant "XCORR_KERNEL_IMPL" vs (fun sym =>
        -- xcorr_kernel_c has `celt_assert(len>=3)` (pitch.h:68); the harness does not call it below that
        if sym = "xcorr_kernel_c" then
          (if len < 3 then none else some (range4 (xcorrKernelC (mem x) (mem y) (mem s) len)))
        else if sym = "xcorr_kernel_sse" then some (range4 (xcorrKernelSse (mem x) (mem y) (mem s) len))
        else none)
    | _, _, _, _ => "bad-op"
  | ["pitchxcorr", vs, len, mp, xs, ys] =>
    match parseNat len, parseNat mp, parseIntList xs, parseIntList ys with
    | some len, some mp, some x, some y =>
      if x.length != len || y.length + 1 != len + mp || mp = 0 then "bad-op"
      else
      let x := x.toArray; let y := y.toArray
      perVariant "PITCH_XCORR_IMPL" vs (fun sym =>
        let all := fun (f : Nat → Int) => f32List ((List.range mp).map f)
        if sym = "celt_pitch_xcorr_c" then
          -- inner kernels of the C function: what `xcorr_kernel` / `celt_inner_prod` resolve to at any arch
          match dispatched "XCORR_KERNEL_IMPL" 0, dispatched "CELT_INNER_PROD_IMPL" 0 with
          | some "xcorr_kernel_sse", some "celt_inner_prod_sse" => some (all (pitchXcorrC (mem x) (mem y) len mp))
          | some "xcorr_kernel_c", some "celt_inner_prod_c" => some (all (pitchXcorrCPortable (mem x) (mem y) len mp))
          | _, _ => none
        else if sym = "celt_pitch_xcorr_avx2" then some (all (pitchXcorrAvx2 (mem x) (mem y) len mp))
        else none)
    | _, _, _, _ => "bad-op"
  | ["comb", vs, t, n, g10, g11, g12, xs] =>
    match parseNat t, parseNat n, parseInt g10, parseInt g11, parseInt g12, parseIntList xs with
    | some t, some n, some g10, some g11, some g12, some x =>
      if x.length != t + 2 + n then "bad-op"
      else
      let x := x.toArray
      perVariant "COMB_FILTER_CONST_IMPL" vs (fun sym =>
        if sym = "comb_filter_const_c" then
          some (f32List ((List.range (n / 4 * 4)).map (combC (mem x) t g10 g11 g12)))
        else if sym = "comb_filter_const_sse" then
          some (f32List ((List.range (n / 4 * 4)).map (combSse (mem x) t g10 g11 g12)))
        else none)
    | _, _, _, _, _, _ => "bad-op"
  | ["combip", vs, t, n, g10, g11, g12, xs] =>
    match parseNat t, parseNat n, parseInt g10, parseInt g11, parseInt g12, parseIntList xs with
    | some t, some n, some g10, some g11, some g12, some x =>
      if x.length != t + 2 + n then "bad-op"
      else
      let x := x.toArray
      perVariant "COMB_FILTER_CONST_IMPL" vs (fun sym =>
        if sym = "comb_filter_const_c" || sym = "comb_filter_const_sse" then
          let r := combInPlace x t (n / 4 * 4) g10 g11 g12
          some (f32List ((List.range (n / 4 * 4)).map (fun i => r.getD (i + t + 2) 0)))
        else none)
    | _, _, _, _, _, _ => "bad-op"
  | ["flp", vs, xs, ys] =>
    match parseIntList xs, parseIntList ys with
    | some x, some y =>
      if x.length != y.length then "bad-op"
      else
      let x := x.toArray; let y := y.toArray
      perVariant "SILK_INNER_PRODUCT_FLP_IMPL" vs (fun sym =>
        if sym = "silk_inner_product_FLP_c" then some (f64Bits (innerProductFlpC (mem x) (mem y) x.size))
        else if sym = "silk_inner_product_FLP_avx2" then some (f64Bits (innerProductFlpAvx2 (mem x) (mem y) x.size))
        else none)
    | _, _ => "bad-op"
  | ["vqwmat", vs, xx, xX, cb, cbg, cl, subfr, maxg, l] =>
    match parseIntList xx, parseIntList xX, parseIntList cb, parseIntList cbg, parseIntList cl,
          parseInt subfr, parseInt maxg, parseNat l with
    | some xx, some xX, some cb, some cbg, some cl, some subfr, some maxg, some l =>
      if xx.length != 25 || xX.length != 5 || cb.length != 5 * l || cbg.length != l || cl.length != l then "bad-op"
      else
        let inp : VQIn := ⟨xx, xX, cb, cbg, cl, subfr, maxg, l⟩
        let pr := fun (r : VQBest) =>
          let g := match r.gain with | some g => toString g | none => "-"
          s!"{r.ind}:{r.resNrg}:{r.rateDist}:{g}"
        perVariant "SILK_VQ_WMAT_EC_IMPL" vs (fun sym =>
          if sym = "silk_VQ_WMat_EC_c" then some (pr (vqWMatEC_c inp))
          else if sym = "silk_VQ_WMat_EC_sse4_1" then some (pr (vqWMatEC_sse inp))
          else none)
    | _, _, _, _, _, _, _, _ => "bad-op"
  | ["selectarch", nIds, ecx1, edx1, ebx7, cap] =>
    match parseNat nIds, parseNat ecx1, parseNat edx1, parseNat ebx7 with
    | some nIds, some ecx1, some edx1, some ebx7 =>
      let f := cpuFeatureCheck nIds ecx1 edx1 ebx7
      if cap = "-" then toString (selectArch f none)
      else match parseNat cap with
        | some c => if c ≤ 9 then toString (selectArch f (some c)) else "bad-op"
        | none => "bad-op"
    | _, _, _, _ => "bad-op"
  | ["dispatch", table, mask, a] =>
    match specOf table, parseNat mask, parseNat a with
    | some k, some mask, some a => if a ≤ mask then (expectedTable k mask).getD a "bad-op" else "bad-op"
    | _, _, _ => "bad-op"
  | ["invvarq", b, q] =>
    match parseInt b, parseInt q with
    | some b, some q => if b = 0 || q ≤ 0 then "bad-op" else s!"v={inverse32VarQ b q}"
    | _, _ => "bad-op"
  | ["divvarq", a, b, q] =>
    match parseInt a, parseInt b, parseInt q with
    | some a, some b, some q => if b = 0 || q < 0 then "bad-op" else s!"v={div32VarQ a b q}"
    | _, _, _ => "bad-op"
  | ["sarround", vs, a, b, bits] =>
    match parseInt a, parseInt b, parseNat bits with
    | some a, some b, some bits =>
      if bits = 0 || bits ≥ 31 then "bad-op"
      else
        let out := (vs.splitOn ",").map (fun v =>
          if v = "avx2" then some s!"avx2={sarRoundSmulwwAvx2 a b bits}"
          else if v = "c" then some s!"c={sarRoundSmulwwC a b bits}"
          else if v = "old64" then some s!"old64={sarRoundSmulww64 a b bits}"
          else none)
        if out.any (·.isNone) then "bad-op" else " ".intercalate (out.filterMap id)
    | _, _, _ => "bad-op"
  | ["lane", op, vs, a, b, c] =>
    match parseInt a, parseInt b, parseInt c with
    | some a, some b, some c =>
      let f : Option (Int × Int) :=      -- (avx2 lane, C macro)
        if op = "addsat" then some (addSatLane a b, addSat32C a b)
        else if op = "subsat" then some (subSatLane a b, subSat32C a b)
        else if op = "limit" then some (limitLane a b c, limit a b c)
        else if op = "smulww" then some (wrap32 (smulwwLaneAvx2 a b), smulww a b)
        else if op = "smulwb" then some (wrap32 (smulwbLaneAvx2 a b), smulwb a b)
        else if op = "srairound" then (if 1 < b ∧ b < 31 then some (sraiRoundLane a b.toNat, rshiftRound a b.toNat) else none)
        else if op = "rand" then some (randLane a, randC a)
        else none
      match f with
      | none => "bad-op"
      | some (x, y) =>
        let out := (vs.splitOn ",").map (fun v =>
          if v = "avx2" then some s!"avx2={x}" else if v = "c" then some s!"c={y}" else none)
        if out.any (·.isNone) then "bad-op" else " ".intercalate (out.filterMap id)
    | _, _, _ => "bad-op"
  | ["pvq", v, n, k, proj, picks, signs] =>
    match parseNat n, parseNat k, parseNatList proj, parseNatList picks, parseNatList signs with
    | some n, some k, some proj, some picks, some signs =>
      if v != "c" && v != "sse2" then "bad-op"
      else if n = 0 || proj.length != n || signs.length != n then "contract-violated:lengths"
      else if Pvq.sum proj > k then "contract-violated:pre-search-allocated-more-than-K"
      else if picks.any (· ≥ n) then "contract-violated:arg-max-outside-the-band"
      else
        let s1 := Pvq.dumpStep n { iy := proj, yy := Pvq.sumSq proj, left := k - Pvq.sum proj }
        if picks.length != s1.left then "contract-violated:number-of-greedy-iterations"
        else
          let pa := picks.toArray
          let pick := fun (s : Pvq.St) => pa.getD (pa.size - s.left) 0
          let sg := signs.map (· != 0)
          let r := if v = "c" then Pvq.searchC n k proj pick sg else Pvq.searchSse2 n k proj pick sg
          s!"iy={intList r.1} yy={r.2}"
    | _, _, _, _, _ => "bad-op"
  | ["vadnrg", vs, xs] =>
    match parseIntList xs with
    | some x =>
      let xa := x.toArray
      let out := (vs.splitOn ",").map (fun v =>
        if v = "c" then some s!"c={vadEnergyC (mem xa) xa.size}"
        else if v = "sse4_1" then some s!"sse4_1={vadEnergySse (mem xa) xa.size}"
        else none)
      if out.any (·.isNone) then "bad-op" else " ".intercalate (out.filterMap id)
    | none => "bad-op"
  | ["nsqscale", vs, sl, lm, x16, sltp, lag, subfr, lsc, gain, sig, rew, lbi, sbi, shp, ltp, lf, df, lpc, ar2, prev] =>
    match parseNat sl, parseNat lm, parseIntList x16, parseIntList sltp, parseInt lag, parseNat subfr, parseInt lsc,
          parseInt gain, parseInt sig, parseNat rew, parseInt lbi, parseInt sbi with
    | some sl, some lm, some x16, some sltp, some lag, some subfr, some lsc, some gain, some sig, some rew, some lbi, some sbi =>
      match parseIntList shp, parseIntList ltp, parseInt lf, parseInt df, parseIntList lpc, parseIntList ar2, parseInt prev with
      | some shp, some ltp, some lf, some df, some lpc, some ar2, some prev =>
        if x16.length != sl || ltp.length != sltp.length || lpc.length != 16 || ar2.length != 24 || subfr > 3 || prev = 0 then "bad-op"
        else
          let inp : NsqScIn := ⟨sl, lm, x16, sltp, lag, subfr, lsc, gain, sig, rew != 0, lbi, sbi⟩
          let st : NsqSc := ⟨shp, ltp, [], lf, df, lpc, ar2, prev⟩
          let pr := fun (r : NsqSc) =>
            let il := fun (l : List Int) => if l.isEmpty then "-" else intList l
            s!"xsc:{il r.xsc};shp:{il r.shp};ltp:{il r.ltpQ15};lf:{r.lfAr};diff:{r.diff};lpc:{il r.lpc};ar2:{il r.ar2};prev:{r.prevGain}"
          let out := (vs.splitOn ",").map (fun v =>
            if v = "c" then some ("c=" ++ pr (nsqScaleStatesC inp st))
            else if v = "sse4_1" then some ("sse4_1=" ++ pr (nsqScaleStatesSse inp st))
            else none)
          if out.any (·.isNone) then "bad-op" else " ".intercalate (out.filterMap id)
      | _, _, _, _, _, _, _ => "bad-op"
    | _, _, _, _, _, _, _, _, _, _, _, _ => "bad-op"
  | _ => "bad-op"

end Driver.SuiteKernels
