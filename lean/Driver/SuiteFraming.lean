import OpusModel.Framing
import OpusModel.FramingTrace
import Driver.Util
/- Suite `framing`: opus_packet_parse_impl, TOC helpers, encode_size. -/
namespace Driver.SuiteFraming
open Opus Opus.Framing Driver

def frameOffsets (r : Parsed) : List Nat :=
  let rec go : List Nat → Nat → List Nat
    | [], _ => []
    | s :: ss, off => off :: go ss (off + s)
  go r.sizes r.payloadOffset

def parsedStr (r : Parsed) : String :=
  s!"OK toc={r.toc} count={r.count} sizes={natList r.sizes} foffs={natList (frameOffsets r)} poff={r.payloadOffset} pad={r.padOffset}:{r.padLen} pkoff={r.packetOffset}"

def resNat (r : Res Nat) : String := resStr toString r

def handle : List String → String
  | ["parse", sd, len, hex] =>
    match parseNat sd, parseInt len, parseHex hex with
    -- evaluated through the INSTRUMENTED parser (its first component is proved equal to `parseImplLen`,
    -- OpusProofs.FramingTraceEq.parseImplLenT_fst): the function whose logs the range theorems speak about is the one tied to C
    | some sd, some len, some bs => resStr parsedStr (parseImplLenT (sd != 0) bs len).1
    | _, _, _ => "bad-op"
  | ["helpers", hex, fs] =>
    match parseHex hex, parseNat fs with
    | some bs, some fs =>
      let toc := bs.headD 0
      let tocPart := if bs.isEmpty then "spf=- bw=- ch=- mode=-"
        else s!"spf={samplesPerFrame toc fs} bw={getBandwidth toc} ch={getNbChannels toc} mode={getMode toc}"
      s!"nf={resNat (getNbFrames bs)} ns={resNat (getNbSamples bs fs)} {tocPart} lbrr={resNat (hasLbrr bs)}"
    | _, _ => "bad-op"
  | ["encsize", n] =>
    match parseNat n with
    | some n => toHex (encodeSize n)
    | none => "bad-op"
  | _ => "bad-op"

end Driver.SuiteFraming
