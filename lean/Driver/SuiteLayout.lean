import OpusModel.Layout
import OpusModel.Matrix
import OpusModel.Projection
import OpusModel.MsEncode
import OpusModel.MsDecEq
import Driver.Util
/- Suite `layout` (C10): channel layouts, surround / ambisonics / projection construction,
   multistream packet validation, decode routing, mapping-matrix multiplies. -/
namespace Driver.SuiteLayout
open Opus Opus.Layout Opus.Matrix Opus.Projection Driver

def layoutStr (l : ChannelLayout) : String :=
  s!"{l.nbChannels}/{l.nbStreams}/{l.nbCoupled}/{natList l.mapping}"

def surroundStr (r : Surround × MSEncoder) : String :=
  s!"OK streams={r.1.streams} coupled={r.1.coupled} mapping={natList r.1.mapping} type={r.2.mappingType.code} lfe={r.2.lfeStream} st={layoutStr r.2.layout}"

def srcStr : Src → String
  | .left s => s!"L{s}" | .right s => s!"R{s}" | .mono s => s!"M{s}" | .zero => "Z"

def callStr (c : Call) : String := s!"{c.chan}:{srcStr c.src}:{c.frameSize}"

def retStr (r : Int) : String :=
  if r ≥ 0 then toString r
  else if r = -1 then "BAD_ARG" else if r = -2 then "BUFFER_TOO_SMALL" else if r = -3 then "INTERNAL_ERROR"
  else if r = -4 then "INVALID_PACKET" else if r = -5 then "UNIMPLEMENTED" else if r = -6 then "INVALID_STATE"
  else if r = -7 then "ALLOC_FAIL" else s!"ERR{r}"

def listStr (l : List String) : String := if l.isEmpty then "-" else ",".intercalate l

/-- `r:o,r:o,…` (or `-`). -/
def parseRets (s : String) : Option (List StreamRet) :=
  if s = "-" then some []
  else (s.splitOn ",").mapM fun t =>
    match t.splitOn ":" with
    | [a, b] => match a.toInt?, b.toInt? with
      | some r, some o => some { ret := r, packetOffset := o }
      | _, _ => none
    | _ => none

/-- `mix` / `demix`: the built-in matrix of `order_plus_one = o`; `m<rows>:<cols>:<cells>`: an explicit
    (possibly non-square) column-major matrix with gain 0. -/
def pickMatrix (o : Nat) (which : String) : Option MappingMatrix :=
  if which = "mix" then mixing o else if which = "demix" then demixing o
  else if which.startsWith "m" then
    match ((which.drop 1).toString).splitOn ":" with
    | [r, c, cells] =>
      match r.toNat?, c.toNat?, parseIntList cells with
      | some r, some c, some cs => if cs.length = r * c then some { rows := r, cols := c, gain := 0, data := cs } else none
      | _, _, _ => none
    | _ => none
  else none

def parseBitsList (s : String) : Option (List (Int × Int)) :=
  if s = "-" then some []
  else (s.splitOn ",").mapM fun t => match t.toNat? with
    | some b => f32Decode b
    | none => none

/-- `x..` hex packets separated by `/`. -/
def parsePackets (s : String) : Option (List Bytes) :=
  if s = "-" then some [] else (s.splitOn "/").mapM parseHex

/-- bit patterns → dyadics (finite values only). -/
def parseDyList (s : String) : Option (List Dy) :=
  if s = "-" then some []
  else (s.splitOn ",").mapM fun t => match t.toNat? with
    | some b => f32Decode b
    | none => none

def floatOutStr (r : FloatOut) : String :=
  if r.exact then "OK " ++ listStr (r.vals.map fun v => toString (dyBits v)) else "INEXACT"

/-- The scripted per-stream encoder of the `msenc` suite: stream `s` answers its packet when it fits
    `curr_max`, `OPUS_BUFFER_TOO_SMALL` otherwise (`e` = a scripted error code instead of a packet). -/
def scriptEnc (pks : List Bytes) (s : Nat) (cm : Int) : Res Bytes :=
  match pks[s]? with
  | some pk => if (pk.length : Int) ≤ cm then .ok pk else .err .bufferTooSmall
  | none => .err .badArg

/-! ### ops `msdec-…` (extension C10/MsDec): `opus_multistream_decode_native` / `opus_multistream_decoder_ctl` over a scripted
    elementary machine — the state of a stream is the list of answers it still has to give. -/

/-- Scripted elementary decoder: answers `(ret, packet_offset)` resp. `(ret, value)` from its script; `(0, 0)` once empty. -/
def msdecMachine : Opus.MsDecEq.Machine (List (Int × Int)) Unit :=
  { decode := fun st _ _ _ _ _ => { st := st.tail, ret := (st.headD (0, 0)).1, po := (st.headD (0, 0)).2, pcm := () }
    ctl := fun st _ _ => (st.tail, (st.headD (0, 0)).1, (st.headD (0, 0)).2) }

def parsePairs (s : String) : Option (List (Int × Int)) :=
  if s = "-" then some []
  else (s.splitOn ",").mapM fun t =>
    match t.splitOn ":" with
    | [a, b] => match a.toInt?, b.toInt? with
      | some r, some o => some (r, o)
      | _, _ => none
    | _ => none

def msdecScripts (n : Nat) (rets : List (Int × Int)) : List (List (Int × Int)) :=
  (List.range n).map fun i => match rets[i]? with | some r => [r] | none => []

def b01 (b : Bool) : String := if b then "1" else "0"

def msdecRecStr (r : Opus.MsDecEq.Rec (List (Int × Int)) Unit) : String :=
  s!"{r.s}:{r.off}:{r.len}:{r.args.fsz}:{r.args.fec}:{b01 r.args.sd}:{b01 r.args.sc}"

def msdecSeenStr (x : Opus.MsDecEq.Seen (List (Int × Int)) Unit) : String :=
  match x.inp with
  | .ctl request arg => s!"{x.s}:{request}:{arg}"
  | .decode _ => s!"{x.s}:decode"

def handleMsDec : List String → String
  | ["msdec-decode", channels, streams, coupled, hex, fs, len, data, frameSize, fec, sc, rets] =>
    match parseNat channels, parseNat streams, parseNat coupled, parseHex hex, parseNat fs,
          parseInt len, parseHex data, parseInt frameSize, parseInt fec, parseNat sc, parsePairs rets with
    | some ch, some st, some co, some m, some fs, some len, some bs, some frameSize, some fec, some sc, some rets =>
      if sc > 1 then "bad-op"
      else
        let l : ChannelLayout := { nbChannels := ch, nbStreams := st, nbCoupled := co, mapping := m }
        let o := Opus.MsDecEq.msDecode msdecMachine l fs (msdecScripts st rets) bs len frameSize fec (sc = 1)
        -- hypothesis `PoContract` of the theorems, checked on the recorded answers of the real decoder: a call on a present
        -- packet that returned > 0 must have stored the parser's packet_offset
        let poOk := o.recs.all fun r =>
          match r.args.pkt with
          | some b =>
            if r.out.ret > 0 then
              match Opus.Framing.parseImpl r.args.sd b with
              | .ok p => decide (r.out.po = (p.packetOffset : Int))
              | _ => false
            else true
          | none => true
        if poOk then s!"ret={retStr o.ret} calls={listStr (o.recs.map msdecRecStr)} copies={listStr (o.copies.map callStr)}"
        else s!"PO-CONTRACT-VIOLATED ret={retStr o.ret} calls={listStr (o.recs.map msdecRecStr)}"
    | _, _, _, _, _, _, _, _, _, _, _ => "bad-op"
  | ["msdec-ctl", streams, request, arg, nonNull, rets] =>
    match parseNat streams, parseInt request, parseInt arg, parseNat nonNull, parsePairs rets with
    | some st, some request, some arg, some nn, some rets =>
      if nn > 1 ∨ st = 0 then "bad-op"
      else
        let o := Opus.MsDecEq.msCtl msdecMachine (msdecScripts st rets) request arg (nn = 1)
        s!"ret={retStr o.ret} value={o.value} calls={listStr (o.seen.map msdecSeenStr)}"
    | _, _, _, _, _ => "bad-op"
  | _ => "bad-op"

def handle : List String → String
  | ["msenc", n, fs, frameSize, vbr, bitrate, maxData, pks] =>
    match parseNat n, parseNat fs, parseNat frameSize, parseNat vbr, parseInt maxData, parsePackets pks with
    | some n, some fs, some frameSize, some vbr, some maxData, some pks =>
      let br : Option (Option Int) := if bitrate = "-" then some none else (parseInt bitrate).map some
      match br with
      | none => "bad-op"
      | some br =>
        if frameSize = 0 ∨ n = 0 ∨ pks.length ≠ n then "bad-op"
        else
          let enc := scriptEnc pks
          let fs100 := decide (fs / frameSize = 10)
          let eff := MsEncode.cbrClamp n fs100 (vbr != 0) fs frameSize br maxData
          -- curr_max values the per-stream encoders are called with (streams 0.. until the first failure)
          let cms := (List.range n).filterMap fun s =>
            match MsEncode.loop n fs100 (vbr != 0) eff enc s 0 0 [] with
            | .ok pre => some (MsEncode.currMax n s fs100 eff pre.length)
            | _ => none
          let cmStr := if maxData < MsEncode.smallestPacket n fs100 then "-" else listStr (cms.map toString)
          match MsEncode.encodeNative n fs frameSize (vbr != 0) br maxData enc with
          | .ok out => s!"ret={out.length} cm={cmStr} data={toHex out}"
          | .err e => s!"ret={e.name} cm={cmStr}"
          | .oob => "OOB"
          | .abort => "ABORT"
    | _, _, _, _, _, _ => "bad-op"
  | ["projdec", mode, fsok, channels, streams, coupled, hex, size] =>
    match parseNat fsok, parseInt channels, parseInt streams, parseInt coupled, parseHex hex, parseInt size with
    | some fsok, some ch, some st, some co, some dm, some size =>
      let f := fun (pd : ProjDecoder) =>
        s!"OK st={layoutStr pd.layout} m={pd.matrix.rows}x{pd.matrix.cols}:{pd.matrix.gain} cells={listStr (pd.matrix.data.map toString)}"
      if mode = "create" then resStr f (Projection.decoderCreate (fsok != 0) ch st co dm size)
      else if mode = "init" then resStr f (Projection.decoderInit (fsok != 0) ch st co dm size)
      else "bad-op"
    | _, _, _, _, _, _ => "bad-op"
  | ["mixin24", o, which, inputRows, outputRow, outputRows, frameSize, ints] =>
    match parseNat o, parseNat inputRows, parseNat outputRow, parseNat outputRows, parseNat frameSize, parseIntList ints with
    | some o, some ir, some orow, some ors, some n, some input =>
      match pickMatrix o which with
      | none => "bad-op"
      | some m => resStr floatOutStr (multiplyChannelInInt24 m input ir orow ors n)
    | _, _, _, _, _, _ => "bad-op"
  | ["mixout24", o, which, inputRow, inputRows, outputRows, frameSize, bits, outInit] =>
    match parseNat o, parseNat inputRow, parseNat inputRows, parseNat outputRows, parseNat frameSize,
          parseDyList bits, parseIntList outInit with
    | some o, some irow, some irs, some ors, some n, some input, some out0 =>
      match pickMatrix o which with
      | none => "bad-op"
      | some m => resStr (fun out => "OK " ++ listStr (out.map toString)) (multiplyChannelOutInt24 m input irow irs out0 ors n)
    | _, _, _, _, _, _, _ => "bad-op"
  | ["mixinf", o, which, inputRows, outputRow, outputRows, frameSize, bits] =>
    match parseNat o, parseNat inputRows, parseNat outputRow, parseNat outputRows, parseNat frameSize, parseDyList bits with
    | some o, some ir, some orow, some ors, some n, some input =>
      match pickMatrix o which with
      | none => "bad-op"
      | some m => resStr floatOutStr (multiplyChannelInFloat m input ir orow ors n)
    | _, _, _, _, _, _ => "bad-op"
  | ["mixoutf", o, which, inputRow, inputRows, outputRows, frameSize, bits, outInit] =>
    match parseNat o, parseNat inputRow, parseNat inputRows, parseNat outputRows, parseNat frameSize,
          parseDyList bits, parseDyList outInit with
    | some o, some irow, some irs, some ors, some n, some input, some out0 =>
      match pickMatrix o which with
      | none => "bad-op"
      | some m => resStr floatOutStr (multiplyChannelOutFloat m input irow irs out0 ors n)
    | _, _, _, _, _, _, _ => "bad-op"
  | ["surround", mode, fsok, family, channels] =>
    match parseNat fsok, parseInt family, parseInt channels with
    | some fsok, some family, some channels =>
      if mode = "create" then resStr surroundStr (surroundCreate (fsok != 0) channels family)
      else if mode = "init" then resStr surroundStr (surroundInit (fsok != 0) channels family)
      else "bad-op"
    | _, _, _ => "bad-op"
  | ["proj", mode, fsok, family, channels] =>
    match parseNat fsok, parseInt family, parseInt channels with
    | some fsok, some family, some channels =>
      let r := if mode = "create" then some (projectionCreate builtinDims (fsok != 0) channels family)
               else if mode = "init" then some (projectionInit builtinDims (fsok != 0) channels family)
               else none
      match r with
      | none => "bad-op"
      | some r =>
        resStr (fun (x : Nat × Nat × Nat × MSEncoder) =>
          let (streams, coupled, o, e) := x
          match mixing o, demixing o with
          | some m, some d =>
            let dm := exportDemixing d (streams + coupled) e.layout.nbChannels
            s!"OK streams={streams} coupled={coupled} st={layoutStr e.layout} mix={m.rows}x{m.cols}:{m.gain} demix={d.rows}x{d.cols}:{d.gain} dm={resStr toHex dm}"
          | _, _ => "MODEL-NO-MATRIX") r
    | _, _, _ => "bad-op"
  | ["decinit", mode, fsok, channels, streams, coupled, hex] =>
    match parseNat fsok, parseInt channels, parseInt streams, parseInt coupled, parseHex hex with
    | some fsok, some ch, some st, some co, some m =>
      if mode = "create" then resStr (fun l => s!"OK st={layoutStr l}") (decoderCreate (fsok != 0) ch st co m)
      else if mode = "init" then resStr (fun l => s!"OK st={layoutStr l}") (decoderInit (fsok != 0) ch st co m)
      else "bad-op"
    | _, _, _, _, _ => "bad-op"
  | ["encinit", mode, fsok, channels, streams, coupled, hex] =>
    match parseNat fsok, parseInt channels, parseInt streams, parseInt coupled, parseHex hex with
    | some fsok, some ch, some st, some co, some m =>
      let f := fun (e : MSEncoder) => s!"OK st={layoutStr e.layout} type={e.mappingType.code} lfe={e.lfeStream}"
      if mode = "create" then resStr f (encoderCreate (fsok != 0) ch st co m)
      else if mode = "init" then resStr f (encoderInit (fsok != 0) ch st co m)
      else "bad-op"
    | _, _, _, _, _ => "bad-op"
  | ["getchan", kind, channels, coupled, hex, stream, prev] =>
    match parseNat channels, parseNat coupled, parseHex hex, parseNat stream, parseInt prev with
    | some ch, some co, some m, some s, some prev =>
      let l : ChannelLayout := { nbChannels := ch, nbStreams := 0, nbCoupled := co, mapping := m }
      if kind = "l" then s!"c={getLeftChannel l s prev}"
      else if kind = "r" then s!"c={getRightChannel l s prev}"
      else if kind = "m" then s!"c={getMonoChannel l s prev}"
      else "bad-op"
    | _, _, _, _, _ => "bad-op"
  | ["vlayout", channels, streams, coupled, hex] =>
    match parseNat channels, parseNat streams, parseNat coupled, parseHex hex with
    | some ch, some st, some co, some m =>
      let l : ChannelLayout := { nbChannels := ch, nbStreams := st, nbCoupled := co, mapping := m }
      s!"layout={if validateLayout l then 1 else 0} enc={if validateEncoderLayout l then 1 else 0}"
    | _, _, _, _ => "bad-op"
  | ["msvalidate", nbStreams, fs, hex] =>
    match parseNat nbStreams, parseNat fs, parseHex hex with
    | some n, some fs, some bs => resStr (fun k => s!"n={k}") (msPacketValidate bs n fs)
    | _, _, _ => "bad-op"
  | ["route", channels, streams, coupled, hex, fs, frameSize, len, data, rets] =>
    match parseNat channels, parseNat streams, parseNat coupled, parseHex hex, parseNat fs,
          parseInt frameSize, parseInt len, parseHex data, parseRets rets with
    | some ch, some st, some co, some m, some fs, some frameSize, some len, some bs, some rets =>
      let l : ChannelLayout := { nbChannels := ch, nbStreams := st, nbCoupled := co, mapping := m }
      resStr (fun (r : Routed) => s!"ret={retStr r.ret} calls={listStr (r.calls.map callStr)}")
        (decodeNative l fs frameSize len (msPacketValidate bs st fs) rets)
    | _, _, _, _, _, _, _, _, _ => "bad-op"
  | ["isqrt", n] =>
    match parseNat n with
    | some n => if n = 0 then "bad-op" else s!"r={isqrt32 n}"
    | none => "bad-op"
  | ["ambi", channels] =>
    match parseInt channels with
    | some ch => match validateAmbisonics ch with
      | some (s, c) => s!"OK {s} {c}"
      | none => "REJECT"
    | none => "bad-op"
  | ["mixin", o, which, inputRows, outputRow, outputRows, frameSize, ints] =>
    match parseNat o, parseNat inputRows, parseNat outputRow, parseNat outputRows, parseNat frameSize, parseIntList ints with
    | some o, some ir, some orow, some ors, some n, some input =>
      match pickMatrix o which with
      | none => "bad-op"
      | some m =>
        resStr (fun (r : InShort) =>
          if r.exact then "OK " ++ listStr (r.sums.map fun s => toString (f32Bits s (-30))) else "INEXACT")
          (multiplyChannelInShort m input ir orow ors n)
    | _, _, _, _, _, _ => "bad-op"
  | ["mixout", o, which, inputRow, inputRows, outputRows, frameSize, bits, outInit] =>
    match parseNat o, parseNat inputRow, parseNat inputRows, parseNat outputRows, parseNat frameSize,
          parseBitsList bits, parseIntList outInit with
    | some o, some irow, some irs, some ors, some n, some input, some out0 =>
      match pickMatrix o which with
      | none => "bad-op"
      | some m => resStr (fun out => "OK " ++ listStr (out.map toString)) (multiplyChannelOutShort m input irow irs out0 ors n)
    | _, _, _, _, _, _, _ => "bad-op"
  | ["product", o, ch, j] =>
    -- column j of P = D·M (restricted to ch channels), as integers
    match parseNat o, parseNat ch, parseNat j with
    | some o, some ch, some j =>
      match mixing o, demixing o with
      | some m, some d => match (productCols d m ch ch)[j]? with
        | some col => "OK " ++ intList col
        | none => "bad-op"
      | _, _ => "bad-op"
    | _, _, _ => "bad-op"
  | op :: args => if op.startsWith "msdec-" then handleMsDec (op :: args) else "bad-op"
  | _ => "bad-op"

end Driver.SuiteLayout
