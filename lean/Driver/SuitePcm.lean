import OpusModel.Pcm
import Driver.Util
/- Suite `pcm`: the sample-format conversion macros of the float build (C13).  Floats are bit patterns (decimal).

   in16 <x>        → `<class> res=<INT16TORES bits> sig=<INT16TOSIG bits>`
   in24 <a>        → `<class> res=<INT24TORES bits> sig=<INT24TOSIG bits>`
   inf <bits>      → `<class> res=<FLOAT2RES bits> sig=<FLOAT2SIG bits>`
   out <bits>      → `<class> i16=<RES2INT16> i24=<RES2INT24> f=<RES2FLOAT bits>`
   f2i16 <hex>     celt_float2int16 on an array of little-endian floats → int16 values `a,b,c`
   enc16|enc24|encf <st.lsb_depth> <channels> <frame_size_select result> <samples LE>   the argument tuple handed to opus_encode_native
   ms16|ms24|msf <lsb_depth> <channels> <streams> <coupled> <mapping a,b,…> <samples LE>   per-stream argument tuples of a multistream encode
   dec16|dec24|decf <frame_size> <nb_samples> <packet given 0/1> <floats the core writes>  soft_clip flag, frame size handed down, converted output
   proj <m0,m1,…> <hex>   one output sample of mapping_matrix_multiply_channel_out_short: Q15 cells, stream floats → `<plain|saturated> i16=<v>` -/
namespace Driver.SuitePcm
open Opus Opus.Pcm Driver

def signCls (k : Int) : String := if k < 0 then "neg" else if k = 0 then "zero" else "pos"

def outCls (b : Nat) (i16 i24 : Int) : String :=
  if isNaN b then "nan"
  else if (mag b).isNone then "inf"
  else if i24 = -(2 ^ 31) then "indefinite24"
  else if i16 = -32768 ∨ i16 = 32767 then "sat16"
  else if i16 = 0 then "tiny" else "mid"

def bytesToBits : Bytes → Option (List Nat)
  | [] => some []
  | a :: b :: c :: d :: rest => (bytesToBits rest).map ((a + 256 * b + 65536 * c + 16777216 * d) :: ·)
  | _ => none

def bytesToS16 : Bytes → Option (List Int)
  | [] => some []
  | a :: b :: rest =>
    let u := a + 256 * b
    (bytesToS16 rest).map ((if u ≥ 32768 then (u : Int) - 65536 else (u : Int)) :: ·)
  | _ => none

def bytesToS32 : Bytes → Option (List Int)
  | [] => some []
  | a :: b :: c :: d :: rest =>
    let u := a + 256 * b + 65536 * c + 16777216 * d
    (bytesToS32 rest).map ((if u ≥ 2147483648 then (u : Int) - 4294967296 else (u : Int)) :: ·)
  | _ => none

def bitsToBytes (xs : List Nat) : Bytes :=
  xs.flatMap fun u => [u % 256, u / 256 % 256, u / 65536 % 256, u / 16777216 % 256]

def showArgs (dm : String) : Option CoreArgs → String
  | none => "BAD_ARG"
  | some a => s!"ok fs={a.frameSize} as={a.analysisSize} depth={a.lsbDepth} c1={a.c1} c2={a.c2} ach={a.analysisChannels} fapi={a.floatApi} dm={dm} res={toHex (bitsToBytes a.res)} sig={toHex (bitsToBytes a.sig)}"

/-- the entry point's argument tuple: `core` = identity on the tuple -/
def encArgs (fmt : Nat) (stDepth channels : Nat) (fss : Int) (bs : Bytes) : Option String :=
  if channels = 0 then none else
  match fmt with
  | 16 => (bytesToS16 bs).map fun pcm =>
      showArgs "int" (entryArgs (fun fs => encode16 (fun (_ : Unit) a => a) () stDepth channels fs pcm) fss)
  | 24 => (bytesToS32 bs).map fun pcm =>
      showArgs "int24" (entryArgs (fun fs => encode24 (fun (_ : Unit) a => a) () stDepth channels fs pcm) fss)
  | _ => (bytesToBits bs).map fun pcm =>
      showArgs "float" (entryArgs (fun fs => encodeFloat (fun (_ : Unit) a => a) () stDepth channels fs pcm) fss)

def decOut (fmt : Nat) (fs nb : Int) (uses : Nat) (bs : Bytes) : Option String :=
  (bytesToBits bs).map fun out =>
    let (clip, fsDown, o) := decodeEntry fmt fs nb (uses == 1) out
    s!"clip={clip} fs={fsDown} out={intList o}"

def showMs (dm : String) : Option (List CoreArgs) → String
  | none => "bad-layout"
  | some l => s!"ok n={l.length} " ++ " | ".intercalate (l.map fun a =>
      s!"c1={a.c1} c2={a.c2} ach={a.analysisChannels} depth={a.lsbDepth} fapi={a.floatApi} dm={dm} fs={a.frameSize} as={a.analysisSize} res={toHex (bitsToBytes a.res)} sig={toHex (bitsToBytes a.sig)}")

def msOut (fmt stDepth C streams coupled : Nat) (mapping : List Nat) (bs : Bytes) : Option String :=
  if C = 0 then none else
  match fmt with
  | 16 => (bytesToS16 bs).map fun pcm => showMs "int" (msArgs int16ToRes int16ToSig 0 16 0 stDepth C streams coupled mapping pcm)
  | 24 => (bytesToS32 bs).map fun pcm => showMs "int24" (msArgs int24ToRes int24ToSig 0 24 0 stDepth C streams coupled mapping pcm)
  | _ => (bytesToBits bs).map fun pcm => showMs "float" (msArgs float2Res float2Sig 0 24 1 stDepth C streams coupled mapping pcm)

def msHandle (fmt : Nat) (d c st cp mp hex : String) : String :=
  match parseNat d, parseNat c, parseNat st, parseNat cp, parseNatList mp, parseHex hex with
  | some d, some c, some st, some cp, some mp, some bs => (msOut fmt d c st cp mp bs).getD "bad-op"
  | _, _, _, _, _, _ => "bad-op"

def handle : List String → String
  | ["ms16", d, c, st, cp, mp, hex] => msHandle 16 d c st cp mp hex
  | ["ms24", d, c, st, cp, mp, hex] => msHandle 24 d c st cp mp hex
  | ["msf", d, c, st, cp, mp, hex] => msHandle 32 d c st cp mp hex
  | ["enc16", d, c, fss, hex] =>
    match parseNat d, parseNat c, parseInt fss, parseHex hex with
    | some d, some c, some fss, some bs => (encArgs 16 d c fss bs).getD "bad-op"
    | _, _, _, _ => "bad-op"
  | ["enc24", d, c, fss, hex] =>
    match parseNat d, parseNat c, parseInt fss, parseHex hex with
    | some d, some c, some fss, some bs => (encArgs 24 d c fss bs).getD "bad-op"
    | _, _, _, _ => "bad-op"
  | ["encf", d, c, fss, hex] =>
    match parseNat d, parseNat c, parseInt fss, parseHex hex with
    | some d, some c, some fss, some bs => (encArgs 32 d c fss bs).getD "bad-op"
    | _, _, _, _ => "bad-op"
  | ["dec16", fs, nb, uses, hex] =>
    match parseInt fs, parseInt nb, parseNat uses, parseHex hex with
    | some fs, some nb, some uses, some bs => (decOut 16 fs nb uses bs).getD "bad-op"
    | _, _, _, _ => "bad-op"
  | ["dec24", fs, nb, uses, hex] =>
    match parseInt fs, parseInt nb, parseNat uses, parseHex hex with
    | some fs, some nb, some uses, some bs => (decOut 24 fs nb uses bs).getD "bad-op"
    | _, _, _, _ => "bad-op"
  | ["decf", fs, nb, uses, hex] =>
    match parseInt fs, parseInt nb, parseNat uses, parseHex hex with
    | some fs, some nb, some uses, some bs => (decOut 32 fs nb uses bs).getD "bad-op"
    | _, _, _, _ => "bad-op"
  | ["in16", x] =>
    match parseInt x with
    | some x => s!"{signCls x} res={int16ToRes x} sig={int16ToSig x}"
    | none => "bad-op"
  | ["in24", a] =>
    match parseInt a with
    | some a => s!"{signCls a} res={int24ToRes a} sig={int24ToSig a}"
    | none => "bad-op"
  | ["inf", b] =>
    match parseNat b with
    | some b =>
      if b < 2 ^ 32 then
        let cls := if isNaN b then "nan" else if (mag b).isNone then "inf" else "finite"
        s!"{cls} res={float2Res b} sig={float2Sig b}"
      else "bad-op"
    | none => "bad-op"
  | ["out", b] =>
    match parseNat b with
    | some b =>
      if b < 2 ^ 32 then
        let i16 := float2Int16 b
        let i24 := res2Int24 b
        -- a NaN sample is outside the property: its 16-bit conversion (−32768 in the model, `out16_spec`) is not
        -- bound by the tie, so that a reordering of the two clamps (which only changes the NaN case) is not an alarm
        if isNaN b then s!"nan i16=any i24={i24} f={res2Float b}"
        else s!"{outCls b i16 i24} i16={i16} i24={i24} f={res2Float b}"
      else "bad-op"
    | none => "bad-op"
  | ["f2i16", hex] =>
    match parseHex hex with
    | some bs =>
      match bytesToBits bs with
      | some xs =>
        let strs := (List.zip xs (celtFloat2Int16 xs)).map (fun p => if isNaN p.1 then "nan" else toString p.2)
        s!"n={xs.length} {",".intercalate strs}"
      | none => "bad-op"
    | none => "bad-op"
  | ["projf", cells, hex] =>
    match parseIntList cells, parseHex hex with
    | some ms, some bs =>
      match bytesToBits bs with
      | some xs =>
        if ms.length = xs.length ∧ ms.all (fun m => decide (-32768 ≤ m ∧ m ≤ 32767)) then
          let o := projOutF ms xs
          s!"{if o % 2147483648 = 0 then "zero" else if (mag o).isNone then "nonfinite" else "finite"} f={o}"
        else "bad-op"
      | none => "bad-op"
    | _, _ => "bad-op"
  | ["proj", cells, hex] =>
    match parseIntList cells, parseHex hex with
    | some ms, some bs =>
      match bytesToBits bs with
      | some xs =>
        if ms.length = xs.length ∧ ms.all (fun m => decide (-32768 ≤ m ∧ m ≤ 32767)) then
          let o := projOut16 ms xs
          let exact := (List.zip ms xs).foldl (fun acc p => acc + (p.1 * float2Int16 p.2 + 16384) / 32768) (0 : Int)
          s!"{if o = exact then "plain" else "saturated"} i16={o}"
        else "bad-op"
      | none => "bad-op"
    | _, _ => "bad-op"
  | _ => "bad-op"

end Driver.SuitePcm
