import Driver.Util
/- Suite stub — replaced by the owner of this suite. -/
namespace Driver.SuitePcm
def handle (_ : List String) : String := "bad-op"
end Driver.SuitePcm
