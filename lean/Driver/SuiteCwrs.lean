import Driver.Util
/- Suite stub — replaced by the owner of this suite. -/
namespace Driver.SuiteCwrs
def handle (_ : List String) : String := "bad-op"
end Driver.SuiteCwrs
