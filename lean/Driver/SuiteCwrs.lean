import OpusModel.Cwrs
import OpusModel.CeltAlloc
import OpusModel.CeltSymsEnc
import OpusModel.CeltBandsEnc
import Driver.Util
/- Suite `cwrs`: PVQ codeword enumeration (celt/cwrs.c) on the regenerated table, and the
   bits<->pulses cache look-ups of celt/rate.h.

   ops   V n k                → CELT_PVQ_V(n,k)
         enc k y1,y2,…        → encode_pulses: `i=<fl> ft=<ft>` handed to ec_enc_uint
         dec n k i            → decode_pulses with ec_dec_uint answering i: `y=<csv> yy=<Σy²> ft=<ft>`
         range n k i0 cnt     → hash over i0 ≤ i < i0+cnt of (cwrsi(n,k,i), yy, icwrs(cwrsi(n,k,i)))
         b2p band LM+1 bits   → bits2pulses        p2b band LM+1 pulses → pulses2bits
         (LM ranges over -1..maxLM, so the protocol carries LM+1)
         alloc enc|dec start end C LM total trim intensity dual prev sigbw offsets oracle
                              → clt_compute_allocation with cap = init_caps(LM, C): codedBands, balance, intensity,
                                dual_stereo, pulses/ebits/fine_priority for start..end-1 and the range-coder calls                                  -/
namespace Driver.SuiteCwrs
open Opus Opus.Cwrs Opus.Rate Driver

def mix (h : UInt64) (v : Int) : UInt64 :=
  let u : UInt64 := if v ≥ 0 then v.toNat.toUInt64 else 0 - (-v).toNat.toUInt64
  (h ^^^ u) * 0x100000001b3

def hex64 (h : UInt64) : String :=
  let ds := Nat.toDigits 16 h.toNat
  String.ofList (List.replicate (16 - ds.length) '0' ++ ds)

def rangeHash (n k : Nat) : Nat → Nat → UInt64 → UInt64
  | 0, _, h => h
  | cnt + 1, i, h =>
    let h := match cwrsi Utab n k i with
      | .ok (y, yy) =>
        let h := y.foldl mix h
        let h := mix h yy
        match icwrs Utab y with
        | .ok j => mix h j
        | _ => mix h (-2)
      | _ => mix h (-1)
    rangeHash n k cnt (i + 1) h

def cacheRowFn (band lm1 : Nat) : Option (Nat → Nat) :=
  match Gen.CeltTables.cacheIndex[lm1 * Gen.CeltTables.nbEBands + band]? with
  | some ci => if ci < 0 then none else some (fun j => Gen.CeltTables.cacheBits.getD (ci.toNat + j) 0)
  | none => none

def rcOpStr : Opus.RangeCoder.Op → String
  | .bitLogp v logp => s!"b{v}/{logp}"
  | .uint v ft => s!"u{v}/{ft}"
  | .bits v n => s!"r{v}/{n}"
  | .icdf sym tbl ftb => s!"i{sym}/{ftb}/{".".intercalate (tbl.map toString)}"
  | .encodeBin fl fh b => s!"e{fl}/{fh}/{b}"
  | .shrink n => s!"s{n}"
  | _ => "?"

def ctxOf (cx : List Int) : Opus.RangeCoder.Ctx :=
  let g (i : Nat) : Nat := (cx.getD i 0).toNat
  { buf := List.replicate (g 0) 0, storage := g 0, endOffs := g 1, endWindow := g 2, nendBits := g 3, nbitsTotal := g 4,
    offs := g 5, rng := g 6, val := g 7, ext := g 8, rem := cx.getD 9 0, error := cx.getD 10 0 }

def opsStr (ops : List Opus.RangeCoder.Op) : String := if ops.isEmpty then "-" else ",".intercalate (ops.map rcOpStr)

def handle : List String → String
  | ["V", n, k] =>
    match parseNat n, parseNat k with
    | some n, some k => resStr (fun v => s!"v={v}") (pvqV Utab n k)
    | _, _ => "bad-op"
  | ["enc", k, ys] =>
    match parseNat k, parseIntList ys with
    | some k, some y => resStr (fun r => s!"i={r.1} ft={r.2}") (encodePulses Utab y k)
    | _, _ => "bad-op"
  | ["dec", n, k, i] =>
    match parseNat n, parseNat k, parseNat i with
    | some n, some k, some i =>
      -- decode_pulses evaluates CELT_PVQ_V before cwrsi's assertions
      match decodePulsesFt Utab n k with
      | .ok ft => resStr (fun r => s!"y={intList r.1} yy={r.2} ft={ft}") (cwrsi Utab n k i)
      | r => resStr toString r
    | _, _, _ => "bad-op"
  | ["range", n, k, i0, cnt] =>
    match parseNat n, parseNat k, parseNat i0, parseNat cnt with
    | some n, some k, some i0, some cnt => s!"h={hex64 (rangeHash n k cnt i0 0xcbf29ce484222325)}"
    | _, _, _, _ => "bad-op"
  | ["b2p", band, lm, bits] =>
    match parseNat band, parseNat lm, parseInt bits with
    | some band, some lm, some bits =>
      match cacheRowFn band lm with
      | some row => s!"q={bits2pulsesRow row bits}"
      | none => "OOB"
    | _, _, _ => "bad-op"
  | ["p2b", band, lm, pulses] =>
    match parseNat band, parseNat lm, parseNat pulses with
    | some band, some lm1, some p =>
      resStr (fun b => s!"b={b}") (pulses2bits Gen.CeltTables.cacheIndex Gen.CeltTables.cacheBits Gen.CeltTables.nbEBands band lm1 p)
    | _, _, _ => "bad-op"
  | ["alloc", side, st, en, c, lm, total, trim, inten, dual, prev, sigbw, offs, orc] =>
    match parseNat st, parseNat en, parseNat c, parseNat lm, parseInt total, parseInt trim, parseInt inten, parseInt dual,
          parseInt prev, parseInt sigbw, parseIntList offs, parseNatList orc with
    | some st, some en, some c, some lm, some total, some trim, some inten, some dual, some prev, some sigbw, some offs, some orc =>
      if side ≠ "enc" ∧ side ≠ "dec" then "bad-op" else
      let p : Opus.CeltAlloc.Inp := Opus.CeltAlloc.Inp.mk st en offs (Opus.CeltAlloc.initCaps lm c) trim inten dual total c lm prev sigbw
      let opStr : Opus.CeltAlloc.Op → String
        | .bit v => s!"b{v}"
        | .uint v ft => s!"u{v}/{ft}"
      resStr (fun (o : Opus.CeltAlloc.Out) =>
        let ops := if o.ops.isEmpty then "-" else ",".intercalate (o.ops.map opStr)
        s!"cb={o.codedBands} bal={o.balance} int={o.intensity} dual={o.dualStereo} p={intList (o.bands.map (·.pulses))} e={intList (o.bands.map (·.ebits))} f={intList (o.bands.map (·.prio))} ops={ops}")
        (Opus.CeltAlloc.computeAllocation p { encode := side == "enc", oracle := orc })
    | _, _, _, _, _, _, _, _, _, _, _, _ => "bad-op"
  | ["hdrenc", st, en, c, lm, vbr, size, ctx, pre, ds] =>
    -- the CELT frame header, encoder side (OpusModel/CeltSymsEnc.lean): calls made and the coder state afterwards
    match parseNat st, parseNat en, parseNat c, parseNat lm, parseNat vbr, parseNat size, parseIntList ctx,
          parseNatList pre, parseIntList ds with
    | some st, some en, some c, some lm, some vbr, some size, some cx, some pre, some ds =>
      if cx.length ≠ 11 then "bad-op" else
      let g (i : Nat) : Nat := (cx.getD i 0).toNat
      let e0 : Opus.RangeCoder.Ctx :=
        { buf := List.replicate (g 0) 0, storage := g 0, endOffs := g 1, endWindow := g 2, nendBits := g 3, nbitsTotal := g 4,
          offs := g 5, rng := g 6, val := g 7, ext := g 8, rem := cx.getD 9 0, error := cx.getD 10 0 }
      let e1 := pre.foldl (fun e n => Opus.RangeCoder.encShrink e n) e0
      let cfg : Opus.CeltSymsEnc.EncCfg := { start := st, end_ := en, C := c, LM := lm, vbr := vbr ≠ 0, lfe := false, size := size }
      let opStr : Opus.RangeCoder.Op → String
        | .bitLogp v logp => s!"b{v}/{logp}"
        | .uint v ft => s!"u{v}/{ft}"
        | .bits v n => s!"r{v}/{n}"
        | .icdf sym tbl ftb => s!"i{sym}/{ftb}/{".".intercalate (tbl.map toString)}"
        | .encodeBin fl fh b => s!"e{fl}/{fh}/{b}"
        | .shrink n => s!"s{n}"
        | _ => "?"
      resStr (fun (h : Opus.CeltSymsEnc.EncHdr) =>
        let ops := if h.ops.isEmpty then "-" else ",".intercalate (h.ops.map opStr)
        s!"ops={ops} fin={h.enc.rng},{h.enc.val},{h.enc.nbitsTotal},{h.enc.offs},{h.enc.storage} st={if e1.storage = size then 1 else 0}")
        (Opus.CeltSymsEnc.encHeader cfg { e := e1, ds := ds })
    | _, _, _, _, _, _, _, _, _ => "bad-op"
  | ["frameenc", st, en, c, lm, vbr, size, ctx, pre, ds] =>
    -- the whole CELT frame, encoder side (OpusModel/CeltSymsEnc.lean + CeltBandsEnc.lean): all calls, state before ec_enc_done
    match parseNat st, parseNat en, parseNat c, parseNat lm, parseNat vbr, parseNat size, parseIntList ctx,
          parseNatList pre, parseIntList ds with
    | some st, some en, some c, some lm, some vbr, some size, some cx, some pre, some ds =>
      if cx.length ≠ 11 then "bad-op" else
      let g (i : Nat) : Nat := (cx.getD i 0).toNat
      let e0 : Opus.RangeCoder.Ctx :=
        { buf := List.replicate (g 0) 0, storage := g 0, endOffs := g 1, endWindow := g 2, nendBits := g 3, nbitsTotal := g 4,
          offs := g 5, rng := g 6, val := g 7, ext := g 8, rem := cx.getD 9 0, error := cx.getD 10 0 }
      let e1 := pre.foldl (fun e n => Opus.RangeCoder.encShrink e n) e0
      let cfg : Opus.CeltSymsEnc.EncCfg := { start := st, end_ := en, C := c, LM := lm, vbr := vbr ≠ 0, lfe := false, size := size }
      let opStr : Opus.RangeCoder.Op → String
        | .bitLogp v logp => s!"b{v}/{logp}"
        | .uint v ft => s!"u{v}/{ft}"
        | .bits v n => s!"r{v}/{n}"
        | .icdf sym tbl ftb => s!"i{sym}/{ftb}/{".".intercalate (tbl.map toString)}"
        | .encodeBin fl fh b => s!"e{fl}/{fh}/{b}"
        | .shrink n => s!"s{n}"
        | .encode fl fh ft => s!"c{fl}/{fh}/{ft}"
        | _ => "?"
      resStr (fun (f : Opus.CeltBandsEnc.EncFrame) =>
        let ops := if f.ops.isEmpty then "-" else ",".intercalate (f.ops.map opStr)
        s!"ops={ops} fin={f.fin.rng},{f.fin.val},{f.fin.nbitsTotal},{f.fin.offs},{f.fin.storage},{f.fin.endOffs},{f.fin.endWindow},{f.fin.nendBits}")
        (Opus.CeltBandsEnc.encFrame cfg { e := e1, ds := ds })
    | _, _, _, _, _, _, _, _, _ => "bad-op"
  | ["coarse", st, en, c, lm, lfe, size, ctx, ds] =>
    -- quant_coarse_energy alone: the intra flag and the qi of the chosen pass, from pre-clamp decisions
    match parseNat st, parseNat en, parseNat c, parseNat lm, parseNat lfe, parseNat size, parseIntList ctx, parseIntList ds with
    | some st, some en, some c, some lm, some lfe, some size, some cx, some ds =>
      if cx.length ≠ 11 then "bad-op" else
      let cfg : Opus.CeltSymsEnc.EncCfg := { start := st, end_ := en, C := c, LM := lm, vbr := false, lfe := lfe ≠ 0, size := size }
      resStr (fun (r : Nat × List Int × List Int × Opus.CeltSymsEnc.St) =>
        s!"ops={opsStr r.2.2.2.ops} fin={r.2.2.2.e.rng},{r.2.2.2.e.val},{r.2.2.2.e.nbitsTotal},{r.2.2.2.e.offs},{r.2.2.2.e.storage} q={intList (List.zipWith (fun q qd => if q < -1 ∧ qd = -1 then qd else q) r.2.1 r.2.2.1)}")
        (Opus.CeltSymsEnc.encCoarse cfg ((size * 8 : Nat) : Int) { e := ctxOf cx, ds := ds })
    | _, _, _, _, _, _, _, _ => "bad-op"
  | _ => "bad-op"

end Driver.SuiteCwrs
