import OpusModel.Delay
import OpusModel.Mdct
import OpusModel.DelayChannels
/-
  Driver.DelayMain — stand-alone checker for the C04 ties (run with `lake env lean --run Driver/DelayMain.lean`,
  no registration in Driver/Main.lean needed).  Reads the `I …` / `O …` stream of harness/c04_roundtrip.c on stdin
  (same conventions as `opusmodel check`) and prints MISMATCH blocks, `# ` notes, DIST lines and a SUMMARY line.

    I delay lookahead <kind> <Fs> <app> <ch>           O <OPUS_GET_LOOKAHEAD | ERR name>       exact
    I delay setapp single <Fs> <app> <ch> <newapp>     O <look-ahead after OPUS_SET_APPLICATION> exact
    I delay encroute <ch> <streams> <coupled> <map>    O s<stride>o<offset>c<channel> … (copy_channel_in calls) exact
    I mdct fwd <shift> <in>                            O <clt_mdct_forward_c output>            relative 1e-4
    I mdct bwd <shift> <coef> <outbuf>                 O <clt_mdct_backward_c output buffer>    relative 1e-4
    I mdct fft <shift> <in re,im,…>                    O <opus_fft_c output re,im,…>            relative 1e-4
  For `mdct fwd` / `mdct bwd` the model's fold → DFT → rotation result is additionally compared with the textbook MDCT /
  IMDCT (`celtForwardDirect`, `celtBackwardDirect`: the Float renderings of the theorems `mdct_forward_code` /
  `mdct_backward_code`) at 1e-9 when the argument `direct` is given (all shifts) or for shifts ≥ 1 by default.
  `mdct fft`: the butterflies of celt/kiss_fft.c against the DFT the proofs take the FFT to be.
-/
open Opus Opus.Delay Opus.Mdct

def hexVal (c : Char) : Nat :=
  if '0' ≤ c ∧ c ≤ '9' then c.toNat - '0'.toNat
  else if 'a' ≤ c ∧ c ≤ 'f' then c.toNat - 'a'.toNat + 10
  else if 'A' ≤ c ∧ c ≤ 'F' then c.toNat - 'A'.toNat + 10
  else 0

/-- `x` followed by 8 hex digits per IEEE single. -/
def parseFloats (s : String) : Option Vec :=
  match s.toList with
  | 'x' :: cs =>
    if cs.length % 8 != 0 then none else
    let rec go (cs : List Char) (fuel : Nat) (acc : Vec) : Vec :=
      match fuel with
      | 0 => acc
      | fuel + 1 =>
        match cs with
        | a :: b :: c :: d :: e :: f :: g :: h :: rest =>
          let u := [a, b, c, d, e, f, g, h].foldl (fun v ch => v * 16 + hexVal ch) 0
          go rest fuel (acc.push (Float32.ofBits u.toUInt32).toFloat)
        | _ => acc
    some (go cs (cs.length / 8) #[])
  | _ => none

/-- `x` followed by two hex digits per byte. -/
def parseBytes (s : String) : Option (List Nat) :=
  match s.toList with
  | 'x' :: cs =>
    if cs.length % 2 != 0 then none else
    let rec go : List Char → List Nat
      | a :: b :: rest => (hexVal a * 16 + hexVal b) :: go rest
      | _ => []
    some (go cs)
  | _ => none

def maxAbs (a : Vec) : Float := a.foldl (fun m x => if x.abs > m || x != x then x.abs else m) 0.0

/-- max |a−b| (NaN-propagating) relative to max |b|. -/
def relErr (a b : Vec) : Float := Id.run do
  if a.size != b.size then return nan
  let mut m := 0.0
  for i in [0:a.size] do
    let d := (at' a i - at' b i).abs
    if d > m || d != d then m := d
  let s := maxAbs b
  return m / (if s > 1e-30 then s else 1e-30)

/-- Scientific notation with 3 significant decimals (Float.toString prints fixed 6 decimals). -/
def sci (x : Float) : String :=
  if x != x then "NaN" else if x == 0.0 then "0" else
  let e := (Float.log10 x.abs).floor
  let m := x / Float.pow 10.0 e
  let mi := (m * 1000.0).round.toInt64.toInt
  let sgn := if mi < 0 then "-" else ""
  let a := mi.natAbs
  let frac := toString (a % 1000)
  let frac := String.ofList (List.replicate (3 - frac.length) '0') ++ frac
  s!"{sgn}{a / 1000}.{frac}e{e.toInt64.toInt}"

def resNatStr : Res Nat → String
  | .ok v => toString v
  | .err e => "ERR " ++ e.name
  | .oob => "OOB"
  | .abort => "ABORT"

/-- Exact-answer ops: `some answer`; tolerance ops are handled in `judge`. -/
def delayAnswer : List String → Option String
  | ["delay", "lookahead", kind, fs, app, ch] =>
    match fs.toNat?, app.toInt?, ch.toNat? with
    | some fs, some app, some ch =>
      if kind == "single" then some (resNatStr ((init fs ch app).bind fun st => .ok (getLookahead st)))
      else if kind.startsWith "ms" || kind == "proj" then
        -- multistream / projection encoders forward OPUS_GET_LOOKAHEAD to their first stream's encoder
        -- (src/opus_multistream_encoder.c:1166-1178), which was created with the same Fs and application
        some (resNatStr ((init fs 1 app).bind fun st => .ok (getLookahead st)))
      else none
    | _, _, _ => none
  | ["delay", "setapp", "single", fs, app, ch, napp] =>
    match fs.toNat?, app.toInt?, ch.toNat?, napp.toInt? with
    | some fs, some app, some ch, some napp =>
      some (resNatStr (((init fs ch app).bind fun st => setApplication st napp).bind fun st => .ok (getLookahead st)))
    | _, _, _, _ => none
  | ["delay", "encroute", ch, st, cp, mp] =>
    match ch.toNat?, st.toNat?, cp.toNat?, parseBytes mp with
    | some ch, some st, some cp, some m =>
      if m.length != ch then none else
      let l : Opus.Layout.ChannelLayout := { nbChannels := ch, nbStreams := st, nbCoupled := cp, mapping := m }
      some (" ".intercalate ((Opus.DelayChannels.encoderCalls l).map fun k => s!"s{k.stride}o{k.offset}c{k.chan}"))
    | _, _, _, _ => none
  | _ => none

structure Stats where
  cases : Nat := 0
  mismatches : Nat := 0
  worstFwd : Float := 0.0
  worstBwd : Float := 0.0
  worstDirect : Float := 0.0
  worstFft : Float := 0.0
  nDirect : Nat := 0
  dist : List (String × Nat) := []

def bump (d : List (String × Nat)) (k : String) : List (String × Nat) :=
  match d with
  | [] => [(k, 1)]
  | (k', n) :: rest => if k' = k then (k', n + 1) :: rest else (k', n) :: bump rest k

def tol : Float := 1e-4
def tolDirect : Float := 1e-9

/-- Returns (agrees, model summary, updated stats). -/
def judge (st : Stats) (direct : Bool) (inp : List String) (impl : String) : Bool × String × Stats :=
  match inp with
  | ["mdct", "fwd", sh, xin] =>
    match sh.toNat?, parseFloats xin, parseFloats impl with
    | some sh, some x, some y =>
      let N := Opus.Gen.Window.mdctN / 2 ^ sh
      let ov := Opus.Gen.Window.overlap
      if sh > Opus.Gen.Window.mdctMaxShift || x.size != N / 2 + ov then (false, "bad-op", st) else
      let m := forward N ov window120 x
      let e := relErr y m
      let st := { st with worstFwd := if e > st.worstFwd || e != e then e else st.worstFwd }
      if direct || sh ≥ 1 then
        let d := (celtForwardDirect N ov window120 x).map (· / (N / 4).toFloat)
        let ed := relErr m d
        let st := { st with worstDirect := if ed > st.worstDirect || ed != ed then ed else st.worstDirect, nDirect := st.nDirect + 1 }
        (e ≤ tol && ed ≤ tolDirect, s!"relerr(code,model)={sci e} relerr(model,direct)={sci ed}", st)
      else (e ≤ tol, s!"relerr(code,model)={sci e}", st)
    | _, _, _ => (false, "bad-op", st)
  | ["mdct", "fft", sh, xin] =>
    -- opus_fft_c of the static mode's kfft[shift] (nfft = N/4, scaled by 1/nfft) vs. the naive DFT
    match sh.toNat?, parseFloats xin, parseFloats impl with
    | some sh, some x, some y =>
      let n := Opus.Gen.Window.mdctN / 2 ^ sh / 4
      if sh > Opus.Gen.Window.mdctMaxShift || x.size != 2 * n || y.size != 2 * n then (false, "bad-op", st) else
      let re : Vec := (Array.range n).map fun j => at' x (2 * j)
      let im : Vec := (Array.range n).map fun j => at' x (2 * j + 1)
      let (fr, fi) := dft n re im
      let m : Vec := (Array.range (2 * n)).map fun j => (if j % 2 == 0 then at' fr (j / 2) else at' fi (j / 2)) / n.toFloat
      let e := relErr y m
      let st := { st with worstFft := if e > st.worstFft || e != e then e else st.worstFft }
      (e ≤ tol, s!"relerr(kiss_fft,dft)={sci e}", st)
    | _, _, _ => (false, "bad-op", st)
  | ["mdct", "bwd", sh, xc, xo] =>
    match sh.toNat?, parseFloats xc, parseFloats xo, parseFloats impl with
    | some sh, some c, some o, some y =>
      let N := Opus.Gen.Window.mdctN / 2 ^ sh
      let ov := Opus.Gen.Window.overlap
      if sh > Opus.Gen.Window.mdctMaxShift || c.size != N / 2 || o.size != N / 2 + ov then (false, "bad-op", st) else
      let m := backward N ov window120 c o
      let e := relErr y m
      let st := { st with worstBwd := if e > st.worstBwd || e != e then e else st.worstBwd }
      if direct || sh ≥ 1 then
        let d := celtBackwardDirect N ov window120 c o
        let ed := relErr m d
        let st := { st with worstDirect := if ed > st.worstDirect || ed != ed then ed else st.worstDirect, nDirect := st.nDirect + 1 }
        (e ≤ tol && ed ≤ tolDirect, s!"relerr(code,model)={sci e} relerr(model,direct)={sci ed}", st)
      else (e ≤ tol, s!"relerr(code,model)={sci e}", st)
    | _, _, _, _ => (false, "bad-op", st)
  | _ =>
    match delayAnswer inp with
    | some a => (a == impl, a, st)
    | none => (false, "bad-op", st)

def short (s : String) : String := if s.length > 160 then (s.take 160).toString ++ "…" else s

partial def loop (h : IO.FS.Stream) (direct : Bool) (st : Stats) (pending : Option String) : IO Stats := do
  let line ← h.getLine
  if line.isEmpty then return st
  let line := (line.dropEndWhile (fun c => c == '\n' || c == '\r')).toString
  if line.startsWith "I " then
    loop h direct st (some (line.drop 2).toString)
  else if line.startsWith "O " then
    match pending with
    | none => loop h direct st none
    | some inp =>
      let impl := (line.drop 2).toString
      let toks := inp.splitOn " "
      let (ok, model, st) := judge st direct toks impl
      let key := (toks.getD 0 "") ++ ":" ++ (toks.getD 1 "") ++ ":" ++ (if (toks.getD 0 "") == "mdct" then toks.getD 2 "" else toks.getD 2 "")
      let mut st := { st with cases := st.cases + 1, dist := bump st.dist key }
      if !ok then
        st := { st with mismatches := st.mismatches + 1 }
        if st.mismatches ≤ 20 then
          IO.println s!"MISMATCH\n  I {short inp}\n  impl:  {short impl}\n  model: {short model}"
      else if st.cases % 97 == 1 then
        IO.println s!"SAMPLE {short inp} => {short impl}"
      loop h direct st none
  else
    loop h direct st pending

def main (args : List String) : IO UInt32 := do
  let stdin ← IO.getStdin
  let st ← loop stdin (args.contains "direct") {} none
  if st.dist.any (fun kn => kn.1.startsWith "mdct") then
    IO.println s!"# mdct worst relative error: forward code-vs-model {sci st.worstFwd}, backward code-vs-model {sci st.worstBwd}, fold/DFT model vs textbook MDCT/IMDCT {sci st.worstDirect} ({st.nDirect} vectors), opus_fft_c vs naive DFT {sci st.worstFft}; tolerances {sci tol} / {sci tolDirect}"
  for (k, n) in st.dist do
    IO.println s!"DIST {k} {n}"
  IO.println s!"SUMMARY cases={st.cases} mismatches={st.mismatches}"
  return (if st.mismatches == 0 then 0 else 2)
