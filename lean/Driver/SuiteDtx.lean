import OpusModel.Dtx
import OpusModel.SilkVad
import Driver.Util
/- Suite `dtx`: the DTX skeleton of the encoder replayed from recorded oracles (C20).
   `call <cfg8> <state9> <oracles…>`   one opus_encode call from an explicit pre-state
   `run  <cfg8> <ncalls> <oracles…>…`  a whole run from the state of a fresh encoder
   `vad  <fs_kHz> <frame_length> <state28|init> <samples>`  one silk_VAD_GetSA_Q8_c call (OpusModel.SilkVad) -/
namespace Driver.SuiteDtx
open Opus Opus.Dtx Driver

abbrev P (α : Type) := List String → Option (α × List String)

def pNat : P Nat
  | t :: ts => (parseNat t).map (·, ts)
  | [] => none
def pInt : P Int
  | t :: ts => (parseInt t).map (·, ts)
  | [] => none
def pBool : P Bool
  | "0" :: ts => some (false, ts)
  | "1" :: ts => some (true, ts)
  | _ => none
def pMode : P Mode
  | "0" :: ts => some (.none, ts)
  | "1" :: ts => some (.silk, ts)
  | "2" :: ts => some (.hybrid, ts)
  | "3" :: ts => some (.celt, ts)
  | _ => none

def pRep {α} (p : P α) : Nat → P (List α)
  | 0, ts => some ([], ts)
  | n + 1, ts => do
    let (a, ts) ← p ts
    let (as, ts) ← pRep p n ts
    pure (a :: as, ts)

def pCfg : P Cfg := fun ts => do
  let (useDtx, ts) ← pBool ts
  let (fs, ts) ← pNat ts
  let (ch, ts) ← pNat ts
  let (cx, ts) ← pNat ts
  let (vbr, ts) ← pBool ts
  let (ubr, ts) ← pInt ts
  let (out, ts) ← pNat ts
  let (q, ts) ← pNat ts
  pure ({ useDtx := useDtx, fs := fs, channels := ch, complexity := cx, useVbr := vbr, userBitrate := ubr, outBytes := out, q := q }, ts)

def pState : P St := fun ts => do
  let (nb, ts) ← pNat ts
  let (pm, ts) ← pMode ts
  let (sdtx, ts) ← pBool ts
  let (c0, ts) ← pNat ts
  let (c1, ts) ← pNat ts
  let (ench, ts) ← pNat ts
  let (mnch, ts) ← pNat ts
  let (pmo, ts) ← pNat ts
  let (md, ts) ← pMode ts
  pure ({ nb := nb, prevMode := pm, silkUseDtx := sdtx, silk := ⟨c0, c1, ench, pmo != 0⟩, modeNch := mnch, mode := md }, ts)

def pSFrame : P SFrame := fun ts => do
  let (l0, ts) ← pBool ts
  let (m, ts) ← pBool ts
  let (l1, ts) ← pBool ts
  pure (⟨l0, m, l1⟩, ts)

def pSCall : P SCall := fun ts => do
  let (pf, ts) ← pNat ts
  let (nch, ts) ← pNat ts
  let (nfr, ts) ← pNat ts
  let (fr, ts) ← pRep pSFrame nfr ts
  pure (⟨pf, nch, fr⟩, ts)

def pSub : P Sub := fun ts => do
  let (valid, ts) ← pInt ts
  let (act, ts) ← pInt ts
  let (bust, ts) ← pBool ts
  let (ns, ts) ← pNat ts
  let (sc, ts) ← pRep pSCall ns ts
  pure ({ valid := valid != 0, det := act == 1, silk := sc, bust := bust }, ts)

def pCallOr : P CallOr := fun ts => do
  let (ds, ts) ← pBool ts
  let (v0, ts) ← pBool ts
  let (md, ts) ← pMode ts
  let (tc, ts) ← pBool ts
  let (nsub, ts) ← pNat ts
  let (subs, ts) ← pRep pSub nsub ts
  pure ({ digSil := ds, valid0 := v0, mode := md, toCelt := tc, subs := subs }, ts)

def modeTok : Mode → String
  | .none => "0" | .silk => "1" | .hybrid => "2" | .celt => "3"

def stateStr (s : St) : String :=
  s!"{s.nb} {modeTok s.prevMode} {if s.silkUseDtx then 1 else 0} {s.silk.c0} {s.silk.c1} {s.silk.nch} {s.modeNch} {if s.silk.pmo then 1 else 0} {modeTok s.mode}"

def lenStr : Pkt → String
  | .err e => errStr e
  | .lowBudget n => if n ≤ 2 then s!"len={n}" else "len=N"
  | .dtx n => s!"len={n}"
  | .normal => "len=N"
  | .bust => "len=2"
  | .badOracle => "BAD-ORACLE"

def listOr (l : List String) : String := if l.isEmpty then "-" else ",".intercalate l

/-- The oracle-shape contract is monitored on every call that reaches the frame loop. -/
def contractBroken (c : Cfg) (o : CallOr) : Pkt → Bool
  | .dtx _ => !shapeOk c o
  | .normal => !shapeOk c o
  | .bust => !shapeOk c o
  | _ => false

def callStr (c : Cfg) (o : CallOr) (r : St × Pkt × Trace) : String :=
  if contractBroken c o r.2.1 then "BAD-ORACLE (oracle-shape contract OpusModel.Dtx.shapeOk violated)" else
  match r.2.1 with
  | .err e => s!"{errStr e} sil=-1 acts=- nz=- tc=- indtx={if inDtx c r.1 then 1 else 0} st={stateStr r.1}"
  | p =>
    s!"{lenStr p} sil={r.2.2.sil} acts={listOr (r.2.2.acts.map toString)} nz={listOr (r.2.2.nz.map (fun b => if b then "1" else "0"))} tc={listOr (r.2.2.tc.map (fun b => if b then "1" else "0"))} indtx={if inDtx c r.1 then 1 else 0} st={stateStr r.1}"

def pktChar : Pkt → Char
  | .err _ => 'E'
  | .lowBudget n => if n = 1 then '1' else if n = 2 then '2' else 'N'
  | .dtx n => if n = 1 then '1' else '2'
  | .normal => 'N'
  | .bust => '2'
  | .badOracle => '?'

def runContract (c : Cfg) : St → List CallOr → Bool
  | _, [] => false
  | st, o :: os =>
    let r := encodeCall c st o
    contractBroken c o r.2.1 || runContract c r.1 os

/-! ### SILK VAD (OpusModel.SilkVad) -/
open Opus.SilkVad in
def vadStateOfList : List Int → Option VadState
  | [a0, a1, b0, b1, c0, c1, x0, x1, x2, x3, r0, r1, r2, r3, hp, n0, n1, n2, n3, i0, i1, i2, i3, z0, z1, z2, z3, cnt] =>
    some { ana0 := (a0, a1), ana1 := (b0, b1), ana2 := (c0, c1), xnrgSubfr := ⟨x0, x1, x2, x3⟩, ratioSmth := ⟨r0, r1, r2, r3⟩,
           hp := hp, nl := ⟨n0, n1, n2, n3⟩, invNl := ⟨i0, i1, i2, i3⟩, bias := ⟨z0, z1, z2, z3⟩, counter := cnt }
  | _ => none

open Opus.SilkVad in
def vadStateStr (s : VadState) : String :=
  ",".intercalate (([s.ana0.1, s.ana0.2, s.ana1.1, s.ana1.2, s.ana2.1, s.ana2.2] ++ s.xnrgSubfr.toList ++ s.ratioSmth.toList ++ [s.hp]
    ++ s.nl.toList ++ s.invNl.toList ++ s.bias.toList ++ [s.counter]).map toString)

open Opus.SilkVad in
def handleVad : List String → String
  | [fs, len, st, samples] =>
    match parseNat fs, parseNat len, (if st = "init" then some vadInit else (parseIntList st).bind vadStateOfList), parseIntList samples with
    | some fs, some len, some st, some xs =>
      match getSA st fs len xs with
      | .ok o => s!"sa={o.speechActivityQ8} tilt={o.inputTiltQ15} q={",".intercalate (o.quality.toList.map toString)} st={vadStateStr o.st}"
      | .err e => errStr e
      | .oob => "OOB"
      | .abort => "ABORT"
    | _, _, _, _ => "bad-op"
  | _ => "bad-op"

def handle : List String → String
  | "vad" :: ts => handleVad ts
  | "call" :: ts =>
    match (do
      let (c, ts) ← pCfg ts
      let (st, ts) ← pState ts
      let (o, ts) ← pCallOr ts
      if ts.isEmpty then pure (c, st, o) else none) with
    | some (c, st, o) => callStr c o (encodeCall c st o)
    | none => "bad-op"
  | "run" :: ts =>
    match (do
      let (c, ts) ← pCfg ts
      let (n, ts) ← pNat ts
      let (os, ts) ← pRep pCallOr n ts
      if ts.isEmpty then pure (c, os) else none) with
    | some (c, os) =>
      let tr := run c (initSt c.channels) os
      let fin := runFinal c (initSt c.channels) os
      if (runContract c (initSt c.channels) os) then "BAD-ORACLE (oracle-shape contract OpusModel.Dtx.shapeOk violated)" else
      "pk=" ++ String.ofList (tr.map (fun x => pktChar x.1)) ++ " dx=" ++ String.ofList (tr.map (fun x => if x.2 then '1' else '0'))
        ++ " st=" ++ stateStr fin
    | none => "bad-op"
  | _ => "bad-op"

end Driver.SuiteDtx
