import OpusModel.DecSkel
import OpusModel.SilkPlcGains
import OpusModel.CeltIdx
import OpusModel.CeltIdxCalls
import OpusModel.CeltCallees2
import Driver.Util
/-
  Suite `decskel` (C01 / C09): replay of one decoder call on the control skeleton.

    decskel dec <fmt> <state> <data> <len> <frame_size> <fec> <oracle answers>
        fmt    16 | 24 | f  (public entry points)   n0 | n1 (opus_decode_native, self_delimited 0/1)
        state  Fs,ch,API_sampleRate,nChannelsAPI,nChannelsInternal,internalSampleRate,payloadSize_ms,
               decode_gain,stream_channels,bandwidth,mode,prev_mode,frame_size,prev_redundancy,last_packet_duration
        data   x<hex> | N (NULL)
        oracle answers in call order, `;`-separated (`-` = none):
               s:<silk_ret>:<nSamplesOut>:<ec_tell>   c:<celt_ret>   b:<bit>:<ec_tell>   u:<value>:<ec_tell>
      → <ret> st=<state> po=<packet_offset> ev=<events>
    decskel ms <Fs> <nb_streams> <data> <len> <frame_size> <ret:packet_offset;…>
      → <ret> buf=<capacity of buf> calls=<s,len,frame_size,sd;…>
    decskel reset <state>            → st=<state>
    decskel gain <state> <value>     → <err> st=<state>
    decskel init <Fs> <channels>     → st=<state> | BAD_ARG
    decskel lbrr <data>              → opus_packet_has_lbrr as the skeleton predicts silk_Decode's LBRR flag
    decskel plcgain <lossCnt> <voiced> <nb_subfr> <B0,..,B4> <randScale_Q14> <prevLTP_scale_Q14> <invGain_Q30>
                                     → <B0',..,B4'> <randScale_Q14'>   (gain scalars after one concealed SILK frame)
    decskel lossdur <loss_duration> <LM> → loss_duration'   (after a concealed CELT frame)
    decskel lossgood <LM>                → loss_duration'   (after a decoded CELT frame)
    decskel celtplc <loss_duration> <skip_plc> <start> <LM> → kind=pitch|noise ld=<loss_duration'> skip=<skip_plc'>
    decskel celtgood <loss_duration> <skip_plc> <LM>        → ld=<loss_duration'> skip=<skip_plc'>
    decskel celtreset                                        → ld=0 skip=1
    decskel celtsize <CC>                → size=<bytes> mem=<off>,… lpc=<off> oldE=<off> logE=<off> logE2=<off> bg=<off> end=<off>
    decskel pfcalls <N> <LM> <CC> <pOld> <pCur> <pNew> → pf=<c>:<xoff>,<T0>,<T1>,<n>,<ovl>;… mv=<c>:<src>,<dst>,<len>;… next=<old>,<cur>
    decskel celtcalls good|pitch|noise <N> <LM> <C> <CC> <ds> <B> <pitch> <first> <fold> <pOld> <pCur> → <call>;… pcm=<n> scratch=<n>|-
    decskel combext <T0> <T1> <n> <ovl> <g0z> <g1z> <gsame> <inplace> → rd=<lo>..<hi>|- wr=<lo>..<hi>|-
-/
namespace Driver.SuiteDecSkel
open Opus Opus.Framing Opus.DecSkel Driver

def parseState (s : String) : Option DecState :=
  match parseIntList s with
  | some [fs, ch, api, nca, nci, isr, ps, gain, sch, bw, mode, pm, fsz, pr, lpd] =>
    some { Fs := fs, channels := ch,
           dc := { nChannelsAPI := nca, nChannelsInternal := nci, API_sampleRate := api,
                   internalSampleRate := isr, payloadSize_ms := ps },
           decode_gain := gain, stream_channels := sch, bandwidth := bw, mode := mode, prev_mode := pm,
           frame_size := fsz, prev_redundancy := pr, last_packet_duration := lpd }
  | _ => none

def stateStr (st : DecState) : String :=
  intList [st.Fs, st.channels, st.dc.API_sampleRate, st.dc.nChannelsAPI, st.dc.nChannelsInternal,
           st.dc.internalSampleRate, st.dc.payloadSize_ms, st.decode_gain, st.stream_channels, st.bandwidth,
           st.mode, st.prev_mode, st.frame_size, st.prev_redundancy, st.last_packet_duration]

def parseData (s : String) : Option (Option Bytes) :=
  if s = "N" then some none else (parseHex s).map some

/-- One recorded oracle answer: kind and up to three integers. -/
structure Ans where
  kind : Char
  v : List Int

def parseAns (s : String) : Option Ans :=
  match s.splitOn ":" with
  | k :: vs =>
    match k.toList, vs.mapM (·.toInt?) with
    | [c], some v => some { kind := c, v }
    | _, _ => none
  | _ => none

def parseAnsList (s : String) : Option (List Ans) :=
  if s = "-" then some [] else (s.splitOn ";").mapM parseAns

/-- The oracle that replays the recorded answers (arguments are ignored: the C side already
    asserted the contracts; a kind mismatch yields zeros and shows up in the event list). -/
def oracleOf (l : List Ans) : Oracle :=
  let arr := l.toArray
  let get (k : Nat) (c : Char) (i : Nat) : Int :=
    match arr[k]? with
    | some a => if a.kind = c then a.v.getD i 0 else 0
    | none => 0
  { silk := fun k _ => (get k 's' 0, get k 's' 1, get k 's' 2),
    celt := fun k _ => get k 'c' 0,
    bit := fun k _ _ => (get k 'b' 0, get k 'b' 1),
    uint := fun k _ _ => (get k 'u' 0, get k 'u' 1) }

def bufStr : Buf → String
  | .pcm => "P" | .silk => "S" | .trans => "T" | .red => "D"

def ptrStr (p : Ptr) : String := s!"{bufStr p.buf}{p.off}/{p.cap}"

def evStr : Ev → Option String
  | .decInit off len => some s!"I{off},{len}"
  | .silk a p ret n =>
    some s!"S{a.payloadSize_ms},{a.internalSampleRate},{a.nChannelsInternal},{a.nChannelsAPI},{a.API_sampleRate},{a.lostFlag},{a.newPacketFlag}@{ptrStr p}={ret},{n}"
  | .celt a p ret =>
    let d := match a.dataOff with
      | some o => toString o
      | none => if a.site = 2 then "z" else "n"
    some s!"C{d},{a.len},{a.frame_size},{if a.withDec then 1 else 0},{a.accum}@{ptrStr p}={ret}"
  -- the gain pass (:654-668) and the four cross-fades (one `smooth_fade` of F2_5·channels samples each) are observed by
  -- the harness; the plain copies (sites 1-3, 5, 7, 9) are not
  | .acc 11 p n => some s!"G{n}@{ptrStr p}"
  | .acc 4 _ n => some s!"F{n}"
  | .acc 6 _ n => some s!"F{n / 2}"
  | .acc 8 _ n => some s!"F{n / 2}"
  | .acc 10 _ n => some s!"F{n}"
  | .acc _ _ _ => none
  | .silkReset => some "R"
  | .clip p n ch => some s!"K{n},{ch}@{ptrStr p}"

def evsStr (log : List Ev) : String :=
  let l := log.reverse.filterMap evStr
  if l.isEmpty then "-" else ";".intercalate l

def retStr (v : Int) : String :=
  if v ≥ 0 then s!"n={v}"
  else if v = -1 then "BAD_ARG" else if v = -2 then "BUFFER_TOO_SMALL" else if v = -3 then "INTERNAL_ERROR"
  else if v = -4 then "INVALID_PACKET" else if v = -5 then "UNIMPLEMENTED" else if v = -6 then "INVALID_STATE"
  else if v = -7 then "ALLOC_FAIL" else "UNKNOWN_ERR"

def outStr : Out Int → String
  | .ret v => retStr v
  | .abort => "ABORT"
  | .hang => "HANG"

def nativeStr (x : NativeOut) (showPo : Bool := false) : String :=
  s!"{outStr x.ret} st={stateStr x.run.st} po={if showPo then toString x.packetOffset else "-"} ev={evsStr x.run.log}"

def parseNatives (s : String) : Option (List (Int × Int)) :=
  if s = "-" then some []
  else (s.splitOn ";").mapM fun t =>
    match (t.splitOn ":").mapM (·.toInt?) with
    | some [a, b] => some (a, b)
    | _ => none

def msCallStr (c : MsCall) : String := s!"{c.s},{c.len},{c.frame_size},{if c.sd then 1 else 0}"

/-- The C01/C09 predicate evaluated on what the IMPLEMENTATION answered to one decode call
    (`decskel pred <fmt> <state> <data> <len> <frame_size> <fec> <impl ret> <impl last_packet_duration>`):
    return-value range, documented error, announced duration (framing judged by the C06 parser spec),
    exact concealment duration.  Used to classify a model/implementation disagreement. -/
def predicate (fmt : String) (st : DecState) (data : Option Bytes) (len fsz fec : Int) (ret : String) (lpd : Int) : String :=
  if ret = "SANITIZER" ∨ ret = "ABORT" ∨ ret = "TIMEOUT" ∨ ret = "SIGSEGV" then s!"VIOLATES the call ended with {ret}"
  else
    let n : Option Int := if ret.startsWith "n=" then (ret.drop 2).toString.toInt? else none
    match n with
    | none =>
      if ret ≠ "BAD_ARG" ∧ ret ≠ "BUFFER_TOO_SMALL" ∧ ret ≠ "INVALID_PACKET" then s!"VIOLATES returned {ret}"
      else if (data.isNone ∨ len = 0) ∧ (fec = 0 ∨ fec = 1) ∧ fsz > 0 ∧ fsz % (st.Fs / 400) = 0 then
        s!"VIOLATES concealment of {fsz} samples (a multiple of 2.5 ms) returned {ret}"
      else
        match data with
        | some bs =>
          if len > 0 ∧ fec = 0 then
            match parseImpl (fmt = "n1") (bs.take len.toNat) with
            | .ok p =>
              let ns : Int := p.count * samplesPerFrame p.toc st.Fs.toNat
              if fsz ≥ ns ∧ fsz > 0 then s!"VIOLATES valid framing announcing {ns} samples with room for {fsz} returned {ret}" else "OK"
            | _ => "OK"
          else "OK"
        | none => "OK"
    | some n =>
      if n ≤ 0 ∨ n > fsz then s!"VIOLATES returned {n} samples for frame_size {fsz}"
      else if (data.isNone ∨ len = 0) then
        if n ≠ fsz ∨ lpd ≠ fsz then s!"VIOLATES concealment of {fsz} samples returned {n}, last-packet-duration {lpd}" else "OK"
      else if fec ≠ 0 then
        if n ≠ fsz ∨ lpd ≠ fsz then s!"VIOLATES FEC request of {fsz} samples returned {n}, last-packet-duration {lpd}" else "OK"
      else
        match data with
        | some bs =>
          match parseImpl (fmt = "n1") (bs.take len.toNat) with
          | .ok p =>
            let ns : Int := p.count * samplesPerFrame p.toc st.Fs.toNat
            if n ≠ ns ∨ lpd ≠ ns then s!"VIOLATES valid framing announcing {ns} samples returned {n}, last-packet-duration {lpd}" else "OK"
          | _ => s!"VIOLATES a packet with invalid framing decoded to {n} samples"
        | none => "OK"

def arrStr : Opus.CeltIdx.Arr → String
  | .mem c => s!"mem{c}" | .lpc => "lpc" | .freq => "freq" | .scratch => "scratch" | .X => "X" | .pcm => "pcm"
  | .exc => "exc" | .fir => "fir" | .lpbuf => "lpbuf" | .etmp => "etmp" | .lpcMem => "loc" | .ac => "loc"

def cptrStr (p : Opus.CeltIdx.Ptr) : String :=
  match p.arr with
  | .lpcMem | .ac => "loc+0"
  | a => s!"{arrStr a}+{p.off}"

def callStr : Opus.CeltIdx.Call → String
  | .mdct i s o n2 ov => s!"mdct({cptrStr i},{s},{cptrStr o},{n2},{ov})"
  | .denorm x f n => s!"denorm({cptrStr x},{cptrStr f},{n})"
  | .copy d s n => s!"copy({cptrStr d},{cptrStr s},{n})"
  | .comb y x t0 t1 n ovl => s!"comb({cptrStr y},{cptrStr x},{t0},{t1},{n},{ovl})"
  | .fir x num y n ord => s!"fir({cptrStr x},{cptrStr num},{cptrStr y},{n},{ord})"
  | .iir x den y n ord mem => s!"iir({cptrStr x},{cptrStr den},{cptrStr y},{n},{ord},{cptrStr mem})"
  | .acorr x ac ovl lag n => s!"acorr({cptrStr x},{cptrStr ac},{ovl},{lag},{n})"
  | .lpc l ac p => s!"lpc({cptrStr l},{cptrStr ac},{p})"
  | .pdown x0 x1 xlp len => s!"pdown({cptrStr x0},{match x1 with | some p => cptrStr p | none => "-"},{cptrStr xlp},{len})"
  | .psearch xlp y len maxp => s!"psearch({cptrStr xlp},{cptrStr y},{len},{maxp})"

def handle : List String → String
  | ["pred", fmt, st, data, len, fsz, fec, ret, lpd] =>
    match parseState st, parseData data, parseInt len, parseInt fsz, parseInt fec, parseInt lpd with
    | some st, some data, some len, some fsz, some fec, some lpd => predicate fmt st data len fsz fec ret lpd
    | _, _, _, _, _, _ => "bad-op"
  | ["dec", fmt, st, data, len, fsz, fec, ans] =>
    match parseState st, parseData data, parseInt len, parseInt fsz, parseInt fec, parseAnsList ans with
    | some st, some data, some len, some fsz, some fec, some ans =>
      let o := oracleOf ans
      let r : Run := { st, k := 0, log := [] }
      if fmt = "16" then nativeStr (decodeApi o .i16 data len fsz fec r)
      else if fmt = "24" then nativeStr (decodeApi o .i24 data len fsz fec r)
      else if fmt = "f" then nativeStr (decodeApi o .f32 data len fsz fec r)
      else if fmt = "n0" ∨ fmt = "n1" then
        nativeStr (decodeNative o data len { buf := .pcm, off := 0, cap := fsz * st.channels } fsz fec (fmt = "n1") false r) true
      else "bad-op"
    | _, _, _, _, _, _ => "bad-op"
  | ["ms", fs, ns, data, len, fsz, nat] =>
    match parseInt fs, parseNat ns, parseData data, parseInt len, parseInt fsz, parseNatives nat with
    | some fs, some ns, some data, some len, some fsz, some nat =>
      let arr := nat.toArray
      let (ret, calls, cap) := msDecode (fun k => arr.getD k (0, 0)) fs ns (data.getD []) len fsz
      let cs := if calls.isEmpty then "-" else ";".intercalate (calls.map msCallStr)
      s!"{retStr ret} buf={cap} calls={cs}"
    | _, _, _, _, _, _ => "bad-op"
  | ["reset", st] =>
    match parseState st with
    | some st => s!"st={stateStr (reset st)}"
    | none => "bad-op"
  | ["gain", st, v] =>
    match parseState st, parseInt v with
    | some st, some v => let (e, st') := setGain st v; s!"{if e = 0 then "OK" else retStr e} st={stateStr st'}"
    | _, _ => "bad-op"
  | ["init", fs, ch] =>
    match parseInt fs, parseInt ch with
    | some fs, some ch =>
      match init fs ch with
      | some st => s!"st={stateStr st}"
      | none => "BAD_ARG"
    | _, _ => "bad-op"
  | ["lbrr", data] =>
    match parseHex data with
    | some bs => resStr toString (hasLbrr bs)
    | none => "bad-op"
  | ["plcgain", lossCnt, voiced, nbSubfr, bs, rs, plt, ig] =>
    match parseInt lossCnt, parseInt voiced, parseNat nbSubfr, parseIntList bs, parseInt rs, parseInt plt, parseInt ig with
    | some lc, some v, some nsf, some b, some rs, some plt, some ig =>
      let g := Opus.SilkPlcGains.conceal lc (v ≠ 0) nsf b rs plt ig
      s!"g={intList g.1} {g.2}"
    | _, _, _, _, _, _, _ => "bad-op"
  | ["celtplc", ld, skip, start, lm] =>
    match parseInt ld, parseInt skip, parseInt start, parseNat lm with
    | some ld, some skip, some start, some lm =>
      let s : Opus.SilkPlcGains.CeltPlc := { ld, skip := skip ≠ 0 }
      let k := Opus.SilkPlcGains.celtLostKind s start
      let s' := Opus.SilkPlcGains.celtLost s start lm
      s!"kind={if k = .noise then "noise" else "pitch"} ld={s'.ld} skip={if s'.skip then 1 else 0}"
    | _, _, _, _ => "bad-op"
  | ["celtgood", ld, skip, lm] =>
    match parseInt ld, parseInt skip, parseNat lm with
    | some ld, some skip, some lm =>
      let s' := Opus.SilkPlcGains.celtGood { ld, skip := skip ≠ 0 } lm
      s!"ld={s'.ld} skip={if s'.skip then 1 else 0}"
    | _, _, _ => "bad-op"
  | ["celtsize", cc] =>
    match parseInt cc with
    | some cc =>
      let mems := ",".intercalate ((List.range cc.toNat).map fun (c : Nat) => toString (Opus.CeltIdx.memOff (c : Int)))
      s!"size={Opus.CeltIdx.getSize cc} mem={mems} lpc={Opus.CeltIdx.lpcOff cc} oldE={Opus.CeltIdx.oldBandEOff cc} logE={Opus.CeltIdx.oldLogEOff cc} logE2={Opus.CeltIdx.oldLogE2Off cc} bg={Opus.CeltIdx.backgroundOff cc} end={Opus.CeltIdx.stateEnd cc}"
    | none => "bad-op"
  | ["pfcalls", n, lm, cc, po, pc, pn] =>
    match parseInt n, parseInt lm, parseNat cc, parseInt po, parseInt pc, parseInt pn with
    | some n, some lm, some cc, some po, some pc, some pn =>
      let calls := Opus.CeltIdx.pfCalls n lm po pc pn
      let pf := ";".intercalate ((List.range cc).flatMap fun c => calls.map fun k => s!"{c}:{k.xoff},{k.T0},{k.T1},{k.n},{k.ovl}")
      let src := Opus.CeltIdx.memMoveSrc n
      let dst := Opus.CeltIdx.memMoveDst n
      let mv := ";".intercalate ((List.range cc).map fun c => s!"{c}:{src.lo},{dst.lo},{src.hi - src.lo + 1}")
      let nx := Opus.CeltIdx.pfNext lm po pc pn
      s!"pf={pf} mv={mv} next={nx.1},{nx.2}"
    | _, _, _, _, _, _ => "bad-op"
  | ["celtcalls", kind, n, lm, c, cc, ds, b, pitch, first, fold, po, pc] =>
    match parseInt n, parseInt lm, parseInt c, parseInt cc, parseInt ds, parseInt b, parseInt pitch, parseInt first, parseInt fold, parseInt po, parseInt pc with
    | some n, some lm, some c, some cc, some ds, some b, some pitch, some first, some fold, some po, some pc =>
      let f : Opus.CeltIdx.Frame := { N := n, LM := lm, C := c, CC := cc, ds, B := b }
      let shift := (List.range cc.toNat).map fun (ch : Nat) =>
        Opus.CeltIdx.Call.copy ⟨.mem ch, 0⟩ ⟨.mem ch, n⟩ (Opus.Gen.CeltIdxConsts.DECODE_BUFFER_SIZE - n + Opus.Gen.CeltIdxConsts.overlap)
      let calls : Option (List Opus.CeltIdx.Call) :=
        if kind = "good" then some (shift ++ (if fold ≠ 0 then Opus.CeltIdx.foldCalls f po pc else []) ++ Opus.CeltIdx.synthCalls f)
        else if kind = "noise" then some (Opus.CeltIdx.plcNoiseCalls f (fold ≠ 0) po pc)
        else if kind = "pitch" then some (Opus.CeltIdx.plcPitchCalls f pitch (first ≠ 0))
        else none
      match calls with
      | none => "bad-op"
      | some calls =>
        let cs := if calls.isEmpty then "-" else ";".intercalate (calls.map callStr)
        let de := Opus.CeltIdx.deemphAccs f false
        let pcmN := (de.filter fun a => a.arr == .pcm && a.write).foldl (fun (m : Int) a => max m (a.ext.hi + 1)) (0 : Int)
        s!"{cs} pcm={pcmN} scratch={match Opus.CeltIdx.deemphScratch f false with | some n => toString n | none => "-"}"
    | _, _, _, _, _, _, _, _, _, _, _ => "bad-op"
  | "contract" :: fn :: args =>
    match args.mapM parseInt with
    | none => "bad-op"
    | some v =>
      let P (a : Opus.CeltIdx.Arr) : Opus.CeltIdx.Ptr := ⟨a, 0⟩
      let call : Option Opus.CeltIdx.Call :=
        match fn, v with
        | "fir", [n, ord] => some (.fir (P .exc) (P .lpc) (P .fir) n ord)
        | "iir", [n, ord] => some (.iir (P (.mem 0)) (P .lpc) (P (.mem 0)) n ord (P .lpcMem))
        | "acorr", [ovl, lag, n] => some (.acorr (P .exc) (P .ac) ovl lag n)
        | "lpc", [p] => some (.lpc (P .lpc) (P .ac) p)
        | "pdown", [len, c] => some (.pdown (P (.mem 0)) (if c = 2 then some (P (.mem 1)) else none) (P .lpbuf) len)
        | "psearch", [len, maxp] => some (.psearch (P .lpbuf) (P .lpbuf) len maxp)
        | "mdct", [stride, n2, ov] => some (.mdct (P .freq) stride (P (.mem 0)) n2 ov)
        | _, _ => none
      match call with
      | none => "bad-op"
      | some c => ",".intercalate (c.accs.map fun a => s!"{a.ext.lo}..{a.ext.hi}{if a.write then "w" else "r"}")
  -- C01 slice CeltCallees2: `decskel ext2 mdct <shift> <stride> <ov>` | `ext2 denorm <start> <end> <M> <ds> <silence>` |
  -- `ext2 psearch <len> <max_pitch> <bA> <bB> <b0>` → `<array>=<lo>..<hi>|-` for the argument arrays, mode tables and
  -- ALLOCed arrays of the routine: smallest / largest element index of the index model (OpusModel/CeltCallees2.lean)
  | "ext2" :: fn :: args =>
    match args.mapM parseInt with
    | none => "bad-op"
    | some v =>
      let show_ (l : List Opus.CeltCallees2.Hit) (as : List (String × Opus.CeltCallees2.CArr)) : String :=
        " ".intercalate (as.map fun (nm, a) => match Opus.CeltCallees2.extOf l a with | some (lo, hi) => s!"{nm}={lo}..{hi}" | none => s!"{nm}=-")
      match fn, v with
      | "mdct", [shift, stride, ov] =>
        if shift < 0 ∨ shift > 3 then "bad-op" else
        show_ (Opus.CeltCallees2.mdctHits shift stride ov) [("in", .inp), ("out", .out), ("win", .win), ("trig", .trig), ("bitrev", .bitrev), ("tw", .tw), ("factors", .factors)]
      -- `ext2 fft <shift>`: per butterfly call of opus_fft_impl (execution order) `<radix>:fout=<lo>..<hi>,tw=<lo>..<hi>|-`
      | "fft", [shift] =>
        if shift < 0 ∨ shift > 3 then "bad-op" else
        " ".intercalate ((Opus.CeltCallees2.stagesOf (Opus.CeltCallees2.kfft shift)).map fun st =>
          let l := Opus.CeltCallees2.stageHits st
          let e (a : Opus.CeltCallees2.CArr) : String := match Opus.CeltCallees2.extOf l a with | some (lo, hi) => s!"{lo}..{hi}" | none => "-"
          s!"{st.p}:fout={e .fout},tw={e .tw}")
      | "denorm", [start, end_, M, ds, silence] =>
        show_ (Opus.CeltCallees2.denormHits start end_ M ds (silence ≠ 0)) [("X", .X), ("freq", .freq), ("bandE", .bandE), ("eBands", .eBands)]
      | "psearch", [len, maxp, bA, bB, b0] =>
        show_ (Opus.CeltCallees2.psearchHits len maxp bA bB b0) [("xlp", .xlp), ("y", .y), ("xlp4", .xlp4), ("ylp4", .ylp4), ("xcorr", .xcorr)] ++
          -- the ALLOC sizes the in-bounds theorem uses (`psearchB`): x_lp4[len>>2], y_lp4[(len+max_pitch)>>2], xcorr[max_pitch>>1]
          s!" alloc={(Opus.CeltCallees2.psearchAlloc len maxp .xlp4)},{(Opus.CeltCallees2.psearchAlloc len maxp .ylp4)},{(Opus.CeltCallees2.psearchAlloc len maxp .xcorr)}"
      | _, _ => "bad-op"
  | ["combext", t0, t1, n, ovl, g0z, g1z, gs, ip] =>
    match parseInt t0, parseInt t1, parseInt n, parseInt ovl, parseInt g0z, parseInt g1z, parseInt gs, parseInt ip with
    | some t0, some t1, some n, some ovl, some g0z, some g1z, some gs, some ip =>
      let a : Opus.CeltIdx.CombArgs := { T0 := t0, T1 := t1, n, ovl, g0z := g0z ≠ 0, g1z := g1z ≠ 0, gsame := gs ≠ 0, inPlace := ip ≠ 0 }
      let es (e : Opus.CeltIdx.Ext) : String := if e.isEmpty then "-" else s!"{e.lo}..{e.hi}"
      s!"rd={es (Opus.CeltIdx.combRead a)} wr={es (Opus.CeltIdx.combWrite a)}"
    | _, _, _, _, _, _, _, _ => "bad-op"
  | ["celtreset"] =>
    let s' := Opus.SilkPlcGains.celtReset
    s!"ld={s'.ld} skip={if s'.skip then 1 else 0}"
  | ["lossgood", lm] =>
    match parseNat lm with
    | some lm => s!"ld={Opus.SilkPlcGains.celtLossGood lm}"
    | none => "bad-op"
  | ["lossdur", ld, lm] =>
    match parseInt ld, parseNat lm with
    | some ld, some lm => s!"ld={Opus.SilkPlcGains.celtLossStep ld lm}"
    | _, _ => "bad-op"
  | _ => "bad-op"

end Driver.SuiteDecSkel
