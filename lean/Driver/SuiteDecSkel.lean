import Driver.Util
/- Suite stub — replaced by the owner of this suite. -/
namespace Driver.SuiteDecSkel
def handle (_ : List String) : String := "bad-op"
end Driver.SuiteDecSkel
