import OpusModel.Basic
import OpusModel.Gen.Window
/-
  OpusModel.Mdct — executable (Float) transcription of the index arithmetic of the CELT MDCT
  (property C04).  Core Lean only.

    * `forward`   = clt_mdct_forward_c   (celt/mdct.c:122-264):  window/shuffle/fold → pre-rotation →
                    N/4-point complex DFT → post-rotation.  The FFT (`opus_fft_impl` on a bit-reversed
                    buffer) is replaced by a naive DFT in natural order, which is what it computes.
    * `backward`  = clt_mdct_backward_c  (celt/mdct.c:268-371): pre-rotation → DFT → post-rotation and
                    de-shuffle → "mirror on both sides for TDAC" (windowed overlap-add with the tail
                    the previous call left in the output buffer).
    * `mdctDirect` / `imdctDirect`: the textbook definitions
          X[k] = Σ_{n<2M} x[n]·cos(π/M·(n + 1/2 + M/2)·(k + 1/2))
      that the TDAC theorem (`OpusProofs/MdctTdac.lean`, over ℝ) is stated about, and
      `extWindow`, `celtForwardDirect`: how the code's (N2+overlap)-sample block and short window embed
      into a 2M-sample block with the zero / rise / one / fall / zero "low-overlap" window.
  The real-number twins of `foldAt`/`forward`/`backward` are `foldR`/`forwardR`/`backwardR` in
  `OpusProofs/MdctAlgo*.lean`, where they are proved equal to the textbook MDCT / IMDCT.
  There are no theorems about Float; `Driver/DelayMain.lean` evaluates these definitions next to the
  C functions (tie, tolerance 1e-4) and next to each other (fold/FFT structure = direct definition).

  Out-of-range reads return NaN (`at`), so an index slip poisons the result instead of hiding.
-/
namespace Opus.Mdct

abbrev Vec := Array Float

def nan : Float := 0.0 / 0.0
def pi : Float := 3.14159265358979323846

/-- Read with a poisoned default: the C code never reads outside its buffers. -/
@[inline] def at' (a : Vec) (i : Nat) : Float := a.getD i nan

/-- IEEE single value `m·2^e` of a regenerated table entry. -/
def ofME (p : Int × Int) : Float :=
  let m := Float.ofInt p.1
  if p.2 ≥ 0 then m * Float.ofNat (2 ^ p.2.toNat) else m / Float.ofNat (2 ^ (-p.2).toNat)

/-- `mode->window` of the static mode (celt/static_modes_float.h: window120). -/
def window120 : Vec := (Opus.Gen.Window.windowME.map ofME).toArray

/-- `trig[i]` of clt_mdct_init for transform size `N` (celt/mdct.c:99-100):
    `cos(2π(i + 1/8)/N)`, `i < N/2`.  (The static build stores these, rounded to single, in
    `mdct_twiddles960`, one sub-table per shift; `l->trig` is advanced by `N` per shift at mdct.c:143-147.) -/
def trig (N i : Nat) : Float := Float.cos (2.0 * pi * (i.toFloat + 0.125) / N.toFloat)

/-- Naive forward DFT of `n` complex points: `F[k] = Σ_j c[j]·exp(−2πi·jk/n)`; this is what
    `opus_fft_impl` computes on the bit-reversed buffer (celt/kiss_fft.c), without scaling. -/
def dft (n : Nat) (re im : Vec) : Vec × Vec := Id.run do
  let cs : Vec := (Array.range n).map fun j => Float.cos (2.0 * pi * j.toFloat / n.toFloat)
  let sn : Vec := (Array.range n).map fun j => Float.sin (2.0 * pi * j.toFloat / n.toFloat)
  let mut outR : Vec := Array.mkEmpty n
  let mut outI : Vec := Array.mkEmpty n
  for k in [0:n] do
    let mut sr := 0.0
    let mut si := 0.0
    for j in [0:n] do
      let idx := (j * k) % n
      let c := at' cs idx
      let s := at' sn idx
      let xr := at' re j
      let xi := at' im j
      -- (xr + i xi)(c − i s)
      sr := sr + (xr * c + xi * s)
      si := si + (xi * c - xr * s)
    outR := outR.push sr
    outI := outI.push si
  return (outR, outI)

/-- The fold of clt_mdct_forward_c (celt/mdct.c:155-196): complex point `i < N4` as (re, im).
    `inp` has `N2 + overlap` samples, `w` has `overlap`. -/
def foldAt (inp w : Vec) (N2 N4 overlap i : Nat) : Float × Float :=
  let ov2 := overlap / 2            -- overlap>>1
  let q := (overlap + 3) / 4        -- (overlap+3)>>2
  let xp1 := ov2 + 2 * i            -- in+(overlap>>1), += 2
  let xp2 := N2 - 1 + ov2 - 2 * i   -- in+N2-1+(overlap>>1), -= 2
  if i < q then
    -- first loop (mdct.c:164-173): wp1 = window+(overlap>>1) (+=2), wp2 = window+(overlap>>1)-1 (-=2)
    let wp1 := ov2 + 2 * i
    let wp2 := ov2 - 1 - 2 * i
    (at' inp (xp1 + N2) * at' w wp2 + at' inp xp2 * at' w wp1,
     at' inp xp1 * at' w wp1 - at' inp (xp2 - N2) * at' w wp2)
  else if i < N4 - q then
    -- second loop (mdct.c:176-183): no window
    (at' inp xp2, at' inp xp1)
  else
    -- third loop (mdct.c:184-193): wp1 = window (+=2), wp2 = window+overlap-1 (-=2)
    let j := i - max q (N4 - q)
    let wp1 := 2 * j
    let wp2 := overlap - 1 - 2 * j
    (at' inp xp2 * at' w wp2 - at' inp (xp1 - N2) * at' w wp1,
     at' inp xp1 * at' w wp2 + at' inp (xp2 + N2) * at' w wp1)

/-- clt_mdct_forward_c (celt/mdct.c:122-264) for the transform of size `N = l->n >> shift`, stride 1.
    `scale = st->scale = 1/N4`.  Output: `N2` coefficients. -/
def forward (N overlap : Nat) (w inp : Vec) : Vec := Id.run do
  let N2 := N / 2
  let N4 := N / 4
  let scale := 1.0 / N4.toFloat
  -- pre-rotation (mdct.c:199-232); f2[bitrev[i]] then FFT = DFT of the natural-order sequence
  let mut yr : Vec := Array.mkEmpty N4
  let mut yi : Vec := Array.mkEmpty N4
  for i in [0:N4] do
    let (re, im) := foldAt inp w N2 N4 overlap i
    let t0 := trig N i
    let t1 := trig N (N4 + i)
    yr := yr.push ((re * t0 - im * t1) * scale)
    yi := yi.push ((im * t0 + re * t1) * scale)
  let (fr, fi) := dft N4 yr yi
  -- post-rotation (mdct.c:238-263): yp1 = out (+= 2), yp2 = out+N2-1 (-= 2)
  let mut out : Vec := Array.replicate N2 nan
  for i in [0:N4] do
    let t0 := trig N i
    let t1 := trig N (N4 + i)
    out := out.set! (2 * i) (at' fi i * t1 - at' fr i * t0)
    out := out.set! (N2 - 1 - 2 * i) (at' fr i * t1 + at' fi i * t0)
  return out

/-- clt_mdct_backward_c (celt/mdct.c:268-371), stride 1.  `coef` has `N2` entries; `out` is the caller's
    buffer of `N2 + overlap` samples whose first `overlap/2` entries still hold what the previous call
    wrote there (its un-mirrored tail).  Returns the buffer after the call. -/
def backward (N overlap : Nat) (w coef out : Vec) : Vec := Id.run do
  let N2 := N / 2
  let N4 := N / 4
  let ov2 := overlap / 2
  -- pre-rotation (mdct.c:286-314); real and imaginary parts swapped on purpose (FFT used as IFFT)
  let mut cr : Vec := Array.mkEmpty N4
  let mut ci : Vec := Array.mkEmpty N4
  for i in [0:N4] do
    let x1 := at' coef (2 * i)
    let x2 := at' coef (N2 - 1 - 2 * i)
    let t0 := trig N i
    let t1 := trig N (N4 + i)
    let yr := x2 * t0 + x1 * t1
    let yi := x1 * t0 - x2 * t1
    cr := cr.push yi     -- yp[2*rev]   = yi
    ci := ci.push yr     -- yp[2*rev+1] = yr
  let (gr, gi) := dft N4 cr ci
  -- post-rotation and de-shuffle (mdct.c:318-351).  The C loop treats the pair (i, N4-1-i) from both
  -- ends so that it can work in place; for every j < N4 it amounts to
  --   buf[2j] = G[j].i·t[j] + G[j].r·t[N4+j],   buf[N2-1-2j] = G[j].i·t[N4+j] − G[j].r·t[j]
  -- (second half of the loop body = the same formula at j = N4-1-i, with t[N2-i-1] = t[N4+j]).
  let mut o := out
  for j in [0:N4] do
    let re := at' gi j
    let im := at' gr j
    let t0 := trig N j
    let t1 := trig N (N4 + j)
    o := o.set! (ov2 + 2 * j) (re * t0 + im * t1)
    o := o.set! (ov2 + N2 - 1 - 2 * j) (re * t1 - im * t0)
  -- mirror on both sides for TDAC (mdct.c:354-370)
  for i in [0:ov2] do
    let x1 := at' o (overlap - 1 - i)
    let x2 := at' o i
    o := o.set! i (x2 * at' w (overlap - 1 - i) - x1 * at' w i)
    o := o.set! (overlap - 1 - i) (x2 * at' w i + x1 * at' w (overlap - 1 - i))
  return o

/-! ### Textbook definitions (the objects of the TDAC theorem) evaluated in Float -/

/-- MDCT kernel `cos(π/M·(n + 1/2 + M/2)·(k + 1/2))`. -/
def kern (M n k : Nat) : Float :=
  Float.cos (pi / M.toFloat * (n.toFloat + 0.5 + M.toFloat / 2.0) * (k.toFloat + 0.5))

/-- `X[k] = Σ_{n<2M} x[n]·kern M n k`, `k < M`. -/
def mdctDirect (M : Nat) (x : Vec) : Vec :=
  (Array.range M).map fun k => Id.run do
    let mut s := 0.0
    for n in [0:2 * M] do
      s := s + at' x n * kern M n k
    return s

/-- `y[n] = Σ_{k<M} X[k]·kern M n k`, `n < 2M`. -/
def imdctDirect (M : Nat) (X : Vec) : Vec :=
  (Array.range (2 * M)).map fun n => Id.run do
    let mut s := 0.0
    for k in [0:M] do
      s := s + at' X k * kern M n k
    return s

/-- The 2M-sample window the code's short window stands for (M = N2, z = (M − overlap)/2):
    zero on `[0,z)`, rising `w` on `[z, z+ov)`, one on `[z+ov, 2M−z−ov)`, falling `w` reversed,
    zero on the last `z`. -/
def extWindow (M overlap : Nat) (w : Vec) (n : Nat) : Float :=
  let z := (M - overlap) / 2
  if n < z then 0.0
  else if n < z + overlap then at' w (n - z)
  else if n < 2 * M - z - overlap then 1.0
  else if n < 2 * M - z then at' w (2 * M - z - 1 - n)
  else 0.0

/-- What clt_mdct_forward_c computes, written with the textbook definition: the `(N2+overlap)`-sample
    input sits at offset `z` of a 2M block, is multiplied by `extWindow`, transformed, scaled by
    `1/N4 = 2/M`... the sign/scale constant `fwdScale` is fixed by the tie (see DelayMain). -/
def celtForwardDirect (N overlap : Nat) (w inp : Vec) : Vec :=
  let M := N / 2
  let z := (M - overlap) / 2
  let blk : Vec := (Array.range (2 * M)).map fun n =>
    if n < z ∨ n ≥ 2 * M - z then 0.0 else extWindow M overlap w n * at' inp (n - z)
  mdctDirect M blk

/-- What clt_mdct_backward_c leaves in its buffer, written with the textbook IMDCT (the Float rendering of
    `OpusProofs.MdctAlgoInv.backwardRaw_eq_imdct` plus the mirror loop): with `Y = imdctDirect M X`, `h = overlap/2`,
    `Q = M/2`:  `out[t] = old[t]·w[ov-1-t] − Y[Q+h-1-t]·w[t]` for `t < h`,
    `out[t] = old[ov-1-t]·w[ov-1-t] + Y[Q+t-h]·w[t]` for `h ≤ t < ov`, `out[t] = Y[Q+t-h]` for `ov ≤ t < M+h`,
    and the last `h` entries untouched. -/
def celtBackwardDirect (N overlap : Nat) (w coef out : Vec) : Vec :=
  let M := N / 2
  let Q := N / 4
  let h := overlap / 2
  let Y := imdctDirect M coef
  (Array.range (M + overlap)).map fun t =>
    if t < h then at' out t * at' w (overlap - 1 - t) - at' Y (Q + h - 1 - t) * at' w t
    else if t < overlap then at' out (overlap - 1 - t) * at' w (overlap - 1 - t) + at' Y (Q + t - h) * at' w t
    else if t < M + h then at' Y (Q + t - h)
    else at' out t

end Opus.Mdct
