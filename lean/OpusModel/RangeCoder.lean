import OpusModel.Basic
/-
  OpusModel.RangeCoder — executable transcription of the range coder.

  C sources:  celt/entcode.h (struct ec_ctx, ec_tell, celt_udiv), celt/entcode.c
              (ec_ilog, ec_tell_frac), celt/entenc.c (whole file), celt/entdec.c
              (whole file), celt/mfrngcod.h (constants), celt/ecintrin.h (EC_ILOG,
              EC_MINI).

  Conventions.
  * One structure `Ctx` mirrors `struct ec_ctx` (entcode.h:62-91); `Enc`/`Dec` are
    the same type, exactly as `ec_enc`/`ec_dec` are in C.
  * `buf` is the *physical* buffer handed to `ec_enc_init`/`ec_dec_init` (it may be
    longer than `storage`: guard bytes, or the tail cut off by `ec_enc_shrink`);
    the coder may only touch indices `< storage`.
  * `opus_uint32` fields are `Nat` with an explicit `% 2^32` (`u32`, `add32`,
    `sub32`, `mul32`) exactly where the C arithmetic is modulo 2^32.  `int`
    fields that can be negative (`rem`, `error`) are `Int`; `nbits_total` and
    `nend_bits` never leave the non-negative range for the parameter ranges the
    C code documents (1..25 raw bits per call) and are `Nat`.
  * Constants of mfrngcod.h are written as literals:
      EC_SYM_BITS 8, EC_CODE_BITS 32, EC_SYM_MAX 255, EC_CODE_SHIFT 23,
      EC_CODE_TOP 2^31, EC_CODE_BOT 2^23, EC_CODE_EXTRA 7, EC_UINT_BITS 8,
      EC_WINDOW_SIZE 32, BITRES 3.
  * Bit operations are written arithmetically where that is an identity on the
    value ranges of the C types (`x>>n` = `x / 2^n`, `x & (2^n-1)` = `x % 2^n`,
    `(x+m) & ~m` for `m = 2^k-1` = `(x+m) / 2^k * 2^k`, `e | m` for `e` a multiple
    of `2^k` = `e + m`); `|` of two arbitrary operands stays `|||`.
  * Loops: every C loop is its own function.  `while(rng<=EC_CODE_BOT)` would not
    terminate in C for `rng = 0` (a zero-probability symbol); the model stops
    there instead (guard `0 < rng`), no fuel is used anywhere.
  * Hardening assertions (`celt_assert`) are not part of the per-function
    transcriptions; they are the `Op.Legal` side conditions of the op layer.
-/
namespace Opus.RangeCoder
open Opus

/-! ### 32-bit helpers -/

/-- Truncation to `opus_uint32`. -/
@[inline] def u32 (x : Nat) : Nat := x % 4294967296
/-- `a + b` on `opus_uint32`. -/
@[inline] def add32 (a b : Nat) : Nat := (a + b) % 4294967296
/-- `a - b` on `opus_uint32` (wraps). -/
@[inline] def sub32 (a b : Nat) : Nat := (a % 4294967296 + 4294967296 - b % 4294967296) % 4294967296
/-- `IMUL32(a,b)` on unsigned operands (arch.h:98). -/
@[inline] def mul32 (a b : Nat) : Nat := a * b % 4294967296

/-- The entropy coder context (entcode.h:62-91). -/
structure Ctx where
  buf : List Nat          -- unsigned char *buf (physical buffer)
  storage : Nat           -- opus_uint32 storage
  endOffs : Nat           -- opus_uint32 end_offs
  endWindow : Nat         -- ec_window end_window (32 bit)
  nendBits : Nat          -- int nend_bits
  nbitsTotal : Nat        -- int nbits_total
  offs : Nat              -- opus_uint32 offs
  rng : Nat               -- opus_uint32 rng
  val : Nat               -- opus_uint32 val
  ext : Nat               -- opus_uint32 ext
  rem : Int               -- int rem
  error : Int             -- int error
  deriving Repr, DecidableEq, Inhabited

abbrev Enc := Ctx
abbrev Dec := Ctx

/-! ### entcode.c / entcode.h -/

/-- `EC_ILOG` / `ec_ilog` (ecintrin.h:80-86, entcode.c:41-63): number of bits of `v`,
    0 for 0 (the CLZ variant is undefined for 0; no caller passes 0). -/
def ilog (v : Nat) : Nat := if v = 0 then 0 else Nat.log2 v + 1

/-- `ec_tell` (entcode.h:110-112). -/
def tell (c : Ctx) : Int := (c.nbitsTotal : Int) - (ilog c.rng : Int)

/-- `correction[]` of `ec_tell_frac` (entcode.c:70-72). -/
def correction : List Nat := [35733, 38967, 42495, 46340, 50535, 55109, 60097, 65535]

/-- The fractional part `b` computed by the table variant of `ec_tell_frac`
    from `r = rng >> (l-16)` (entcode.c:79-81). -/
def fracTable (r : Nat) : Nat :=
  let b := r / 4096 - 8
  b + (if r > correction.getD b 0 then 1 else 0)

/-- `ec_tell_frac` (entcode.c:69-84, the `#if 1` variant). -/
def tellFrac (c : Ctx) : Nat :=
  let nbits := u32 (c.nbitsTotal * 8)
  let l := ilog c.rng
  let r := c.rng / 2 ^ (l - 16)
  sub32 nbits (l * 8 + fracTable r)

/-- One squaring step of the reference variant (entcode.c:106-111): `(r, b)`. -/
def fracSquareStep (r : Nat) : Nat × Nat :=
  let r2 := r * r / 32768
  let b := r2 / 65536
  (r2 / 2 ^ b, b)

/-- The three fractional bits computed by the `#else` variant of `ec_tell_frac`
    (entcode.c:86-114), as the number `b2 b1 b0`. -/
def fracSquare (r : Nat) : Nat :=
  let (r1, b2) := fracSquareStep r
  let (r2, b1) := fracSquareStep r1
  let (_, b0) := fracSquareStep r2
  b2 * 4 + b1 * 2 + b0

/-- `celt_udiv` (entcode.h:124-138; the table variant is exact by construction). -/
@[inline] def udiv (n d : Nat) : Nat := n / d

/-! ### entenc.c -/

/-- `ec_write_byte` (entenc.c:60-64) together with the caller's `error|=` . -/
def writeByte (c : Enc) (v : Nat) : Enc :=
  if c.offs + c.endOffs ≥ c.storage then { c with error := -1 }
  else { c with buf := c.buf.set c.offs (v % 256), offs := c.offs + 1 }

/-- `ec_write_byte_at_end` (entenc.c:66-70) together with the caller's `error|=`. -/
def writeByteAtEnd (c : Enc) (v : Nat) : Enc :=
  if c.offs + c.endOffs ≥ c.storage then { c with error := -1 }
  else { c with buf := c.buf.set (c.storage - (c.endOffs + 1)) (v % 256), endOffs := c.endOffs + 1 }

/-- The `do … while(--ext>0)` loop of `ec_enc_carry_out` (entenc.c:94-95), entered
    with `n = ext > 0`. -/
def flushExt (sym : Nat) : Nat → Enc → Enc
  | 0, c => c
  | n + 1, c => flushExt sym n { writeByte c sym with ext := n }

/-- `ec_enc_carry_out` (entenc.c:83-100); `cc` is the `int _c` (0..511). -/
def carryOut (c : Enc) (cc : Nat) : Enc :=
  if cc ≠ 255 then
    let carry := cc / 256
    let c1 := if c.rem ≥ 0 then writeByte c (c.rem.toNat + carry) else c
    let c2 := if c1.ext > 0 then flushExt ((255 + carry) % 256) c1.ext c1 else c1
    { c2 with rem := ((cc % 256 : Nat) : Int) }
  else { c with ext := u32 (c.ext + 1) }

theorem writeByte_rng (c : Enc) (v : Nat) : (writeByte c v).rng = c.rng := by
  unfold writeByte; split <;> rfl

theorem flushExt_rng (sym : Nat) : ∀ (n : Nat) (c : Enc), (flushExt sym n c).rng = c.rng
  | 0, _ => rfl
  | n + 1, c => by
    unfold flushExt; rw [flushExt_rng sym n]; exact writeByte_rng c sym

theorem carryOut_rng (c : Enc) (cc : Nat) : (carryOut c cc).rng = c.rng := by
  unfold carryOut
  split
  · simp only
    split <;> split <;> simp [flushExt_rng, writeByte_rng]
  · rfl

/-- `ec_enc_normalize` (entenc.c:102-111). -/
def encNormalize (c : Enc) : Enc :=
  if h : 0 < c.rng ∧ c.rng ≤ 8388608 then
    let c1 := carryOut c (c.val / 8388608)
    encNormalize { c1 with val := c.val * 256 % 2147483648,
                           rng := u32 (c.rng * 256),
                           nbitsTotal := c.nbitsTotal + 8 }
  else c
termination_by 8388609 - c.rng
decreasing_by simp only [u32]; omega

/-- `ec_enc_init` (entenc.c:113-127); `buf` is the caller's (physical) buffer. -/
def encInit (buf : List Nat) (size : Nat) : Enc :=
  { buf := buf, storage := size, endOffs := 0, endWindow := 0, nendBits := 0,
    nbitsTotal := 33, offs := 0, rng := 2147483648, val := 0, ext := 0, rem := -1, error := 0 }

/-- `ec_encode` (entenc.c:129-138). -/
def encode (c : Enc) (fl fh ft : Nat) : Enc :=
  let r := udiv c.rng ft
  encNormalize
    (if fl > 0 then
      { c with val := add32 c.val (sub32 c.rng (mul32 r (sub32 ft fl))), rng := mul32 r (sub32 fh fl) }
     else { c with rng := sub32 c.rng (mul32 r (sub32 ft fh)) })

/-- `ec_encode_bin` (entenc.c:140-149). -/
def encodeBin (c : Enc) (fl fh bits : Nat) : Enc :=
  let r := c.rng / 2 ^ bits
  encNormalize
    (if fl > 0 then
      { c with val := add32 c.val (sub32 c.rng (mul32 r (sub32 (u32 (2 ^ bits)) fl))), rng := mul32 r (sub32 fh fl) }
     else { c with rng := sub32 c.rng (mul32 r (sub32 (u32 (2 ^ bits)) fh)) })

/-- `ec_enc_bit_logp` (entenc.c:151-163). -/
def encBitLogp (c : Enc) (v logp : Nat) : Enc :=
  let r := c.rng
  let l := c.val
  let s := r / 2 ^ logp
  let r := sub32 r s
  encNormalize
    (if v ≠ 0 then { c with val := add32 l r, rng := s } else { c with rng := r })

/-- `ec_enc_icdf` (entenc.c:165-174) and `ec_enc_icdf16` (entenc.c:176-185): the two
    functions differ only in the element type of the table. The difference
    `icdf[s-1]-icdf[s]` is computed in `int` and converted to unsigned by `IMUL32`. -/
def encIcdf (c : Enc) (s : Nat) (icdf : List Nat) (ftb : Nat) : Enc :=
  let r := c.rng / 2 ^ ftb
  encNormalize
    (if s > 0 then
      { c with val := add32 c.val (sub32 c.rng (mul32 r (icdf.getD (s - 1) 0))),
               rng := mul32 r (sub32 (icdf.getD (s - 1) 0) (icdf.getD s 0)) }
     else { c with rng := sub32 c.rng (mul32 r (icdf.getD s 0)) })

/-- `ec_enc_icdf16` (entenc.c:176-185). -/
def encIcdf16 (c : Enc) (s : Nat) (icdf : List Nat) (ftb : Nat) : Enc := encIcdf c s icdf ftb

/-- The `do … while(used>=EC_SYM_BITS)` loop of `ec_enc_bits` (entenc.c:217-222):
    returns the context and the locals `window`, `used`. -/
def encBitsFlush (c : Enc) (window used : Nat) : Enc × Nat × Nat :=
  let c1 := writeByteAtEnd c (window % 256)
  if h : used - 8 ≥ 8 then encBitsFlush c1 (window / 256) (used - 8)
  else (c1, window / 256, used - 8)
termination_by used
decreasing_by omega

/-- `ec_enc_bits` (entenc.c:210-229). -/
def encBits (c : Enc) (fl bits : Nat) : Enc :=
  let st := if c.nendBits + bits > 32 then encBitsFlush c c.endWindow c.nendBits
            else (c, c.endWindow, c.nendBits)
  let c1 := st.1
  let window := st.2.1
  let used := st.2.2
  { c1 with endWindow := window ||| u32 (fl <<< used),
            nendBits := used + bits,
            nbitsTotal := c1.nbitsTotal + bits }

/-- `ec_enc_uint` (entenc.c:187-208). -/
def encUint (c : Enc) (fl ft : Nat) : Enc :=
  let ft1 := ft - 1
  let ftb := ilog ft1
  if ftb > 8 then
    let ftb := ftb - 8
    let ft' := ft1 / 2 ^ ftb + 1
    let fl' := fl / 2 ^ ftb
    encBits (encode c fl' (fl' + 1) ft') (fl % 2 ^ ftb) ftb
  else encode c fl (fl + 1) (ft1 + 1)

/-- `(b & ~mask) | v<<shift` for a byte `b`, `shift = 8 - nbits`,
    `mask = ((1<<nbits)-1)<<shift` (entenc.c:235-240). -/
def patchByte (b v nbits : Nat) : Nat := (b % 2 ^ (8 - nbits)) ||| (v <<< (8 - nbits))

/-- `ec_enc_patch_initial_bits` (entenc.c:231-258). -/
def encPatchInitialBits (c : Enc) (v nbits : Nat) : Enc :=
  let shift := 8 - nbits
  if c.offs > 0 then
    { c with buf := c.buf.set 0 (patchByte (c.buf.getD 0 0) v nbits % 256) }
  else if c.rem ≥ 0 then
    { c with rem := ((patchByte c.rem.toNat v nbits : Nat) : Int) }
  else if c.ext > 0 then
    -- the first byte is a buffered 0xFF (rem = -1: it can no longer receive a carry)
    { c with rem := ((patchByte 255 v nbits : Nat) : Int), ext := c.ext - 1 }
  else if c.rng ≤ 2147483648 / 2 ^ nbits then
    { c with val := (c.val % 2 ^ (23 + shift) + c.val / 2147483648 * 2147483648) |||
                    u32 (v <<< (23 + shift)) }
  else { c with error := -1 }

/-- `ec_enc_shrink` (entenc.c:260-265): `memmove` of the raw-bit bytes to the end
    of the smaller buffer. -/
def encShrink (c : Enc) (size : Nat) : Enc :=
  let tail := (c.buf.drop (c.storage - c.endOffs)).take c.endOffs
  { c with buf := c.buf.take (size - c.endOffs) ++ tail ++ c.buf.drop size, storage := size }

/-- The `while(l>0)` loop of `ec_enc_done` (entenc.c:283-287): returns the context
    and the final `l` (≤ 0). -/
def encDoneOut (c : Enc) (end_ : Nat) (l : Int) : Enc × Int :=
  if h : l > 0 then
    encDoneOut (carryOut c (end_ / 8388608)) (end_ * 256 % 2147483648) (l - 8)
  else (c, l)
termination_by l.toNat
decreasing_by omega

/-- The `while(used>=EC_SYM_BITS)` loop of `ec_enc_done` (entenc.c:293-297). -/
def encDoneFlush (c : Enc) (window used : Nat) : Enc × Nat × Nat :=
  if h : used ≥ 8 then encDoneFlush (writeByteAtEnd c (window % 256)) (window / 256) (used - 8)
  else (c, window, used)
termination_by used
decreasing_by omega

/-- Computation of `l`, `end` at the top of `ec_enc_done` (entenc.c:274-282). -/
def encDoneEnd (c : Enc) : Int × Nat :=
  let l : Int := 32 - (ilog c.rng : Int)
  let msk := 2147483647 / 2 ^ l.toNat
  let end_ := u32 (c.val + msk) / (msk + 1) * (msk + 1)
  if end_ + msk ≥ u32 (c.val + c.rng) then
    let msk := msk / 2
    (l + 1, u32 (c.val + msk) / (msk + 1) * (msk + 1))
  else (l, end_)

/-- `OPUS_CLEAR(buf+offs, storage-offs-end_offs)` (entenc.c:300-301). -/
def clearMiddle (c : Enc) : Enc :=
  { c with buf := c.buf.take c.offs ++ List.replicate (c.storage - c.offs - c.endOffs) 0 ++
                  c.buf.drop (c.offs + (c.storage - c.offs - c.endOffs)) }

/-- The tail of `ec_enc_done` after the flush loops (entenc.c:299-318);
    `l` is the value left by the `while(l>0)` loop, `window`/`used` the locals. -/
def encDoneTail (c : Enc) (l : Int) (window used : Nat) : Enc :=
  if c.error = 0 then
    let c := clearMiddle c
    if used > 0 then
      if c.endOffs ≥ c.storage then { c with error := -1 }
      else
        let l := (-l).toNat
        let i := c.storage - c.endOffs - 1
        if c.offs + c.endOffs ≥ c.storage ∧ l < used then
          { c with buf := c.buf.set i ((c.buf.getD i 0) ||| (window % 2 ^ l % 256)), error := -1 }
        else { c with buf := c.buf.set i ((c.buf.getD i 0) ||| (window % 256)) }
    else c
  else c

/-- `ec_enc_done` (entenc.c:267-319). -/
def encDone (c : Enc) : Enc :=
  let (l, end_) := encDoneEnd c
  let (c1, l1) := encDoneOut c end_ l
  let c2 := if c1.rem ≥ 0 ∨ c1.ext > 0 then carryOut c1 0 else c1
  let (c3, window, used) := encDoneFlush c2 c2.endWindow c2.nendBits
  encDoneTail c3 l1 window used

/-! ### entdec.c -/

/-- `ec_read_byte` (entdec.c:91-93): `(byte, ctx)`. -/
def readByte (c : Dec) : Nat × Dec :=
  if c.offs < c.storage then (c.buf.getD c.offs 0, { c with offs := c.offs + 1 }) else (0, c)

/-- `ec_read_byte_from_end` (entdec.c:95-98). -/
def readByteFromEnd (c : Dec) : Nat × Dec :=
  if c.endOffs < c.storage then
    (c.buf.getD (c.storage - (c.endOffs + 1)) 0, { c with endOffs := c.endOffs + 1 })
  else (0, c)

/-- `ec_dec_normalize` (entdec.c:102-117). -/
def decNormalize (c : Dec) : Dec :=
  if h : 0 < c.rng ∧ c.rng ≤ 8388608 then
    let (b, c1) := readByte c
    let sym := (c.rem.toNat * 256 + b) / 2
    decNormalize { c1 with nbitsTotal := c.nbitsTotal + 8,
                           rng := u32 (c.rng * 256),
                           rem := (b : Int),
                           val := (u32 (c.val * 256) + (255 - sym % 256)) % 2147483648 }
  else c
termination_by 8388609 - c.rng
decreasing_by
  have : (readByte c).2.rng = c.rng := by unfold readByte; split <;> rfl
  simp only [u32]; omega

/-- `ec_dec_init` (entdec.c:119-135). -/
def decInit (buf : List Nat) (storage : Nat) : Dec :=
  let c0 : Dec := { buf := buf, storage := storage, endOffs := 0, endWindow := 0, nendBits := 0,
                    nbitsTotal := 9, offs := 0, rng := 128, val := 0, ext := 0, rem := 0, error := 0 }
  let (b, c1) := readByte c0
  decNormalize { c1 with rem := (b : Int), val := sub32 (128 - 1) (b / 2) }

/-- `EC_MINI` on unsigned operands (ecintrin.h:44). -/
@[inline] def mini (a b : Nat) : Nat := if b < a then b else a

/-- `ec_decode` (entdec.c:137-142): `(fs, ctx)`. -/
def decode (c : Dec) (ft : Nat) : Nat × Dec :=
  let ext := udiv c.rng ft
  let s := u32 (c.val / ext)
  (sub32 ft (mini (u32 (s + 1)) ft), { c with ext := ext })

/-- `ec_decode_bin` (entdec.c:144-149). -/
def decodeBin (c : Dec) (bits : Nat) : Nat × Dec :=
  let ext := c.rng / 2 ^ bits
  let s := u32 (c.val / ext)
  (sub32 (u32 (2 ^ bits)) (mini (u32 (s + 1)) (u32 (2 ^ bits))), { c with ext := ext })

/-- `ec_dec_update` (entdec.c:151-157). -/
def decUpdate (c : Dec) (fl fh ft : Nat) : Dec :=
  let s := mul32 c.ext (sub32 ft fh)
  decNormalize { c with val := sub32 c.val s,
                        rng := if fl > 0 then mul32 c.ext (sub32 fh fl) else sub32 c.rng s }

/-- `ec_dec_bit_logp` (entdec.c:159-174): `(bit, ctx)`. -/
def decBitLogp (c : Dec) (logp : Nat) : Nat × Dec :=
  let r := c.rng
  let d := c.val
  let s := r / 2 ^ logp
  let ret := decide (d < s)
  (if ret then 1 else 0,
   decNormalize { c with val := if ret then d else sub32 d s, rng := if ret then s else sub32 r s })

/-- The `do … while(d<s)` loop of `ec_dec_icdf` (entdec.c:187-191) over the remaining
    table entries: returns `(ret, t, s)`.  `k` is the index of the head of the list.
    If the table is exhausted before an entry with `d >= r*icdf[k]` is found (the
    table has no terminating 0: the C code would read past it) the index returned
    is the table length, which is not a symbol. -/
def decIcdfLoop (r d : Nat) : List Nat → Nat → Nat → Nat × Nat × Nat
  | [], t, k => (k, t, 0)
  | x :: xs, t, k =>
    let s := mul32 r x
    if d < s then decIcdfLoop r d xs s (k + 1) else (k, t, s)

/-- `ec_dec_icdf` (entdec.c:176-196) and `ec_dec_icdf16` (entdec.c:198-218). -/
def decIcdf (c : Dec) (icdf : List Nat) (ftb : Nat) : Nat × Dec :=
  let r := c.rng / 2 ^ ftb
  let (ret, t, s) := decIcdfLoop r c.val icdf c.rng 0
  (ret, decNormalize { c with val := sub32 c.val s, rng := sub32 t s })

/-- `ec_dec_icdf16` (entdec.c:198-218). -/
def decIcdf16 (c : Dec) (icdf : List Nat) (ftb : Nat) : Nat × Dec := decIcdf c icdf ftb

/-- The `do … while(available<=EC_WINDOW_SIZE-EC_SYM_BITS)` loop of `ec_dec_bits`
    (entdec.c:256-260): returns the context and the locals `window`, `available`. -/
def decBitsFill (c : Dec) (window available : Nat) : Dec × Nat × Nat :=
  let (b, c1) := readByteFromEnd c
  let window := window ||| u32 (b <<< available)
  if h : available + 8 ≤ 24 then decBitsFill c1 window (available + 8)
  else (c1, window, available + 8)
termination_by 32 - available
decreasing_by omega

/-- `ec_dec_bits` (entdec.c:248-269): `(value, ctx)`. -/
def decBits (c : Dec) (bits : Nat) : Nat × Dec :=
  let st := if c.nendBits < bits then decBitsFill c c.endWindow c.nendBits
            else (c, c.endWindow, c.nendBits)
  let c1 := st.1
  let window := st.2.1
  let available := st.2.2
  (window % 2 ^ bits,
   { c1 with endWindow := window / 2 ^ bits,
             nendBits := available - bits,
             nbitsTotal := c1.nbitsTotal + bits })

/-- `ec_dec_uint` (entdec.c:220-246): `(value, ctx)`. -/
def decUint (c : Dec) (ft : Nat) : Nat × Dec :=
  let ft1 := ft - 1
  let ftb := ilog ft1
  if ftb > 8 then
    let ftb := ftb - 8
    let ft' := ft1 / 2 ^ ftb + 1
    let (s, c1) := decode c ft'
    let c2 := decUpdate c1 s (s + 1) ft'
    let (lo, c3) := decBits c2 ftb
    let t := u32 (s <<< ftb) ||| lo
    if t ≤ ft1 then (t, c3) else (ft1, { c3 with error := 1 })
  else
    let (s, c1) := decode c (ft1 + 1)
    (s, decUpdate c1 s (s + 1) (ft1 + 1))

/-! ### Operation layer (what a caller of the coder does) -/

/-- One entropy-coding operation with its arguments.  For `icdf`/`icdf16` the
    table is part of the operation (caller data). -/
inductive Op where
  | encode (fl fh ft : Nat)              -- ec_encode / ec_decode + ec_dec_update
  | encodeBin (fl fh bits : Nat)         -- ec_encode_bin / ec_decode_bin + ec_dec_update
  | bitLogp (v logp : Nat)               -- ec_enc_bit_logp / ec_dec_bit_logp
  | icdf (s : Nat) (tbl : List Nat) (ftb : Nat)     -- ec_enc_icdf / ec_dec_icdf
  | icdf16 (s : Nat) (tbl : List Nat) (ftb : Nat)   -- ec_enc_icdf16 / ec_dec_icdf16
  | uint (v ft : Nat)                    -- ec_enc_uint / ec_dec_uint
  | bits (v n : Nat)                     -- ec_enc_bits / ec_dec_bits
  | patchInitial (v n : Nat)             -- ec_enc_patch_initial_bits (encoder only)
  | shrink (size : Nat)                  -- ec_enc_shrink (encoder only)
  deriving Repr, DecidableEq, Inhabited

/-- The encoder call of an operation. -/
def encOp (c : Enc) : Op → Enc
  | .encode fl fh ft => encode c fl fh ft
  | .encodeBin fl fh bits => encodeBin c fl fh bits
  | .bitLogp v logp => encBitLogp c v logp
  | .icdf s tbl ftb => encIcdf c s tbl ftb
  | .icdf16 s tbl ftb => encIcdf16 c s tbl ftb
  | .uint v ft => encUint c v ft
  | .bits v n => encBits c v n
  | .patchInitial v n => encPatchInitialBits c v n
  | .shrink size => encShrink c size

/-- The decoder call(s) mirroring an operation: `(value returned, ctx)`.
    For `encode`/`encodeBin` the value is the cumulative frequency returned by
    `ec_decode`/`ec_decode_bin`; the decoder then calls `ec_dec_update` with the
    `(fl, fh)` of the symbol that contains it (here: the operation's).
    Encoder-only operations leave the decoder untouched and return 0. -/
def decOp (c : Dec) : Op → Nat × Dec
  | .encode fl fh ft => let (fs, c1) := decode c ft; (fs, decUpdate c1 fl fh ft)
  | .encodeBin fl fh bits => let (fs, c1) := decodeBin c bits; (fs, decUpdate c1 fl fh (u32 (2 ^ bits)))
  | .bitLogp _ logp => decBitLogp c logp
  | .icdf _ tbl ftb => decIcdf c tbl ftb
  | .icdf16 _ tbl ftb => decIcdf16 c tbl ftb
  | .uint _ ft => decUint c ft
  | .bits _ n => decBits c n
  | .patchInitial _ _ => (0, c)
  | .shrink _ => (0, c)

/-- Does the value `x` returned by the decoder agree with what the operation encoded? -/
def Op.Matches : Op → Nat → Prop
  | .encode fl fh _, x => fl ≤ x ∧ x < fh
  | .encodeBin fl fh _, x => fl ≤ x ∧ x < fh
  | .bitLogp v _, x => x = (if v ≠ 0 then 1 else 0)
  | .icdf s _ _, x => x = s
  | .icdf16 s _ _, x => x = s
  | .uint v _, x => x = v
  | .bits v _, x => x = v
  | .patchInitial _ _, _ => True
  | .shrink _, _ => True

instance (op : Op) (x : Nat) : Decidable (op.Matches x) := by
  cases op <;> unfold Op.Matches <;> infer_instance

/-- An inverse-CDF table usable for symbol `s` with `ftb` bits of precision:
    entries below `2^ftb`... non-increasing up to `s`, strictly decreasing at `s`
    (non-zero probability), and the table is terminated by `0`. -/
def IcdfOk (tbl : List Nat) (ftb : Nat) : Prop :=
  tbl ≠ [] ∧ tbl.getLast? = some 0 ∧ tbl.Pairwise (· > ·) ∧ tbl.headD 0 < 2 ^ ftb

instance (tbl : List Nat) (ftb : Nat) : Decidable (IcdfOk tbl ftb) := by
  unfold IcdfOk; infer_instance

/-- Legal parameters of an operation (the documented domain of the C functions;
    the `celt_assert`s of entenc.c are implied). -/
def Op.Legal : Op → Prop
  | .encode fl fh ft => fl < fh ∧ fh ≤ ft ∧ 1 ≤ ft ∧ ft ≤ 65536
  | .encodeBin fl fh nb => fl < fh ∧ fh ≤ 2 ^ nb ∧ 1 ≤ nb ∧ nb ≤ 16
  | .bitLogp _ logp => 1 ≤ logp ∧ logp ≤ 15
  | .icdf s tbl ftb => IcdfOk tbl ftb ∧ s < tbl.length ∧ ftb ≤ 8
  | .icdf16 s tbl ftb => IcdfOk tbl ftb ∧ s < tbl.length ∧ ftb ≤ 16
  | .uint v ft => 2 ≤ ft ∧ ft ≤ 4294967295 ∧ v < ft
  | .bits v n => 1 ≤ n ∧ n ≤ 25 ∧ v < 2 ^ n
  | .patchInitial v n => n ≤ 8 ∧ v < 2 ^ n
  | .shrink _ => True

instance (op : Op) : Decidable op.Legal := by
  cases op <;> unfold Op.Legal <;> infer_instance

/-- Run the encoder over a list of operations. -/
def encRun (c : Enc) : List Op → Enc
  | [] => c
  | op :: ops => encRun (encOp c op) ops

/-- Run the decoder over a list of operations, collecting the returned values. -/
def decRun (c : Dec) : List Op → List Nat × Dec
  | [] => ([], c)
  | op :: ops =>
    let (x, c1) := decOp c op
    let (xs, c2) := decRun c1 ops
    (x :: xs, c2)

/-- Encode a whole sequence into a fresh buffer and finish the stream. -/
def encodeAll (buf : List Nat) (size : Nat) (ops : List Op) : Enc :=
  encDone (encRun (encInit buf size) ops)

end Opus.RangeCoder
