import OpusModel.SilkPlcConcealFix
import OpusModel.SilkParams.Lpc
/-
  OpusModel.SilkPlcCng — bit-exact value model of silk/CNG.c: silk_CNG_exc (:36-60), silk_CNG_Reset (:62-77),
  silk_CNG (:80-190).  `silk_NLSF2A` is C18's `nlsf2a` (imported read-only); the synthesis loop is
  `lpcSynth` (shared with the concealment).
-/
namespace Opus.SilkPlc
open Opus Opus.SilkParams Opus.Gen.SilkPlcCngConsts

/-- `silk_CNG_struct` (structs.h:273-280). -/
structure Cng where
  excBuf : List Int           -- CNG_exc_buf_Q14[ MAX_FRAME_LENGTH ]
  smthNLSF : List Int         -- CNG_smth_NLSF_Q15[ MAX_LPC_ORDER ]
  synthState : List Int       -- CNG_synth_state[ MAX_LPC_ORDER ]
  smthGain : Int              -- CNG_smth_Gain_Q16
  randSeed : Int
  fsKHz : Int
  deriving DecidableEq, Repr

/-- Everything silk_CNG reads besides its own state. -/
structure CngIn where
  fsKHz : Int
  nbSubfr : Nat
  subfrLength : Nat
  lpcOrder : Nat
  lossCnt : Int
  prevSignalType : Int
  prevNLSF : List Int         -- prevNLSF_Q15[ MAX_LPC_ORDER ]
  excQ14 : List Int           -- exc_Q14[ MAX_FRAME_LENGTH ]
  gains : List Int            -- psDecCtrl->Gains_Q16[ MAX_NB_SUBFR ]
  randScale : Int             -- sPLC.randScale_Q14
  prevGain1 : Int             -- sPLC.prevGain_Q16[ 1 ]
  deriving DecidableEq, Repr

/-- `silk_CNG_Reset` (CNG.c:62-77). -/
def cngReset (order : Nat) (c : Cng) : Cng :=
  let step := div32 32767 ((order : Int) + 1)
  { c with smthNLSF := ((List.range order).map fun (i : Nat) => wrap16 (((i : Int) + 1) * step)) ++ c.smthNLSF.drop order,
           smthGain := 0, randSeed := 3176576 }

/-- CNG.c:93-98. -/
def cngRateCheck (x : CngIn) (c : Cng) : Cng :=
  if x.fsKHz ≠ c.fsKHz then { cngReset x.lpcOrder c with fsKHz := x.fsKHz } else c

/-- NLSF smoothing CNG.c:103-105 (`order` entries; the store into `opus_int16` truncates). -/
def cngSmoothNlsf (order : Nat) (prev smth : List Int) : List Int :=
  ((List.range order).map fun i =>
      wrap16 (smth.getD i 0 + smulwb (prev.getD i 0 - smth.getD i 0) CNG_NLSF_SMTH_Q16)) ++ smth.drop order

/-- The sub-frame with the highest gain, CNG.c:107-114: `cngArgMax gains i max subfr`. -/
def cngArgMax : List Int → Nat → Int → Nat → Nat
  | [], _, _, s => s
  | g :: gs, i, m, s => if g > m then cngArgMax gs (i + 1) g i else cngArgMax gs (i + 1) m s

/-- Gain smoothing CNG.c:120-126. -/
def cngSmoothGain : List Int → Int → Int
  | [], sg => sg
  | g :: gs, sg =>
    let sg := sg + smulwb (g - sg) CNG_GAIN_SMTH_Q16
    cngSmoothGain gs (if smulww sg CNG_GAIN_SMTH_THRESHOLD_Q16 > g then g else sg)

/-- The update on a good inactive frame, CNG.c:99-127. -/
def cngUpdate (x : CngIn) (c : Cng) : Cng :=
  let g := x.gains.take x.nbSubfr
  let subfr := cngArgMax g 0 0 0
  let keep := (x.nbSubfr - 1) * x.subfrLength
  { c with smthNLSF := cngSmoothNlsf x.lpcOrder x.prevNLSF c.smthNLSF,
           excBuf := (x.excQ14.drop (subfr * x.subfrLength)).take x.subfrLength ++ c.excBuf.take keep
                       ++ c.excBuf.drop (x.subfrLength + keep),
           smthGain := cngSmoothGain g c.smthGain }

/-- `exc_mask` of CNG.c:46-49; `n` bounds the number of halvings (8 suffice for 255). -/
def cngMask (length : Int) : Nat → Int → Int
  | 0, m => m
  | n + 1, m => if m > length then cngMask length n (shrI m 1) else m

/-- `silk_CNG_exc` (CNG.c:36-60): `(exc_Q14[0..length), new seed)`. -/
def cngExc (buf : Array Int) (mask : Int) : Nat → Int → List Int × Int
  | 0, seed => ([], seed)
  | n + 1, seed =>
    let seed := silkRand seed
    let idx := shrI seed 24 % (mask + 1)                               -- silk_RSHIFT( seed, 24 ) & exc_mask
    let r := cngExc buf mask n seed
    (agetI buf idx :: r.1, r.2)

/-- `gain_Q16` of CNG.c:135-144 (before the `>> 6`). -/
def cngGainQ16 (randScale prevGain1 smthGain : Int) : Int :=
  let g := smulww randScale prevGain1
  if g ≥ 2097152 ∨ smthGain > 8388608 then
    let g := smultt g g
    let g := subLshift32 (smultt smthGain smthGain) g 5
    lshift32 (sqrtApprox g) 16
  else
    let g := smulww g g
    let g := subLshift32 (smulww smthGain smthGain) g 5
    lshift32 (sqrtApprox g) 8

/-- `silk_CNG(psDec, psDecCtrl, frame, length)` with `length = frame.length`: the frame and the new CNG state. -/
def silkCNG (x : CngIn) (c0 : Cng) (frame : List Int) : Res (List Int × Cng) :=
  let c := cngRateCheck x c0
  let c := if x.lossCnt = 0 ∧ x.prevSignalType = TYPE_NO_VOICE_ACTIVITY then cngUpdate x c else c
  if x.lossCnt ≠ 0 then
    let gainQ10 := shrI (cngGainQ16 x.randScale x.prevGain1 c.smthGain) 6
    let mask := cngMask frame.length 8 CNG_BUF_MASK_MAX
    let e := cngExc c.excBuf.toArray mask frame.length c.randSeed
    match nlsf2a (c.smthNLSF.take x.lpcOrder) with
    | .ok A =>
      let r := lpcSynth A gainQ10 e.1 c.synthState.reverse
      .ok (List.zipWith addSat16 frame r.1,
           { c with randSeed := e.2, synthState := (r.2.take MAX_LPC_ORDER).reverse })
    | .abort => .abort
    | .oob => .oob
    | .err er => .err er
  else
    .ok (frame, { c with synthState := List.replicate x.lpcOrder 0 ++ c.synthState.drop x.lpcOrder })

end Opus.SilkPlc
