import OpusModel.Basic
import OpusModel.Gen.CeltTables
/-
  OpusModel.Laplace — the Laplace-like energy coder of celt/laplace.c at the *interval* level:

  * `encode value fs decay`  = the `(fl, fh)` pair (out of 32768) that `ec_laplace_encode` passes to
                               `ec_encode_bin(enc, fl, fl+fs, 15)` together with the clamped `*value`;
  * `decode fm fs decay`     = the value `ec_laplace_decode` returns and the `(fl, fh)` pair it passes to
                               `ec_dec_update(dec, fl, IMIN(fl+fs,32768), 32768)` when
                               `ec_decode_bin(dec, 15)` answered `fm`;
  * `encodeP0` / `decodeP0`  = the symbol sequences of the `_p0` variants (laplace.c:134-195) with the
                               two 16-bit ICDFs they build.

  The range coder itself is not modelled here (property C08).  LAPLACE_LOG_MINP, LAPLACE_MINP and
  LAPLACE_NMIN are the regenerated values (Gen.CeltTables).

  Arithmetic: C `unsigned` quantities are unbounded `Nat`; the only place where the C code *relies* on
  unsigned conversion (`ec_laplace_get_freq1`) is written with the explicit 2^32 wrap.  In the tail
  computation (`ndi_max`, `di`) the C code mixes `unsigned` and `int`; the model uses `Int`, which
  agrees with the C arithmetic as long as `fl ≤ 32768 + LAPLACE_MINP - 1` on entry to the tail
  (`OpusProofs.Laplace` shows `fl ≤ 32766` there for every parameter pair of the energy model).
  Core Lean only.
-/
namespace Opus.Laplace
open Opus
open Opus.Gen.CeltTables (laplaceLogMinP laplaceMinP laplaceNMin)

/-- `ec_laplace_get_freq1(fs0, decay)` (laplace.c:44-49):
    `ft = 32768 - LAPLACE_MINP*(2*LAPLACE_NMIN) - fs0; return ft*(opus_int32)(16384-decay)>>15;`
    in `unsigned` arithmetic (the `opus_int32` factor is converted to `unsigned`). -/
def getFreq1 (fs0 decay : Nat) : Nat :=
  let ft := (4294967296 + 32768 - laplaceMinP * (2 * laplaceNMin) - fs0) % 4294967296
  let d := (4294967296 + 16384 - decay) % 4294967296
  ft * d % 4294967296 / 32768

/-- "Search the decaying part of the PDF" of the encoder (laplace.c:65-70):
    `for (i=1; fs > 0 && i < val; i++) { fs *= 2; fl += fs+2*LAPLACE_MINP; fs = (fs*(opus_int32)decay)>>15; }`
    with `n = val - i` iterations left.  Returns `(fl, fs, i)`. -/
def encLoop (decay : Nat) : Nat → Nat → Nat → Nat → Nat × Nat × Nat
  | 0, fl, fs, i => (fl, fs, i)
  | n + 1, fl, fs, i =>
    if fs > 0 then
      let fs2 := fs * 2
      encLoop decay n (fl + fs2 + 2 * laplaceMinP) (fs2 * decay / 32768) (i + 1)
    else (fl, fs, i)

/-- `ec_laplace_encode(enc, &value, fs, decay)` (laplace.c:51-98): `(fl, fl+fs, *value)`;
    `.abort` when one of the two `celt_assert`s fires. -/
def encode (value : Int) (fs decay : Nat) : Res (Nat × Nat × Int) :=
  if value = 0 then .ok (0, fs, 0)                    -- fl = 0; ec_encode_bin(enc, 0, fs, 15)
  else
    let neg := decide (value < 0)                     -- s = -(val<0);
    let s : Int := if neg then -1 else 0
    let a := value.natAbs                             -- val = (val+s)^s;
    let r := encLoop decay (a - 1) fs (getFreq1 fs decay) 1
    let fl := r.1
    let f := r.2.1
    let i := r.2.2
    if f = 0 then
      -- "Everything beyond that has probability LAPLACE_MINP." (laplace.c:72-82)
      let ndi0 : Int := ((32768 : Int) - fl + laplaceMinP - 1) / 2 ^ laplaceLogMinP
      let ndiMax : Int := (ndi0 - s) / 2              -- ndi_max = (ndi_max-s)>>1;
      let di : Int := min ((a : Int) - i) (ndiMax - 1)
      let fl' : Int := fl + (2 * di + 1 + s) * laplaceMinP
      let fs' : Int := min (laplaceMinP : Int) (32768 - fl')
      let v : Int := i + di                           -- *value = (i+di+s)^s;
      if fl' < 0 ∨ fl' + fs' > 32768 ∨ fs' ≤ 0 then .abort
      else .ok (fl'.toNat, (fl' + fs').toNat, if neg then -v else v)
    else
      let fs' := f + laplaceMinP                      -- fs += LAPLACE_MINP;
      let fl' := if neg then fl else fl + fs'         -- fl += fs&~s;
      if fl' + fs' > 32768 then .abort
      else .ok (fl', fl' + fs', value)

/-- "Search the decaying part of the PDF" of the decoder (laplace.c:112-119):
    `while(fs > LAPLACE_MINP && fm >= fl+2*fs) { fs *= 2; fl += fs;
       fs = ((fs-2*LAPLACE_MINP)*(opus_int32)decay)>>15; fs += LAPLACE_MINP; val++; }`.
    Terminates because `fl` strictly increases towards `fm`. -/
def decLoop (decay fm : Nat) (fl fs val : Nat) : Nat × Nat × Nat :=
  if fs > laplaceMinP ∧ fm ≥ fl + 2 * fs then
    let fs2 := fs * 2
    decLoop decay fm (fl + fs2) ((fs2 - 2 * laplaceMinP) * decay / 32768 + laplaceMinP) (val + 1)
  else (fl, fs, val)
termination_by fm - fl
decreasing_by omega

/-- `ec_laplace_decode(dec, fs, decay)` (laplace.c:100-132) given `fm = ec_decode_bin(dec, 15)`:
    `(val, fl, IMIN(fl+fs,32768))`; `.abort` when one of the four `celt_assert`s fires. -/
def decode (fm fs decay : Nat) : Res (Int × Nat × Nat) :=
  let r : Int × Nat × Nat :=
    if fm ≥ fs then
      let st := decLoop decay fm fs (getFreq1 fs decay + laplaceMinP) 1
      let fl := st.1
      let f := st.2.1
      let val := st.2.2
      -- "Everything beyond that has probability LAPLACE_MINP." (laplace.c:121-127)
      let di := if f ≤ laplaceMinP then (fm - fl) / 2 ^ (laplaceLogMinP + 1) else 0
      let val := val + di
      let fl := fl + 2 * di * laplaceMinP
      if fm < fl + f then (-(val : Int), fl, f) else ((val : Int), fl + f, f)
    else (0, 0, fs)
  let val := r.1
  let fl := r.2.1
  let f := r.2.2
  let fh := min (fl + f) 32768
  if fl < 32768 ∧ f > 0 ∧ fl ≤ fm ∧ fm < fh then .ok (val, fl, fh) else .abort

/-! ## The `_p0` variants (laplace.c:134-195) at the symbol level -/

/-- `sign_icdf` (laplace.c:138-141, 168-171), entries are `opus_uint16`. -/
def signIcdf (p0 : Nat) : List Nat :=
  let a := (32768 + 65536 - p0) % 65536
  [a, a / 2, 0]

/-- `icdf[i] = IMAX(7-i, (icdf[i-1] * (opus_int32)decay) >> 15)` for `i = 1..6` (laplace.c:151-154), stored as
    `opus_uint16`; `n + 1 = 7 - i` entries are still to be produced. -/
def magIcdfFrom (decay : Nat) : Nat → Nat → List Nat
  | 0, _ => []
  | n + 1, prev =>
    let x := max (n + 1) (prev * decay / 32768) % 65536
    x :: magIcdfFrom decay n x

/-- The 8-entry magnitude ICDF: `icdf[0] = IMAX(7, decay)`, six decayed entries, `icdf[7] = 0`. -/
def magIcdf (decay : Nat) : List Nat :=
  let a := max 7 decay
  a :: (magIcdfFrom decay 6 a ++ [0])

/-- The `do { ec_enc_icdf16(enc, IMIN(value, 7), icdf, 15); value -= 7; } while (value >= 0);` loop
    (laplace.c:157-160): the symbols emitted for `value` (already decremented, ≥ 0). -/
def magSymbols (v : Nat) : List Nat :=
  if v < 7 then [v] else 7 :: magSymbols (v - 7)
termination_by v
decreasing_by omega

/-- `ec_laplace_encode_p0`: the symbols passed to `ec_enc_icdf16`, first with `sign_icdf`, the rest with
    the magnitude ICDF. -/
def encodeP0 (value : Int) : Nat × List Nat :=
  let s := if value = 0 then 0 else if value > 0 then 1 else 2
  (s, if value = 0 then [] else magSymbols (value.natAbs - 1))

/-- The `do { v = ec_dec_icdf16(dec, icdf, 15); value += v; } while (v == 7);` loop (laplace.c:186-189) on the
    list of symbols the range decoder delivers; returns the value and the unread symbols.
    `none`: the list ended before a symbol ≠ 7 arrived. -/
def magValue : List Nat → Nat → Option (Nat × List Nat)
  | [], _ => none
  | v :: vs, acc => if v = 7 then magValue vs (acc + v) else some (acc + v, vs)

/-- `ec_laplace_decode_p0` on the symbol stream `s :: rest`. -/
def decodeP0 (s : Nat) (rest : List Nat) : Option (Int × List Nat) :=
  if s = 0 then some (0, rest)
  else match magValue rest 1 with
    | none => none
    | some (m, rest') => some (if s = 2 then -(m : Int) else m, rest')

end Opus.Laplace
