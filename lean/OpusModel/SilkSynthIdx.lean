import OpusModel.Basic
import OpusModel.Gen.SilkSynth
/-
  OpusModel.SilkSynthIdx — INDEX / EXTENT model of the SILK synthesis interior (bridge from the
  parameter ranges proved in C18 to memory safety; C01 lists this interior as not covered).

  Only the index arithmetic is modelled, not the sample values: every function returns the list
  of array accesses `(array, [lo, hi), read/write)` the C code performs, in program order, as a
  function of the configuration (fs_kHz, nb_subfr), the decoded parameters (signal type, pitch
  lags, interpolation flag, gains) and the decoder state that enters index expressions
  (`lossCnt`, `prevSignalType`, `lagPrev`).  A `celt_assert` that would fire is the outcome
  `aborted = true` (hardening build: `celt_fatal` → `abort()`).

  TRUSTED READING.  The index expressions are hand-transcribed from the C source; each access
  cites file:line (pinned tree).  They are supported by a tie that does not go through this
  reading: harness/c18_synthidx*.c compiles the repo's own decode_core.c / LPC_analysis_filter.c
  with compiler-inserted memory-access callbacks (`-fsanitize=thread` instrumentation with
  recording `__tsan_read/write` stubs) and compares, per array, the recorded minimum / maximum
  element index read and written with `extents` of this model.

  Array sizes come from `Opus.Gen.SilkSynth` (regenerated with `sizeof` from silk/structs.h) or
  from the `ALLOC` calls of the function (cited).
-/
namespace Opus.SilkSynthIdx
open Opus Opus.Gen

/-- The arrays indexed by `silk_decode_core`. -/
inductive Arr where
  | sLTP          -- ALLOC( sLTP, ltp_mem_length, opus_int16 )                       decode_core.c:58
  | sLTP_Q15      -- ALLOC( sLTP_Q15, ltp_mem_length + frame_length, opus_int32 )    decode_core.c:59
  | res_Q14       -- ALLOC( res_Q14, subfr_length, opus_int32 )                      decode_core.c:60
  | sLPC_Q14      -- ALLOC( sLPC_Q14, subfr_length + MAX_LPC_ORDER, opus_int32 )     decode_core.c:66 (non-clang)
  | exc_Q14       -- psDec->exc_Q14[ MAX_FRAME_LENGTH ]                              structs.h:291
  | outBuf        -- psDec->outBuf[ MAX_FRAME_LENGTH + 2 * MAX_SUB_FRAME_LENGTH ]    structs.h:293
  | sLPC_Q14_buf  -- psDec->sLPC_Q14_buf[ MAX_LPC_ORDER ]                            structs.h:292
  | predCoef      -- psDecCtrl->PredCoef_Q12[ 2 ][ MAX_LPC_ORDER ], flattened
  | ltpCoef       -- psDecCtrl->LTPCoef_Q14[ LTP_ORDER * MAX_NB_SUBFR ]
  | gains         -- psDecCtrl->Gains_Q16[ MAX_NB_SUBFR ]
  | pitchL        -- psDecCtrl->pitchL[ MAX_NB_SUBFR ]
  | xq            -- the output frame `xq[]` (caller: frame_length samples)
  | pulses        -- `pulses[]` (decode_frame.c:70: frame_length rounded up to SHELL_CODEC_FRAME_LENGTH)
  | aTmp          -- A_Q12_tmp[ MAX_LPC_ORDER ]                                      decode_core.c:47
  | quantOffsets  -- silk_Quantization_Offsets_Q10[ 2 ][ 2 ], flattened
  -- silk_PLC_conceal / silk_PLC_update / silk_CNG (model in OpusModel/SilkSynthIdxFrame.lean)
  | sLTP_Q14      -- ALLOC( sLTP_Q14, ltp_mem_length + frame_length, opus_int32 )    PLC.c:249
  | exc_buf       -- ALLOC( exc_buf, 2*subfr_length, opus_int16 )                    PLC.c:199
  | plcLtp        -- psDec->sPLC.LTPCoef_Q14[ LTP_ORDER ]
  | prevLPC       -- psDec->sPLC.prevLPC_Q12[ MAX_LPC_ORDER ]
  | prevGain      -- psDec->sPLC.prevGain_Q16[ 2 ]
  | aPlc          -- the local A_Q12[ MAX_LPC_ORDER ] of silk_PLC_conceal / silk_CNG
  | attTab        -- HARM_ATT_Q15 / PLC_RAND_ATTENUATE_*_Q15 [ NB_ATT = 2 ]           PLC.c:40-43
  | cngExcBuf     -- psDec->sCNG.CNG_exc_buf_Q14[ MAX_FRAME_LENGTH ]
  | cngSmthNlsf   -- psDec->sCNG.CNG_smth_NLSF_Q15[ MAX_LPC_ORDER ]
  | cngSynth      -- psDec->sCNG.CNG_synth_state[ MAX_LPC_ORDER ]
  | cngSig        -- ALLOC( CNG_sig_Q14, length + MAX_LPC_ORDER, opus_int32 )        CNG.c:131
  | prevNlsf      -- psDec->prevNLSF_Q15[ MAX_LPC_ORDER ]
  -- silk_decode_parameters (model in OpusModel/SilkSynthIdxParams.lean)
  | gainsIdx      -- psDec->indices.GainsIndices[ MAX_NB_SUBFR ]
  | ltpIdx        -- psDec->indices.LTPIndex[ MAX_NB_SUBFR ]
  | nlsfIdx       -- psDec->indices.NLSFIndices[ MAX_LPC_ORDER + 1 ]
  | ltpVqPtrs     -- silk_LTP_vq_ptrs_Q7[ NB_LTP_CBKS ]
  | ltpVq0        -- silk_LTP_gain_vq_0[ 8 ][ 5 ], flattened (tables_LTP.c)
  | ltpVq1        -- silk_LTP_gain_vq_1[ 16 ][ 5 ]
  | ltpVq2        -- silk_LTP_gain_vq_2[ 32 ][ 5 ]
  | ltpScales     -- silk_LTPScales_table_Q14[ 3 ]
  -- output stage of silk_Decode (model in OpusModel/SilkSynthIdxOut.lean)
  | tmpStore      -- ALLOC( samplesOut1_tmp_storage1, nChannelsInternal*(frame_length + 2), opus_int16 )   dec_API.c:314
  | out2          -- ALLOC( samplesOut2_tmp, *nSamplesOut, opus_int16 )                                    dec_API.c:379
  | samplesOut    -- the caller's output buffer: nChannelsAPI * nSamplesOut samples
  | sMid          -- psDec->sStereo.sMid[ 2 ]
  | sSide         -- psDec->sStereo.sSide[ 2 ]
  | predPrev      -- psDec->sStereo.pred_prev_Q13[ 2 ]
  | msPred        -- the local MS_pred_Q13[ 2 ]
  | delayBuf0     -- channel_state[ 0 ].resampler_state.delayBuf[ 48 ]
  | delayBuf1     -- channel_state[ 1 ].resampler_state.delayBuf[ 48 ]
  | tmp0          -- samplesOut1_tmp[ 0 ] = the first frame_length + 2 elements of the storage          dec_API.c:316
  | tmp1          -- samplesOut1_tmp[ 1 ] = the second frame_length + 2 elements (nChannelsInternal = 2)  dec_API.c:317
  deriving DecidableEq, Repr

def Arr.name : Arr → String
  | .sLTP => "sLTP" | .sLTP_Q15 => "sLTP_Q15" | .res_Q14 => "res_Q14" | .sLPC_Q14 => "sLPC_Q14"
  | .exc_Q14 => "exc_Q14" | .outBuf => "outBuf" | .sLPC_Q14_buf => "sLPC_Q14_buf"
  | .predCoef => "PredCoef_Q12" | .ltpCoef => "LTPCoef_Q14" | .gains => "Gains_Q16" | .pitchL => "pitchL"
  | .xq => "xq" | .pulses => "pulses" | .aTmp => "A_Q12_tmp" | .quantOffsets => "QuantOffsets"
  | .sLTP_Q14 => "sLTP_Q14" | .exc_buf => "exc_buf" | .plcLtp => "PLC_LTPCoef_Q14" | .prevLPC => "prevLPC_Q12"
  | .prevGain => "prevGain_Q16" | .aPlc => "A_Q12" | .attTab => "AttTab" | .cngExcBuf => "CNG_exc_buf_Q14"
  | .cngSmthNlsf => "CNG_smth_NLSF_Q15" | .cngSynth => "CNG_synth_state" | .cngSig => "CNG_sig_Q14"
  | .prevNlsf => "prevNLSF_Q15" | .gainsIdx => "GainsIndices" | .ltpIdx => "LTPIndex" | .nlsfIdx => "NLSFIndices"
  | .ltpVqPtrs => "LTP_vq_ptrs" | .ltpVq0 => "LTP_vq_0" | .ltpVq1 => "LTP_vq_1" | .ltpVq2 => "LTP_vq_2"
  | .ltpScales => "LTPScales" | .tmpStore => "samplesOut1_tmp_storage1" | .out2 => "samplesOut2_tmp"
  | .samplesOut => "samplesOut" | .sMid => "sMid" | .sSide => "sSide" | .predPrev => "pred_prev_Q13"
  | .msPred => "MS_pred_Q13" | .delayBuf0 => "delayBuf0" | .delayBuf1 => "delayBuf1" | .tmp0 => "tmp0" | .tmp1 => "tmp1"

def Arr.all : List Arr :=
  [.sLTP, .sLTP_Q15, .res_Q14, .sLPC_Q14, .exc_Q14, .outBuf, .sLPC_Q14_buf, .predCoef, .ltpCoef, .gains,
   .pitchL, .xq, .pulses, .aTmp, .quantOffsets, .sLTP_Q14, .exc_buf, .plcLtp, .prevLPC, .prevGain, .aPlc, .attTab,
   .cngExcBuf, .cngSmthNlsf, .cngSynth, .cngSig, .prevNlsf, .gainsIdx, .ltpIdx, .nlsfIdx, .ltpVqPtrs, .ltpVq0, .ltpVq1,
   .ltpVq2, .ltpScales, .tmpStore, .out2, .samplesOut, .sMid, .sSide, .predPrev, .msPred, .delayBuf0, .delayBuf1, .tmp0, .tmp1]

/-- One access: elements `[lo, hi)` of `arr`, read or written. -/
structure Acc where
  arr : Arr
  lo : Int
  hi : Int
  wr : Bool
  deriving DecidableEq, Repr

/-- What `silk_decoder_set_fs` (decoder_set_fs.c:47-48, 73-79) establishes for `fs_kHz` and
    `nb_subfr`. -/
structure Cfg where
  fsKHz : Int
  nbSubfr : Nat
  lpcOrder : Int
  ltpMem : Int
  subfr : Int
  frameLen : Int
  /-- only for the output stage of silk_Decode: channel counts and the API rate -/
  nChInt : Int := 1
  nChAPI : Int := 1
  apiKHz : Int := 48
  deriving Repr

def cfgOf (fsKHz : Int) (nb : Nat) : Cfg :=
  { fsKHz, nbSubfr := nb,
    lpcOrder := if fsKHz = 16 then SilkSynth.maxLpcOrder else SilkSynth.minLpcOrder,
    ltpMem := SilkSynth.ltpMemLengthMs * fsKHz,
    subfr := SilkSynth.subFrameLengthMs * fsKHz,
    frameLen := (nb : Int) * (SilkSynth.subFrameLengthMs * fsKHz) }

/-- Declared / allocated number of elements. -/
def Arr.size (c : Cfg) : Arr → Int
  | .sLTP => c.ltpMem
  | .sLTP_Q15 => c.ltpMem + c.frameLen
  | .res_Q14 => c.subfr
  | .sLPC_Q14 => c.subfr + SilkSynth.maxLpcOrder
  | .exc_Q14 => SilkSynth.szExcQ14
  | .outBuf => SilkSynth.szOutBuf
  | .sLPC_Q14_buf => SilkSynth.szSLpcQ14Buf
  | .predCoef => SilkSynth.szPredCoefRows * SilkSynth.szPredCoefCols
  | .ltpCoef => SilkSynth.szLtpCoef
  | .gains => SilkSynth.szGains
  | .pitchL => SilkSynth.szPitchL
  | .xq => c.frameLen
  | .pulses => (c.frameLen + (SilkSynth.shellCodecFrameLength - 1)) / SilkSynth.shellCodecFrameLength *
      SilkSynth.shellCodecFrameLength
  | .aTmp => SilkSynth.maxLpcOrder
  | .quantOffsets => SilkSynth.szQuantOffsetsRows * SilkSynth.szQuantOffsetsCols
  | .sLTP_Q14 => c.ltpMem + c.frameLen
  | .exc_buf => 2 * c.subfr
  | .plcLtp => SilkSynth.szPlcLtpCoef
  | .prevLPC => SilkSynth.szPlcPrevLpc
  | .prevGain => SilkSynth.szPlcPrevGain
  | .aPlc => SilkSynth.maxLpcOrder
  | .attTab => 2
  | .cngExcBuf => SilkSynth.szCngExcBuf
  | .cngSmthNlsf => SilkSynth.szCngSmthNlsf
  | .cngSynth => SilkSynth.szCngSynthState
  | .cngSig => c.frameLen + SilkSynth.maxLpcOrder
  | .prevNlsf => SilkSynth.szPrevNlsf
  | .gainsIdx => SilkSynth.szGainsIndices
  | .ltpIdx => SilkSynth.szLtpIndex
  | .nlsfIdx => SilkSynth.szNlsfIndices
  | .ltpVqPtrs => SilkSynth.nbLtpCbks
  | .ltpVq0 => SilkSynth.szLtpVq0
  | .ltpVq1 => SilkSynth.szLtpVq1
  | .ltpVq2 => SilkSynth.szLtpVq2
  | .ltpScales => SilkSynth.szLtpScales
  | .tmpStore => c.nChInt * (c.frameLen + 2)
  | .out2 => c.frameLen * c.apiKHz / c.fsKHz
  | .samplesOut => c.nChAPI * (c.frameLen * c.apiKHz / c.fsKHz)
  | .sMid => SilkSynth.szSMid
  | .sSide => SilkSynth.szSSide
  | .predPrev => SilkSynth.szPredPrev
  | .msPred => 2
  | .delayBuf0 => SilkSynth.szDelayBuf
  | .delayBuf1 => SilkSynth.szDelayBuf
  | .tmp0 => c.frameLen + 2
  | .tmp1 => if c.nChInt = 2 then c.frameLen + 2 else 0

/-- The access lies inside the array. -/
def Acc.inBounds (c : Cfg) (a : Acc) : Prop := 0 ≤ a.lo ∧ a.hi ≤ a.arr.size c

instance (c : Cfg) (a : Acc) : Decidable (a.inBounds c) := by unfold Acc.inBounds; infer_instance

/-- A read / a write of `[lo, hi)`; empty ranges (a loop that does not run) produce no access. -/
def rd (a : Arr) (lo hi : Int) : List Acc := if lo < hi then [⟨a, lo, hi, false⟩] else []
def wrt (a : Arr) (lo hi : Int) : List Acc := if lo < hi then [⟨a, lo, hi, true⟩] else []

/-- `silk_LPC_analysis_filter( &O[o0], &I[i0], &B[b0], len, d )` (LPC_analysis_filter.c:50-111, the
    non-`USE_CELT_FIR` branch): the three `celt_assert`s, then for `ix = d .. len-1` reads
    `in[ix-d .. ix]` and `B[0..d)` and writes `out[ix]`, then `memset( out, 0, d )`. -/
def lpcAnalysis (O : Arr) (o0 : Int) (I : Arr) (i0 : Int) (B : Arr) (b0 : Int) (len d : Int) : List Acc × Bool :=
  if d < 6 ∨ d % 2 ≠ 0 ∨ d > len then ([], true)
  else
    ((if d < len then rd I i0 (i0 + len) ++ rd B b0 (b0 + d) ++ wrt O (o0 + d) (o0 + len) else []) ++
      wrt O o0 (o0 + d), false)

/-- Inputs of `silk_decode_core` that enter index expressions. -/
structure CoreIn where
  fsKHz : Int
  nbSubfr : Nat
  signalType : Int            -- psDec->indices.signalType
  quantOffsetType : Int       -- psDec->indices.quantOffsetType
  interp : Bool               -- psDec->indices.NLSFInterpCoef_Q2 < 4      decode_core.c:71
  pitchL : List Int           -- psDecCtrl->pitchL[ 0..3 ] on entry
  lossCnt : Int               -- psDec->lossCnt
  prevSignalType : Int        -- psDec->prevSignalType
  lagPrev : Int               -- psDec->lagPrev
  gainDiff : List Bool        -- per sub-frame: Gains_Q16[k] != prev_gain_Q16            decode_core.c:116
  adjNe : List Bool           -- per sub-frame: gain_adj_Q16 != 1<<16 (oracle: silk_DIV32_varQ)  decode_core.c:169
  deriving Repr

def CoreIn.cfg (x : CoreIn) : Cfg := cfgOf x.fsKHz x.nbSubfr

/-- "Avoid abrupt transition from voiced PLC to unvoiced normal decoding" (decode_core.c:132-133). -/
def transition (x : CoreIn) (k : Nat) : Bool :=
  decide (x.lossCnt ≠ 0) && decide (x.prevSignalType = SilkSynth.typeVoiced) &&
    decide (x.signalType ≠ SilkSynth.typeVoiced) && decide ((k : Int) < SilkSynth.maxNbSubfr / 2)

/-- The lag used in sub-frame `k` (decode_core.c:139, 144). -/
def lagOf (x : CoreIn) (k : Nat) : Int := if transition x k then x.lagPrev else x.pitchL.getD k 0

/-- Sub-frame `k` is synthesised as voiced (decode_core.c:138, 142). -/
def voicedAt (x : CoreIn) (k : Nat) : Bool := transition x k || decide (x.signalType = SilkSynth.typeVoiced)

/-- decode_core.c:105-139: coefficient preload, gain reads, short-term state scaling, the
    transition branch. -/
def sfHead (x : CoreIn) (k : Nat) : List Acc :=
  let c := x.cfg
  let row := SilkSynth.szPredCoefCols * ((k : Int) / 2)
  rd .predCoef row (row + c.lpcOrder) ++ wrt .aTmp 0 c.lpcOrder ++                     -- :105-108
    rd .gains k (k + 1) ++                                                              -- :112-116
    (if x.gainDiff.getD k false then
       rd .sLPC_Q14 0 SilkSynth.maxLpcOrder ++ wrt .sLPC_Q14 0 SilkSynth.maxLpcOrder    -- :120-122
     else []) ++
    (if transition x k then
       wrt .ltpCoef ((k : Int) * SilkSynth.ltpOrder) ((k : Int) * SilkSynth.ltpOrder + SilkSynth.ltpOrder) ++  -- :135-136
         wrt .pitchL k (k + 1)                                                           -- :139
     else [])

/-- decode_core.c:142-176: re-whitening (k == 0, or k == 2 with NLSF interpolation) or rescaling of
    the LTP state; `pos` = `sLTP_buf_idx`.  Second component: `celt_assert( start_idx > 0 )` or an
    assertion of `silk_LPC_analysis_filter` fired. -/
def sfLtpState (x : CoreIn) (k : Nat) (pos : Int) : List Acc × Bool :=
  let c := x.cfg
  let lag := lagOf x k
  let half := SilkSynth.ltpOrder / 2
  if voicedAt x k then
    let rl := rd .pitchL k (k + 1)                                                       -- :144
    if k = 0 ∨ (k = 2 ∧ x.interp) then
      let startIdx := c.ltpMem - lag - c.lpcOrder - half                                 -- :149
      if startIdx ≤ 0 then (rl, true)                                                    -- :150
      else
        let cp := if k = 2 then rd .xq 0 (2 * c.subfr) ++ wrt .outBuf c.ltpMem (c.ltpMem + 2 * c.subfr) else []  -- :153
        let f := lpcAnalysis .sLTP startIdx .outBuf (startIdx + (k : Int) * c.subfr) .predCoef
          (SilkSynth.szPredCoefCols * ((k : Int) / 2)) (c.ltpMem - startIdx) c.lpcOrder  -- :156-157
        (rl ++ cp ++ f.1 ++
          (if f.2 then [] else
            rd .sLTP (c.ltpMem - (lag + half)) c.ltpMem ++ wrt .sLTP_Q15 (pos - (lag + half)) pos),  -- :164-166
         f.2)
    else
      (rl ++ (if x.adjNe.getD k false then
        rd .sLTP_Q15 (pos - (lag + half)) pos ++ wrt .sLTP_Q15 (pos - (lag + half)) pos else []), false)  -- :169-172
  else ([], false)

/-- decode_core.c:178-201: long-term prediction of one sub-frame. -/
def sfLtp (x : CoreIn) (k : Nat) (pos : Int) : List Acc :=
  let c := x.cfg
  let lag := lagOf x k
  let half := SilkSynth.ltpOrder / 2
  if voicedAt x k then
    rd .sLTP_Q15 (pos - lag + half - (SilkSynth.ltpOrder - 1)) (pos - lag + half + c.subfr) ++   -- :180-190
      rd .ltpCoef ((k : Int) * SilkSynth.ltpOrder) ((k : Int) * SilkSynth.ltpOrder + SilkSynth.ltpOrder) ++
      rd .exc_Q14 ((k : Int) * c.subfr) ((k : Int) * c.subfr + c.subfr) ++                 -- :193
      wrt .res_Q14 0 c.subfr ++ rd .res_Q14 0 c.subfr ++                                   -- :193, 196
      wrt .sLTP_Q15 pos (pos + c.subfr)                                                    -- :196-197
  else []

/-- decode_core.c:203-237: short-term prediction, output, state shift. -/
def sfLpc (x : CoreIn) (k : Nat) : List Acc :=
  let c := x.cfg
  let m := SilkSynth.maxLpcOrder
  rd .sLPC_Q14 (m - c.lpcOrder) (m + c.subfr - 1) ++ rd .aTmp 0 c.lpcOrder ++                 -- :208-225
    (if voicedAt x k then rd .res_Q14 0 c.subfr
     else rd .exc_Q14 ((k : Int) * c.subfr) ((k : Int) * c.subfr + c.subfr)) ++               -- :228 (pres_Q14)
    wrt .sLPC_Q14 m (m + c.subfr) ++ rd .sLPC_Q14 m (m + c.subfr) ++                           -- :228, 231
    wrt .xq ((k : Int) * c.subfr) ((k : Int) * c.subfr + c.subfr) ++                           -- :231
    rd .sLPC_Q14 c.subfr (c.subfr + m) ++ wrt .sLPC_Q14 0 m                                    -- :235

/-- Sub-frames `k, k+1, …` (`n` of them left): accesses, whether an assertion fired, final
    `sLTP_buf_idx`. -/
def coreLoop (x : CoreIn) : Nat → Nat → Int → List Acc × Bool × Int
  | 0, _, pos => ([], false, pos)
  | n + 1, k, pos =>
    let s := sfLtpState x k pos
    if s.2 then (sfHead x k ++ s.1, true, pos)
    else
      let pos' := if voicedAt x k then pos + x.cfg.subfr else pos
      let r := coreLoop x n (k + 1) pos'
      (sfHead x k ++ s.1 ++ sfLtp x k pos ++ sfLpc x k ++ r.1, r.2.1, r.2.2)

/-- decode_core.c:69-97: offset table read, excitation decoding, LPC state copy. -/
def corePrelude (x : CoreIn) : List Acc :=
  let c := x.cfg
  let q := SilkSynth.szQuantOffsetsCols * (x.signalType / 2) + x.quantOffsetType
  rd .quantOffsets q (q + 1) ++                                                               -- :69
    rd .pulses 0 c.frameLen ++ wrt .exc_Q14 0 c.frameLen ++ rd .exc_Q14 0 c.frameLen ++       -- :79-94
    rd .sLPC_Q14_buf 0 SilkSynth.maxLpcOrder ++ wrt .sLPC_Q14 0 SilkSynth.maxLpcOrder          -- :97

/-- `silk_decode_core`: all accesses and whether a `celt_assert` fired. -/
def coreAccesses (x : CoreIn) : List Acc × Bool :=
  let r := coreLoop x x.nbSubfr 0 x.cfg.ltpMem                                                 -- :101-103
  (corePrelude x ++ r.1 ++
    (if r.2.1 then [] else
      rd .sLPC_Q14 0 SilkSynth.maxLpcOrder ++ wrt .sLPC_Q14_buf 0 SilkSynth.maxLpcOrder),       -- :241
   r.2.1)

/-! ### initialised-before-read: the LTP state `sLTP_Q15` (a fresh stack array in every call) -/

/-- Sub-frames `k, k+1, …` of silk_decode_core with `pos` = sLTP_buf_idx and `[wlo, pos)` the part of `sLTP_Q15`
    written so far: `true` iff every read of `sLTP_Q15` hits an element written earlier in the same call.
    Re-whitening writes `[pos - lag - 2, pos)` (decode_core.c:164-166); the rescaling loop (:170-172) reads that
    range; the prediction of output sample `i` reads `pos + i - lag + 2 - j`, j = 0..4 (:180-189), which must lie at
    or above `wlo` and strictly below the element being written, i.e. `lag ≥ 3`. -/
def initLoop (x : CoreIn) : Nat → Nat → Int → Int → Bool
  | 0, _, _, _ => true
  | n + 1, k, pos, wlo =>
    if voicedAt x k then
      let lag := lagOf x k
      let lo := pos - (lag + SilkSynth.ltpOrder / 2)
      let rew := decide (k = 0 ∨ (k = 2 ∧ x.interp))
      let wlo1 := if rew ∧ lo < pos then min wlo lo else wlo
      let okAdj := rew || !(x.adjNe.getD k false) || decide (pos ≤ lo) || decide (wlo1 ≤ lo)
      let okLtp := decide (wlo1 ≤ lo) && decide (3 ≤ lag)
      okAdj && okLtp && initLoop x n (k + 1) (pos + x.cfg.subfr) wlo1
    else initLoop x n (k + 1) pos wlo

/-- silk_decode_core never reads an element of `sLTP_Q15` it has not written in the same call. -/
def coreInitOk (x : CoreIn) : Bool := initLoop x x.nbSubfr 0 x.cfg.ltpMem x.cfg.ltpMem

/-! ### extents (what the tie compares) -/

/-- `(min index, max index)` over the accesses of kind `wr` to `a`; `none` if there is none. -/
def extent (l : List Acc) (a : Arr) (wr : Bool) : Option (Int × Int) :=
  l.foldl (fun e x =>
    if x.arr = a ∧ x.wr = wr then
      match e with
      | none => some (x.lo, x.hi - 1)
      | some (lo, hi) => some (min lo x.lo, max hi (x.hi - 1))
    else e) none

def extStr : Option (Int × Int) → String
  | none => "-"
  | some (lo, hi) => s!"{lo}..{hi}"

/-- `name:r=lo..hi,w=lo..hi` for every array in `arrs`. -/
def extentsStr (l : List Acc) (arrs : List Arr) : String :=
  " ".intercalate (arrs.map fun a => s!"{a.name}:r={extStr (extent l a false)},w={extStr (extent l a true)}")

/-- `name=size` for the arrays a call allocates with `ALLOC` (the tie compares the sizes the C code requests). -/
def allocStr (c : Cfg) (arrs : List Arr) : String :=
  " ".intercalate (arrs.map fun a => s!"{a.name}={a.size c}")

end Opus.SilkSynthIdx
