import OpusModel.Layout
/-
  OpusModel.DelayChannels — which input channel the multistream encoder feeds into which stream side
  (property C04, clause "channels keep their identity").  `OpusModel.Layout` (channel layouts, `get_left/right/
  mono_channel`, the decoder's routing) belongs to property C10 and is imported read-only.  Core Lean only.
-/
namespace Opus.DelayChannels
open Opus Opus.Layout

/-- The input channel from which opus_multistream_encode_native fills the given side of a stream
    (src/opus_multistream_encoder.c:942-943 and 961); `-1` = none. -/
def encoderInput (l : ChannelLayout) : Src → Int
  | .left s => getLeftChannel l s (-1)
  | .right s => getRightChannel l s (-1)
  | .mono s => getMonoChannel l s (-1)
  | .zero => -1

/-- One `(*copy_channel_in)(dst, dst_stride, pcm, nb_channels, src_channel, frame_size, user_data)` call of the
    stream loop of opus_multistream_encode_native: destination stride, destination offset inside `buf`, source channel. -/
structure InCall where
  stride : Nat
  offset : Nat
  chan : Int
  deriving DecidableEq, Repr

/-- The copy-in calls of the stream loop (src/opus_multistream_encoder.c:928-966), streams `0 .. nb_streams-1`
    in order: two calls (left into `buf`, right into `buf+1`, stride 2) for a coupled stream, one (stride 1) for a
    mono stream. -/
def encoderCalls (l : ChannelLayout) : List InCall :=
  (List.range l.nbStreams).flatMap fun s =>
    if s < l.nbCoupled then
      [{ stride := 2, offset := 0, chan := encoderInput l (.left s) },
       { stride := 2, offset := 1, chan := encoderInput l (.right s) }]
    else [{ stride := 1, offset := 0, chan := encoderInput l (.mono s) }]

/-- The `ChannelLayout` that `opus_multistream_surround_encoder_init` hands to `init_impl`. -/
def layoutOfSurround (channels : Nat) (s : Surround) : ChannelLayout :=
  { nbChannels := channels, nbStreams := s.streams, nbCoupled := s.coupled, mapping := s.mapping }

/-- Every output channel of a layout gets back its own input channel (Bool, for kernel evaluation). -/
def identityOn (l : ChannelLayout) : Bool :=
  (List.range l.nbChannels).all fun c => decide (encoderInput l (expectedSrc l c) = (c : Int))

/-- Channel identity for the surround layouts of a family and channel count. -/
def surroundIdentity (channels family : Nat) : Bool :=
  match surroundLayout channels family with
  | .ok s => identityOn (layoutOfSurround channels s)
  | _ => false

end Opus.DelayChannels
