import OpusModel.Basic
import OpusModel.Gen.CeltTables
/-
  OpusModel.Cwrs — PVQ codeword enumeration (celt/cwrs.c, non-SMALL_FOOTPRINT, non-CUSTOM_MODES build)
  and the bits-to-pulses cache construction (celt/rate.c, celt/rate.h).

  * `U`, `V`            : the counting functions of the comment block cwrs.c:74-191, by their recurrence.
  * `Tab`, `pvqU`, `pvqV` : table access `CELT_PVQ_U_ROW[r][c]` abstracted (a read outside the row is `.oob`),
                          the macros `CELT_PVQ_U`, `CELT_PVQ_V` (cwrs.c:196-199).
  * `icwrs`, `cwrsi`     : the two static functions (cwrs.c:440-541), loop by loop.
  * `Utab`               : the table regenerated from /repo (Gen.CeltTables), `Umath` the mathematical one.
  * `Opus.Rate`          : `get_pulses`, `log2_frac`, `fits_in32`, `get_required_bits`, the index/bits part
                          of `compute_pulse_cache`, `bits2pulses`, `pulses2bits`.

  C `opus_uint32` values are unbounded `Nat` here; `OpusProps.C17.cache_reachable_fits` shows every
  quantity is `< 2^32` for each (N,K) the static mode can request, so no C arithmetic wraps there.
  Core Lean only.
-/
namespace Opus.Cwrs
open Opus

/-! ## Specification: U(N,K), V(N,K) (cwrs.c:74-150) -/

/-- Row `n+1` of U from row `n`: `U(n+1,0)=0`, `U(n+1,k+1)=U(n,k+1)+U(n+1,k)+U(n,k)`. -/
def Unext (prev : Nat → Nat) : Nat → Nat
  | 0 => 0
  | k + 1 => prev (k + 1) + Unext prev k + prev k

/-- `U(N,K) := N>0 ? K>0 ? U(N-1,K)+U(N,K-1)+U(N-1,K-1) : 0 : K>0 ? 0 : 1`  (cwrs.c:195, with the
    extension `U(0,K) = K>0 ? 0 : 1` of cwrs.c:114-116). -/
def U : Nat → Nat → Nat
  | 0 => fun k => match k with
    | 0 => 1
    | _ + 1 => 0
  | n + 1 => Unext (U n)

/-- `V(N,K) := U(N,K)+U(N,K+1)`, the number of PVQ codewords of dimension N with K pulses (cwrs.c:197-199). -/
def V (n k : Nat) : Nat := U n k + U n (k + 1)

/-! ## Table access -/

/-- `CELT_PVQ_U_ROW[r][c]`; `.oob` when the word is not inside row `r`. -/
abbrev Tab := Nat → Nat → Res Nat

/-- `CELT_PVQ_U(_n,_k) = CELT_PVQ_U_ROW[IMIN(_n,_k)][IMAX(_n,_k)]` (cwrs.c:196). -/
def pvqU (tab : Tab) (n k : Nat) : Res Nat := tab (min n k) (max n k)

/-- `CELT_PVQ_V(_n,_k) = CELT_PVQ_U(_n,_k)+CELT_PVQ_U(_n,_k+1)` (cwrs.c:199). -/
def pvqV (tab : Tab) (n k : Nat) : Res Nat := do
  let a ← pvqU tab n k
  let b ← pvqU tab n (k + 1)
  pure (a + b)

/-- The mathematical table: every word present. -/
def Umath : Tab := fun r c => .ok (U r c)

/-- The regenerated data as arrays (O(1) access in the compiled driver). -/
def pvqUArr : Array Nat := Gen.CeltTables.pvqUData.toArray
def rowOffArr : Array Nat := Gen.CeltTables.pvqURowOff.toArray

/-- One past the last word of row `r` (rows are stored back to back: row `r+1` starts at
    `CELT_PVQ_U_ROW[r+1]+(r+1)`; the last row ends with the array). -/
def rowEnd (r : Nat) : Nat :=
  match Gen.CeltTables.pvqURowOff[r + 1]? with
  | some o => o + (r + 1)
  | none => Gen.CeltTables.pvqUSize

def rowEndArr : Array Nat := ((List.range Gen.CeltTables.pvqURowOff.length).map rowEnd).toArray

/-- `CELT_PVQ_U_ROW[r][c]` on the regenerated table (cwrs.c:210-438). Row `r` holds the columns
    `r ≤ c`, `CELT_PVQ_U_ROW[r]+c < rowEnd r`. -/
def Utab : Tab := fun r c =>
  if h : r < rowOffArr.size then
    let off := rowOffArr[r]
    if r ≤ c ∧ off + c < rowEndArr.getD r 0 then
      if h2 : off + c < pvqUArr.size then .ok pvqUArr[off + c] else .oob
    else .oob
  else .oob

/-! ## icwrs (cwrs.c:440-459) -/

/-- One iteration of the `do … while(j>0)` loop for coordinate `y = _y[j]`, `m = _n-j`:
    `i+=CELT_PVQ_U(_n-j,k); k+=abs(_y[j]); if(_y[j]<0)i+=CELT_PVQ_U(_n-j,k+1);` (cwrs.c:452-456). -/
def icwrsStep (tab : Tab) (m : Nat) (y : Int) (ik : Nat × Nat) : Res (Nat × Nat) := do
  let u ← pvqU tab m ik.2
  let i := ik.1 + u
  let k := ik.2 + y.natAbs
  if y < 0 then do
    let u2 ← pvqU tab m (k + 1)
    pure (i + u2, k)
  else pure (i, k)

/-- The loop runs from the last coordinate to the first, so it is a recursion on the suffix
    `_y[j..n-1]` of dimension `m = _n-j`; the result is `(i, k)` after processing that suffix
    (cwrs.c:446-458). -/
def icwrsAux (tab : Tab) : Nat → List Int → Res (Nat × Nat)
  | _, [] => .abort
  | _, [y] => .ok (if y < 0 then 1 else 0, y.natAbs)        -- j=_n-1; i=_y[j]<0; k=abs(_y[j]);
  | m, y :: y' :: ys => do
    let ik ← icwrsAux tab (m - 1) (y' :: ys)
    icwrsStep tab m y ik

/-- `icwrs(_n,_y)` with `_n = y.length`; `celt_assert(_n>=2)` (cwrs.c:444). -/
def icwrs (tab : Tab) (y : List Int) : Res Nat :=
  if y.length < 2 then .abort else do
    let ik ← icwrsAux tab y.length y
    pure ik.1

/-- `encode_pulses` (cwrs.c:461-464): the `(fl, ft)` pair handed to `ec_enc_uint`. -/
def encodePulses (tab : Tab) (y : List Int) (k : Nat) : Res (Nat × Nat) :=
  if k = 0 then .abort else do
    let i ← icwrs tab y
    let v ← pvqV tab y.length k
    pure (i, v)

/-! ## cwrsi (cwrs.c:466-537) -/

/-- `val=(k0-_k+s)^s` with `s = 0` or `-1`: the magnitude with the sign applied. -/
def signed (neg : Bool) (m : Int) : Int := if neg then -m else m

/-- `do p=CELT_PVQ_U_ROW[--_k][_n]; while(p>_i);` (cwrs.c:487-488, 514-515), started with `_k = k`.
    Returns the final `(_k, p)`.  `--_k` below row 0 would index row −1: `.oob`. -/
def searchCol (tab : Tab) (n i : Nat) : Nat → Res (Nat × Nat)
  | 0 => .oob
  | k + 1 =>
    match tab k n with
    | .ok p => if p > i then searchCol tab n i k else .ok (k, p)
    | .err e => .err e
    | .oob => .oob
    | .abort => .abort

/-- `for(p=row[_k];p>_i;p=row[_k])_k--;` with `row=CELT_PVQ_U_ROW[_n]` (cwrs.c:490). -/
def searchRow (tab : Tab) (n i : Nat) : Nat → Res (Nat × Nat)
  | 0 =>
    match tab n 0 with
    | .ok p => if p > i then .oob else .ok (0, p)
    | .err e => .err e
    | .oob => .oob
    | .abort => .abort
  | k + 1 =>
    match tab n (k + 1) with
    | .ok p => if p > i then searchRow tab n i k else .ok (k + 1, p)
    | .err e => .err e
    | .oob => .oob
    | .abort => .abort

/-- One iteration of `while(_n>2)` (cwrs.c:476-524): returns `(val, _k, _i)` after the iteration. -/
def cwrsiStep (tab : Tab) (n k i : Nat) : Res (Int × Nat × Nat) :=
  if k ≥ n then do
    -- Lots of pulses case (cwrs.c:479-495)
    let p ← tab n (k + 1)                         -- p=row[_k+1];
    let neg := decide (i ≥ p)                     -- s=-(_i>=p);
    let i := if neg then i - p else i             -- _i-=p&s;
    let q ← tab n n                               -- q=row[_n];
    let kp ← if q > i then searchCol tab n i n    -- _k=_n; do p=CELT_PVQ_U_ROW[--_k][_n]; while(p>_i);
             else searchRow tab n i k             -- for(p=row[_k];p>_i;p=row[_k])_k--;
    pure (signed neg ((k : Int) - kp.1), kp.1, i - kp.2)
  else do
    -- Lots of dimensions case (cwrs.c:497-522)
    let p ← tab k n                               -- p=CELT_PVQ_U_ROW[_k][_n];
    let q ← tab (k + 1) n                         -- q=CELT_PVQ_U_ROW[_k+1][_n];
    if p ≤ i ∧ i < q then pure (0, k, i - p)      -- _i-=p; *_y++=0;
    else do
      let neg := decide (i ≥ q)                   -- s=-(_i>=q);
      let i := if neg then i - q else i           -- _i-=q&s;
      let kp ← searchCol tab n i k                -- do p=CELT_PVQ_U_ROW[--_k][_n]; while(p>_i);
      pure (signed neg ((k : Int) - kp.1), kp.1, i - kp.2)

/-- The `_n==2` and `_n==1` tails (cwrs.c:525-540).  After the `_n==2` step `_i` is 0 or 1 for
    every input, so `s=-(int)_i` is 0 or −1.  (`opus_int16 val` truncation is not modelled: for
    `_i < V(2,_k)` the magnitudes are at most `_k ≤ 32767`.) -/
def cwrsiTail (k i : Nat) : List Int :=
  let p := 2 * k + 1                              -- p=2*_k+1;
  let neg := decide (i ≥ p)                       -- s=-(_i>=p);
  let i := if neg then i - p else i               -- _i-=p&s;
  let k1 := (i + 1) / 2                           -- _k=(_i+1)>>1;
  let i := if k1 ≠ 0 then i - (2 * k1 - 1) else i -- if(_k)_i-=2*_k-1;
  [signed neg ((k : Int) - k1), signed (decide (i ≠ 0)) k1]

/-- `while(_n>2){…}` followed by the tails; defined for `_n ≥ 2`. -/
def cwrsiLoop (tab : Tab) : Nat → Nat → Nat → Res (List Int)
  | n + 3, k, i => do
    let r ← cwrsiStep tab (n + 3) k i
    let ys ← cwrsiLoop tab (n + 2) r.2.1 r.2.2
    pure (r.1 :: ys)
  | _, k, i => .ok (cwrsiTail k i)

/-- `yy` as accumulated by `MAC16_16(yy,val,val)`: Σ val² (an exact float for K ≤ 4096). -/
def sumSq : List Int → Nat
  | [] => 0
  | y :: ys => y.natAbs * y.natAbs + sumSq ys

/-- Σ |y_j|. -/
def sumAbs : List Int → Nat
  | [] => 0
  | y :: ys => y.natAbs + sumAbs ys

/-- `cwrsi(_n,_k,_i,_y)`: the decoded vector and the returned `yy`;
    `celt_assert(_k>0); celt_assert(_n>1);` (cwrs.c:472-473). -/
def cwrsi (tab : Tab) (n k i : Nat) : Res (List Int × Nat) :=
  if k = 0 ∨ n ≤ 1 then .abort else do
    let ys ← cwrsiLoop tab n k i
    pure (ys, sumSq ys)

/-- `decode_pulses` (cwrs.c:539-541): `ft` handed to `ec_dec_uint`, then `cwrsi` on its answer. -/
def decodePulsesFt (tab : Tab) (n k : Nat) : Res Nat := pvqV tab n k

end Opus.Cwrs

/-! ## Pulse cache (celt/rate.h, celt/rate.c, celt/cwrs.c CUSTOM_MODES helpers)

  `compute_pulse_cache` is only compiled with CUSTOM_MODES; the static mode ships its *output*
  (static_modes_float.h).  The functions are re-implemented here so that
  `OpusProps.C17.cache_eq_recomputed` can state that the shipped cache is what the code computes. -/
namespace Opus.Rate
open Opus Opus.Cwrs

/-- `get_pulses` (rate.h:48-51): `i<8 ? i : (8 + (i&7)) << ((i>>3)-1)`. -/
def getPulses (i : Nat) : Nat := if i < 8 then i else (8 + i % 8) * 2 ^ (i / 8 - 1)

/-- `EC_ILOG` (ecintrin.h): number of bits of `v`, 0 for 0. -/
def ecIlog (v : Nat) : Nat := if v = 0 then 0 else Nat.log2 v + 1

/-- The `do … while(frac-->0)` loop of `log2_frac` (cwrs.c:55-65); runs `frac+1` times. -/
def log2FracLoop : Nat → Nat → Nat → Nat × Nat
  | 0, val, l =>
    let b := val / 65536
    let l := l + b
    let val := (val + b) / 2 ^ b
    let val := (val * val + 0x7FFF) % 4294967296 / 32768
    (val, l)
  | frac + 1, val, l =>
    let b := val / 65536
    let l := l + b * 2 ^ (frac + 1)
    let val := (val + b) / 2 ^ b
    let val := (val * val + 0x7FFF) % 4294967296 / 32768
    log2FracLoop frac val l

/-- `log2_frac(val, frac)` (cwrs.c:45-70), `val` an `opus_uint32`. -/
def log2Frac (val frac : Nat) : Nat :=
  let l := ecIlog val
  if Nat.land val (val - 1) ≠ 0 then
    let val := if l > 16 then (val - 1) / 2 ^ (l - 16) + 1 else val * 2 ^ (16 - l)
    let r := log2FracLoop frac val ((l - 1) * 2 ^ frac)
    r.2 + (if r.1 > 0x8000 then 1 else 0)
  else (l - 1) * 2 ^ frac

def maxNTab : List Nat := [32767, 32767, 32767, 1476, 283, 109, 60, 40, 29, 24, 20, 18, 16, 14, 13]
def maxKTab : List Nat := [32767, 32767, 32767, 32767, 1172, 238, 95, 53, 36, 27, 22, 18, 16, 15, 13]

/-- `fits_in32(_n,_k)` (rate.c:56-72). -/
def fitsIn32 (n k : Nat) : Bool :=
  if n ≥ 14 then
    if k ≥ 14 then false else n ≤ maxNTab.getD k 0
  else k ≤ maxKTab.getD n 0

/-- `N = (eBands[j+1]-eBands[j])<<i>>1` (rate.c:96). -/
def bandN (eBands : List Nat) (i j : Nat) : Nat :=
  (eBands.getD (j + 1) 0 - eBands.getD j 0) * 2 ^ i / 2

/-- `K = 0; while (fits_in32(N,get_pulses(K+1)) && K<MAX_PSEUDO) K++;` (rate.c:118-120);
    `fuel = MAX_PSEUDO - K`. -/
def maxPseudoFrom (N : Nat) : Nat → Nat → Nat
  | 0, K => K
  | fuel + 1, K => if fitsIn32 N (getPulses (K + 1)) then maxPseudoFrom N fuel (K + 1) else K

def maxPseudo (N : Nat) : Nat := maxPseudoFrom N Gen.CeltTables.MAX_PSEUDO 0

/-- "Find other bands that have the same size" (rate.c:98-110): the inner `for n` loop stops at the
    first match, the outer `for k` loop keeps going, so the last `k` with a match wins. -/
def findSame (eBands : List Nat) (nb N i j : Nat) (cindex : List Int) : Int :=
  (List.range (i + 1)).foldl (fun acc k =>
    match (List.range (if k = i then j else nb)).find? (fun n => N == bandN eBands k n) with
    | some n => cindex.getD (k * nb + n) (-1)
    | none => acc) (-1)

structure Scan where
  cindex : List Int := []          -- cache->index so far
  entries : List (Nat × Nat) := [] -- (entryN, entryK), entryI is implied by `curr`
  curr : Nat := 0

/-- Body of the double loop "Scan for all unique band sizes" (rate.c:91-128) for position `(i,j)`. -/
def scanStep (eBands : List Nat) (nb : Nat) (s : Scan) (p : Nat) : Scan :=
  let i := p / nb
  let j := p % nb
  let N := bandN eBands i j
  let c := findSame eBands nb N i j s.cindex
  if c = -1 ∧ N ≠ 0 then
    let K := maxPseudo N
    { cindex := s.cindex ++ [(s.curr : Int)], entries := s.entries ++ [(N, K)], curr := s.curr + K + 1 }
  else { s with cindex := s.cindex ++ [c] }

def scan (eBands : List Nat) (nb LM : Nat) : Scan :=
  (List.range ((LM + 2) * nb)).foldl (scanStep eBands nb) {}

/-- One cache row: `ptr[0] = entryK; ptr[j] = tmp[get_pulses(j)]-1` with
    `tmp[k] = log2_frac(CELT_PVQ_V(N,k), BITRES)` (rate.c:134-143, cwrs.c:430-437), stored as
    `unsigned char`. -/
def cacheRow (tab : Tab) (N K : Nat) : Res (List Nat) := do
  let bits ← (List.range K).mapM (fun j => do
    let v ← pvqV tab N (getPulses (j + 1))
    pure ((log2Frac v Gen.CeltTables.BITRES + 256 - 1) % 256))
  pure (K % 256 :: bits)

/-- `cache->bits` (rate.c:130-143). -/
def cacheBitsOf (tab : Tab) (entries : List (Nat × Nat)) : Res (List Nat) := do
  let rows ← entries.mapM (fun e => cacheRow tab e.1 e.2)
  pure rows.flatten

/-- The index/bits part of `compute_pulse_cache(m, LM)` (rate.c:74-143): `(cache->index, cache->bits)`. -/
def computePulseCache (tab : Tab) (eBands : List Nat) (nb LM : Nat) : Res (List Int × List Nat) := do
  let s := scan eBands nb LM
  let bits ← cacheBitsOf tab s.entries
  pure (s.cindex, bits)

/-- `pulses2bits` (rate.h:80-87) on a cache given as (index, bits); `lm1` is `LM+1` (the value of `LM`
    after the function's `LM++`; callers pass `LM ≥ -1`). -/
def pulses2bits (cindex : List Int) (cbits : List Nat) (nb band lm1 pulses : Nat) : Res Nat :=
  match cindex[lm1 * nb + band]? with
  | none => .oob
  | some ci =>
    if pulses = 0 then .ok 0
    else if ci < 0 then .oob
    else match cbits[ci.toNat + pulses]? with
      | some b => .ok (b + 1)
      | none => .oob

/-- The binary search of `bits2pulses` (rate.h:65-73), `LOG_MAX_PSEUDO` iterations. -/
def b2pLoop (row : Nat → Nat) (bits : Int) : Nat → Nat → Nat → Nat × Nat
  | 0, lo, hi => (lo, hi)
  | it + 1, lo, hi =>
    let mid := (lo + hi + 1) / 2
    if (row mid : Int) ≥ bits then b2pLoop row bits it lo mid else b2pLoop row bits it mid hi

/-- `bits2pulses` (rate.h:53-78) on one cache row `row` (`row 0 = cache[0]`). -/
def bits2pulsesRow (row : Nat → Nat) (bits : Int) : Nat :=
  let bits := bits - 1
  let lh := b2pLoop row bits Gen.CeltTables.LOG_MAX_PSEUDO 0 (row 0)
  let lo := lh.1
  let hi := lh.2
  if bits - (if lo = 0 then -1 else (row lo : Int)) ≤ (row hi : Int) - bits then lo else hi

/-! ## `cache->caps` (rate.c:145-242, the second half of `compute_pulse_cache`)

  C `int`/`opus_int32` arithmetic is modelled on unbounded `Int`: `<<` as multiplication by a power of two (also for the
  one negative operand `(opus_uint32)(LM0+k)<<BITRES`, whose wrap-around and conversion back to `opus_int32` is the
  signed product), `>>1` as floor division, `/` as truncating division (`Int.tdiv`). -/

/-- The "cost of coding regular splits" loop (rate.c:191-210): `n` iterations left, `k` the loop index;
    returns `(max_bits, N)`. -/
def capSplitLoop (logNj LM0 : Int) : Nat → Nat → Int → Int → Int × Int
  | 0, _, mb, N => (mb, N)
  | n + 1, k, mb, N =>
    let mb := mb * 2                                                        -- max_bits <<= 1;
    let offset := (logNj + (LM0 + k) * 2 ^ Gen.CeltTables.BITRES) / 2 - Gen.CeltTables.QTHETA_OFFSET
    let num := 459 * ((2 * N - 1) * offset + mb)
    let den := (2 * N - 1) * 512 - 459
    let qb := min (Int.tdiv (num + den / 2) den) 57
    capSplitLoop logNj LM0 n (k + 1) (mb + qb) (N * 2)

/-- One entry `cap[(i*2+C-1)*nbEBands+j]` before the final `(unsigned char)` store (rate.c:153-238). -/
def capEntry (cindex : List Int) (cbits : List Nat) (eBands : List Nat) (logN : List Int) (nb i C j : Nat) : Int :=
  open Gen.CeltTables in
  let width : Nat := eBands.getD (j + 1) 0 - eBands.getD j 0
  let logNj : Int := logN.getD j 0
  let maxBits : Int :=
    if width * 2 ^ i = 1 then ((C * (1 + MAX_FINE_BITS) : Nat) : Int) * 2 ^ BITRES
    else
      -- N0, LM0 (rate.c:175-188)
      let N0 : Nat := if width > 2 then width / 2 else if width ≤ 1 then width * 2 ^ (min i 1) else width
      let LM0 : Int := if width > 2 then -1 else if width ≤ 1 then ((min i 1 : Nat) : Int) else 0
      -- pcache = bits + cindex[(LM0+1)*m->nbEBands+j]; max_bits = pcache[pcache[0]]+1;
      let ci : Nat := (cindex.getD ((LM0 + 1).toNat * nb + j) 0).toNat
      let mb0 : Int := (cbits.getD (ci + cbits.getD ci 0) 0 : Nat) + 1
      let r := capSplitLoop logNj LM0 ((i : Int) - LM0).toNat 0 mb0 N0
      let mb := r.1
      let N := r.2
      -- stereo split (rate.c:212-224)
      let mb :=
        if C = 2 then
          let mb := mb * 2
          let offset := (logNj + (i : Int) * 2 ^ BITRES) / 2 - (if N = 2 then (QTHETA_OFFSET_TWOPHASE : Int) else QTHETA_OFFSET)
          let ndof := 2 * N - 1 - (if N = 2 then 1 else 0)
          let num := (if N = 2 then 512 else 487) * (mb + ndof * offset)
          let den := ndof * 512 - (if N = 2 then 512 else 487)
          let qb := min (Int.tdiv (num + den / 2) den) (if N = 2 then 64 else 61)
          mb + qb
        else mb
      -- fine bits (rate.c:225-238)
      let ndof : Int := C * N + (if C = 2 ∧ N > 2 then 1 else 0)
      let offset := (logNj + (i : Int) * 2 ^ BITRES) / 2 - FINE_OFFSET + (if N = 2 then 2 ^ BITRES / 4 else 0)
      let num := mb + ndof * offset
      let den := (ndof - 1) * 2 ^ BITRES
      let qb := min (Int.tdiv (num + den / 2) den) MAX_FINE_BITS
      mb + (C * qb) * 2 ^ BITRES
  Int.tdiv (4 * maxBits) ((C * (width * 2 ^ i) : Nat) : Int) - 64

/-- `cache->caps` in storage order: `i = 0..LM`, `C = 1..2`, `j = 0..nbEBands-1`. -/
def computeCaps (cindex : List Int) (cbits : List Nat) (eBands : List Nat) (logN : List Int) (nb LM : Nat) : List Int :=
  (List.range (LM + 1)).flatMap fun i => (List.range 2).flatMap fun c => (List.range nb).map fun j =>
    capEntry cindex cbits eBands logN nb i (c + 1) j

end Opus.Rate
