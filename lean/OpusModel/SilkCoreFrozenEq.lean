import OpusModel.SilkCoreFrozen
import OpusModel.Gen.SilkCoreTabs
/-
  OpusModel.SilkCoreFrozenEq — comparison of the frozen tables of the synthesis reference with the values regenerated from `/repo`.
-/
namespace Opus.SilkCoreFrozen

/-- Every regenerated value equals its frozen copy. -/
def frozenEq : Bool :=
  decide (Opus.Gen.SilkCoreTabs.ltpVq0 = Opus.Frozen.SilkCoreTabs.ltpVq0) &&
  decide (Opus.Gen.SilkCoreTabs.ltpVq1 = Opus.Frozen.SilkCoreTabs.ltpVq1) &&
  decide (Opus.Gen.SilkCoreTabs.ltpVq2 = Opus.Frozen.SilkCoreTabs.ltpVq2) &&
  decide (Opus.Gen.SilkCoreTabs.ltpVqSizes = Opus.Frozen.SilkCoreTabs.ltpVqSizes) &&
  decide (Opus.Gen.SilkCoreTabs.nbLtpCbks = Opus.Frozen.SilkCoreTabs.nbLtpCbks) &&
  decide (Opus.Gen.SilkCoreTabs.ltpScalesQ14 = Opus.Frozen.SilkCoreTabs.ltpScalesQ14) &&
  decide (Opus.Gen.SilkCoreTabs.quantOffsetsQ10 = Opus.Frozen.SilkCoreTabs.quantOffsetsQ10) &&
  decide (Opus.Gen.SilkCoreTabs.quantOffsetsCols = Opus.Frozen.SilkCoreTabs.quantOffsetsCols) &&
  decide (Opus.Gen.SilkCoreTabs.quantLevelAdjustQ10 = Opus.Frozen.SilkCoreTabs.quantLevelAdjustQ10) &&
  decide (Opus.Gen.SilkCoreTabs.bweAfterLossQ16 = Opus.Frozen.SilkCoreTabs.bweAfterLossQ16) &&
  decide (Opus.Gen.SilkCoreTabs.randMultiplier = Opus.Frozen.SilkCoreTabs.randMultiplier) &&
  decide (Opus.Gen.SilkCoreTabs.randIncrement = Opus.Frozen.SilkCoreTabs.randIncrement) &&
  decide (Opus.Gen.SilkCoreTabs.ltpOrder = Opus.Frozen.SilkCoreTabs.ltpOrder) &&
  decide (Opus.Gen.SilkCoreTabs.maxLpcOrder = Opus.Frozen.SilkCoreTabs.maxLpcOrder) &&
  decide (Opus.Gen.SilkCoreTabs.minLpcOrder = Opus.Frozen.SilkCoreTabs.minLpcOrder) &&
  decide (Opus.Gen.SilkCoreTabs.maxNbSubfr = Opus.Frozen.SilkCoreTabs.maxNbSubfr) &&
  decide (Opus.Gen.SilkCoreTabs.ltpMemLengthMs = Opus.Frozen.SilkCoreTabs.ltpMemLengthMs) &&
  decide (Opus.Gen.SilkCoreTabs.subFrameLengthMs = Opus.Frozen.SilkCoreTabs.subFrameLengthMs) &&
  decide (Opus.Gen.SilkCoreTabs.maxFrameLength = Opus.Frozen.SilkCoreTabs.maxFrameLength) &&
  decide (Opus.Gen.SilkCoreTabs.szOutBuf = Opus.Frozen.SilkCoreTabs.szOutBuf) &&
  decide (Opus.Gen.SilkCoreTabs.szExcQ14 = Opus.Frozen.SilkCoreTabs.szExcQ14) &&
  decide (Opus.Gen.SilkCoreTabs.szSLpcQ14Buf = Opus.Frozen.SilkCoreTabs.szSLpcQ14Buf) &&
  decide (Opus.Gen.SilkCoreTabs.szPrevNlsf = Opus.Frozen.SilkCoreTabs.szPrevNlsf) &&
  decide (Opus.Gen.SilkCoreTabs.typeNoVoiceActivity = Opus.Frozen.SilkCoreTabs.typeNoVoiceActivity) &&
  decide (Opus.Gen.SilkCoreTabs.typeUnvoiced = Opus.Frozen.SilkCoreTabs.typeUnvoiced) &&
  decide (Opus.Gen.SilkCoreTabs.typeVoiced = Opus.Frozen.SilkCoreTabs.typeVoiced) &&
  decide (Opus.Gen.SilkCoreTabs.codeConditionally = Opus.Frozen.SilkCoreTabs.codeConditionally) &&
  decide (Opus.Gen.SilkCoreTabs.transitionTapQ14 = Opus.Frozen.SilkCoreTabs.transitionTapQ14) &&
  decide (Opus.Gen.SilkCoreTabs.resetPrevGainQ16 = Opus.Frozen.SilkCoreTabs.resetPrevGainQ16) &&
  decide (Opus.Gen.SilkCoreTabs.setFsLagPrev = Opus.Frozen.SilkCoreTabs.setFsLagPrev) &&
  decide (Opus.Gen.SilkCoreTabs.setFsLastGainIndex = Opus.Frozen.SilkCoreTabs.setFsLastGainIndex) &&
  decide (Opus.Gen.SilkCoreTabs.setFsPrevSignalType = Opus.Frozen.SilkCoreTabs.setFsPrevSignalType) &&
  decide (Opus.Gen.SilkCoreTabs.setFsFirstFrameAfterReset = Opus.Frozen.SilkCoreTabs.setFsFirstFrameAfterReset)

end Opus.SilkCoreFrozen
