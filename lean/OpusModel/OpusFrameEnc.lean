import OpusModel.SilkSymsEnc
/-
  OpusModel.OpusFrameEnc — what `opus_encode_frame_native` (src/opus_encoder.c) does with the range coder
  around the SILK payload, at the level of range-coder operations (property C08, frame-level lock step).
  Inputs are the decisions of the signal-processing part (the `PacketIn` of OpusModel/SilkSymsEnc.lean);
  the output is the frame the packet layer receives (without the TOC byte) and `st->rangeFinal`.

  C sources transcribed (line numbers of the pinned tree):
    src/opus_encoder.c:1871        ec_enc_init( &enc, data, max_data_bytes-1 )   (data = output + 1)
    src/opus_encoder.c:2271-2275   SILK-only: ret = (ec_tell+7)>>3; ec_enc_done; nb_compr_bytes = ret
    src/opus_encoder.c:2421        st->rangeFinal = enc.rng ^ redundant_rng
    src/opus_encoder.c:2446-2467   the "SILK busted its target" fallback, and the trailing-zero strip
                                   `while(ret>2&&data[ret]==0)ret--` (SILK-only without redundancy; done for VBR
                                   and CBR alike — a CBR packet is padded afterwards at the packet level)
  Core Lean only.
-/
namespace Opus.OpusFrameEnc
open Opus Opus.RangeCoder Opus.SilkSyms Opus.SilkSymsEnc

/-- `while(ret>2&&data[ret]==0)ret--` (opus_encoder.c:2466; `data` points at the TOC byte, so `data[ret]` is byte
    `ret-1` of the range-coder buffer). -/
def stripZeros (buf : List Nat) : Nat → Nat
  | 0 => 0
  | r + 1 => if r + 1 > 2 ∧ buf.getD r 0 = 0 then stripZeros buf r else r + 1

/-- One encoded frame as handed to the packet layer. -/
structure FrameEnc where
  payload : Bytes       -- data[1 .. 1+ret): the frame without its TOC byte
  rangeFinal : Nat      -- st->rangeFinal
  deriving Repr, DecidableEq

/-- A SILK-only frame without redundancy.  `buf` is the caller's buffer from `data+1` on,
    `maxDataBytes` the byte budget of the frame including the TOC byte. -/
def silkOnlyFrame (buf : List Nat) (maxDataBytes : Nat) (cfg : Cfg) (pk : PacketIn) : FrameEnc :=
  let e1 := encRun (encInit buf (maxDataBytes - 1)) (packetOps cfg pk)
  let e2 := encDone e1
  if tell e2 > 8 * ((maxDataBytes - 1 : Nat) : Int) then
    -- "In the unlikely case that the SILK encoder busted its target, tell the decoder to call the PLC"
    { payload := [0], rangeFinal := 0 }
  else
    { payload := e2.buf.take (stripZeros e2.buf ((tell e1 + 7) / 8).toNat), rangeFinal := e2.rng }

/-- The `silk_Decode` configuration of a SILK-only frame: internal rate from the TOC bandwidth
    (opus_decoder.c:413-427), frames per packet and sub-frames from the frame duration in units of 0.1 ms
    (dec_API.c:181-201). -/
def silkCfg (bandwidth nCh frameMs10 : Nat) : Cfg :=
  { rate := if bandwidth = 1101 then .nb else if bandwidth = 1102 then .mb else .wb,
    nCh := nCh,
    nfpp := if frameMs10 = 400 then 2 else if frameMs10 = 600 then 3 else 1,
    nbSubfr := if frameMs10 = 100 then 2 else 4,
    lostFlag := 0 }

end Opus.OpusFrameEnc
