import OpusModel.SilkSymsEnc
import OpusModel.CeltBands
/-
  OpusModel.OpusFrameEnc — what `opus_encode_frame_native` (src/opus_encoder.c) does with the range coder
  around the SILK payload, at the level of range-coder operations (property C08, frame-level lock step).
  Inputs are the decisions of the signal-processing part (the `PacketIn` of OpusModel/SilkSymsEnc.lean);
  the output is the frame the packet layer receives (without the TOC byte) and `st->rangeFinal`.

  C sources transcribed (line numbers of the pinned tree):
    src/opus_encoder.c:1871        ec_enc_init( &enc, data, max_data_bytes-1 )   (data = output + 1)
    src/opus_encoder.c:2271-2275   SILK-only: ret = (ec_tell+7)>>3; ec_enc_done; nb_compr_bytes = ret
    src/opus_encoder.c:2421        st->rangeFinal = enc.rng ^ redundant_rng
    src/opus_encoder.c:2237-2269   redundancy signalling: `ec_enc_bit_logp(redundancy,12)` (hybrid), `celt_to_silk` bit,
                                   `ec_enc_uint(redundancy_bytes-2,256)` (hybrid)
    src/opus_encoder.c:2276-2292   hybrid: nb_compr_bytes = (max_data_bytes-1)-redundancy_bytes; ec_enc_shrink
    src/opus_encoder.c:2306-2320, 2399-2413   the 5 ms redundancy frame: a separate range coder writing
                                   `redundancy_bytes` bytes behind the main part; its final range is `redundant_rng`
    src/opus_encoder.c:2365-2378   hybrid: celt_encode_with_ec on the same coder (it ends with ec_enc_done)
    src/opus_decoder.c:558-568, 606-616, 670-673   decoder: redundancy frame decoded from data+len, rangeFinal
    src/opus_encoder.c:2446-2467   the "SILK busted its target" fallback, and the trailing-zero strip
                                   `while(ret>2&&data[ret]==0)ret--` (SILK-only without redundancy; done for VBR
                                   and CBR alike — a CBR packet is padded afterwards at the packet level)
  Core Lean only.
-/
namespace Opus.OpusFrameEnc
open Opus Opus.RangeCoder Opus.SilkSyms Opus.SilkSymsEnc

/-- `while(ret>2&&data[ret]==0)ret--` (opus_encoder.c:2466; `data` points at the TOC byte, so `data[ret]` is byte
    `ret-1` of the range-coder buffer). -/
def stripZeros (buf : List Nat) : Nat → Nat
  | 0 => 0
  | r + 1 => if r + 1 > 2 ∧ buf.getD r 0 = 0 then stripZeros buf r else r + 1

/-- One encoded frame as handed to the packet layer. -/
structure FrameEnc where
  payload : Bytes       -- data[1 .. 1+ret): the frame without its TOC byte
  rangeFinal : Nat      -- st->rangeFinal
  deriving Repr, DecidableEq

/-- A SILK-only frame without redundancy.  `buf` is the caller's buffer from `data+1` on,
    `maxDataBytes` the byte budget of the frame including the TOC byte. -/
def silkOnlyFrame (buf : List Nat) (maxDataBytes : Nat) (cfg : Cfg) (pk : PacketIn) : FrameEnc :=
  let e1 := encRun (encInit buf (maxDataBytes - 1)) (packetOps cfg pk)
  let e2 := encDone e1
  if tell e2 > 8 * ((maxDataBytes - 1 : Nat) : Int) then
    -- "In the unlikely case that the SILK encoder busted its target, tell the decoder to call the PLC"
    { payload := [0], rangeFinal := 0 }
  else
    { payload := e2.buf.take (stripZeros e2.buf ((tell e1 + 7) / 8).toNat), rangeFinal := e2.rng }

/-- The `silk_Decode` configuration of a SILK-only frame: internal rate from the TOC bandwidth
    (opus_decoder.c:413-427), frames per packet and sub-frames from the frame duration in units of 0.1 ms
    (dec_API.c:181-201). -/
def silkCfg (bandwidth nCh frameMs10 : Nat) : Cfg :=
  { rate := if bandwidth = 1101 then .nb else if bandwidth = 1102 then .mb else .wb,
    nCh := nCh,
    nfpp := if frameMs10 = 400 then 2 else if frameMs10 = 600 then 3 else 1,
    nbSubfr := if frameMs10 = 100 then 2 else 4,
    lostFlag := 0 }


/-! ## Frames with redundancy, hybrid frames

  The CELT symbol layer is not modelled here: the operations the CELT encoder performs on the shared coder of a
  hybrid frame are an input (`celtOps`: whatever `celt_encode_with_ec` does, including its own `ec_enc_shrink`),
  and so are the bytes `R` and the final range `rr` of the separately coded 5 ms redundancy frame. -/

/-- Redundancy signalling behind the SILK data (opus_encoder.c:2237-2263).  `gate` is the encoder's test
    `ec_tell+17+20*(mode==HYBRID) <= 8*(max_data_bytes-1)`; without it nothing is written and there is no redundancy. -/
def redSigOps (hybrid gate : Bool) (red c2s rb : Nat) : List Op :=
  if gate then
    (if hybrid then [Op.bitLogp red 12] else []) ++
    (if red ≠ 0 then Op.bitLogp c2s 1 :: (if hybrid then [Op.uint (rb - 2) 256] else []) else [])
  else []

/-- A SILK-only frame with a redundancy frame `R` (final range `rr`) behind it: the main part is cut at
    `(ec_tell+7)>>3` bytes (opus_encoder.c:2271-2275) and NOT stripped (:2457). -/
def silkRedFrame (buf : List Nat) (maxDataBytes : Nat) (cfg : Cfg) (pk : PacketIn) (c2s : Nat) (R : Bytes) (rr : Nat) :
    FrameEnc :=
  let e1 := encRun (encInit buf (maxDataBytes - 1)) (packetOps cfg pk ++ redSigOps false true 1 c2s R.length)
  let e2 := encDone e1
  { payload := e2.buf.take ((tell e1 + 7) / 8).toNat ++ R, rangeFinal := e2.rng ^^^ rr }

/-- The operations on the main coder of a hybrid frame: SILK payload, redundancy signalling, the shrink to
    `nb_compr_bytes = (max_data_bytes-1) - redundancy_bytes`, then the CELT encoder's operations. -/
def hybridOps (maxDataBytes : Nat) (cfg : Cfg) (pk : PacketIn) (gate : Bool) (red c2s rb : Nat) (celtOps : List Op) : List Op :=
  packetOps cfg pk ++ redSigOps true gate red c2s rb ++ (Op.shrink (maxDataBytes - 1 - rb) :: celtOps)

/-- A hybrid frame; `R = []`, `rr = 0` without redundancy. -/
def hybridFrame (buf : List Nat) (maxDataBytes : Nat) (cfg : Cfg) (pk : PacketIn) (gate : Bool) (red c2s : Nat)
    (celtOps : List Op) (R : Bytes) (rr : Nat) : FrameEnc :=
  let e := encodeAll buf (maxDataBytes - 1) (hybridOps maxDataBytes cfg pk gate red c2s R.length celtOps)
  { payload := e.buf.take e.storage ++ R, rangeFinal := e.rng ^^^ rr }

/-- The `silk_Decode` configuration of the SILK part of a hybrid frame (internal rate 16 kHz). -/
def hybridCfg (nCh frameMs10 : Nat) : Cfg :=
  { rate := .wb, nCh := nCh, nfpp := 1, nbSubfr := if frameMs10 = 100 then 2 else 4, lostFlag := 0 }

/-- `st->rangeFinal` of `opus_decode_frame` for a frame with `len > 1` (opus_decoder.c:558-568, 606-616, 589-596,
    670-673): the main coder's `rng` — after the CELT part in hybrid mode — XOR the final range of the redundancy
    frame decoded from `data+len`.  `o` is what C03's `decodeOpusFrame` established; the CELT decodes are C03's `celtFrame`. -/
def decRangeFinal (mode bandwidth nCh spf48 : Nat) (frame : Bytes) (o : FrameOut) : Res Nat :=
  let main : Res Nat :=
    if mode = 1000 then .ok o.dec.rng
    else
      match CeltBands.celtFrame { start := 17, end_ := CeltSyms.endBandOf bandwidth, C := nCh, LM := CeltSyms.lmOf spf48 }
              o.len.toNat o.dec with
      | .ok cf => .ok cf.fin.c.rng
      | .err e => .err e
      | .oob => .oob
      | .abort => .abort
  let red : Res Nat :=
    if o.redundancy ≠ 0 then
      match CeltBands.celtFrame { start := 0, end_ := CeltSyms.endBandOf bandwidth, C := nCh, LM := 1 } o.redundancyBytes
              (decInit ((frame.drop o.len.toNat).take o.redundancyBytes) o.redundancyBytes) with
      | .ok cf => .ok cf.fin.c.rng
      | .err e => .err e
      | .oob => .oob
      | .abort => .abort
    else .ok 0
  match main, red with
  | .ok a, .ok b => .ok (a ^^^ b)
  | .ok _, r => r
  | r, _ => r

/-- The CELT round trip as far as the final range is concerned — the hypothesis C17's `celt_frame_roundtrip` is to
    discharge: C03's CELT decoder model, started in state `d` on a frame of `len` bytes, succeeds and ends with
    the range `rng` (the one the CELT encoder ended with for this frame's decisions). -/
def CeltFrameRT (cfg : CeltSyms.CeltCfg) (len : Nat) (d : Dec) (rng : Nat) : Prop :=
  ∃ cf, CeltBands.celtFrame cfg len d = .ok cf ∧ cf.fin.c.rng = rng

/-! ## CELT-only frames, and the decoder's final range by mode -/

/-- A CELT-only frame: whatever `celt_encode_with_ec` does on the frame's coder (`ops`, its `ec_enc_shrink`s
    included) and its `ec_enc_done`; the frame is the final `storage` bytes, `rangeFinal = enc.rng`
    (opus_encoder.c:2365-2378, 2421 with `redundant_rng = 0`). -/
def celtOnlyFrame (buf : List Nat) (size : Nat) (ops : List Op) : FrameEnc :=
  let e := encodeAll buf size ops
  { payload := e.buf.take e.storage, rangeFinal := e.rng }

/-- `st->rangeFinal` of `opus_decode_frame` for a CELT-only frame with `len > 1` (opus_decoder.c:313, 589-596, 670-673:
    no SILK part, no redundancy; `celt_decode_with_ec` from band 0 on the coder initialised on the frame). -/
def celtRangeFinal (bandwidth nCh spf48 : Nat) (frame : Bytes) : Res Nat :=
  match CeltBands.celtFrame { start := 0, end_ := CeltSyms.endBandOf bandwidth, C := nCh, LM := CeltSyms.lmOf spf48 }
          frame.length (decInit frame frame.length) with
  | .ok cf => .ok cf.fin.c.rng
  | .err e => .err e
  | .oob => .oob
  | .abort => .abort

/-- `st->rangeFinal` after `opus_decode_frame` on one frame of more than one byte, for every mode (1000 SILK-only,
    1001 hybrid, 1002 CELT-only): C03's SILK / redundancy-parse model, then C03's CELT frame model(s). -/
def frameRangeFinal (mode bandwidth nCh ms10 spf48 : Nat) (st : SilkSt) (frame : Bytes) : Res Nat :=
  if mode = 1002 then celtRangeFinal bandwidth nCh spf48 frame
  else
    match decodeOpusFrame mode bandwidth nCh ms10 false st frame with
    | .ok o => decRangeFinal mode bandwidth nCh spf48 frame o
    | .err e => .err e
    | .oob => .oob
    | .abort => .abort

end Opus.OpusFrameEnc
