import OpusModel.Basic
/-
  OpusModel.Pcm — the PCM sample-format conversions of the FLOAT build (`opus_res = float`):
  celt/arch.h:367-381 (`INT16TORES`, `INT24TORES`, `FLOAT2RES`, `RES2INT16`, `RES2INT24`, `RES2FLOAT`,
  `INT16TOSIG`, `INT24TOSIG`, `FLOAT2SIG`), celt/float_cast.h:68 (`float2int` = `cvtss2si`),
  celt/float_cast.h:150-156 (`FLOAT2INT16`), celt/mathops.c:223-230 (`celt_float2int16_c`) and the
  entry points that use them (src/opus_encoder.c:2523-2594, src/opus_decoder.c:837-963).

  A binary32 value is its bit pattern (`Nat`, `< 2^32`).  Its exact value is an integer multiple of
  2^-149 (`val b = some k` means the value is k·2^-149; `none` for ±inf / NaN), so no rationals
  are needed: every operation the macros perform is a multiplication by a power of two, an
  int→float conversion or a float→int conversion, and each is modelled as the exact operation
  followed by IEEE round-to-nearest-even (`roundMag`).  Nothing here uses Lean's `Float32`; the
  correspondence suite `pcm` compares these definitions with the real macros bit for bit.
-/
namespace Opus.Pcm
open Opus

/-! ### binary32 as exact dyadic values -/

/-- Magnitude of a finite binary32 in units of 2^-149 (`none` for exponent field 255). -/
def mag (b : Nat) : Option Nat :=
  let e := b / 2 ^ 23 % 256
  let m := b % 2 ^ 23
  if e = 255 then none else if e = 0 then some m else some ((2 ^ 23 + m) * 2 ^ (e - 1))

def signBit (b : Nat) : Bool := b / 2 ^ 31 % 2 = 1

def isNaN (b : Nat) : Bool := b / 2 ^ 23 % 256 = 255 ∧ b % 2 ^ 23 ≠ 0

/-- Exact value in units of 2^-149; `none` for ±inf and NaN. -/
def val (b : Nat) : Option Int :=
  match mag b with
  | none => none
  | some n => some (if signBit b then -(n : Int) else (n : Int))

/-- Value extended by ±inf as ±2^300 (every finite binary32 is below 2^277 in these units);
    `none` only for NaN.  Used for the C comparisons `<` and `>`. -/
def xval (b : Nat) : Option Int :=
  match val b with
  | some k => some k
  | none => if isNaN b then none else some (if signBit b then -(2 ^ 300 : Int) else 2 ^ 300)

/-- C `a < b` on binary32 (false when either operand is NaN). -/
def flt (a b : Nat) : Bool :=
  match xval a, xval b with
  | some x, some y => decide (x < y)
  | _, _ => false

/-- IEEE-754 round-to-nearest-even of the non-negative real `n / 2^(149+d)` to binary32; the
    result is the 31 magnitude bits (0x7f800000 = +inf on overflow).  `sh` is the exponent of the
    result's unit in the last place relative to 2^-(149+d). -/
def roundMag (n d : Nat) : Nat :=
  let sh := max (Nat.log2 n - 23) d
  let q := n / 2 ^ sh
  let r := n % 2 ^ sh
  let half := 2 ^ sh / 2
  let q' := if sh = 0 then q else if half < r ∨ (r = half ∧ q % 2 = 1) then q + 1 else q
  let bits := (sh - d) * 2 ^ 23 + q'
  if 0x7f800000 ≤ bits then 0x7f800000 else bits

/-- The binary32 nearest to `k / 2^(149+d)` (ties to even); zero is +0. -/
def ofScaled (k : Int) (d : Nat) : Nat :=
  (if k < 0 then 2 ^ 31 else 0) + roundMag k.natAbs d

/-- `x * 2^p` in binary32 (`mulss` by an exact power-of-two constant): exact scaling, one rounding;
    keeps the sign of zero and of infinities; a NaN operand comes back quieted. -/
def mulPow2 (b p : Nat) : Nat :=
  match mag b with
  | some n => (if signBit b then 2 ^ 31 else 0) + roundMag (n * 2 ^ p) 0
  | none => if isNaN b ∧ b / 2 ^ 22 % 2 = 0 then b + 2 ^ 22 else b

/-- Round-half-even of `k / 2^d` to an integer. -/
def rne (k : Int) (d : Nat) : Int :=
  let q := k / 2 ^ d
  let r := k % 2 ^ d
  if 2 ^ d < 2 * r ∨ (2 * r = 2 ^ d ∧ q % 2 = 1) then q + 1 else q

/-- `float2int` = `_mm_cvt_ss2si(_mm_set_ss(x))` (float_cast.h:68): round to nearest even in the
    default MXCSR mode; NaN, ±inf and results outside int32 give the "integer indefinite"
    0x80000000 = -2^31. -/
def float2int (b : Nat) : Int :=
  match val b with
  | none => -(2 ^ 31)
  | some k =>
    let z := rne k 149
    if -(2 ^ 31) ≤ z ∧ z < 2 ^ 31 then z else -(2 ^ 31)

/-! ### the conversion macros (float build) -/

/-- `INT16TORES(a) = (a)*(1/CELT_SIG_SCALE)` (arch.h:371): `(float)a * 2^-15f`. -/
def int16ToRes (a : Int) : Nat := ofScaled (a * 2 ^ 134) 0

/-- `INT24TORES(a) = (1.f/32768.f/256.)*(a)` (arch.h:372).  The literal `256.` is a double, so the
    product is the exact double `a·2^-23`, rounded once when stored into the `opus_res` (float). -/
def int24ToRes (a : Int) : Nat := ofScaled (a * 2 ^ 126) 0

/-- `FLOAT2RES(a) = (a)` (arch.h:374). -/
def float2Res (b : Nat) : Nat := b

/-- `RES2FLOAT(a) = (a)` (arch.h:370). -/
def res2Float (b : Nat) : Nat := b

/-- `INT16TOSIG(a) = (float)(a)` (arch.h:380), used by `downmix_int` (opus_encoder.c:722-743). -/
def int16ToSig (a : Int) : Nat := ofScaled (a * 2 ^ 149) 0

/-- A finite float value `k·2^-149` times `2^-d`, rounded (`none` cannot occur for the operands below). -/
def scaleVal (v : Option Int) (d : Nat) : Nat :=
  match v with
  | some k => ofScaled k d
  | none => 0

/-- `INT24TOSIG(a) = (float)(a)*(1.f/256.f)` (arch.h:381), used by `downmix_int24`:
    `cvtsi2ss` rounds the int32, the multiplication by 2^-8 rounds again. -/
def int24ToSig (a : Int) : Nat := scaleVal (val (ofScaled (a * 2 ^ 149) 0)) 8

/-- `FLOAT2SIG(a) = (a)*CELT_SIG_SCALE` (arch.h:379), used by `downmix_float`. -/
def float2Sig (b : Nat) : Nat := mulPow2 b 15

/-- `RES2INT24(a) = float2int(32768.f*256.f*(a))` (arch.h:369). -/
def res2Int24 (b : Nat) : Int := float2int (mulPow2 b 23)

/-- -32768.0f and 32767.0f. -/
def fNeg32768 : Nat := 0xC7000000
def f32767 : Nat := 0x46FFFE00

/-- `FLOAT2INT16` (float_cast.h:150-156):
    `x = x*CELT_SIG_SCALE; x = MAX32(x, -32768); x = MIN32(x, 32767); return (opus_int16)float2int(x);`
    with `MAX32(a,b) = (a) > (b) ? (a) : (b)`, `MIN32(a,b) = (a) < (b) ? (a) : (b)` (arch.h:102-103);
    `RES2INT16(a) = FLOAT2INT16(a)` (arch.h:368). -/
def float2Int16 (b : Nat) : Int :=
  let x := mulPow2 b 15
  let x := if flt fNeg32768 x then x else fNeg32768
  let x := if flt x f32767 then x else f32767
  float2int x

/-- `celt_float2int16_c` (mathops.c:223-230); x86 has no override, every arch level runs this. -/
def celtFloat2Int16 (xs : List Nat) : List Int := xs.map float2Int16

/-- Saturation to the int16 range. -/
def sat16 (z : Int) : Int := if z < -32768 then -32768 else if 32767 < z then 32767 else z

/-! ### projection (mapping family 3) 16-bit output: `mapping_matrix_multiply_channel_out_short` -/

/-- One accumulation step (src/mapping_matrix.c:211-221), for one decoded stream channel with Q15 matrix
    cell `m` and float sample bits `b`:
    `input_sample = RES2INT16(input[..]); tmp = m * input_sample; tmp = output + ((tmp + 16384) >> 15);
     output = (opus_int16)IMAX(-32768, IMIN(32767, tmp));`  (`>> 15` on int32 is the arithmetic shift = floor). -/
def projStep (acc m : Int) (b : Nat) : Int := sat16 (acc + (m * float2Int16 b + 16384) / 32768)

/-- The 16-bit output sample of one output channel: the output is cleared when the first stream channel
    is copied (src/opus_projection_decoder.c:84-85), then every stream channel accumulates in order. -/
def projOut16 (cells : List Int) (samples : List Nat) : Int :=
  (List.zip cells samples).foldl (fun acc p => projStep acc p.1 p.2) 0

/-! ### projection float output: `mapping_matrix_multiply_channel_out_float` (src/mapping_matrix.c:117-143) -/

/-- binary32 product of two finite values (one rounding); a non-finite operand gives the quiet NaN pattern
    (the tie feeds finite samples only). -/
def fmul (a b : Nat) : Nat :=
  match val a, val b with
  | some x, some y => ofScaled (x * y) 149
  | _, _ => 0x7fc00000

/-- binary32 sum of two finite values (one rounding; an exact zero sum is +0, as in round-to-nearest when
    the accumulator is never -0). -/
def fadd (a b : Nat) : Nat :=
  match val a, val b with
  | some x, some y => ofScaled (x + y) 0
  | _, _ => 0x7fc00000

/-- One output sample of the float path: the output cleared (src/opus_projection_decoder.c:62-63), then for
    every decoded stream channel `tmp = (1/32768.f)*cell * input_sample; output += tmp`
    (`(1/32768.f)*cell` is exact: `INT16TORES(cell)`). -/
def projOutF (cells : List Int) (samples : List Nat) : Nat :=
  (List.zip cells samples).foldl (fun acc p => fadd acc (fmul (int16ToRes p.1) p.2)) 0

/-! ### the entry points, reduced to what they hand to the shared core

  `opus_encode` / `opus_encode24` / `opus_encode_float` (opus_encoder.c, end of file) compute
  `frame_size = frame_size_select(analysis_frame_size, st->variable_duration, st->Fs)`, convert the first
  `frame_size*channels` of the caller's samples to `opus_res`, then call
  `opus_encode_native(st, in, frame_size, data, max, lsb_depth = 16 / 24 / 24, pcm, analysis_frame_size,
  0, -2, st->channels, downmix_int / downmix_int24 / downmix_float, 1)`.  Inside,
  `lsb_depth = IMIN(lsb_depth, st->lsb_depth)` (first statement that uses it) and the analysis reads ALL
  `analysis_frame_size` samples of the caller's buffer through the down-mix function, i.e. through
  `INT16TOSIG` / `INT24TOSIG` / `FLOAT2SIG` (with an expert frame duration the buffer is longer than the
  coded frame).  `CoreArgs` is the argument tuple as the shared core sees it; `core` stands for everything
  after that point: an arbitrary function of the encoder state and of that tuple.  The correspondence suite
  `pcm` (ops `enc16/enc24/encf`) compares the tuple with what the real entry points pass. -/

/-- What `opus_encode_native` receives (besides the state and the output buffer). -/
structure CoreArgs where
  /-- `pcm`: `frame_size*channels` samples as `opus_res` bit patterns -/
  res : List Nat
  frameSize : Nat
  /-- `IMIN(lsb_depth, st->lsb_depth)` -/
  lsbDepth : Nat
  /-- `analysis_pcm` seen through the `downmix` callback, sample by sample (`analysis_size*channels` values) -/
  sig : List Nat
  analysisSize : Nat
  c1 : Int
  c2 : Int
  analysisChannels : Nat
  floatApi : Nat
  deriving DecidableEq, Repr

section entry
variable {St Pkt : Type}

def encode16 (core : St → CoreArgs → Pkt) (st : St) (stDepth channels frameSize : Nat) (pcm : List Int) : Pkt :=
  core st { res := (pcm.take (frameSize * channels)).map int16ToRes, frameSize := frameSize,
            lsbDepth := min 16 stDepth, sig := pcm.map int16ToSig, analysisSize := pcm.length / channels,
            c1 := 0, c2 := -2, analysisChannels := channels, floatApi := 1 }

def encode24 (core : St → CoreArgs → Pkt) (st : St) (stDepth channels frameSize : Nat) (pcm : List Int) : Pkt :=
  core st { res := (pcm.take (frameSize * channels)).map int24ToRes, frameSize := frameSize,
            lsbDepth := min 24 stDepth, sig := pcm.map int24ToSig, analysisSize := pcm.length / channels,
            c1 := 0, c2 := -2, analysisChannels := channels, floatApi := 1 }

def encodeFloat (core : St → CoreArgs → Pkt) (st : St) (stDepth channels frameSize : Nat) (pcm : List Nat) : Pkt :=
  core st { res := (pcm.take (frameSize * channels)).map float2Res, frameSize := frameSize,
            lsbDepth := min 24 stDepth, sig := pcm.map float2Sig, analysisSize := pcm.length / channels,
            c1 := 0, c2 := -2, analysisChannels := channels, floatApi := 1 }

/-! #### multistream: `opus_multistream_encode` / `_encode24` / `_encode_float` → `opus_multistream_encode_native`
   → per stream `opus_encode_native(enc, buf, frame_size, …, lsb_depth, pcm, analysis_frame_size, c1, c2,
   st->layout.nb_channels, downmix, float_api)` (src/opus_multistream_encoder.c:930-988, 1071-1106).  `buf` holds the
   stream's one or two channels gathered from the caller's interleaved buffer by `opus_copy_channel_in_short / _int24 /
   _float` (`INT16TORES` / `INT24TORES` / `FLOAT2RES`); the analysis reads the caller's buffer through
   `downmix_int / _int24 / _float` with `c1` = left (or the mono channel) and `c2` = right (or -1):
   `y[j] = SIG(x[j*C+c1]); if (c2>-1) y[j] += SIG(x[j*C+c2]);` (src/opus_encoder.c:698-766).  The entry depth is
   16 / 24 / 24 and `float_api` 0 / 0 / 1. -/

/-- first input channel mapped to stream channel `v` (`get_left_channel` / `get_right_channel` /
    `get_mono_channel` with `prev = -1`, src/opus_multistream.c) -/
def findChan (mapping : List Nat) (v : Nat) : Option Nat :=
  let i := mapping.findIdx (· == v)
  if i < mapping.length then some i else none

/-- argument tuple of one stream; `CoreArgs.sig` here is the down-mixed analysis signal (one value per frame) -/
def msStreamArgs {α : Type} (toRes toSig : α → Nat) (dflt : α) (entryDepth fapi stDepth C c1 : Nat) (c2 : Option Nat)
    (pcm : List α) : CoreArgs :=
  let frames := pcm.length / C
  let at_ := fun (j ch : Nat) => pcm.getD (j * C + ch) dflt
  { res := (List.range frames).flatMap fun j =>
      match c2 with
      | some r => [toRes (at_ j c1), toRes (at_ j r)]
      | none => [toRes (at_ j c1)],
    frameSize := frames, lsbDepth := min entryDepth stDepth,
    sig := (List.range frames).map fun j =>
      match c2 with
      | some r => fadd (toSig (at_ j c1)) (toSig (at_ j r))
      | none => toSig (at_ j c1),
    analysisSize := frames, c1 := c1, c2 := match c2 with | some r => (r : Int) | none => -1,
    analysisChannels := C, floatApi := fapi }

/-- all streams of one multistream call (`none`: the layout does not feed some stream channel; creation
    refuses such layouts) -/
def msArgs {α : Type} (toRes toSig : α → Nat) (dflt : α) (entryDepth fapi stDepth C streams coupled : Nat)
    (mapping : List Nat) (pcm : List α) : Option (List CoreArgs) :=
  (List.range streams).mapM fun s =>
    if s < coupled then
      match findChan mapping (2 * s), findChan mapping (2 * s + 1) with
      | some l, some r => some (msStreamArgs toRes toSig dflt entryDepth fapi stDepth C l (some r) pcm)
      | _, _ => none
    else
      match findChan mapping (s + coupled) with
      | some m => some (msStreamArgs toRes toSig dflt entryDepth fapi stDepth C m none pcm)
      | none => none

/-- The guard in front of the conversion: `frame_size_select` answered `-1` (or 0) → `OPUS_BAD_ARG`, the
    core is not reached (`opus_encode`, `opus_encode24`) or refuses as its first action (`opus_encode_float`). -/
def entryArgs (args : Nat → CoreArgs) (frameSizeSelect : Int) : Option CoreArgs :=
  if frameSizeSelect ≤ 0 then none else some (args frameSizeSelect.toNat)

/-- `opus_decode24` (opus_decoder.c:886-921): the float decode, then `RES2INT24` per sample. -/
def decode24Out (out : List Nat) : List Int := out.map res2Int24

/-- `opus_decode` (opus_decoder.c:837-876): the float decode with `soft_clip = 1` (`clip` is
    `opus_pcm_soft_clip` acting on the block and the decoder's `softclip_mem`), then
    `celt_float2int16`. -/
def decode16Out {Mem : Type} (clip : List Nat → Mem → List Nat × Mem) (out : List Nat) (mem : Mem) : List Int × Mem :=
  let (y, mem') := clip out mem
  (celtFloat2Int16 y, mem')

/-- What the three decoder entry points pass to `opus_decode_native` and do with its output:
    `(soft_clip flag, frame_size handed down, converted output)`.  `opus_decode`: `OPTIONAL_CLIP` = 1, then
    `celt_float2int16`; `opus_decode24`: 0, then `RES2INT24`; `opus_decode_float`: 0, the core writes into the
    caller's buffer.  For a real packet without FEC the frame size handed down is
    `IMIN(frame_size, nb_samples)` in the two converting entry points and `frame_size` itself in the float one. -/
def decodeEntry (fmt : Nat) (frameSize nbSamples : Int) (usesPacket : Bool) (out : List Nat) : Nat × Int × List Int :=
  let fsDown := if usesPacket ∧ fmt ≠ 32 then min frameSize nbSamples else frameSize
  if fmt = 16 then (1, fsDown, celtFloat2Int16 out)
  else if fmt = 24 then (0, fsDown, decode24Out out)
  else (0, fsDown, out.map Int.ofNat)

end entry

end Opus.Pcm
