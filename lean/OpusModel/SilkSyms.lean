import OpusModel.Basic
import OpusModel.RangeCoder
import OpusModel.Framing
import OpusModel.SilkSymsFrozen
/-
  OpusModel.SilkSyms — the *symbol layer* of the SILK decoder: which symbols are read from the range
  decoder, in which order, with which inverse-CDF tables, under which conditions (property C03,
  DESIGN.md §7.C03 stage 1).  No signal processing: the output is every decoded index, the pulse
  arrays, the header flags and the range-decoder state (`rng`, `ec_tell`) after every `silk_Decode`
  call and after the redundancy header that `opus_decode_frame` reads behind the SILK data.

  C sources transcribed (line numbers of the pinned tree):
    silk/dec_API.c:132-431          silk_Decode (only what steers symbol reads)
    silk/decode_frame.c:70-89       silk_decode_frame (order of the two calls, the LBRR condition)
    silk/decode_indices.c:35-151    silk_decode_indices
    silk/NLSF_unpack.c:35-54        silk_NLSF_unpack (the `ec_ix` half)
    silk/decode_pulses.c:37-115     silk_decode_pulses
    silk/shell_coder.c:60-75,119-151  decode_split, silk_shell_decoder
    silk/code_signs.c:75-115        silk_decode_signs
    silk/stereo_decode_pred.c:35-73 silk_stereo_decode_pred, silk_stereo_decode_mid_only
    silk/decoder_set_fs.c:58-90     table selection by internal rate / sub-frame count
    src/opus_decoder.c:387-498      SILK part of opus_decode_frame (payloadSize_ms, internal rate,
                                    number of silk_Decode calls, redundancy header)
    src/opus_decoder.c:744-811      opus_decode_native (frame loop, FEC branch)

  Conventions.
  * `sym c tbl` is one `ec_dec_icdf(psRangeDec, tbl, 8)`.  A C expression `&table[off]` is
    `table.drop off` (no `take`: like the C code the scan runs until an entry stops it; that it stops
    inside the intended slice is a theorem about the regenerated tables, not an assumption).
  * Tables: the model reads the FROZEN copy `OpusModel/SilkSymsFrozen.lean` of the inverse-CDF tables and
    constants (the bit-stream format is normative, so the reference must not follow the tree);
    `OpusProofs/SilkSymsFrozenEq.lean` proves the frozen copy equal to what is regenerated from /repo now.
  * Constants of silk/define.h are written as literals (TYPE_VOICED 2, CODE_CONDITIONALLY 2,
    MAX_NB_SUBFR 4, SHELL_CODEC_FRAME_LENGTH 16, SILK_MAX_PULSES 16, N_RATE_LEVELS 10,
    NLSF_QUANT_MAX_AMPLITUDE 4, FLAG_DECODE_NORMAL 0, FLAG_DECODE_LBRR 2 …); `constsOk` compares every
    literal used here with the frozen `SilkSymsFrozen.Consts` value and is discharged by `decide` in
    OpusProofs/SilkSymsTables.lean.
  * Every loop is structural recursion on a list or a counter.  The only C loop without a syntactic
    bound, `while( sum_pulses[i] == SILK_MAX_PULSES+1 )` (decode_pulses.c:72), is unrolled to its ten
    possible iterations (`lsbCountLoop`); theorem `lsbCount_exits` shows that the C loop condition is
    false when the unrolling ends, for every decoder state, so the bound is never what stops it.
  * Values the C code stores in `opus_int8`/`opus_int16` are kept as unbounded `Nat`/`Int`; the range
    theorems (`OpusProps.C03`) show every stored value fits its C type.
  Core Lean only.
-/
namespace Opus.SilkSyms
open Opus Opus.RangeCoder Opus.SilkSymsFrozen.Icdf

/-- One `ec_dec_icdf( psRangeDec, tbl, 8 )`: `(symbol, ctx)`. -/
def sym (c : Dec) (tbl : List Nat) : Nat × Dec := decIcdf c tbl 8

/-- `n` consecutive symbols from the same table (the `for` loops of decode_indices.c:73-75,132-134). -/
def symLoop (tbl : List Nat) : Nat → Dec → List Nat × Dec
  | 0, c => ([], c)
  | n + 1, c =>
    let r := sym c tbl
    let rest := symLoop tbl n r.2
    (r.1 :: rest.1, rest.2)

/-! ## Per-rate tables (silk/decoder_set_fs.c:58-90) -/

/-- Internal SILK sampling rate: `fs_kHz ∈ {8, 12, 16}`. -/
inductive Rate where
  | nb | mb | wb
  deriving DecidableEq, Repr, Inhabited

def Rate.kHz : Rate → Nat
  | .nb => 8 | .mb => 12 | .wb => 16

/-- The members of `silk_NLSF_CB_struct` the symbol layer reads. -/
structure NlsfCB where
  nVectors : Nat
  order : Nat
  cb1 : List Nat      -- CB1_iCDF
  ecSel : List Nat    -- ec_sel
  ecIcdf : List Nat   -- ec_iCDF
  deriving Repr

def cbNbMb : NlsfCB :=
  ⟨silk_NLSF_CB_NB_MB_nVectors, silk_NLSF_CB_NB_MB_order, silk_NLSF_CB1_iCDF_NB_MB,
   silk_NLSF_CB2_SELECT_NB_MB, silk_NLSF_CB2_iCDF_NB_MB⟩

def cbWb : NlsfCB :=
  ⟨silk_NLSF_CB_WB_nVectors, silk_NLSF_CB_WB_order, silk_NLSF_CB1_iCDF_WB,
   silk_NLSF_CB2_SELECT_WB, silk_NLSF_CB2_iCDF_WB⟩

/-- `psDec->psNLSF_CB` (decoder_set_fs.c:74-80). -/
def nlsfCB : Rate → NlsfCB
  | .wb => cbWb
  | _ => cbNbMb

/-- `psDec->pitch_lag_low_bits_iCDF` (decoder_set_fs.c:81-90). -/
def pitchLagLowBits : Rate → List Nat
  | .wb => silk_uniform8_iCDF
  | .mb => silk_uniform6_iCDF
  | .nb => silk_uniform4_iCDF

/-- `psDec->pitch_contour_iCDF` (decoder_set_fs.c:59-71). -/
def pitchContour (rate : Rate) (nbSubfr : Nat) : List Nat :=
  if rate = .nb then
    (if nbSubfr = 4 then silk_pitch_contour_NB_iCDF else silk_pitch_contour_10_ms_NB_iCDF)
  else
    (if nbSubfr = 4 then silk_pitch_contour_iCDF else silk_pitch_contour_10_ms_iCDF)

/-- `psDec->frame_length = nb_subfr * SUB_FRAME_LENGTH_MS * fs_kHz` (decoder_set_fs.c:47-48). -/
def frameLength (rate : Rate) (nbSubfr : Nat) : Nat := nbSubfr * (5 * rate.kHz)

/-! ## silk_decode_indices -/

/-- What `silk_decode_indices` stores into `psDec->indices` (structs.h `SideInfoIndices`).  The pitch
    and LTP members are written only for voiced frames (`signalType = 2`); for other frames the model
    reports `lagIndex = 0`, `ltp = []`, … and the C members keep their old values. -/
structure Indices where
  signalType : Nat
  quantOffsetType : Nat
  gains : List Nat          -- GainsIndices[0..nb_subfr)
  nlsf0 : Nat               -- NLSFIndices[0]
  nlsfRes : List Int        -- NLSFIndices[1..order]
  interp : Nat              -- NLSFInterpCoef_Q2
  lagIndex : Int
  contourIndex : Nat
  perIndex : Nat
  ltp : List Nat            -- LTPIndex[0..nb_subfr)
  ltpScale : Nat
  seed : Nat
  deriving Repr, DecidableEq, Inhabited

/-- The `ec_ix[]` output of `silk_NLSF_unpack` (NLSF_unpack.c:46-53): for each pair of coefficients one
    byte of `ec_sel`, whose bits 1-3 and 5-7 select one of eight 9-entry tables of `ec_iCDF`. -/
def nlsfUnpackEcIx (cb : NlsfCB) (cb1Index : Nat) : List Nat :=
  (List.range (cb.order / 2)).flatMap fun j =>
    let entry := cb.ecSel.getD (cb1Index * cb.order / 2 + j) 0
    [(entry / 2 % 8) * 9, (entry / 32 % 8) * 9]

/-- One residual of decode_indices.c:83-91, before the `- NLSF_QUANT_MAX_AMPLITUDE`:
    `Ix`, extended by `silk_NLSF_EXT_iCDF` at either end of the 0..8 range. -/
def nlsfResOne (cb : NlsfCB) (e : Nat) (c : Dec) : Int × Dec :=
  let r := sym c (cb.ecIcdf.drop e)
  if r.1 = 0 then
    let x := sym r.2 silk_NLSF_EXT_iCDF
    ((r.1 : Int) - (x.1 : Int), x.2)
  else if r.1 = 8 then
    let x := sym r.2 silk_NLSF_EXT_iCDF
    ((r.1 : Int) + (x.1 : Int), x.2)
  else ((r.1 : Int), r.2)

/-- The residual loop of decode_indices.c:83-91 over `ec_ix`. -/
def nlsfResLoop (cb : NlsfCB) : List Nat → Dec → List Int × Dec
  | [], c => ([], c)
  | e :: es, c =>
    let r := nlsfResOne cb e c
    let rest := nlsfResLoop cb es r.2
    ((r.1 - 4) :: rest.1, rest.2)

/-- Lag index of a voiced frame (decode_indices.c:106-120): a delta on the previous lag when the frame
    is coded conditionally after a voiced frame and the delta symbol is non-zero, else absolute. -/
def decodeLag (rate : Rate) (cc prevSig : Nat) (prevLag : Int) (c : Dec) : Int × Dec :=
  let d := if cc = 2 ∧ prevSig = 2 then sym c silk_pitch_delta_iCDF else (0, c)
  if d.1 > 0 then (prevLag + ((d.1 : Int) - 9), d.2)
  else
    let a := sym d.2 silk_pitch_lag_iCDF
    let b := sym a.2 (pitchLagLowBits rate)
    (((a.1 * (rate.kHz / 2) + b.1 : Nat) : Int), b.2)

/-- `PERIndex`, `LTPIndex[]`, `LTP_scaleIndex` (decode_indices.c:130-143). -/
def decodeLtp (nbSubfr cc : Nat) (c : Dec) : (Nat × List Nat × Nat) × Dec :=
  let per := sym c silk_LTP_per_index_iCDF
  let ltpTbl := [silk_LTP_gain_iCDF_0, silk_LTP_gain_iCDF_1, silk_LTP_gain_iCDF_2].getD per.1 []
  let ltp := symLoop ltpTbl nbSubfr per.2
  let scale := if cc = 0 then sym ltp.2 silk_LTPscale_iCDF else (0, ltp.2)
  ((per.1, ltp.1, scale.1), scale.2)

/-- Pitch lag, contour, LTP indices and LTP scaling of a voiced frame (decode_indices.c:100-144):
    `(lagIndex, contourIndex, PERIndex, LTPIndex[], LTP_scaleIndex)`. -/
def decodePitchLtp (rate : Rate) (nbSubfr cc prevSig : Nat) (prevLag : Int) (c : Dec) :
    (Int × Nat × Nat × List Nat × Nat) × Dec :=
  match decodeLag rate cc prevSig prevLag c with
  | (lag, c1) =>
  match sym c1 (pitchContour rate nbSubfr) with
  | (contour, c2) =>
  match decodeLtp nbSubfr cc c2 with
  | ((per, ltp, scale), c3) => ((lag, contour, per, ltp, scale), c3)

/-- Signal type and quantiser offset (decode_indices.c:51-57): the joint symbol `Ix`. -/
def decodeType (vadOrLbrr : Bool) (c : Dec) : Nat × Dec :=
  if vadOrLbrr then (let r := sym c silk_type_offset_VAD_iCDF; (r.1 + 2, r.2))
  else sym c silk_type_offset_no_VAD_iCDF

/-- `GainsIndices[0]` (decode_indices.c:63-70). -/
def decodeGain0 (cc sig : Nat) (c : Dec) : Nat × Dec :=
  if cc = 2 then sym c silk_delta_gain_iCDF
  else
    let a := sym c (silk_gain_iCDF.getD sig [])
    let b := sym a.2 silk_uniform8_iCDF
    (a.1 * 8 + b.1, b.2)

/-- `NLSFIndices[]` (decode_indices.c:80-91): `(NLSFIndices[0], residuals, ctx)`. -/
def decodeNlsf (rate : Rate) (sig : Nat) (c : Dec) : (Nat × List Int) × Dec :=
  let cb := nlsfCB rate
  let n0 := sym c (cb.cb1.drop ((sig / 2) * cb.nVectors))
  let res := nlsfResLoop cb (nlsfUnpackEcIx cb n0.1) n0.2
  ((n0.1, res.1), res.2)

/-- NLSF interpolation factor (decode_indices.c:94-98). -/
def decodeInterp (nbSubfr : Nat) (c : Dec) : Nat × Dec :=
  if nbSubfr = 4 then sym c silk_NLSF_interpolation_factor_iCDF else (4, c)

/-- Pitch/LTP block, present for voiced frames only (decode_indices.c:100). -/
def decodeVoiced (rate : Rate) (nbSubfr sig cc prevSig : Nat) (prevLag : Int) (c : Dec) :
    (Int × Nat × Nat × List Nat × Nat) × Dec :=
  if sig = 2 then decodePitchLtp rate nbSubfr cc prevSig prevLag c else (((0 : Int), 0, 0, [], 0), c)

/-- `silk_decode_indices` (decode_indices.c:35-151).  `vadOrLbrr` is `decode_LBRR || VAD_flags[FrameIndex]`,
    `cc` the `condCoding` argument, `prevSig`/`prevLag` are `ec_prevSignalType`/`ec_prevLagIndex`. -/
def decodeIndices (rate : Rate) (nbSubfr : Nat) (vadOrLbrr : Bool) (cc prevSig : Nat) (prevLag : Int)
    (c : Dec) : Indices × Dec :=
  match decodeType vadOrLbrr c with
  | (tix, c1) =>
  match decodeGain0 cc (tix / 2) c1 with
  | (g0, c2) =>
  match symLoop silk_delta_gain_iCDF (nbSubfr - 1) c2 with
  | (gs, c3) =>
  match decodeNlsf rate (tix / 2) c3 with
  | ((n0, res), c4) =>
  match decodeInterp nbSubfr c4 with
  | (ip, c5) =>
  match decodeVoiced rate nbSubfr (tix / 2) cc prevSig prevLag c5 with
  | ((lag, contour, per, ltp, scale), c6) =>
  match sym c6 silk_uniform4_iCDF with
  | (seed, c7) =>
    ({ signalType := tix / 2, quantOffsetType := tix % 2, gains := g0 :: gs, nlsf0 := n0, nlsfRes := res,
       interp := ip, lagIndex := lag, contourIndex := contour, perIndex := per, ltp := ltp, ltpScale := scale,
       seed := seed }, c7)

/-! ## silk_decode_pulses -/

/-- Number of shell blocks (decode_pulses.c:57-61). -/
def shellBlocks (frameLen : Nat) : Nat :=
  let it := frameLen / 16
  if it * 16 < frameLen then it + 1 else it

/-- The `while( sum_pulses[i] == SILK_MAX_PULSES + 1 )` loop (decode_pulses.c:72-77), entered with
    `nLshifts = n`, `sum_pulses = sp` and `k = 10 - n` iterations left: `(nLshifts, sum_pulses, ctx)`. -/
def lsbCountLoop : Nat → Dec → Nat → Nat → Nat × Nat × Dec
  | 0, c, n, sp => (n, sp, c)
  | k + 1, c, n, sp =>
    if sp = 17 then
      match sym c ((silk_pulses_per_block_iCDF.getD 9 []).drop (if n + 1 = 10 then 1 else 0)) with
      | (sp', c1) => lsbCountLoop k c1 (n + 1) sp'
    else (n, sp, c)

/-- Sum-weighted-pulses decoding (decode_pulses.c:66-78) for `iter` blocks:
    `(sum_pulses[], nLshifts[], ctx)`. -/
def sumPulsesLoop (cdf : List Nat) : Nat → Dec → List Nat × List Nat × Dec
  | 0, c => ([], [], c)
  | iter + 1, c =>
    match sym c cdf with
    | (sp0, c1) =>
    match lsbCountLoop 10 c1 0 sp0 with
    | (n, sp, c2) =>
    match sumPulsesLoop cdf iter c2 with
    | (sps, ns, c3) => (sp :: sps, n :: ns, c3)

/-- `decode_split` (shell_coder.c:60-75): `(p_child1, p_child2, ctx)`. -/
def decodeSplit (c : Dec) (p : Nat) (tbl : List Nat) : Nat × Nat × Dec :=
  if p > 0 then
    match sym c (tbl.drop (silk_shell_code_table_offsets.getD p 0)) with
    | (a, c1) => (a, p - a, c1)
  else (0, 0, c)

/-- Four leaves below one `pulses2` node (shell_coder.c:134-136 and its three repetitions). -/
def shellQuarter (c : Dec) (p2 : Nat) : List Nat × Dec :=
  match decodeSplit c p2 silk_shell_code_table1 with
  | (a1, a2, c1) =>
  match decodeSplit c1 a1 silk_shell_code_table0 with
  | (b1, b2, c2) =>
  match decodeSplit c2 a2 silk_shell_code_table0 with
  | (d1, d2, c3) => ([b1, b2, d1, d2], c3)

/-- Eight leaves below one `pulses3` node (shell_coder.c:132-140). -/
def shellHalf (c : Dec) (p3 : Nat) : List Nat × Dec :=
  match decodeSplit c p3 silk_shell_code_table2 with
  | (a1, a2, c1) =>
  match shellQuarter c1 a1 with
  | (q0, c2) =>
  match shellQuarter c2 a2 with
  | (q1, c3) => (q0 ++ q1, c3)

/-- `silk_shell_decoder` (shell_coder.c:119-151): 16 non-negative amplitudes. -/
def shellDecoder (c : Dec) (p4 : Nat) : List Nat × Dec :=
  match decodeSplit c p4 silk_shell_code_table3 with
  | (a1, a2, c1) =>
  match shellHalf c1 a1 with
  | (h0, c2) =>
  match shellHalf c2 a2 with
  | (h1, c3) => (h0 ++ h1, c3)

/-- One block of the shell decoding loop (decode_pulses.c:84-88). -/
def shellBlock (sp : Nat) (c : Dec) : List Nat × Dec :=
  if sp > 0 then shellDecoder c sp else (List.replicate 16 0, c)

/-- Shell decoding loop (decode_pulses.c:83-89): one 16-sample block per `sum_pulses` entry. -/
def shellLoop : List Nat → Dec → List (List Nat) × Dec
  | [], c => ([], c)
  | sp :: sps, c =>
    match shellBlock sp c with
    | (b, c1) =>
    match shellLoop sps c1 with
    | (bs, c2) => (b :: bs, c2)

/-- The inner `for( j = 0; j < nLS; j++ )` of decode_pulses.c:100-103. -/
def lsbBits : Nat → Nat → Dec → Nat × Dec
  | 0, q, c => (q, c)
  | n + 1, q, c =>
    match sym c silk_lsb_iCDF with
    | (b, c1) => lsbBits n (2 * q + b) c1

/-- The 16 samples of one block (decode_pulses.c:98-105). -/
def lsbBlock (nLS : Nat) : List Nat → Dec → List Nat × Dec
  | [], c => ([], c)
  | q :: qs, c =>
    match lsbBits nLS q c with
    | (q', c1) =>
    match lsbBlock nLS qs c1 with
    | (qs', c2) => (q' :: qs', c2)

/-- One block of the LSB loop (decode_pulses.c:95). -/
def lsbBlockIf (n : Nat) (b : List Nat) (c : Dec) : List Nat × Dec :=
  if n > 0 then lsbBlock n b c else (b, c)

/-- LSB decoding (decode_pulses.c:94-109): blocks paired with their `nLshifts`. -/
def lsbLoop : List (List Nat) → List Nat → Dec → List (List Nat) × Dec
  | b :: bs, n :: ns, c =>
    match lsbBlockIf n b c with
    | (b', c1) =>
    match lsbLoop bs ns c1 with
    | (bs', c2) => (b' :: bs', c2)
  | bs, _, c => (bs, c)

/-- `sum_pulses[i] |= nLS << 5` (decode_pulses.c:107), written arithmetically: the two coincide while
    `sum_pulses[i] < 32` (theorem `sumPulses_le`). -/
def markLsb : List Nat → List Nat → List Nat
  | sp :: sps, n :: ns => (sp + 32 * n) :: markLsb sps ns
  | sps, _ => sps

/-- Sign of one sample (code_signs.c:99-110) with `icdf = {icdf0, 0}`. -/
def signOne (icdf0 q : Nat) (c : Dec) : Int × Dec :=
  if q > 0 then
    match sym c [icdf0, 0] with
    | (s, c1) => ((q : Int) * (2 * (s : Int) - 1), c1)
  else ((q : Int), c)

/-- Signs of one block (code_signs.c:98-111). -/
def signBlock (icdf0 : Nat) : List Nat → Dec → List Int × Dec
  | [], c => ([], c)
  | q :: qs, c =>
    match signOne icdf0 q c with
    | (v, c1) =>
    match signBlock icdf0 qs c1 with
    | (vs, c2) => (v :: vs, c2)

/-- One block of `silk_decode_signs` (code_signs.c:95-113). -/
def signBlockIf (base p : Nat) (b : List Nat) (c : Dec) : List Int × Dec :=
  if p > 0 then signBlock (silk_sign_iCDF.getD (base + min (p % 32) 6) 0) b c
  else (b.map (fun (q : Nat) => (q : Int)), c)

/-- `silk_decode_signs` (code_signs.c:75-115) over the first `n` blocks; `base = 7*(quantOffsetType +
    2*signalType)` is the offset of `icdf_ptr` into `silk_sign_iCDF`. -/
def signLoop (base : Nat) : Nat → List (List Nat) → List Nat → Dec → List (List Int) × Dec
  | n + 1, b :: bs, p :: ps, c =>
    match signBlockIf base p b c with
    | (v, c1) =>
    match signLoop base n bs ps c1 with
    | (vs, c2) => (v :: vs, c2)
  | _, bs, _, c => (bs.map (fun b => b.map (fun (q : Nat) => (q : Int))), c)

/-- Result of `silk_decode_pulses`: the `pulses[]` array (all `iter*16` entries) and the locals the range
    theorems speak about. -/
structure Pulses where
  rateLevel : Nat
  sumPulses : List Nat      -- after the LSB-count loop, before `|= nLS<<5`
  nLshifts : List Nat
  absBlocks : List (List Nat)   -- amplitudes after LSB decoding
  signed : List (List Int)      -- the same blocks with signs attached
  deriving Repr, DecidableEq, Inhabited

/-- The `pulses[]` array. -/
def Pulses.pulses (p : Pulses) : List Int := p.signed.flatten

/-- `silk_decode_pulses` (decode_pulses.c:37-115). -/
def decodePulses (sig qoff frameLen : Nat) (c : Dec) : Pulses × Dec :=
  match sym c (silk_rate_levels_iCDF.getD (sig / 2) []) with
  | (rl, c1) =>
  match sumPulsesLoop (silk_pulses_per_block_iCDF.getD rl []) (shellBlocks frameLen) c1 with
  | (sps, ns, c2) =>
  match shellLoop sps c2 with
  | (sh, c3) =>
  match lsbLoop sh ns c3 with
  | (ab, c4) =>
  match signLoop (7 * (qoff + 2 * sig)) ((frameLen + 8) / 16) ab (markLsb sps ns) c4 with
  | (sg, c5) =>
    ({ rateLevel := rl, sumPulses := sps, nLshifts := ns, absBlocks := ab, signed := sg }, c5)

/-! ## Stereo predictor (silk/stereo_decode_pred.c) -/

/-- Result of `silk_stereo_decode_pred`: the six raw indices `ix[n][k]` as decoded (before `+= 3*ix[n][2]`)
    and the two predictors. -/
structure StereoPred where
  ix : List Nat     -- ix[0][0], ix[0][1], ix[0][2], ix[1][0], ix[1][1], ix[1][2]
  q0 : Nat          -- ix[0][0] + 3*ix[0][2]: index into silk_stereo_pred_quant_Q13
  q1 : Nat
  pred0 : Int       -- pred_Q13[0] (after subtracting pred_Q13[1])
  pred1 : Int
  deriving Repr, DecidableEq, Inhabited

/-- Dequantisation of one predictor (stereo_decode_pred.c:54-58).  `silk_SMULWB(a, b)` with
    `b = 6554` (fits `opus_int16`) is `(a * b) >> 16`; `silk_SMLABB(a, b, c)` is `a + b*c` for 16-bit `b`, `c`. -/
def stereoDequant (q sub : Nat) : Int :=
  let tab := SilkSymsFrozen.Consts.silk_stereo_pred_quant_Q13
  let low := tab.getD q 0
  let step := (tab.getD (q + 1) 0 - low) * 6554 / 65536
  low + step * (2 * (sub : Int) + 1)

/-- Entropy-decoding half of `silk_stereo_decode_pred` (stereo_decode_pred.c:44-50) for given tables:
    the joint symbol `n` and `ix[0][0]`, `ix[0][1]`, `ix[1][0]`, `ix[1][1]`. -/
def stereoIxG (tj t3 t5 : List Nat) (c : Dec) : (Nat × Nat × Nat × Nat × Nat) × Dec :=
  match sym c tj with
  | (n, c1) =>
  match sym c1 t3 with
  | (a0, c2) =>
  match sym c2 t5 with
  | (a1, c3) =>
  match sym c3 t3 with
  | (b0, c4) =>
  match sym c4 t5 with
  | (b1, c5) => ((n, a0, a1, b0, b1), c5)

/-- … with `silk_stereo_pred_joint_iCDF`, `silk_uniform3_iCDF`, `silk_uniform5_iCDF`. -/
def stereoIx (c : Dec) : (Nat × Nat × Nat × Nat × Nat) × Dec :=
  stereoIxG silk_stereo_pred_joint_iCDF silk_uniform3_iCDF silk_uniform5_iCDF c

/-- Dequantising half (stereo_decode_pred.c:45-46, 53-62): `ix[0][2] = n/5`, `ix[1][2] = n - 5*ix[0][2]`. -/
def stereoMk (n a0 a1 b0 b1 : Nat) : StereoPred :=
  { ix := [a0, a1, n / 5, b0, b1, n - 5 * (n / 5)], q0 := a0 + 3 * (n / 5), q1 := b0 + 3 * (n - 5 * (n / 5)),
    pred0 := stereoDequant (a0 + 3 * (n / 5)) a1 - stereoDequant (b0 + 3 * (n - 5 * (n / 5))) b1,
    pred1 := stereoDequant (b0 + 3 * (n - 5 * (n / 5))) b1 }

/-- `silk_stereo_decode_pred` (stereo_decode_pred.c:35-63) for given tables. -/
def stereoDecodePredG (tj t3 t5 : List Nat) (c : Dec) : StereoPred × Dec :=
  match stereoIxG tj t3 t5 c with
  | ((n, a0, a1, b0, b1), c5) => (stereoMk n a0 a1 b0 b1, c5)

/-- `silk_stereo_decode_pred` (stereo_decode_pred.c:35-63). -/
def stereoDecodePred (c : Dec) : StereoPred × Dec :=
  stereoDecodePredG silk_stereo_pred_joint_iCDF silk_uniform3_iCDF silk_uniform5_iCDF c

/-- `silk_stereo_decode_mid_only` (stereo_decode_pred.c:66-73). -/
def stereoDecodeMidOnly (c : Dec) : Nat × Dec := sym c silk_stereo_only_code_mid_iCDF

/-! ## silk_Decode -/

/-- The members of `silk_decoder_state` that steer symbol reads. -/
structure Chan where
  nFramesDecoded : Nat := 0
  nFramesPerPacket : Nat := 1
  nbSubfr : Nat := 4
  vad : List Nat := []          -- VAD_flags[0..nFramesPerPacket)
  lbrrFlag : Nat := 0
  lbrrFlags : List Nat := []    -- LBRR_flags[0..MAX_FRAMES_PER_PACKET)
  ecPrevSignalType : Nat := 0
  ecPrevLagIndex : Int := 0
  deriving Repr, DecidableEq, Inhabited

/-- `silk_decoder` as far as the symbol layer is concerned. -/
structure SilkSt where
  ch0 : Chan := {}
  ch1 : Chan := {}
  prevDecodeOnlyMiddle : Nat := 0
  deriving Repr, DecidableEq, Inhabited

def SilkSt.ch (s : SilkSt) (n : Nat) : Chan := if n = 0 then s.ch0 else s.ch1
def SilkSt.setCh (s : SilkSt) (n : Nat) (x : Chan) : SilkSt :=
  if n = 0 then { s with ch0 := x } else { s with ch1 := x }

/-- Everything observable of the symbol layer, in call order. -/
inductive Ev where
  | flags (ch : Nat) (vad : List Nat) (lbrrFlag : Nat) (lbrrFlags : List Nat)
  | pred (p : StereoPred)
  | midOnly (v : Nat)
  /-- one `silk_decode_indices( &channel_state[ch], dec, frameIndex, decodeLbrr, condCoding )` -/
  | indices (ch frameIndex decodeLbrr condCoding : Nat) (rate : Rate) (nbSubfr prevSig : Nat) (prevLag : Int)
      (ix : Indices)
  /-- one `silk_decode_pulses( dec, pulses, signalType, quantOffsetType, frame_length )` -/
  | pulses (sig qoff frameLen : Nat) (p : Pulses)
  /-- a `silk_Decode` call returned: `rng`, `ec_tell` -/
  | ret (rng : Nat) (tell : Int)
  deriving Repr, DecidableEq, Inhabited

/-- `nFramesPerPacket`, `nb_subfr` from `payloadSize_ms` (dec_API.c:181-201); anything else is
    `celt_assert( 0 )`. -/
def packetShape (payloadSizeMs : Nat) : Res (Nat × Nat) :=
  if payloadSizeMs = 0 then .ok (1, 2)
  else if payloadSizeMs = 10 then .ok (1, 2)
  else if payloadSizeMs = 20 then .ok (1, 4)
  else if payloadSizeMs = 40 then .ok (2, 4)
  else if payloadSizeMs = 60 then .ok (3, 4)
  else .abort

/-- `fs_kHz_dec = ( internalSampleRate >> 10 ) + 1` and its check (dec_API.c:202-207). -/
def rateOf (internalSampleRate : Nat) : Res Rate :=
  let k := internalSampleRate / 1024 + 1
  if k = 8 then .ok .nb else if k = 12 then .ok .mb else if k = 16 then .ok .wb else .abort

/-- VAD flags of one channel (dec_API.c:230-232). -/
def decodeVadFlags : Nat → Dec → List Nat × Dec
  | 0, c => ([], c)
  | n + 1, c =>
    match decBitLogp c 1 with
    | (b, c1) =>
    match decodeVadFlags n c1 with
    | (bs, c2) => (b :: bs, c2)

/-- `LBRR_flags[]` of one channel (dec_API.c:237-247). -/
def decodeLbrrFlags (nfpp lbrrFlag : Nat) (c : Dec) : List Nat × Dec :=
  if lbrrFlag = 0 then ([0, 0, 0], c)
  else if nfpp = 1 then ([1, 0, 0], c)
  else
    match sym c ([silk_LBRR_flags_2_iCDF, silk_LBRR_flags_3_iCDF].getD (nfpp - 2) []) with
    | (s, c1) => ((List.range 3).map (fun i => if i < nfpp then (s + 1) / 2 ^ i % 2 else 0), c1)

/-- Shared configuration of one `silk_Decode` call (from `decControl`). -/
structure Cfg where
  rate : Rate
  nCh : Nat            -- nChannelsInternal, 1 or 2
  nfpp : Nat           -- nFramesPerPacket
  nbSubfr : Nat
  lostFlag : Nat       -- 0 = FLAG_DECODE_NORMAL, 2 = FLAG_DECODE_LBRR
  deriving Repr, DecidableEq

/-- `silk_decode_indices` + `silk_decode_pulses` for one frame (decode_frame.c:83-89, dec_API.c:270-272) with the
    three things they read from the channel state passed explicitly: events, indices, ctx. -/
def decodeOneCore (cfg : Cfg) (n frameIndex decodeLbrr cc : Nat) (vadOrLbrr : Bool) (prevSig : Nat) (prevLag : Int)
    (c : Dec) : List Ev × Indices × Dec :=
  match decodeIndices cfg.rate cfg.nbSubfr vadOrLbrr cc prevSig prevLag c with
  | (ix, c1) =>
  match decodePulses ix.signalType ix.quantOffsetType (frameLength cfg.rate cfg.nbSubfr) c1 with
  | (pu, c2) =>
    ([.indices n frameIndex decodeLbrr cc cfg.rate cfg.nbSubfr prevSig prevLag ix,
      .pulses ix.signalType ix.quantOffsetType (frameLength cfg.rate cfg.nbSubfr) pu], ix, c2)

/-- One frame of one channel: events, updated channel, ctx.  `ec_prevSignalType` / `ec_prevLagIndex` are read by
    the C code only under `condCoding == CODE_CONDITIONALLY` — the lag index only if in addition the previous
    signal type is voiced (decode_indices.c:107); the model hands them over only then (and `0` otherwise), which is what makes the symbol reads visibly independent of stale state. -/
def decodeOne (cfg : Cfg) (n frameIndex decodeLbrr cc : Nat) (ch : Chan) (c : Dec) : List Ev × Chan × Dec :=
  match decodeOneCore cfg n frameIndex decodeLbrr cc (decide (decodeLbrr ≠ 0 ∨ ch.vad.getD frameIndex 0 ≠ 0))
          (if cc = 2 then ch.ecPrevSignalType else 0)
          (if cc = 2 ∧ ch.ecPrevSignalType = 2 then ch.ecPrevLagIndex else 0) c with
  | (evs, ix, c2) =>
    (evs,
     { ch with ecPrevSignalType := ix.signalType,
               ecPrevLagIndex := if ix.signalType = 2 then ix.lagIndex else ch.ecPrevLagIndex },
     c2)

/-- State of the LBRR-skipping double loop: `decode_only_middle` is a local of `silk_Decode` that the
    skipping code overwrites (dec_API.c:261). -/
structure SkipSt where
  st : SilkSt
  dom : Nat
  c : Dec
  evs : List Ev

/-- Stereo predictor and mid-only flag in front of the mid channel's LBRR data (dec_API.c:258-263), for given
    readers `P` (`silk_stereo_decode_pred`) and `M` (`silk_stereo_decode_mid_only`). -/
def skipStereoG (P : Dec → StereoPred × Dec) (M : Dec → Nat × Dec) (cfg : Cfg) (i n : Nat) (s : SkipSt) : SkipSt :=
  if cfg.nCh = 2 ∧ n = 0 then
    match P s.c with
    | (p, c1) =>
      if s.st.ch1.lbrrFlags.getD i 0 = 0 then
        match M c1 with
        | (m, c2) => { s with dom := m, c := c2, evs := s.evs ++ [.pred p, .midOnly m] }
      else { s with c := c1, evs := s.evs ++ [.pred p] }
  else s

/-- Stereo predictor and mid-only flag in front of the mid channel's LBRR data (dec_API.c:258-263). -/
def skipStereo (cfg : Cfg) (i n : Nat) (s : SkipSt) : SkipSt :=
  skipStereoG stereoDecodePred stereoDecodeMidOnly cfg i n s

/-- Body of the LBRR-skipping loop for frame `i`, channel `n` (dec_API.c:254-273). -/
def skipOne (cfg : Cfg) (i n : Nat) (s : SkipSt) : SkipSt :=
  if (s.st.ch n).lbrrFlags.getD i 0 ≠ 0 then
    match decodeOne cfg n i 1 (if i > 0 ∧ (s.st.ch n).lbrrFlags.getD (i - 1) 0 ≠ 0 then 2 else 0)
            ((skipStereo cfg i n s).st.ch n) (skipStereo cfg i n s).c with
    | (evs, ch', c1) =>
      { st := (skipStereo cfg i n s).st.setCh n ch', dom := (skipStereo cfg i n s).dom, c := c1,
        evs := (skipStereo cfg i n s).evs ++ evs }
  else s

/-- The channel loop of the LBRR-skipping code for frame `i` (dec_API.c:253). -/
def skipChans (cfg : Cfg) (i : Nat) : List Nat → SkipSt → SkipSt
  | [], s => s
  | n :: ns, s => skipChans cfg i ns (skipOne cfg i n s)

/-- The frame loop of the LBRR-skipping code (dec_API.c:252). -/
def skipFrames (cfg : Cfg) : List Nat → SkipSt → SkipSt
  | [], s => s
  | i :: is, s => skipFrames cfg is (skipChans cfg i (List.range cfg.nCh) s)

/-- VAD flags + LBRR flag of one channel (dec_API.c:230-233): `(VAD_flags, LBRR_flag, ctx)`. -/
def decodeChanFlags (nfpp : Nat) (c : Dec) : List Nat × Nat × Dec :=
  match decodeVadFlags nfpp c with
  | (v, c1) =>
  match decBitLogp c1 1 with
  | (l, c2) => (v, l, c2)

/-- Header flags of a mono payload (dec_API.c:229-248). -/
def decodeFlagsMono (cfg : Cfg) (st : SilkSt) (c : Dec) : SkipSt :=
  match decodeChanFlags cfg.nfpp c with
  | (v0, l0, c1) =>
  match decodeLbrrFlags cfg.nfpp l0 c1 with
  | (f0, c2) =>
    { st := { st with ch0 := { st.ch0 with vad := v0, lbrrFlag := l0, lbrrFlags := f0 } },
      dom := 0, c := c2, evs := [.flags 0 v0 l0 f0] }

/-- Header flags of a stereo payload (dec_API.c:229-248): VAD/LBRR flag of both channels first, then the
    LBRR flags of both. -/
def decodeFlagsStereo (cfg : Cfg) (st : SilkSt) (c : Dec) : SkipSt :=
  match decodeChanFlags cfg.nfpp c with
  | (v0, l0, c1) =>
  match decodeChanFlags cfg.nfpp c1 with
  | (v1, l1, c2) =>
  match decodeLbrrFlags cfg.nfpp l0 c2 with
  | (f0, c3) =>
  match decodeLbrrFlags cfg.nfpp l1 c3 with
  | (f1, c4) =>
    { st := { st with ch0 := { st.ch0 with vad := v0, lbrrFlag := l0, lbrrFlags := f0 },
                      ch1 := { st.ch1 with vad := v1, lbrrFlag := l1, lbrrFlags := f1 } },
      dom := 0, c := c4, evs := [.flags 0 v0 l0 f0, .flags 1 v1 l1 f1] }

/-- Header of the first `silk_Decode` call of a payload (dec_API.c:226-277): VAD/LBRR flags of every
    channel, then (normal decoding only) all LBRR data is read and dropped. -/
def decodeHeader (cfg : Cfg) (st : SilkSt) (c : Dec) : SkipSt :=
  if cfg.lostFlag = 0 then
    skipFrames cfg (List.range cfg.nfpp) (if cfg.nCh = 2 then decodeFlagsStereo cfg st c else decodeFlagsMono cfg st c)
  else (if cfg.nCh = 2 then decodeFlagsStereo cfg st c else decodeFlagsMono cfg st c)

/-- Does a stereo frame start with a predictor (dec_API.c:281-282)? -/
def hasPred (cfg : Cfg) (st : SilkSt) : Bool :=
  decide (cfg.lostFlag = 0 ∨ (cfg.lostFlag = 2 ∧ st.ch0.lbrrFlags.getD st.ch0.nFramesDecoded 0 = 1))

/-- Is the mid-only flag coded behind the predictor (dec_API.c:286-287)? -/
def hasMidOnly (cfg : Cfg) (st : SilkSt) : Bool :=
  decide ((cfg.lostFlag = 0 ∧ st.ch1.vad.getD st.ch0.nFramesDecoded 0 = 0) ∨
          (cfg.lostFlag = 2 ∧ st.ch1.lbrrFlags.getD st.ch0.nFramesDecoded 0 = 0))

/-- Stereo predictor / mid-only flag in front of a frame (dec_API.c:280-298) for given readers `P`, `M`:
    `(decode_only_middle, ctx, events)`. -/
def decodeStereoHeadG (P : Dec → StereoPred × Dec) (M : Dec → Nat × Dec) (cfg : Cfg) (st : SilkSt) (dom : Nat)
    (c : Dec) : Nat × Dec × List Ev :=
  if cfg.nCh = 2 ∧ hasPred cfg st then
    match P c with
    | (p, c1) =>
      if hasMidOnly cfg st then
        match M c1 with
        | (m, c2) => (m, c2, [.pred p, .midOnly m])
      else (0, c1, [.pred p])
  else (dom, c, [])

/-- Stereo predictor / mid-only flag in front of a frame (dec_API.c:280-298): `(decode_only_middle, ctx, events)`. -/
def decodeStereoHead (cfg : Cfg) (st : SilkSt) (dom : Nat) (c : Dec) : Nat × Dec × List Ev :=
  decodeStereoHeadG stereoDecodePred stereoDecodeMidOnly cfg st dom c

/-- `condCoding` of dec_API.c:331-343 for channel `n`; `fd0` is `channel_state[0].nFramesDecoded` as the
    C code sees it at that point (already incremented when `n = 1`). -/
def condCodingOf (cfg : Cfg) (st : SilkSt) (n fd0 : Nat) : Nat :=
  if fd0 ≤ n then 0
  else if cfg.lostFlag = 2 then (if (st.ch n).lbrrFlags.getD (fd0 - n - 1) 0 ≠ 0 then 2 else 0)
  else if n > 0 ∧ st.prevDecodeOnlyMiddle ≠ 0 then 1
  else 2

/-- Does `silk_decode_frame` read symbols for channel `n` (dec_API.c:327, decode_frame.c:70-71)? -/
def readsFrame (cfg : Cfg) (hasSide : Bool) (n : Nat) (ch : Chan) : Bool :=
  (decide (n = 0) || hasSide) &&
  decide (cfg.lostFlag = 0 ∨ (cfg.lostFlag = 2 ∧ ch.lbrrFlags.getD ch.nFramesDecoded 0 = 1))

/-- One channel of the "call decoder for one frame" loop (dec_API.c:326-361). -/
def decodeChan (cfg : Cfg) (hasSide : Bool) (n : Nat) (st : SilkSt) (c : Dec) : List Ev × SilkSt × Dec :=
  if readsFrame cfg hasSide n (st.ch n) then
    match decodeOne cfg n (st.ch n).nFramesDecoded cfg.lostFlag (condCodingOf cfg st n st.ch0.nFramesDecoded)
            (st.ch n) c with
    | (evs, ch', c1) => (evs, st.setCh n { ch' with nFramesDecoded := ch'.nFramesDecoded + 1 }, c1)
  else ([], st.setCh n { st.ch n with nFramesDecoded := (st.ch n).nFramesDecoded + 1 }, c)

/-- Start of a `silk_Decode` call (dec_API.c:164-168, 178-210): frame counters are reset on a new packet,
    the packet shape is latched when no frame of the payload has been decoded yet. -/
def beginCall (cfg : Cfg) (newPacket : Bool) (st : SilkSt) : SilkSt :=
  let st0 : SilkSt :=
    if newPacket then
      { st with ch0 := { st.ch0 with nFramesDecoded := 0 },
                ch1 := if cfg.nCh = 2 then { st.ch1 with nFramesDecoded := 0 } else st.ch1 }
    else st
  if st0.ch0.nFramesDecoded = 0 then
    { st0 with ch0 := { st0.ch0 with nFramesPerPacket := cfg.nfpp, nbSubfr := cfg.nbSubfr },
               ch1 := if cfg.nCh = 2 then { st0.ch1 with nFramesPerPacket := cfg.nfpp, nbSubfr := cfg.nbSubfr }
                      else st0.ch1 }
  else st0

/-- `has_side` (dec_API.c:318-323). -/
def hasSideOf (cfg : Cfg) (st : SilkSt) (dom : Nat) : Bool :=
  if cfg.lostFlag = 0 then decide (dom = 0)
  else decide (st.prevDecodeOnlyMiddle = 0) ||
       decide (cfg.nCh = 2 ∧ cfg.lostFlag = 2 ∧ st.ch1.lbrrFlags.getD st.ch1.nFramesDecoded 0 = 1)

/-- The per-channel loop of dec_API.c:326-361. -/
def decodeChans (cfg : Cfg) (hasSide : Bool) (st : SilkSt) (c : Dec) : List Ev × SilkSt × Dec :=
  match decodeChan cfg hasSide 0 st c with
  | (e0, st1, c1) =>
    if cfg.nCh = 2 then
      match decodeChan cfg hasSide 1 st1 c1 with
      | (e1, st2, c2) => (e0 ++ e1, st2, c2)
    else (e0, st1, c1)

/-- Everything of a `silk_Decode` call behind the header (dec_API.c:280-361, 427). -/
def decodeBody (cfg : Cfg) (h : SkipSt) : List Ev × SilkSt × Dec :=
  match decodeStereoHead cfg h.st h.dom h.c with
  | (dom, c1, e1) =>
  match decodeChans cfg (hasSideOf cfg h.st dom) h.st c1 with
  | (e2, st2, c2) =>
    (h.evs ++ e1 ++ e2 ++ [.ret c2.rng (tell c2)], { st2 with prevDecodeOnlyMiddle := dom }, c2)

/-- One `silk_Decode` call with `lostFlag ∈ {0, 2}` (dec_API.c:132-431). -/
def silkDecodeCall (cfg : Cfg) (newPacket : Bool) (st : SilkSt) (c : Dec) : List Ev × SilkSt × Dec :=
  decodeBody cfg
    (if (beginCall cfg newPacket st).ch0.nFramesDecoded = 0 then decodeHeader cfg (beginCall cfg newPacket st) c
     else { st := beginCall cfg newPacket st, dom := 0, c := c, evs := [] })

/-- The `do … while( decoded_samples < frame_size )` loop of opus_decode_frame (opus_decoder.c:442-464):
    every call produces `nb_subfr*5` ms, the payload holds `nFramesPerPacket` of them. -/
def silkCalls (cfg : Cfg) : Nat → Bool → SilkSt → Dec → List Ev × SilkSt × Dec
  | 0, _, st, c => ([], st, c)
  | k + 1, first, st, c =>
    match silkDecodeCall cfg first st c with
    | (e1, st1, c1) =>
    match silkCalls cfg k false st1 c1 with
    | (e2, st2, c2) => (e1 ++ e2, st2, c2)

/-! ## opus_decode_frame: SILK part and redundancy header -/

/-- What `opus_decode_frame` has established when it turns to the CELT layer. -/
structure FrameOut where
  internalRate : Nat         -- DecControl.internalSampleRate
  payloadMs : Nat            -- DecControl.payloadSize_ms
  nCh : Nat                  -- DecControl.nChannelsInternal
  lostFlag : Nat
  evs : List Ev
  redundancy : Nat
  celtToSilk : Nat
  redundancyBytes : Nat
  len : Int                  -- `len` after the redundancy bytes were split off
  dec : Dec                  -- range decoder handed to CELT (hybrid) / whose rng is the final range (SILK-only)
  st : SilkSt
  deriving Repr

/-- `DecControl.internalSampleRate` (opus_decoder.c:413-427); an unexpected SILK-only bandwidth is
    `celt_assert( 0 )`. -/
def internalRateOf (mode bandwidth : Nat) : Res Nat :=
  if mode = 1000 then
    if bandwidth = 1101 then .ok 8000
    else if bandwidth = 1102 then .ok 12000
    else if bandwidth = 1103 then .ok 16000
    else .abort
  else .ok 16000

/-- `redundancy_bytes` (opus_decoder.c:484-486). -/
def redundancyBytes (mode : Nat) (len : Int) (c : Dec) : Int × Dec :=
  if mode = 1001 then
    match decUint c 256 with
    | (u, c1) => ((u : Int) + 2, c1)
  else (len - (tell c + 7) / 8, c)

/-- The `if (redundancy)` block (opus_decoder.c:479-498): `(redundancy, celt_to_silk, redundancy_bytes, len, dec)`. -/
def redundancyBlock (mode : Nat) (len : Int) (c : Dec) : Nat × Nat × Nat × Int × Dec :=
  match decBitLogp c 1 with
  | (cs, c1) =>
  match redundancyBytes mode len c1 with
  | (rb, c2) =>
    if (len - rb) * 8 < tell c2 then (0, cs, 0, 0, c2)
    else (1, cs, rb.toNat, len - rb, { c2 with storage := c2.storage - rb.toNat })

/-- Redundancy header (opus_decoder.c:471-499): `(redundancy, celt_to_silk, redundancy_bytes, len, dec)`. -/
def redundancyHeader (mode : Nat) (decodeFec : Bool) (len : Int) (c : Dec) : Nat × Nat × Nat × Int × Dec :=
  if ¬ decodeFec ∧ tell c + 17 + (if mode = 1001 then 20 else 0) ≤ 8 * len then
    if mode = 1001 then
      match decBitLogp c 12 with
      | (r, c1) => if r ≠ 0 then redundancyBlock mode len c1 else (0, 0, 0, len, c1)
    else redundancyBlock mode len c
  else (0, 0, 0, len, c)

/-- SILK data and redundancy header of one frame for a validated configuration. -/
def decodeOpusFrameCfg (mode ir payloadMs : Nat) (decodeFec : Bool) (cfg : Cfg) (st : SilkSt) (frame : Bytes) : FrameOut :=
  match silkCalls cfg cfg.nfpp true st (decInit frame frame.length) with
  | (evs, st1, c1) =>
  match redundancyHeader mode decodeFec frame.length c1 with
  | (red, cts, rb, len, c2) =>
    { internalRate := ir, payloadMs, nCh := cfg.nCh, lostFlag := cfg.lostFlag, evs, redundancy := red, celtToSilk := cts,
      redundancyBytes := rb, len, dec := c2, st := st1 }

/-- SILK part of `opus_decode_frame` for a frame with `len > 1` and `mode ≠ MODE_CELT_ONLY`
    (opus_decoder.c:313, 387-499).  `frameMs10` is the frame duration in units of 0.1 ms. -/
def decodeOpusFrame (mode bandwidth nCh frameMs10 : Nat) (decodeFec : Bool) (st : SilkSt) (frame : Bytes) :
    Res FrameOut :=
  match internalRateOf mode bandwidth with
  | .ok ir =>
    match packetShape (max 10 (frameMs10 / 10)) with
    | .ok (nfpp, nbSubfr) =>
      match rateOf ir with
      | .ok rate =>
        .ok (decodeOpusFrameCfg mode ir (max 10 (frameMs10 / 10)) decodeFec
              { rate, nCh, nfpp, nbSubfr, lostFlag := if decodeFec then 2 else 0 } st frame)
      | .err e => .err e
      | .oob => .oob
      | .abort => .abort
    | .err e => .err e
    | .oob => .oob
    | .abort => .abort
  | .err e => .err e
  | .oob => .oob
  | .abort => .abort

/-! ## opus_decode_native: frames of a packet -/

/-- Per-frame outcome at packet level. -/
inductive FrameRes where
  | plc                         -- len ≤ 1: PLC/DTX, no symbols read
  | celt (off sz : Nat)         -- CELT-only frame (offset, size): no SILK symbols; its header is OpusModel/CeltSyms.lean
  | silk (off : Nat) (o : FrameOut)   -- `off` = offset of the frame in the packet
  deriving Repr

/-- The frame loop (opus_decoder.c:802-811) over `(offset, size)` pairs; the SILK state is threaded. -/
def framesLoop (toc : Nat) (pkt : Bytes) (decodeFec : Bool) : List (Nat × Nat) → SilkSt → Res (List FrameRes)
  | [], _ => .ok []
  | (off, sz) :: rest, st =>
    if sz ≤ 1 then
      match framesLoop toc pkt decodeFec rest st with
      | .ok l => .ok (.plc :: l)
      | e => e
    else if Framing.getMode toc = 1002 then
      match framesLoop toc pkt decodeFec rest st with
      | .ok l => .ok (.celt off sz :: l)
      | e => e
    else
      match decodeOpusFrame (Framing.getMode toc) (Framing.getBandwidth toc) (Framing.getNbChannels toc)
              (Framing.samplesPerFrame toc 48000 * 10 / 48) decodeFec st ((pkt.drop off).take sz) with
      | .ok o =>
        match framesLoop toc pkt decodeFec rest o.st with
        | .ok l => .ok (.silk off o :: l)
        | e => e
      | .err e => .err e
      | .oob => .oob
      | .abort => .abort

/-- Offsets of the frames of a parsed packet. -/
def frameSpans : Nat → List Nat → List (Nat × Nat)
  | _, [] => []
  | off, s :: ss => (off, s) :: frameSpans (off + s) ss

/-- `opus_decode`'s own check before `opus_decode_native` (opus_decoder.c:852-859): skipped for FEC decoding;
    otherwise `opus_decoder_get_nb_samples` must be positive. -/
def packetPre (fs : Nat) (decodeFec : Bool) (pkt : Bytes) : Bool :=
  decodeFec ||
  (match Framing.getNbSamples pkt fs with
   | .ok n => decide (n > 0)
   | _ => false)

/-- Wrap a frame list as "decoded" (as opposed to "concealed"). -/
def someRes : Res (List FrameRes) → Res (Option (List FrameRes))
  | .ok l => .ok (some l)
  | .err e => .err e
  | .oob => .oob
  | .abort => .abort

/-- The part of `opus_decode_native` behind the parser (opus_decoder.c:756-811).  `decodeFec = true`: only the
    first frame is decoded, from its LBRR data, unless the packet or the previous packet (`prevModeCelt`) is
    CELT-only, in which case everything is concealed (`none`). -/
def decodeFrames (decodeFec prevModeCelt : Bool) (st : SilkSt) (pkt : Bytes) (p : Framing.Parsed) :
    Res (Option (List FrameRes)) :=
  if decodeFec then
    if Framing.getMode p.toc = 1002 ∨ prevModeCelt then .ok none
    else someRes (framesLoop p.toc pkt true ((frameSpans p.payloadOffset p.sizes).take 1) st)
  else someRes (framesLoop p.toc pkt false (frameSpans p.payloadOffset p.sizes) st)

/-- `opus_decode` → `opus_decode_native` for a non-empty packet (opus_decoder.c:852-859, 744-811).
    The caller's `frame_size` is assumed to equal the packet's frame duration in the FEC case and to be
    at least the packet duration otherwise. -/
def decodePacket (fs : Nat) (decodeFec prevModeCelt : Bool) (st : SilkSt) (pkt : Bytes) :
    Res (Option (List FrameRes)) :=
  if packetPre fs decodeFec pkt then
    match Framing.parseImpl false pkt with
    | .ok p => decodeFrames decodeFec prevModeCelt st pkt p
    | .err e => .err e
    | .oob => .oob
    | .abort => .abort
  else .err .invalidPacket

/-- The literals used above agree with the regenerated constants of silk/define.h. -/
def constsOk : Bool :=
  let g := 0
  SilkSymsFrozen.Consts.TYPE_NO_VOICE_ACTIVITY == g && SilkSymsFrozen.Consts.TYPE_UNVOICED == 1 && SilkSymsFrozen.Consts.TYPE_VOICED == 2 &&
  SilkSymsFrozen.Consts.CODE_INDEPENDENTLY == 0 && SilkSymsFrozen.Consts.CODE_INDEPENDENTLY_NO_LTP_SCALING == 1 &&
  SilkSymsFrozen.Consts.CODE_CONDITIONALLY == 2 && SilkSymsFrozen.Consts.MAX_NB_SUBFR == 4 && SilkSymsFrozen.Consts.SUB_FRAME_LENGTH_MS == 5 &&
  SilkSymsFrozen.Consts.MAX_FRAME_LENGTH == 320 && SilkSymsFrozen.Consts.MIN_LPC_ORDER == 10 && SilkSymsFrozen.Consts.MAX_LPC_ORDER == 16 &&
  SilkSymsFrozen.Consts.SHELL_CODEC_FRAME_LENGTH == 16 && SilkSymsFrozen.Consts.LOG2_SHELL_CODEC_FRAME_LENGTH == 4 &&
  SilkSymsFrozen.Consts.MAX_NB_SHELL_BLOCKS == 20 && SilkSymsFrozen.Consts.SILK_MAX_PULSES == 16 && SilkSymsFrozen.Consts.N_RATE_LEVELS == 10 &&
  SilkSymsFrozen.Consts.NLSF_QUANT_MAX_AMPLITUDE == 4 && SilkSymsFrozen.Consts.FLAG_DECODE_NORMAL == 0 &&
  SilkSymsFrozen.Consts.FLAG_PACKET_LOST == 1 && SilkSymsFrozen.Consts.FLAG_DECODE_LBRR == 2 &&
  SilkSymsFrozen.Consts.MAX_FRAMES_PER_PACKET == 3 && SilkSymsFrozen.Consts.STEREO_QUANT_SUB_STEPS == 5 &&
  SilkSymsFrozen.Consts.stereoStepQ16 == 6554 && SilkSymsFrozen.Consts.STEREO_QUANT_TAB_SIZE == 16 &&
  SILK_MAX_PULSES == 16 && N_RATE_LEVELS == 10 && NLSF_QUANT_MAX_AMPLITUDE == 4

end Opus.SilkSyms
