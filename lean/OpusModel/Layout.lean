import OpusModel.Basic
import OpusModel.Framing
import OpusModel.Gen.LayoutTables
/-
  OpusModel.Layout — channel layouts of the multistream / surround / projection API (C10).

  C sources:  src/opus_multistream.c:42-99           validate_layout, get_left/right/mono_channel
              src/opus_multistream_encoder.c:104-144  validate_ambisonics, validate_encoder_layout
              src/opus_multistream_encoder.c:389-666  surround get_size / init_impl / init / create
              src/opus_multistream_decoder.c:66-176   decoder init / create, packet_validate
              src/opus_multistream_decoder.c:178-307  opus_multistream_decode_native (routing loop)
              src/opus_projection_encoder.c:92-130,230-362  family-3 stream counts and init checks
              celt/mathops.c:45-68                    isqrt32

  Conventions.  `ChannelLayout.mapping` holds `mapping[0 .. nb_channels-1]` (the only entries the C
  code ever reads); a caller that supplies fewer than `channels` bytes makes the C code read outside
  the supplied buffer, which the init functions report as `.oob`.  C `int` arguments are `Int`;
  once the argument checks have passed the values are stored as `Nat`.  The inner
  `opus_encoder_init` / `opus_decoder_init` only look at `Fs`, the channel count (1 or 2 here) and
  the application; their argument check is the parameter `innerOk`.
-/
namespace Opus.Layout
open Opus

/-- `ChannelLayout` (src/opus_private.h:86-91). -/
structure ChannelLayout where
  nbChannels : Nat
  nbStreams : Nat
  nbCoupled : Nat
  mapping : List Nat
  deriving DecidableEq, Repr

/-- `validate_layout` (src/opus_multistream.c:42-55). -/
def validateLayout (l : ChannelLayout) : Bool :=
  let maxChannel := l.nbStreams + l.nbCoupled
  if maxChannel > 255 then false
  else (l.mapping.take l.nbChannels).all fun m => !(decide (m ≥ maxChannel) && decide (m ≠ 255))

/-- The scan `for (;i<nb_channels;i++) if (mapping[i]==target) return i; return -1;` shared by
    `get_left/right/mono_channel`: the argument list is the suffix `mapping[i..]`. -/
def scanFrom (target : Nat) : List Nat → Nat → Int
  | [], _ => -1
  | x :: xs, i => if x = target then (i : Int) else scanFrom target xs (i + 1)

/-- `i = (prev<0) ? 0 : prev+1` followed by the scan. -/
def findChannel (l : ChannelLayout) (target : Nat) (prev : Int) : Int :=
  let start := if prev < 0 then 0 else prev.toNat + 1
  scanFrom target ((l.mapping.take l.nbChannels).drop start) start

/-- `get_left_channel` (src/opus_multistream.c:58-69). -/
def getLeftChannel (l : ChannelLayout) (streamId : Nat) (prev : Int) : Int :=
  findChannel l (streamId * 2) prev

/-- `get_right_channel` (src/opus_multistream.c:71-82). -/
def getRightChannel (l : ChannelLayout) (streamId : Nat) (prev : Int) : Int :=
  findChannel l (streamId * 2 + 1) prev

/-- `get_mono_channel` (src/opus_multistream.c:84-95). -/
def getMonoChannel (l : ChannelLayout) (streamId : Nat) (prev : Int) : Int :=
  findChannel l (streamId + l.nbCoupled) prev

/-- Body of the loop of `validate_encoder_layout` for stream `s`. -/
def encoderStreamOk (l : ChannelLayout) (s : Nat) : Bool :=
  if s < l.nbCoupled then
    decide (getLeftChannel l s (-1) ≠ -1) && decide (getRightChannel l s (-1) ≠ -1)
  else decide (getMonoChannel l s (-1) ≠ -1)

/-- `validate_encoder_layout` (src/opus_multistream_encoder.c:127-144). -/
def validateEncoderLayout (l : ChannelLayout) : Bool :=
  (List.range l.nbStreams).all (encoderStreamOk l)

/-! ### isqrt32 and the ambisonics channel counts -/

/-- Bit length of a 32-bit value, one bit per step (`ec_ilog`, celt/entcode.c; the argument is an
    `opus_uint32`, so 32 steps suffice). -/
def ilogAux : Nat → Nat → Nat
  | 0, _ => 0
  | k + 1, v => if v = 0 then 0 else 1 + ilogAux k (v / 2)

/-- `EC_ILOG` (celt/ecintrin.h:86). -/
def ilog (v : Nat) : Nat := ilogAux 32 v

/-- The `do … while(bshift>=0)` loop of `isqrt32` (celt/mathops.c:56-66); the first argument is
    `bshift+1` (the loop counter itself, so this is structural recursion, not fuel). -/
def isqrtLoop : Nat → Nat → Nat → Nat
  | 0, g, _ => g
  | k + 1, g, val =>
    let b := 2 ^ k
    let t := (2 * g + b) * 2 ^ k
    if t ≤ val then isqrtLoop k (g + b) (val - t) else isqrtLoop k g val

/-- `isqrt32` (celt/mathops.c:45-68) for `_val ≥ 1` (every caller modelled here guards this;
    for `0` the C code shifts by a negative amount). -/
def isqrt32 (val : Nat) : Nat := isqrtLoop ((ilog val - 1) / 2 + 1) 0 val

/-- `validate_ambisonics` (src/opus_multistream_encoder.c:104-125): `some (streams, coupled)`
    when accepted. -/
def validateAmbisonics (nbChannels : Int) : Option (Nat × Nat) :=
  if nbChannels < 1 ∨ nbChannels > 227 then none
  else
    let ch := nbChannels.toNat
    let orderPlusOne := isqrt32 ch
    let acn := orderPlusOne * orderPlusOne
    let nondiegetic : Int := (ch : Int) - acn
    if nondiegetic ≠ 0 ∧ nondiegetic ≠ 2 then none
    else
      let nd := if nondiegetic ≠ 0 then 1 else 0
      some (acn + nd, nd)

/-! ### encoder / decoder creation -/

/-- `MappingType` (src/opus_private.h:93-97). -/
inductive MappingType where
  | none | surround | ambisonics
  deriving DecidableEq, Repr

def MappingType.code : MappingType → Nat
  | .none => 0 | .surround => 1 | .ambisonics => 2

/-- The argument test shared by `opus_multistream_decoder_init` and `_create`
    (src/opus_multistream_decoder.c:80-82, 124-125). -/
def decArgsBad (channels streams coupled : Int) : Bool :=
  decide (channels > 255) || decide (channels < 1) || decide (coupled > streams) ||
  decide (streams < 1) || decide (coupled < 0) || decide (streams > 255 - coupled)

/-- The argument test of the encoder (src/opus_multistream_encoder.c:445-448, 597-599). -/
def encArgsBad (channels streams coupled : Int) : Bool :=
  decArgsBad channels streams coupled || decide (streams + coupled > channels)

/-- `for (i=0;i<nb_channels;i++) layout.mapping[i] = mapping[i];` — `.oob` when the caller's
    array is shorter than `channels`. -/
def loadLayout (channels streams coupled : Int) (mapping : List Nat) : Res ChannelLayout :=
  if mapping.length < channels.toNat then .oob
  else .ok { nbChannels := channels.toNat, nbStreams := streams.toNat, nbCoupled := coupled.toNat,
             mapping := mapping.take channels.toNat }

/-- `opus_multistream_decoder_init` (src/opus_multistream_decoder.c:66-110). -/
def decoderInit (innerOk : Bool) (channels streams coupled : Int) (mapping : List Nat) :
    Res ChannelLayout :=
  if decArgsBad channels streams coupled then .err .badArg
  else match loadLayout channels streams coupled mapping with
    | .ok l =>
      if !validateLayout l then .err .badArg
      else if !innerOk then .err .badArg
      else .ok l
    | .err e => .err e
    | .oob => .oob
    | .abort => .abort

/-- `opus_multistream_decoder_create` (src/opus_multistream_decoder.c:113-147); allocation is
    assumed to succeed. -/
def decoderCreate (innerOk : Bool) (channels streams coupled : Int) (mapping : List Nat) :
    Res ChannelLayout :=
  if decArgsBad channels streams coupled then .err .badArg
  else decoderInit innerOk channels streams coupled mapping

/-- State of an `OpusMSEncoder` that the layout logic determines. -/
structure MSEncoder where
  layout : ChannelLayout
  lfeStream : Int
  mappingType : MappingType
  deriving DecidableEq, Repr

/-- `opus_multistream_encoder_init_impl` (src/opus_multistream_encoder.c:429-495).
    `lfeIn` is the value of `st->lfe_stream` on entry (set by the surround init). -/
def encoderInitImpl (innerOk : Bool) (channels streams coupled : Int) (mapping : List Nat)
    (mt : MappingType) (lfeIn : Int) : Res MSEncoder :=
  if encArgsBad channels streams coupled then .err .badArg
  else match loadLayout channels streams coupled mapping with
    | .ok l =>
      if !validateLayout l then .err .badArg
      else if !validateEncoderLayout l then .err .badArg
      else if mt = .ambisonics ∧ (validateAmbisonics l.nbChannels).isNone then .err .badArg
      else if !innerOk then .err .badArg
      else .ok { layout := l, lfeStream := if mt ≠ .surround then -1 else lfeIn, mappingType := mt }
    | .err e => .err e
    | .oob => .oob
    | .abort => .abort

/-- `opus_multistream_encoder_init` (src/opus_multistream_encoder.c:497-510). -/
def encoderInit (innerOk : Bool) (channels streams coupled : Int) (mapping : List Nat) :
    Res MSEncoder :=
  encoderInitImpl innerOk channels streams coupled mapping .none (-1)

/-- `opus_multistream_encoder_create` (src/opus_multistream_encoder.c:585-621). -/
def encoderCreate (innerOk : Bool) (channels streams coupled : Int) (mapping : List Nat) :
    Res MSEncoder :=
  if encArgsBad channels streams coupled then .err .badArg
  else encoderInit innerOk channels streams coupled mapping

/-- The layout chosen by `opus_multistream_surround_encoder_init`. -/
structure Surround where
  streams : Nat
  coupled : Nat
  mapping : List Nat
  lfeStream : Int
  deriving DecidableEq, Repr

/-- Entry `channels-1` of the regenerated `vorbis_mappings`. -/
def vorbisEntry (ch : Nat) : Nat × Nat × List Nat :=
  Gen.LayoutTables.vorbisMappings.getD (ch - 1) (0, 0, [])

/-- Family-2 mapping (src/opus_multistream_encoder.c:564-567): mono streams first, then the
    coupled pair. -/
def ambisonicsMapping (streams coupled : Nat) : List Nat :=
  (List.range (streams - coupled)).map (fun i => i + coupled * 2) ++ List.range (coupled * 2)

/-- The layout construction of `opus_multistream_surround_encoder_init`
    (src/opus_multistream_encoder.c:525-569), after which `init_impl` is called. -/
def surroundLayout (channels family : Int) : Res Surround :=
  if channels > 255 ∨ channels < 1 then .err .badArg
  else
    let ch := channels.toNat
    if family = 0 then
      if ch = 1 then .ok { streams := 1, coupled := 0, mapping := [0], lfeStream := -1 }
      else if ch = 2 then .ok { streams := 1, coupled := 1, mapping := [0, 1], lfeStream := -1 }
      else .err .unimplemented
    else if family = 1 ∧ ch ≤ 8 ∧ ch ≥ 1 then
      let e := vorbisEntry ch
      .ok { streams := e.1, coupled := e.2.1, mapping := e.2.2.take ch,
            lfeStream := if ch ≥ 6 then (e.1 : Int) - 1 else -1 }
    else if family = 255 then
      .ok { streams := ch, coupled := 0, mapping := List.range ch, lfeStream := -1 }
    else if family = 2 then
      match validateAmbisonics channels with
      | none => .err .badArg
      | some (s, c) => .ok { streams := s, coupled := c, mapping := ambisonicsMapping s c, lfeStream := -1 }
    else .err .unimplemented

/-- Mapping type chosen at src/opus_multistream_encoder.c:571-579. -/
def surroundMappingType (channels family : Int) : MappingType :=
  if channels > 2 ∧ family = 1 then .surround
  else if family = 2 then .ambisonics
  else .none

/-- `opus_multistream_surround_encoder_init` (src/opus_multistream_encoder.c:512-583):
    the values written through `streams`/`coupled_streams`/`mapping` and the encoder state. -/
def surroundInit (innerOk : Bool) (channels family : Int) : Res (Surround × MSEncoder) :=
  match surroundLayout channels family with
  | .ok s =>
    match encoderInitImpl innerOk channels s.streams s.coupled s.mapping
            (surroundMappingType channels family) s.lfeStream with
    | .ok e => .ok (s, e)
    | .err e => .err e
    | .oob => .oob
    | .abort => .abort
  | .err e => .err e
  | .oob => .oob
  | .abort => .abort

/-- `opus_multistream_surround_encoder_get_size(channels, family) != 0`
    (src/opus_multistream_encoder.c:389-427; `opus_multistream_encoder_get_size` is non-zero
    for `streams ≥ 1`, `0 ≤ coupled ≤ streams`). -/
def surroundSizeNonzero (channels family : Int) : Bool :=
  let msSize (s c : Int) : Bool := !(decide (s < 1) || decide (c > s) || decide (c < 0))
  if family = 0 then
    if channels = 1 then msSize 1 0 else if channels = 2 then msSize 1 1 else false
  else if family = 1 ∧ channels ≤ 8 ∧ channels ≥ 1 then
    let e := vorbisEntry channels.toNat
    msSize e.1 e.2.1
  else if family = 255 then msSize channels 0
  else if family = 2 then
    match validateAmbisonics channels with
    | none => false
    | some (s, c) => msSize s c
  else false

/-- `opus_multistream_surround_encoder_create` (src/opus_multistream_encoder.c:623-666). -/
def surroundCreate (innerOk : Bool) (channels family : Int) : Res (Surround × MSEncoder) :=
  if channels > 255 ∨ channels < 1 then .err .badArg
  else if !surroundSizeNonzero channels family then .err .unimplemented
  else surroundInit innerOk channels family

/-! ### projection (mapping family 3) -/

/-- `get_order_plus_one_from_channels` (src/opus_projection_encoder.c:92-113). -/
def orderPlusOneFromChannels (channels : Int) : Option Nat :=
  if channels < 1 ∨ channels > 227 then none
  else
    let ch := channels.toNat
    let o := isqrt32 ch
    let nondiegetic : Int := (ch : Int) - o * o
    if nondiegetic ≠ 0 ∧ nondiegetic ≠ 2 then none else some o

/-- `get_streams_from_channels` (src/opus_projection_encoder.c:115-130):
    `some (streams, coupled, order_plus_one)`. -/
def streamsFromChannels (channels family : Int) : Option (Nat × Nat × Nat) :=
  if family = 3 then
    match orderPlusOneFromChannels channels with
    | none => none
    | some o => some ((channels.toNat + 1) / 2, channels.toNat / 2, o)
  else none

/-- Dimensions `(rows, cols)` of the built-in matrix pair for `order_plus_one`
    (src/opus_projection_encoder.c:255-291); `none` = no pre-computed matrix. -/
def builtinDim (orderPlusOne : Nat) : Option Nat :=
  if 2 ≤ orderPlusOne ∧ orderPlusOne ≤ 6 then some (orderPlusOne * orderPlusOne + 2) else none

/-- Argument / size checks of `opus_projection_ambisonics_encoder_init`
    (src/opus_projection_encoder.c:230-362) down to the call of `opus_multistream_encoder_init`
    with the identity mapping.  `dims o = some (mr, mc, dr, dc)` are the rows/cols of the mixing
    and demixing matrices selected for `order_plus_one = o` (from the regenerated tables). -/
def projectionInit (dims : Nat → Option (Nat × Nat × Nat × Nat)) (innerOk : Bool)
    (channels family : Int) : Res (Nat × Nat × Nat × MSEncoder) :=
  match streamsFromChannels channels family with
  | none => .err .badArg
  | some (streams, coupled, o) =>
    match dims o with
    | none => .err .badArg
    | some (mr, mc, dr, dc) =>
      -- mapping_matrix_get_size(rows, cols) == 0  (src/mapping_matrix.c:40-56)
      if mr > 255 ∨ mc > 255 ∨ mr * mc * 2 > 65004 then .err .badArg
      else if dr > 255 ∨ dc > 255 ∨ dr * dc * 2 > 65004 then .err .badArg
      else if streams + coupled > mr ∨ channels.toNat > mc ∨ channels.toNat > dr ∨ streams + coupled > dc then
        .err .badArg
      else
        match encoderInit innerOk channels streams coupled (List.range channels.toNat) with
        | .ok e => .ok (streams, coupled, o, e)
        | .err e => .err e
        | .oob => .oob
        | .abort => .abort

/-- `opus_projection_ambisonics_encoder_get_size(channels, family) != 0`
    (src/opus_projection_encoder.c:156-228). -/
def projectionSizeNonzero (dims : Nat → Option (Nat × Nat × Nat × Nat)) (channels family : Int) : Bool :=
  match streamsFromChannels channels family with
  | none => false
  | some (streams, coupled, o) =>
    match dims o with
    | none => false
    | some (mr, mc, dr, dc) =>
      !(decide (mr > 255 ∨ mc > 255 ∨ mr * mc * 2 > 65004)) &&
      !(decide (dr > 255 ∨ dc > 255 ∨ dr * dc * 2 > 65004)) &&
      !(decide (streams < 1) || decide (coupled > streams))

/-- `opus_projection_ambisonics_encoder_create` (src/opus_projection_encoder.c:364-398):
    a zero size is reported as `OPUS_ALLOC_FAIL`. -/
def projectionCreate (dims : Nat → Option (Nat × Nat × Nat × Nat)) (innerOk : Bool)
    (channels family : Int) : Res (Nat × Nat × Nat × MSEncoder) :=
  if !projectionSizeNonzero dims channels family then .err .allocFail
  else projectionInit dims innerOk channels family

/-! ### multistream packet structure -/

/-- One iteration of the loop of `opus_multistream_packet_validate`
    (src/opus_multistream_decoder.c:159-174): parse the next sub-packet (self-delimited unless it
    is the last one) and return its duration and its length. -/
def validateStep (fs : Nat) (last : Bool) (data : Bytes) : Res (Nat × Nat) :=
  if data.length = 0 then .err .invalidPacket
  else match Framing.parseImpl (!last) data with
    | .ok r =>
      match Framing.getNbSamples (data.take r.packetOffset) fs with
      | .ok n => .ok (n, r.packetOffset)
      | .err e => .err e
      | .oob => .oob
      | .abort => .abort
    | .err e => .err e
    | .oob => .oob
    | .abort => .abort

/-- The loop of `opus_multistream_packet_validate` with `k` streams left; `first` tells whether
    this is stream 0 (no duration to compare with yet). -/
def validateLoop (fs : Nat) : Nat → Bool → Nat → Bytes → Res Nat
  | 0, _, samples, _ => .ok samples
  | k + 1, first, samples, data =>
    match validateStep fs (k = 0) data with
    | .ok (n, off) =>
      if !first ∧ samples ≠ n then .err .invalidPacket
      else validateLoop fs k false n (data.drop off)
    | .err e => .err e
    | .oob => .oob
    | .abort => .abort

/-- `opus_multistream_packet_validate` (src/opus_multistream_decoder.c:149-176) with
    `len = data.length`. -/
def msPacketValidate (data : Bytes) (nbStreams fs : Nat) : Res Nat :=
  validateLoop fs nbStreams true 0 data

/-! ### routing loop of opus_multistream_decode_native -/

/-- What a `copy_channel_out` call copies. -/
inductive Src where
  | left (s : Nat)    -- `buf`   with stride 2 of coupled stream s
  | right (s : Nat)   -- `buf+1` with stride 2 of coupled stream s
  | mono (s : Nat)    -- `buf`   with stride 1 of mono stream s
  | zero              -- `NULL` (muted channel)
  deriving DecidableEq, Repr

/-- One call `(*copy_channel_out)(pcm, nb_channels, chan, src, stride, frame_size, user_data)`. -/
structure Call where
  chan : Nat
  src : Src
  frameSize : Int
  deriving DecidableEq, Repr

/-- A successful `scanFrom` returns an index inside the scanned range. -/
theorem scanFrom_bounds (target : Nat) : ∀ (xs : List Nat) (i : Nat),
    scanFrom target xs i = -1 ∨ ((i : Int) ≤ scanFrom target xs i ∧ scanFrom target xs i < (i : Int) + xs.length)
  | [], _ => by simp [scanFrom]
  | x :: xs, i => by
    unfold scanFrom
    split
    · right; simp only [List.length_cons]; omega
    · rcases scanFrom_bounds target xs (i + 1) with h | h
      · left; exact h
      · right; simp only [List.length_cons]; omega

/-- `findChannel` answers `-1` or a channel index after `prev` and below `nb_channels`. -/
theorem findChannel_bounds (l : ChannelLayout) (target : Nat) (prev : Int) :
    findChannel l target prev = -1 ∨
    ((if prev < 0 then 0 else prev + 1) ≤ findChannel l target prev ∧
      findChannel l target prev < (l.nbChannels : Int)) := by
  have key : ∀ start : Nat,
      scanFrom target ((l.mapping.take l.nbChannels).drop start) start = -1 ∨
      ((start : Int) ≤ scanFrom target ((l.mapping.take l.nbChannels).drop start) start ∧
        scanFrom target ((l.mapping.take l.nbChannels).drop start) start < (l.nbChannels : Int)) := by
    intro start
    rcases scanFrom_bounds target ((l.mapping.take l.nbChannels).drop start) start with h | h
    · left; exact h
    · right
      have hl : ((l.mapping.take l.nbChannels).drop start).length ≤ l.nbChannels - start := by
        simp only [List.length_drop, List.length_take]; omega
      omega
  unfold findChannel
  by_cases hp : prev < 0
  · simp only [hp, if_true]
    rcases key 0 with h | h
    · left; exact h
    · right; omega
  · simp only [hp, if_false]
    rcases key (prev.toNat + 1) with h | h
    · left; exact h
    · right; omega

/-- `prev=-1; while ((chan = get_X_channel(layout, s, prev)) != -1) { copy(chan); prev = chan; }`
    (src/opus_multistream_decoder.c:268-293), `target` being the mapping value the respective
    `get_X_channel` compares with.  Terminates because every answer lies strictly after `prev`
    and below `nb_channels` (`findChannel_bounds`). -/
def whileLoop (l : ChannelLayout) (target : Nat) (src : Src) (fs : Int) (prev : Int) : List Call :=
  if h : findChannel l target prev = -1 then []
  else
    { chan := (findChannel l target prev).toNat, src, frameSize := fs } ::
      whileLoop l target src fs (findChannel l target prev)
termination_by l.nbChannels + 1 - (if prev < 0 then 0 else prev.toNat + 1)
decreasing_by
  rcases findChannel_bounds l target prev with h' | h'
  · exact absurd h' h
  · split at h' <;> split <;> omega

/-- Copy calls issued for stream `s` after a successful decode of `fs` samples
    (src/opus_multistream_decoder.c:265-294). -/
def streamCalls (l : ChannelLayout) (s : Nat) (fs : Int) : List Call :=
  if s < l.nbCoupled then
    whileLoop l (s * 2) (.left s) fs (-1) ++ whileLoop l (s * 2 + 1) (.right s) fs (-1)
  else whileLoop l (s + l.nbCoupled) (.mono s) fs (-1)

/-- "Handle muted channels" (src/opus_multistream_decoder.c:296-304). -/
def mutedCalls (fs : Int) : List Nat → Nat → List Call
  | [], _ => []
  | x :: xs, c =>
    if x = 255 then { chan := c, src := .zero, frameSize := fs } :: mutedCalls fs xs (c + 1)
    else mutedCalls fs xs (c + 1)

/-- What the per-stream decoder is assumed to report for stream `s`: the return value of
    `opus_decode_native` and the `packet_offset` it stored. -/
structure StreamRet where
  ret : Int
  packetOffset : Int
  deriving DecidableEq, Repr

/-- Outcome of `opus_multistream_decode_native`: the return value and the copy calls made. -/
structure Routed where
  ret : Int
  calls : List Call
  deriving DecidableEq, Repr

/-- The stream loop (src/opus_multistream_decoder.c:238-295) followed by the muted-channel loop.
    `s` = current stream, `rets` = the oracle answers of streams `s, s+1, …`. -/
def routeLoop (l : ChannelLayout) (doPlc : Bool) : List StreamRet → Nat → Int → Int → List Call → Routed
  | [], _, _, fs, acc =>
    { ret := fs, calls := acc ++ mutedCalls fs (l.mapping.take l.nbChannels) 0 }
  | r :: rest, s, len, _, acc =>
    if !doPlc ∧ len ≤ 0 then { ret := Err.internalError.code, calls := acc }
    else
      let len' := if doPlc then len else len - r.packetOffset
      if r.ret ≤ 0 then { ret := r.ret, calls := acc }
      else routeLoop l doPlc rest (s + 1) len' r.ret (acc ++ streamCalls l s r.ret)

/-- `opus_multistream_decode_native` (src/opus_multistream_decoder.c:178-307) over abstract
    per-stream decoders: `rets[s]` is what `opus_decode_native` answers for stream `s`
    (`rets.length = nb_streams`), `validate` the answer of `opus_multistream_packet_validate`. -/
def decodeNative (l : ChannelLayout) (fsRate : Nat) (frameSize len : Int) (validate : Res Nat)
    (rets : List StreamRet) : Res Routed :=
  if frameSize ≤ 0 then .ok { ret := Err.badArg.code, calls := [] }
  else
    let lim : Int := (fsRate / 25 * 3 : Nat)
    let frameSize := if frameSize < lim then frameSize else lim
    let doPlc := decide (len = 0)
    if len < 0 then .ok { ret := Err.badArg.code, calls := [] }
    else if !doPlc ∧ len < 2 * (l.nbStreams : Int) - 1 then .ok { ret := Err.invalidPacket.code, calls := [] }
    else if doPlc then .ok (routeLoop l doPlc (rets.take l.nbStreams) 0 len frameSize [])
    else match validate with
      | .ok n =>
        if (n : Int) > frameSize then .ok { ret := Err.bufferTooSmall.code, calls := [] }
        else .ok (routeLoop l doPlc (rets.take l.nbStreams) 0 len frameSize [])
      | .err e => .ok { ret := e.code, calls := [] }
      | .oob => .oob
      | .abort => .abort

/-! ### what the routing delivers -/

/-- The source a validated layout prescribes for output channel `c`
    (RFC 7845 §5.1.1: index `< 2·coupled` → side of a coupled stream, otherwise a mono stream,
    255 → silence). -/
def expectedSrc (l : ChannelLayout) (c : Nat) : Src :=
  let m := l.mapping.getD c 255
  if m = 255 then .zero
  else if m < 2 * l.nbCoupled then (if m % 2 = 0 then .left (m / 2) else .right (m / 2))
  else .mono (m - l.nbCoupled)

/-- Abstract per-stream PCM: the samples a stand-alone decoder of stream `s` produces
    (`left`/`right` of a coupled stream, `mono` of an uncoupled one); `zero` is silence. -/
def srcSamples {α} [OfNat α 0] (pcm : Src → List α) (n : Int) : Src → List α
  | .zero => List.replicate n.toNat 0
  | s => (pcm s).take n.toNat

/-- The list of writes channel `c` receives during one call (each write is a block of samples). -/
def channelWrites {α} [OfNat α 0] (pcm : Src → List α) (calls : List Call) (c : Nat) : List (List α) :=
  (calls.filter (fun k => k.chan = c)).map (fun k => srcSamples pcm k.frameSize k.src)

end Opus.Layout
