import OpusModel.Basic
/-
  OpusModel.Kernels — run-time dispatch and SIMD kernels (C15, DESIGN.md §7.C15).

  (i)   dispatch: `opus_cpu_feature_check` / `opus_select_arch_impl` / `opus_select_arch`
        (celt/x86/x86cpu.c:111-198) and the expected shape of the RTCD tables of
        celt/x86/x86_celt_map.c and silk/x86/x86_silk_map.c;
  (ii)  `silk_VQ_WMat_EC_c` (silk/VQ_WMat_EC.c) and `silk_VQ_WMat_EC_sse4_1`
        (silk/x86/VQ_WMat_EC_sse4_1.c) as data-flow programs over `Int` with explicit `wrap32`/`wrap64`
        and 128-bit registers as four unsigned 32-bit lanes;
  (iii) the lane structure of the float reduction kernels, generic over any type with `+`, `*`, `0`:
        celt_inner_prod_sse, dual_inner_prod_sse, xcorr_kernel_sse, comb_filter_const_sse
        (celt/x86/pitch_sse.c), xcorr_kernel_avx / celt_pitch_xcorr_avx2 (celt/x86/pitch_avx.c),
        silk_inner_product_FLP_avx2 (silk/float/x86/inner_product_FLP_avx2.c) and their portable
        counterparts (celt/pitch.h, celt/celt.c, silk/float/inner_product_FLP.c).
        A SIMD register is a lane function `Nat → α`; memory is `Nat → α`; every intrinsic is one small
        definition.  Instantiated at `Int` the definitions are executable and are what the `kernels`
        suite compares with the real kernels on the exact domain (integer-valued floats).
  Core Lean only.
-/
namespace Opus.Kernels

/-! ## (i) dispatch -/

/-- `CPU_Feature` (x86cpu.c:102-109). -/
structure CpuFeature where
  sse : Bool
  sse2 : Bool
  sse41 : Bool
  avx2 : Bool
  deriving DecidableEq, Repr

/-- bit `n` of a register value, arithmetically. -/
def bit (x n : Nat) : Bool := x / 2 ^ n % 2 == 1

/-- `opus_cpu_feature_check` (x86cpu.c:111-139): `nIds` = EAX of leaf 0, `ecx1`/`edx1` of leaf 1,
    `ebx7` = EBX of leaf 7 (only consulted when leaf 1 announces AVX+FMA and `nIds ≥ 7`). -/
def cpuFeatureCheck (nIds ecx1 edx1 ebx7 : Nat) : CpuFeature :=
  if nIds ≥ 1 then
    let avx := bit ecx1 28 && bit ecx1 12
    { sse := bit edx1 25, sse2 := bit edx1 26, sse41 := bit ecx1 19,
      avx2 := if avx && nIds ≥ 7 then avx && bit ebx7 5 else false }
  else { sse := false, sse2 := false, sse41 := false, avx2 := false }

/-- `opus_select_arch_impl` (x86cpu.c:141-176): the decision list. -/
def selectArchImpl (f : CpuFeature) : Nat :=
  if !f.sse then 0
  else if !f.sse2 then 1
  else if !f.sse41 then 2
  else if !f.avx2 then 3
  else 4

/-- `opus_select_arch` (x86cpu.c:178-196) with the XIPH_OPUS_VERIF hook: `cap` is the digit of
    `OPUS_VERIF_ARCH_CAP` when set; it can only lower the level. -/
def selectArch (f : CpuFeature) (cap : Option Nat) : Nat :=
  let arch := selectArchImpl f
  match cap with
  | some c => if c < arch then c else arch
  | none => arch

/-- One run-time dispatched kernel: the table, the portable symbol and the SIMD symbols with the arch level
    (1 = SSE, 2 = SSE2, 3 = SSE4.1, 4 = AVX2) from which each is selected, ascending. -/
structure KernelSpec where
  table : String
  base : String
  levels : List (Nat × String)
  deriving Repr

/-- the symbol the table must hold at arch index `a`: the highest SIMD level `≤ a`, else the C function. -/
def symbolAt (k : KernelSpec) (a : Nat) : String :=
  k.levels.foldl (fun acc ls => if ls.1 ≤ a then ls.2 else acc) k.base

/-- Expected table: indices `0..4` as above, indices above the highest arch level (up to OPUS_ARCHMASK) are
    the NULL pointers that C leaves in a partially initialised array. -/
def expectedTable (k : KernelSpec) (mask : Nat) : List String :=
  (List.range (mask + 1)).map (fun a => if a ≤ 4 then symbolAt k a else "null")

/-- All x86 RTCD kernels of the float build (x86_celt_map.c:92-181, x86_silk_map.c:62-171). -/
def floatSpecs : List KernelSpec := [
  ⟨"PITCH_XCORR_IMPL", "celt_pitch_xcorr_c", [(4, "celt_pitch_xcorr_avx2")]⟩,
  ⟨"XCORR_KERNEL_IMPL", "xcorr_kernel_c", [(1, "xcorr_kernel_sse")]⟩,
  ⟨"CELT_INNER_PROD_IMPL", "celt_inner_prod_c", [(1, "celt_inner_prod_sse")]⟩,
  ⟨"DUAL_INNER_PROD_IMPL", "dual_inner_prod_c", [(1, "dual_inner_prod_sse")]⟩,
  ⟨"COMB_FILTER_CONST_IMPL", "comb_filter_const_c", [(1, "comb_filter_const_sse")]⟩,
  ⟨"OP_PVQ_SEARCH_IMPL", "op_pvq_search_c", [(2, "op_pvq_search_sse2")]⟩,
  ⟨"SILK_VAD_GETSA_Q8_IMPL", "silk_VAD_GetSA_Q8_c", [(3, "silk_VAD_GetSA_Q8_sse4_1")]⟩,
  ⟨"SILK_NSQ_IMPL", "silk_NSQ_c", [(3, "silk_NSQ_sse4_1")]⟩,
  ⟨"SILK_VQ_WMAT_EC_IMPL", "silk_VQ_WMat_EC_c", [(3, "silk_VQ_WMat_EC_sse4_1")]⟩,
  ⟨"SILK_NSQ_DEL_DEC_IMPL", "silk_NSQ_del_dec_c", [(3, "silk_NSQ_del_dec_sse4_1"), (4, "silk_NSQ_del_dec_avx2")]⟩,
  ⟨"SILK_INNER_PRODUCT_FLP_IMPL", "silk_inner_product_FLP_c", [(4, "silk_inner_product_FLP_avx2")]⟩]

/-- Which tables exist: a kernel whose lowest SIMD level is presumed at compile time
    (`OPUS_X86_PRESUME_*`) is called directly and has no table (pitch_sse.h, vq_sse.h). -/
def tablePresent (presumed : Nat) (k : KernelSpec) : Bool :=
  match k.levels with
  | [] => false
  | (l, _) :: _ => decide (presumed < l)

def specOf (name : String) : Option KernelSpec := floatSpecs.find? (fun k => k.table == name)

/-- a regenerated table `(name, length, entries)` has the expected shape. -/
def tableOk (mask : Nat) (t : String × Nat × List String) : Bool :=
  match specOf t.1 with
  | none => false
  | some k => t.2.1 == mask + 1 && t.2.2 == expectedTable k mask

/-- highest presumed level from the `OPUS_X86_PRESUME_*` macro list. -/
def presumedLevel (presume : List String) : Nat :=
  if presume.contains "AVX2" then 4 else if presume.contains "SSE4_1" then 3
  else if presume.contains "SSE2" then 2 else if presume.contains "SSE" then 1 else 0

/-- the set of table names that must exist for a given presumed level, in `floatSpecs` order. -/
def expectedTableNames (presumed : Nat) : List String :=
  (floatSpecs.filter (tablePresent presumed)).map (·.table)

/-! ## (ii) silk_VQ_WMat_EC: C vs SSE4.1 -/

def wrap32 (x : Int) : Int := (x + 2147483648) % 4294967296 - 2147483648
def wrap64 (x : Int) : Int := (x + 9223372036854775808) % 18446744073709551616 - 9223372036854775808
def sext8 (x : Int) : Int := (x + 128) % 256 - 128
def sext16 (x : Int) : Int := (x + 32768) % 65536 - 32768
/-- unsigned 32-bit view of a value (a register lane). -/
def u32 (x : Int) : Int := x % 4294967296

/-- silk_MLA (SigProc_FIX.h:433): `a + b*c` in 32-bit two's complement. -/
def mla (a b c : Int) : Int := wrap32 (a + wrap32 (b * c))
/-- silk_LSHIFT32 (SigProc_FIX.h:503). -/
def lshift32 (a : Int) (s : Nat) : Int := wrap32 (a * 2 ^ s)
/-- silk_SMLAWB, OPUS_FAST_INT64 form (macros.h:50): `(int32)(a + ((b * (int64)(int16)c) >> 16))`. -/
def smlawb (a b c : Int) : Int := wrap32 (a + wrap64 (b * sext16 c) / 65536)
/-- silk_SMULBB (macros.h:70). -/
def smulbb (a b : Int) : Int := wrap32 (sext16 a * sext16 b)

/-- position of the highest set bit + 1 of a 32-bit pattern (EC_ILOG), 0 for 0. -/
def ilog32 (x : Int) : Nat := (u32 x).toNat.log2 + (if u32 x = 0 then 0 else 1)
/-- silk_CLZ32 (macros.h:120). -/
def clz32 (x : Int) : Int := if wrap32 x = 0 then 32 else 32 - (ilog32 x : Int)
/-- silk_ROR32 (SigProc_FIX.h:398), rotation amount in (-32, 32). -/
def ror32 (a : Int) (rot : Int) : Int :=
  let x := u32 a
  if rot = 0 then wrap32 a
  else if rot < 0 then
    let m := (-rot).toNat
    wrap32 (u32 (x * 2 ^ m) + x / 2 ^ (32 - m))
  else
    let r := rot.toNat
    wrap32 (u32 (x * 2 ^ (32 - r)) + x / 2 ^ r)
/-- silk_lin2log (lin2log.c:35-45). -/
def lin2log (inLin : Int) : Int :=
  let lz := clz32 inLin
  let frac := ror32 inLin (24 - lz) % 128
  wrap32 (smlawb frac (wrap32 (frac * (128 - frac))) 179 + lshift32 (31 - lz) 7)

/-- 128-bit integer register: four unsigned 32-bit lanes. -/
structure I128 where
  l0 : Int
  l1 : Int
  l2 : Int
  l3 : Int
  deriving DecidableEq, Repr

def I128.lane (v : I128) (i : Nat) : Int :=
  match i % 4 with | 0 => v.l0 | 1 => v.l1 | 2 => v.l2 | _ => v.l3
/-- `_mm_shuffle_epi32(v, imm)`; `_MM_SHUFFLE(d,c,b,a) = d*64+c*16+b*4+a`. -/
def shuffleEpi32 (v : I128) (imm : Nat) : I128 :=
  ⟨v.lane (imm % 4), v.lane (imm / 4 % 4), v.lane (imm / 16 % 4), v.lane (imm / 64 % 4)⟩
/-- low / high unsigned 64-bit element. -/
def I128.q0 (v : I128) : Int := v.l0 + 4294967296 * v.l1
def I128.q1 (v : I128) : Int := v.l2 + 4294967296 * v.l3
def ofQ (q0 q1 : Int) : I128 :=
  ⟨q0 % 18446744073709551616 % 4294967296, q0 % 18446744073709551616 / 4294967296,
   q1 % 18446744073709551616 % 4294967296, q1 % 18446744073709551616 / 4294967296⟩
/-- `_mm_mul_epi32`: signed 32×32→64 of lanes 0 and 2. -/
def mulEpi32 (a b : I128) : I128 := ofQ (wrap32 a.l0 * wrap32 b.l0) (wrap32 a.l2 * wrap32 b.l2)
/-- `_mm_add_epi64`. -/
def addEpi64 (a b : I128) : I128 := ofQ (a.q0 + b.q0) (a.q1 + b.q1)
/-- `_mm_cvtsi128_si32`. -/
def cvtsi128Si32 (v : I128) : Int := wrap32 v.l0
/-- `_mm_loadu_si128` of four int32. -/
def loadSi128 (a b c d : Int) : I128 := ⟨u32 a, u32 b, u32 c, u32 d⟩
/-- `OP_CVTEPI8_EPI32_M32` (x86cpu.h:107): load 4 bytes, sign-extend each to 32 bits. -/
def cvtepi8Epi32 (a b c d : Int) : I128 := ⟨u32 (sext8 a), u32 (sext8 b), u32 (sext8 c), u32 (sext8 d)⟩

/-- inputs of one call; reads go through `rd32` / `rd8` exactly as the C types dictate. -/
structure VQIn where
  XX : List Int      -- opus_int32 XX_Q17[25]
  xX : List Int      -- opus_int32 xX_Q17[5]
  cb : List Int      -- opus_int8  cb_Q7[L*5]
  cbGain : List Int  -- opus_uint8 cb_gain_Q7[L]
  cl : List Int      -- opus_uint8 cl_Q5[L]
  subfrLen : Int
  maxGain : Int
  L : Nat
  deriving Repr

def rd32 (l : List Int) (i : Nat) : Int := wrap32 (l.getD i 0)
def rd8 (l : List Int) (i : Nat) : Int := sext8 (l.getD i 0)
def rdu8 (l : List Int) (i : Nat) : Int := (l.getD i 0) % 256

/-- first row of XX, portable code (VQ_WMat_EC.c:76-80): four chained silk_MLA. -/
def firstRowC (neg0 x1 x2 x3 x4 c1 c2 c3 c4 : Int) : Int :=
  mla (mla (mla (mla neg0 x1 c1) x2 c2) x3 c3) x4 c4

/-- first row of XX, SSE4.1 code (VQ_WMat_EC_sse4_1.c:67-68, 87-96). -/
def firstRowSse (neg0 x1 x2 x3 x4 c1 c2 c3 c4 : Int) : Int :=
  let vXX31 := loadSi128 x1 x2 x3 x4
  let vXX42 := shuffleEpi32 vXX31 (0 * 64 + 3 * 16 + 2 * 4 + 1)
  let vcb31 := cvtepi8Epi32 c1 c2 c3 c4
  let vcb42 := shuffleEpi32 vcb31 (0 * 64 + 3 * 16 + 2 * 4 + 1)
  let p31 := mulEpi32 vXX31 vcb31
  let p42 := mulEpi32 vXX42 vcb42
  let acc1 := addEpi64 p31 p42
  let acc2 := shuffleEpi32 acc1 (1 * 64 + 0 * 16 + 3 * 4 + 2)
  let acc := addEpi64 acc1 acc2
  wrap32 (neg0 + cvtsi128Si32 acc)

/-- running best: (rate_dist_Q8, res_nrg_Q15, ind, gain_Q7 or `none` while never written). -/
structure VQBest where
  rateDist : Int
  resNrg : Int
  ind : Int
  gain : Option Int
  deriving DecidableEq, Repr

/-- one codebook vector, everything after the first-row dot product `s0` (loop body, VQ_WMat_EC.c:66-126 =
    VQ_WMat_EC_sse4_1.c:77-142 — textually identical in the two files from here on). -/
def vqIterRest (inp : VQIn) (neg : Nat → Int) (best : VQBest) (k : Nat) (s0 : Int) : VQBest :=
  let XX := rd32 inp.XX
  let c := fun j => rd8 inp.cb (5 * k + j)
  let gainTmp := rdu8 inp.cbGain k
  let sum1 : Int := 32801                                    -- SILK_FIX_CONST(1.001, 15)
  let d := wrap32 (gainTmp - inp.maxGain)
  let penalty := lshift32 (if d > 0 then d else 0) 11
  -- first row, after the dot product
  let s := lshift32 s0 1
  let s := mla s (XX 0) (c 0)
  let sum1 := smlawb sum1 s (c 0)
  -- second row
  let s := mla (neg 1) (XX 7) (c 2)
  let s := mla s (XX 8) (c 3)
  let s := mla s (XX 9) (c 4)
  let s := lshift32 s 1
  let s := mla s (XX 6) (c 1)
  let sum1 := smlawb sum1 s (c 1)
  -- third row
  let s := mla (neg 2) (XX 13) (c 3)
  let s := mla s (XX 14) (c 4)
  let s := lshift32 s 1
  let s := mla s (XX 12) (c 2)
  let sum1 := smlawb sum1 s (c 2)
  -- fourth row
  let s := mla (neg 3) (XX 19) (c 4)
  let s := lshift32 s 1
  let s := mla s (XX 18) (c 3)
  let sum1 := smlawb sum1 s (c 3)
  -- last row
  let s := lshift32 (neg 4) 1
  let s := mla s (XX 24) (c 4)
  let sum1 := smlawb sum1 s (c 4)
  if sum1 ≥ 0 then
    let bitsRes := smulbb inp.subfrLen (wrap32 (lin2log (wrap32 (sum1 + penalty)) - 1920))
    let bitsTot := wrap32 (bitsRes + lshift32 (rdu8 inp.cl k) 2)
    if bitsTot ≤ best.rateDist then
      { rateDist := bitsTot, resNrg := wrap32 (sum1 + penalty), ind := sext8 k, gain := some gainTmp }
    else best
  else best

/-- one codebook vector; `first` (the first-row dot product of `XX_Q17[1..4]` with `cb_row_Q7[1..4]` added to
    `neg_xX_Q24[0]`) is the only part in which the two files differ. -/
def vqIter (first : Int → Int → Int → Int → Int → Int → Int → Int → Int → Int) (inp : VQIn)
    (neg : Nat → Int) (best : VQBest) (k : Nat) : VQBest :=
  vqIterRest inp neg best k
    (first (neg 0) (rd32 inp.XX 1) (rd32 inp.XX 2) (rd32 inp.XX 3) (rd32 inp.XX 4)
      (rd8 inp.cb (5 * k + 1)) (rd8 inp.cb (5 * k + 2)) (rd8 inp.cb (5 * k + 3)) (rd8 inp.cb (5 * k + 4)))

def vqWMatEC (first : Int → Int → Int → Int → Int → Int → Int → Int → Int → Int) (inp : VQIn) : VQBest :=
  let neg := fun j => wrap32 (-(lshift32 (rd32 inp.xX j) 7))
  (List.range inp.L).foldl (vqIter first inp neg) ⟨2147483647, 2147483647, 0, none⟩

/-- silk_VQ_WMat_EC_c. -/
def vqWMatEC_c (inp : VQIn) : VQBest := vqWMatEC firstRowC inp
/-- silk_VQ_WMat_EC_sse4_1. -/
def vqWMatEC_sse (inp : VQIn) : VQBest := vqWMatEC firstRowSse inp

/-! ## (iii) lane structure of the reduction kernels -/

section lanes
variable {α : Type} [Add α] [Mul α] [Zero α]

/-- a SIMD register as a lane function; memory as an index function. -/
abbrev Vec (α : Type) := Nat → α

/-- the portable loop `acc = 0; for (i = 0; i < n; i++) acc = acc + f(i)`. -/
def sumRange (f : Nat → α) : Nat → α
  | 0 => 0
  | n + 1 => sumRange f n + f n

/-- scalar tail loop `for (; i < N; i++) acc = acc + f(i)`, `cnt = N - i` iterations. -/
def tailLoop (f : Nat → α) : Nat → Nat → α → α
  | 0, _, acc => acc
  | c + 1, i, acc => tailLoop f c (i + 1) (acc + f i)

/-- vector loop `for (i = i0; …; i += step) acc = _mm_add_ps(acc, term(i))` for `blocks` iterations. -/
def accLoop (step : Nat) (term : Nat → Vec α) : Nat → Nat → Vec α → Vec α
  | 0, _, acc => acc
  | b + 1, i, acc => accLoop step term b (i + step) (fun l => acc l + term i l)

/-- the same with `_mm256_fmadd_ps(a, b, acc)` = `a*b + acc`. -/
def fmaLoop (step : Nat) (term : Nat → Vec α) : Nat → Nat → Vec α → Vec α
  | 0, _, acc => acc
  | b + 1, i, acc => fmaLoop step term b (i + step) (fun l => term i l + acc l)

def vzero : Vec α := fun _ => 0
def loadu (m : Nat → α) (p : Nat) : Vec α := fun l => m (p + l)
def load1 (m : Nat → α) (p : Nat) : Vec α := fun _ => m p
def vadd (a b : Vec α) : Vec α := fun l => a l + b l
def vmul (a b : Vec α) : Vec α := fun l => a l * b l
/-- `_mm_shuffle_ps(a, b, imm)`. -/
def shufflePs (a b : Vec α) (imm : Nat) : Vec α := fun l =>
  match l with
  | 0 => a (imm % 4) | 1 => a (imm / 4 % 4) | 2 => b (imm / 16 % 4) | _ => b (imm / 64 % 4)
/-- `_mm_movehl_ps(a, b)`. -/
def movehlPs (a b : Vec α) : Vec α := fun l =>
  match l with | 0 => b 2 | 1 => b 3 | 2 => a 2 | _ => a 3
/-- `_mm_add_ss(a, b)`. -/
def addSs (a b : Vec α) : Vec α := fun l => if l = 0 then a 0 + b 0 else a l

/-- horizontal sum used by celt_inner_prod_sse / dual_inner_prod_sse (pitch_sse.c:90-92, 115-117):
    `s = s + movehl(s,s); s = add_ss(s, shuffle(s,s,0x55)); store_ss`. -/
def hsumSse (s : Vec α) : α :=
  let s1 := vadd s (movehlPs s s)
  (addSs s1 (shufflePs s1 s1 0x55)) 0

/-- celt_inner_prod_c (pitch.h:159-167). -/
def innerProdC (x y : Nat → α) (N : Nat) : α := sumRange (fun i => x i * y i) N

/-- celt_inner_prod_sse (pitch_sse.c:103-124): `for (i=0;i<N-3;i+=4)` runs `N/4` times. -/
def innerProdSse (x y : Nat → α) (N : Nat) : α :=
  let blocks := N / 4
  let sum := accLoop 4 (fun i => vmul (loadu x i) (loadu y i)) blocks 0 vzero
  tailLoop (fun i => x i * y i) (N - 4 * blocks) (4 * blocks) (hsumSse sum)

/-- dual_inner_prod_c (pitch.h:138-151). -/
def dualInnerProdC (x y1 y2 : Nat → α) (N : Nat) : α × α :=
  (sumRange (fun i => x i * y1 i) N, sumRange (fun i => x i * y2 i) N)

/-- dual_inner_prod_sse (pitch_sse.c:74-101). -/
def dualInnerProdSse (x y1 y2 : Nat → α) (N : Nat) : α × α :=
  let blocks := N / 4
  let s1 := accLoop 4 (fun i => vmul (loadu x i) (loadu y1 i)) blocks 0 vzero
  let s2 := accLoop 4 (fun i => vmul (loadu x i) (loadu y2 i)) blocks 0 vzero
  (tailLoop (fun i => x i * y1 i) (N - 4 * blocks) (4 * blocks) (hsumSse s1),
   tailLoop (fun i => x i * y2 i) (N - 4 * blocks) (4 * blocks) (hsumSse s2))

/-- xcorr_kernel_c (pitch.h:64-127) as the four sequential accumulations it performs:
    `sum[k] += Σ_j x[j]*y[j+k]`. -/
def xcorrKernelC (x y : Nat → α) (sum : Vec α) (len : Nat) : Vec α := fun k =>
  tailLoop (fun j => x j * y (j + k)) len 0 (sum k)

/-- main loop of xcorr_kernel_sse (pitch_sse.c:49-61): state `(xsum1, xsum2)`. -/
def xcorrSseLoop (x y : Nat → α) : Nat → Nat → Vec α × Vec α → Vec α × Vec α
  | 0, _, st => st
  | b + 1, j, (xsum1, xsum2) =>
    let x0 := loadu x j
    let yj := loadu y j
    let y3 := loadu y (j + 3)
    let xsum1 := vadd xsum1 (vmul (shufflePs x0 x0 0x00) yj)
    let xsum2 := vadd xsum2 (vmul (shufflePs x0 x0 0x55) (shufflePs yj y3 0x49))
    let xsum1 := vadd xsum1 (vmul (shufflePs x0 x0 0xaa) (shufflePs yj y3 0x9e))
    let xsum2 := vadd xsum2 (vmul (shufflePs x0 x0 0xff) y3)
    xcorrSseLoop x y b (j + 4) (xsum1, xsum2)

/-- xcorr_kernel_sse (pitch_sse.c:43-72). -/
def xcorrKernelSse (x y : Nat → α) (sum : Vec α) (len : Nat) : Vec α :=
  let blocks := len / 4
  let st := xcorrSseLoop x y blocks 0 (sum, vzero)
  let j := 4 * blocks
  let st :=
    if j < len then
      let xsum1 := vadd st.1 (vmul (load1 x j) (loadu y j))
      if j + 1 < len then
        let xsum2 := vadd st.2 (vmul (load1 x (j + 1)) (loadu y (j + 1)))
        if j + 2 < len then
          (vadd xsum1 (vmul (load1 x (j + 2)) (loadu y (j + 2))), xsum2)
        else (xsum1, xsum2)
      else (xsum1, st.2)
    else st
  vadd st.1 st.2

/-- `_mm256_permute2f128_ps(a, b, imm)`. -/
def permute2f128 (a b : Vec α) (imm : Nat) : Vec α := fun l =>
  let sel := fun (s j : Nat) => match s with | 0 => a j | 1 => a (j + 4) | 2 => b j | _ => b (j + 4)
  if l < 4 then sel (imm % 4) l else sel (imm / 16 % 4) (l - 4)
/-- `_mm256_hadd_ps(a, b)`. -/
def hadd256 (a b : Vec α) : Vec α := fun l =>
  match l with
  | 0 => a 0 + a 1 | 1 => a 2 + a 3 | 2 => b 0 + b 1 | 3 => b 2 + b 3
  | 4 => a 4 + a 5 | 5 => a 6 + a 7 | 6 => b 4 + b 5 | _ => b 6 + b 7
/-- `_mm256_maskload_ps(p, m)` with the mask of pitch_avx.c:61-63: the first `rem` lanes are loaded, the rest 0. -/
def maskload (m : Nat → α) (p rem : Nat) : Vec α := fun l => if l < rem then m (p + l) else 0

/-- accumulator `xsum_k` of xcorr_kernel_avx after the main loop and the masked remainder
    (pitch_avx.c:49-74). -/
def xcorrAvxAcc (x y : Nat → α) (len k : Nat) : Vec α :=
  let blocks := len / 8
  let acc := fmaLoop 8 (fun i => vmul (loadu x i) (loadu y (i + k))) blocks 0 vzero
  let i := 8 * blocks
  if i ≠ len then
    let rem := len - i
    fun l => (maskload x i rem) l * (maskload y (i + k) rem) l + acc l
  else acc

/-- xcorr_kernel_avx (pitch_avx.c:41-89): eight inner products `sum[k] = Σ_j x[j]*y[j+k]`. -/
def xcorrKernelAvx (x y : Nat → α) (len : Nat) : Vec α :=
  let xs := fun k => xcorrAvxAcc x y len k
  let x0 := vadd (permute2f128 (xs 0) (xs 4) (2 * 16)) (permute2f128 (xs 0) (xs 4) (1 + 3 * 16))
  let x1 := vadd (permute2f128 (xs 1) (xs 5) (2 * 16)) (permute2f128 (xs 1) (xs 5) (1 + 3 * 16))
  let x2 := vadd (permute2f128 (xs 2) (xs 6) (2 * 16)) (permute2f128 (xs 2) (xs 6) (1 + 3 * 16))
  let x3 := vadd (permute2f128 (xs 3) (xs 7) (2 * 16)) (permute2f128 (xs 3) (xs 7) (1 + 3 * 16))
  let x0 := hadd256 x0 x1
  let x1 := hadd256 x2 x3
  hadd256 x0 x1

/-- celt_pitch_xcorr_avx2 (pitch_avx.c:91-104): `xcorr[i]` for `i < maxPitch`; the remainder uses
    `celt_inner_prod`, which is celt_inner_prod_sse when SSE is presumed (pitch_sse.h:103-106). -/
def pitchXcorrAvx2 (x y : Nat → α) (len maxPitch : Nat) (i : Nat) : α :=
  let blocks := maxPitch / 8
  if i < 8 * blocks then
    xcorrKernelAvx x (fun j => y (i / 8 * 8 + j)) len (i % 8)
  else innerProdSse x (fun j => y (i + j)) len

/-- the specification of the pitch cross-correlation: `xcorr[i] = Σ_{j<len} x[j]*y[i+j]` (the `#if 0` "simple
    version" of celt_pitch_xcorr_c, pitch.c:236-252). -/
def pitchXcorrSpec (x y : Nat → α) (len : Nat) (i : Nat) : α := sumRange (fun j => x j * y (i + j)) len

/-- celt_pitch_xcorr_c as compiled (pitch.c:254-301, the unrolled version): blocks of four lags through
    `xcorr_kernel` with `sum = {0,0,0,0}`, the last `max_pitch % 4` lags through `celt_inner_prod`.  Both inner
    kernels are parameters: with SSE presumed they are xcorr_kernel_sse / celt_inner_prod_sse (pitch_sse.h:56-59,
    103-106), otherwise the portable ones. -/
def pitchXcorrCWith (kern : (Nat → α) → (Nat → α) → Vec α → Nat → Vec α) (ip : (Nat → α) → (Nat → α) → Nat → α)
    (x y : Nat → α) (len maxPitch : Nat) (i : Nat) : α :=
  if i < 4 * (maxPitch / 4) then kern x (fun j => y (i / 4 * 4 + j)) vzero len (i % 4)
  else ip x (fun j => y (i + j)) len

/-- celt_pitch_xcorr_c in the x86 float build (SSE presumed). -/
def pitchXcorrC (x y : Nat → α) (len maxPitch : Nat) (i : Nat) : α :=
  pitchXcorrCWith xcorrKernelSse innerProdSse x y len maxPitch i

/-- celt_pitch_xcorr_c with the portable inner kernels (arch level 0 when nothing is presumed). -/
def pitchXcorrCPortable (x y : Nat → α) (len maxPitch : Nat) (i : Nat) : α :=
  pitchXcorrCWith xcorrKernelC innerProdC x y len maxPitch i

/-- comb_filter_const_c, float build (celt.c:163-186), one output sample: `x` is indexed with the offset
    `off = T+2` so that `x[i-T-2]` is `x (i)`; `y[i] = x[i] + g10*x[i-T] + g11*(x[i-T+1]+x[i-T-1]) +
    g12*(x[i-T+2]+x[i-T-2])`, evaluated left to right. -/
def combC (x : Nat → α) (T : Nat) (g10 g11 g12 : α) (i : Nat) : α :=
  let xi := fun (d : Nat) => x (i + d)          -- d = 0 ↦ x[i-T-2], …, d = 4 ↦ x[i-T+2]
  x (i + T + 2) + g10 * xi 2 + g11 * (xi 3 + xi 1) + g12 * (xi 4 + xi 0)

/-- comb_filter_const_sse (pitch_sse.c:126-174), the four lanes written by the block starting at `i`
    (`i` a multiple of 4, `x0v` carried from the previous block = `loadu x i`). -/
def combSseBlock (x : Nat → α) (T : Nat) (g10 g11 g12 : α) (i : Nat) : Vec α :=
  let x0v := loadu x i                    -- &x[i-T-2]
  let yi := loadu x (i + T + 2)           -- x+i
  let x4v := loadu x (i + 4)              -- xp+4
  let x2v := shufflePs x0v x4v 0x4e
  let x1v := shufflePs x0v x2v 0x99
  let x3v := shufflePs x2v x4v 0x99
  let bc := fun (g : α) => (fun (_ : Nat) => g)
  let yi := vadd yi (vmul (bc g10) x2v)
  let yi2 := vadd (vmul (bc g11) (vadd x3v x1v)) (vmul (bc g12) (vadd x4v x0v))
  vadd yi yi2

/-- comb_filter_const_sse output sample `i` for `i < 4*(N/4)` (without CUSTOM_MODES there is no scalar tail;
    callers pass N a multiple of 4). -/
def combSse (x : Nat → α) (T : Nat) (g10 g11 g12 : α) (i : Nat) : α :=
  combSseBlock x T g10 g11 g12 (i / 4 * 4) (i % 4)

/-- silk_inner_product_FLP_c (inner_product_FLP.c:35-57): 4× unrolled, then scalar remainder. -/
def innerProductFlpC (x y : Nat → α) (n : Nat) : α :=
  let f := fun i => x i * y i
  let blocks := n / 4
  let rec go : Nat → Nat → α → α
    | 0, _, r => r
    | b + 1, i, r => go b (i + 4) (r + (f i + f (i + 1) + f (i + 2) + f (i + 3)))
  tailLoop f (n - 4 * blocks) (4 * blocks) (go blocks 0 0)

/-- `_mm256_permute2f128_pd(a, a, 1)`: swap the 128-bit halves of four doubles. -/
def swapHalvesPd (a : Vec α) : Vec α := fun l => match l with | 0 => a 2 | 1 => a 3 | 2 => a 0 | _ => a 1
/-- `_mm256_hadd_pd(a, b)`. -/
def haddPd (a b : Vec α) : Vec α := fun l =>
  match l with | 0 => a 0 + a 1 | 1 => b 0 + b 1 | 2 => a 2 + a 3 | _ => b 2 + b 3

/-- silk_inner_product_FLP_avx2 (inner_product_FLP_avx2.c:38-83). -/
def innerProductFlpAvx2 (x y : Nat → α) (n : Nat) : α :=
  let f := fun i => x i * y i
  let b8 := n / 8
  let acc1 := fmaLoop 8 (fun i => vmul (loadu x i) (loadu y i)) b8 0 vzero
  let acc2 := fmaLoop 8 (fun i => vmul (loadu x (i + 4)) (loadu y (i + 4))) b8 0 vzero
  let i := 8 * b8
  let b4 := (n - i) / 4                                   -- second loop: 0 or 1 iteration
  let acc1 := fmaLoop 4 (fun i => vmul (loadu x i) (loadu y i)) b4 i acc1
  let i := i + 4 * b4
  let a := vadd acc1 acc2
  let a := vadd a (swapHalvesPd a)
  let a := haddPd a a
  tailLoop f (n - i) i (a 0)

end lanes

/-! ## (iv) one primitive of the NSQ SIMD kernels: four `silk_SMULWW` at once -/

/-- silk_SMULWW, OPUS_FAST_INT64 form (macros.h): `(opus_int32)(((opus_int64)a * b) >> 16)`. -/
def smulww (a b : Int) : Int := wrap32 (wrap32 a * wrap32 b / 65536)

/-- The SSE4.1 idiom of silk_nsq_scale_states_sse4_1 / silk_nsq_del_dec_scale_states_sse4_1 (NSQ_sse4_1.c:684-700,
    722-738; NSQ_del_dec_sse4_1.c) for four 32-bit values `v` times one 32-bit factor `g`:
    `_mm_mul_epi32` on the register and on its copy shifted down by one lane gives the four exact 64-bit products;
    the even ones are shifted right by 16 (`_mm_srli_epi64`), the odd ones left by 16 (`_mm_slli_epi64`), and
    `_mm_blend_epi16(.., .., 0xCC)` keeps the low dword of the former and the high dword of the latter.
    Result lane as an unsigned 32-bit pattern. -/
def smulwwLaneSse (v g : Int) (odd : Bool) : Int :=
  let p := (wrap32 v * wrap32 g) % 18446744073709551616          -- the 64-bit product as a bit pattern
  if odd then (p * 65536 % 18446744073709551616) / 4294967296    -- high dword of p << 16
  else (p / 65536) % 4294967296                                  -- low dword of p >> 16 (logical)

end Opus.Kernels
