import OpusModel.SilkCoreSynth
/-
  OpusModel.SilkCoreFrame — the good-frame path of `silk_decode_frame` (silk/decode_frame.c:94-130, :162) around the
  two functions modelled in `OpusModel.SilkCore` / `OpusModel.SilkCoreSynth`:
      silk_decode_parameters → silk_decode_core → output-buffer update → status members.
  `silk_PLC( …, lost = 0 )` (PLC state update), `silk_CNG` and `silk_PLC_glue_frames` run between the buffer update and the
  status members; they do not write any member of `DecState` except through `pOut` (slices SilkPlc / C18) and are not part
  of this model: `frameGood` returns the synthesised frame `xq` (= `pOut` at decode_frame.c:107) and the state members as
  they are when `silk_decode_frame` returns.
-/
namespace Opus.SilkCore
open Opus Opus.SilkParams Opus.Gen Opus.Frozen

/-- decode_frame.c:104-107: `memmove( outBuf, &outBuf[ frame_length ], mv_len )`, `memcpy( &outBuf[ mv_len ], pOut, frame_length )`
    with `mv_len = ltp_mem_length - frame_length`. -/
def outBufUpdate (fs nb : Nat) (outBuf xq : List Int) : List Int :=
  (outBuf.drop (frameLen fs nb)).take (ltpMemLen fs - frameLen fs nb) ++ xq ++ outBuf.drop (ltpMemLen fs)

/-- Result of one good frame. -/
structure FrameOut where
  params : ParamsOut
  core : CoreOut
  st : DecState
  deriving Repr, DecidableEq

/-- decode_frame.c:94-130 + :162 (the `lostFlag == FLAG_DECODE_NORMAL` path, indices and pulses already decoded). -/
def frameGood (s : DecState) (f : FrameIn) : Res FrameOut := do
  let p ← decodeParameters s f
  -- silk_decode_parameters wrote LastGainIndex / prevNLSF_Q15 / indices.NLSFInterpCoef_Q2 / indices.PERIndex before the core runs
  let s1 : DecState := { s with lastGainIndex := p.lastGainIndex, prevNlsf := p.prevNlsf }
  let c ← decodeCore s1 f p.ctrl p.interp
  if ltpMemLen s.fsKHz < frameLen s.fsKHz s.nbSubfr then .abort      -- celt_assert( ltp_mem_length >= frame_length ) :104
  else
    let lagPrev ← getI c.pitchL ((s.nbSubfr : Int) - 1)             -- :162
    pure { params := p, core := c,
           st := { s1 with sLPC := c.sLPC, outBuf := outBufUpdate s.fsKHz s.nbSubfr c.outBuf c.xq, excQ14 := c.excQ14,
                           prevGainQ16 := c.prevGainQ16, lagPrev := lagPrev, firstFrameAfterReset := 0,
                           prevSignalType := f.signalType, lossCnt := 0 } }

/-- A history of good frames from a state: the outputs, and the final state (`none` as soon as one frame is not `.ok`). -/
def runFrames : DecState → List FrameIn → Option (List (List Int) × DecState)
  | s, [] => some ([], s)
  | s, f :: fs =>
    match frameGood s f with
    | .ok o =>
      match runFrames o.st fs with
      | some (xs, s') => some (o.core.xq :: xs, s')
      | none => none
    | _ => none

end Opus.SilkCore
