import OpusModel.Basic
import OpusModel.EncDecide
import OpusModel.Gen.EncTables
/-
  OpusModel.EncSkel.Basic — vocabulary of the encoder size/packet skeleton (C02, C05):
  C integer helpers, the tracked slice of `OpusEncoder`, and the pure integer helper
  functions of src/opus_encoder.c:

    * `userBitrateToBitrate`     :686-695
    * `computeEquivRate`         :962-993
    * `computeRedundancyBytes`   :1081-1107
    * `decideFec`                :875-906
    * `computeSilkRateForHybrid` :908-958   (rate_table is a function-local static: transcribed
                                             here, tied behaviourally by op `silkrate`)
    * `decideDtxMode`            :1052-1077

  `gen_toc`, `frame_size_select` and the symbolic constants are imported from
  `OpusModel.EncDecide` (owner: C11).

  C `int` is unbounded `Int`.  `cdiv` is C's truncating `/` (used wherever an operand may be
  negative); plain `/` is used only on operands that are non-negative at that point, where it
  coincides with C.  `x >> k` on a possibly negative `x` is `x / 2^k` (Lean's `Int./` floors for
  a positive divisor, like an arithmetic shift).
-/
namespace Opus.EncSkel
open Opus Opus.EncDecide

/-- C `/` (truncation toward zero). -/
@[inline] def cdiv (a b : Int) : Int := Int.tdiv a b

/-- C `!!x`. -/
@[inline] def b2i (b : Bool) : Int := if b then 1 else 0

abbrev SIGNAL_VOICE : Int := 3001
abbrev SIGNAL_MUSIC : Int := 3002

/-- The slice of `struct OpusEncoder` (+ `silk_mode`) that the size / packet skeleton reads or
    writes (src/opus_encoder.c:74-140). -/
structure St where
  -- configuration (changed by ctl only; `forceChannels` also by the multi-frame path)
  fs : Int
  channels : Int
  application : Int
  useVbr : Int
  userBitrate : Int          -- user_bitrate_bps
  forceChannels : Int
  signalType : Int
  userBandwidth : Int
  maxBandwidth : Int
  userForcedMode : Int
  lfe : Int
  useDtx : Int
  fecConfig : Int
  variableDuration : Int
  complexity : Int           -- silk_mode.complexity
  lossPerc : Int             -- silk_mode.packetLossPercentage
  useInBandFEC : Int         -- silk_mode.useInBandFEC
  energyMasking : Int        -- st->energy_masking != NULL
  -- running state
  streamChannels : Int
  mode : Int
  prevMode : Int
  prevChannels : Int
  prevFramesize : Int
  bandwidth : Int
  autoBandwidth : Int
  silkBwSwitch : Int
  first : Int
  voiceRatio : Int
  detectedBandwidth : Int
  nbNoActivity : Int         -- nb_no_activity_ms_Q1
  nonfinalFrame : Int
  bitrateBps : Int
  toMono : Int               -- silk_mode.toMono
  lbrrCoded : Int            -- silk_mode.LBRR_coded
  allowBwSwitch : Int        -- silk_mode.allowBandwidthSwitch   (written by silk_Encode)
  inWBmode : Int             -- silk_mode.inWBmodeWithoutVariableLP (written by silk_Encode)
  opusCanSwitch : Int        -- silk_mode.opusCanSwitch
  silkUseDtx : Int           -- silk_mode.useDTX
  deriving DecidableEq, Repr, Inhabited

/-- `user_bitrate_to_bitrate` (opus_encoder.c:686-695). -/
def userBitrateToBitrate (s : St) (frameSize maxDataBytes : Int) : Int :=
  let frameSize := if frameSize = 0 then s.fs / 400 else frameSize
  if s.userBitrate = OPUS_AUTO then 60 * s.fs / frameSize + s.fs * s.channels
  else if s.userBitrate = OPUS_BITRATE_MAX then maxDataBytes * 8 * s.fs / frameSize
  else s.userBitrate

/-- `compute_equiv_rate` (opus_encoder.c:962-993). -/
def computeEquivRate (bitrate channels frameRate vbr mode complexity loss : Int) : Int :=
  let equiv := bitrate
  let equiv := if frameRate > 50 then equiv - (40 * channels + 20) * (frameRate - 50) else equiv
  let equiv := if vbr = 0 then equiv - cdiv equiv 12 else equiv
  let equiv := cdiv (equiv * (90 + complexity)) 100
  if mode = MODE_SILK_ONLY ∨ mode = MODE_HYBRID then
    let equiv := if complexity < 2 then cdiv (equiv * 4) 5 else equiv
    equiv - cdiv (equiv * loss) (6 * loss + 10)
  else if mode = MODE_CELT_ONLY then
    if complexity < 5 then cdiv (equiv * 9) 10 else equiv
  else
    equiv - cdiv (equiv * loss) (12 * loss + 20)

/-- `compute_redundancy_bytes` (opus_encoder.c:1081-1107). -/
def computeRedundancyBytes (maxDataBytes bitrateBps frameRate channels : Int) : Int :=
  let baseBits := 40 * channels + 20
  let redundancyRate := bitrateBps + baseBits * (200 - frameRate)
  let redundancyRate := cdiv (3 * redundancyRate) 2
  let redundancyBytes := cdiv redundancyRate 1600
  let availableBits := maxDataBytes * 8 - 2 * baseBits
  let cap := cdiv (cdiv (availableBits * 240) (240 + cdiv 48000 frameRate) + baseBits) 8
  let redundancyBytes := min redundancyBytes cap
  if redundancyBytes > 4 + 8 * channels then min 257 redundancyBytes else 0

/-- Table lookup with C semantics for in-range indices (`0` outside; every caller stays inside,
    lemma `fecIdx_inRange`). -/
def tbl (t : List Int) (i : Int) : Int := if i < 0 then 0 else t.getD i.toNat 0

/-- Loop body of `decide_fec` (opus_encoder.c:881-902); `fuel` bounds the `for(;;)`, which
    lowers `bandwidth` at most 4 times (NB..FB), so 5 iterations always suffice. -/
def decideFecLoop : Nat → Int → Int → Int → Int → Int → (Int × Int)
  | 0, _, _, bw, _, orig => (0, orig)
  | n + 1, loss, lastFec, bw, rate, orig =>
    let thres := tbl Gen.EncTables.fecThresholds (2 * (bw - BW_NB))
    let hyst := tbl Gen.EncTables.fecThresholds (2 * (bw - BW_NB) + 1)
    let thres := if lastFec = 1 then thres - hyst else thres
    let thres := if lastFec = 0 then thres + hyst else thres
    -- silk_SMULWB(silk_MUL(thres, 125 - min(loss,25)), SILK_FIX_CONST(0.01,16)); operands ≥ 0
    let thres := (thres * (125 - min loss 25)) * Gen.EncTables.fecLossScaleQ16 / 65536
    if rate > thres then (1, bw)
    else if loss ≤ 5 then (0, bw)
    else if bw > BW_NB then decideFecLoop n loss lastFec (bw - 1) rate orig
    else (0, orig)

/-- `decide_fec` (opus_encoder.c:875-906): returns `(LBRR_coded, bandwidth)`. -/
def decideFec (useInBandFEC loss lastFec mode bandwidth rate : Int) : Int × Int :=
  if useInBandFEC = 0 ∨ loss = 0 ∨ mode = MODE_CELT_ONLY then (0, bandwidth)
  else decideFecLoop 5 loss lastFec bandwidth rate bandwidth

/-- `rate_table` of compute_silk_rate_for_hybrid (opus_encoder.c:913-924). -/
def silkRateTable : List (List Int) :=
  [[0, 0, 0, 0, 0],
   [12000, 10000, 10000, 11000, 11000],
   [16000, 13500, 13500, 15000, 15000],
   [20000, 16000, 16000, 18000, 18000],
   [24000, 18000, 18000, 21000, 21000],
   [32000, 22000, 22000, 28000, 28000],
   [64000, 38000, 38000, 50000, 50000]]

def rt (i j : Nat) : Int := (silkRateTable.getD i []).getD j 0

/-- `for (i=1;i<N;i++) if (rate_table[i][0] > rate) break;` -/
def silkRateRow (rate : Int) : Nat → Nat → Nat
  | 0, i => i
  | n + 1, i => if i < 7 ∧ ¬ (rt i 0 > rate) then silkRateRow rate n (i + 1) else i

/-- `compute_silk_rate_for_hybrid` (opus_encoder.c:908-958). -/
def computeSilkRateForHybrid (rate bandwidth frame20ms vbr fec channels : Int) : Int :=
  let rate := cdiv rate channels
  let entry := (1 + frame20ms + 2 * fec).toNat
  let i := silkRateRow rate 7 1
  let silkRate :=
    if i = 7 then rt 6 entry + cdiv (rate - rt 6 0) 2
    else
      let lo := rt (i - 1) entry
      let hi := rt i entry
      let x0 := rt (i - 1) 0
      let x1 := rt i 0
      cdiv (lo * (x1 - rate) + hi * (rate - x0)) (x1 - x0)
  let silkRate := if vbr = 0 then silkRate + 100 else silkRate
  let silkRate := if bandwidth = BW_SWB then silkRate + 300 else silkRate
  let silkRate := silkRate * channels
  if channels = 2 ∧ rate ≥ 12000 then silkRate - 1000 else silkRate

/-- `decide_dtx_mode` (opus_encoder.c:1052-1077): returns `(dtx, nb_no_activity_ms_Q1)`. -/
def decideDtxMode (activity nb frameSizeMsQ1 : Int) : Int × Int :=
  let before := Gen.EncTables.nbSpeechFramesBeforeDtx
  let maxDtx := Gen.EncTables.maxConsecutiveDtx
  if activity = 0 then
    let nb := nb + frameSizeMsQ1
    if nb > before * 20 * 2 then
      if nb ≤ (before + maxDtx) * 20 * 2 then (1, nb)
      else (0, before * 20 * 2)
    else (0, nb)
  else (0, 0)

end Opus.EncSkel
