import OpusModel.EncSkel.Frame
/-
  OpusModel.EncSkel.Native — `opus_encode_native` (src/opus_encoder.c:1121-1761) and the public
  entry (`frame_size_select` + native), one function per block:

    * `entryCheck`   :1154-1168  max_data_bytes = IMIN(1276,out), BAD_ARG, 1 byte refused for 100 ms
    * `analysisUpd`  :1176-1243  voice_ratio / detected_bandwidth from the analysis oracle
    * `cbrBytes`, `sizeBudget` :1249-1261  bit-rate, the `12·` rounding trick, max_data_bytes
    * `lowBudgetGate`, `lowBudget` :1267-1333  ToC-only ("PLC") packets, code-3 padding in CBR
    * `voiceEst` … `decide`  :1334-1613  the integer decision chain (tables from Gen.EncTables)
    * `multiFrame`   :1616-1745  split, per-frame budget, repacketiser assembly
    * `encodeNative`, `encode`
    * `msCurrMax`, `msEncode` — per-stream budget split of opus_multistream_encode_native
      (src/opus_multistream_encoder.c:855-1012)
-/
namespace Opus.EncSkel
open Opus Opus.EncDecide

/-- Oracle values of one `opus_encode_native` call. -/
structure NatOr where
  isSilence : Int      -- is_digital_silence(pcm, frame_size, ...)   (used only if the analysis runs)
  aValid : Int         -- analysis_info.valid after run_analysis
  aBandwidth : Int     -- analysis_info.bandwidth
  vr0 : Int            -- (int)floor(.5+100*(1-music_prob))       prev_mode == 0
  vr1 : Int            -- (int)floor(.5+100*(1-music_prob_max))   prev_mode == MODE_CELT_ONLY
  vr2 : Int            -- (int)floor(.5+100*(1-music_prob_min))   otherwise
  modeVoice : Int      -- (opus_int32) interpolation of mode_thresholds[.][0] by stereo_width (float)
  modeMusic : Int      -- (opus_int32) interpolation of mode_thresholds[.][1] by stereo_width (float)
  rands : List Int     -- FUZZING build only: the values returned by rand() in call order
  frames : List FrameOr
  deriving DecidableEq, Repr, Inhabited

/-- Result of one `opus_encode_native` call. -/
structure NatRes where
  ret : Int            -- C return value
  abort : Bool
  pkt : Pkt            -- structure of the emitted packet when ret ≥ 1
  dtx : Bool           -- every (sub)frame took a DTX return (ret = 1 from :2122 / :2423)
  ok : Bool            -- the oracle contracts held along the path (`frameOk` of every frame call)
  st : St
  calls : List Call
  deriving DecidableEq, Repr

def natErr (s : St) (calls : List Call) (e : Int) : NatRes :=
  { ret := e, abort := false, pkt := { tocCfg := 0, lens := [], size := 0, hdr := [] }, dtx := false, ok := true,
    st := s, calls }

/-- Settings and running state as the ctl layer and earlier calls leave them: the parts of C11's
    `CtlInv` (settings) and `DInv` (running state of the decision chain) that the skeleton reads.
    `OpusProofs/EncSkelInv.lean` proves it is preserved by every `opus_encode_native` call and implied by
    C11's `EncInv` through the refinement map; the tie also checks it on every recorded pre-state. -/
def stOk (s : St) : Bool :=
  decide ((s.fs = 8000 ∨ s.fs = 12000 ∨ s.fs = 16000 ∨ s.fs = 24000 ∨ s.fs = 48000) ∧
          (s.channels = 1 ∨ s.channels = 2) ∧
          (s.userBitrate = OPUS_AUTO ∨ s.userBitrate = OPUS_BITRATE_MAX ∨
             (500 ≤ s.userBitrate ∧ s.userBitrate ≤ 750000 * s.channels)) ∧
          (s.userForcedMode = OPUS_AUTO ∨ (MODE_SILK_ONLY ≤ s.userForcedMode ∧ s.userForcedMode ≤ MODE_CELT_ONLY)) ∧
          (s.userBandwidth = OPUS_AUTO ∨ (BW_NB ≤ s.userBandwidth ∧ s.userBandwidth ≤ BW_FB)) ∧
          (BW_NB ≤ s.maxBandwidth ∧ s.maxBandwidth ≤ BW_FB) ∧
          (s.forceChannels = OPUS_AUTO ∨ (1 ≤ s.forceChannels ∧ s.forceChannels ≤ s.channels)) ∧
          (1 ≤ s.streamChannels ∧ s.streamChannels ≤ s.channels) ∧
          (BW_NB ≤ s.bandwidth ∧ s.bandwidth ≤ BW_FB) ∧
          (s.prevMode = 0 ∨ (MODE_SILK_ONLY ≤ s.prevMode ∧ s.prevMode ≤ MODE_CELT_ONLY)) ∧
          (0 ≤ s.complexity ∧ s.complexity ≤ 10) ∧ (0 ≤ s.lossPerc ∧ s.lossPerc ≤ 100) ∧
          (MODE_SILK_ONLY ≤ s.mode ∧ s.mode ≤ MODE_CELT_ONLY) ∧
          (0 ≤ s.prevChannels ∧ s.prevChannels ≤ s.channels) ∧ (s.toMono = 0 ∨ s.toMono = 1) ∧
          (s.first ≠ 0 → s.prevMode = 0) ∧
          (s.application = APP_RESTRICTED_LOWDELAY → s.prevMode = 0 ∨ s.prevMode = MODE_CELT_ONLY))

/-- Frame sizes `frame_size_select` lets through: 2.5, 5, 10, 20, 40, 60, 80, 100, 120 ms. -/
def legalFrame (fs frameSize : Int) : Bool :=
  decide (400 * frameSize = fs ∨ 200 * frameSize = fs ∨ 100 * frameSize = fs ∨ 50 * frameSize = fs ∨
          25 * frameSize = fs ∨ 50 * frameSize = 3 * fs ∨ 50 * frameSize = 4 * fs ∨ 50 * frameSize = 5 * fs ∨
          50 * frameSize = 6 * fs)

/-- opus_encoder.c:1154-1168: `none` = proceed. -/
def entryCheck (s : St) (frameSize outDataBytes : Int) : Option Int :=
  let m := min 1276 outDataBytes
  if frameSize ≤ 0 ∨ m ≤ 0 then some OPUS_BAD_ARG
  else if m = 1 ∧ s.fs = frameSize * 10 then some OPUS_BUFFER_TOO_SMALL
  else none

/-- Does the tonality analysis run (:1181, float build)? -/
def analysisRuns (s : St) : Bool := s.complexity ≥ 7 ∧ s.fs ≥ 16000

/-- opus_encoder.c:1207-1243: `voice_ratio`, `detected_bandwidth`. -/
def analysisUpd (s : St) (o : NatOr) : St :=
  let ran := analysisRuns s
  let isSil := if ran then o.isSilence else 0
  let valid := if ran then o.aValid else 0
  let s := if isSil = 0 then { s with voiceRatio := -1 } else s
  let s := { s with detectedBandwidth := 0 }
  if valid ≠ 0 then
    let s := if s.signalType = OPUS_AUTO then
               { s with voiceRatio := (if s.prevMode = 0 then o.vr0
                                        else if s.prevMode = MODE_CELT_ONLY then o.vr1 else o.vr2) }
             else s
    let det := if o.aBandwidth ≤ 12 then BW_NB else if o.aBandwidth ≤ 14 then BW_MB
               else if o.aBandwidth ≤ 16 then BW_WB else if o.aBandwidth ≤ 18 then BW_SWB else BW_FB
    { s with detectedBandwidth := det }
  else s

/-- `cbr_bytes` (opus_encoder.c:1255-1257) for bit-rate `b` and budget `m`:
    `IMIN((12*b/8 + frame_rate12/2)/frame_rate12, m)` with `frame_rate12 = 12*Fs/frame_size`. -/
def cbrBytes (fs frameSize b m : Int) : Int :=
  let fr12 := 12 * fs / frameSize
  min ((12 * b / 8 + fr12 / 2) / fr12) m

/-- Size budget after opus_encoder.c:1249-1261. -/
structure SizeBudget where
  bitrateBps : Int
  cbr : Int            -- cbr_bytes (-1 in VBR)
  maxDataBytes : Int
  deriving DecidableEq, Repr

/-- opus_encoder.c:1249-1261. -/
def sizeBudget (s : St) (frameSize outDataBytes : Int) : SizeBudget :=
  let m := min 1276 outDataBytes
  let b := userBitrateToBitrate s frameSize m
  if s.useVbr = 0 then
    let fr12 := 12 * s.fs / frameSize
    let c := cbrBytes s.fs frameSize b m
    { bitrateBps := c * fr12 * 8 / 12, cbr := c, maxDataBytes := max 1 c }
  else { bitrateBps := b, cbr := -1, maxDataBytes := m }

/-- Condition of opus_encoder.c:1267-1268. -/
def lowBudgetGate (s : St) (frameSize : Int) (b : SizeBudget) : Bool :=
  let frameRate := s.fs / frameSize
  decide (b.maxDataBytes < 3 ∨ b.bitrateBps < 3 * frameRate * 8 ∨
          (frameRate < 50 ∧ (b.maxDataBytes * frameRate < 300 ∨ b.bitrateBps < 2400)))

/-- `tocmode` after :1276-1279. -/
def lowMode0 (s : St) (frameSize : Int) : Int :=
  if s.fs / frameSize > 100 then MODE_CELT_ONLY else if s.mode = 0 then MODE_SILK_ONLY else s.mode

/-- 40 ms -> 2 x 20 ms if in CELT_ONLY or HYBRID mode (:1281). -/
def lowC1 (s : St) (frameSize : Int) : Bool := s.fs / frameSize = 25 ∧ lowMode0 s frameSize ≠ MODE_SILK_ONLY

/-- Condition of :1291 (1 x 60 ms, 2 x 40 ms, 2 x 60 ms SILK frames). -/
def lowToSilk (s : St) (frameSize outDataBytes : Int) : Bool :=
  outDataBytes = 1 ∨ (lowMode0 s frameSize = MODE_SILK_ONLY ∧ s.fs / frameSize ≠ 10)

/-- `packet_code` (:1273-1303).  (`frame_rate<=16` at :1288 is tested after the 40 ms rewrite, which
    only fires for `frame_rate == 25`, so it is a test on the original rate.) -/
def lowCode (s : St) (frameSize outDataBytes : Int) : Int :=
  if s.fs / frameSize ≤ 16 then
    (if lowToSilk s frameSize outDataBytes then (if s.fs / frameSize ≤ 12 then 1 else 0) else 3)
  else if lowC1 s frameSize then 1 else 0

/-- `num_multiframes` (:1300). -/
def lowNumMulti (s : St) (frameSize outDataBytes : Int) : Int :=
  if s.fs / frameSize ≤ 16 ∧ ¬ lowToSilk s frameSize outDataBytes then 50 / (s.fs / frameSize) else 0

/-- `tocmode` and `frame_rate` handed to gen_toc (:1313). -/
def lowTocMode (s : St) (frameSize outDataBytes : Int) : Int :=
  if s.fs / frameSize ≤ 16 ∧ lowToSilk s frameSize outDataBytes then MODE_SILK_ONLY else lowMode0 s frameSize

def lowTocRate (s : St) (frameSize outDataBytes : Int) : Int :=
  if s.fs / frameSize ≤ 16 then
    (if lowToSilk s frameSize outDataBytes then (if s.fs / frameSize = 12 then 25 else 16) else 50)
  else if lowC1 s frameSize then 50 else s.fs / frameSize

/-- `bw` handed to gen_toc (:1272, :1306-1311). -/
def lowTocBw (s : St) (frameSize outDataBytes : Int) : Int :=
  let bw := if s.bandwidth = 0 then BW_NB else s.bandwidth
  let tocmode := lowTocMode s frameSize outDataBytes
  if tocmode = MODE_SILK_ONLY ∧ bw > BW_WB then BW_WB
  else if tocmode = MODE_CELT_ONLY ∧ bw = BW_MB then BW_NB
  else if tocmode = MODE_HYBRID ∧ bw ≤ BW_SWB then BW_SWB
  else bw

/-- The ToC-only packet of opus_encoder.c:1270-1321 before CBR padding:
    `(toc without code, packet_code, num_multiframes)`. -/
def lowBudgetToc (s : St) (frameSize outDataBytes : Int) : Nat × Int × Int :=
  (genToc (lowTocMode s frameSize outDataBytes) (lowTocRate s frameSize outDataBytes)
     (lowTocBw s frameSize outDataBytes) s.streamChannels,
   lowCode s frameSize outDataBytes, lowNumMulti s frameSize outDataBytes)

/-- Frame lengths of the ToC-only packet. -/
def lowLens (s : St) (frameSize outDataBytes : Int) : List Nat :=
  List.replicate (if lowCode s frameSize outDataBytes = 0 then 1 else if lowCode s frameSize outDataBytes = 1 then 2
                  else (lowNumMulti s frameSize outDataBytes).toNat) 0

/-- Header bytes of the unpadded ToC-only packet. -/
def lowHdr0 (s : St) (frameSize outDataBytes : Int) : Bytes :=
  if lowCode s frameSize outDataBytes = 3 then
    [(lowBudgetToc s frameSize outDataBytes).1 + 3, (lowNumMulti s frameSize outDataBytes).toNat]
  else [(lowBudgetToc s frameSize outDataBytes).1 + (lowCode s frameSize outDataBytes).toNat]

/-- Its length (:1316). -/
def lowRet0 (s : St) (frameSize outDataBytes : Int) : Int := if lowCode s frameSize outDataBytes ≤ 1 then 1 else 2

/-- opus_encoder.c:1270-1332: the low-budget return. -/
def lowBudget (s : St) (frameSize outDataBytes : Int) (b : SizeBudget) : NatRes :=
  let toc := (lowBudgetToc s frameSize outDataBytes).1
  let ret := lowRet0 s frameSize outDataBytes
  let m := max b.maxDataBytes ret
  let lens := lowLens s frameSize outDataBytes
  if s.useVbr = 0 then
    if (padSpec toc lens ret m).1 ≠ OPUS_OK then natErr s [(3, [ret, m, (padSpec toc lens ret m).1])] OPUS_INTERNAL_ERROR   -- :1329
    else { ret := m, abort := false,
           pkt := { tocCfg := toc, lens, size := m.toNat,
                    hdr := (match (padSpec toc lens ret m).2 with | some r => r.hdr | none => lowHdr0 s frameSize outDataBytes) },
           dtx := false, ok := true, st := s, calls := [(3, [ret, m, (padSpec toc lens ret m).1])] }
  else { ret, abort := false, pkt := { tocCfg := toc, lens, size := ret.toNat, hdr := lowHdr0 s frameSize outDataBytes },
         dtx := false, ok := true, st := s, calls := [] }

/-- `voice_est` (opus_encoder.c:1340-1353). -/
def voiceEst (s : St) : Int :=
  if s.signalType = SIGNAL_VOICE then 127
  else if s.signalType = SIGNAL_MUSIC then 0
  else if s.voiceRatio ≥ 0 then
    let v := s.voiceRatio * 327 / 256
    if s.application = APP_AUDIO then min v 115 else v
  else if s.application = APP_VOIP then 115
  else 48

/-- Take the next `rand()` value (FUZZING build). -/
def nextRand (r : List Int) : Int × List Int :=
  match r with
  | [] => (0, [])
  | x :: xs => (x, xs)

/-- opus_encoder.c:1355-1380: `stream_channels`. -/
def chanDecide (s : St) (fuzz : Bool) (ve equivRate : Int) (rands : List Int) : Int × List Int :=
  if s.forceChannels ≠ OPUS_AUTO ∧ s.channels = 2 then (s.forceChannels, rands)
  else if fuzz then
    if s.channels = 2 then
      let (r, rands) := nextRand rands
      ((if r % 32 = 0 then 3 - s.streamChannels else s.streamChannels), rands)
    else (s.streamChannels, rands)
  else if s.channels = 2 then
    let thr := Gen.EncTables.stereoMusicThreshold +
               (ve * ve * (Gen.EncTables.stereoVoiceThreshold - Gen.EncTables.stereoMusicThreshold)) / 16384
    let thr := if s.streamChannels = 2 then thr - 1000 else thr + 1000
    ((if equivRate > thr then 2 else 1), rands)
  else (s.channels, rands)

/-- Rate/probability based mode choice (:1416-1446, non-FUZZING build). -/
def modeThresh (s : St) (o : NatOr) (ve equivRate : Int) : Int :=
  let thr := o.modeMusic + (ve * ve * (o.modeVoice - o.modeMusic)) / 16384
  let thr := if s.application = APP_VOIP then thr + 8000 else thr
  let thr := if s.prevMode = MODE_CELT_ONLY then thr - 4000 else if s.prevMode > 0 then thr + 4000 else thr
  if s.silkUseDtx ≠ 0 ∧ ve > 100 then MODE_SILK_ONLY
  else if s.useInBandFEC ≠ 0 ∧ s.lossPerc > (128 - ve) / 16 ∧ (s.fecConfig ≠ 2 ∨ ve > 25) then MODE_SILK_ONLY
  else if equivRate ≥ thr then MODE_CELT_ONLY else MODE_SILK_ONLY

/-- Automatic mode (:1399-1447): random in the FUZZING build, else `modeThresh`. -/
def modeAuto (s : St) (fuzz : Bool) (o : NatOr) (ve equivRate : Int) (rands : List Int) : Int × List Int :=
  if fuzz then
    if (nextRand rands).1 % 16 = 0 then
      ((if (nextRand (nextRand rands).2).1 % 2 = 0 then MODE_CELT_ONLY else MODE_SILK_ONLY),
       (nextRand (nextRand rands).2).2)
    else ((if s.prevMode = MODE_CELT_ONLY then MODE_CELT_ONLY else MODE_SILK_ONLY), (nextRand rands).2)
  else (modeThresh s o ve equivRate, rands)

/-- Requested mode (:1394-1454). -/
def modeReq (s : St) (fuzz : Bool) (o : NatOr) (ve equivRate frameSize maxDataBytes : Int) (rands : List Int)
    : Int × List Int :=
  if s.application = APP_RESTRICTED_LOWDELAY then (MODE_CELT_ONLY, rands)
  else if s.userForcedMode = OPUS_AUTO then
    ((if maxDataBytes < (if s.fs / frameSize > 50 then 9000 else 6000) * frameSize / (s.fs * 8) then MODE_CELT_ONLY
      else (modeAuto s fuzz o ve equivRate rands).1), (modeAuto s fuzz o ve equivRate rands).2)
  else (s.userForcedMode, rands)

/-- opus_encoder.c:1394-1460: requested `st->mode` before the transition logic. -/
def modeDecide (s : St) (fuzz : Bool) (o : NatOr) (ve equivRate frameSize maxDataBytes : Int) (rands : List Int)
    : Int × List Int :=
  ((if s.lfe ≠ 0 then MODE_CELT_ONLY
    else if (modeReq s fuzz o ve equivRate frameSize maxDataBytes rands).1 ≠ MODE_CELT_ONLY ∧ frameSize < s.fs / 100
    then MODE_CELT_ONLY
    else (modeReq s fuzz o ve equivRate frameSize maxDataBytes rands).1),
   (modeReq s fuzz o ve equivRate frameSize maxDataBytes rands).2)

/-- Threshold walk of opus_encoder.c:1525-1538 over the candidates FB, SWB, WB, MB. -/
def bwWalk (th : List Int) (first autoBw equivRate : Int) : List Int → Int
  | [] => BW_NB
  | bw :: rest =>
    let threshold := tbl th (2 * (bw - BW_MB))
    let hysteresis := tbl th (2 * (bw - BW_MB) + 1)
    let threshold := if first = 0 then (if autoBw ≥ bw then threshold - hysteresis else threshold + hysteresis)
                     else threshold
    if equivRate ≥ threshold then bw else bwWalk th first autoBw equivRate rest

/-- Interpolated bandwidth thresholds (opus_encoder.c:1511-1524). -/
def bwThresholds (s : St) (ve : Int) : List Int :=
  let stereo := s.channels = 2 ∧ s.forceChannels ≠ 1
  let voice := if stereo then Gen.EncTables.stereoVoiceBandwidthThresholds else Gen.EncTables.monoVoiceBandwidthThresholds
  let music := if stereo then Gen.EncTables.stereoMusicBandwidthThresholds else Gen.EncTables.monoMusicBandwidthThresholds
  ([0, 1, 2, 3, 4, 5, 6, 7] : List Int).map (fun i => tbl music i + (ve * ve * (tbl voice i - tbl music i)) / 16384)

/-- opus_encoder.c:1504-1548: automatic bandwidth. -/
def autoBandwidthUpd (s : St) (ve equivRate : Int) : St :=
  if s.mode = MODE_CELT_ONLY ∨ s.first ≠ 0 ∨ s.allowBwSwitch ≠ 0 then
    let bw := bwWalk (bwThresholds s ve) s.first s.autoBandwidth equivRate [BW_FB, BW_SWB, BW_WB, BW_MB]
    let bw := if bw = BW_MB then BW_WB else bw
    let s := { s with bandwidth := bw, autoBandwidth := bw }
    if s.first = 0 ∧ s.mode ≠ MODE_CELT_ONLY ∧ s.inWBmode = 0 ∧ s.bandwidth > BW_WB
    then { s with bandwidth := BW_WB } else s
  else s

/-- opus_encoder.c:1550-1571. -/
def bwClamp (s : St) (maxRate : Int) : St :=
  let bw := s.bandwidth
  let bw := if bw > s.maxBandwidth then s.maxBandwidth else bw
  let bw := if s.userBandwidth ≠ OPUS_AUTO then s.userBandwidth else bw
  let bw := if s.mode ≠ MODE_CELT_ONLY ∧ maxRate < 15000 then min bw BW_WB else bw
  let bw := if s.fs ≤ 24000 ∧ bw > BW_SWB then BW_SWB else bw
  let bw := if s.fs ≤ 16000 ∧ bw > BW_WB then BW_WB else bw
  let bw := if s.fs ≤ 12000 ∧ bw > BW_MB then BW_MB else bw
  let bw := if s.fs ≤ 8000 ∧ bw > BW_NB then BW_NB else bw
  { s with bandwidth := bw }

/-- opus_encoder.c:1574-1594. -/
def detectedClamp (s : St) (equivRate : Int) : St :=
  if s.detectedBandwidth ≠ 0 ∧ s.userBandwidth = OPUS_AUTO then
    let sc := s.streamChannels
    let celt := s.mode = MODE_CELT_ONLY
    let minDet :=
      if equivRate ≤ 18000 * sc ∧ celt then BW_NB
      else if equivRate ≤ 24000 * sc ∧ celt then BW_MB
      else if equivRate ≤ 30000 * sc then BW_WB
      else if equivRate ≤ 44000 * sc then BW_SWB
      else BW_FB
    let det := max s.detectedBandwidth minDet
    { s with detectedBandwidth := det, bandwidth := min s.bandwidth det }
  else s

/-- Locals that leave the decision chain. -/
structure Decided where
  st : St
  redundancy : Bool
  celtToSilk : Bool
  toCelt : Bool
  prefill : Int
  equivRate : Int
  deriving DecidableEq, Repr

/-- `analysis_info.valid` / `is_silence` as the chain sees them (0 when the analysis does not run). -/
def effValid (s : St) (o : NatOr) : Int := if analysisRuns s then o.aValid else 0
def effSilence (s : St) (o : NatOr) : Int := if analysisRuns s then o.isSilence else 0

/-- opus_encoder.c:1337-1391: `stream_channels`, `silk_mode.useDTX`; also returns the unused
    `rand()` values (FUZZING build). -/
def decChan (s : St) (fuzz : Bool) (o : NatOr) (frameSize : Int) : St × List Int :=
  let cd := chanDecide s fuzz (voiceEst s)
              (computeEquivRate s.bitrateBps s.channels (s.fs / frameSize) s.useVbr 0 s.complexity s.lossPerc) o.rands
  -- :1388-1399: when the DTX detector in charge changes, neither run counter carries over
  ({ s with streamChannels := cd.1,
            silkUseDtx := b2i (s.useDtx ≠ 0 ∧ ¬ (effValid s o ≠ 0 ∨ effSilence s o ≠ 0)),
            nbNoActivity := (if b2i (s.useDtx ≠ 0 ∧ ¬ (effValid s o ≠ 0 ∨ effSilence s o ≠ 0)) ≠ s.silkUseDtx then 0
                             else s.nbNoActivity) }, cd.2)

/-- Result of the mode transition logic :1462-1479. -/
structure Trans where
  mode : Int
  redundancy : Bool
  celtToSilk : Bool
  toCelt : Bool
  deriving DecidableEq, Repr

/-- opus_encoder.c:1462-1479 for requested mode `mode`. -/
def transDecide (mode prevMode frameSize fs : Int) : Trans :=
  if prevMode > 0 ∧ ((mode ≠ MODE_CELT_ONLY ∧ prevMode = MODE_CELT_ONLY) ∨
                      (mode = MODE_CELT_ONLY ∧ prevMode ≠ MODE_CELT_ONLY)) then
    if mode ≠ MODE_CELT_ONLY then { mode, redundancy := true, celtToSilk := true, toCelt := false }
    else if frameSize ≥ fs / 100 then { mode := prevMode, redundancy := true, celtToSilk := false, toCelt := true }
    else { mode, redundancy := false, celtToSilk := false, toCelt := false }
  else { mode, redundancy := false, celtToSilk := false, toCelt := false }

/-- opus_encoder.c:1394-1491: `st->mode` after the transition logic, and the delayed
    stereo->mono switch. -/
def decMode (s : St) (t : Trans) : St :=
  if s.streamChannels = 1 ∧ s.prevChannels = 2 ∧ s.toMono = 0 ∧ t.mode ≠ MODE_CELT_ONLY ∧ s.prevMode ≠ MODE_CELT_ONLY
  then { s with mode := t.mode, toMono := 1, streamChannels := 2 }
  else { s with mode := t.mode, toMono := 0 }

/-- opus_encoder.c:1596-1613: decide_fec, CELT has no mediumband, LFE is narrowband, and the
    final SILK-only <-> hybrid adjustment. -/
def decFec (s : St) (er2 : Int) : St :=
  let fec := decideFec s.useInBandFEC s.lossPerc s.lbrrCoded s.mode s.bandwidth er2
  let bw := if s.mode = MODE_CELT_ONLY ∧ fec.2 = BW_MB then BW_WB else fec.2
  let bw := if s.lfe ≠ 0 then BW_NB else bw
  let mode := if s.mode = MODE_SILK_ONLY ∧ bw > BW_WB then MODE_HYBRID else s.mode
  let mode := if mode = MODE_HYBRID ∧ bw ≤ BW_WB then MODE_SILK_ONLY else mode
  { s with lbrrCoded := fec.1, bandwidth := bw, mode }

/-- Equivalent rate after the mode decision (:1494). -/
def equivRate2 (s : St) (frameSize : Int) : Int :=
  computeEquivRate s.bitrateBps s.streamChannels (s.fs / frameSize) s.useVbr s.mode s.complexity s.lossPerc

/-- opus_encoder.c:1334-1613: the decision chain for budget `maxDataBytes`. -/
def decide' (s : St) (fuzz : Bool) (o : NatOr) (frameSize maxDataBytes : Int) : Decided :=
  let a := decChan s fuzz o frameSize
  let md := modeDecide a.1 fuzz o (voiceEst s)
              (computeEquivRate s.bitrateBps a.1.streamChannels (s.fs / frameSize) s.useVbr 0 s.complexity s.lossPerc)
              frameSize maxDataBytes a.2
  let t := transDecide md.1 s.prevMode frameSize s.fs
  let b := decMode a.1 t
  let c := detectedClamp (bwClamp (autoBandwidthUpd b (voiceEst s) (equivRate2 b frameSize))
                                  ((s.fs / frameSize) * maxDataBytes * 8)) (equivRate2 b frameSize)
  { st := decFec c (equivRate2 b frameSize), redundancy := t.redundancy, celtToSilk := t.celtToSilk,
    toCelt := t.toCelt,
    prefill := (if b.mode ≠ MODE_CELT_ONLY ∧ s.prevMode = MODE_CELT_ONLY then 1 else 0),
    equivRate := equivRate2 b frameSize }

/-- Is the packet split into several frames (opus_encoder.c:1616)? -/
def isMulti (s : St) (frameSize : Int) : Bool :=
  (frameSize > s.fs / 50 ∧ s.mode ≠ MODE_SILK_ONLY) ∨ frameSize > 3 * s.fs / 50

/-- `enc_frame_size` (opus_encoder.c:1631-1641). -/
def encFrameSize (s : St) (frameSize : Int) : Int :=
  if s.mode = MODE_SILK_ONLY then
    if frameSize = 2 * s.fs / 25 then s.fs / 25
    else if frameSize = 3 * s.fs / 25 then 3 * s.fs / 50
    else s.fs / 50
  else s.fs / 50

/-- Constants of the multi-frame loop (opus_encoder.c:1643-1666). -/
structure MultiCtx where
  encFs : Int
  nbFrames : Int
  repacketizeLen : Int
  maxLenSum : Int
  deriving DecidableEq, Repr

def multiCtx (s : St) (frameSize outDataBytes cbr : Int) : MultiCtx :=
  let encFs := encFrameSize s frameSize
  let nb := frameSize / encFs
  let maxHeader := if nb = 2 then 3 else 2 + (nb - 1) * 2
  let rl := if s.useVbr ≠ 0 ∨ s.userBitrate = OPUS_BITRATE_MAX then outDataBytes else min cbr outDataBytes
  { encFs, nbFrames := nb, repacketizeLen := rl, maxLenSum := nb + rl - maxHeader }

/-- Accumulator of the multi-frame loop. -/
structure MultiAcc where
  st : St
  totSize : Int
  dtxCount : Int
  cfg0 : Option Nat
  lens : List Nat
  calls : List Call
  ok : Bool
  fail : Option NatRes
  deriving DecidableEq, Repr

/-- `curr_max` of iteration with running `tot_size` (opus_encoder.c:1696-1703, including the
    clamp to 1276 bytes: a single frame with its ToC can never be larger). -/
def currMax (s : St) (c : MultiCtx) (totSize : Int) : Int :=
  let cm := min (3 * s.bitrateBps / (3 * 8 * s.fs / c.encFs)) (c.maxLenSum / c.nbFrames)
  min (min (c.maxLenSum - totSize) cm) 1276

/-- Contract on silk_Encode across the sub-frames of one packet: SILK does not change its internal
    sampling rate in the middle of a packet (it switches only after `opusCanSwitch`, which is
    offered on final frames only, :2117), so every sub-frame carries the same ToC configuration. -/
def tocStable (cfg0 : Option Nat) (r : FrameRes) : Bool :=
  match cfg0 with
  | none => true
  | some c => decide (r.ret < 1) || decide (c = r.toc)

/-- State handed to sub-frame `i` (:1689-1690). -/
def subSt (c : MultiCtx) (i : Nat) (s : St) : St :=
  { s with toMono := 0, nonfinalFrame := b2i ((i : Int) < c.nbFrames - 1) }

/-- Arguments of the call for sub-frame `i` (:1693-1722). -/
def subIn (c : MultiCtx) (d : Decided) (isSil : Int) (i : Nat) (s : St) (totSize : Int) : FrameIn :=
  { frameSize := c.encFs, maxDataBytes := currMax s c totSize, isSilence := isSil,
    redundancy := d.redundancy ∧ ((d.toCelt ∧ (i : Int) = c.nbFrames - 1) ∨ (¬ d.toCelt ∧ i = 0)),
    celtToSilk := d.celtToSilk, prefill := d.prefill, equivRate := d.equivRate,
    toCelt := d.toCelt ∧ (i : Int) = c.nbFrames - 1 }

/-- One iteration `i` of the loop opus_encoder.c:1680-1739. -/
def multiStep (c : MultiCtx) (d : Decided) (isSil : Int) (i : Nat) (fo : FrameOr) (a : MultiAcc) : MultiAcc :=
  match a.fail with
  | some _ => a
  | none =>
    let s := subSt c i a.st
    let fi := subIn c d isSil i a.st a.totSize
    let r := frameNative s fi fo
    let ok := a.ok && frameOk s fi fo && tocStable a.cfg0 r
    let calls := a.calls ++ r.calls
    if r.abort then { a with st := r.st, calls, ok, fail := some { (natErr r.st calls 0) with abort := true, ok } }
    else if r.ret < 0 then { a with st := r.st, calls, ok, fail := some { (natErr r.st calls OPUS_INTERNAL_ERROR) with ok } }   -- :1726
    else
      let p : Pkt := { tocCfg := r.toc, lens := [r.payload.toNat], size := r.ret.toNat, hdr := r.hdr }
      let cr := catSpec a.cfg0 a.lens.length p
      let calls := calls ++ [(4, [r.ret, cr])]
      if cr < 0 then { a with st := r.st, calls, ok, fail := some { (natErr r.st calls OPUS_INTERNAL_ERROR) with ok } }   -- :1735
      else { st := r.st, totSize := a.totSize + r.ret,
             dtxCount := (if r.ret = 1 then a.dtxCount + 1 else a.dtxCount),
             cfg0 := (match a.cfg0 with | none => some r.toc | some c0 => some c0),
             lens := a.lens ++ [r.payload.toNat], calls, ok, fail := none }

/-- The loop, by recursion on the list of per-frame oracles (`n` frames still to do). -/
def multiLoop (c : MultiCtx) (d : Decided) (isSil : Int) : Nat → Nat → List FrameOr → MultiAcc → MultiAcc
  | 0, _, _, a => a
  | n + 1, i, fos, a =>
    multiLoop c d isSil n (i + 1) fos.tail (multiStep c d isSil i (fos.headD default) a)

/-- State at loop entry (:1685-1687; since fix 34e4f763 the user setting `force_channels` is no longer
    overwritten when a stereo->mono transition is pending). -/
def multiSt0 (s : St) : St :=
  if s.toMono ≠ 0 then s else { s with prevChannels := s.streamChannels }

/-- opus_encoder.c:1616-1747. -/
def multiFrame (d : Decided) (isSil : Int) (frameSize outDataBytes cbr : Int) (fos : List FrameOr) : NatRes :=
  let c := multiCtx d.st frameSize outDataBytes cbr
  let a := multiLoop c d isSil c.nbFrames.toNat 0 fos
             { st := multiSt0 d.st, totSize := 0, dtxCount := 0, cfg0 := none, lens := [], calls := [], ok := true,
               fail := none }
  match a.fail with
  | some r => r
  | none =>
    let pad := d.st.useVbr = 0 ∧ a.dtxCount ≠ c.nbFrames
    match outRange (a.cfg0.getD 0) a.lens c.repacketizeLen.toNat pad with
    | .ok r =>
      { ret := r.size, abort := false,
        pkt := { tocCfg := a.cfg0.getD 0, lens := a.lens, size := r.size, hdr := r.hdr },
        dtx := decide (a.dtxCount = c.nbFrames), ok := a.ok,
        st := { a.st with toMono := d.st.toMono }, calls := a.calls ++ [(5, [c.repacketizeLen, b2i pad, r.size])] }
    | .err e => { (natErr { a.st with toMono := d.st.toMono } (a.calls ++ [(5, [c.repacketizeLen, b2i pad, e.code])])
                     OPUS_INTERNAL_ERROR) with ok := a.ok }                                                    -- :1743
    | _ => { (natErr a.st a.calls OPUS_INTERNAL_ERROR) with ok := a.ok }

/-- State after :1249-1261: analysis results and `st->bitrate_bps`. -/
def budgetSt (s : St) (o : NatOr) (frameSize outDataBytes : Int) : St :=
  { (analysisUpd s o) with bitrateBps := (sizeBudget (analysisUpd s o) frameSize outDataBytes).bitrateBps }

/-- Arguments of the single `opus_encode_frame_native` call (:1749). -/
def singleIn (d : Decided) (isSil frameSize maxDataBytes : Int) : FrameIn :=
  { frameSize, maxDataBytes, isSilence := isSil, redundancy := d.redundancy, celtToSilk := d.celtToSilk,
    prefill := d.prefill, equivRate := d.equivRate, toCelt := d.toCelt }

/-- Result of the single-frame path (:1749-1761). -/
def singleRes (r : FrameRes) (ok : Bool) : NatRes :=
  { ret := r.ret, abort := r.abort,
    pkt := { tocCfg := r.toc, lens := [r.payload.toNat], size := r.ret.toNat, hdr := r.hdr },
    dtx := r.dtx, ok, st := r.st, calls := r.calls }

/-- `opus_encode_native` (opus_encoder.c:1121-1763); `fuzz` selects the FUZZING build's
    random mode / channel decisions. -/
def encodeNative (s : St) (fuzz : Bool) (frameSize outDataBytes : Int) (o : NatOr) : NatRes :=
  match entryCheck s frameSize outDataBytes with
  | some e => natErr s [] e
  | none =>
    let pre := stOk s && legalFrame s.fs frameSize
    let b := sizeBudget (analysisUpd s o) frameSize outDataBytes
    let s1 := budgetSt s o frameSize outDataBytes
    if lowBudgetGate s1 frameSize b then { (lowBudget s1 frameSize outDataBytes b) with ok := pre }
    else
      let d := decide' s1 fuzz o frameSize b.maxDataBytes
      let isSil := effSilence s1 o
      if isMulti d.st frameSize then
        let r := multiFrame d isSil frameSize outDataBytes b.cbr o.frames
        { r with ok := pre && r.ok }
      else
        singleRes (frameNative d.st (singleIn d isSil frameSize b.maxDataBytes) (o.frames.headD default))
          (pre && frameOk d.st (singleIn d isSil frameSize b.maxDataBytes) (o.frames.headD default))

/-- Public entry points `opus_encode` / `opus_encode24` / `opus_encode_float`
    (opus_encoder.c:2523-2594): `frame_size_select`, then `opus_encode_native`.
    (`opus_encode_float` has no `frame_size<=0` test of its own; the native one catches it.) -/
def encode (s : St) (fuzz : Bool) (analysisFrameSize outDataBytes : Int) (o : NatOr) : NatRes :=
  let frameSize := frameSizeSelect analysisFrameSize s.variableDuration s.fs
  if frameSize ≤ 0 then natErr s [] OPUS_BAD_ARG
  else encodeNative s fuzz frameSize outDataBytes o

/-! ### Multistream per-stream budget (src/opus_multistream_encoder.c:855-1012) -/

/-- `smallest_packet` (:856-859). -/
def msSmallest (nbStreams fs frameSize : Int) : Int :=
  let sp := nbStreams * 2 - 1
  if fs / frameSize = 10 then sp + nbStreams else sp

/-- `max_data_bytes` after the CBR clamp (:878-888); `rateSum` from rate_allocation. -/
def msMaxBytes (vbr bitrate rateSum nbStreams fs frameSize maxDataBytes : Int) : Int :=
  if vbr = 0 then
    if bitrate = OPUS_AUTO then min maxDataBytes (3 * rateSum / (3 * 8 * fs / frameSize))
    else if bitrate ≠ OPUS_BITRATE_MAX then
      min maxDataBytes (max (msSmallest nbStreams fs frameSize) (3 * bitrate / (3 * 8 * fs / frameSize)))
    else maxDataBytes
  else maxDataBytes

/-- `curr_max` handed to stream `s` (:976-984). -/
def msCurrMax (nbStreams fs frameSize maxDataBytes totSize s : Int) : Int :=
  let cm := maxDataBytes - totSize
  let cm := cm - max 0 (2 * (nbStreams - s - 1) - 1)
  let cm := if fs / frameSize = 10 then cm - (nbStreams - s - 1) else cm
  let cm := min cm (6 * 1275 + 12)
  if s ≠ nbStreams - 1 then cm - (if cm > 253 then 2 else 1) else cm

/-- Bytes stream `s` contributes given its encoder output of `len` bytes whose last frame has
    `lastLen` bytes (:1005: self-delimited framing adds 1 or 2 bytes for all but the last stream;
    the last stream is padded to the remaining space in CBR). -/
def msStreamBytes (nbStreams vbr maxDataBytes totSize s len lastLen : Int) : Int :=
  if s ≠ nbStreams - 1 then len + (if lastLen ≥ 252 then 2 else 1)
  else if vbr = 0 then maxDataBytes - totSize else len

end Opus.EncSkel
