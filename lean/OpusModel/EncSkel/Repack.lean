import OpusModel.Basic
import OpusModel.Framing
/-
  OpusModel.EncSkel.Repack — the *contract* the encoder skeleton assumes of the repacketiser
  entry points it calls (src/repacketizer.c), written as executable specification functions for
  extension-free input.  This is NOT the repacketiser model of property C07 (OpusModel.Repack,
  other owner); it only fixes what `opus_encode_native` / `opus_encode_frame_native` rely on:

    * `catSpec`   opus_repacketizer_cat on a packet the frame encoder just produced
                  (:62-102: TOC compatibility, 120 ms limit, packet must parse)
    * `outRange`  opus_repacketizer_out_range_impl(rp, 0, n, data, maxlen, 0, pad, NULL, 0)
                  (:114-323): returned size and the header bytes it writes
    * `padSpec`   opus_packet_pad(data, len, new_len) (:335-369)

  The tie (suite `encskel`) compares every real call's return value — and the header bytes of
  the final packet — with these functions; the theorems of C02/C05 use only the lemmas proved
  about them in OpusProofs/EncSkelRepack.lean.
-/
namespace Opus.EncSkel
open Opus Opus.Framing

/-- Error codes as C integers. -/
abbrev OPUS_OK : Int := 0
abbrev OPUS_BAD_ARG : Int := -1
abbrev OPUS_BUFFER_TOO_SMALL : Int := -2
abbrev OPUS_INTERNAL_ERROR : Int := -3
abbrev OPUS_INVALID_PACKET : Int := -4

/-- Number of bytes `encode_size` writes (src/opus.c:140-151). -/
def sizeLen (n : Nat) : Nat := if n < 252 then 1 else 2

/-- Are all frame lengths equal to the first (the `vbr` scan of repacketizer.c:227-234)? -/
def allEq (l0 : Nat) : List Nat → Bool
  | [] => true
  | x :: xs => x == l0 && allEq l0 xs

/-- `Σ_{i<count-1} (1 + (len[i]>=252) + len[i]) + len[count-1]` (repacketizer.c:238-240). -/
def vbrBody : List Nat → Nat
  | [] => 0
  | [x] => x
  | x :: xs => sizeLen x + x + vbrBody xs

/-- Length bytes of all frames but the last (repacketizer.c:288-292). -/
def vbrLens : List Nat → Bytes
  | [] => []
  | [_] => []
  | x :: xs => encodeSize x ++ vbrLens xs

/-- Padding-length bytes (repacketizer.c:283-285): `nb_255s` times 255, then the rest. -/
def padLenBytes (padAmount : Nat) : Bytes :=
  List.replicate ((padAmount - 1) / 255) 255 ++ [padAmount - 255 * ((padAmount - 1) / 255) - 1]

/-- Result of `out_range_impl`: total size and the header bytes (everything before frame 0). -/
structure OutRes where
  size : Nat
  hdr : Bytes
  deriving DecidableEq, Repr

/-- Code-3 branch of out_range_impl (repacketizer.c:214-293). -/
def outCode3 (tocCfg : Nat) (lens : List Nat) (maxlen : Nat) (pad : Bool) : Res OutRes :=
  let count := lens.length
  let l0 := lens.headD 0
  let vbr := !(allEq l0 lens)
  let tot := if vbr then 2 + vbrBody lens else count * l0 + 2
  if tot > maxlen then .err .bufferTooSmall
  else
    let b1 := if vbr then count + 128 else count
    let padAmount := if pad then maxlen - tot else 0
    if padAmount ≠ 0 then
      if tot + (padAmount - 1) / 255 + 1 > maxlen then .err .bufferTooSmall
      else .ok { size := tot + padAmount,
                 hdr := [tocCfg + 3, b1 + 64] ++ padLenBytes padAmount ++ (if vbr then vbrLens lens else []) }
    else .ok { size := tot, hdr := [tocCfg + 3, b1] ++ (if vbr then vbrLens lens else []) }

/-- `opus_repacketizer_out_range_impl(rp, 0, n, data, maxlen, self_delimited=0, pad, NULL, 0)`
    for `n = lens.length ≥ 1` frames of the given lengths without extensions
    (repacketizer.c:114-323).  `tocCfg = rp->toc & 0xFC`. -/
def outRange (tocCfg : Nat) (lens : List Nat) (maxlen : Nat) (pad : Bool) : Res OutRes :=
  match lens with
  | [] => .err .badArg
  | [l0] =>
    if l0 + 1 > maxlen then .err .bufferTooSmall
    else if pad ∧ l0 + 1 < maxlen then outCode3 tocCfg lens maxlen pad
    else .ok { size := l0 + 1, hdr := [tocCfg] }
  | [l0, l1] =>
    if l1 = l0 then
      if 2 * l0 + 1 > maxlen then .err .bufferTooSmall
      else if pad ∧ 2 * l0 + 1 < maxlen then outCode3 tocCfg lens maxlen pad
      else .ok { size := 2 * l0 + 1, hdr := [tocCfg + 1] }
    else
      let tot := l0 + l1 + 2 + (if l0 ≥ 252 then 1 else 0)
      if tot > maxlen then .err .bufferTooSmall
      else if pad ∧ tot < maxlen then outCode3 tocCfg lens maxlen pad
      else .ok { size := tot, hdr := [tocCfg + 2] ++ encodeSize l0 }
  | _ => outCode3 tocCfg lens maxlen pad

/-- A packet as the encoder skeleton sees it: configuration bits of the TOC, the frame
    lengths, the total length and the header bytes.  Payload bytes are opaque. -/
structure Pkt where
  tocCfg : Nat            -- data[0] & 0xFC
  lens : List Nat         -- frame payload lengths
  size : Nat              -- total length in bytes
  hdr : Bytes             -- bytes before the first frame
  deriving DecidableEq, Repr

/-- `opus_repacketizer_cat(rp, data, len)` (repacketizer.c:62-102) on a packet `p` produced by the
    skeleton, when `have` frames with configuration `cfg0` are already in the repacketiser
    (`none` when it is empty).  `spf8k` = opus_packet_get_samples_per_frame(data, 8000). -/
def catSpec (cfg0 : Option Nat) (have_ : Nat) (p : Pkt) : Int :=
  if p.size < 1 then OPUS_INVALID_PACKET
  else if (match cfg0 with | none => false | some c => c ≠ p.tocCfg) then OPUS_INVALID_PACKET
  else if p.lens.length < 1 then OPUS_INVALID_PACKET
  else
    let spf := samplesPerFrame (match cfg0 with | none => p.tocCfg | some c => c) 8000
    if (p.lens.length + have_) * spf > 960 then OPUS_INVALID_PACKET
    else if p.lens.any (· > 1275) then OPUS_INVALID_PACKET
    else OPUS_OK

/-- `opus_packet_pad(data, len, new_len)` (repacketizer.c:335-369) on an unpadded packet of `len`
    bytes holding frames of lengths `lens` (a code-0 packet from the frame encoder, or the
    ToC-only code-0/1/3 packet of the low-budget path): the return value and, when the packet
    was re-written, its new size and header. -/
def padSpec (tocCfg : Nat) (lens : List Nat) (len newLen : Int) : Int × Option OutRes :=
  if len < 1 then (OPUS_BAD_ARG, none)
  else if len = newLen then (OPUS_OK, none)
  else if len > newLen then (OPUS_BAD_ARG, none)
  else if lens.any (· > 1275) then (OPUS_INVALID_PACKET, none)
  else
    match outRange tocCfg lens newLen.toNat true with
    | .ok r => (OPUS_OK, some r)
    | .err e => (e.code, none)
    | .oob => (OPUS_INTERNAL_ERROR, none)
    | .abort => (OPUS_INTERNAL_ERROR, none)

end Opus.EncSkel
