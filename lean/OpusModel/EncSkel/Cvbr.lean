import OpusModel.Basic
/-
  OpusModel.EncSkel.Cvbr — the integer bit-reservoir recursion of constrained VBR in
  `celt_encode_with_ec` (celt/celt_encoder.c:1785-1808 and :2317-2372), CELT-only frames
  (`nbFilledBytes = 0`; in hybrid mode the Opus layer switches the constraint off).

  Units: `vbr_rate` and `vbr_reservoir` are in 1/8 bit (`BITRES = 3`), so one byte is `64`.
  The float-driven target (`compute_vbr`, `min_allowed`) is an oracle `want` = the value of
  `nbAvailableBytes` after `IMAX(min_allowed, …)` at :2318; everything after it is integer.
-/
namespace Opus.EncSkel

/-- `max_allowed` of :1800-1802 (`tell == 1` on a fresh CELT-only frame, hence the floor of 2 bytes). -/
def cvbrMaxAllowed (vbrRate reservoir nbAvail0 : Int) : Int :=
  min (max 2 ((vbrRate + vbrRate - reservoir) / 64)) nbAvail0

/-- One frame: `(vbr_reservoir', nbCompressedBytes)` from `vbr_rate`, the reservoir, the caller's budget
    `nbAvail0` (already clamped to 1275 >> (3-LM)), the oracle `want` and the `silence` flag
    (:1803-1808, :2319-2370). -/
def cvbrStep (vbrRate reservoir nbAvail0 want : Int) (silence : Bool) : Int × Int :=
  let nbC := cvbrMaxAllowed vbrRate reservoir nbAvail0          -- nbCompressedBytes after :1803-1808
  let nbA := if silence then 2 else min nbC want                 -- :2319, :2334
  let res := reservoir + nbA * 64 - vbrRate                      -- :2350
  if res < 0 then (0, min nbC (nbA + (if silence then 0 else (-res) / 64)))   -- :2361-2369
  else (res, min nbC nbA)

/-- A run of frames at a constant `vbr_rate`: final reservoir and the packet sizes. -/
def cvbrRun (vbrRate : Int) : Int → List (Int × Int × Bool) → Int × List Int
  | res, [] => (res, [])
  | res, (nbAvail0, want, sil) :: rest =>
    let s := cvbrStep vbrRate res nbAvail0 want sil
    let r := cvbrRun vbrRate s.1 rest
    (r.1, s.2 :: r.2)

end Opus.EncSkel
