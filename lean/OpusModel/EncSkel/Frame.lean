import OpusModel.EncSkel.Basic
import OpusModel.EncSkel.Repack
/-
  OpusModel.EncSkel.Frame — byte accounting of `opus_encode_frame_native`
  (src/opus_encoder.c:1763-2509), one small function per block:

    * `frPre`      :1829-1852  silk_bw_switch, redundancy_bytes, bytes_target
    * `frSilk`     :1931-2133  SILK rate / maxBits, the silk_Encode call(s), DTX return, opusCanSwitch
    * `frRedSig`   :2218-2250  redundancy signalling and the final redundancy_bytes
    * `frCode`     :2253-2395  nb_compr_bytes, the CELT calls (redundant 5 ms frames, prefill, main)
    * `frFinish`   :2399-2508  TOC, state update, DTX decision, "busted" PLC frame, trailing-zero
                               strip, ToC/redundancy count, CBR padding

  The DSP is an oracle (`FrameOr`): the SILK outputs, the five `ec_tell` readings in call order,
  the CELT return values, the resolved VAD `activity` and the result of the trailing-zero scan.
  Contracts on these values are stated in OpusProofs/EncSkelContracts.lean and asserted at run
  time by the wrapping harness (harness/c05_encsize.c).
-/
namespace Opus.EncSkel
open Opus Opus.EncDecide

/-- Oracle values of one `opus_encode_frame_native` call, in the order the code obtains them. -/
structure FrameOr where
  aValid : Int        -- analysis_info->valid for this (sub)frame
  activity : Int      -- `activity` after :1813-1827 (VAD_NO_DECISION = -1, 0, 1)
  silkBitRateIn : Int -- silk_mode.bitRate as passed to silk_Encode (used only with energy masking)
  silkRet : Int       -- return value of the coding silk_Encode call
  nBytes : Int        -- *nBytesOut
  isr : Int           -- silk_mode.internalSampleRate after the call
  switchReady : Int   -- silk_mode.switchReady
  allowBw : Int       -- silk_mode.allowBandwidthSwitch
  inWB : Int          -- silk_mode.inWBmodeWithoutVariableLP
  tellA : Int         -- ec_tell at :2218
  tellB : Int         -- ec_tell at :2231 / :2234
  tellC : Int         -- ec_tell at :2255
  tellD : Int         -- ec_tell at :2347
  tellE : Int         -- ec_tell at :2432
  stripTo : Int       -- value of `ret` after `while(ret>2&&data[ret]==0)ret--` (:2450)
  celtRed1 : Int      -- celt_encode_with_ec at :2295 (CELT->SILK redundancy)
  celtMain : Int      -- celt_encode_with_ec at :2349
  celtRed2 : Int      -- celt_encode_with_ec at :2388 (SILK->CELT redundancy)
  deriving DecidableEq, Repr, Inhabited

/-- A recorded inner call (for the tie): tag and integer arguments.
    1 silk_Encode(prefill, bitRate, maxBits, useCBR) · 2 celt_encode_with_ec(site, frame, nbytes)
    3 opus_packet_pad(len, new_len, ret) · 4 repacketizer_cat(len, ret) · 5 out_range_impl(maxlen, pad, ret) -/
abbrev Call := Nat × List Int

/-- Arguments of `opus_encode_frame_native` that matter here. -/
structure FrameIn where
  frameSize : Int
  maxDataBytes : Int
  isSilence : Int
  redundancy : Bool
  celtToSilk : Bool
  prefill : Int
  equivRate : Int
  toCelt : Bool
  deriving DecidableEq, Repr

/-- Result of one `opus_encode_frame_native` call. -/
structure FrameRes where
  ret : Int            -- C return value (negative: error code)
  abort : Bool         -- a `celt_assert` of the function fires
  toc : Nat            -- data[0] when ret ≥ 1
  payload : Int        -- frame payload length (bytes after the ToC, before padding) when ret ≥ 1
  hdr : Bytes          -- bytes before the frame payload in the emitted packet when ret ≥ 1
  dtx : Bool           -- the call took one of the two DTX returns (:2122, :2423)
  st : St
  calls : List Call
  deriving DecidableEq, Repr

inductive Step (α : Type) where
  | done : FrameRes → Step α
  | cont : α → Step α

def wrap16 (x : Int) : Int := (x + 32768) % 65536 - 32768

/-- Locals after :1829-1852. -/
structure Pre where
  st : St
  redundancy : Bool
  celtToSilk : Bool
  prefill : Int
  rb : Int             -- redundancy_bytes
  bytesTarget : Int
  deriving DecidableEq, Repr

/-- opus_encoder.c:1829-1852. -/
def frPre (s : St) (fi : FrameIn) : Pre :=
  let frameRate := s.fs / fi.frameSize
  let sw := s.silkBwSwitch ≠ 0
  let redundancy := if sw then true else fi.redundancy
  let celtToSilk := if sw then true else fi.celtToSilk
  let prefill := if sw then 2 else fi.prefill
  let s := if sw then { s with silkBwSwitch := 0 } else s
  let redundancy := if s.mode = MODE_CELT_ONLY then false else redundancy
  let rb := if redundancy then computeRedundancyBytes fi.maxDataBytes s.bitrateBps frameRate s.streamChannels else 0
  let redundancy := redundancy && rb ≠ 0
  let bytesTarget := min (fi.maxDataBytes - rb) (cdiv (s.bitrateBps * fi.frameSize) (s.fs * 8)) - 1
  { st := s, redundancy, celtToSilk, prefill, rb, bytesTarget }

/-- Locals after the SILK block (:1931-2133). -/
structure Mid where
  st : St
  redundancy : Bool
  celtToSilk : Bool
  rb : Int
  currBw : Int
  calls : List Call
  deriving DecidableEq, Repr

/-- `st->silk_mode.bitRate` and `maxBits`, `useCBR` handed to silk_Encode (:1937-2071). -/
def silkBudget (s : St) (fi : FrameIn) (p : Pre) (o : FrameOr) : Int × Int × Int :=
  let m := fi.maxDataBytes
  let frameRate := s.fs / fi.frameSize
  let hybrid := s.mode = MODE_HYBRID
  let totalBitRate := 8 * p.bytesTarget * frameRate
  let f20 := b2i (s.fs = 50 * fi.frameSize)
  let bitRate :=
    if hybrid then computeSilkRateForHybrid totalBitRate s.bandwidth f20 s.useVbr s.lbrrCoded s.streamChannels
    else totalBitRate
  let bitRate := if s.energyMasking ≠ 0 ∧ s.useVbr ≠ 0 ∧ s.lfe = 0 then o.silkBitRateIn else bitRate
  let maxBits := (m - 1) * 8
  let maxBits :=
    if p.redundancy ∧ p.rb ≥ 2 then maxBits - (p.rb * 8 + 1) - (if hybrid then 20 else 0) else maxBits
  if s.useVbr = 0 then
    if hybrid then
      let other := wrap16 (max 0 (maxBits - cdiv (bitRate * fi.frameSize) s.fs))
      (bitRate, max 0 (maxBits - cdiv (other * 3) 4), 0)
    else (bitRate, maxBits, 1)
  else if hybrid then
    let maxBitRate := computeSilkRateForHybrid (cdiv (maxBits * s.fs) fi.frameSize) s.bandwidth f20 s.useVbr
                        s.lbrrCoded s.streamChannels
    (bitRate, cdiv (maxBitRate * fi.frameSize) s.fs, 0)
  else (bitRate, maxBits, 0)

def errRes (s : St) (calls : List Call) (e : Int) : FrameRes :=
  { ret := e, abort := false, toc := 0, payload := 0, hdr := [], dtx := false, st := s, calls }

def abortRes (s : St) (calls : List Call) : FrameRes :=
  { ret := 0, abort := true, toc := 0, payload := 0, hdr := [], dtx := false, st := s, calls }

/-- opus_encoder.c:1929-2133 (SILK processing).  In CELT-only mode nothing happens. -/
def frSilk (fi : FrameIn) (p : Pre) (o : FrameOr) : Step Mid :=
  let s := p.st
  if s.mode = MODE_CELT_ONLY then
    .cont { st := s, redundancy := p.redundancy, celtToSilk := p.celtToSilk, rb := p.rb,
            currBw := s.bandwidth, calls := [] }
  else
    let m := fi.maxDataBytes
    let frameRate := s.fs / fi.frameSize
    let (bitRate, maxBits, useCBR) := silkBudget s fi p o
    -- :2004 celt_assert( st->mode == MODE_HYBRID || curr_bandwidth == OPUS_BANDWIDTH_WIDEBAND )
    if s.bandwidth ≠ BW_NB ∧ s.bandwidth ≠ BW_MB ∧ s.mode ≠ MODE_HYBRID ∧ s.bandwidth ≠ BW_WB then
      .done (abortRes s [])
    else
      let calls : List Call := if p.prefill ≠ 0 then [(1, [p.prefill, bitRate, maxBits, useCBR])] else []
      let s := if p.prefill ≠ 0 then { s with opusCanSwitch := 0 } else s
      let calls := calls ++ [(1, [0, bitRate, maxBits, useCBR])]
      let s := { s with allowBwSwitch := o.allowBw, inWBmode := o.inWB }
      if o.silkRet ≠ 0 then .done (errRes s calls OPUS_INTERNAL_ERROR)          -- :2099
      else
        let currBw :=
          if s.mode = MODE_SILK_ONLY then
            if o.isr = 8000 then BW_NB else if o.isr = 12000 then BW_MB
            else if o.isr = 16000 then BW_WB else s.bandwidth
          else s.bandwidth
        if s.mode ≠ MODE_SILK_ONLY ∧ o.isr ≠ 16000 then .done (abortRes s calls)   -- :2112 celt_assert
        else
          let canSwitch := b2i (o.switchReady ≠ 0 ∧ s.nonfinalFrame = 0)
          let s := { s with opusCanSwitch := canSwitch }
          if o.nBytes = 0 then
            let toc := genToc s.mode (s.fs / fi.frameSize) currBw s.streamChannels
            .done { ret := 1, abort := false, toc, payload := 0, hdr := [toc], dtx := true, st := s, calls }
          else if canSwitch ≠ 0 then
            let rb := computeRedundancyBytes m s.bitrateBps frameRate s.streamChannels
            .cont { st := { s with silkBwSwitch := 1 }, redundancy := rb ≠ 0, celtToSilk := false, rb,
                    currBw, calls }
          else
            .cont { st := s, redundancy := p.redundancy, celtToSilk := p.celtToSilk, rb := p.rb, currBw, calls }

/-- opus_encoder.c:2218-2250: returns `(redundancy, redundancy_bytes, st)`. -/
def frRedSig (fi : FrameIn) (x : Mid) (o : FrameOr) : Bool × Int × St :=
  let s := x.st
  let m := fi.maxDataBytes
  let hybrid := s.mode = MODE_HYBRID
  let (redundancy, rb) :=
    if s.mode ≠ MODE_CELT_ONLY ∧ o.tellA + 17 + (if hybrid then 20 else 0) ≤ 8 * (m - 1) then
      if x.redundancy then
        let maxRed := if hybrid then (m - 1) - (o.tellB + 8 + 3 + 7) / 8 else (m - 1) - (o.tellB + 7) / 8
        (true, min 257 (max 2 (min maxRed x.rb)))
      else (false, x.rb)
    else (false, x.rb)
  if redundancy then (true, rb, s) else (false, 0, { s with silkBwSwitch := 0 })

/-- Locals after :2253-2395. -/
structure Coded where
  ret : Int
  nbCompr : Int
  calls : List Call
  deriving DecidableEq, Repr

/-- opus_encoder.c:2253-2395.  `none` = one of the INTERNAL_ERROR returns (:2299, :2353, :2392). -/
def frCode (s : St) (fi : FrameIn) (redundancy celtToSilk : Bool) (rb : Int) (o : FrameOr)
    : Option Coded × List Call :=
  let m := fi.maxDataBytes
  let hybrid := s.mode = MODE_HYBRID
  -- :2253-2275; `ret` is 0 here (silk_Encode returned 0, or the initial value in CELT-only mode)
  let ret : Int := if s.mode = MODE_SILK_ONLY then (o.tellC + 7) / 8 else 0
  let nb : Int := if s.mode = MODE_SILK_ONLY then ret else (m - 1) - rb
  -- :2289-2303
  let c1 : List Call := if redundancy ∧ celtToSilk then [(2, [1, s.fs / 200, rb])] else []
  if redundancy ∧ celtToSilk ∧ o.celtRed1 < 0 then (none, c1)
  else
    let c2 : List Call :=
      if s.mode ≠ MODE_SILK_ONLY ∧ s.mode ≠ s.prevMode ∧ s.prevMode > 0 then [(2, [2, s.fs / 400, 2])] else []
    let runMain := s.mode ≠ MODE_SILK_ONLY ∧ o.tellD ≤ 8 * nb
    let c3 : List Call := if runMain then [(2, [3, fi.frameSize, nb])] else []
    if runMain ∧ o.celtMain < 0 then (none, c1 ++ c2 ++ c3)
    else
      let ret := if runMain then o.celtMain else ret
      let nb := if runMain ∧ redundancy ∧ celtToSilk ∧ hybrid ∧ nb ≠ ret then ret + rb else nb
      -- :2365-2395
      if redundancy ∧ ¬ celtToSilk then
        let nb := if hybrid then ret else nb
        let c4 : List Call := [(2, [4, s.fs / 400, 2]), (2, [5, s.fs / 200, rb])]
        if o.celtRed2 < 0 then (none, c1 ++ c2 ++ c3 ++ c4)
        else (some { ret, nbCompr := nb, calls := [] }, c1 ++ c2 ++ c3 ++ c4)
      else (some { ret, nbCompr := nb, calls := [] }, c1 ++ c2 ++ c3)

/-- opus_encoder.c:2399-2508. -/
def frFinish (s : St) (fi : FrameIn) (redundancy : Bool) (rb currBw ret : Int) (o : FrameOr)
    (calls : List Call) : FrameRes :=
  let m := fi.maxDataBytes
  let toc := genToc s.mode (s.fs / fi.frameSize) currBw s.streamChannels
  let s := { s with prevMode := (if fi.toCelt then MODE_CELT_ONLY else s.mode),
                    prevChannels := s.streamChannels, prevFramesize := fi.frameSize, first := 0 }
  -- DTX decision (:2416-2427)
  let dtx := if s.useDtx ≠ 0 ∧ (o.aValid ≠ 0 ∨ fi.isSilence ≠ 0)
             then decideDtxMode o.activity s.nbNoActivity (cdiv (2 * 1000 * fi.frameSize) s.fs)
             else (0, 0)
  let s := { s with nbNoActivity := dtx.2 }
  if dtx.1 ≠ 0 then { ret := 1, abort := false, toc, payload := 0, hdr := [toc], dtx := true, st := s, calls }
  else if o.tellE > (m - 1) * 8 ∧ m < 2 then errRes s calls OPUS_BUFFER_TOO_SMALL      -- :2437
  else
    let ret :=
      if o.tellE > (m - 1) * 8 then 1
      else if s.mode = MODE_SILK_ONLY ∧ ¬ redundancy then
        (if ret > 2 then max 2 (min ret o.stripTo) else ret)                            -- :2450
      else ret
    let ret := ret + 1 + rb
    if s.useVbr = 0 then
      let pr := padSpec toc [(ret - 1).toNat] ret m
      let calls := calls ++ [(3, [ret, m, pr.1])]
      if pr.1 ≠ OPUS_OK then errRes s calls OPUS_INTERNAL_ERROR                          -- :2503
      else { ret := m, abort := false, toc, payload := ret - 1,
             hdr := (match pr.2 with | some r => r.hdr | none => [toc]), dtx := false, st := s, calls }
    else { ret, abort := false, toc, payload := ret - 1, hdr := [toc], dtx := false, st := s, calls }

/-- `opus_encode_frame_native` (opus_encoder.c:1763-2509). -/
def frameNative (s : St) (fi : FrameIn) (o : FrameOr) : FrameRes :=
  let p := frPre s fi
  match frSilk fi p o with
  | .done r => r
  | .cont x =>
    let (redundancy, rb, s) := frRedSig fi x o
    match frCode s fi redundancy x.celtToSilk rb o with
    | (none, cs) => errRes s (x.calls ++ cs) OPUS_INTERNAL_ERROR
    | (some c, cs) => frFinish s fi redundancy rb x.currBw c.ret o (x.calls ++ cs)

/-! ### Contracts on the oracle values

  `frameOk s fi o` says that every oracle value *consulted* on the path `frameNative s fi o`
  takes satisfies the contract of the inner function it comes from:

  * silk_Encode (coding call) returns 0, `0 ≤ nBytes`, and in hybrid mode reports an internal
    rate of 16 kHz (it is called with min = max = 16000);
  * `ec_tell ≥ 1`; coding `bit_logp(·,12)` / `bit_logp(·,1)` raises `ec_tell` by at most 12 / 1
    (tell B vs. tell A); no range-coder operation happens between the readings B, C and E in
    SILK-only mode (`ec_enc_done` leaves `nbits_total` and `rng` alone), so they are equal;
  * celt_encode_with_ec called with `nbCompressedBytes ≥ 2` and a legal frame size returns a
    value in `0..nbCompressedBytes` (it never grows the packet, and reports no coder error).
  The harness records these values from the real functions, so the tie monitors the contract on
  every call (`ok=1` in the `O` line). -/

def silkOk (s : St) (o : FrameOr) : Bool :=
  decide (s.mode = MODE_CELT_ONLY ∨ (o.silkRet = 0 ∧ 0 ≤ o.nBytes ∧ (s.mode = MODE_HYBRID → o.isr = 16000)))

/-- Is the reading B (`:2231/:2234`) taken? -/
def readsB (mode m : Int) (xred : Bool) (o : FrameOr) : Bool :=
  decide (mode ≠ MODE_CELT_ONLY ∧ o.tellA + 17 + (if mode = MODE_HYBRID then 20 else 0) ≤ 8 * (m - 1)) && xred

def tellsOk (mode m : Int) (xred : Bool) (o : FrameOr) : Bool :=
  decide (mode = MODE_CELT_ONLY) ||
  (decide (1 ≤ o.tellA) &&
   (!(readsB mode m xred o) ||
      decide (o.tellA ≤ o.tellB ∧ o.tellB ≤ o.tellA + (if mode = MODE_HYBRID then 13 else 1))) &&
   (decide (mode ≠ MODE_SILK_ONLY) ||
      decide (o.tellC = (if readsB mode m xred o then o.tellB else o.tellA) ∧ o.tellE = o.tellC)))

def celtOk (s : St) (fi : FrameIn) (redundancy celtToSilk : Bool) (rb : Int) (o : FrameOr) : Bool :=
  let nb : Int := if s.mode = MODE_SILK_ONLY then (o.tellC + 7) / 8 else (fi.maxDataBytes - 1) - rb
  let runMain := s.mode ≠ MODE_SILK_ONLY ∧ o.tellD ≤ 8 * nb
  decide ((redundancy ∧ celtToSilk ∧ rb ≥ 2 → 0 ≤ o.celtRed1) ∧
          (runMain ∧ nb ≥ 2 → 0 ≤ o.celtMain ∧ o.celtMain ≤ nb) ∧
          (redundancy ∧ ¬ celtToSilk ∧ rb ≥ 2 → 0 ≤ o.celtRed2))

/-- The contract along the path of `frameNative s fi o`. -/
def frameOk (s : St) (fi : FrameIn) (o : FrameOr) : Bool :=
  let p := frPre s fi
  silkOk p.st o &&
  (match frSilk fi p o with
   | .done _ => true
   | .cont x =>
     tellsOk p.st.mode fi.maxDataBytes x.redundancy o &&
     (let r := frRedSig fi x o
      celtOk r.2.2 fi r.1 x.celtToSilk r.2.1 o))

end Opus.EncSkel
