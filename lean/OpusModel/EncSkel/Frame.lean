import OpusModel.EncSkel.Basic
import OpusModel.EncSkel.Repack
/-
  OpusModel.EncSkel.Frame — byte accounting of `opus_encode_frame_native`
  (src/opus_encoder.c:1763-2509), one small function per block:

    * `frPre`      :1829-1852  silk_bw_switch, redundancy_bytes, bytes_target
    * `frSilk`     :1931-2133  SILK rate / maxBits, the silk_Encode call(s), DTX return, opusCanSwitch
    * `frRedSig`   :2218-2250  redundancy signalling and the final redundancy_bytes
    * `frCode`     :2253-2395  nb_compr_bytes, the CELT calls (redundant 5 ms frames, prefill, main)
    * `frFinish`   :2399-2508  TOC, state update, DTX decision, "busted" PLC frame, trailing-zero
                               strip, ToC/redundancy count, CBR padding

  The DSP is an oracle (`FrameOr`): the SILK outputs, the five `ec_tell` readings in call order,
  the CELT return values, the resolved VAD `activity` and the result of the trailing-zero scan.
  Contracts on these values are stated in OpusProofs/EncSkelContracts.lean and asserted at run
  time by the wrapping harness (harness/c05_encsize.c).
-/
namespace Opus.EncSkel
open Opus Opus.EncDecide

/-- Oracle values of one `opus_encode_frame_native` call, in the order the code obtains them. -/
structure FrameOr where
  aValid : Int        -- analysis_info->valid for this (sub)frame
  activity : Int      -- `activity` after :1813-1827 (VAD_NO_DECISION = -1, 0, 1)
  silkBitRateIn : Int -- silk_mode.bitRate as passed to silk_Encode (used only with energy masking)
  silkRet : Int       -- return value of the coding silk_Encode call
  nBytes : Int        -- *nBytesOut
  isr : Int           -- silk_mode.internalSampleRate after the call
  switchReady : Int   -- silk_mode.switchReady
  allowBw : Int       -- silk_mode.allowBandwidthSwitch
  inWB : Int          -- silk_mode.inWBmodeWithoutVariableLP
  tellA : Int         -- ec_tell at :2218
  tellB : Int         -- ec_tell at :2231 / :2234
  tellC : Int         -- ec_tell at :2255
  tellD : Int         -- ec_tell at :2347
  tellE : Int         -- ec_tell at :2432
  stripTo : Int       -- value of `ret` after `while(ret>2&&data[ret]==0)ret--` (:2450)
  celtRed1 : Int      -- celt_encode_with_ec at :2295 (CELT->SILK redundancy)
  celtMain : Int      -- celt_encode_with_ec at :2349
  celtRed2 : Int      -- celt_encode_with_ec at :2390 (SILK->CELT redundancy)
  used1 : Int         -- enc.offs+enc.end_offs at ec_enc_shrink(&enc, nb_compr_bytes) (:2276)
  used2 : Int         -- enc.offs+enc.end_offs at ec_enc_shrink(&enc, ret) (:2385, hybrid SILK->CELT)
  deriving DecidableEq, Repr, Inhabited

/-- A recorded inner call (for the tie): tag and integer arguments.
    1 silk_Encode(prefill, bitRate, maxBits, useCBR) · 2 celt_encode_with_ec(site, frame, nbytes)
    3 opus_packet_pad(len, new_len, ret) · 4 repacketizer_cat(len, ret) · 5 out_range_impl(maxlen, pad, ret)
    6 ec_enc_shrink(size, offs+end_offs) -/
abbrev Call := Nat × List Int

/-- Arguments of `opus_encode_frame_native` that matter here. -/
structure FrameIn where
  frameSize : Int
  maxDataBytes : Int
  isSilence : Int
  redundancy : Bool
  celtToSilk : Bool
  prefill : Int
  equivRate : Int
  toCelt : Bool
  deriving DecidableEq, Repr

/-- Result of one `opus_encode_frame_native` call. -/
structure FrameRes where
  ret : Int            -- C return value (negative: error code)
  abort : Bool         -- a `celt_assert` of the function fires
  toc : Nat            -- data[0] when ret ≥ 1
  payload : Int        -- frame payload length (bytes after the ToC, before padding) when ret ≥ 1
  hdr : Bytes          -- bytes before the frame payload in the emitted packet when ret ≥ 1
  dtx : Bool           -- the call took one of the two DTX returns (:2122, :2423)
  st : St
  calls : List Call
  deriving DecidableEq, Repr

inductive Step (α : Type) where
  | done : FrameRes → Step α
  | cont : α → Step α

def wrap16 (x : Int) : Int := (x + 32768) % 65536 - 32768

/-- Locals after :1829-1852. -/
structure Pre where
  st : St
  redundancy : Bool
  celtToSilk : Bool
  prefill : Int
  rb : Int             -- redundancy_bytes
  bytesTarget : Int
  deriving DecidableEq, Repr

/-- opus_encoder.c:1829-1852. -/
def frPre (s : St) (fi : FrameIn) : Pre :=
  let frameRate := s.fs / fi.frameSize
  let sw := s.silkBwSwitch ≠ 0
  let redundancy := if sw then true else fi.redundancy
  let celtToSilk := if sw then true else fi.celtToSilk
  let prefill := if sw then 2 else fi.prefill
  let s := if sw then { s with silkBwSwitch := 0 } else s
  let redundancy := if s.mode = MODE_CELT_ONLY then false else redundancy
  let rb := if redundancy then computeRedundancyBytes fi.maxDataBytes s.bitrateBps frameRate s.streamChannels else 0
  let redundancy := redundancy && rb ≠ 0
  let bytesTarget := min (fi.maxDataBytes - rb) (cdiv (s.bitrateBps * fi.frameSize) (s.fs * 8)) - 1
  { st := s, redundancy, celtToSilk, prefill, rb, bytesTarget }

/-- Locals after the SILK block (:1931-2133). -/
structure Mid where
  st : St
  redundancy : Bool
  celtToSilk : Bool
  rb : Int
  currBw : Int
  calls : List Call
  deriving DecidableEq, Repr

/-- `st->silk_mode.bitRate` and `maxBits`, `useCBR` handed to silk_Encode (:1937-2071). -/
def silkBudget (s : St) (fi : FrameIn) (p : Pre) (o : FrameOr) : Int × Int × Int :=
  let m := fi.maxDataBytes
  let frameRate := s.fs / fi.frameSize
  let hybrid := s.mode = MODE_HYBRID
  let totalBitRate := 8 * p.bytesTarget * frameRate
  let f20 := b2i (s.fs = 50 * fi.frameSize)
  let bitRate :=
    if hybrid then computeSilkRateForHybrid totalBitRate s.bandwidth f20 s.useVbr s.lbrrCoded s.streamChannels
    else totalBitRate
  let bitRate := if s.energyMasking ≠ 0 ∧ s.useVbr ≠ 0 ∧ s.lfe = 0 then o.silkBitRateIn else bitRate
  let maxBits := (m - 1) * 8
  let maxBits :=
    if p.redundancy ∧ p.rb ≥ 2 then maxBits - (p.rb * 8 + 1) - (if hybrid then 20 else 0) else maxBits
  if s.useVbr = 0 then
    if hybrid then
      let other := wrap16 (max 0 (maxBits - cdiv (bitRate * fi.frameSize) s.fs))
      (bitRate, max 0 (maxBits - cdiv (other * 3) 4), 0)
    else (bitRate, maxBits, 1)
  else if hybrid then
    let maxBitRate := computeSilkRateForHybrid (cdiv (maxBits * s.fs) fi.frameSize) s.bandwidth f20 s.useVbr
                        s.lbrrCoded s.streamChannels
    (bitRate, cdiv (maxBitRate * fi.frameSize) s.fs, 0)
  else (bitRate, maxBits, 0)

def errRes (s : St) (calls : List Call) (e : Int) : FrameRes :=
  { ret := e, abort := false, toc := 0, payload := 0, hdr := [], dtx := false, st := s, calls }

def abortRes (s : St) (calls : List Call) : FrameRes :=
  { ret := 0, abort := true, toc := 0, payload := 0, hdr := [], dtx := false, st := s, calls }

/-- The recorded silk_Encode calls (:2075-2096): an optional prefill call, then the coding call. -/
def silkCalls (p : Pre) (sb : Int × Int × Int) : List Call :=
  (if p.prefill ≠ 0 then [(1, [p.prefill, sb.1, sb.2.1, sb.2.2])] else []) ++ [(1, [0, sb.1, sb.2.1, sb.2.2])]

/-- State after the silk_Encode calls: the prefill clears `opusCanSwitch` (:2092); the coding call
    writes `allowBandwidthSwitch` and `inWBmodeWithoutVariableLP`. -/
def silkSt (p : Pre) (o : FrameOr) : St :=
  { p.st with opusCanSwitch := (if p.prefill ≠ 0 then 0 else p.st.opusCanSwitch),
              allowBwSwitch := o.allowBw, inWBmode := o.inWB }

/-- `curr_bandwidth` after :2104-2115. -/
def silkCurrBw (s : St) (o : FrameOr) : Int :=
  if s.mode = MODE_SILK_ONLY then
    if o.isr = 8000 then BW_NB else if o.isr = 12000 then BW_MB
    else if o.isr = 16000 then BW_WB else s.bandwidth
  else s.bandwidth

/-- `st->silk_mode.opusCanSwitch` (:2117). -/
def canSwitch (s : St) (o : FrameOr) : Int := b2i (o.switchReady ≠ 0 ∧ s.nonfinalFrame = 0)

/-- State after :2117. -/
def silkSt2 (p : Pre) (o : FrameOr) : St := { (silkSt p o) with opusCanSwitch := canSwitch p.st o }

/-- The SILK DTX return (:2119-2125). -/
def silkDtxRes (fi : FrameIn) (p : Pre) (o : FrameOr) (calls : List Call) : FrameRes :=
  { ret := 1, abort := false,
    toc := genToc p.st.mode (p.st.fs / fi.frameSize) (silkCurrBw p.st o) p.st.streamChannels, payload := 0,
    hdr := [genToc p.st.mode (p.st.fs / fi.frameSize) (silkCurrBw p.st o) p.st.streamChannels],
    -- :2134-2136 (fix 88264869): SILK has consumed the frame with this many channels
    dtx := true, st := { (silkSt2 p o) with prevChannels := p.st.streamChannels }, calls }

/-- opus_encoder.c:1931-2135 (SILK processing).  In CELT-only mode nothing happens. -/
def frSilk (fi : FrameIn) (p : Pre) (o : FrameOr) : Step Mid :=
  if p.st.mode = MODE_CELT_ONLY then
    .cont { st := p.st, redundancy := p.redundancy, celtToSilk := p.celtToSilk, rb := p.rb,
            currBw := p.st.bandwidth, calls := [] }
  -- :2006 celt_assert( st->mode == MODE_HYBRID || curr_bandwidth == OPUS_BANDWIDTH_WIDEBAND )
  else if p.st.bandwidth ≠ BW_NB ∧ p.st.bandwidth ≠ BW_MB ∧ p.st.mode ≠ MODE_HYBRID ∧ p.st.bandwidth ≠ BW_WB then
    .done (abortRes p.st [])
  else if o.silkRet ≠ 0 then
    .done (errRes (silkSt p o) (silkCalls p (silkBudget p.st fi p o)) OPUS_INTERNAL_ERROR)          -- :2101
  else if p.st.mode ≠ MODE_SILK_ONLY ∧ o.isr ≠ 16000 then
    .done (abortRes (silkSt p o) (silkCalls p (silkBudget p.st fi p o)))                          -- :2114 celt_assert
  else if o.nBytes = 0 then .done (silkDtxRes fi p o (silkCalls p (silkBudget p.st fi p o)))
  else if canSwitch p.st o ≠ 0 then
    .cont { st := { (silkSt2 p o) with silkBwSwitch := 1 },
            redundancy := computeRedundancyBytes fi.maxDataBytes p.st.bitrateBps (p.st.fs / fi.frameSize)
                            p.st.streamChannels ≠ 0,
            celtToSilk := false,
            rb := computeRedundancyBytes fi.maxDataBytes p.st.bitrateBps (p.st.fs / fi.frameSize) p.st.streamChannels,
            currBw := silkCurrBw p.st o, calls := silkCalls p (silkBudget p.st fi p o) }
  else
    .cont { st := silkSt2 p o, redundancy := p.redundancy, celtToSilk := p.celtToSilk, rb := p.rb,
            currBw := silkCurrBw p.st o, calls := silkCalls p (silkBudget p.st fi p o) }

/-- Condition of :2220. -/
def redGate (mode m : Int) (o : FrameOr) : Bool :=
  decide (mode ≠ MODE_CELT_ONLY ∧ o.tellA + 17 + (if mode = MODE_HYBRID then 20 else 0) ≤ 8 * (m - 1))

/-- Is the reading B (`:2233/:2236`) taken? -/
def readsB (mode m : Int) (xred : Bool) (o : FrameOr) : Bool := redGate mode m o && xred

/-- opus_encoder.c:2220-2252: returns `(redundancy, redundancy_bytes, st)`. -/
def frRedSig (fi : FrameIn) (x : Mid) (o : FrameOr) : Bool × Int × St :=
  let s := x.st
  let m := fi.maxDataBytes
  if readsB s.mode m x.redundancy o then
    let maxRed := if s.mode = MODE_HYBRID then (m - 1) - (o.tellB + 8 + 3 + 7) / 8 else (m - 1) - (o.tellB + 7) / 8
    (true, min 257 (max 2 (min maxRed x.rb)), s)
  else (false, 0, { s with silkBwSwitch := 0 })

/-- Locals after :2253-2397. -/
structure Coded where
  ret : Int
  nbCompr : Int
  deriving DecidableEq, Repr

/-- Outcome of the coding block: locals, one of the INTERNAL_ERROR returns (:2301, :2355, :2394),
    or the `celt_assert(offs+end_offs<=size)` of `ec_enc_shrink` (celt/entenc.c) firing. -/
inductive CodeRes where
  | ok : Coded → CodeRes
  | ierr : CodeRes
  | abort : CodeRes
  deriving DecidableEq, Repr

/-- `nb_compr_bytes` as first assigned (:2255-2277); `ret` is 0 before (silk_Encode returned 0, or
    the initial value in CELT-only mode). -/
def nbCompr0 (s : St) (fi : FrameIn) (rb : Int) (o : FrameOr) : Int :=
  if s.mode = MODE_SILK_ONLY then (o.tellC + 7) / 8 else (fi.maxDataBytes - 1) - rb

/-- Is the main CELT call made (:2309, :2349)? -/
def runMain (s : St) (fi : FrameIn) (rb : Int) (o : FrameOr) : Bool :=
  decide (s.mode ≠ MODE_SILK_ONLY ∧ o.tellD ≤ 8 * nbCompr0 s fi rb o)

/-- opus_encoder.c:2253-2397. -/
def frCode (s : St) (fi : FrameIn) (redundancy celtToSilk : Bool) (rb : Int) (o : FrameOr)
    : CodeRes × List Call :=
  let hybrid := s.mode = MODE_HYBRID
  let ret : Int := if s.mode = MODE_SILK_ONLY then (o.tellC + 7) / 8 else 0
  let nb : Int := nbCompr0 s fi rb o
  -- :2276 ec_enc_shrink(&enc, nb_compr_bytes)
  let c0 : List Call := if s.mode ≠ MODE_SILK_ONLY then [(6, [nb, o.used1])] else []
  if s.mode ≠ MODE_SILK_ONLY ∧ o.used1 > nb then (.abort, c0)
  else
  -- :2291-2305
  let c1 : List Call := c0 ++ (if redundancy ∧ celtToSilk then [(2, [1, s.fs / 200, rb])] else [])
  if redundancy ∧ celtToSilk ∧ o.celtRed1 < 0 then (.ierr, c1)
  else
    let c2 : List Call :=
      if s.mode ≠ MODE_SILK_ONLY ∧ s.mode ≠ s.prevMode ∧ s.prevMode > 0 then [(2, [2, s.fs / 400, 2])] else []
    let run : Bool := runMain s fi rb o
    let c3 : List Call := if run then [(2, [3, fi.frameSize, nb])] else []
    if run ∧ o.celtMain < 0 then (.ierr, c1 ++ c2 ++ c3)
    else
      let ret := if run then o.celtMain else ret
      let nb := if run ∧ redundancy ∧ celtToSilk ∧ hybrid ∧ nb ≠ ret then ret + rb else nb
      -- :2367-2397
      if redundancy ∧ ¬ celtToSilk then
        -- :2385 ec_enc_shrink(&enc, ret) in hybrid mode
        let c3 := c3 ++ (if hybrid then [(6, [ret, o.used2])] else [])
        if hybrid ∧ o.used2 > ret then (.abort, c1 ++ c2 ++ c3)
        else
        let nb := if hybrid then ret else nb
        let c4 : List Call := [(2, [4, s.fs / 400, 2]), (2, [5, s.fs / 200, rb])]
        if o.celtRed2 < 0 then (.ierr, c1 ++ c2 ++ c3 ++ c4)
        else (.ok { ret, nbCompr := nb }, c1 ++ c2 ++ c3 ++ c4)
      else (.ok { ret, nbCompr := nb }, c1 ++ c2 ++ c3)

/-- DTX decision (:2432-2446): `(dtx, nb_no_activity_ms_Q1)`.  Since fix c3b80a4d the test follows the
    detector chosen for the call at :1388-1399 (`silk_mode.useDTX`), not the per-sub-frame analysis. -/
def dtxDecision (s : St) (fi : FrameIn) (o : FrameOr) : Int × Int :=
  if s.useDtx ≠ 0 ∧ s.silkUseDtx = 0
  then decideDtxMode o.activity s.nbNoActivity (cdiv (2 * 1000 * fi.frameSize) s.fs)
  else (0, 0)

/-- State after :2405-2430: `prev_*`, `first`, and the DTX counter. -/
def finishSt (s : St) (fi : FrameIn) (o : FrameOr) : St :=
  { s with prevMode := (if fi.toCelt then MODE_CELT_ONLY else s.mode),
           prevChannels := s.streamChannels, prevFramesize := fi.frameSize, first := 0,
           nbNoActivity := (dtxDecision s fi o).2 }

/-- `ret` after :2434-2455 (before padding): a "busted" frame becomes one zero byte, trailing
    zeros of a SILK-only frame are stripped, then the ToC and the redundancy are counted. -/
def finishRet (s : St) (fi : FrameIn) (redundancy : Bool) (rb ret : Int) (o : FrameOr) : Int :=
  (if o.tellE > (fi.maxDataBytes - 1) * 8 then 1
   else if s.mode = MODE_SILK_ONLY ∧ ¬ redundancy then (if ret > 2 then max 2 (min ret o.stripTo) else ret)
   else ret) + 1 + rb

/-- opus_encoder.c:2401-2510. -/
def frFinish (s : St) (fi : FrameIn) (redundancy : Bool) (rb currBw ret : Int) (o : FrameOr)
    (calls : List Call) : FrameRes :=
  let toc := genToc s.mode (s.fs / fi.frameSize) currBw s.streamChannels
  let m := fi.maxDataBytes
  let r := finishRet s fi redundancy rb ret o
  if (dtxDecision s fi o).1 ≠ 0 then
    { ret := 1, abort := false, toc, payload := 0, hdr := [toc], dtx := true, st := finishSt s fi o, calls }
  else if o.tellE > (m - 1) * 8 ∧ m < 2 then errRes (finishSt s fi o) calls OPUS_BUFFER_TOO_SMALL      -- :2439
  else if s.useVbr = 0 then
    if (padSpec toc [(r - 1).toNat] r m).1 ≠ OPUS_OK then
      errRes (finishSt s fi o) (calls ++ [(3, [r, m, (padSpec toc [(r - 1).toNat] r m).1])]) OPUS_INTERNAL_ERROR  -- :2505
    else { ret := m, abort := false, toc, payload := r - 1,
           hdr := (match (padSpec toc [(r - 1).toNat] r m).2 with | some q => q.hdr | none => [toc]),
           dtx := false, st := finishSt s fi o,
           calls := calls ++ [(3, [r, m, (padSpec toc [(r - 1).toNat] r m).1])] }
  else { ret := r, abort := false, toc, payload := r - 1, hdr := [toc], dtx := false, st := finishSt s fi o, calls }

/-- `opus_encode_frame_native` (opus_encoder.c:1765-2511). -/
def frameNative (s : St) (fi : FrameIn) (o : FrameOr) : FrameRes :=
  let p := frPre s fi
  match frSilk fi p o with
  | .done r => r
  | .cont x =>
    let (redundancy, rb, s) := frRedSig fi x o
    match frCode s fi redundancy x.celtToSilk rb o with
    | (.abort, cs) => abortRes s (x.calls ++ cs)
    | (.ierr, cs) => errRes s (x.calls ++ cs) OPUS_INTERNAL_ERROR
    | (.ok c, cs) => frFinish s fi redundancy rb x.currBw c.ret o (x.calls ++ cs)

/-! ### Contracts on the oracle values

  `frameOk s fi o` says that every oracle value *consulted* on the path `frameNative s fi o`
  takes satisfies the contract of the inner function it comes from:

  * silk_Encode (coding call) returns 0, `0 ≤ nBytes`, and in hybrid mode reports an internal
    rate of 16 kHz (it is called with min = max = 16000);
  * range coder: `ec_tell ≥ 1`, and exactly 1 on a fresh encoder (CELT-only mode); coding
    `bit_logp(·,12)` / `bit_logp(·,1)` / `uint(·,256)` raises `ec_tell` by at most 12 / 1 / 8;
    `ec_enc_done` leaves `nbits_total` and `rng` alone, so with no coding operation in between
    two readings are equal (B, C, E in SILK-only mode);  `8·(offs+end_offs)+1 ≤ ec_tell` and
    `offs+end_offs ≤ storage` at any time;
  * celt_encode_with_ec called with `2 ≤ nbCompressedBytes` and a legal frame size returns a
    value in `0..nbCompressedBytes` (it never grows the packet and reports no coder error), and
    the encoder it finished (`ec_enc_shrink` to the returned size, `ec_enc_done`, no error) holds
    at most that many bytes; called with fewer than 2 bytes it returns OPUS_BAD_ARG (< 0); with VBR off
    (`OPUS_SET_VBR(0)`, bit-rate OPUS_BITRATE_MAX: opus_encoder.c:2176, :2327) it returns exactly
    `nbCompressedBytes`.
  The harness records these values from the real functions, so the tie monitors the contract on
  every call (`ok=1` in the `O` line). -/

def silkOk (s : St) (o : FrameOr) : Bool :=
  decide (s.mode = MODE_CELT_ONLY ∨ (o.silkRet = 0 ∧ 0 ≤ o.nBytes ∧ (s.mode = MODE_HYBRID → o.isr = 16000)))

def tellsOk (mode m : Int) (xred : Bool) (o : FrameOr) : Bool :=
  if mode = MODE_CELT_ONLY then decide (o.tellD = 1)
  else
    decide (1 ≤ o.tellA) &&
    (!(readsB mode m xred o) ||
       decide (o.tellA ≤ o.tellB ∧ o.tellB ≤ o.tellA + (if mode = MODE_HYBRID then 13 else 1))) &&
    (if mode = MODE_SILK_ONLY then decide (o.tellC = (if readsB mode m xred o then o.tellB else o.tellA))
     else decide (o.tellD ≤ (if readsB mode m xred o then o.tellB + 8
                              else if redGate mode m o then o.tellA + 1 else o.tellA)))

/-- Contracts of the range-coder occupancy readings and the CELT calls. -/
def coderOk (s : St) (fi : FrameIn) (redundancy celtToSilk : Bool) (rb : Int) (o : FrameOr) : Bool :=
  let nb : Int := nbCompr0 s fi rb o
  let run : Bool := runMain s fi rb o
  decide (s.mode ≠ MODE_SILK_ONLY → 0 ≤ o.used1 ∧ o.used1 ≤ fi.maxDataBytes - 1 ∧ 8 * o.used1 + 1 ≤ o.tellD) &&
  decide (redundancy ∧ celtToSilk → (rb ≥ 2 → 0 ≤ o.celtRed1) ∧ (rb < 2 → o.celtRed1 < 0)) &&
  decide (run → (nb ≥ 2 → 0 ≤ o.celtMain ∧ o.celtMain ≤ nb) ∧ (nb < 2 → o.celtMain < 0)) &&
  decide (redundancy ∧ ¬ celtToSilk → s.mode = MODE_HYBRID → (run → o.used2 ≤ o.celtMain) ∧ (¬ run → o.used2 = o.used1)) &&
  decide (redundancy ∧ ¬ celtToSilk → (rb ≥ 2 → 0 ≤ o.celtRed2) ∧ (rb < 2 → o.celtRed2 < 0)) &&
  -- with VBR off the main CELT call runs in CBR with OPUS_BITRATE_MAX (:2176, :2327) and returns exactly its budget
  decide (run → s.useVbr = 0 → nb ≥ 2 → o.celtMain = nb)

/-- Contract of the last reading (:2434), consulted unless the DTX return (:2425) is taken. -/
def finishOk (s : St) (fi : FrameIn) (o : FrameOr) : Bool :=
  decide (s.mode = MODE_SILK_ONLY → (dtxDecision s fi o).1 ≠ 0 ∨ o.tellE = o.tellC)

/-- The contract along the path of `frameNative s fi o`. -/
def frameOk (s : St) (fi : FrameIn) (o : FrameOr) : Bool :=
  let p := frPre s fi
  silkOk p.st o &&
  (match frSilk fi p o with
   | .done _ => true
   | .cont x =>
     tellsOk p.st.mode fi.maxDataBytes x.redundancy o &&
     (let r := frRedSig fi x o
      coderOk r.2.2 fi r.1 x.celtToSilk r.2.1 o && finishOk r.2.2 fi o))

end Opus.EncSkel
