import OpusModel.EncSkel.Native
/-
  OpusModel.EncSkel.MsRate — the integer bit-rate allocation of the multistream encoder
  (src/opus_multistream_encoder.c:668-798: `surround_rate_allocation`, `ambisonics_rate_allocation`,
  `rate_allocation`), transcribed expression by expression over unbounded `Int`.

  C `/` on `int` truncates toward zero (`Int.tdiv`); `>>8` on a negative `int` is an arithmetic shift
  (floor, `/ 256` on `Int`).  Whether every intermediate value of the C evaluation fits `opus_int32`
  (so that the unbounded model IS the C evaluation) is the separate predicate `msFits`.

  Inputs: `Fs`, the frame size picked by `frame_size_select`, the layout (`nb_streams`,
  `nb_coupled_streams`, `lfe_stream`, whether `mapping_type == MAPPING_TYPE_AMBISONICS`), and
  `st->bitrate_bps` (OPUS_AUTO, OPUS_BITRATE_MAX or the value stored by
  `opus_multistream_encoder_ctl(OPUS_SET_BITRATE)`, :1121-1131, `msCtlBitrate`).
-/
namespace Opus.EncSkel
open Opus Opus.EncDecide

/-- Layout fields read by the rate allocation. -/
structure MsLayout where
  nbStreams : Int
  nbCoupled : Int
  lfeStream : Int       -- st->lfe_stream, -1 if none
  ambisonics : Bool     -- st->mapping_type == MAPPING_TYPE_AMBISONICS
  deriving Repr, DecidableEq

/-- `opus_multistream_encoder_ctl(OPUS_SET_BITRATE)` (:1121-1131): `none` = OPUS_BAD_ARG. -/
def msCtlBitrate (nbChannels value : Int) : Option Int :=
  if value ≠ OPUS_AUTO ∧ value ≠ OPUS_BITRATE_MAX then
    if value ≤ 0 then none else some (min (300000 * nbChannels) (max (500 * nbChannels) value))
  else some value

/-- Locals of `surround_rate_allocation` (:689-724). -/
structure SurVals where
  nbLfe : Int
  nbUncoupled : Int
  nbNormal : Int
  channelOffset : Int
  bitrate : Int
  lfeOffset : Int
  streamOffset0 : Int   -- :713, before the clamp
  streamOffset : Int
  total : Int
  num : Int             -- the opus_int32 expression inside the 64-bit cast of :724
  channelRate : Int
  deriving Repr

def msNbLfe (l : MsLayout) : Int := if l.lfeStream ≠ -1 then 1 else 0

def msSurBitrate (l : MsLayout) (fs channelOffset bitrateBps : Int) : Int :=
  let nbLfe := msNbLfe l
  let nbNormal := 2 * l.nbCoupled + (l.nbStreams - l.nbCoupled - nbLfe)
  if bitrateBps = OPUS_AUTO then nbNormal * (channelOffset + fs + 10000) + 8000 * nbLfe
  else if bitrateBps = OPUS_BITRATE_MAX then nbNormal * 300000 + nbLfe * 128000
  else bitrateBps

def msSurVals (l : MsLayout) (fs fsz bitrateBps : Int) : SurVals :=
  let nbLfe := msNbLfe l
  let nbCoupled := l.nbCoupled
  let nbUncoupled := l.nbStreams - nbCoupled - nbLfe
  let nbNormal := 2 * nbCoupled + nbUncoupled
  let channelOffset := 40 * max 50 (fs / fsz)
  let bitrate := msSurBitrate l fs channelOffset bitrateBps
  let lfeOffset := min (Int.tdiv bitrate 20) 3000 + 15 * max 50 (fs / fsz)
  let so0 := Int.tdiv (Int.tdiv (bitrate - channelOffset * nbNormal - lfeOffset * nbLfe) nbNormal) 2
  let so := max 0 (min 20000 so0)
  let total := nbUncoupled * 256 + 512 * nbCoupled + nbLfe * 32
  let num := bitrate - lfeOffset * nbLfe - so * (nbCoupled + nbUncoupled) - channelOffset * nbNormal
  { nbLfe, nbUncoupled, nbNormal, channelOffset, bitrate, lfeOffset, streamOffset0 := so0, streamOffset := so, total,
    num, channelRate := Int.tdiv (256 * num) total }

/-- `rate[i]` as left by `surround_rate_allocation` (:726-734). -/
def msSurRate (l : MsLayout) (v : SurVals) (i : Int) : Int :=
  if i < l.nbCoupled then 2 * v.channelOffset + max 0 (v.streamOffset + v.channelRate * 512 / 256)
  else if i ≠ l.lfeStream then v.channelOffset + max 0 (v.streamOffset + v.channelRate)
  else max 0 (v.lfeOffset + v.channelRate * 32 / 256)

/-- `total_rate` of `ambisonics_rate_allocation` (:750-760). -/
def msAmbiTotal (l : MsLayout) (fs fsz bitrateBps : Int) : Int :=
  if bitrateBps = OPUS_AUTO then
    (l.nbCoupled + l.nbStreams) * (fs + 60 * fs / fsz) + l.nbStreams * 15000
  else if bitrateBps = OPUS_BITRATE_MAX then (l.nbStreams + l.nbCoupled) * 320000
  else bitrateBps

/-- `rate[i]` before the floor of :794. -/
def msRateRaw (l : MsLayout) (fs fsz bitrateBps i : Int) : Int :=
  if l.ambisonics then Int.tdiv (msAmbiTotal l fs fsz bitrateBps) l.nbStreams
  else msSurRate l (msSurVals l fs fsz bitrateBps) i

/-- `bitrates[i]` after `rate_allocation` (:794). -/
def msRate (l : MsLayout) (fs fsz bitrateBps i : Int) : Int := max (msRateRaw l fs fsz bitrateBps i) 500

/-- `rate_sum` over the first `k` streams (the loop of :792-796). -/
def msRateSumTo (l : MsLayout) (fs fsz bitrateBps : Int) : Nat → Int
  | 0 => 0
  | k + 1 => msRateSumTo l fs fsz bitrateBps k + msRate l fs fsz bitrateBps k

/-- Return value of `rate_allocation`. -/
def msRateSum (l : MsLayout) (fs fsz bitrateBps : Int) : Int := msRateSumTo l fs fsz bitrateBps l.nbStreams.toNat

def msRates (l : MsLayout) (fs fsz bitrateBps : Int) : List Int :=
  (List.range l.nbStreams.toNat).map fun (i : Nat) => msRate l fs fsz bitrateBps (i : Int)

/-- What stream `i`'s encoder stores on `OPUS_SET_BITRATE(bitrates[i])` (src/opus_encoder.c, OPUS_SET_BITRATE_REQUEST:
    `value <= 0` is refused, then clamped to 500 .. 300000·channels, :2681-2695); `none` = OPUS_BAD_ARG. -/
def msStreamUserBitrate (l : MsLayout) (fs fsz bitrateBps i : Int) : Option Int :=
  let v := msRate l fs fsz bitrateBps i
  let ch : Int := if i < l.nbCoupled then 2 else 1
  if v ≤ 0 then none else some (min (300000 * ch) (max 500 v))

def fitsI32 (x : Int) : Bool := decide (-2147483648 ≤ x ∧ x ≤ 2147483647)

/-- Every `int` / `opus_int32` intermediate of the C evaluation fits 32 bits and no division is by zero — in the
    order of the source.  The products `channel_rate*coupled_ratio` / `channel_rate*lfe_ratio` of :729/:733 are computed
    in `opus_int64` (since /repo 69d56905) and only their `>>8` is cast back to `opus_int32`: the shifted value must fit;
    they are evaluated only for a coupled / the LFE stream.  (The 64-bit product of :724 needs no check: `|num| < 2^31`.) -/
def msFits (l : MsLayout) (fs fsz bitrateBps : Int) : Bool :=
  if l.ambisonics then
    fitsI32 (60 * fs) && fitsI32 ((l.nbCoupled + l.nbStreams) * (fs + 60 * fs / fsz)) && fitsI32 (l.nbStreams * 15000) &&
    fitsI32 ((l.nbStreams + l.nbCoupled) * 320000) && fitsI32 (msAmbiTotal l fs fsz bitrateBps) && decide (l.nbStreams ≠ 0) &&
    fitsI32 (msRateSum l fs fsz bitrateBps)
  else
    let v := msSurVals l fs fsz bitrateBps
    decide (v.nbNormal ≠ 0) && decide (v.total ≠ 0) &&
    fitsI32 (v.nbNormal * (v.channelOffset + fs + 10000)) && fitsI32 (v.nbNormal * (v.channelOffset + fs + 10000) + 8000 * v.nbLfe) &&
    fitsI32 (v.nbNormal * 300000 + v.nbLfe * 128000) && fitsI32 v.bitrate &&
    fitsI32 (v.channelOffset * v.nbNormal) && fitsI32 (v.lfeOffset * v.nbLfe) &&
    fitsI32 (v.bitrate - v.channelOffset * v.nbNormal) && fitsI32 (v.bitrate - v.channelOffset * v.nbNormal - v.lfeOffset * v.nbLfe) &&
    fitsI32 (v.streamOffset * (l.nbCoupled + v.nbUncoupled)) && fitsI32 (v.bitrate - v.lfeOffset * v.nbLfe) &&
    fitsI32 (v.bitrate - v.lfeOffset * v.nbLfe - v.streamOffset * (l.nbCoupled + v.nbUncoupled)) && fitsI32 v.num &&
    fitsI32 v.channelRate &&
    (decide (l.nbCoupled ≤ 0) || (fitsI32 (v.channelRate * 512 / 256) && fitsI32 (v.streamOffset + v.channelRate * 512 / 256) &&
      fitsI32 (2 * v.channelOffset + max 0 (v.streamOffset + v.channelRate * 512 / 256)))) &&
    fitsI32 (v.streamOffset + v.channelRate) && fitsI32 (v.channelOffset + max 0 (v.streamOffset + v.channelRate)) &&
    (decide (v.nbLfe = 0) || (fitsI32 (v.channelRate * 32 / 256) && fitsI32 (v.lfeOffset + v.channelRate * 32 / 256))) &&
    fitsI32 (msRateSum l fs fsz bitrateBps)

/-- `max_data_bytes` after the CBR clamp of `opus_multistream_encode_native` (:878-888) with the allocated rates. -/
def msMaxBytesAlloc (l : MsLayout) (vbr bitrateBps fs fsz maxDataBytes : Int) : Int :=
  msMaxBytes vbr bitrateBps (msRateSum l fs fsz bitrateBps) l.nbStreams fs fsz maxDataBytes

end Opus.EncSkel
