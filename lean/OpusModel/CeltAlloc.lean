import OpusModel.Basic
import OpusModel.Gen.CeltTables
/-
  OpusModel.CeltAlloc — CELT bit allocation: `init_caps` (celt/celt.c:273-282), `clt_compute_allocation`
  and `interp_bits2pulses` (celt/rate.c:248-645), for the static 48 kHz mode (tables regenerated in
  Gen.CeltTables: eBands, logN, cache.caps, allocVectors = band_allocation, LOG2_FRAC_TABLE).

  Everything here is integer arithmetic; encoder and decoder run the SAME function and differ only in the
  mirrored `if (encode) … else …` branches around the range coder calls.  The range coder is abstracted:
    * encoder side (`encode = true`): the decisions are computed and recorded as `Op`s in call order;
    * decoder side (`encode = false`): the values `ec_dec_bit_logp` / `ec_dec_uint` return are taken from an
      oracle list of raw naturals (`r % 2`, `r % ft`), and recorded as `Op`s as well.
  Arrays are modelled on the segment `[start, end)` only (the C code writes nothing outside it).

  C `int`/`opus_int32` values are unbounded `Int`; `>>` is floor division; `celt_udiv(n,d)` converts `n` to
  `opus_uint32` (modelled with the wrap) and its result is converted back to `opus_int32` where the C code does.
  Core Lean only.
-/
namespace Opus.CeltAlloc
open Opus
open Opus.Gen.CeltTables

/-- One range-coder call made by the allocation, in order. -/
inductive Op where
  | bit (v : Nat)              -- ec_enc_bit_logp(ec, v, 1) / v = ec_dec_bit_logp(ec, 1)
  | uint (v ft : Nat)          -- ec_enc_uint(ec, v, ft)    / v = ec_dec_uint(ec, ft)
  deriving DecidableEq, Repr

/-- The coder as the allocation sees it. -/
structure Coder where
  encode : Bool
  oracle : List Nat := []      -- decoder side: raw values still to be delivered
  ops : List Op := []          -- calls made so far, most recent first
  deriving Repr

/-- `ec_dec_bit_logp(ec, 1)` on the oracle. -/
def Coder.decBit (c : Coder) : Nat × Coder :=
  let v := c.oracle.headD 0 % 2
  (v, { c with oracle := c.oracle.tail, ops := .bit v :: c.ops })

/-- `ec_enc_bit_logp(ec, v, 1)`. -/
def Coder.encBit (c : Coder) (v : Nat) : Coder := { c with ops := .bit v :: c.ops }

/-- `ec_dec_uint(ec, ft)` on the oracle. -/
def Coder.decUint (c : Coder) (ft : Nat) : Nat × Coder :=
  let v := c.oracle.headD 0 % ft
  (v, { c with oracle := c.oracle.tail, ops := .uint v ft :: c.ops })

def Coder.encUint (c : Coder) (v ft : Nat) : Coder := { c with ops := .uint v ft :: c.ops }

/-- conversion to `opus_int32` of a value known modulo 2^32 -/
def toS32 (x : Int) : Int := let y := x % 4294967296; if y ≥ 2147483648 then y - 4294967296 else y

/-- `(opus_int32)celt_udiv((opus_uint32)n, d)` for `d > 0` (entcode.h:124-138). -/
def udiv (n d : Int) : Int := toS32 ((n % 4294967296) / d)

/-- `m->eBands[j+1]-m->eBands[j]` -/
def width (j : Nat) : Nat := eBands.getD (j + 1) 0 - eBands.getD j 0

/-- `init_caps` (celt.c:273-282): `cap[i] = (m->cache.caps[m->nbEBands*(2*LM+C-1)+i]+64)*C*N>>2`. -/
def initCaps (LM C : Nat) : List Int :=
  (List.range nbEBands).map fun i =>
    (((cacheCaps.getD (nbEBands * (2 * LM + C - 1) + i) 0 + 64) * C * (width i * 2 ^ LM) / 4 : Nat) : Int)

/-- Inputs of `clt_compute_allocation`. `offsets` and `cap` are indexed by absolute band number. -/
structure Inp where
  start : Nat
  end_ : Nat
  offsets : List Int
  cap : List Int
  trim : Int                    -- alloc_trim
  intensity : Int               -- *intensity on entry (encoder side)
  dualStereo : Int              -- *dual_stereo on entry (encoder side)
  total : Int                   -- bits << BITRES
  C : Nat
  LM : Nat
  prev : Int
  signalBandwidth : Int
  deriving Repr

/-- Per-band constants for the bands `start ≤ j < end`. -/
structure Band where
  j : Nat
  w : Nat                       -- eBands[j+1]-eBands[j]
  lo : Nat                      -- eBands[j]-eBands[start]
  cap : Int
  off : Int                     -- offsets[j]
  thresh : Int
  trim : Int                    -- trim_offset[j]
  deriving Repr

/-- `C<<BITRES` -/
def allocFloor (C : Nat) : Int := (C : Int) * 2 ^ BITRES

/-- rate.c:579-591. -/
def mkBand (p : Inp) (j : Nat) : Band :=
  let w := width j
  let thresh : Int := max (allocFloor p.C) (((3 * w * 2 ^ p.LM * 2 ^ BITRES : Nat) : Int) / 16)
  let t0 : Int := ((p.C * w : Nat) : Int) * (p.trim - 5 - p.LM) * ((p.end_ : Int) - j - 1) * 2 ^ (p.LM + BITRES) / 64
  let t : Int := if w * 2 ^ p.LM = 1 then t0 - allocFloor p.C else t0
  { j := j, w := w, lo := eBands.getD j 0 - eBands.getD p.start 0, cap := p.cap.getD j 0, off := p.offsets.getD j 0,
    thresh := thresh, trim := t }

def bands (p : Inp) : List Band := (List.range (p.end_ - p.start)).map fun i => mkBand p (p.start + i)

/-- `C*N*m->allocVectors[v*len+j]<<LM>>2` -/
def vecBits (p : Inp) (v : Nat) (b : Band) : Int :=
  ((p.C * b.w * allocVectors.getD (v * nbEBands + b.j) 0 * 2 ^ p.LM / 4 : Nat) : Int)

/-- `if (x > 0) x = IMAX(0, x + trim_offset[j]);` -/
def trimmed (x trim : Int) : Int := if x > 0 then max 0 (x + trim) else x

/-- The common scan of the two bisections, bands visited from `end-1` down to `start`
    (rate.c:268-281, 599-618): entries are `(tmp, thresh, cap)`, highest band first. -/
def scan (floor : Int) : List (Int × Int × Int) → Bool → Int
  | [], _ => 0
  | (tmp, thresh, cap) :: rest, done =>
    if tmp ≥ thresh ∨ done then min tmp cap + scan floor rest true
    else (if tmp ≥ floor then floor else 0) + scan floor rest false

/-- `psum` of the outer bisection for allocation vector `mid`. -/
def outerPsum (p : Inp) (bs : List Band) (mid : Nat) : Int :=
  scan (allocFloor p.C) (bs.reverse.map fun b => (trimmed (vecBits p mid b) b.trim + b.off, b.thresh, b.cap)) false

/-- The `do … while (lo <= hi)` bisection over the allocation vectors (rate.c:592-622) with `hi1 = hi+1`;
    returns the final `lo`. -/
def outerLoop (psumAt : Nat → Int) (total : Int) (lo hi1 : Nat) : Nat :=
  if h : lo < hi1 then
    let mid := (lo + hi1 - 1) / 2
    if psumAt mid > total then outerLoop psumAt total lo mid else outerLoop psumAt total (mid + 1) hi1
  else lo
termination_by hi1 - lo
decreasing_by all_goals omega

/-- `bits1[j]`, `bits2[j]` (rate.c:625-645) for the vector pair `(lo, hi)`. -/
def interpPair (p : Inp) (lo hi : Nat) (b : Band) : Int × Int :=
  let b1 := trimmed (vecBits p lo b) b.trim
  let b2 := trimmed (if hi ≥ nbAllocVectors then b.cap else vecBits p hi b) b.trim
  let b1 := if lo > 0 then b1 + b.off else b1
  let b2 := b2 + b.off
  (b1, max 0 (b2 - b1))

/-- `skip_start`: the last band with a positive dynalloc offset, `start` if there is none. -/
def skipStart (start : Nat) (bs : List Band) : Nat :=
  bs.foldl (fun acc b => if b.off > 0 then b.j else acc) start

/-- `bits1[j] + (mid*bits2[j]>>ALLOC_STEPS)` -/
def interpAt (mid : Nat) (b12 : Int × Int) : Int := b12.1 + (mid : Int) * b12.2 / 2 ^ ALLOC_STEPS

/-- The `ALLOC_STEPS` iterations of the inner bisection (rate.c:262-288). -/
def innerLoop (psumAt : Nat → Int) (total : Int) : Nat → Nat → Nat → Nat
  | 0, lo, _ => lo
  | n + 1, lo, hi =>
    let mid := (lo + hi) / 2
    if psumAt mid > total then innerLoop psumAt total n lo mid else innerLoop psumAt total n mid hi

/-- Initial `bits[j]` (rate.c:292-308), highest band first; entries `(tmp, thresh, cap)`. -/
def initBits (floor : Int) : List (Int × Int × Int) → Bool → List Int
  | [], _ => []
  | (tmp, thresh, cap) :: rest, done =>
    if tmp < thresh ∧ ¬ done then min (if tmp ≥ floor then floor else 0) cap :: initBits floor rest false
    else min tmp cap :: initBits floor rest true

def sumInt : List Int → Int
  | [] => 0
  | x :: xs => x + sumInt xs

/-- State at the end of the band-skipping loop. -/
structure SkipOut where
  codedBands : Nat
  total : Int
  psum : Int
  irsv : Int                        -- intensity_rsv
  coder : Coder
  kept : List (Band × Int)          -- bands start … codedBands-1, highest first, with bits[j]
  skipped : List (Band × Int)       -- bands codedBands … end-1, lowest first, with bits[j]
  deriving Repr

/-- Result of one iteration of the band-skipping loop for band `j = codedBands-1`. -/
structure StepOut where
  stop : Bool                       -- the loop breaks here (band `j` stays coded)
  coder : Coder
  psum : Int
  irsv : Int
  newBits : Int                     -- bits[j] of the skipped band
  deriving Repr

/-- `band_bits` (rate.c:331-337): the bits band `j` would get if the bits left over (including those stolen back from
    higher, skipped bands) were spread now. -/
def bandBitsOf (b : Band) (bits psum total : Int) : Int :=
  let left0 := total - psum
  let wAll : Int := ((b.lo + b.w : Nat) : Int)           -- eBands[codedBands]-eBands[start]
  let percoeff := udiv left0 wAll
  let left := left0 - wAll * percoeff
  let rem := max (left - (b.lo : Int)) 0
  bits + percoeff * b.w + rem

/-- One iteration of the band-skipping loop below the `j<=skip_start` test (rate.c:330-391). -/
def skipStep (p : Inp) (b : Band) (bits psum total irsv : Int) (coder : Coder) : StepOut :=
  let floor := allocFloor p.C
  let bandBits := bandBitsOf b bits psum total
  -- the skip decision (coded only above the threshold)
  let coded := decide (bandBits ≥ max b.thresh (floor + 2 ^ BITRES))
  let dec : Bool × Coder :=
    if coded then
      if coder.encode then
        let depth : Int := if b.j + 1 > 17 then (if (b.j : Int) < p.prev then 7 else 9) else 0
        let stop := decide (b.j + 1 ≤ p.start + 2) ||
          (decide (bandBits > depth * b.w * 2 ^ p.LM * 2 ^ BITRES / 16) && decide ((b.j : Int) ≤ p.signalBandwidth))
        (stop, coder.encBit (if stop then 1 else 0))
      else
        let r := coder.decBit
        (decide (r.1 ≠ 0), r.2)
    else (false, coder)
  let psum1 := if coded then psum + 2 ^ BITRES else psum
  let bandBits := if coded then bandBits - 2 ^ BITRES else bandBits
  let psum2 := psum1 - (bits + irsv)
  let irsv' := if irsv > 0 then (log2FracTable.getD (b.j - p.start) 0 : Int) else irsv
  let psum3 := psum2 + irsv'
  { stop := dec.1, coder := dec.2, psum := if bandBits ≥ floor then psum3 + floor else psum3, irsv := irsv',
    newBits := if bandBits ≥ floor then floor else 0 }

/-- "Decide which bands to skip, working backwards from the end." (rate.c:310-392).  The list holds the bands
    `start … codedBands-1`, highest first.  `.abort`: the list ran out, i.e. `j <= skip_start` never became true
    (cannot happen for `start < end`; `celt_assert(codedBands > start)`). -/
def skipLoop (p : Inp) (skipStartJ : Nat) (skipRsv : Int) :
    List (Band × Int) → Int → Int → Int → Coder → List (Band × Int) → Res SkipOut
  | [], _, _, _, _, _ => .abort
  | (b, bits) :: rest, psum, total, irsv, coder, acc =>
    if b.j ≤ skipStartJ then
      .ok { codedBands := b.j + 1, total := total + skipRsv, psum := psum, irsv := irsv, coder := coder,
            kept := (b, bits) :: rest, skipped := acc }
    else
      let r := skipStep p b bits psum total irsv coder
      if r.stop then
        .ok { codedBands := b.j + 1, total := total, psum := psum, irsv := irsv, coder := r.coder,
              kept := (b, bits) :: rest, skipped := acc }
      else skipLoop p skipStartJ skipRsv rest r.psum total r.irsv r.coder ((b, r.newBits) :: acc)

/-- Second pass of "Allocate the remaining bits" (rate.c:428-433): `tmp = IMIN(left, N); bits[j] += tmp; left -= tmp`. -/
def spread : List (Band × Int) → Int → List (Band × Int)
  | [], _ => []
  | (b, bits) :: rest, left =>
    let tmp := min left (b.w : Int)
    (b, bits + tmp) :: spread rest (left - tmp)

/-- Results for one band. -/
structure BandOut where
  pulses : Int
  ebits : Int
  prio : Int
  deriving Repr, DecidableEq

/-- The offset of the fine-bit count against the "fair share" (rate.c:460-474): `log2(N)/2 + FINE_OFFSET`, the
    N=2 exception, and the shift for the second and third fine bit. -/
def fineOffset (p : Inp) (b : Band) (den N bits : Int) : Int :=
  let nclogn := den * (logN.getD b.j 0 + (p.LM : Int) * 2 ^ BITRES)
  let offset := nclogn / 2 - den * FINE_OFFSET
  let offset := if N = 2 then offset + den * 2 ^ BITRES / 4 else offset
  if bits + offset < den * 2 * 2 ^ BITRES then offset + nclogn / 4
  else if bits + offset < den * 3 * 2 ^ BITRES then offset + nclogn / 8 else offset

/-- `ebits[j]` before re-balancing (rate.c:476-485): divide with rounding, do not bust, cap at MAX_FINE_BITS. -/
def fineBits (p : Inp) (den offset bits : Int) : Int :=
  let C : Int := p.C
  let stereo : Nat := if p.C > 1 then 1 else 0
  let e := udiv (max 0 (bits + offset + den * 2 ^ (BITRES - 1))) den / 2 ^ BITRES
  let e := if C * e > bits / 2 ^ BITRES then bits / 2 ^ stereo / 2 ^ BITRES else e
  min e MAX_FINE_BITS

/-- "Fine energy can't take advantage of the re-balancing in quant_all_bands(). Instead, do the re-balancing here."
    (rate.c:497-509): returns the band's outputs and the new `balance`. -/
def rebal (p : Inp) (bits e prio excess balance : Int) : BandOut × Int :=
  let C : Int := p.C
  let stereo : Nat := if p.C > 1 then 1 else 0
  if excess > 0 then
    let extraFine := min (excess / 2 ^ (stereo + BITRES)) ((MAX_FINE_BITS : Int) - e)
    let extraBits := extraFine * C * 2 ^ BITRES
    (⟨bits, e + extraFine, if extraBits ≥ excess - balance then 1 else 0⟩, excess - extraBits)
  else (⟨bits, e, prio⟩, excess)

/-- One iteration of the fine/PVQ split loop (rate.c:437-509); returns the band's outputs and the new `balance`. -/
def splitBand (p : Inp) (intensity dual : Int) (b : Band) (bits balance : Int) : BandOut × Int :=
  let C : Int := p.C
  let N : Int := ((b.w * 2 ^ p.LM : Nat) : Int)
  let bit := bits + balance
  if N > 1 then
    let excess := max (bit - b.cap) 0
    let bits := bit - excess
    let den : Int := C * N + (if p.C = 2 ∧ N > 2 ∧ dual = 0 ∧ (b.j : Int) < intensity then 1 else 0)
    let offset := fineOffset p b den N bits
    let e := fineBits p den offset bits
    let prio : Int := if e * (den * 2 ^ BITRES) ≥ bits + offset then 1 else 0
    rebal p (bits - C * e * 2 ^ BITRES) e prio excess balance
  else
    let excess := max 0 (bit - C * 2 ^ BITRES)
    rebal p (bit - excess) 0 1 excess balance

/-- The loop over the coded bands, lowest first, carrying `balance`. -/
def splitLoop (p : Inp) (intensity dual : Int) : List (Band × Int) → Int → List BandOut × Int
  | [], balance => ([], balance)
  | (b, bits) :: rest, balance =>
    let r := splitBand p intensity dual b bits balance
    let rr := splitLoop p intensity dual rest r.2
    (r.1 :: rr.1, rr.2)

/-- "The skipped bands use all their bits for fine energy." (rate.c:515-522) -/
def skippedOut (p : Inp) (bits : Int) : BandOut :=
  let stereo : Nat := if p.C > 1 then 1 else 0
  let e := bits / 2 ^ stereo / 2 ^ BITRES
  ⟨0, e, if e < 1 then 1 else 0⟩

/-- Everything `clt_compute_allocation` returns or writes. -/
structure Out where
  codedBands : Nat
  balance : Int
  intensity : Int
  dualStereo : Int
  bands : List BandOut          -- pulses / ebits / fine_priority for start … end-1
  ops : List Op                 -- range coder calls in call order
  deriving Repr

/-- "Code the intensity and dual stereo parameters." (rate.c:395-421): returns `(intensity, dual_stereo, total,
    coder)` after the two parameters have been coded / decoded. -/
def codeStereo (p : Inp) (s : SkipOut) (dsrsv : Int) : Int × Int × Int × Coder :=
  let cb := s.codedBands
  let ic : Int × Coder :=
    if s.irsv > 0 then
      if s.coder.encode then
        let i := min p.intensity cb
        (i, s.coder.encUint (i - p.start).toNat (cb + 1 - p.start))
      else
        let r := s.coder.decUint (cb + 1 - p.start)
        ((p.start : Int) + r.1, r.2)
    else (0, s.coder)
  let total := if ic.1 ≤ p.start then s.total + dsrsv else s.total
  let dsrsv := if ic.1 ≤ p.start then 0 else dsrsv
  let dc : Int × Coder :=
    if dsrsv > 0 then
      if ic.2.encode then (p.dualStereo, ic.2.encBit (if p.dualStereo ≠ 0 then 1 else 0))
      else let r := ic.2.decBit; ((r.1 : Int), r.2)
    else (0, ic.2)
  (ic.1, dc.1, total, dc.2)

/-- "Allocate the remaining bits" (rate.c:423-433): the bands `start … codedBands-1`, lowest first, with their final
    `bits[j]` before the fine/PVQ split. -/
def distribute (p : Inp) (s : SkipOut) (total : Int) : List (Band × Int) :=
  let left0 := total - s.psum
  let wAll : Int := ((eBands.getD s.codedBands 0 - eBands.getD p.start 0 : Nat) : Int)
  let percoeff := udiv left0 wAll
  let left := left0 - wAll * percoeff
  spread (s.kept.reverse.map fun x => (x.1, x.2 + percoeff * x.1.w)) left

/-- Everything after the band-skipping loop (rate.c:394-523). -/
def finishTail (p : Inp) (s : SkipOut) (dsrsv : Int) : Out :=
  let st := codeStereo p s dsrsv
  let kept := distribute p s st.2.2.1
  let r := splitLoop p st.1 st.2.1 kept 0
  { codedBands := s.codedBands, balance := r.2, intensity := st.1, dualStereo := st.2.1,
    bands := r.1 ++ s.skipped.map (fun x => skippedOut p x.2), ops := st.2.2.2.ops.reverse }

/-- `interp_bits2pulses` after the bisection has produced `lo`. -/
def finish (p : Inp) (bs : List Band) (b12 : List (Int × Int)) (skipStartJ : Nat) (total : Int)
    (skipRsv irsv dsrsv : Int) (lo : Nat) (coder : Coder) : Res Out := do
  let floor := allocFloor p.C
  let ent := (bs.zip b12).reverse.map fun x => (interpAt lo x.2, x.1.thresh, x.1.cap)
  let bits0 := initBits floor ent false                         -- highest band first
  let psum := sumInt bits0
  let s ← skipLoop p skipStartJ skipRsv (bs.reverse.zip bits0) psum total irsv coder []
  pure (finishTail p s dsrsv)

/-- `clt_compute_allocation` (rate.c:548-645). -/
def computeAllocation (p : Inp) (coder : Coder) : Res Out :=
  let total := max p.total 0
  let skipRsv : Int := if total ≥ 2 ^ BITRES then 2 ^ BITRES else 0
  let total := total - skipRsv
  let irsv0 : Int := if p.C = 2 then (log2FracTable.getD (p.end_ - p.start) 0 : Int) else 0
  let irsv : Int := if p.C = 2 ∧ irsv0 > total then 0 else irsv0
  let total := if p.C = 2 ∧ ¬ irsv0 > total then total - irsv else total
  let dsrsv : Int := if p.C = 2 ∧ ¬ irsv0 > total + irsv ∧ total ≥ 2 ^ BITRES then 2 ^ BITRES else 0
  let total := total - dsrsv
  let bs := bands p
  let lo1 := outerLoop (outerPsum p bs) total 1 nbAllocVectors
  let hi := lo1
  let lo := lo1 - 1
  let b12 := bs.map (interpPair p lo hi)
  let ss := skipStart p.start bs
  let ent := fun mid => (bs.zip b12).reverse.map fun x => (interpAt mid x.2, x.1.thresh, x.1.cap)
  let ilo := innerLoop (fun mid => scan (allocFloor p.C) (ent mid) false) total ALLOC_STEPS 0 (2 ^ ALLOC_STEPS)
  finish p bs b12 ss total skipRsv irsv dsrsv ilo coder

end Opus.CeltAlloc
