import OpusModel.SilkParams.Fix
import OpusModel.SilkParams.Nlsf
import OpusModel.SilkParams.Lpc
import OpusModel.SilkParams.Gains
import OpusModel.SilkParams.PitchEnc
/-
  OpusModel.SilkParams — executable model of the SILK side-information dequantisers
  (property C18).  The parts live in `OpusModel/SilkParams/`:
    Fix   — SigProc_FIX.h / macros.h / Inlines.h macros as exact `Int` functions
    Nlsf  — silk_NLSF_unpack, silk_NLSF_residual_dequant, silk_NLSF_decode, silk_NLSF_stabilize,
            NLSF interpolation (decoder and encoder flavour)
    Lpc   — silk_NLSF2A (find_poly, cosine table), silk_LPC_fit, silk_bwexpander_32,
            silk_LPC_inverse_pred_gain_c
    Gains — silk_gains_quant / silk_gains_dequant, silk_log2lin, silk_lin2log, silk_decode_pitch
  This file adds the NLSF part of silk_decode_parameters (decode_parameters.c:44-80).
-/
namespace Opus.SilkParams
open Opus

/-- NLSF part of `silk_decode_parameters` (decode_parameters.c:44-80) with `lossCnt == 0`:
    `(PredCoef_Q12[0], PredCoef_Q12[1], new prevNLSF_Q15)`. -/
def decodeNlsfParams (cb : NlsfCB) (indices prevNlsf : List Int) (interpCoefQ2 : Int)
    (firstFrameAfterReset : Int) : Res (List Int × List Int × List Int) := do
  let nlsf ← nlsfDecode cb indices
  let a1 ← nlsf2a nlsf
  let coef := if firstFrameAfterReset = 1 then 4 else interpCoefQ2
  if coef < 4 then
    let a0 ← nlsf2a (nlsfInterpDec coef prevNlsf nlsf)
    pure (a0, a1, nlsf)
  else pure (a1, a1, nlsf)

end Opus.SilkParams
