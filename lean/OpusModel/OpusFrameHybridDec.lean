import OpusModel.OpusFrameEnc
/-
  OpusModel.OpusFrameHybridDec — `st->rangeFinal` of `opus_decode_frame` for a HYBRID frame of more than one byte,
  including the case the redundancy parse zeroes `len` (property C08, slice Hybrid; used by the tie `rangecoder-hybridred`).

  C sources transcribed (pinned tree):
    src/opus_decoder.c:492-497   `if (len*8 < ec_tell(&dec)) { len = 0; redundancy_bytes = 0; redundancy = 0; }`
                                 (in C03's `redundancyHeader`; here only its consequence)
    src/opus_decoder.c:670-673   `if (len <= 1) st->rangeFinal = 0; else st->rangeFinal = dec.rng ^ redundant_rng;`
                                 — `len` is the length of the MAIN part after the redundancy parse
  `OpusFrameEnc.decRangeFinal` is the `else` branch (its comment: "for a frame with len > 1").  Core Lean only.
-/
namespace Opus.OpusFrameHybridDec
open Opus Opus.RangeCoder Opus.SilkSyms Opus.OpusFrameEnc

/-- `st->rangeFinal` after `opus_decode_frame` on a hybrid frame (mode 1001), from C03's parse result `o`. -/
def hybridRangeFinal (bandwidth nCh spf48 : Nat) (frame : Bytes) (o : FrameOut) : Res Nat :=
  if o.len ≤ 1 then .ok 0 else decRangeFinal 1001 bandwidth nCh spf48 frame o

end Opus.OpusFrameHybridDec
