import OpusModel.SilkSynthIdx
import OpusModel.SilkParams.Fix
/-
  OpusModel.SilkSynthIdxFrame — index / extent model of one call of silk_decode_frame
  (silk/decode_frame.c:44-172) around silk_decode_core: silk_PLC (update, reset, conceal), the
  outBuf shift, silk_CNG, silk_PLC_glue_frames, and the decoder state that enters index
  expressions, as a transition system over histories of decoded / lost frames, rate switches
  (silk_decoder_set_fs) and resets.

  As in OpusModel.SilkSynthIdx only index arithmetic is modelled; the few value-level facts that
  steer an index are either computed exactly (the LCG `silk_RAND`, the pitch-lag drift of the
  concealment, the arg-max of four gains, sums of LTP coefficients) or are explicit oracle inputs
  (`lowFirst`: outcome of the energy comparison PLC.c:266; `gainDiff`/`adjNe` as before).
  TRUSTED READING with file:line citations; tied by harness/c18_synthidx*.c, which runs the repo's
  own decode_frame.c / PLC.c / CNG.c / decode_core.c (instrumented, see there) over scripted
  histories and compares per phase the recorded extents and the decoder state after the call.
-/
namespace Opus.SilkSynthIdx
open Opus Opus.Gen Opus.SilkParams

/-- The decoder state that enters index expressions. -/
structure DecSt where
  fsKHz : Int                 -- psDec->fs_kHz (0: silk_decoder_set_fs not yet called)
  nbSubfr : Nat               -- psDec->nb_subfr
  lossCnt : Int               -- psDec->lossCnt
  prevSignalType : Int        -- psDec->prevSignalType
  lagPrev : Int               -- psDec->lagPrev
  firstFrameAfterReset : Bool -- psDec->first_frame_after_reset
  plcFs : Int                 -- psDec->sPLC.fs_kHz
  pitchLQ8 : Int              -- psDec->sPLC.pitchL_Q8
  plcNb : Int                 -- psDec->sPLC.nb_subfr
  plcSubfr : Int              -- psDec->sPLC.subfr_length
  lastFrameLost : Bool        -- psDec->sPLC.last_frame_lost
  plcSeed : Int               -- psDec->sPLC.rand_seed
  cngFs : Int                 -- psDec->sCNG.fs_kHz
  cngSeed : Int               -- psDec->sCNG.rand_seed
  deriving Repr, DecidableEq

def DecSt.cfg (s : DecSt) : Cfg := cfgOf s.fsKHz s.nbSubfr

/-- `silk_RAND( seed )` (SigProc_FIX.h:599-601): 32-bit linear congruential generator. -/
def silkRand (seed : Int) : Int := wrap32 (907633515 + seed * 196314165)

/-- `n` draws `seed = silk_RAND( seed ); idx = ( seed >> sh ) & mask`: final seed and the smallest and
    largest index drawn (`none` for `n = 0`). -/
def randRun (sh : Nat) (mask : Int) : Nat → Int → Option (Int × Int) → Int × Option (Int × Int)
  | 0, seed, e => (seed, e)
  | n + 1, seed, e =>
    let s := silkRand seed
    let idx := (s / (2 : Int) ^ sh) % (mask + 1)
    randRun sh mask n s (match e with
      | none => some (idx, idx)
      | some (lo, hi) => some (min lo idx, max hi idx))

def rdExt (a : Arr) (base : Int) : Option (Int × Int) → List Acc
  | none => []
  | some (lo, hi) => rd a (base + lo) (base + hi + 1)

/-! ### silk_PLC_conceal (PLC.c:216-430) -/

/-- The sub-frame loop PLC.c:336-366: `pos` = sLTP_buf_idx, `p` = psPLC->pitchL_Q8 (its drift
    `p += p·0.01`, capped at `18·fs_kHz·256`, is computed exactly), `seed` = rand_seed, `base` = offset of
    `rand_ptr` in `exc_Q14`.  Returns accesses, final pitchL_Q8, final seed. -/
def concealLoop (c : Cfg) (base : Int) : Nat → Int → Int → Int → List Acc × Int × Int
  | 0, _, p, seed => ([], p, seed)
  | n + 1, pos, p, seed =>
    let lag := rshiftRound p 8                                                                -- :319, :365
    let half := SilkSynth.ltpOrder / 2
    let rr := randRun 25 (SilkSynth.randBufSize - 1) c.subfr.toNat seed none                   -- :352-353
    let p1 := smlawb p p SilkSynth.pitchDriftFacQ16                                            -- :363
    let p2 := min p1 (SilkSynth.maxPitchLagMs * c.fsKHz * 256)                                 -- :364
    let r := concealLoop c base n (pos + c.subfr) p2 rr.1
    (rd .sLTP_Q14 (pos - lag + half - (SilkSynth.ltpOrder - 1)) (pos - lag + half + c.subfr) ++   -- :338-347
       rd .plcLtp 0 SilkSynth.ltpOrder ++
       rdExt .exc_Q14 base rr.2 ++                                                              -- :354 rand_ptr[ idx ]
       wrt .sLTP_Q14 pos (pos + c.subfr) ++                                                     -- :354
       rd .plcLtp 0 SilkSynth.ltpOrder ++ wrt .plcLtp 0 SilkSynth.ltpOrder ++                   -- :358-360
       r.1, r.2.1, r.2.2)

/-- `silk_PLC_conceal`: accesses, whether `celt_assert( idx > 0 )` (PLC.c:324) or an assertion of
    silk_LPC_analysis_filter fired, and the new `(pitchL_Q8, rand_seed, lag written to pitchL[])`. -/
def concealAccesses (s : DecSt) (lowFirst : Bool) : List Acc × Bool × Int × Int × Int :=
  let c := s.cfg
  let m := SilkSynth.maxLpcOrder
  let half := SilkSynth.ltpOrder / 2
  let att := min 1 s.lossCnt
  let base := if lowFirst then max 0 ((s.plcNb - 1) * s.plcSubfr - SilkSynth.randBufSize)      -- :268
              else max 0 (s.plcNb * s.plcSubfr - SilkSynth.randBufSize)                        -- :271
  let lag := rshiftRound s.pitchLQ8 8                                                          -- :319
  let idx := c.ltpMem - lag - c.lpcOrder - half                                                -- :323
  let pre :=
    rd .prevGain 0 2 ++                                                                        -- :257-258
    (if s.firstFrameAfterReset then wrt .prevLPC 0 SilkSynth.szPlcPrevLpc else []) ++          -- :260-262
    -- silk_PLC_energy, PLC.c:191-214
    rd .exc_Q14 (((c.nbSubfr : Int) - 2) * c.subfr) ((c.nbSubfr : Int) * c.subfr) ++ wrt .exc_buf 0 (2 * c.subfr) ++  -- :203-209
    rd .exc_buf 0 (2 * c.subfr) ++                                                             -- :211-212 (silk_sum_sqr_shift)
    rd .attTab att (att + 1) ++                                                                -- :279-284
    rd .prevLPC 0 c.lpcOrder ++ wrt .prevLPC 0 c.lpcOrder ++                                   -- :287 silk_bwexpander
    rd .prevLPC 0 c.lpcOrder ++ wrt .aPlc 0 c.lpcOrder ++                                      -- :290
    (if s.lossCnt = 0 then
       (if s.prevSignalType = SilkSynth.typeVoiced then rd .plcLtp 0 SilkSynth.ltpOrder        -- :298-300
        else rd .prevLPC 0 c.lpcOrder)                                                         -- :307 silk_LPC_inverse_pred_gain
     else [])
  if idx ≤ 0 then (pre, true, s.pitchLQ8, s.plcSeed, lag)                                       -- :324
  else
    let f := lpcAnalysis .sLTP idx .outBuf idx .aPlc 0 (c.ltpMem - idx) c.lpcOrder              -- :325
    if f.2 then (pre ++ f.1, true, s.pitchLQ8, s.plcSeed, lag)
    else
      let lp := concealLoop c base c.nbSubfr c.ltpMem s.pitchLQ8 s.plcSeed                     -- :336-366
      let lagEnd := rshiftRound lp.2.1 8
      (pre ++ f.1 ++
        rd .prevGain 1 2 ++                                                                    -- :327
        rd .sLTP (idx + c.lpcOrder) c.ltpMem ++ wrt .sLTP_Q14 (idx + c.lpcOrder) c.ltpMem ++   -- :329-331
        lp.1 ++
        rd .sLPC_Q14_buf 0 m ++ wrt .sLTP_Q14 (c.ltpMem - m) c.ltpMem ++                       -- :372-375
        rd .sLTP_Q14 (c.ltpMem - c.lpcOrder) (c.ltpMem + c.frameLen) ++ rd .aPlc 0 c.lpcOrder ++   -- :378-394
        wrt .sLTP_Q14 c.ltpMem (c.ltpMem + c.frameLen) ++ wrt .xq 0 c.frameLen ++              -- :394-398
        rd .sLTP_Q14 (c.ltpMem - m + c.frameLen) (c.ltpMem + c.frameLen) ++ wrt .sLPC_Q14_buf 0 m ++  -- :419
        wrt .pitchL 0 SilkSynth.maxNbSubfr,                                                    -- :425-427
       false, lp.2.1, lp.2.2, lagEnd)

/-- Initialised-before-read for `sLTP_Q14` in silk_PLC_conceal: PLC.c:329-331 writes `[wlo, ltp_mem_length)` with
    `wlo = ltp_mem_length - lag₀ - 2`; sub-frame `k` reads from `pos - lag_k - 2` up to just below the element it
    writes (needs `lag_k ≥ 3`), with the drifting lag. -/
def concealInitLoop (c : Cfg) (wlo : Int) : Nat → Int → Int → Bool
  | 0, _, _ => true
  | n + 1, pos, p =>
    let lag := rshiftRound p 8
    let p2 := min (smlawb p p SilkSynth.pitchDriftFacQ16) (SilkSynth.maxPitchLagMs * c.fsKHz * 256)
    decide (wlo ≤ pos - (lag + SilkSynth.ltpOrder / 2)) && decide (3 ≤ lag) && concealInitLoop c wlo n (pos + c.subfr) p2

def concealInitOk (s : DecSt) : Bool :=
  let c := s.cfg
  concealInitLoop c (c.ltpMem - (rshiftRound s.pitchLQ8 8 + SilkSynth.ltpOrder / 2)) c.nbSubfr c.ltpMem s.pitchLQ8

/-! ### silk_PLC_update (PLC.c:114-189) -/

def sumRange (l : List Int) (off : Int) (n : Nat) : Int :=
  (List.range n).foldl (fun (a : Int) (i : Nat) => a + l.getD (off + (i : Int)).toNat 0) 0

/-- The search "last sub-frame that contains a pitch pulse" PLC.c:135-152: iteration `j`, running
    maximum `best`, current `pitchL_Q8`. -/
def updLoop (nb S : Int) (pitchL ltp : List Int) : Nat → Int → Int → Int → List Acc × Int × Int
  | 0, _, best, p => ([], best, p)
  | fuel + 1, j, best, p =>
    let cond := rd .pitchL (nb - 1) nb                                                         -- :135
    if ¬ (j * S < pitchL.getD (nb - 1).toNat 0) then (cond, best, p)
    else if j = nb then (cond, best, p)                                                         -- :136
    else
      let off := (nb - 1 - j) * SilkSynth.ltpOrder
      let t := sumRange ltp off SilkSynth.ltpOrder.toNat                                        -- :140-142
      let body := rd .ltpCoef off (off + SilkSynth.ltpOrder)
      if t > best then
        let r := updLoop nb S pitchL ltp fuel (j + 1) t (pitchL.getD (nb - 1 - j).toNat 0 * 256)   -- :150
        (cond ++ body ++ rd .ltpCoef off (off + SilkSynth.ltpOrder) ++ wrt .plcLtp 0 SilkSynth.ltpOrder ++  -- :145-148
          rd .pitchL (nb - 1 - j) (nb - j) ++ r.1, r.2.1, r.2.2)
      else
        let r := updLoop nb S pitchL ltp fuel (j + 1) best p
        (cond ++ body ++ r.1, r.2.1, r.2.2)

/-- `silk_PLC_update`: accesses and the new `pitchL_Q8`. -/
def updateAccesses (s : DecSt) (signalType : Int) (pitchL ltp : List Int) : List Acc × Int :=
  let c := s.cfg
  let nb : Int := c.nbSubfr
  let tail :=
    rd .predCoef SilkSynth.szPredCoefCols (SilkSynth.szPredCoefCols + c.lpcOrder) ++ wrt .prevLPC 0 c.lpcOrder ++  -- :181
    rd .gains (nb - 2) nb ++ wrt .prevGain 0 2                                                   -- :185
  if signalType = SilkSynth.typeVoiced then
    let r := updLoop nb c.subfr pitchL ltp (c.nbSubfr + 1) 0 0 s.pitchLQ8
    let g := r.2.1
    (r.1 ++ wrt .plcLtp 0 SilkSynth.ltpOrder ++                                                  -- :154-155
      (if g < 11469 ∨ g > 15565 then rd .plcLtp 0 SilkSynth.ltpOrder ++ wrt .plcLtp 0 SilkSynth.ltpOrder else []) ++  -- :158-176
      tail, r.2.2)
  else
    (wrt .plcLtp 0 SilkSynth.ltpOrder ++ tail, SilkSynth.maxPitchLagMs * c.fsKHz * 256)          -- :178-179

/-! ### silk_PLC (PLC.c:69-109) -/

/-- `silk_PLC_Reset` (PLC.c:60-67) when `psDec->fs_kHz != psDec->sPLC.fs_kHz` (PLC.c:81-84). -/
def plcResetIfNeeded (s : DecSt) : List Acc × DecSt :=
  if s.fsKHz ≠ s.plcFs then
    (wrt .prevGain 0 2,
     { s with pitchLQ8 := s.cfg.frameLen * 128, plcSubfr := 20, plcNb := 2, plcFs := s.fsKHz })
  else ([], s)

/-! ### silk_CNG (CNG.c:77-199) -/

def cngMask (length : Int) : Int :=
  if 255 ≤ length then 255 else if 127 ≤ length then 127 else if 63 ≤ length then 63 else if 31 ≤ length then 31
  else if 15 ≤ length then 15 else if 7 ≤ length then 7 else if 3 ≤ length then 3 else if 1 ≤ length then 1 else 0

/-- Index of the largest gain, first one wins (CNG.c:106-113). -/
def argMaxGain : List Int → Nat → Int → Nat → Nat
  | [], _, _, best => best
  | g :: gs, i, m, best => if g > m then argMaxGain gs (i + 1) g i else argMaxGain gs (i + 1) m best

/-- `silk_CNG( psDec, psDecCtrl, frame, length = frame_length )` with the state as decode_frame.c:154
    sees it; returns accesses and the new `(sCNG.fs_kHz, sCNG.rand_seed)`. -/
def cngAccesses (s : DecSt) (gains : List Int) : List Acc × Int × Int :=
  let c := s.cfg
  let m := SilkSynth.maxLpcOrder
  let nb : Int := c.nbSubfr
  let reset := s.fsKHz ≠ s.cngFs
  let seed0 := if reset then 3176576 else s.cngSeed                                             -- CNG.c:74
  let a0 := if reset then wrt .cngSmthNlsf 0 c.lpcOrder else []                                 -- :68-71
  let a1 :=
    if s.lossCnt = 0 ∧ s.prevSignalType = SilkSynth.typeNoVoiceActivity then
      let sub : Int := argMaxGain (gains.take c.nbSubfr) 0 0 0
      rd .prevNlsf 0 c.lpcOrder ++ rd .cngSmthNlsf 0 c.lpcOrder ++ wrt .cngSmthNlsf 0 c.lpcOrder ++   -- :101-103
        rd .gains 0 nb ++                                                                        -- :107-112
        rd .cngExcBuf 0 ((nb - 1) * c.subfr) ++ wrt .cngExcBuf c.subfr (c.subfr + (nb - 1) * c.subfr) ++  -- :115
        rd .exc_Q14 (sub * c.subfr) (sub * c.subfr + c.subfr) ++ wrt .cngExcBuf 0 c.subfr         -- :116
    else []
  if s.lossCnt ≠ 0 then
    let rr := randRun 24 (cngMask c.frameLen) c.frameLen.toNat seed0 none                        -- CNG.c:44-61
    (a0 ++ a1 ++
      rd .prevGain 1 2 ++                                                                        -- :134
      rdExt .cngExcBuf 0 rr.2 ++ wrt .cngSig m (m + c.frameLen) ++                               -- :146
      rd .cngSmthNlsf 0 c.lpcOrder ++ wrt .aPlc 0 c.lpcOrder ++                                  -- :149 silk_NLSF2A
      rd .cngSynth 0 m ++ wrt .cngSig 0 m ++                                                     -- :152
      rd .cngSig (m - c.lpcOrder) (m + c.frameLen) ++ rd .aPlc 0 c.lpcOrder ++                   -- :154-177
      wrt .cngSig m (m + c.frameLen) ++ rd .xq 0 c.frameLen ++ wrt .xq 0 c.frameLen ++           -- :180-183
      rd .cngSig c.frameLen (c.frameLen + m) ++ wrt .cngSynth 0 m,                               -- :186
     s.fsKHz, rr.1)
  else (a0 ++ a1 ++ wrt .cngSynth 0 c.lpcOrder, s.fsKHz, seed0)                                   -- :188

/-! ### silk_decode_frame (decode_frame.c:44-172) -/

/-- The parameters of one frame. -/
structure FrameIn where
  lost : Bool                 -- lostFlag selects the concealment branch (decode_frame.c:69-72)
  signalType : Int
  quantOffsetType : Int
  interp : Bool
  pitchL : List Int           -- psDecCtrl->pitchL[] as silk_decode_parameters leaves it
  ltpCoef : List Int          -- psDecCtrl->LTPCoef_Q14[ 0..19 ]
  gains : List Int            -- psDecCtrl->Gains_Q16[ 0..3 ]
  gainDiff : List Bool
  adjNe : List Bool
  lowFirst : Bool             -- PLC.c:266: first of the last two sub-frames has the lower energy
  deriving Repr

/-- Accesses of one call, by phase (the tie compares per phase). -/
structure FrameAcc where
  core : List Acc
  plc : List Acc
  top : List Acc
  cng : List Acc
  glue : List Acc
  aborted : Bool
  deriving Repr

/-- `pitchL[]` after silk_decode_core: the transition branch stores `lagPrev` (decode_core.c:139). -/
def pitchAfterCore (x : CoreIn) : List Int :=
  (List.range 4).map fun k => if k < x.nbSubfr ∧ transition x k then x.lagPrev else x.pitchL.getD k 0

/-- The outBuf shift decode_frame.c:103-106 / :146-149. -/
def shiftAccesses (c : Cfg) : List Acc :=
  let mv := c.ltpMem - c.frameLen
  rd .outBuf c.frameLen (c.frameLen + mv) ++ wrt .outBuf 0 mv ++ rd .xq 0 c.frameLen ++ wrt .outBuf mv (mv + c.frameLen)

/-- The inputs of silk_decode_core for frame `f` decoded in state `s`. -/
def coreInOf (s : DecSt) (f : FrameIn) : CoreIn :=
  { fsKHz := s.fsKHz, nbSubfr := s.nbSubfr, signalType := f.signalType,
    quantOffsetType := f.quantOffsetType, interp := f.interp, pitchL := f.pitchL,
    lossCnt := s.lossCnt, prevSignalType := s.prevSignalType, lagPrev := s.lagPrev,
    gainDiff := f.gainDiff, adjNe := f.adjNe }

/-- State after silk_PLC_update and the bookkeeping of the good-frame branch (PLC.c:187-188,
    decode_frame.c:125-130). -/
def stAfterUpdate (r : DecSt) (c : Cfg) (p : Int) (sig : Int) : DecSt :=
  { r with pitchLQ8 := p, plcSubfr := c.subfr, plcNb := (c.nbSubfr : Int), lossCnt := 0, prevSignalType := sig,
           firstFrameAfterReset := false }

/-- State after silk_PLC_conceal and `psDec->lossCnt++` (PLC.c:95). -/
def stAfterConceal (r : DecSt) (p seed loss : Int) : DecSt :=
  { r with pitchLQ8 := p, plcSeed := seed, lossCnt := loss }

/-- One call of `silk_decode_frame` from state `s`: accesses by phase and the next state. -/
def frameStep (s : DecSt) (f : FrameIn) : FrameAcc × DecSt :=
  let c := s.cfg
  let nb : Int := c.nbSubfr
  if ¬ f.lost then
    let x := coreInOf s f
    let core := coreAccesses x
    if core.2 then (⟨core.1, [], [], [], [], true⟩, s)
    else
      let pl := pitchAfterCore x
      let r := plcResetIfNeeded s
      let u := updateAccesses r.2 f.signalType pl f.ltpCoef
      let s1 := stAfterUpdate r.2 c u.2 f.signalType
      let g := cngAccesses s1 f.gains
      -- PLC.c:449-452 energy of the frame; :476-484 the fade-in writes a data-dependent prefix of frame[ 0..length )
      -- (listed with its upper bound; the tie checks the recorded prefix stays below `length`)
      let glue := if s1.lastFrameLost then rd .xq 0 c.frameLen ++ wrt .xq 0 c.frameLen else []
      (⟨core.1, r.1 ++ u.1, shiftAccesses c ++ rd .pitchL (nb - 1) nb, g.1, glue, false⟩,
       { s1 with cngFs := g.2.1, cngSeed := g.2.2, lastFrameLost := false,                         -- PLC.c:488
                 lagPrev := pl.getD (s.nbSubfr - 1) 0 })                                           -- decode_frame.c:162
  else
    let r := plcResetIfNeeded s
    let cc := concealAccesses r.2 f.lowFirst
    if cc.2.1 then (⟨[], r.1 ++ cc.1, [], [], [], true⟩, s)
    else
      let s1 := stAfterConceal r.2 cc.2.2.1 cc.2.2.2.1 (s.lossCnt + 1)                             -- PLC.c:95
      let g := cngAccesses s1 f.gains
      (⟨[], r.1 ++ cc.1, shiftAccesses c ++ rd .pitchL (nb - 1) nb, g.1, rd .xq 0 c.frameLen, false⟩,   -- PLC.c:444-448
       { s1 with cngFs := g.2.1, cngSeed := g.2.2, lastFrameLost := true, lagPrev := cc.2.2.2.2 })

/-- Initialised-before-read verdict for the LTP state array of one silk_decode_frame call: `sLTP_Q15` of
    silk_decode_core for a decoded frame, `sLTP_Q14` of silk_PLC_conceal (on the PLC state silk_PLC has brought to the
    current rate) for a concealed one. -/
def frameInitOk (s : DecSt) (f : FrameIn) : Bool :=
  if f.lost then concealInitOk (plcResetIfNeeded s).2 else coreInitOk (coreInOf s f)

/-! ### the other events of a decoder history -/

/-- `silk_reset_decoder` / `silk_init_decoder` (init_decoder.c:43-83): everything zero, then
    `first_frame_after_reset = 1`, silk_CNG_Reset, silk_PLC_Reset (with `frame_length = 0`). -/
def resetSt : DecSt :=
  { fsKHz := 0, nbSubfr := 0, lossCnt := 0, prevSignalType := 0, lagPrev := 0, firstFrameAfterReset := true,
    plcFs := 0, pitchLQ8 := 0, plcNb := 2, plcSubfr := 20, lastFrameLost := false, plcSeed := 0,
    cngFs := 0, cngSeed := 3176576 }

/-- `psDec->nb_subfr = nb; silk_decoder_set_fs( psDec, fs_kHz, … )` (dec_API.c:184-208,
    decoder_set_fs.c:36-107): a rate change resets `lagPrev`, `prevSignalType`,
    `first_frame_after_reset` (and zeroes outBuf / sLPC_Q14_buf); nothing of sPLC / sCNG / lossCnt. -/
def setFs (s : DecSt) (fs : Int) (nb : Nat) : DecSt :=
  if s.fsKHz ≠ fs then
    { s with fsKHz := fs, nbSubfr := nb, lagPrev := 100, prevSignalType := SilkSynth.typeNoVoiceActivity,
             firstFrameAfterReset := true }
  else { s with nbSubfr := nb }

/-- The side-channel reset of dec_API.c:302-309. -/
def sideReset (s : DecSt) : DecSt :=
  { s with lagPrev := 100, prevSignalType := SilkSynth.typeNoVoiceActivity, firstFrameAfterReset := true }

inductive Ev where
  | reset
  | setFs (fs : Int) (nb : Nat)
  | sideReset
  | frame (f : FrameIn)

end Opus.SilkSynthIdx
