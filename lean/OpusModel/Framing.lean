import OpusModel.Basic
/-
  OpusModel.Framing — transcription of the packet parser and TOC helpers.

  C sources:  src/opus.c:140-361 (encode_size, parse_size,
              opus_packet_get_samples_per_frame, opus_packet_parse_impl,
              opus_packet_parse), src/opus_decoder.c:242-255,1150-1235
              (opus_packet_get_mode/bandwidth/nb_channels/nb_frames/nb_samples,
              opus_packet_has_lbrr).

  Conventions.  The C pointer `data` is the *remaining suffix* of the packet;
  `data++` is `tail`.  The C variable `len` is an `Int` carried next to it (it
  can become negative inside the padding loop, exactly as in C).  Bit tests on
  bytes are written arithmetically (`toc / 128 % 2` for `toc & 0x80`, `toc % 4`
  for `toc & 3`, ...) so that `omega` can reason about them; for bytes `< 256`
  these coincide with the C operators (checked by the correspondence suite on
  all 256 TOC values).
-/
namespace Opus.Framing
open Opus

/-- `encode_size` (src/opus.c:140-151). -/
def encodeSize (size : Nat) : Bytes :=
  if size < 252 then [size]
  else
    let b0 := 252 + size % 4
    [b0, (size - b0) / 4]

/-- `parse_size` (src/opus.c:153-171): returns `(bytes, size)`, `(-1,-1)` on failure. -/
def parseSize (data : Bytes) (len : Int) : Res (Int × Int) :=
  if len < 1 then .ok (-1, -1)
  else match data with
    | [] => .oob
    | b0 :: rest =>
      if b0 < 252 then .ok (1, b0)
      else if len < 2 then .ok (-1, -1)
      else match rest with
        | [] => .oob
        | b1 :: _ => .ok (2, 4 * b1 + b0)

/-- `opus_packet_get_samples_per_frame` (src/opus.c:173-192). -/
def samplesPerFrame (toc fs : Nat) : Nat :=
  if toc / 128 % 2 = 1 then (fs * 2 ^ (toc / 8 % 4)) / 400
  else if toc / 32 % 4 = 3 then (if toc / 8 % 2 = 1 then fs / 50 else fs / 100)
  else
    let a := toc / 8 % 4
    if a = 3 then fs * 60 / 1000 else (fs * 2 ^ a) / 100

/-- Padding length chain of a code-3 packet (src/opus.c:263-272).
    Returns the remaining data, the remaining `len` and the padding total. -/
def padChain : Bytes → Int → Nat → Res (Bytes × Int × Nat)
  | data, len, pad =>
    if len ≤ 0 then .err .invalidPacket
    else match data with
      | [] => .oob
      | p :: rest =>
        if p = 255 then padChain rest (len - 1 - 254) (pad + 254)
        else .ok (rest, len - 1 - p, pad + p)

/-- VBR frame-length loop of a code-3 packet (src/opus.c:282-290), `n = count-1` iterations.
    Returns the sizes read, remaining data, `len` and `last_size`. -/
def vbrSizes : Nat → Bytes → Int → Int → Res (List Nat × Bytes × Int × Int)
  | 0, data, len, last => .ok ([], data, len, last)
  | n + 1, data, len, last =>
    match parseSize data len with
    | .ok (bytes, sz) =>
      let len' := len - bytes
      if sz < 0 ∨ sz > len' then .err .invalidPacket
      else
        match vbrSizes n (data.drop bytes.toNat) len' (last - (bytes + sz)) with
        | .ok (ss, d, l, la) => .ok (sz.toNat :: ss, d, l, la)
        | .err e => .err e
        | .oob => .oob
        | .abort => .abort
    | .err e => .err e
    | .oob => .oob
    | .abort => .abort

/-- State of the parser after the `switch (toc&0x3)` (src/opus.c:220-303). -/
structure Hdr where
  count : Nat
  cbr : Bool
  sizes : List Nat      -- sizes read explicitly so far (VBR forms only)
  data : Bytes
  len : Int
  lastSize : Int
  pad : Nat
  deriving Repr

/-- `default:` branch (code 3) of the switch (src/opus.c:250-302). -/
def parseCode3 (sd : Bool) (framesize : Nat) (data : Bytes) (len : Int) : Res Hdr :=
  if len < 1 then .err .invalidPacket
  else match data with
    | [] => .oob
    | ch :: data1 =>
      let count := ch % 64
      if count = 0 ∨ framesize * count > 5760 then .err .invalidPacket
      else
        let len1 := len - 1
        match (if ch / 64 % 2 = 1 then padChain data1 len1 0 else .ok (data1, len1, 0)) with
        | .ok (data2, len2, pad) =>
          if len2 < 0 then .err .invalidPacket
          else if ch / 128 % 2 = 1 then
            match vbrSizes (count - 1) data2 len2 len2 with
            | .ok (ss, d, l, last) =>
              if last < 0 then .err .invalidPacket
              else .ok { count, cbr := false, sizes := ss, data := d, len := l, lastSize := last, pad }
            | .err e => .err e
            | .oob => .oob
            | .abort => .abort
          else if sd then
            .ok { count, cbr := true, sizes := [], data := data2, len := len2, lastSize := len, pad }
          else
            let last := len2 / count
            if last * count ≠ len2 then .err .invalidPacket
            else .ok { count, cbr := true, sizes := [], data := data2, len := len2, lastSize := last, pad }
        | .err e => .err e
        | .oob => .oob
        | .abort => .abort

/-- The `switch (toc&0x3)` of `opus_packet_parse_impl`. `len` is the length after the TOC. -/
def parseHdr (sd : Bool) (toc : Nat) (data : Bytes) (len : Int) : Res Hdr :=
  if toc % 4 = 0 then
    .ok { count := 1, cbr := false, sizes := [], data, len, lastSize := len, pad := 0 }
  else if toc % 4 = 1 then
    if sd then .ok { count := 2, cbr := true, sizes := [], data, len, lastSize := len, pad := 0 }
    else if len % 2 = 1 then .err .invalidPacket
    else .ok { count := 2, cbr := true, sizes := [], data, len, lastSize := len / 2, pad := 0 }
  else if toc % 4 = 2 then
    match parseSize data len with
    | .ok (bytes, sz) =>
      let len' := len - bytes
      if sz < 0 ∨ sz > len' then .err .invalidPacket
      else .ok { count := 2, cbr := false, sizes := [sz.toNat], data := data.drop bytes.toNat,
                 len := len', lastSize := len' - sz, pad := 0 }
    | .err e => .err e
    | .oob => .oob
    | .abort => .abort
  else parseCode3 sd (samplesPerFrame toc 48000) data len

/-- What `opus_packet_parse_impl` reports on success. Frame `i` starts at
    `payloadOffset + Σ_{j<i} sizes[j]`; the padding pointer is
    `payloadOffset + Σ sizes`. -/
structure Parsed where
  toc : Nat
  count : Nat
  sizes : List Nat
  payloadOffset : Nat
  padLen : Nat
  packetOffset : Nat
  deriving DecidableEq, Repr

def Parsed.padOffset (r : Parsed) : Nat := r.payloadOffset + sumN r.sizes

def mkParsed (total toc : Nat) (h : Hdr) (sizes : List Nat) (data : Bytes) : Parsed :=
  { toc, count := h.count, sizes,
    payloadOffset := total - data.length,
    padLen := h.pad,
    packetOffset := h.pad + ((total - data.length) + sumN sizes) }

/-- Tail of `opus_packet_parse_impl` after the switch (src/opus.c:304-352). -/
def finish (sd : Bool) (total toc : Nat) (h : Hdr) : Res Parsed :=
  if sd then
    match parseSize h.data h.len with
    | .ok (bytes, sz) =>
      let len' := h.len - bytes
      if sz < 0 ∨ sz > len' then .err .invalidPacket
      else
        let data' := h.data.drop bytes.toNat
        if h.cbr then
          if sz * h.count > len' then .err .invalidPacket
          else .ok (mkParsed total toc h (List.replicate h.count sz.toNat) data')
        else if bytes + sz > h.lastSize then .err .invalidPacket
        else .ok (mkParsed total toc h (h.sizes ++ [sz.toNat]) data')
    | .err e => .err e
    | .oob => .oob
    | .abort => .abort
  else
    if h.lastSize > 1275 then .err .invalidPacket
    else if h.cbr then .ok (mkParsed total toc h (List.replicate h.count h.lastSize.toNat) h.data)
    else .ok (mkParsed total toc h (h.sizes ++ [h.lastSize.toNat]) h.data)

/-- `opus_packet_parse_impl` (src/opus.c:194-353) for `len = bs.length`, `size != NULL`. -/
def parseImpl (sd : Bool) (bs : Bytes) : Res Parsed :=
  match bs with
  | [] => .err .invalidPacket
  | toc :: data =>
    match parseHdr sd toc data data.length with
    | .ok h => finish sd bs.length toc h
    | .err e => .err e
    | .oob => .oob
    | .abort => .abort

/-- `opus_packet_parse_impl` with an explicit (possibly negative) `len` argument:
    `len<0` is `OPUS_BAD_ARG`; otherwise the first `len` bytes are the packet. -/
def parseImplLen (sd : Bool) (bs : Bytes) (len : Int) : Res Parsed :=
  if len < 0 then .err .badArg else parseImpl sd (bs.take len.toNat)

/-! ### TOC helpers (src/opus_decoder.c) -/

def OPUS_BANDWIDTH_NARROWBAND : Nat := 1101
def MODE_SILK_ONLY : Nat := 1000
def MODE_HYBRID : Nat := 1001
def MODE_CELT_ONLY : Nat := 1002

/-- `opus_packet_get_mode` (opus_decoder.c:242-255). -/
def getMode (toc : Nat) : Nat :=
  if toc / 128 % 2 = 1 then MODE_CELT_ONLY
  else if toc / 32 % 4 = 3 then MODE_HYBRID
  else MODE_SILK_ONLY

/-- `opus_packet_get_bandwidth` (opus_decoder.c:1150-1166). -/
def getBandwidth (toc : Nat) : Nat :=
  if toc / 128 % 2 = 1 then
    let bw := 1102 + toc / 32 % 4
    if bw = 1102 then 1101 else bw
  else if toc / 32 % 4 = 3 then (if toc / 16 % 2 = 1 then 1105 else 1104)
  else 1101 + toc / 32 % 4

/-- `opus_packet_get_nb_channels` (opus_decoder.c:1168-1171). -/
def getNbChannels (toc : Nat) : Nat := if toc / 4 % 2 = 1 then 2 else 1

/-- `opus_packet_get_nb_frames` (opus_decoder.c:1173-1187), `len = bs.length`. -/
def getNbFrames (bs : Bytes) : Res Nat :=
  match bs with
  | [] => .err .badArg
  | toc :: rest =>
    if toc % 4 = 0 then .ok 1
    else if toc % 4 ≠ 3 then .ok 2
    else match rest with
      | [] => .err .invalidPacket
      | b1 :: _ => .ok (b1 % 64)

/-- `opus_packet_get_nb_samples` (opus_decoder.c:1189-1204). -/
def getNbSamples (bs : Bytes) (fs : Nat) : Res Nat :=
  match getNbFrames bs with
  | .ok count =>
    let samples := count * samplesPerFrame (bs.headD 0) fs
    if samples * 25 > fs * 3 then .err .invalidPacket else .ok samples
  | .err e => .err e
  | .oob => .oob
  | .abort => .abort

/-- `opus_packet_has_lbrr` (opus_decoder.c:1206-1229).  Result `.ok 0/1`, or the
    parser's error.  A read of `frames[0][0]` when the first frame is empty, or of
    `packet[0]` when `len = 0`, is an out-of-bounds read: `.oob`. -/
def hasLbrr (bs : Bytes) : Res Nat :=
  match bs with
  | [] => .err .badArg
  | toc :: _ =>
    if getMode toc = MODE_CELT_ONLY then .ok 0
    else
      let pfs := samplesPerFrame toc 48000
      let nbFrames := if pfs > 960 then pfs / 960 else 1
      match parseImpl false bs with
      | .ok r =>
        match r.sizes with
        | [] => .oob
        | s0 :: _ =>
          if s0 = 0 then .ok 0
          else match bs.drop r.payloadOffset with
            | [] => .oob
            | f0 :: _ =>
              let l1 := f0 / 2 ^ (7 - nbFrames) % 2
              if getNbChannels toc = 2 then
                .ok (if l1 ≠ 0 ∨ f0 / 2 ^ (6 - 2 * nbFrames) % 2 ≠ 0 then 1 else 0)
              else .ok l1
      | .err e => .err e
      | .oob => .oob
      | .abort => .abort

end Opus.Framing
