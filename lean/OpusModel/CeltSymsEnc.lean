import OpusModel.Basic
import OpusModel.RangeCoder
import OpusModel.Laplace
import OpusModel.CeltSymsFrozen
import OpusModel.CeltAlloc
/-
  OpusModel.CeltSymsEnc — the *symbol writes of the CELT frame header, encoder side*: every range-coder call of
  `celt_encode_with_ec` (celt/celt_encoder.c:1603-2410) from its entry up to and including
  `clt_compute_allocation`, in order, with its parameters, under the budget conditions of the C code.  It is the
  mirror image of OpusModel/CeltSyms.lean (decoder side, owned by C03).

  Every float-driven decision of the encoder is an INPUT: the model pops one value from a decision stream `ds`
  exactly where the C code is about to write a symbol whose value comes from signal analysis —
      silence · pf_on · octave · pitch bits · qg · tapset · isTransient · intra · qi (per band and channel) ·
      tf_res[i] · tf_select · spread · dynalloc flag (per loop iteration) · alloc_trim ·
      VBR size · intensity · dual_stereo · lastCodedBands · signalBandwidth
  — and nowhere else: when the budget test in front of a symbol fails the C code forces the value (isTransient = 0,
  intra = 0, qi = −1, tf_res[i] = curr, spread = SPREAD_NORMAL, trim = 5 …) and nothing is popped.

  C sources transcribed (pinned tree):
    celt/celt_encoder.c:1711-1718, 1811, 1831-1849   tell / nbFilledBytes, total_bits, silence flag and its VBR shrink
    celt/celt_encoder.c:1873-1889                     post-filter parameters
    celt/celt_encoder.c:1903-1910, 2074-2075          transient flag
    celt/quant_bands.c:156-257, 259-343               quant_coarse_energy(_impl): intra flag, qi with the budget
                                                      fall-backs; the two-pass selection is "the chosen pass"
    celt/celt_encoder.c:765-801                       tf_encode
    celt/celt_encoder.c:2142-2188                     spread decision
    celt/celt_encoder.c:2194-2232                     dynalloc boosts
    celt/celt_encoder.c:2248-2262                     allocation trim
    celt/celt_encoder.c:2264-2374                     VBR: the final `ec_enc_shrink`
    celt/celt_encoder.c:2381-2407                     bits, anti-collapse reservation, clt_compute_allocation (CeltAlloc)

  The range coder is OpusModel/RangeCoder.lean (owned by C08); the emitted calls are its `Op`s.
  One thing the header does to the coder that is not a call: for a silent frame `enc->nbits_total` is bumped so
  that `ec_tell` reports a full packet (celt_encoder.c:1847-1848).
  Core Lean only.
-/
namespace Opus.CeltSymsEnc
open Opus Opus.RangeCoder Opus.CeltSymsFrozen

/-- Static configuration and non-symbol inputs of one call. -/
structure EncCfg where
  start : Nat            -- st->start
  end_ : Nat             -- st->end
  C : Nat                -- st->stream_channels
  LM : Nat
  vbr : Bool             -- vbr_rate > 0
  lfe : Bool             -- st->lfe
  size : Nat             -- nbCompressedBytes where `total_bits = nbCompressedBytes*8` is computed (line 1811)
  deriving Repr, DecidableEq

/-- Running state of the model: coder context, calls made so far, decisions still to be consumed. -/
structure St where
  e : Enc
  ops : List Op := []
  ds : List Int := []
  deriving Repr

def St.emit (s : St) (op : Op) : St := { s with e := encOp s.e op, ops := s.ops ++ [op] }

/-- next decision value (0 when the stream is exhausted) -/
def St.pop (s : St) : Int × St := (s.ds.headD 0, { s with ds := s.ds.tail })

/-! ### Silence (celt_encoder.c:1831-1849) -/

/-- In VBR mode a silent frame is cut down to two bytes beyond what is already there (celt_encoder.c:1838-1844);
    `nbFilledBytes = (tell+4)>>3`. -/
def silenceShrink (cfg : EncCfg) (tell0 : Int) (s : St) : Nat × St :=
  if cfg.vbr then
    (min cfg.size (((tell0 + 4) / 8).toNat + 2), s.emit (.shrink (min cfg.size (((tell0 + 4) / 8).toNat + 2))))
  else (cfg.size, s)

/-- `enc->nbits_total += tell - ec_tell(enc)` (celt_encoder.c:1847-1848): pretend the packet is full. -/
def bumpTell (tellV : Int) (s : St) : St :=
  { s with e := { s.e with nbitsTotal := ((s.e.nbitsTotal : Int) + (tellV - tell s.e)).toNat } }

/-- `(silence, nbCompressedBytes, tell, state)`: `tell` is the C local (the entry value, or a full packet). -/
def encSilence (cfg : EncCfg) (s : St) : Nat × Nat × Int × St :=
  if tell s.e = 1 then
    if s.pop.1 ≠ 0 then
      let r := silenceShrink cfg (tell s.e) (s.pop.2.emit (.bitLogp 1 15))
      (1, r.1, ((r.1 * 8 : Nat) : Int), bumpTell ((r.1 * 8 : Nat) : Int) r.2)
    else (0, cfg.size, tell s.e, s.pop.2.emit (.bitLogp 0 15))
  else (0, cfg.size, tell s.e, s)

/-! ### Post-filter (celt_encoder.c:1873-1889) -/

structure PfOut where
  on : Nat := 0
  octave : Nat := 0
  pitch : Nat := 0       -- pitch_index
  qg : Nat := 0
  tapset : Nat := 0
  deriving Repr, DecidableEq, Inhabited

/-- The `pf_on != 0` branch (celt_encoder.c:1877-1889), after the flag `1` has been written: octave, pitch bits, gain,
    tapset — the tapset is NOT gated by a budget test ("only because of the nbAvailableBytes check above"). -/
def pfOnWrite (s : St) : PfOut × St :=
  let oct := s.pop.1.toNat
  let s1 := s.pop.2.emit (.uint oct 6)
  let pb := s1.pop.1.toNat
  let s2 := s1.pop.2.emit (.bits pb (4 + oct))
  let qg := s2.pop.1.toNat
  let s3 := s2.pop.2.emit (.bits qg 3)
  let ts := s3.pop.1.toNat
  ({ on := 1, octave := oct, pitch := 16 * 2 ^ oct + pb - 1, qg := qg, tapset := ts }, s3.pop.2.emit (.icdf ts tapsetIcdf 2))

/-- `hybrid = start != 0`.  The flag is only written for `!hybrid && tell+16<=total_bits`; `pf_on != 0` is only
    possible then (`enabled`, line 1865). -/
def encPostFilter (cfg : EncCfg) (totalBits tellV : Int) (s : St) : PfOut × St :=
  if cfg.start = 0 ∧ tellV + 16 ≤ totalBits then
    if s.pop.1 = 0 then ({}, s.pop.2.emit (.bitLogp 0 1))
    else pfOnWrite (s.pop.2.emit (.bitLogp 1 1))
  else ({}, s)

/-! ### Transient flag (celt_encoder.c:1903-1910, 2074-2075) -/

def encTransient (cfg : EncCfg) (totalBits : Int) (s : St) : Nat × St :=
  if cfg.LM > 0 ∧ tell s.e + 3 ≤ totalBits then
    ((if s.pop.1 ≠ 0 then 1 else 0), s.pop.2.emit (.bitLogp (if s.pop.1 ≠ 0 then 1 else 0) 3))
  else (0, s)

/-! ### Coarse energy (quant_bands.c:156-257) -/

/-- `2*qi^-(qi<0)` for `qi ∈ {-1, 0, 1}`: the `small_energy_icdf` symbol. -/
def smallSym (qi : Int) : Nat := if qi < 0 then 1 else if qi > 0 then 2 else 0

/-- One `(band i, channel)` of the inner loop: returns `(qi, qiDec, state)` — `qi` as the encoder keeps it (for its own
    `oldEBands` / `error`), `qiDec` what the written symbol means to the decoder.  They differ only in the one-bit
    fall-back, where the encoder writes `-qi` as a bit (any non-zero value is a 1) without clamping `qi` to −1; the
    clamp `qi = IMAX(-1, qi)` of the `bits_left < 16` rule has already done that for every band but `i == start`. -/
def encCoarseOne (cfg : EncCfg) (prob : List Nat) (budget : Int) (i : Nat) (s : St) : Res (Int × Int × St) :=
  let tl := tell s.e
  if budget - tl ≥ 1 then
    let (q0, s1) := s.pop
    let bitsLeft := budget - tl - 3 * cfg.C * ((cfg.end_ : Int) - i)
    let q1 := if i ≠ cfg.start ∧ bitsLeft < 30 then
                let a := if bitsLeft < 24 then min 1 q0 else q0
                if bitsLeft < 16 then max (-1) a else a
              else q0
    let q2 := if cfg.lfe ∧ i ≥ 2 then min q1 0 else q1
    if budget - tl ≥ 15 then
      match Laplace.encode q2 (prob.getD (2 * min i 20) 0 * 128) (prob.getD (2 * min i 20 + 1) 0 * 64) with
      | .ok (fl, fh, q) => .ok (q, q, s1.emit (.encodeBin fl fh 15))
      | _ => .abort
    else if budget - tl ≥ 2 then
      let q := max (-1) (min q2 1)
      .ok (q, q, s1.emit (.icdf (smallSym q) smallEnergyIcdf 2))
    else
      let q := min 0 q2
      .ok (q, (if q ≠ 0 then -1 else 0), s1.emit (.bitLogp (if q ≠ 0 then 1 else 0) 1))
  else .ok (-1, -1, s)

def encCoarseChans (cfg : EncCfg) (prob : List Nat) (budget : Int) (i : Nat) : Nat → St → Res (List Int × List Int × St)
  | 0, s => .ok ([], [], s)
  | n + 1, s =>
    match encCoarseOne cfg prob budget i s with
    | .ok (q, qd, s1) =>
      match encCoarseChans cfg prob budget i n s1 with
      | .ok (qs, qds, s2) => .ok (q :: qs, qd :: qds, s2)
      | r => r
    | _ => .abort

def encCoarseBands (cfg : EncCfg) (prob : List Nat) (budget : Int) : Nat → Nat → St → Res (List Int × List Int × St)
  | 0, _, s => .ok ([], [], s)
  | k + 1, i, s =>
    match encCoarseChans cfg prob budget i cfg.C s with
    | .ok (q, qd, s1) =>
      match encCoarseBands cfg prob budget k (i + 1) s1 with
      | .ok (qs, qds, s2) => .ok (q ++ qs, qd ++ qds, s2)
      | r => r
    | r => r

/-- The intra flag (quant_bands.c:166-167; `two_pass = intra = 0` when it does not fit, line 278-279). -/
def encIntra (totE : Int) (s : St) : Nat × St :=
  if tell s.e + 3 ≤ totE then
    ((if s.pop.1 ≠ 0 then 1 else 0 : Nat), s.pop.2.emit (.bitLogp (if s.pop.1 ≠ 0 then 1 else 0) 3))
  else (0, s)

/-- `quant_coarse_energy` as far as the bit-stream is concerned: the intra flag (if it fits) and the chosen pass. -/
def encCoarse (cfg : EncCfg) (totalBits : Int) (s : St) : Res (Nat × List Int × List Int × St) :=
  match encCoarseBands cfg ((eProbModel.getD cfg.LM []).getD (encIntra totalBits s).1 []) totalBits (cfg.end_ - cfg.start)
      cfg.start (encIntra totalBits s).2 with
  | .ok (qs, qds, s2) => .ok ((encIntra totalBits s).1, qs, qds, s2)
  | .err e => .err e
  | .oob => .oob
  | .abort => .abort

/-! ### tf_encode (celt_encoder.c:765-801) -/

/-- the band loop: `(tf_res[] raw, tf_changed, state)`.  The decision popped per coded band is the bit that is
    written, `tf_res[i] ^ curr` (a bijective re-parametrisation of `tf_res[i]`). -/
def encTfLoop (isT : Bool) (budget : Int) : Nat → Nat → Nat → Nat → St → List Nat × Nat × St
  | 0, _, _, changed, s => ([], changed, s)
  | k + 1, logp, curr, changed, s =>
    if tell s.e + logp ≤ budget then
      let b : Nat := if s.pop.1 ≠ 0 then 1 else 0
      let r := encTfLoop isT budget k (if isT then 4 else 5) (curr ^^^ b) (changed ||| (curr ^^^ b))
        (s.pop.2.emit (.bitLogp b logp))
      ((curr ^^^ b) :: r.1, r.2.1, r.2.2)
    else
      let r := encTfLoop isT budget k (if isT then 4 else 5) curr changed s
      (curr :: r.1, r.2.1, r.2.2)

def tfTable (LM idx : Nat) : Int := (tfSelectTable.getD LM []).getD idx 0

/-- `tf_select_rsv` (celt_encoder.c:774-775); `budget = enc->storage*8`. -/
def encTfRsv (cfg : EncCfg) (isT : Nat) (s : St) : Nat :=
  if cfg.LM > 0 ∧ tell s.e + ((if isT ≠ 0 then 2 else 4 : Nat) : Int) + 1 ≤ ((s.e.storage * 8 : Nat) : Int) then 1 else 0

/-- the tail of `tf_encode`: `tf_select` (written only if a bit was reserved and the two table rows differ) and the
    table look-up -/
def encTfFinish (cfg : EncCfg) (isT rsv : Nat) (raw : List Nat) (changed : Nat) (s1 : St) : List Int × Nat × List Nat × St :=
  if rsv ≠ 0 ∧ tfTable cfg.LM (4 * isT + 0 + changed) ≠ tfTable cfg.LM (4 * isT + 2 + changed) then
    let sel : Nat := if s1.pop.1 ≠ 0 then 1 else 0
    (raw.map (fun r => tfTable cfg.LM (4 * isT + 2 * sel + r)), sel, raw, s1.pop.2.emit (.bitLogp sel 1))
  else (raw.map (fun r => tfTable cfg.LM (4 * isT + r)), 0, raw, s1)

/-- `tf_encode`: `(tf_res[] after the table, tf_select, raw tf_res[], state)`.  Note `budget = enc->storage*8`. -/
def encTf (cfg : EncCfg) (isT : Nat) (s : St) : List Int × Nat × List Nat × St :=
  let r := encTfLoop (isT ≠ 0) (((s.e.storage * 8 : Nat) : Int) - encTfRsv cfg isT s) (cfg.end_ - cfg.start)
    (if isT ≠ 0 then 2 else 4) 0 0 s
  encTfFinish cfg isT (encTfRsv cfg isT s) r.1 r.2.1 r.2.2

/-! ### Spread, dynalloc, trim -/

def encSpread (totalBits : Int) (s : St) : Nat × St :=
  if tell s.e + 4 ≤ totalBits then (s.pop.1.toNat, s.pop.2.emit (.icdf s.pop.1.toNat spreadIcdf 5))
  else (2, s)

/-- `cap[i]` (init_caps) and `quanta` of band `i` (celt_encoder.c:2207-2209). -/
def capOf (cfg : EncCfg) (i : Nat) : Nat :=
  (cacheCaps.getD (nbEBands * (2 * cfg.LM + cfg.C - 1) + i) 0 + 64) * cfg.C *
    ((eBands.getD (i + 1) 0 - eBands.getD i 0) * 2 ^ cfg.LM) / 4

def quantaOf (cfg : EncCfg) (i : Nat) : Nat :=
  let width := cfg.C * (eBands.getD (i + 1) 0 - eBands.getD i 0) * 2 ^ cfg.LM
  min (width * 8) (max 48 width)

/-- The inner `for (j = 0; …)` loop for one band: `(boost, total_boost, state)`; one decision per iteration: the flag
    `j < offsets[i]`. -/
def encBoostLoop (cap quanta : Nat) (logp boost totalBoost : Nat) (totalF : Int) (s : St) : Nat × Nat × St :=
  if _h : (tellFrac s.e : Int) + logp * 8 < totalF - totalBoost ∧ boost < cap ∧ 0 < quanta then
    if s.pop.1 = 0 then (boost, totalBoost, s.pop.2.emit (.bitLogp 0 logp))
    else encBoostLoop cap quanta 1 (boost + quanta) (totalBoost + quanta) totalF (s.pop.2.emit (.bitLogp 1 logp))
  else (boost, totalBoost, s)
termination_by cap - boost
decreasing_by omega

def encDynalloc (cfg : EncCfg) (totalF : Int) : Nat → Nat → Nat → Nat → St → List Nat × Nat × St
  | 0, _, _, tb, s => ([], tb, s)
  | k + 1, i, dlogp, tb, s =>
    let r := encBoostLoop (capOf cfg i) (quantaOf cfg i) dlogp 0 tb totalF s
    let r2 := encDynalloc cfg totalF k (i + 1) (if r.1 > 0 then max 2 (dlogp - 1) else dlogp) r.2.1 r.2.2
    (r.1 :: r2.1, r2.2.1, r2.2.2)

def encTrim (totalF : Int) (totalBoost : Nat) (s : St) : Nat × St :=
  if (tellFrac s.e : Int) + 48 ≤ totalF - totalBoost then (s.pop.1.toNat, s.pop.2.emit (.icdf s.pop.1.toNat trimIcdf 7))
  else (5, s)

/-- VBR: the final size (celt_encoder.c:2276, 2370-2373): the decision popped is the rate control's byte count, the
    clamps to `nbCompressedBytes` and to 1275 >> (3-LM) are the code's. -/
def encVbrShrink (cfg : EncCfg) (size1 : Nat) (s : St) : Nat × St :=
  if cfg.vbr then
    (min (min size1 (1275 / 2 ^ (3 - cfg.LM))) s.pop.1.toNat,
     s.pop.2.emit (.shrink (min (min size1 (1275 / 2 ^ (3 - cfg.LM))) s.pop.1.toNat)))
  else (size1, s)

/-! ### The header -/

/-- Everything the encoder has decided and written when `clt_compute_allocation` returns. -/
structure EncHdr where
  silence : Nat
  pf : PfOut
  isTransient : Nat
  intra : Nat
  coarse : List Int          -- qi as the encoder keeps it (after the budget clamps and the Laplace clamp), band-major
  coarseDec : List Int       -- what the written symbols mean (differs from `coarse` only in the one-bit fall-back)
  tfRes : List Int
  tfRaw : List Nat
  tfSelect : Nat
  spread : Nat
  offsets : List Nat
  totalBoost : Nat
  trim : Nat
  size : Nat                 -- final nbCompressedBytes
  bits : Int                 -- `bits` handed to clt_compute_allocation
  antiCollapseRsv : Nat
  allocInp : CeltAlloc.Inp   -- the arguments of clt_compute_allocation
  alloc : CeltAlloc.Out
  opsPf : List Op            -- the calls up to and including the post-filter block
  opsHdr : List Op           -- the calls up to (not including) clt_compute_allocation
  ops : List Op              -- all calls
  encHdr : Enc               -- coder context when clt_compute_allocation is called
  enc : Enc                  -- coder context afterwards
  rest : List Int            -- decisions not yet used (those of the band data)
  deriving Repr

/-- the allocation's coder calls as range-coder operations -/
def allocOp : CeltAlloc.Op → Op
  | .bit v => .bitLogp v 1
  | .uint v ft => .uint v ft

/-- `bits` before the anti-collapse reservation (celt_encoder.c:2378) -/
def bitsOf (size2 : Nat) (e : Enc) : Int := ((size2 * 8 * 8 : Nat) : Int) - tellFrac e - 1

def acrOf (cfg : EncCfg) (isT : Nat) (bits0 : Int) : Nat :=
  if isT ≠ 0 ∧ cfg.LM ≥ 2 ∧ bits0 ≥ (cfg.LM + 2) * 8 then 8 else 0

/-- the arguments of `clt_compute_allocation`; the four decisions popped are `intensity`, `dual_stereo`,
    `lastCodedBands` and `signalBandwidth` -/
def allocInpOf (cfg : EncCfg) (offs : List Nat) (trim : Nat) (bits : Int) (s : St) : CeltAlloc.Inp :=
  CeltAlloc.Inp.mk cfg.start cfg.end_ ((List.replicate cfg.start 0) ++ offs.map (fun (x : Nat) => (x : Int)))
    (CeltAlloc.initCaps cfg.LM cfg.C) trim s.pop.1 s.pop.2.pop.1 bits cfg.C cfg.LM s.pop.2.pop.2.pop.1
    s.pop.2.pop.2.pop.2.pop.1

/-- everything behind the coarse energies -/
def encTail (cfg : EncCfg) (sil size1 : Nat) (pf : PfOut) (opsPf : List Op) (isT intra : Nat) (qs qds : List Int) (s4 : St) :
    Res EncHdr :=
  let totalBits : Int := ((size1 * 8 : Nat) : Int)
  let t := encTf cfg isT s4
  let sp := encSpread totalBits t.2.2.2
  let totalF : Int := totalBits * 8
  let dy := encDynalloc cfg totalF (cfg.end_ - cfg.start) cfg.start 6 0 sp.2
  let tr := encTrim totalF dy.2.1 dy.2.2
  let vb := encVbrShrink cfg size1 tr.2
  let bits0 := bitsOf vb.1 vb.2.e
  let acr := acrOf cfg isT bits0
  let inp := allocInpOf cfg dy.1 tr.1 (bits0 - acr) vb.2
  let se := vb.2.pop.2.pop.2.pop.2.pop.2
  match CeltAlloc.computeAllocation inp { encode := true } with
  | .ok o =>
    .ok { silence := sil, pf := pf, isTransient := isT, intra := intra, coarse := qs, coarseDec := qds, tfRes := t.1,
          tfRaw := t.2.2.1, tfSelect := t.2.1, spread := sp.1, offsets := dy.1, totalBoost := dy.2.1, trim := tr.1,
          size := vb.1, bits := bits0 - acr, antiCollapseRsv := acr, allocInp := inp, alloc := o, opsPf := opsPf, opsHdr := vb.2.ops,
          ops := se.ops ++ o.ops.map allocOp, encHdr := vb.2.e, enc := encRun se.e (o.ops.map allocOp), rest := se.ds }
  | .err e => .err e
  | .oob => .oob
  | .abort => .abort

/-- `celt_encode_with_ec` from entry to the return of `clt_compute_allocation`. -/
def encHeader (cfg : EncCfg) (s0 : St) : Res EncHdr :=
  let r1 := encSilence cfg s0
  let totalBits : Int := ((r1.2.1 * 8 : Nat) : Int)
  let r2 := encPostFilter cfg totalBits r1.2.2.1 r1.2.2.2
  let r3 := encTransient cfg totalBits r2.2
  match encCoarse cfg totalBits r3.2 with
  | .ok (intra, qs, qds, s4) => encTail cfg r1.1 r1.2.1 r2.1 r2.2.ops r3.1 intra qs qds s4
  | .err e => .err e
  | .oob => .oob
  | .abort => .abort

end Opus.CeltSymsEnc
