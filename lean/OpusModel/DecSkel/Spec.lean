import OpusModel.DecSkel
/-
  OpusModel.DecSkel.Spec — the predicates the C01/C09 theorems are stated with:
  the decoder invariant `DecInv`, the oracle contracts `OracleOk`, and `EvOk`, the
  well-formedness of one logged event (legal arguments for SILK/CELT, extent inside its buffer).
  Definitions only (no proofs), core Lean only.
-/
namespace Opus.DecSkel

/-- Legal API sampling rates. -/
def FsOk (fs : Int) : Prop := fs = 8000 ∨ fs = 12000 ∨ fs = 16000 ∨ fs = 24000 ∨ fs = 48000

/-- `(mode, bandwidth, frame_size)` are what some TOC byte announces at rate `fs`
    (or the reset values).  `u` = 2.5 ms. -/
def TocOk (fs mode bw fsz : Int) : Prop :=
  let u := fs / 400
  (mode = 0 ∧ bw = 0 ∧ fsz = u) ∨
  (mode = MODE_SILK ∧ (bw = BW_NB ∨ bw = BW_MB ∨ bw = BW_WB) ∧ (fsz = 4 * u ∨ fsz = 8 * u ∨ fsz = 16 * u ∨ fsz = 24 * u)) ∨
  (mode = MODE_HYBRID ∧ (bw = BW_SWB ∨ bw = BW_FB) ∧ (fsz = 4 * u ∨ fsz = 8 * u)) ∨
  (mode = MODE_CELT ∧ (bw = BW_NB ∨ bw = BW_WB ∨ bw = BW_SWB ∨ bw = BW_FB) ∧ (fsz = u ∨ fsz = 2 * u ∨ fsz = 4 * u ∨ fsz = 8 * u))

instance (fs mode bw fsz : Int) : Decidable (TocOk fs mode bw fsz) := by unfold TocOk; infer_instance
instance (fs : Int) : Decidable (FsOk fs) := by unfold FsOk; infer_instance

/-- The decoder invariant: what `validate_opus_decoder` asserts, plus what the control code
    relies on without checking (frame_size is a legal duration consistent with mode/bandwidth,
    the SILK control block is initialised whenever the previous mode used SILK). -/
structure DecInv (st : DecState) : Prop where
  fs : FsOk st.Fs
  ch : st.channels = 1 ∨ st.channels = 2
  api : st.dc.API_sampleRate = st.Fs
  nca : st.dc.nChannelsAPI = st.channels
  isr : st.dc.internalSampleRate = 0 ∨ st.dc.internalSampleRate = 8000 ∨ st.dc.internalSampleRate = 12000 ∨ st.dc.internalSampleRate = 16000
  nci : st.dc.nChannelsInternal = 0 ∨ st.dc.nChannelsInternal = 1 ∨ st.dc.nChannelsInternal = 2
  ps : st.dc.payloadSize_ms = 0 ∨ st.dc.payloadSize_ms = 10 ∨ st.dc.payloadSize_ms = 20 ∨ st.dc.payloadSize_ms = 40 ∨ st.dc.payloadSize_ms = 60
  sch : st.stream_channels = 1 ∨ st.stream_channels = 2
  toc : TocOk st.Fs st.mode st.bandwidth st.frame_size
  pm : st.prev_mode = 0 ∨ st.prev_mode = MODE_SILK ∨ st.prev_mode = MODE_HYBRID ∨ st.prev_mode = MODE_CELT
  pr : st.prev_redundancy = 0 ∨ st.prev_redundancy = 1
  silkReady : (st.prev_mode = MODE_SILK ∨ st.prev_mode = MODE_HYBRID) → st.dc.internalSampleRate ≠ 0 ∧ st.dc.nChannelsInternal ≠ 0
  gain : -32768 ≤ st.decode_gain ∧ st.decode_gain ≤ 32767
  lpd : 0 ≤ st.last_packet_duration

/-- Arguments that pass the checks of silk/dec_API.c:159-207,220. -/
def SilkArgsOk (a : SilkArgs) : Prop :=
  (a.payloadSize_ms = 10 ∨ a.payloadSize_ms = 20 ∨ a.payloadSize_ms = 40 ∨ a.payloadSize_ms = 60) ∧
  (a.internalSampleRate = 8000 ∨ a.internalSampleRate = 12000 ∨ a.internalSampleRate = 16000) ∧
  (a.nChannelsInternal = 1 ∨ a.nChannelsInternal = 2) ∧ (a.nChannelsAPI = 1 ∨ a.nChannelsAPI = 2) ∧
  FsOk a.API_sampleRate ∧ (a.lostFlag = 0 ∨ a.lostFlag = 1 ∨ a.lostFlag = 2)

/-- `*nSamplesOut` of a successful `silk_Decode`: one 10 ms or 20 ms frame at the API rate. -/
def silkSamples (a : SilkArgs) : Int := (if a.payloadSize_ms = 10 then 10 else 20) * (a.API_sampleRate / 1000)

/-- Arguments that pass the checks of celt/celt_decoder.c:1057-1066 (no CUSTOM_MODES). -/
def CeltArgsOk (a : CeltArgs) : Prop :=
  FsOk a.fs ∧ (a.frame_size = a.fs / 400 ∨ a.frame_size = a.fs / 200 ∨ a.frame_size = a.fs / 100 ∨ a.frame_size = a.fs / 50) ∧
  0 ≤ a.len ∧ a.len ≤ 1275 ∧ (a.channels = 1 ∨ a.channels = 2)

/-- The oracle contracts (each is asserted on every explored call by the wrappers of
    harness/c01_decskel.c; a violation is reported as `O CONTRACT …`). -/
structure OracleOk (o : Oracle) : Prop where
  silk : ∀ k a, SilkArgsOk a → (o.silk k a).1 = 0 ∧ (o.silk k a).2.1 = silkSamples a ∧ (a.lostFlag ≠ 1 → 1 ≤ (o.silk k a).2.2)
  celt : ∀ k a, CeltArgsOk a → o.celt k a = a.frame_size
  bit : ∀ k logp tell, 0 ≤ logp →
    ((o.bit k logp tell).1 = 0 ∨ (o.bit k logp tell).1 = 1) ∧ tell ≤ (o.bit k logp tell).2 ∧ (o.bit k logp tell).2 ≤ tell + logp
  uint : ∀ k ft tell, 0 < ft → 0 ≤ (o.uint k ft tell).1 ∧ (o.uint k ft tell).1 < ft ∧ tell ≤ (o.uint k ft tell).2

/-- `n` samples at `p` lie inside the buffer `p` points into. -/
def Ptr.room (p : Ptr) (n : Int) : Prop := 0 ≤ p.off ∧ 0 ≤ n ∧ p.off + n ≤ p.cap

/-- One logged event is well-formed: legal arguments, footprint inside its buffer, and (for the
    CELT calls that are given packet bytes) no more bytes than the frame has. -/
def EvOk : Ev → Prop
  | .decInit off len => 0 ≤ off ∧ 2 ≤ len ∧ len ≤ 1275
  | .silk a p ret n => SilkArgsOk a ∧ ret = 0 ∧ n = silkSamples a ∧ p.room (n * a.nChannelsAPI)
  | .celt a p ret => CeltArgsOk a ∧ ret = a.frame_size ∧ p.room (a.frame_size * a.channels) ∧ a.len ≤ a.avail ∧
                     (∀ off, a.dataOff = some off → 0 ≤ off)
  | .acc _ p n => p.room n
  | .silkReset => True
  | .clip p n ch => p.room (n * ch)

/-- Capacity of the buffer a pointer claims to point into: the caller's buffer has `cap0`
    samples, the scratch buffers have the sizes `opus_decode_frame` allocates for them. -/
def PtrCapOk (st : DecState) (cap0 : Int) (p : Ptr) : Prop :=
  match p.buf with
  | .pcm => p.cap = cap0
  | .silk => p.cap = F10 st * st.channels
  | .trans => p.cap = F5 st * st.channels
  | .red => p.cap = F5 st * st.channels

def Ev.ptr? : Ev → Option Ptr
  | .silk _ p _ _ => some p
  | .celt _ p _ => some p
  | .acc _ p _ => some p
  | .clip p _ _ => some p
  | _ => none

/-- One logged event is well-formed AND the pointer it carries names the true capacity of the buffer
    it points into (`st0` fixes Fs/channels, i.e. the scratch-buffer sizes; `cap0` is the size of the
    caller's buffer in samples). -/
def EvGood (st0 : DecState) (cap0 : Int) (e : Ev) : Prop :=
  EvOk e ∧ ∀ p, e.ptr? = some p → PtrCapOk st0 cap0 p

/-- The PCM extent an event touches: pointer and number of samples from it. -/
def Ev.extent? : Ev → Option (Ptr × Int)
  | .silk a p _ n => some (p, n * a.nChannelsAPI)
  | .celt a p _ => some (p, a.frame_size * a.channels)
  | .acc _ p n => some (p, n)
  | .clip p n ch => some (p, n * ch)
  | _ => none

/-- All logged events are well-formed (legal oracle arguments, extents inside the right buffers). -/
def LogGood (st0 : DecState) (cap0 : Int) (r : Run) : Prop := ∀ e ∈ r.log, EvGood st0 cap0 e

/-- The documented results of a decode call with room for `frame_size` samples per channel. -/
def RetOk (frame_size : Int) (v : Int) : Prop :=
  v = BAD_ARG ∨ v = BUFFER_TOO_SMALL ∨ v = INVALID_PACKET ∨ (0 < v ∧ v ≤ frame_size)

/-- What a concealment request returns (`opus_decode_native` with no packet, or the FEC paths):
    the requested duration, or `OPUS_BUFFER_TOO_SMALL` when it is shorter than 2.5 ms. -/
def plcRet (st : DecState) (frame_size : Int) : Int :=
  if frame_size < st.Fs / 400 then BUFFER_TOO_SMALL else frame_size

/-- The return value of `opus_decode_native` as a function of the arguments, the sampling rate and
    nothing else: it depends neither on the decoder history nor on anything the DSP does.
    (`OpusProofs.DecSkelNative.decodeNative_spec` proves that this is what the skeleton returns.) -/
def nativeRet (st : DecState) (data : Option Bytes) (len frame_size fec : Int) (sd : Bool) : Int :=
  if fec < 0 ∨ fec > 1 then BAD_ARG
  else if (fec ≠ 0 ∨ len = 0 ∨ data.isNone) ∧ cmod frame_size (st.Fs / 400) ≠ 0 then BAD_ARG
  else if len = 0 ∨ data.isNone then plcRet st frame_size
  else if len < 0 then BAD_ARG
  else
    match Framing.parseImpl sd ((data.getD []).take len.toNat) with
    | .ok p =>
      if fec ≠ 0 then plcRet st frame_size
      else if (p.count : Int) * (Framing.samplesPerFrame (((data.getD []).take len.toNat).headD 0) st.Fs.toNat : Int) > frame_size then
        BUFFER_TOO_SMALL
      else (p.count : Int) * (Framing.samplesPerFrame (((data.getD []).take len.toNat).headD 0) st.Fs.toNat : Int)
    | .err e => e.code
    | _ => INVALID_PACKET

/-- One call of a history on the same decoder state. -/
inductive Call where
  | decode (fmt : Fmt) (data : Option Bytes) (len frame_size fec : Int)     -- decode / loss (NULL) / FEC
  | native (data : Option Bytes) (len frame_size fec : Int) (sd soft_clip : Bool)
  | reset
  | gain (v : Int)

/-- The packet bytes of a call are bytes (`< 256`). -/
def Call.WF : Call → Prop
  | .decode _ data _ _ _ => ∀ bs, data = some bs → BytesOk bs
  | .native data _ _ _ _ _ => ∀ bs, data = some bs → BytesOk bs
  | _ => True

/-- The decoder state after one call, for a given oracle. -/
def stepCall (o : Oracle) (st : DecState) : Call → DecState
  | .decode fmt data len fsz fec => (decodeApi o fmt data len fsz fec { st, k := 0, log := [] }).run.st
  | .native data len fsz fec sd sc =>
    (decodeNative o data len { buf := .pcm, off := 0, cap := fsz * st.channels } fsz fec sd sc { st, k := 0, log := [] }).run.st
  | .reset => reset st
  | .gain v => (setGain st v).2

/-- The decoder state after a history; `os` gives the oracle of each call. -/
def runHistory (os : Nat → Oracle) : Nat → DecState → List Call → DecState
  | _, st, [] => st
  | i, st, c :: cs => runHistory os (i + 1) (stepCall (os i) st c) cs

end Opus.DecSkel
