import OpusModel.DecSkel
import OpusModel.Layout
/-
  OpusModel.DecSkel.Ms — `opus_multistream_decode_native` (src/opus_multistream_decoder.c:178-307) with the REAL
  per-stream calls: stream `s` is decoded by `Opus.DecSkel.decodeNative` (the skeleton of `opus_decode_native`) on its own
  decoder state and its own DSP oracle, from the bytes that remain after the previous streams, with self-delimited
  framing for all but the last stream, into the stack buffer `buf` of `2·frame_size` samples; the copy-out calls are
  those of C10's routing model (`Opus.Layout.streamCalls` / `mutedCalls`).  The projection decoder
  (src/opus_projection_decoder.c:239-264) is the same function with a different `copy_channel_out`.
  Definitions only; core Lean only.
-/
namespace Opus.DecSkel
open Opus Opus.Framing

/-- Accumulated while the stream loop runs. -/
structure MsAcc where
  sts : List DecState                 -- post-states of the streams already decoded, in order
  trace : List (Int × Int)            -- (return value, packet_offset) of each per-stream call made
  mscalls : List MsCall               -- arguments of each per-stream call made
  logs : List (List Ev)               -- event log of each per-stream call (newest event first; pointers relative to `buf`)
  copies : List Layout.Call           -- copy_channel_out calls made

/-- Outcome of `opus_multistream_decode_native`. -/
structure MsOut where
  ret : Out Int
  sts : List DecState                 -- all stream states after the call
  trace : List (Int × Int)
  mscalls : List MsCall
  logs : List (List Ev)
  copies : List Layout.Call

def MsAcc.out (a : MsAcc) (ret : Out Int) (rest : List DecState) : MsOut :=
  { ret := ret, sts := a.sts ++ rest, trace := a.trace, mscalls := a.mscalls, logs := a.logs, copies := a.copies }

/-- The per-stream call (:253): `opus_decode_native(dec, data, len, buf, frame_size, decode_fec, s!=nb_streams-1,
    &packet_offset, soft_clip, NULL, 0)` on the state of stream `s`, with `buf` (capacity `bufCap`) as PCM buffer. -/
def msStream (os : Nat → Oracle) (l : Layout.ChannelLayout) (fec : Int) (sc : Bool) (bufCap : Int) (s : Nat) (st : DecState)
    (bs : Bytes) (len fsz : Int) : NativeOut :=
  decodeNative (os s) (some bs) len { buf := .pcm, off := 0, cap := bufCap } fsz fec (decide (s ≠ l.nbStreams - 1)) sc
    { st := st, k := 0, log := [] }

/-- Record one per-stream call. -/
def MsAcc.step (a : MsAcc) (x : NativeOut) (ret : Int) (c : MsCall) (newCopies : List Layout.Call) : MsAcc :=
  { sts := a.sts ++ [x.run.st], trace := a.trace ++ [(ret, x.packetOffset)], mscalls := a.mscalls ++ [c],
    logs := a.logs ++ [x.run.log], copies := a.copies ++ newCopies }

/-- The stream loop (:238-295) followed by the muted-channel loop (:296-304).  `sts` = states of the streams still to
    decode, `s` = index of the next one, `bs`/`len` = remaining bytes, `fsz` = current `frame_size`. -/
def msFullLoop (os : Nat → Oracle) (l : Layout.ChannelLayout) (fec : Int) (sc doPlc : Bool) (bufCap : Int) :
    List DecState → Nat → Bytes → Int → Int → MsAcc → MsOut
  | [], _, _, _, fsz, a =>
    { a with copies := a.copies ++ Layout.mutedCalls fsz (l.mapping.take l.nbChannels) 0 }.out (.ret fsz) []
  | st :: rest, s, bs, len, fsz, a =>
    if ¬ doPlc ∧ len ≤ 0 then a.out (.ret INTERNAL_ERROR) (st :: rest)                               -- :247-251
    else
      match (msStream os l fec sc bufCap s st bs len fsz).ret with                                      -- :253
      | .ret ret =>
        if ret ≤ 0 then                                                                                 -- :259-263
          (a.step (msStream os l fec sc bufCap s st bs len fsz) ret
            { s := s, len := len, frame_size := fsz, sd := decide (s ≠ l.nbStreams - 1) } []).out (.ret ret) rest
        else
          msFullLoop os l fec sc doPlc bufCap rest (s + 1)
            (if doPlc then bs else bs.drop (msStream os l fec sc bufCap s st bs len fsz).packetOffset.toNat)   -- :254-258
            (if doPlc then len else len - (msStream os l fec sc bufCap s st bs len fsz).packetOffset)
            ret                                                                                          -- :264
            (a.step (msStream os l fec sc bufCap s st bs len fsz) ret
              { s := s, len := len, frame_size := fsz, sd := decide (s ≠ l.nbStreams - 1) }
              (Layout.streamCalls l s ret))                                                              -- :265-294
      | .abort => a.out .abort (st :: rest)
      | .hang => a.out .hang (st :: rest)

/-- `opus_multistream_decode_native` (:178-307).  `sts` = the per-stream decoder states (coupled streams first),
    all created at rate `Fs`; `os s` = the DSP oracle of stream `s`. -/
def msDecodeFull (os : Nat → Oracle) (l : Layout.ChannelLayout) (Fs : Int) (sts : List DecState) (bs : Bytes)
    (len frame_size fec : Int) (sc : Bool) : MsOut :=
  if frame_size ≤ 0 then (⟨[], [], [], [], []⟩ : MsAcc).out (.ret BAD_ARG) sts
  else if len < 0 then (⟨[], [], [], [], []⟩ : MsAcc).out (.ret BAD_ARG) sts
  else if ¬ decide (len = 0) ∧ len < 2 * (l.nbStreams : Int) - 1 then (⟨[], [], [], [], []⟩ : MsAcc).out (.ret INVALID_PACKET) sts
  else if ¬ decide (len = 0) ∧ msValidate Fs l.nbStreams true (bs.take len.toNat) 0 < 0 then
    (⟨[], [], [], [], []⟩ : MsAcc).out (.ret (msValidate Fs l.nbStreams true (bs.take len.toNat) 0)) sts
  else if ¬ decide (len = 0) ∧ msValidate Fs l.nbStreams true (bs.take len.toNat) 0 > min frame_size (Fs / 25 * 3) then
    (⟨[], [], [], [], []⟩ : MsAcc).out (.ret BUFFER_TOO_SMALL) sts
  else
    msFullLoop os l fec sc (decide (len = 0)) (2 * min frame_size (Fs / 25 * 3)) sts 0 bs len (min frame_size (Fs / 25 * 3))
      ⟨[], [], [], [], []⟩

end Opus.DecSkel
