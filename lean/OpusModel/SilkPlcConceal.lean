import OpusModel.SilkPlcConcealFix
import OpusModel.SilkPlcGains
import OpusModel.SilkParams.Lpc
/-
  OpusModel.SilkPlcConceal — bit-exact value model of silk/PLC.c: silk_PLC_Reset (:61-70), silk_PLC (:72-114),
  silk_PLC_update (:119-190), silk_PLC_energy (:192-214), silk_PLC_conceal (:216-430).

  The scalar gain recursions (attenuation tables, first-lost-frame set-up of rand_scale_Q14 / rand_Gain_Q15,
  per-sub-frame attenuation) are `OpusModel.SilkPlcGains` (C09, imported read-only: `gainSetup`, `harmStep`,
  `randStep`, `harmGain`); `silk_LPC_inverse_pred_gain` is C18's `lpcInversePredGain`.
  State members are `Int`s / `List Int`s holding values of their C type; dimensions are `Nat`s.
-/
namespace Opus.SilkPlc
open Opus Opus.SilkParams Opus.Gen.PlcConsts Opus.Gen.SilkPlcCngConsts

/-- `silk_PLC_struct` (structs.h:255-270; `enable_deep_plc` is not compiled in). -/
structure Plc where
  pitchLQ8 : Int
  ltpCoef : List Int          -- LTPCoef_Q14[ LTP_ORDER ]
  prevLPC : List Int          -- prevLPC_Q12[ MAX_LPC_ORDER ]
  lastFrameLost : Int
  randSeed : Int
  randScale : Int             -- randScale_Q14 (opus_int16)
  concEnergy : Int
  concEnergyShift : Int
  prevLtpScale : Int          -- prevLTP_scale_Q14 (opus_int16)
  prevGain : List Int         -- prevGain_Q16[ 2 ]
  fsKHz : Int
  nbSubfr : Int
  subfrLength : Int
  deriving DecidableEq, Repr

/-- The members of `silk_decoder_state` that silk_PLC reads or writes. -/
structure Dec where
  fsKHz : Int
  nbSubfr : Nat
  frameLength : Nat
  subfrLength : Nat
  ltpMemLength : Nat
  lpcOrder : Nat
  lossCnt : Int
  prevSignalType : Int
  firstFrameAfterReset : Int
  signalType : Int            -- indices.signalType
  excQ14 : List Int           -- exc_Q14[ MAX_FRAME_LENGTH ]
  sLPC : List Int             -- sLPC_Q14_buf[ MAX_LPC_ORDER ]
  outBuf : List Int           -- outBuf[ MAX_FRAME_LENGTH + 2 * MAX_SUB_FRAME_LENGTH ]
  plc : Plc
  deriving DecidableEq, Repr

/-- `silk_decoder_control` (structs.h). -/
structure Ctrl where
  pitchL : List Int           -- [ MAX_NB_SUBFR ]
  gains : List Int            -- Gains_Q16[ MAX_NB_SUBFR ]
  predCoef1 : List Int        -- PredCoef_Q12[ 1 ][ MAX_LPC_ORDER ]
  ltpCoef : List Int          -- LTPCoef_Q14[ LTP_ORDER * MAX_NB_SUBFR ]
  ltpScale : Int              -- LTP_scale_Q14
  deriving DecidableEq, Repr

/-! ### silk_PLC_Reset, the rate check of silk_PLC -/

/-- `silk_PLC_Reset` (PLC.c:61-70). -/
def plcReset (frameLength : Nat) (p : Plc) : Plc :=
  { p with pitchLQ8 := lshift32 frameLength 7, prevGain := [65536, 65536], subfrLength := 20, nbSubfr := 2 }

/-- PLC.c:84-87. -/
def plcRateCheck (d : Dec) : Plc :=
  if d.fsKHz ≠ d.plc.fsKHz then { plcReset d.frameLength d.plc with fsKHz := d.fsKHz } else d.plc

/-! ### silk_PLC_update -/

/-- `temp_LTP_Gain_Q14` (PLC.c:139-142): sum of the 5 taps of sub-frame `sf`. -/
def ltpSum (ltp : List Int) (sf : Nat) : Int :=
  ((List.range LTP_ORDER).map fun i => ltp.getD (sf * LTP_ORDER + i) 0).foldl (· + ·) 0

/-- The scan PLC.c:135-151 over `j = 0, 1, …` (at most `nb` iterations: `j == nb_subfr` breaks):
    state `(LTP_Gain_Q14, pitchL_Q8)`; `n` = iterations left. -/
def updScan (nb : Nat) (sl : Int) (pitchL ltp : List Int) : Nat → Nat → Int × Int → Int × Int
  | 0, _, s => s
  | n + 1, j, (g, p) =>
    if (j : Int) * sl < pitchL.getD (nb - 1) 0 then
      let t := ltpSum ltp (nb - 1 - j)
      updScan nb sl pitchL ltp n (j + 1) (if t > g then (t, lshift32 (pitchL.getD (nb - 1 - j) 0) 8) else (g, p))
    else (g, p)

/-- PLC.c:153-175: the collapsed, limited `LTPCoef_Q14[5]` from `LTP_Gain_Q14`. -/
def updLtpCoef (g : Int) : List Int :=
  let c : List Int := [0, 0, wrap16 g, 0, 0]
  if g < V_PITCH_GAIN_START_MIN_Q14 then
    let scale := div32 (lshift32 V_PITCH_GAIN_START_MIN_Q14 10) (max g 1)
    c.map fun x => wrap16 (shrI (smulbb x scale) 10)
  else if g > V_PITCH_GAIN_START_MAX_Q14 then
    let scale := div32 (lshift32 V_PITCH_GAIN_START_MAX_Q14 14) (max g 1)
    c.map fun x => wrap16 (shrI (smulbb x scale) 14)
  else c

/-- `silk_PLC_update` (PLC.c:119-190) on the rate-checked PLC state `p`. -/
def plcUpdate (d : Dec) (c : Ctrl) (p : Plc) : Dec :=
  let (pq8, coef) :=
    if d.signalType = TYPE_VOICED then
      let r := updScan d.nbSubfr d.subfrLength c.pitchL c.ltpCoef d.nbSubfr 0 (0, p.pitchLQ8)
      (r.2, updLtpCoef r.1)
    else (lshift32 (smulbb d.fsKHz 18) 8, [0, 0, 0, 0, 0])
  let p' : Plc :=
    { p with pitchLQ8 := pq8, ltpCoef := coef,
             prevLPC := c.predCoef1.take d.lpcOrder ++ p.prevLPC.drop d.lpcOrder,
             prevLtpScale := wrap16 c.ltpScale,
             prevGain := [c.gains.getD (d.nbSubfr - 2) 0, c.gains.getD (d.nbSubfr - 1) 0],
             subfrLength := d.subfrLength, nbSubfr := d.nbSubfr }
  { d with prevSignalType := d.signalType, plc := p' }

/-! ### silk_PLC_energy -/

/-- `exc_buf` of sub-frame `k ∈ {0,1}` (PLC.c:203-209). -/
def energyBuf (d : Dec) (g10 : List Int) (k : Nat) : List Int :=
  (List.range d.subfrLength).map fun i =>
    sat16 (shrI (smulww (d.excQ14.getD (i + (k + d.nbSubfr - 2) * d.subfrLength) 0) (g10.getD k 0)) 8)

/-- `silk_PLC_energy` (PLC.c:192-214): `((energy1, shift1), (energy2, shift2))`. -/
def plcEnergy (d : Dec) (g10 : List Int) : (Int × Int) × (Int × Int) :=
  (sumSqrShift (energyBuf d g10 0), sumSqrShift (energyBuf d g10 1))

/-- Offset of `rand_ptr` into `exc_Q14` (PLC.c:262-268). -/
def randPtrOff (p : Plc) (e : (Int × Int) × (Int × Int)) : Int :=
  if shrI e.1.1 e.2.2.toNat < shrI e.2.1 e.1.2.toNat then
    max 0 ((p.nbSubfr - 1) * p.subfrLength - RAND_BUF_SIZE)
  else max 0 (p.nbSubfr * p.subfrLength - RAND_BUF_SIZE)

/-! ### silk_PLC_conceal -/

/-- `silk_LSHIFT( silk_SMULBB( MAX_PITCH_LAG_MS, fs_kHz ), 8 )` (PLC.c:361). -/
def maxPitchQ8 (fsKHz : Int) : Int := lshift32 (smulbb MAX_PITCH_LAG_MS fsKHz) 8

/-- Pitch-lag drift of one sub-frame (PLC.c:360-361). -/
def pitchDrift (fsKHz pq8 : Int) : Int := min (smlawb pq8 pq8 PITCH_DRIFT_FAC_Q16) (maxPitchQ8 fsKHz)

/-- `lag = silk_RSHIFT_ROUND( pitchL_Q8, 8 )`. -/
def lagOf (pq8 : Int) : Int := rshiftRound pq8 8

/-- `LTP_pred_Q12` (PLC.c:337-342): bias 2, five `silk_SMLAWB` over `pred_lag_ptr[0], [-1], …`. -/
def ltpPred (buf : Array Int) (p : Int) : List Int → Int → Int → Int
  | [], _, acc => acc
  | b :: bs, j, acc => ltpPred buf p bs (j + 1) (smlawb acc (agetI buf (p - j)) b)

/-- One sub-frame of the LTP synthesis loop PLC.c:334-350: appends `subfr_length` samples to `buf`
    (`sLTP_Q14`; `sLTP_buf_idx = buf.size`). -/
def ltpSubfr (rnd : Array Int) (roff : Int) (B : List Int) (rs lag : Int) : Nat → Array Int → Int → Array Int × Int
  | 0, buf, seed => (buf, seed)
  | n + 1, buf, seed =>
    let pred := ltpPred buf ((buf.size : Int) - lag + (LTP_ORDER : Int) / 2) B 0 2
    let seed := silkRand seed
    let idx := shrI seed 25 % (RAND_BUF_MASK + 1)                      -- silk_RSHIFT( rand_seed, 25 ) & RAND_BUF_MASK
    ltpSubfr rnd roff B rs lag n (buf.push (lshift32 (smlawb pred (agetI rnd (roff + idx)) rs) 2)) seed

/-- State carried across the sub-frame loop PLC.c:331-363. -/
structure LtpLoop where
  buf : Array Int
  seed : Int
  B : List Int
  rs : Int
  pq8 : Int
  deriving Repr

/-- `nb_subfr` iterations of PLC.c:331-363. -/
def ltpLoop (rnd : Array Int) (roff : Int) (sl : Nat) (fsKHz harm rg : Int) : Nat → LtpLoop → LtpLoop
  | 0, s => s
  | k + 1, s =>
    let r := ltpSubfr rnd roff s.B s.rs (lagOf s.pq8) sl s.buf s.seed
    ltpLoop rnd roff sl fsKHz harm rg k
      { buf := r.1, seed := r.2, B := s.B.map (SilkPlcGains.harmStep harm), rs := SilkPlcGains.randStep s.rs rg,
        pq8 := pitchDrift fsKHz s.pq8 }

/-- `idx` of PLC.c:318 (start of the re-whitened segment). -/
def rewhitenIdx (d : Dec) (lag : Int) : Int := (d.ltpMemLength : Int) - lag - d.lpcOrder - (LTP_ORDER : Int) / 2

/-- `sLTP_Q14[0 .. ltp_mem_length)` after PLC.c:318-326 (entries below `idx + LPC_order` are never written in C,
    never read either; they are 0 here). -/
def rewhiten (d : Dec) (A : List Int) (lag invGainQ30 : Int) : Res (Array Int) :=
  let idx := rewhitenIdx d lag
  if idx ≤ 0 then .abort                                               -- celt_assert( idx > 0 )
  else
    match lpcAnalysisFilter d.outBuf.toArray idx A ((d.ltpMemLength : Int) - idx) with
    | .ok sLTP =>
      .ok ((List.replicate idx.toNat 0 ++ sLTP.map fun v => smulwb invGainQ30 v).toArray)
    | .abort => .abort
    | .oob => .oob
    | .err e => .err e

/-- Result of `silk_PLC_conceal`: the frame, the new state, and `psDecCtrl->pitchL[0..4)`. -/
structure ConcealOut where
  frame : List Int
  dec : Dec
  pitchL : List Int
  deriving Repr

/-- `silk_PLC_conceal` (PLC.c:216-430) on the rate-checked PLC state `p0`. -/
def plcConceal (d : Dec) (p0 : Plc) : Res ConcealOut :=
  let g10 := [shrI (p0.prevGain.getD 0 0) 6, shrI (p0.prevGain.getD 1 0) 6]
  let prevLPC0 := if d.firstFrameAfterReset ≠ 0 then List.replicate MAX_LPC_ORDER 0 else p0.prevLPC
  let e := plcEnergy d g10
  let roff := randPtrOff p0 e
  let voiced := decide (d.prevSignalType = TYPE_VOICED)
  -- LPC concealment: bandwidth expansion of the previous LPC (PLC.c:283)
  let prevLPC := bwexp16 (prevLPC0.take d.lpcOrder) BWE_COEF_Q16 ++ prevLPC0.drop d.lpcOrder
  let A := prevLPC.take d.lpcOrder
  let invGain := if d.lossCnt = 0 ∧ ¬ voiced then lpcInversePredGain A else 0
  let gs := SilkPlcGains.gainSetup d.lossCnt voiced p0.ltpCoef p0.randScale p0.prevLtpScale invGain
  let harm := SilkPlcGains.harmGain d.lossCnt
  let lag := lagOf p0.pitchLQ8
  let invGainQ30 := min (inverse32VarQ (p0.prevGain.getD 1 0) 46) 1073741823
  if d.lpcOrder < 10 then .abort                                       -- celt_assert( psDec->LPC_order >= 10 )
  else
  match rewhiten d A lag invGainQ30 with
  | .ok buf0 =>
    let s := ltpLoop d.excQ14.toArray roff d.subfrLength d.fsKHz harm gs.2 d.nbSubfr
               { buf := buf0, seed := p0.randSeed, B := p0.ltpCoef, rs := gs.1, pq8 := p0.pitchLQ8 }
    let exc := (s.buf.toList.drop d.ltpMemLength).take d.frameLength
    let r := lpcSynth A (g10.getD 1 0) exc d.sLPC.reverse
    let lagEnd := lagOf s.pq8
    .ok { frame := r.1.map sat16,
          dec := { d with sLPC := (r.2.take MAX_LPC_ORDER).reverse,
                          plc := { p0 with pitchLQ8 := s.pq8, ltpCoef := s.B, prevLPC := prevLPC, randSeed := s.seed,
                                           randScale := s.rs } },
          pitchL := List.replicate MAX_NB_SUBFR lagEnd }
  | .abort => .abort
  | .oob => .oob
  | .err e => .err e

/-- `silk_PLC(psDec, psDecCtrl, frame, lost)` (PLC.c:72-114): new state; for a lost frame also the concealed
    frame and the `pitchL` written into the control structure. -/
def silkPLC (d : Dec) (c : Ctrl) (lost : Bool) : Res ConcealOut :=
  let p := plcRateCheck d
  if lost then
    match plcConceal d p with
    | .ok o => .ok { o with dec := { o.dec with lossCnt := o.dec.lossCnt + 1 } }
    | r => r
  else .ok { frame := [], dec := plcUpdate d c p, pitchL := c.pitchL }

end Opus.SilkPlc
