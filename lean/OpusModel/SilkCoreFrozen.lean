/-
  OpusModel.SilkCoreFrozen — the FROZEN tables and constants of the synthesis reference (taken from the pinned tree): the LTP gain
  codebooks, the LTP scaling table, the quantisation offsets, and the constants of silk/define.h / SigProc_FIX.h / structs.h.
  The model (`OpusModel/SilkCore*.lean`) reads THESE values, not the regenerated ones, so an edited table entry or constant in
  the tree makes the library disagree with the reference on a concrete frame (tie) and breaks
  `OpusProps.C03SilkCore.tables_frozen_eq_repo` (`OpusModel/SilkCoreFrozenEq.lean` compares this file with
  `Opus.Gen.SilkCoreTabs`, regenerated from `/repo` on every run).  Never regenerate this file.
-/
namespace Opus.Frozen.SilkCoreTabs



/- silk_LTP_vq_ptrs_Q7[ PERIndex ] (silk/tables_LTP.c), rows of LTP_ORDER taps, silk_LTP_vq_sizes[] rows -/
def ltpVq0 : List Int := [4, 6, 24, 7, 5, 0, 0, 2, 0, 0, 12, 28, 41, 13, -4, -9, 15, 42, 25, 14,
  1, -2, 62, 41, -9, -10, 37, 65, -4, 3, -6, 4, 66, 7, -8, 16, 14, 38, -3, 33]
def ltpVq1 : List Int := [13, 22, 39, 23, 12, -1, 36, 64, 27, -6, -7, 10, 55, 43, 17, 1, 1, 8, 1, 1,
  6, -11, 74, 53, -9, -12, 55, 76, -12, 8, -3, 3, 93, 27, -4, 26, 39, 59, 3, -8,
  2, 0, 77, 11, 9, -8, 22, 44, -6, 7, 40, 9, 26, 3, 9, -7, 20, 101, -7, 4,
  3, -8, 42, 26, 0, -15, 33, 68, 2, 23, -2, 55, 46, -2, 15, 3, -1, 21, 16, 41]
def ltpVq2 : List Int := [-6, 27, 61, 39, 5, -11, 42, 88, 4, 1, -2, 60, 65, 6, -4, -1, -5, 73, 56, 1,
  -9, 19, 94, 29, -9, 0, 12, 99, 6, 4, 8, -19, 102, 46, -13, 3, 2, 13, 3, 2,
  9, -21, 84, 72, -18, -11, 46, 104, -22, 8, 18, 38, 48, 23, 0, -16, 70, 83, -21, 11,
  5, -11, 117, 22, -8, -6, 23, 117, -12, 3, 3, -8, 95, 28, 4, -10, 15, 77, 60, -15,
  -1, 4, 124, 2, -4, 3, 38, 84, 24, -25, 2, 13, 42, 13, 31, 21, -4, 56, 46, -1,
  -1, 35, 79, -13, 19, -7, 65, 88, -9, -14, 20, 4, 81, 49, -29, 20, 0, 75, 3, -17,
  5, -9, 44, 92, -8, 1, -3, 22, 69, 31, -6, 95, 41, -12, 5, 39, 67, 16, -4, 1,
  0, -6, 120, 55, -36, -13, 44, 122, 4, -24, 81, 5, 11, 3, 7, 2, 0, 9, 10, 88]
def ltpVqSizes : List Nat := [8, 16, 32]
def nbLtpCbks : Nat := 3

/- silk/tables_other.c -/
def ltpScalesQ14 : List Int := [15565, 12288, 8192]
/- silk_Quantization_Offsets_Q10[ signalType >> 1 ][ quantOffsetType ], row major -/
def quantOffsetsQ10 : List Int := [100, 240, 32, 100]
def quantOffsetsCols : Nat := 2

/- silk/define.h, silk/SigProc_FIX.h, silk/structs.h -/
def quantLevelAdjustQ10 : Int := 80
def bweAfterLossQ16 : Int := 63570
def randMultiplier : Int := 196314165
def randIncrement : Int := 907633515
def ltpOrder : Nat := 5
def maxLpcOrder : Nat := 16
def minLpcOrder : Nat := 10
def maxNbSubfr : Nat := 4
def ltpMemLengthMs : Nat := 20
def subFrameLengthMs : Nat := 5
def maxFrameLength : Nat := 320
def szOutBuf : Nat := 480
def szExcQ14 : Nat := 320
def szSLpcQ14Buf : Nat := 16
def szPrevNlsf : Nat := 16
def typeNoVoiceActivity : Int := 0
def typeUnvoiced : Int := 1
def typeVoiced : Int := 2
def codeConditionally : Int := 2
def transitionTapQ14 : Int := 4096
def resetPrevGainQ16 : Int := 65536
def setFsLagPrev : Int := 100
def setFsLastGainIndex : Int := 10
def setFsPrevSignalType : Int := 0
def setFsFirstFrameAfterReset : Int := 1



end Opus.Frozen.SilkCoreTabs
