import OpusModel.EncDecide
/-
  OpusModel.SilkBw — SILK's internal sampling-rate control, the integer code behind the TOC bandwidth
  of SILK-only packets (property C11, clause "bandwidth never exceeds the forced or maximum bandwidth
  nor the input's Nyquist limit").

    silk/control_audio_bandwidth.c:36-133  silk_control_audio_bandwidth        → `controlBw`
    silk/LP_variable_cutoff.c:129          transition_frame_no update per frame → `lpStep`
    silk/control_codec.c:100-112           fs_kHz = …; silk_setup_fs           → `afterCall`
    silk/enc_API.c:213-226                 prefillFlag: silk_init_encoder, with prefill == 2 the
                                           variable-LP state survives and remembers the rate  → `prefillReset`
    silk/init_encoder.c:46-60              silk_init_encoder (memset)          → `bwInit`
    src/opus_encoder.c:2013-2045           how Opus fills desired / min / maxInternalSampleRate → `opusSilkIn`
    src/opus_encoder.c:2118-2126           SILK-only TOC bandwidth from internalSampleRate → `bwOfKHz`

  The two flags that come from signal-dependent code — `allow_bandwidth_switch` (speech activity,
  enc_API.c:549-558) and `opusCanSwitch` (= last call's `switchReady` on a final frame,
  opus_encoder.c:2130) — and the number of coded frames between two calls are inputs; theorems
  quantify over all of them.
-/
namespace Opus.SilkBw
open Opus Opus.EncDecide

/-- TRANSITION_FRAMES = TRANSITION_TIME_MS / MAX_FRAME_LENGTH_MS = 5120 / 20 (silk/define.h:217-219). -/
abbrev TRANSITION_FRAMES : Int := 256

/-- The fields of `silk_encoder_state` the rate control reads or writes. -/
structure BwSt where
  fsKHz : Int          -- psEncC->fs_kHz (0 right after silk_init_encoder)
  savedFsKHz : Int     -- sLP.saved_fs_kHz
  mode : Int           -- sLP.mode: <0 switching down, >0 up, 0 no transition
  tfn : Int            -- sLP.transition_frame_no
  deriving DecidableEq, Repr

/-- Per-call inputs (after silk_control_encoder has copied them, control_codec.c:77-84). -/
structure BwIn where
  apiFs : Int          -- API_fs_Hz
  desired : Int        -- desiredInternal_fs_Hz
  maxFs : Int          -- maxInternal_fs_Hz
  minFs : Int          -- minInternal_fs_Hz
  allow : Bool         -- allow_bandwidth_switch
  can : Bool           -- encControl->opusCanSwitch
  deriving DecidableEq, Repr

structure BwOut where
  fsKHz : Int          -- the return value
  st : BwSt            -- state after the call (`fs_kHz` itself is written later, by silk_setup_fs)
  ready : Bool         -- encControl->switchReady was set
  deriving DecidableEq, Repr

/-- The rate the state machine starts from: the current one, or the one remembered across a
    prefill reset. -/
def origOf (s : BwSt) : Int := if s.fsKHz = 0 then s.savedFsKHz else s.fsKHz

/-- `silk_control_audio_bandwidth` (silk/control_audio_bandwidth.c:36-133) from the starting rate
    `orig` (`orig_kHz`).  Written without `let`s: `if s.tfn ≥ 256 then 0 else s.mode` is `sLP.mode`
    after the "stop transition phase" write (:64-67), and `if (that) = 0 then 256 else s.tfn` is
    `transition_frame_no` after the "new transition" write (:73-78). -/
def controlBwCore (orig : Int) (s : BwSt) (i : BwIn) : BwOut :=
  if orig * 1000 = 0 then { fsKHz := min i.desired i.apiFs / 1000, st := s, ready := false }
  else if orig * 1000 > i.apiFs ∨ orig * 1000 > i.maxFs ∨ orig * 1000 < i.minFs then
    { fsKHz := max (min i.apiFs i.maxFs) i.minFs / 1000, st := s, ready := false }
  else
    if i.allow ∨ i.can then
      if orig * 1000 > i.desired then
        if i.can then { fsKHz := if orig = 16 then 12 else 8,
                        st := { s with mode := 0, tfn := if (if s.tfn ≥ 256 then 0 else s.mode) = 0 then 256 else s.tfn }, ready := false }
        else if (if (if s.tfn ≥ 256 then 0 else s.mode) = 0 then 256 else s.tfn) ≤ 0 then
          { fsKHz := orig, st := { s with mode := if s.tfn ≥ 256 then 0 else s.mode,
                                          tfn := if (if s.tfn ≥ 256 then 0 else s.mode) = 0 then 256 else s.tfn }, ready := true }
        else { fsKHz := orig, st := { s with mode := -2, tfn := if (if s.tfn ≥ 256 then 0 else s.mode) = 0 then 256 else s.tfn },
               ready := false }
      else if orig * 1000 < i.desired then
        if i.can then { fsKHz := if orig = 8 then 12 else 16, st := { s with mode := 1, tfn := 0 }, ready := false }
        else if (if s.tfn ≥ 256 then 0 else s.mode) = 0 then
          { fsKHz := orig, st := { s with mode := if s.tfn ≥ 256 then 0 else s.mode }, ready := true }
        else { fsKHz := orig, st := { s with mode := 1 }, ready := false }
      else { fsKHz := orig, st := { s with mode := if (if s.tfn ≥ 256 then 0 else s.mode) < 0 then 1 else (if s.tfn ≥ 256 then 0 else s.mode) },
             ready := false }
    else { fsKHz := orig, st := { s with mode := if s.tfn ≥ 256 then 0 else s.mode }, ready := false }

/-- `silk_control_audio_bandwidth` (silk/control_audio_bandwidth.c:36-133). -/
def controlBw (s : BwSt) (i : BwIn) : BwOut := controlBwCore (origOf s) s i

/-- One coded frame of `silk_LP_variable_cutoff` (LP_variable_cutoff.c:112-129). -/
def lpStep (s : BwSt) : BwSt :=
  if s.mode ≠ 0 then { s with tfn := max 0 (min TRANSITION_FRAMES (s.tfn + s.mode)) } else s

def lpSteps : Nat → BwSt → BwSt
  | 0, s => s
  | n + 1, s => lpSteps n (lpStep s)

/-- `silk_setup_fs` stores the chosen rate (control_codec.c:112, :241). -/
def afterCall (o : BwOut) : BwSt := { o.st with fsKHz := o.fsKHz }

/-- `silk_init_encoder`: everything zero. -/
def bwInit : BwSt := { fsKHz := 0, savedFsKHz := 0, mode := 0, tfn := 0 }

/-- The prefill reset of silk_Encode (enc_API.c:213-226): `keepLP` = (prefillFlag == 2). -/
def prefillReset (keepLP : Bool) (s : BwSt) : BwSt :=
  if keepLP then { s with fsKHz := 0, savedFsKHz := s.fsKHz } else bwInit

/-- What can happen to the state between two rate-control calls of one channel. -/
inductive Gap
  | frames (n : Nat)                 -- n coded frames
  | prefill (keepLP : Bool)          -- a prefill reset (then the next call follows immediately)
  | init                             -- silk_InitEncoder (OPUS_RESET_STATE, CELT→SILK switch)
  deriving DecidableEq, Repr

def applyGap (s : BwSt) : Gap → BwSt
  | .frames n => lpSteps n s
  | .prefill k => prefillReset k s
  | .init => bwInit

/-- A history of one SILK channel: gaps and calls.  Returns the final state and the rate chosen
    by every call, in order. -/
def runBw : BwSt → List (Gap × BwIn) → BwSt × List Int
  | s, [] => (s, [])
  | s, (g, i) :: rest =>
    let o := controlBw (applyGap s g) i
    let (s', fs) := runBw (afterCall o) rest
    (s', o.fsKHz :: fs)

/-! ### The Opus side -/

/-- `desiredInternalSampleRate` for an Opus bandwidth (opus_encoder.c:2013-2020). -/
def rateOfBw (bw : Int) : Int := if bw = BW_NB then 8000 else if bw = BW_MB then 12000 else 16000

/-- opus_encoder.c:2013-2045: the control inputs Opus hands to SILK for a frame coded in `mode`
    (SILK-only or hybrid) with bandwidth `bw`, at `frameRate` frames/s with `maxDataBytes`. -/
def opusSilkIn (apiFs mode bw frameRate maxDataBytes : Int) (allow can : Bool) : BwIn :=
  let desired := rateOfBw bw
  let minFs := if mode = MODE_HYBRID then 16000 else 8000
  let eff0 := frameRate * maxDataBytes * 8
  let eff := if frameRate > 50 then eff0 * 2 / 3 else eff0
  -- :2031-2045: at very low rates SILK-only is limited to 12 kHz (< 8 kb/s) or 8 kHz (< 7 kb/s), and asks for no more
  let maxFs : Int := if mode = MODE_SILK_ONLY then (if eff < 7000 then 8000 else if eff < 8000 then 12000 else 16000) else 16000
  let desired : Int :=
    if mode = MODE_SILK_ONLY then (if eff < 7000 then min 8000 desired else if eff < 8000 then min 12000 desired else desired)
    else desired
  { apiFs, desired, maxFs, minFs, allow, can }

/-- The bandwidth a SILK-only packet signals for SILK's internal rate (opus_encoder.c:2118-2126). -/
def bwOfKHz (k : Int) : Int := if k = 8 then BW_NB else if k = 12 then BW_MB else BW_WB

end Opus.SilkBw
