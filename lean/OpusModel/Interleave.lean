import OpusModel.Basic
/-
  OpusModel.Interleave — abstract multi-object interleaving semantics (C14, DESIGN.md §7.C14).

  What include/opus.h:418-427 promises ("the same Opus state must not be used from more than one thread,
  but separate states can be used concurrently") is modelled as follows.

  * Memory is `rodata × (ObjId → ObjState)`: the read-only part holds everything the library keeps in static
    storage (mode tables celt/modes.c / static_modes_float.h, ICDF tables, the RTCD dispatch tables
    celt/x86/x86_celt_map.c, silk/x86/x86_silk_map.c, and — because celt/x86/x86cpu.c:opus_select_arch
    recomputes CPUID on every call and caches nothing — the CPU feature word).  Each codec object (encoder,
    decoder, multistream, projection, repacketiser) is one `ObjState` cell, `none`-like states before
    creation / after destroy being ordinary values of `St`.
  * One API call (create / ctl / encode / decode / destroy …) by the thread that owns object `o` is
    `step : Ro → St → In → St × Out`: it reads rodata, its own object and its arguments and writes its own
    object and its results.  Scratch memory is on the caller's stack (celt/stack_alloc.h:VAR_ARRAYS /
    USE_ALLOCA) and therefore part of the call, not of the shared memory.
  * A *schedule* is any list of `(object, input)` events; it is an interleaving (merge) of per-thread scripts
    `P` iff its projection on every object `t` is `P t`.
  * `gexec` is the same semantics for an arbitrary global step function that may read and write the whole
    memory; `Local` is the footprint premise under which it collapses to `exec`.

  The premise "no writable static storage" is not assumed here: it is the regenerated table
  `OpusModel/Gen/Globals.lean` with the predicates below (`sectionReadOnly`, `symbolReadOnly`, …), proved by
  evaluation in OpusProps/C14.lean.
  Core Lean only.
-/
namespace Opus.Interleave

/-- One API call event: the object (= owning thread) and the call's input. -/
structure Call (In : Type) where
  obj : Nat
  inp : In
  deriving Repr, DecidableEq

/-- Shared memory: read-only data and one private state per object. -/
structure Mem (Ro St : Type) where
  ro : Ro
  objs : Nat → St

/-- Functional update of one object cell. -/
def update {St : Type} (f : Nat → St) (o : Nat) (s : St) : Nat → St :=
  fun i => if i = o then s else f i

/-- Execute one call in shared memory: only the owner's cell is replaced, `ro` is passed through. -/
def exec {Ro St In Out : Type} (step : Ro → St → In → St × Out) (m : Mem Ro St) (c : Call In) :
    Mem Ro St × Out :=
  let r := step m.ro (m.objs c.obj) c.inp
  ({ ro := m.ro, objs := update m.objs c.obj r.1 }, r.2)

/-- Run a schedule (a global order of calls); returns the final memory and every thread's output list. -/
def run {Ro St In Out : Type} (step : Ro → St → In → St × Out) :
    Mem Ro St → List (Call In) → Mem Ro St × (Nat → List Out)
  | m, [] => (m, fun _ => [])
  | m, c :: cs =>
    let r := exec step m c
    let rest := run step r.1 cs
    (rest.1, fun t => if t = c.obj then r.2 :: rest.2 t else rest.2 t)

/-- A thread running alone on its own object. -/
def runAlone {Ro St In Out : Type} (step : Ro → St → In → St × Out) (ro : Ro) :
    St → List In → St × List Out
  | s, [] => (s, [])
  | s, i :: is =>
    let r := step ro s i
    let rest := runAlone step ro r.1 is
    (rest.1, r.2 :: rest.2)

/-- Projection of a schedule on one thread: the calls that thread makes, in order. -/
def project {In : Type} (t : Nat) : List (Call In) → List In
  | [] => []
  | c :: cs => if c.obj = t then c.inp :: project t cs else project t cs

/-- `s` is an interleaving (merge) of the per-thread scripts `P`. -/
def IsSchedule {In : Type} (P : Nat → List In) (s : List (Call In)) : Prop :=
  ∀ t, project t s = P t

/-- Inductive characterisation of merges: the next event is the head of some thread's remaining script. -/
inductive Merge {In : Type} : (Nat → List In) → List (Call In) → Prop where
  | nil {P : Nat → List In} : (∀ t, P t = []) → Merge P []
  | cons {P : Nat → List In} {o : Nat} {i : In} {rest : List In} {s : List (Call In)} :
      P o = i :: rest → Merge (update P o rest) s → Merge P (⟨o, i⟩ :: s)

/-- All merges of two scripts (threads 0 and 1) — executable, used for non-vacuity examples and by the
    exhaustive small-schedule check. -/
def merges2 {In : Type} : List In → List In → List (List (Call In))
  | [], ys => [ys.map (fun i => ⟨1, i⟩)]
  | xs, [] => [xs.map (fun i => ⟨0, i⟩)]
  | x :: xs, y :: ys =>
    (merges2 xs (y :: ys)).map (fun s => ⟨0, x⟩ :: s) ++ (merges2 (x :: xs) ys).map (fun s => ⟨1, y⟩ :: s)

/-! ### Global step functions and the footprint premise -/

/-- Semantics with an unrestricted step: the call sees and may replace every object. -/
def grun {Ro St In Out : Type} (gstep : Ro → (Nat → St) → Nat → In → (Nat → St) × Out) :
    Mem Ro St → List (Call In) → Mem Ro St × (Nat → List Out)
  | m, [] => (m, fun _ => [])
  | m, c :: cs =>
    let r := gstep m.ro m.objs c.obj c.inp
    let rest := grun gstep { ro := m.ro, objs := r.1 } cs
    (rest.1, fun t => if t = c.obj then r.2 :: rest.2 t else rest.2 t)

/-- Footprint premise: a call on object `o` reads only rodata, `objs o` and its input, and writes only `objs o`. -/
def Local {Ro St In Out : Type} (gstep : Ro → (Nat → St) → Nat → In → (Nat → St) × Out)
    (step : Ro → St → In → St × Out) : Prop :=
  ∀ ro objs o i, gstep ro objs o i = (update objs o (step ro (objs o) i).1, (step ro (objs o) i).2)

/-! ### A counter-model: what a writable global does

  `cacheStep` is a step function with ONE shared mutable cell (think `static int arch_cache` or a lazily
  filled table): object 0 is the cache, every other object's call reads it and the first caller fills it.
  It violates `Local`, and two schedules of the same scripts give different outputs
  (OpusProofs/Interleave.lean: `cache_breaks_serial`). -/
def cacheStep : Unit → (Nat → Nat) → Nat → Nat → (Nat → Nat) × Nat :=
  fun _ objs o i =>
    if objs 0 = 0 then (update (update objs 0 i) o (objs o + i), i)      -- first use: fill the cache with my value
    else (update objs o (objs o + objs 0), objs 0)                        -- later: use the cached value

/-! ### Predicates on the regenerated symbol table (OpusModel/Gen/Globals.lean) -/

/-- Section names that hold no writable-at-run-time storage: code, constants, unwind tables, and constant
    tables that need load-time relocation (`.data.rel.ro*`, read-only after relocation). -/
def sectionReadOnly (name : String) : Bool :=
  name.startsWith ".rodata" || name.startsWith ".data.rel.ro" || name.startsWith ".text" || name == ".eh_frame"

/-- ELF flags of a read-only section: no `W` unless it is `.data.rel.ro*`; never `T` (thread-local). -/
def flagsReadOnly (name flags : String) : Bool :=
  (!flags.toList.contains 'W' || name.startsWith ".data.rel.ro") && !flags.toList.contains 'T'

def sectionEntryOk (e : String × String × String × Nat) : Bool :=
  sectionReadOnly e.2.1 && flagsReadOnly e.2.1 e.2.2.1

/-- A data symbol is acceptable iff it is an ordinary OBJECT placed in a read-only section (not COMMON, not TLS). -/
def symbolEntryOk (e : String × String × String × String × String × Nat) : Bool :=
  e.2.2.1 == "OBJECT" && sectionReadOnly e.2.2.2.2.1

/-- libc / libm / compiler-runtime entry points that POSIX specifies as safe to call concurrently and that
    keep no caller-visible static state.  Deliberately absent: rand, srand, strtok, strerror, localtime,
    gmtime, asctime, ctime, setlocale, getenv's writers (setenv/putenv), tmpnam, ... -/
def reentrantImports : List String := [
  "_GLOBAL_OFFSET_TABLE_", "__stack_chk_fail", "__stack_chk_guard", "abort", "malloc", "calloc", "realloc", "free",
  "memcpy", "memmove", "memset", "memcmp", "strlen", "__memcpy_chk", "__memmove_chk", "__memset_chk",
  "fprintf", "__fprintf_chk", "stderr", "getenv",
  "acos", "asin", "atan", "atan2", "cos", "sin", "tan", "exp", "exp2", "log", "log2", "log10", "pow", "sqrt",
  "floor", "ceil", "fabs", "fmod", "lrint", "llrint", "round", "lround",
  "acosf", "asinf", "atanf", "atan2f", "cosf", "sinf", "tanf", "expf", "exp2f", "logf", "log2f", "log10f", "powf",
  "sqrtf", "floorf", "ceilf", "fabsf", "fmodf", "lrintf", "llrintf", "roundf", "lroundf"]

def importOk (s : String) : Bool := reentrantImports.contains s

/-- Configuration facts: scratch memory is on the caller's stack and the global pseudo-stack is off. -/
def configThreadSafe (defined : List String) : Bool :=
  !defined.contains "NONTHREADSAFE_PSEUDOSTACK" && (defined.contains "VAR_ARRAYS" || defined.contains "USE_ALLOCA")
  && !defined.contains "FUZZING"

end Opus.Interleave
