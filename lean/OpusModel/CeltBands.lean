import OpusModel.CeltSyms
import OpusModel.Cwrs
import OpusModel.CeltAlloc
/-
  OpusModel.CeltBands — the *symbol layer of a CELT frame behind the header* (property C03, stage 2b): every
  range-decoder read of `celt_decode_with_ec_dred` from the call of `clt_compute_allocation` to the end of the frame,
  in order, with its parameters — so that, together with OpusModel/CeltSyms.lean, the model predicts the final range
  (`OPUS_GET_FINAL_RANGE`) of every CELT-only, hybrid and redundancy frame from the bytes alone.

  C sources transcribed (pinned tree):
    celt/celt_decoder.c:1252-1278, 1351-1358   allocation call, fine energy, band data, anti-collapse bit, finalise,
                                               `st->rng = dec->rng` (the `ec_tell(dec) > 8*len` test only sets `st->error`)
    celt/rate.c:248-645     clt_compute_allocation — via OpusModel/CeltAlloc.lean (owned by C17, read-only), driven by
                            the real range decoder (`allocDrive`)
    celt/quant_bands.c:492-541   unquant_fine_energy, unquant_energy_finalise (symbol reads only)
    celt/bands.c:68-93      bitexact_cos, bitexact_log2tan
    celt/bands.c:660-915    compute_qn, compute_theta (decode side; step / uniform / triangular PDF, inv flag)
    celt/bands.c:917-1120   quant_band_n1, quant_partition (split recursion, bits2pulses / pulses2bits on the pulse
                            cache, the "never bust the budget" loop, `ec_dec_uint(V(N,K))` of decode_pulses)
    celt/bands.c:1122-1395  quant_band (recombine / time-divide: only their effect on `B`), quant_band_stereo
    celt/bands.c:1411-1686  quant_all_bands (per-band budget `b`, balance, dual stereo → intensity switch)

  Only what decides *which symbols are read with which parameters* is modelled: the decoded PVQ index, the signs, the
  collapse masks, `fill`, the folding source, the LCG seed and all of the DSP are irrelevant to the bit stream position
  and are left out.  Everything kept is integer arithmetic of the C code: C `int` is unbounded `Int`, `>>` on signed
  values is floor division, `/` is `Int.tdiv`, `opus_int16` casts in `FRAC_MUL16` wrap (`s16`).
  The state of one band is threaded as a record (`BSt`): `ctx->remaining_bits`, the decoder context, the trace of
  entropy-decoder calls (most recent first) and a `fault` flag that is raised when the C code would index the pulse
  cache outside its array, call `ec_dec_uint` with `ft < 2` or `ft ≥ 2^32`, or look up `V(N,K)` outside the table.
  The split recursion of `quant_partition` is structural on `LM+1`.
  Tables: the FROZEN copies in OpusModel/CeltSymsFrozen.lean (`logN`, `cache.index`, `cache.bits`); `V(N,K)` from
  C17's `Opus.Cwrs` (`decodePulsesFt Utab`).  Core Lean only.
-/
namespace Opus.CeltBands
open Opus Opus.RangeCoder Opus.CeltSymsFrozen
open Opus.CeltSyms (CEv CeltCfg CeltHdr celtHeader)

/-! ### State and entropy-decoder calls -/

structure BSt where
  rem : Int            -- ctx->remaining_bits
  c : Dec
  tr : List CEv        -- calls so far, most recent first
  fault : Bool
  deriving Repr

def BSt.uint (s : BSt) (ft : Nat) : Nat × BSt :=
  match decUint s.c ft with
  | (v, c1) => (v, { s with c := c1, tr := .uint ft v :: s.tr,
                            fault := s.fault || decide (ft < 2) || decide (4294967296 ≤ ft) })

def BSt.raw (s : BSt) (n : Nat) : Nat × BSt :=
  match decBits s.c n with
  | (v, c1) => (v, { s with c := c1, tr := .raw n v :: s.tr })

def BSt.bit (s : BSt) (logp : Nat) : Nat × BSt :=
  match decBitLogp s.c logp with
  | (v, c1) => (v, { s with c := c1, tr := .bit logp v :: s.tr })

def BSt.decode (s : BSt) (ft : Nat) : Nat × BSt :=
  match RangeCoder.decode s.c ft with
  | (v, c1) => (v, { s with c := c1, tr := .dec ft v :: s.tr })

def BSt.update (s : BSt) (fl fh ft : Nat) : BSt :=
  { s with c := decUpdate s.c fl fh ft, tr := .upd fl fh ft :: s.tr }

/-! ### Bit-exact trigonometry (bands.c:68-93) -/

/-- conversion to `opus_int16` -/
def s16 (x : Int) : Int := (x + 32768) % 65536 - 32768

/-- `FRAC_MUL16(a,b) = (16384+((opus_int32)(opus_int16)(a)*(opus_int16)(b)))>>15` -/
def fracMul16 (a b : Int) : Int := (16384 + s16 a * s16 b) / 32768

/-- `bitexact_cos` -/
def bitexactCos (x : Int) : Int :=
  let x2 := s16 ((4096 + x * x) / 8192)
  1 + s16 ((32767 - x2) + fracMul16 x2 (-7651 + fracMul16 x2 (8277 + fracMul16 (-626) x2)))

/-- `bitexact_log2tan` -/
def bitexactLog2tan (isin icos : Int) : Int :=
  let lc := ilog icos.toNat
  let ls := ilog isin.toNat
  let icos := icos * 2 ^ (15 - lc)
  let isin := isin * 2 ^ (15 - ls)
  ((ls : Int) - lc) * 2048 + fracMul16 isin (fracMul16 isin (-2597) + 7932)
    - fracMul16 icos (fracMul16 icos (-2597) + 7932)

/-! ### compute_qn, compute_theta -/

def exp2Table8 : List Nat := [16384, 17866, 19483, 21247, 23170, 25267, 27554, 30048]

/-- `qn` from the clamped `qb` (bands.c:678-684). -/
def qnOfQb (qb : Int) : Nat :=
  if qb < 4 then 1
  else ((exp2Table8.getD (qb.toNat % 8) 0 / 2 ^ (14 - qb.toNat / 8) + 1) / 2) * 2

/-- `compute_qn` (bands.c:660-688). -/
def computeQn (N : Nat) (b offset pulseCap : Int) (stereo : Bool) : Nat :=
  qnOfQb (min 64 (min (b - pulseCap - 32)
    (Int.tdiv (b + (2 * (N : Int) - 1 - (if stereo ∧ N = 2 then 1 else 0)) * offset)
      (2 * (N : Int) - 1 - (if stereo ∧ N = 2 then 1 else 0)))))

/-- Step PDF (stereo, N > 2; bands.c:782-803): the decoded `x`. -/
def thetaStep (s : BSt) (qn : Nat) : Nat × BSt :=
  match s.decode (3 * (qn / 2 + 1) + qn / 2) with
  | (fs, s1) =>
    let x0 := qn / 2
    let x := if fs < (x0 + 1) * 3 then fs / 3 else x0 + 1 + (fs - (x0 + 1) * 3)
    (x, s1.update (if x ≤ x0 then 3 * x else (x - 1 - x0) + (x0 + 1) * 3)
                  (if x ≤ x0 then 3 * (x + 1) else (x - x0) + (x0 + 1) * 3) (3 * (x0 + 1) + x0))

/-- Triangular PDF (mono, no time split; bands.c:810-848). -/
def thetaTri (s : BSt) (qn : Nat) : Nat × BSt :=
  match s.decode ((qn / 2 + 1) * (qn / 2 + 1)) with
  | (fm, s1) =>
    let h := qn / 2
    let ft := (h + 1) * (h + 1)
    if fm < h * (h + 1) / 2 then
      let it := (Nat.sqrt (8 * fm + 1) - 1) / 2
      (it, s1.update (it * (it + 1) / 2) (it * (it + 1) / 2 + (it + 1)) ft)
    else
      let it := (2 * (qn + 1) - Nat.sqrt (8 * (ft - fm - 1) + 1)) / 2
      let fl := ft - (qn + 1 - it) * (qn + 2 - it) / 2
      (it, s1.update fl (fl + (qn + 1 - it)) ft)

/-- The symbol reads of `compute_theta` (bands.c:766-878): the scaled `itheta`. -/
def thetaRead (stereo : Bool) (N : Nat) (b : Int) (B0 qn : Nat) (s : BSt) : Nat × BSt :=
  if qn ≠ 1 then
    match (if stereo ∧ N > 2 then thetaStep s qn else if B0 > 1 ∨ stereo then s.uint (qn + 1) else thetaTri s qn) with
    | (it, s1) => (it * 16384 / qn, s1)
  else if stereo then
    if b > 16 ∧ s.rem > 16 then
      match s.bit 2 with
      | (_, s1) => (0, s1)
    else (0, s)
  else (0, s)

/-- `delta` of the split (bands.c:882-903). -/
def thetaDelta (N itheta : Nat) : Int :=
  if itheta = 0 then -16384 else if itheta = 16384 then 16384
  else fracMul16 (((N : Int) - 1) * 128) (bitexactLog2tan (bitexactCos (16384 - (itheta : Int))) (bitexactCos itheta))

structure Theta where
  itheta : Nat
  delta : Int
  qalloc : Int
  b : Int              -- `*b` after `*b -= qalloc`
  deriving Repr

/-- `compute_theta`, decode side; `lm` is the `LM` argument (−1 … 3). -/
def computeTheta (i intensity : Nat) (stereo : Bool) (N : Nat) (b : Int) (B0 : Nat) (lm : Int) (s : BSt) : Theta × BSt :=
  match thetaRead stereo N b B0
          (if stereo ∧ i ≥ intensity then 1
           else computeQn N b ((logN.getD i 0 + lm * 8) / 2 - (if stereo ∧ N = 2 then 16 else 4)) (logN.getD i 0 + lm * 8) stereo) s with
  | (it, s1) =>
    ({ itheta := it, delta := thetaDelta N it, qalloc := (tellFrac s1.c : Int) - tellFrac s.c,
       b := b - ((tellFrac s1.c : Int) - tellFrac s.c) }, s1)

/-! ### quant_partition -/

/-- `m->cache.index[(LM+1)*m->nbEBands+i]` -/
def rowOf (lm1 i : Nat) : Int := cacheIndex.getD (lm1 * nbEBands + i) (-1)

/-- `cache[k]` for `cache = m->cache.bits + ci` -/
def cacheAt (ci : Int) (k : Nat) : Nat := cacheBits.getD (ci.toNat + k) 0

/-- The row `cache[0 .. cache[0]]` lies inside `cache.bits`. -/
def rowOk (ci : Int) : Bool := decide (0 ≤ ci) && decide (ci.toNat + cacheAt ci 0 < cacheBits.length)

/-- `pulses2bits` (rate.h:80-87) -/
def p2b (ci : Int) (q : Nat) : Int := if q = 0 then 0 else (cacheAt ci q : Int) + 1

/-- "Ensures we can never bust the budget" (bands.c:1052-1059), entered after the first `remaining_bits -= curr_bits`. -/
def lowerQ (ci : Int) : Nat → Int → Int → Nat × Int
  | 0, _, rem => (0, rem)
  | q + 1, curr, rem => if rem < 0 then lowerQ ci q (p2b ci q) (rem + curr - p2b ci q) else (q + 1, rem)

/-- `CELT_PVQ_V(N,K)` from the table of cwrs.c (C17's model); 0 when outside the table. -/
def pvqFt (N K : Nat) : Nat :=
  match Cwrs.decodePulsesFt Cwrs.Utab N K with
  | .ok v => v
  | _ => 0

/-- The no-split case of `quant_partition` (bands.c:1046-1070 and decode_pulses). -/
def leaf (i lm1 N : Nat) (b : Int) (s : BSt) : BSt :=
  match lowerQ (rowOf lm1 i) (Rate.bits2pulsesRow (cacheAt (rowOf lm1 i)) b)
          (p2b (rowOf lm1 i) (Rate.bits2pulsesRow (cacheAt (rowOf lm1 i)) b))
          (s.rem - p2b (rowOf lm1 i) (Rate.bits2pulsesRow (cacheAt (rowOf lm1 i)) b)) with
  | (q, rem) =>
    if q ≠ 0 then ({ s with rem := rem, fault := s.fault || !rowOk (rowOf lm1 i) }.uint (pvqFt N (Rate.getPulses q))).2
    else { s with rem := rem, fault := s.fault || !rowOk (rowOf lm1 i) }

/-- bands.c:1009-1018: "give more bits to low-energy MDCTs than they would otherwise deserve". -/
def adjustDelta (B0 itheta : Nat) (delta : Int) (N : Nat) (lm : Int) : Int :=
  if B0 > 1 ∧ itheta % 16384 ≠ 0 then
    if itheta > 8192 then delta - delta / 2 ^ (4 - lm).toNat
    else min 0 (delta + ((N * 8 : Nat) : Int) / 2 ^ (5 - lm).toNat)
  else delta

def splitBits (b delta : Int) : Int := max 0 (min b (Int.tdiv (b - delta) 2))

/-- `if (rebalance > 3<<BITRES && itheta != …) other += rebalance - (3<<BITRES)` -/
def rebal (other reb : Int) (ok : Bool) : Int := if reb > 24 ∧ ok then other + reb - 24 else other

/-- The two halves of a split in the order of the larger budget, the second one with the bits the first one did not
    use (bands.c:1026-1044, 1355-1376); `f bits` decodes one half. -/
def splitRun (f : Int → BSt → BSt) (mbits sbits : Int) (itheta : Nat) (s : BSt) : BSt :=
  if mbits ≥ sbits then
    let s3 := f mbits s
    f (rebal sbits (mbits - (s.rem - s3.rem)) (itheta ≠ 0)) s3
  else
    let s3 := f sbits s
    f (rebal mbits (sbits - (s.rem - s3.rem)) (itheta ≠ 16384)) s3

/-- `mbits`, `sbits` and `ctx->remaining_bits -= qalloc`, then the two halves. -/
def splitGo (f : Int → BSt → BSt) (th : Theta) (delta : Int) (s : BSt) : BSt :=
  splitRun f (splitBits th.b delta) (th.b - splitBits th.b delta) th.itheta { s with rem := s.rem - th.qalloc }

/-- `quant_partition`, decode side: first argument `LM+1`. -/
def quantPartition (i : Nat) : Nat → Nat → Int → Nat → BSt → BSt
  | 0, N, b, _, s => leaf i 0 N b s
  | lm + 1, N, b, B, s =>
    if b > (cacheAt (rowOf (lm + 1) i) (cacheAt (rowOf (lm + 1) i) 0) : Int) + 12 ∧ N > 2 then
      match computeTheta i 0 false (N / 2) b B ((lm : Int) - 1) { s with fault := s.fault || !rowOk (rowOf (lm + 1) i) } with
      | (th, s1) =>
        splitGo (fun bits s' => quantPartition i lm (N / 2) bits ((B + 1) / 2) s') th
          (adjustDelta B th.itheta th.delta (N / 2) ((lm : Int) - 1)) s1
    else leaf i (lm + 1) N b s

/-! ### quant_band, quant_band_stereo -/

/-- One channel of `quant_band_n1` (bands.c:930-946). -/
def n1One (s : BSt) : BSt :=
  if s.rem ≥ 8 then
    match s.raw 1 with
    | (_, s1) => { s1 with rem := s1.rem - 8 }
  else s

/-- "Increasing the time resolution" (bands.c:1174-1186): the final `B`; the fuel is `-tf_change`. -/
def timeDivide : Nat → Nat → Nat → Nat
  | 0, B, _ => B
  | k + 1, B, NB => if NB % 2 = 0 then timeDivide k (B * 2) (NB / 2) else B

/-- `B` with which `quant_band` calls `quant_partition`. -/
def bandB (N B : Nat) (tf : Int) : Nat :=
  timeDivide (-tf).toNat (B / 2 ^ tf.toNat) ((N / B) * 2 ^ tf.toNat)

/-- `quant_band`, decode side. -/
def quantBand (i lm1 N : Nat) (B : Nat) (tf : Int) (b : Int) (s : BSt) : BSt :=
  if N = 1 then n1One s else quantPartition i lm1 N b (bandB N B tf) s

/-- The `N == 2` case of `quant_band_stereo` (bands.c:1296-1346). -/
def stereoN2 (i lm1 : Nat) (B : Nat) (tf : Int) (th : Theta) (s : BSt) : BSt :=
  if th.itheta ≠ 0 ∧ th.itheta ≠ 16384 then
    match { s with rem := s.rem - (th.qalloc + 8) }.raw 1 with
    | (_, s1) => quantBand i lm1 2 B tf (th.b - 8) s1
  else quantBand i lm1 2 B tf th.b { s with rem := s.rem - th.qalloc }

/-- `quant_band_stereo`, decode side. -/
def quantBandStereo (i lm1 N : Nat) (B : Nat) (tf : Int) (intensity : Nat) (b : Int) (s : BSt) : BSt :=
  if N = 1 then n1One (n1One s)
  else
    match computeTheta i intensity true N b B ((lm1 : Int) - 1) s with
    | (th, s1) =>
      if N = 2 then stereoN2 i lm1 B tf th s1
      else splitGo (quantBand i lm1 N B tf) th th.delta s1

/-! ### quant_all_bands -/

/-- What `quant_all_bands` is called with (arrays indexed from `start`). -/
structure BandsIn where
  start : Nat
  end_ : Nat
  C : Nat
  LM : Nat
  B : Nat                -- shortBlocks ? M : 1
  tfRes : List Int
  pulses : List Int
  intensity : Nat
  codedBands : Nat
  totalBits : Int        -- len*(8<<BITRES) - anti_collapse_rsv
  deriving Repr

/-- `b` of band `i` (bands.c:1507-1518). -/
def bandBudget (p : BandsIn) (i : Nat) (balance rem : Int) : Int :=
  if i < p.codedBands then
    max 0 (min 16383 (min (rem + 1) (p.pulses.getD (i - p.start) 0 + Int.tdiv balance (min 3 (p.codedBands - i) : Nat))))
  else 0

/-- One band of the loop of `quant_all_bands` for a state whose `rem` has been set. -/
def bandOne (p : BandsIn) (i : Nat) (dual : Bool) (b : Int) (s : BSt) : BSt :=
  if dual then
    quantBand i (p.LM + 1) (2 ^ p.LM * (eBands.getD (i + 1) 0 - eBands.getD i 0)) p.B (p.tfRes.getD (i - p.start) 0) (b / 2)
      (quantBand i (p.LM + 1) (2 ^ p.LM * (eBands.getD (i + 1) 0 - eBands.getD i 0)) p.B (p.tfRes.getD (i - p.start) 0) (b / 2) s)
  else if p.C = 2 then
    quantBandStereo i (p.LM + 1) (2 ^ p.LM * (eBands.getD (i + 1) 0 - eBands.getD i 0)) p.B (p.tfRes.getD (i - p.start) 0)
      p.intensity b s
  else
    quantBand i (p.LM + 1) (2 ^ p.LM * (eBands.getD (i + 1) 0 - eBands.getD i 0)) p.B (p.tfRes.getD (i - p.start) 0) b s

/-- The band loop (bands.c:1486-1680): `k` bands left, band `i`, running `dual_stereo` and `balance`. -/
def bandLoop (p : BandsIn) : Nat → Nat → Bool → Int → BSt → BSt
  | 0, _, _, _, s => s
  | k + 1, i, dual, balance, s =>
    bandLoop p k (i + 1) (dual && !decide (i = p.intensity))
      ((if i ≠ p.start then balance - tellFrac s.c else balance) + p.pulses.getD (i - p.start) 0 + tellFrac s.c)
      (bandOne p i (dual && !decide (i = p.intensity))
        (bandBudget p i (if i ≠ p.start then balance - tellFrac s.c else balance) (p.totalBits - tellFrac s.c - 1))
        { s with rem := p.totalBits - tellFrac s.c - 1 })

/-! ### Fine energy, finalise -/

/-- `n` calls of `ec_dec_bits(dec, bits)` (one per channel). -/
def rawN (bits : Nat) : Nat → BSt → BSt
  | 0, s => s
  | n + 1, s => rawN bits n (s.raw bits).2

/-- `unquant_fine_energy` (quant_bands.c:492-513). -/
def fineLoop (C : Nat) : List Int → BSt → BSt
  | [], s => s
  | fq :: r, s => fineLoop C r (if fq > 0 then rawN fq.toNat C s else s)

/-- One priority pass of `unquant_energy_finalise` (quant_bands.c:522-539) over `(fine_quant, fine_priority)`. -/
def finalPass (C : Nat) (prio : Int) : List (Int × Int) → Int → BSt → Int × BSt
  | [], bl, s => (bl, s)
  | (fq, pr) :: r, bl, s =>
    if bl < C then (bl, s)
    else if fq ≥ 8 ∨ pr ≠ prio then finalPass C prio r bl s
    else finalPass C prio r (bl - C) (rawN 1 C s)

/-- `unquant_energy_finalise`. -/
def finalise (C : Nat) (fp : List (Int × Int)) (bitsLeft : Int) (s : BSt) : BSt :=
  match finalPass C 0 fp bitsLeft s with
  | (bl, s1) => (finalPass C 1 fp bl s1).2

/-! ### The allocation, driven by the range decoder -/

/-- `clt_compute_allocation`'s inputs from the header (celt_decoder.c:1252-1254). -/
def allocInp (cfg : CeltCfg) (h : CeltHdr) : CeltAlloc.Inp :=
  { start := cfg.start, end_ := cfg.end_, offsets := (List.replicate cfg.start 0 ++ h.offsets).map Int.ofNat,
    cap := h.caps.map Int.ofNat, trim := (h.trim : Int), intensity := 0, dualStereo := 0, total := h.bits,
    C := cfg.C, LM := cfg.LM, prev := 0, signalBandwidth := 0 }

/-- C17's allocation takes the values of its `ec_dec_bit_logp(ec,1)` / `ec_dec_uint(ec,ft)` calls from an oracle list.
    Which call comes next depends only on the values delivered so far; so the allocation is re-run with the values
    decoded so far until it asks for no more: `fuel` bounds the number of calls (≤ one skip flag per band + 2). -/
def allocDrive (p : CeltAlloc.Inp) : Nat → List Nat → BSt → Res (CeltAlloc.Out × BSt)
  | 0, _, _ => .abort
  | k + 1, orc, s =>
    match CeltAlloc.computeAllocation p { encode := false, oracle := orc, ops := [] } with
    | .ok o =>
      match o.ops.drop orc.length with
      | [] => .ok (o, s)
      | .bit _ :: _ =>
        match s.bit 1 with
        | (v, s1) => allocDrive p k (orc ++ [v]) s1
      | .uint _ ft :: _ =>
        match s.uint ft with
        | (v, s1) => allocDrive p k (orc ++ [v]) s1
    | .err e => .err e
    | .oob => .oob
    | .abort => .abort

/-! ### The rest of the frame -/

/-- A whole CELT frame. -/
structure CeltFrame where
  hdr : CeltHdr
  alloc : CeltAlloc.Out
  allocSt : BSt          -- after clt_compute_allocation (trace: its calls only)
  fin : BSt              -- at the end of the frame (trace: calls behind the allocation)
  deriving Repr

def bandsIn (cfg : CeltCfg) (len : Nat) (h : CeltHdr) (o : CeltAlloc.Out) : BandsIn :=
  { start := cfg.start, end_ := cfg.end_, C := cfg.C, LM := cfg.LM, B := if h.isTransient ≠ 0 then 2 ^ cfg.LM else 1,
    tfRes := h.tfRes, pulses := o.bands.map (·.pulses), intensity := o.intensity.toNat, codedBands := o.codedBands,
    totalBits := ((len * 64 : Nat) : Int) - h.antiCollapseRsv }

/-- Everything behind `clt_compute_allocation`: fine energy, band data, anti-collapse bit, finalise. -/
def afterAlloc (cfg : CeltCfg) (len : Nat) (h : CeltHdr) (o : CeltAlloc.Out) (s : BSt) : BSt :=
  match bandLoop (bandsIn cfg len h o) (cfg.end_ - cfg.start) cfg.start (o.dualStereo ≠ 0) o.balance
          (fineLoop cfg.C (o.bands.map (·.ebits)) s) with
  | s1 =>
    match (if h.antiCollapseRsv > 0 then (s1.raw 1).2 else s1) with
    | s2 => finalise cfg.C (o.bands.map fun x => (x.ebits, x.prio)) (((len * 8 : Nat) : Int) - tell s2.c) s2

/-- The symbol layer of `celt_decode_with_ec_dred(st, data, len, …, dec, …)` for `len > 1`.  A frame whose band data
    overruns its budget (`ec_tell(dec) > 8*len` at the end, celt_decoder.c:1357 — possible by a fraction of a bit, see
    tools/c03_budget_packets.txt) is decoded like any other; the C code only sets `st->error` (since 59715713; it used to
    return OPUS_INTERNAL_ERROR). -/
def celtFrame (cfg : CeltCfg) (len : Nat) (c : Dec) : Res CeltFrame :=
  match celtHeader cfg len c with
  | .ok h =>
    match allocDrive (allocInp cfg h) 64 [] { rem := 0, c := h.dec, tr := [], fault := false } with
    | .ok (o, s) =>
      match afterAlloc cfg len h o { s with tr := [] } with
      | s1 =>
        if s1.fault then .abort
        else .ok { hdr := h, alloc := o, allocSt := s, fin := s1 }
    | .err e => .err e
    | .oob => .oob
    | .abort => .abort
  | .err e => .err e
  | .oob => .oob
  | .abort => .abort

end Opus.CeltBands
