import OpusModel.EncSkel.Basic
import OpusModel.EncSkel.Repack
import OpusModel.EncSkel.Frame
import OpusModel.EncSkel.Native
import OpusModel.EncSkel.Cvbr
import OpusModel.EncSkel.MsRate
/-
  OpusModel.EncSkel — the encoder size / packet skeleton shared by properties C02 and C05
  (see the headers of the four sub-modules).
-/
