import OpusModel.SilkParams.Gains
/-
  OpusModel.SilkParams.PitchEnc — the integer tail of the encoder's pitch analyser: how the selected lag and contour
  become (a) the per-sub-frame lags the encoder itself works with (`psEncCtrl->pitchL[]`: LTP analysis, LTP
  quantisation, noise shaping quantiser) and (b) the two transmitted indices.

  C sources: silk/float/pitch_analysis_core_FLP.c:128-133 (lag bounds), :326-339 / :422-430 (codebook selection),
  :459-472 (outputs); the fixed-point build has the same integer tail in silk/fixed/pitch_analysis_core_FIX.c:528-554.
  Everything before it (correlations, the search) is floating point / signal dependent and is NOT modelled: the tail is
  a function of `(Fs_kHz, nb_subfr, lag, CBimax)` alone, where `lag` is `lag_new` (12/16 kHz, stage 3) or the stage-2
  `lag` (8 kHz).
-/
namespace Opus.SilkParams
open Opus Opus.Gen

/-- Result of the tail: `pitch_out[0..nb_subfr)`, `*lagIndex` (an `opus_int16` object), `*contourIndex` (`opus_int8`). -/
structure PitchEncOut where
  pitchOut : List Int
  lagIndex : Int
  contourIndex : Int
  deriving Repr, DecidableEq

/-- The contour codebook whose column `CBimax` is added: stage 3 for 12/16 kHz (pitch_analysis_core_FLP.c:422-430),
    stage 2 for 8 kHz (:326-339, still in force at :468), each in its 20 ms / 10 ms flavour; `(Lag_CB_ptr, cbk_size)`. -/
def pitchEncCodebook (fsKHz : Int) (nbSubfr : Nat) : List Int × Nat :=
  if fsKHz > 8 then
    if nbSubfr = SilkNlsf.peMaxNbSubfr then (SilkNlsf.cbLagsStage3, SilkNlsf.peNbCbksStage3Max)
    else (SilkNlsf.cbLagsStage3_10ms, SilkNlsf.peNbCbksStage3_10ms)
  else
    if nbSubfr = SilkNlsf.peMaxNbSubfr then (SilkNlsf.cbLagsStage2, SilkNlsf.peNbCbksStage2Ext)
    else (SilkNlsf.cbLagsStage2_10ms, SilkNlsf.peNbCbksStage2_10ms)

/-- `for( k = 0; k < nb_subfr; k++ ) { pitch_out[k] = lag + matrix_ptr( Lag_CB_ptr, k, CBimax, cbk_size );
    pitch_out[k] = silk_LIMIT( pitch_out[k], lo, hi ); }` (:459-462, :467-470), sub-frames `k, k+1, …`. -/
def pitchEncLoop (tab : List Int) (cbkSize : Nat) (cbimax lag lo hi : Int) : Nat → Nat → Res (List Int)
  | 0, _ => .ok []
  | n + 1, k => do
    let c ← getI tab ((k : Int) * (cbkSize : Int) + cbimax)
    let rest ← pitchEncLoop tab cbkSize cbimax lag lo hi n (k + 1)
    pure (limit (lag + c) lo hi :: rest)

/-- The tail.  `min_lag = PE_MIN_LAG_MS * Fs_kHz` (:128, `min_lag_8kHz` at 8 kHz, the same number); the upper clamp is
    the legal maximum `PE_MAX_LAG_MS * Fs_kHz` (:461, :469), not the search bound `max_lag` (:131) one below it. -/
def pitchEncTail (fsKHz : Int) (nbSubfr : Nat) (lag cbimax : Int) : Res PitchEncOut := do
  let cb := pitchEncCodebook fsKHz nbSubfr
  let minLag := SilkNlsf.peMinLagMs * fsKHz
  let out ← pitchEncLoop cb.1 cb.2 cbimax lag minLag (SilkNlsf.peMaxLagMs * fsKHz) nbSubfr 0
  pure { pitchOut := out, lagIndex := wrap16 (lag - minLag), contourIndex := wrap8 cbimax }

end Opus.SilkParams
