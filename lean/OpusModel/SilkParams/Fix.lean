import OpusModel.Basic
/-
  OpusModel.SilkParams.Fix — the SILK fixed-point macros used by the side-information
  dequantisers, as exact `Int` functions.

  C sources: silk/SigProc_FIX.h:398-410 (silk_ROR32), :427-461 (MUL, MLA, SMULL, DIV32),
  :474-483 (SAT16, ADD_SAT16), :503-532 (LSHIFT32, RSHIFT, LSHIFT_SAT32, RSHIFT_ROUND(64)),
  :539-588 (min/max/LIMIT/abs), :610 (SMMUL); silk/macros.h:41-107 (SMULWB, SMLAWB, SMULBB,
  SMULWW, SMLAWW, SUB_SAT32 — the `OPUS_FAST_INT64` variants, which is what celt/arch.h:122
  selects on x86-64), :113-126 (silk_CLZ32); silk/Inlines.h:50-60 (silk_CLZ_FRAC), :143-185
  (silk_INVERSE32_varQ).

  Conventions.  C `opus_int32`/`opus_int64` values are unbounded `Int`s.  Plain C arithmetic
  (`+ - *` on `int`) is modelled by the unbounded operation: where that differs from the
  machine result the C program has signed overflow (undefined behaviour), which the
  correspondence harness watches for with UBSan.  Every *explicit* narrowing the C code performs
  — an `(opus_int32)` cast of a 64-bit product, an `(opus_int16)` cast or a store into an
  `opus_int16`/`opus_int8` object, the `(opus_uint32)` round trip inside `silk_LSHIFT32` — is
  modelled by `wrap32`/`wrap16`/`wrap8` (two's complement truncation, which is what gcc
  implements).  `x / 2^n` on `Int` is floor division, i.e. the arithmetic right shift gcc
  performs on negative values; `Int.tdiv` is C's truncating `/`.
-/
namespace Opus.SilkParams

/-- Two's-complement truncation to 8 bits (store into an `opus_int8`). -/
def wrap8 (x : Int) : Int := (x + 128) % 256 - 128
/-- Two's-complement truncation to 16 bits (`(opus_int16)x`, store into an `opus_int16`). -/
def wrap16 (x : Int) : Int := (x + 32768) % 65536 - 32768
/-- Two's-complement truncation to 32 bits (`(opus_int32)x` of a 64-bit value). -/
def wrap32 (x : Int) : Int := (x + 2147483648) % 4294967296 - 2147483648

/-- `silk_SAT16` (SigProc_FIX.h:474). -/
def sat16 (a : Int) : Int := if a > 32767 then 32767 else if a < -32768 then -32768 else a
/-- Saturation to `opus_int32`. -/
def sat32 (a : Int) : Int :=
  if a > 2147483647 then 2147483647 else if a < -2147483648 then -2147483648 else a

/-- `silk_ADD_SAT16(a, b)` = `(opus_int16)silk_SAT16((opus_int32)a + b)` (SigProc_FIX.h:483). -/
def addSat16 (a b : Int) : Int := wrap16 (sat16 (a + b))

/-- `silk_SUB_SAT32` (macros.h:103): saturating 32-bit subtraction. -/
def subSat32 (a b : Int) : Int := sat32 (a - b)

/-- `silk_RSHIFT(a, n)`: arithmetic right shift. -/
def shrI (a : Int) (n : Nat) : Int := a / (2 : Int) ^ n

/-- `silk_LSHIFT32(a, n)` = `(opus_int32)((opus_uint32)a << n)` (SigProc_FIX.h:503). -/
def lshift32 (a : Int) (n : Nat) : Int := wrap32 (a * (2 : Int) ^ n)

/-- `silk_RSHIFT_ROUND(a, s)` and `silk_RSHIFT_ROUND64` (SigProc_FIX.h:531-532):
    `s == 1 ? (a >> 1) + (a & 1) : ((a >> (s-1)) + 1) >> 1`. -/
def rshiftRound (a : Int) (s : Nat) : Int :=
  if s = 1 then a / 2 + a % 2 else (a / (2 : Int) ^ (s - 1) + 1) / 2

/-- `silk_SMULBB(a, b)` = `(opus_int32)(opus_int16)a * (opus_int32)(opus_int16)b` (macros.h:71). -/
def smulbb (a b : Int) : Int := wrap16 a * wrap16 b

/-- `silk_SMULWB(a, b)` = `(opus_int32)((a * (opus_int64)(opus_int16)b) >> 16)` (macros.h:43). -/
def smulwb (a b : Int) : Int := wrap32 ((a * wrap16 b) / 65536)

/-- `silk_SMLAWB(a, b, c)` = `(opus_int32)(a + ((b * (opus_int64)(opus_int16)c) >> 16))` (macros.h:50). -/
def smlawb (a b c : Int) : Int := wrap32 (a + (b * wrap16 c) / 65536)

/-- `silk_SMULWW(a, b)` = `(opus_int32)(((opus_int64)a * b) >> 16)` (macros.h:86). -/
def smulww (a b : Int) : Int := wrap32 ((a * b) / 65536)

/-- `silk_SMLAWW(a, b, c)` = `(opus_int32)(a + (((opus_int64)b * c) >> 16))` (macros.h:93). -/
def smlaww (a b c : Int) : Int := wrap32 (a + (b * c) / 65536)

/-- `silk_SMMUL(a, b)` = `(opus_int32)(((opus_int64)a * b) >> 32)` (SigProc_FIX.h:610). -/
def smmul (a b : Int) : Int := wrap32 ((a * b) / 4294967296)

/-- `silk_LIMIT(a, limit1, limit2)` (SigProc_FIX.h:581-582), both orientations as in C. -/
def limit (a l1 l2 : Int) : Int :=
  if l1 > l2 then (if a > l1 then l1 else if a < l2 then l2 else a)
  else (if a > l2 then l2 else if a < l1 then l1 else a)

/-- `silk_abs(a)` = `a > 0 ? a : -a` (SigProc_FIX.h:588). -/
def sabs (a : Int) : Int := if a > 0 then a else -a

/-- `silk_CLZ32` (macros.h:120-125) of an `opus_int32`: 32 for 0, 0 for negative values
    (top bit set), otherwise `32 - EC_ILOG(x)`. -/
def clz32 (x : Int) : Int :=
  if x = 0 then 32 else if x < 0 then 0 else 32 - ((Nat.log2 x.toNat : Nat) + 1 : Int)

/-- `silk_ROR32(a32, rot)` (SigProc_FIX.h:398-410) on the unsigned image of `a32`. -/
def ror32 (a : Int) (rot : Int) : Int :=
  let x : Nat := (a % 4294967296).toNat
  if rot = 0 then a
  else if rot < 0 then
    let m := (-rot).toNat
    wrap32 (Int.ofNat (((x * 2 ^ m) % 4294967296) ||| (x / 2 ^ (32 - m))))
  else
    let r := rot.toNat
    wrap32 (Int.ofNat (((x * 2 ^ (32 - r)) % 4294967296) ||| (x / 2 ^ r)))

/-- `silk_CLZ_FRAC` (Inlines.h:50-60): `(lz, frac_Q7)`. -/
def clzFrac (x : Int) : Int × Int :=
  let lz := clz32 x
  let r := ror32 x (24 - lz)
  (lz, r % 128)

/-- `silk_LSHIFT_SAT32(a, s)` (SigProc_FIX.h:514-515). -/
def lshiftSat32 (a : Int) (s : Nat) : Int :=
  lshift32 (limit a (shrI (-2147483648) s) (shrI 2147483647 s)) s

/-- `silk_INVERSE32_varQ(b32, Qres)` (Inlines.h:143-185); `b32 ≠ 0`, `Qres > 0`. -/
def inverse32VarQ (b32 : Int) (qres : Int) : Int :=
  let bHeadrm := clz32 (sabs b32) - 1
  let b32Nrm := lshift32 b32 bHeadrm.toNat
  let b32Inv := Int.tdiv 536870911 (shrI b32Nrm 16)            -- silk_DIV32_16(silk_int32_MAX >> 2, b32_nrm >> 16)
  let result := lshift32 b32Inv 16
  let errQ32 := lshift32 (536870912 - smulwb b32Nrm b32Inv) 3
  let result := smlaww result errQ32 b32Inv
  let lsh := 61 - bHeadrm - qres
  if lsh ≤ 0 then lshiftSat32 result (-lsh).toNat
  else if lsh < 32 then shrI result lsh.toNat
  else 0

/-- Lookup with an explicit out-of-bounds outcome. -/
def getI (l : List Int) (i : Int) : Res Int :=
  if i < 0 then .oob else
    match l[i.toNat]? with
    | some v => .ok v
    | none => .oob

end Opus.SilkParams
