import OpusModel.SilkParams.Fix
import OpusModel.Gen.SilkNlsf
/-
  OpusModel.SilkParams.Lpc — NLSF → LPC conversion and the codec's stability test.

  C sources: silk/NLSF2A.c:44-141 (silk_NLSF2A_find_poly, silk_NLSF2A), silk/LPC_fit.c:36-82
  (silk_LPC_fit), silk/bwexpander_32.c:36-51 (silk_bwexpander_32), silk/LPC_inv_pred_gain.c:43-141
  (LPC_inverse_pred_gain_QA_c, silk_LPC_inverse_pred_gain_c), silk/table_LSF_cos.c.
  `silk_LPC_inverse_pred_gain(a, d, arch)` is `silk_LPC_inverse_pred_gain_c(a, d)` on x86
  (silk/SigProc_FIX.h: no override outside ARM NEON).
-/
namespace Opus.SilkParams
open Opus Opus.Gen

/-! ### silk_bwexpander_32 -/

/-- `silk_bwexpander_32` (bwexpander_32.c:36-51): `bwexpLoop ar chirp_Q16 chirp_minus_one_Q16`. -/
def bwexpLoop : List Int → Int → Int → List Int
  | [], _, _ => []
  | [x], c, _ => [smulww c x]
  | x :: y :: xs, c, cm1 => smulww c x :: bwexpLoop (y :: xs) (c + rshiftRound (c * cm1) 16) cm1

def bwexpander32 (ar : List Int) (chirpQ16 : Int) : List Int :=
  bwexpLoop ar chirpQ16 (chirpQ16 - 65536)

/-! ### silk_LPC_inverse_pred_gain -/

/-- One coefficient update of the step-down recursion (LPC_inv_pred_gain.c:81-95):
    `RSHIFT_ROUND64(SMULL(SUB_SAT32(t1, MUL32_FRAC_Q(t2, rc_Q31, 31)), rc_mult2), mult2Q)`. -/
def invGainUpd (rcQ31 rcMult2 : Int) (mult2Q : Nat) (t1 t2 : Int) : Int :=
  rshiftRound (subSat32 t1 (wrap32 (rshiftRound (t2 * rcQ31) 31)) * rcMult2) mult2Q

/-- `31 - QA` of LPC_inv_pred_gain.c. -/
def invGainRcShift : Nat := 31 - SilkNlsf.invGainQA

/-- `LPC_inverse_pred_gain_QA_c` (LPC_inv_pred_gain.c:43-118).  `invGainLoop k A g`: the state at
    the top of the iteration with C loop variable `k`, `A = A_QA[0..k]` (only these entries are
    ever read again), `g = invGain_Q30`.  In C the inner loop updates the pairs `(n, k-n-1)` in
    place from the old values of both and returns 0 as soon as one new value leaves the
    `opus_int32` range; every new value is `invGainUpd A[n] A[k-1-n]`, so the same result is
    obtained by computing all `k` new values first. -/
def invGainLoop : Nat → List Int → Int → Int
  | 0, A, g =>
    let a0 := A.getD 0 0
    if a0 > SilkNlsf.invGainALimit ∨ a0 < -SilkNlsf.invGainALimit then 0
    else
      let rc := -(lshift32 a0 invGainRcShift)
      let rcMult1 := 1073741824 - smmul rc rc
      let g := lshift32 (smmul g rcMult1) 2
      if g < SilkNlsf.invGainThresholdQ30 then 0 else g
  | k + 1, A, g =>
    let ak := A.getD (k + 1) 0
    if ak > SilkNlsf.invGainALimit ∨ ak < -SilkNlsf.invGainALimit then 0
    else
      let rc := -(lshift32 ak invGainRcShift)
      let rcMult1 := 1073741824 - smmul rc rc
      let g := lshift32 (smmul g rcMult1) 2
      if g < SilkNlsf.invGainThresholdQ30 then 0
      else
        let mult2Q := (32 - clz32 (sabs rcMult1)).toNat
        let rcMult2 := inverse32VarQ rcMult1 ((mult2Q : Int) + 30)
        let init := A.take (k + 1)
        let upd := List.zipWith (invGainUpd rc rcMult2 mult2Q) init init.reverse
        if upd.any (fun v => decide (v > 2147483647) || decide (v < -2147483648)) then 0
        else invGainLoop k upd g

/-- `silk_LPC_inverse_pred_gain_c` (LPC_inv_pred_gain.c:121-141); `order = A_Q12.length ≥ 1`. -/
def lpcInversePredGain (aQ12 : List Int) : Int :=
  let dcResp := sumI aQ12
  if dcResp ≥ 4096 then 0
  else
    match aQ12.length with
    | 0 => 0
    | k + 1 => invGainLoop k (aQ12.map fun a => lshift32 a (SilkNlsf.invGainQA - 12)) 1073741824
where
  sumI : List Int → Int
    | [] => 0
    | x :: xs => x + sumI xs

/-! ### silk_LPC_fit -/

/-- Maximum absolute value and its index (LPC_fit.c:50-57); `idx` keeps its previous value
    when no element exceeds the running maximum. -/
def maxAbsScan : List Int → Nat → Int → Nat → Int × Nat
  | [], _, m, idx => (m, idx)
  | a :: as, k, m, idx =>
    let v := sabs a
    if v > m then maxAbsScan as (k + 1) v k else maxAbsScan as (k + 1) m idx

/-- The up-to-10 limiting iterations of `silk_LPC_fit` (LPC_fit.c:48-70) for shift `QIN-QOUT`.
    Returns the coefficients and whether all iterations were used (`i == 10`). -/
def lpcFitLoop (sh : Nat) : Nat → List Int → Nat → List Int × Bool
  | 0, a, _ => (a, true)
  | n + 1, a, idx =>
    let r := maxAbsScan a 0 0 idx
    let maxabs := rshiftRound r.1 sh
    if maxabs > 32767 then
      let maxabs := min maxabs 163838
      let chirp := 65470 - Int.tdiv (lshift32 (maxabs - 32767) 14) (shrI (maxabs * ((r.2 : Int) + 1)) 2)
      lpcFitLoop sh n (bwexpander32 a chirp) r.2
    else (a, false)

/-- `silk_LPC_fit(a_QOUT, a_QIN, QOUT, QIN, d)` (LPC_fit.c:36-82) with `sh = QIN - QOUT`:
    `(a_QOUT, a_QIN after the call)`. -/
def lpcFit (a : List Int) (sh : Nat) : List Int × List Int :=
  let r := lpcFitLoop sh 10 a 0
  if r.2 then
    let q := r.1.map fun x => wrap16 (sat16 (rshiftRound x sh))
    (q, q.map fun x => lshift32 x sh)
  else (r.1.map fun x => wrap16 (rshiftRound x sh), r.1)

/-! ### silk_NLSF2A -/

def ordering16 : List Nat := [0, 15, 8, 7, 4, 11, 12, 3, 2, 13, 10, 5, 6, 9, 14, 1]
def ordering10 : List Nat := [0, 9, 6, 3, 4, 5, 8, 1, 2, 7]

/-- Table interpolation of `2*cos(LSF)` in QA=16 (NLSF2A.c:89-106). -/
def cosLsf (nlsf : Int) : Res Int := do
  let fInt := shrI nlsf 8
  let fFrac := nlsf - lshift32 fInt 8
  let cosVal ← getI SilkNlsf.lsfCosTabQ12 fInt
  let nxt ← getI SilkNlsf.lsfCosTabQ12 (fInt + 1)
  let delta := nxt - cosVal
  pure (rshiftRound (lshift32 cosVal 8 + delta * fFrac) 4)

def cosLsfAll : List Int → Res (List Int)
  | [] => .ok []
  | x :: xs => do
    let c ← cosLsf x
    let cs ← cosLsfAll xs
    pure (c :: cs)

/-- One outer iteration `k` of `silk_NLSF2A_find_poly` (NLSF2A.c:57-64): from `out[0..k]` to
    `out[0..k+1]`; the in-place inner loop runs downwards, so every new entry is a function of
    the old ones. -/
def polyStep (f : Int) (o : List Int) : List Int :=
  let k := o.length - 1
  (List.range (k + 2)).map fun n =>
    if n = 0 then o.getD 0 0
    else if n = 1 then o.getD 1 0 - f
    else if n = k + 1 then lshift32 (o.getD (k - 1) 0) 1 - wrap32 (rshiftRound (f * o.getD k 0) 16)
    else o.getD n 0 + (o.getD (n - 2) 0 - wrap32 (rshiftRound (f * o.getD (n - 1) 0) 16))

/-- `silk_NLSF2A_find_poly` (NLSF2A.c:44-65) on the strided inputs `cLSF[0], cLSF[2], …`. -/
def findPoly : List Int → List Int
  | [] => [65536]
  | f0 :: rest => rest.foldl (fun o f => polyStep f o) [65536, -f0]

def evens : List Int → List Int
  | a :: _ :: rest => a :: evens rest
  | [a] => [a]
  | [] => []
def odds : List Int → List Int
  | _ :: b :: rest => b :: odds rest
  | _ => []

/-- `a32_QA1` of NLSF2A.c:114-123 from the `d` reordered cosines. -/
def nlsf2aPoly (cosQA : List Int) : List Int :=
  let dd := cosQA.length / 2
  let P := findPoly (evens cosQA)
  let Q := findPoly (odds cosQA)
  let lo := (List.range dd).map fun k =>
    -(Q.getD (k + 1) 0 - Q.getD k 0) - (P.getD (k + 1) 0 + P.getD k 0)
  let hi := (List.range dd).map fun k =>
    (Q.getD (k + 1) 0 - Q.getD k 0) - (P.getD (k + 1) 0 + P.getD k 0)
  lo ++ hi.reverse

/-- Re-quantisation inside the stabilisation loop (NLSF2A.c:135-137), `QA+1-12 = 5`. -/
def requantQ12 (a32 : List Int) : List Int := a32.map fun a => wrap16 (rshiftRound a 5)

/-- The stabilisation loop of NLSF2A.c:131-138: `nlsf2aLoop n i a32 aQ12` with `n` iterations
    left (`n + i = MAX_LPC_STABILIZE_ITERATIONS`). -/
def nlsf2aLoop : Nat → Nat → List Int → List Int → List Int
  | 0, _, _, aQ12 => aQ12
  | n + 1, i, a32, aQ12 =>
    if lpcInversePredGain aQ12 = 0 then
      let a32' := bwexpander32 a32 (65536 - lshift32 2 i)
      nlsf2aLoop n (i + 1) a32' (requantQ12 a32')
    else aQ12

/-- `silk_NLSF2A(a_Q12, NLSF, d, arch)` (NLSF2A.c:68-141), `d = NLSF.length`. -/
def nlsf2a (nlsf : List Int) : Res (List Int) :=
  let d := nlsf.length
  if d ≠ 10 ∧ d ≠ 16 then .abort       -- celt_assert( d==10 || d==16 )
  else do
    let ordering := if d = 16 then ordering16 else ordering10
    let vals ← cosLsfAll nlsf
    let cosQA := (List.range d).map fun j => vals.getD (ordering.idxOf j) 0
    let a32 := nlsf2aPoly cosQA
    let r := lpcFit a32 5
    pure (nlsf2aLoop SilkNlsf.maxLpcStabilizeIterations 0 r.2 r.1)

/-! ### operands of the `(opus_int16)` casts (used by the range theorem `lpc_fit_int16` and, for the
     tie, to report how many casts truncated on a given input) -/

/-- The operands of the `(opus_int16)` casts of `silk_LPC_fit` (LPC_fit.c:72-81), `QIN-QOUT = 5`:
    `silk_SAT16( silk_RSHIFT_ROUND( a_QIN[k], 5 ) )` when all 10 iterations were used, otherwise
    `silk_RSHIFT_ROUND( a_QIN[k], 5 )`. -/
def lpcFitCasts (a : List Int) : List Int :=
  let r := lpcFitLoop 5 10 a 0
  if r.2 then r.1.map fun x => sat16 (rshiftRound x 5) else r.1.map fun x => rshiftRound x 5

/-- The operands of the `(opus_int16)` casts `silk_RSHIFT_ROUND( a32_QA1[k], QA + 1 - 12 )`
    executed by the stabilisation loop of `silk_NLSF2A` (NLSF2A.c:131-138), all iterations. -/
def nlsf2aLoopCasts : Nat → Nat → List Int → List Int → List Int
  | 0, _, _, _ => []
  | n + 1, i, a32, aQ12 =>
    if lpcInversePredGain aQ12 = 0 then
      let a32' := bwexpander32 a32 (65536 - lshift32 2 i)
      a32'.map (fun a => rshiftRound a 5) ++ nlsf2aLoopCasts n (i + 1) a32' (requantQ12 a32')
    else []

/-- All operands of `(opus_int16)` casts in `silk_NLSF2A` for a given `a32_QA1` (those of
    silk_LPC_fit, then those of the stabilisation loop). -/
def nlsf2aCasts (a32 : List Int) : List Int :=
  lpcFitCasts a32 ++ nlsf2aLoopCasts SilkNlsf.maxLpcStabilizeIterations 0 (lpcFit a32 5).2 (lpcFit a32 5).1

/-- Number of cast operands that do not survive the conversion to `opus_int16`. -/
def truncCount (l : List Int) : Nat := (l.filter fun v => wrap16 v != v).length

/-- `silk_NLSF2A` together with the number of its `(opus_int16)` casts that truncate. -/
def nlsf2aTr (nlsf : List Int) : Res (List Int × Nat) :=
  let d := nlsf.length
  if d ≠ 10 ∧ d ≠ 16 then .abort
  else do
    let ordering := if d = 16 then ordering16 else ordering10
    let vals ← cosLsfAll nlsf
    let cosQA := (List.range d).map fun j => vals.getD (ordering.idxOf j) 0
    let a32 := nlsf2aPoly cosQA
    let r := lpcFit a32 5
    pure (nlsf2aLoop SilkNlsf.maxLpcStabilizeIterations 0 r.2 r.1, truncCount (nlsf2aCasts a32))

end Opus.SilkParams
