import OpusModel.SilkParams.Fix
import OpusModel.Gen.SilkNlsf
/-
  OpusModel.SilkParams.Nlsf — NLSF codebook decoding and stabilisation.

  C sources: silk/NLSF_unpack.c:35-54 (silk_NLSF_unpack), silk/NLSF_decode.c:35-92
  (silk_NLSF_residual_dequant, silk_NLSF_decode), silk/NLSF_stabilize.c:48-141
  (silk_NLSF_stabilize), silk/sort.c:135-154 (silk_insertion_sort_increasing_all_values_int16),
  silk/structs.h:100-113 (silk_NLSF_CB_struct), the tables of silk/tables_NLSF_CB_NB_MB.c and
  silk/tables_NLSF_CB_WB.c through the regenerated module `Opus.Gen.SilkNlsf`.

  Vectors are lists; the C parameter `L`/`order` is the length of the list.  A read outside a
  table is the outcome `.oob`; an integer division by zero is `.abort`.
-/
namespace Opus.SilkParams
open Opus Opus.Gen

/-- `silk_NLSF_CB_struct` (silk/structs.h:100-113). -/
structure NlsfCB where
  nVectors : Nat
  order : Nat
  quantStepSizeQ16 : Int
  invQuantStepSizeQ6 : Int
  cb1NlsfQ8 : List Int
  cb1WghtQ9 : List Int
  cb1ICDF : List Int
  predQ8 : List Int
  ecSel : List Int
  ecICDF : List Int
  ecRatesQ5 : List Int
  deltaMinQ15 : List Int

/-- `silk_NLSF_CB_NB_MB` (silk/tables_NLSF_CB_NB_MB.c:181-195). -/
def cbNbMb : NlsfCB where
  nVectors := SilkNlsf.nVectorsNbMb
  order := SilkNlsf.orderNbMb
  quantStepSizeQ16 := SilkNlsf.quantStepSizeQ16NbMb
  invQuantStepSizeQ6 := SilkNlsf.invQuantStepSizeQ6NbMb
  cb1NlsfQ8 := SilkNlsf.cb1NlsfQ8NbMb
  cb1WghtQ9 := SilkNlsf.cb1WghtQ9NbMb
  cb1ICDF := SilkNlsf.cb1ICDFNbMb
  predQ8 := SilkNlsf.predQ8NbMb
  ecSel := SilkNlsf.ecSelNbMb
  ecICDF := SilkNlsf.ecICDFNbMb
  ecRatesQ5 := SilkNlsf.ecRatesQ5NbMb
  deltaMinQ15 := SilkNlsf.deltaMinQ15NbMb

/-- `silk_NLSF_CB_WB` (silk/tables_NLSF_CB_WB.c:219-233). -/
def cbWb : NlsfCB where
  nVectors := SilkNlsf.nVectorsWb
  order := SilkNlsf.orderWb
  quantStepSizeQ16 := SilkNlsf.quantStepSizeQ16Wb
  invQuantStepSizeQ6 := SilkNlsf.invQuantStepSizeQ6Wb
  cb1NlsfQ8 := SilkNlsf.cb1NlsfQ8Wb
  cb1WghtQ9 := SilkNlsf.cb1WghtQ9Wb
  cb1ICDF := SilkNlsf.cb1ICDFWb
  predQ8 := SilkNlsf.predQ8Wb
  ecSel := SilkNlsf.ecSelWb
  ecICDF := SilkNlsf.ecICDFWb
  ecRatesQ5 := SilkNlsf.ecRatesQ5Wb
  deltaMinQ15 := SilkNlsf.deltaMinQ15Wb

/-- `2 * NLSF_QUANT_MAX_AMPLITUDE + 1`: size of one second-stage entropy table. -/
def ecTabSize : Int := 2 * SilkNlsf.nlsfQuantMaxAmplitude + 1

/-! ### silk_NLSF_unpack -/

/-- One iteration (`i`, `i+1`) of the loop of `silk_NLSF_unpack` (NLSF_unpack.c:46-52):
    `((ec_ix[i], ec_ix[i+1]), (pred_Q8[i], pred_Q8[i+1]))`. -/
def unpackEntry (cb : NlsfCB) (i : Nat) (entry : Int) : Res ((Int × Int) × (Int × Int)) := do
  let e0 := smulbb ((entry / 2) % 8) ecTabSize
  let p0 ← getI cb.predQ8 ((i : Int) + (entry % 2) * ((cb.order : Int) - 1))
  let e1 := smulbb ((entry / 32) % 8) ecTabSize
  let p1 ← getI cb.predQ8 ((i : Int) + ((entry / 16) % 2) * ((cb.order : Int) - 1) + 1)
  pure ((e0, e1), (p0, p1))

/-- The loop of `silk_NLSF_unpack` over the `order/2` selector bytes of the row. -/
def unpackLoop (cb : NlsfCB) : Nat → List Int → Res (List Int × List Int)
  | _, [] => .ok ([], [])
  | i, e :: es => do
    let ((e0, e1), (p0, p1)) ← unpackEntry cb i e
    let (ecs, ps) ← unpackLoop cb (i + 2) es
    pure (e0 :: e1 :: ecs, p0 :: p1 :: ps)

/-- `silk_NLSF_unpack` (NLSF_unpack.c:35-54): `(ec_ix, pred_Q8)`. -/
def nlsfUnpack (cb : NlsfCB) (cb1 : Int) : Res (List Int × List Int) :=
  if cb1 < 0 then .oob
  else
    let sel := (cb.ecSel.drop (cb1.toNat * cb.order / 2)).take (cb.order / 2)
    if sel.length < cb.order / 2 then .oob else unpackLoop cb 0 sel

/-! ### silk_NLSF_residual_dequant / silk_NLSF_decode -/

/-- `silk_NLSF_residual_dequant` (NLSF_decode.c:35-58).  The C loop runs from `order-1` down to
    0; here the recursion returns the outputs for the tail together with the running `out_Q10`. -/
def resDequant (qstepQ16 : Int) : List Int → List Int → List Int × Int
  | i :: is, p :: ps =>
    let (xs, out) := resDequant qstepQ16 is ps
    let pred := shrI (smulbb out p) 8
    let o := lshift32 i 10
    let o := if o > 0 then o - SilkNlsf.nlsfQuantLevelAdjQ10
             else if o < 0 then o + SilkNlsf.nlsfQuantLevelAdjQ10 else o
    let o := smlawb pred o qstepQ16
    (wrap16 o :: xs, o)
  | _, _ => ([], 0)

/-- First-stage reconstruction of one coefficient (NLSF_decode.c:86-87); `w ≠ 0`. -/
def nlsfFirstStage (res w el : Int) : Int :=
  wrap16 (limit (Int.tdiv (lshift32 res 14) w + lshift32 (wrap16 el) 7) 0 32767)

def zip3With (f : Int → Int → Int → Int) : List Int → List Int → List Int → List Int
  | a :: as, b :: bs, c :: cs => f a b c :: zip3With f as bs cs
  | _, _, _ => []

/-! ### silk_NLSF_stabilize -/

/-- The `L+1` distances examined by the stabiliser (NLSF_stabilize.c:65-80):
    `x[0]-d[0]`, `x[i]-(x[i-1]+d[i])`, `2^15-(x[L-1]+d[L])`; call with `prev = 0`. -/
def diffsFrom (prev : Int) : List Int → List Int → List Int
  | [], d :: _ => [32768 - (prev + d)]
  | x :: xs, d :: ds => (x - (prev + d)) :: diffsFrom x xs ds
  | _, [] => []

/-- Smallest distance and its index, first strict minimum wins (NLSF_stabilize.c:65-80). -/
def argMin : List Int → Int → Nat → Nat → Int × Nat
  | [], m, I, _ => (m, I)
  | e :: es, m, I, i => if e < m then argMin es e i (i + 1) else argMin es m I (i + 1)

def sumL : List Int → Int
  | [] => 0
  | x :: xs => x + sumL xs

/-- One corrective move of the stabiliser (NLSF_stabilize.c:89-118). -/
def stabAdjust (x d : List Int) (I : Nat) : List Int :=
  let L := x.length
  if I = 0 then x.set 0 (wrap16 (d.getD 0 0))
  else if I = L then x.set (L - 1) (wrap16 (32768 - d.getD L 0))
  else
    let dI := d.getD I 0
    let minCenter := sumL (d.take I) + shrI dI 1
    let maxCenter := 32768 - sumL ((d.drop (I + 1)).take (L - I)) - shrI dI 1
    let center := wrap16 (limit (rshiftRound (x.getD (I - 1) 0 + x.getD I 0) 1) minCenter maxCenter)
    let lo := wrap16 (center - shrI dI 1)
    let hi := wrap16 (lo + dI)
    (x.set (I - 1) lo).set I hi

/-- Inner loop of the insertion sort (sort.c:149-152) on the *reversed* sorted prefix: elements
    greater than `v` are shifted, `v` is written in front of the first element `≤ v`. -/
def insR (v : Int) : List Int → List Int
  | [] => [v]
  | a :: as => if v < a then a :: insR v as else v :: a :: as

/-- `silk_insertion_sort_increasing_all_values_int16` (sort.c:135-154). -/
def insertionSort (x : List Int) : List Int := (x.foldl (fun rev v => insR v rev) []).reverse

/-- Forward pass of the fallback (NLSF_stabilize.c:131-132), `prev` = the element just written. -/
def stabFwd (prev : Int) : List Int → List Int → List Int
  | x :: xs, d :: ds =>
    let y := wrap16 (max x (addSat16 prev d))
    y :: stabFwd y xs ds
  | _, _ => []

/-- Backward pass of the fallback (NLSF_stabilize.c:135-139): `y[i]` is paired with `d[i+1]`. -/
def stabBwd : List Int → List Int → List Int
  | y :: ys, d :: ds =>
    match stabBwd ys ds with
    | [] => [wrap16 (min y (32768 - d))]
    | z :: zs => wrap16 (min y (z - d)) :: z :: zs
  | _, _ => []

/-- The fallback method (NLSF_stabilize.c:120-140). -/
def stabFallback (x d : List Int) : List Int :=
  match insertionSort x, d with
  | s0 :: ss, d0 :: dt =>
    let y0 := wrap16 (max s0 d0)
    stabBwd (y0 :: stabFwd y0 ss dt) dt
  | _, _ => x

/-- The `MAX_LOOPS` iterations (NLSF_stabilize.c:60-118) followed by the fallback. -/
def stabLoop (d : List Int) : Nat → List Int → List Int
  | 0, x => stabFallback x d
  | n + 1, x =>
    match diffsFrom 0 x d with
    | [] => x
    | e0 :: es =>
      let r := argMin es e0 0 1
      if r.1 ≥ 0 then x else stabLoop d n (stabAdjust x d r.2)

/-- `silk_NLSF_stabilize(NLSF_Q15, NDeltaMin_Q15, L)` with `L = x.length`, `d` of length `L+1`. -/
def nlsfStabilize (x d : List Int) : Res (List Int) :=
  if x.length = 0 ∨ d.length ≠ x.length + 1 then .oob
  else .ok (stabLoop d SilkNlsf.nlsfStabilizeMaxLoops x)

/-- `silk_NLSF_decode` (NLSF_decode.c:64-92); `indices = NLSFIndices[0 .. order]`. -/
def nlsfDecode (cb : NlsfCB) (indices : List Int) : Res (List Int) :=
  match indices with
  | [] => .oob
  | cb1 :: idx =>
    if idx.length ≠ cb.order then .oob
    else do
      let (_, pred) ← nlsfUnpack cb cb1
      let res := (resDequant cb.quantStepSizeQ16 idx pred).1
      let off := cb1.toNat * cb.order
      let el := (cb.cb1NlsfQ8.drop off).take cb.order
      let w := (cb.cb1WghtQ9.drop off).take cb.order
      if el.length < cb.order ∨ w.length < cb.order then .oob
      else if w.any (· == 0) then .abort
      else nlsfStabilize (zip3With nlsfFirstStage res w el) cb.deltaMinQ15

/-- NLSF interpolation of the decoder (decode_parameters.c:63-66):
    `pNLSF0[i] = prev[i] + ((coef_Q2 * (cur[i] - prev[i])) >> 2)` stored as `opus_int16`. -/
def nlsfInterpDec (coefQ2 : Int) : List Int → List Int → List Int
  | p :: ps, c :: cs => wrap16 (p + shrI (coefQ2 * (c - p)) 2) :: nlsfInterpDec coefQ2 ps cs
  | _, _ => []

/-- `silk_interpolate` (interpolate.c:35-51), used by the encoder (process_NLSFs.c:75,97):
    `xi[i] = (opus_int16)(x0[i] + (silk_SMULBB(x1[i] - x0[i], ifact_Q2) >> 2))`. -/
def nlsfInterpEnc (ifactQ2 : Int) : List Int → List Int → List Int
  | p :: ps, c :: cs => wrap16 (p + shrI (smulbb (c - p) ifactQ2) 2) :: nlsfInterpEnc ifactQ2 ps cs
  | _, _ => []

end Opus.SilkParams
