import OpusModel.SilkParams.Fix
import OpusModel.Gen.SilkNlsf
/-
  OpusModel.SilkParams.Gains — sub-frame gain quantiser / dequantiser and pitch lag decoder.

  C sources: silk/gain_quant.c:34-141 (silk_gains_quant, silk_gains_dequant), silk/log2lin.c:36-57,
  silk/lin2log.c:35-46, silk/decode_pitch.c:37-77, silk/pitch_est_tables.c.
  `ind[]` and `*prev_ind` are `opus_int8` objects: every store to them is a `wrap8`.
-/
namespace Opus.SilkParams
open Opus Opus.Gen

/-- `silk_log2lin` (log2lin.c:36-57). -/
def log2lin (inLogQ7 : Int) : Int :=
  if inLogQ7 < 0 then 0
  else if inLogQ7 ≥ 3967 then 2147483647
  else
    let out := lshift32 1 (shrI inLogQ7 7).toNat
    let frac := inLogQ7 % 128
    let t := smlawb frac (smulbb frac (128 - frac)) (-174)
    if inLogQ7 < 2048 then out + shrI (out * t) 7
    else out + shrI out 7 * t

/-- `silk_lin2log` (lin2log.c:35-46). -/
def lin2log (inLin : Int) : Int :=
  let r := clzFrac inLin
  smlawb r.2 (r.2 * (128 - r.2)) 179 + lshift32 (31 - r.1) 7

/-- Gain of a quantiser level (gain_quant.c:91 and :128):
    `silk_log2lin( silk_min_32( silk_SMULWB( INV_SCALE_Q16, *prev_ind ) + OFFSET, 3967 ) )`. -/
def gainOfIndex (prevInd : Int) : Int :=
  log2lin (min (smulwb SilkNlsf.gainInvScaleQ16 prevInd + SilkNlsf.gainOffset) 3967)

/-- `2 * MAX_DELTA_GAIN_QUANT - N_LEVELS_QGAIN + *prev_ind`. -/
def doubleStepThreshold (prevInd : Int) : Int :=
  2 * SilkNlsf.maxDeltaGainQuant - SilkNlsf.nLevelsQGain + prevInd

/-- Update of `*prev_ind` by one sub-frame of `silk_gains_dequant` (gain_quant.c:108-125).
    `first` = (`k == 0`), `cond` = the C argument `conditional`. -/
def gainDequantPrev (first : Bool) (cond : Int) (ind prevInd : Int) : Int :=
  let p :=
    if first ∧ cond = 0 then wrap8 (max ind (prevInd - 16))
    else
      let indTmp := ind + SilkNlsf.minDeltaGainQuant
      let thr := doubleStepThreshold prevInd
      if indTmp > thr then wrap8 (prevInd + (lshift32 indTmp 1 - thr))
      else wrap8 (prevInd + indTmp)
  wrap8 (limit p 0 (SilkNlsf.nLevelsQGain - 1))

/-- Loop of `silk_gains_dequant`: `(gain_Q16[], *prev_ind)`. -/
def gainsDequantLoop (cond : Int) : Bool → List Int → Int → List Int × Int
  | _, [], p => ([], p)
  | first, i :: is, p =>
    let p' := gainDequantPrev first cond i p
    let r := gainsDequantLoop cond false is p'
    (gainOfIndex p' :: r.1, r.2)

/-- `silk_gains_dequant(gain_Q16, ind, prev_ind, conditional, nb_subfr)`, `nb_subfr = ind.length`. -/
def gainsDequant (ind : List Int) (prevInd : Int) (cond : Int) : List Int × Int :=
  gainsDequantLoop cond true ind prevInd

/-- One sub-frame of `silk_gains_quant` (gain_quant.c:48-92): `(ind[k], *prev_ind, gain_Q16[k])`. -/
def gainQuantStep (first : Bool) (cond : Int) (gainQ16 prevInd : Int) : Int × Int × Int :=
  let nl := SilkNlsf.nLevelsQGain
  let i0 := wrap8 (smulwb SilkNlsf.gainScaleQ16 (lin2log gainQ16 - SilkNlsf.gainOffset))
  let i1 := if i0 < prevInd then wrap8 (i0 + 1) else i0
  let i2 := wrap8 (limit i1 0 (nl - 1))
  if first ∧ cond = 0 then
    let i3 := wrap8 (limit i2 (prevInd + SilkNlsf.minDeltaGainQuant) (nl - 1))
    (i3, i3, gainOfIndex i3)
  else
    let i3 := wrap8 (i2 - prevInd)
    let thr := doubleStepThreshold prevInd
    let i4 := if i3 > thr then wrap8 (thr + shrI (i3 - thr + 1) 1) else i3
    let i5 := wrap8 (limit i4 SilkNlsf.minDeltaGainQuant SilkNlsf.maxDeltaGainQuant)
    let p :=
      if i5 > thr then wrap8 (min (wrap8 (prevInd + (lshift32 i5 1 - thr))) (nl - 1))
      else wrap8 (prevInd + i5)
    (wrap8 (i5 - SilkNlsf.minDeltaGainQuant), p, gainOfIndex p)

/-- Loop of `silk_gains_quant`: `(ind[], gain_Q16[] (quantised), *prev_ind)`. -/
def gainsQuantLoop (cond : Int) : Bool → List Int → Int → List Int × List Int × Int
  | _, [], p => ([], [], p)
  | first, g :: gs, p =>
    let s := gainQuantStep first cond g p
    let r := gainsQuantLoop cond false gs s.2.1
    (s.1 :: r.1, s.2.2 :: r.2.1, r.2.2)

/-- `silk_gains_quant(ind, gain_Q16, prev_ind, conditional, nb_subfr)`. -/
def gainsQuant (gainQ16 : List Int) (prevInd : Int) (cond : Int) : List Int × List Int × Int :=
  gainsQuantLoop cond true gainQ16 prevInd

/-! ### silk_decode_pitch -/

/-- Codebook selection of `silk_decode_pitch` (decode_pitch.c:47-65): `(Lag_CB_ptr, cbk_size)`.
    Another sub-frame count trips `celt_assert( nb_subfr == PE_MAX_NB_SUBFR >> 1 )`. -/
def pitchCodebook (fsKHz : Int) (nbSubfr : Nat) : Res (List Int × Nat) :=
  if fsKHz = 8 then
    if nbSubfr = SilkNlsf.peMaxNbSubfr then .ok (SilkNlsf.cbLagsStage2, SilkNlsf.peNbCbksStage2Ext)
    else if nbSubfr = SilkNlsf.peMaxNbSubfr / 2 then
      .ok (SilkNlsf.cbLagsStage2_10ms, SilkNlsf.peNbCbksStage2_10ms)
    else .abort
  else
    if nbSubfr = SilkNlsf.peMaxNbSubfr then .ok (SilkNlsf.cbLagsStage3, SilkNlsf.peNbCbksStage3Max)
    else if nbSubfr = SilkNlsf.peMaxNbSubfr / 2 then
      .ok (SilkNlsf.cbLagsStage3_10ms, SilkNlsf.peNbCbksStage3_10ms)
    else .abort

def pitchMinLag (fsKHz : Int) : Int := smulbb SilkNlsf.peMinLagMs fsKHz
def pitchMaxLag (fsKHz : Int) : Int := smulbb SilkNlsf.peMaxLagMs fsKHz

/-- Sub-frame loop of `silk_decode_pitch` (decode_pitch.c:71-74), sub-frames `k, k+1, …`. -/
def pitchLoop (tab : List Int) (cbkSize : Nat) (contour lag minLag maxLag : Int) : Nat → Nat → Res (List Int)
  | 0, _ => .ok []
  | n + 1, k => do
    let c ← getI tab ((k : Int) * (cbkSize : Int) + contour)
    let rest ← pitchLoop tab cbkSize contour lag minLag maxLag n (k + 1)
    pure (limit (lag + c) minLag maxLag :: rest)

/-- `silk_decode_pitch(lagIndex, contourIndex, pitch_lags, Fs_kHz, nb_subfr)`. -/
def decodePitch (lagIndex contourIndex fsKHz : Int) (nbSubfr : Nat) : Res (List Int) := do
  let cb ← pitchCodebook fsKHz nbSubfr
  let minLag := pitchMinLag fsKHz
  let maxLag := pitchMaxLag fsKHz
  pitchLoop cb.1 cb.2 contourIndex (minLag + lagIndex) minLag maxLag nbSubfr 0

end Opus.SilkParams
