import OpusModel.ResetState
/-
  OpusModel.ResetDecode — one decode call of the top-level decoder as a read/write footprint over
  `DecView`, the decoder's setting requests, and call sequences (property C12, decoder half).

  C sources
    src/opus_decoder.c:689-860   opus_decode_native   (argument checks, concealment loop, FEC, frame loop)
    src/opus_decoder.c:245-688   opus_decode_frame    (mode / transition / SILK / CELT / redundancy)
    src/opus_decoder.c:973-1150  opus_decoder_ctl     (OPUS_SET_GAIN, OPUS_SET_COMPLEXITY,
                                                       OPUS_SET_PHASE_INVERSION_DISABLED, getters)
  Everything the DSP computes is an uninterpreted function of the view and the call arguments.
-/
namespace Opus.ResetState
open Opus

/-- Arguments of one decode call: opaque packet identity (0 = NULL / lost), buffer size in samples,
    decode_fec flag, which entry point (float / int16 / int24). -/
structure DInp where
  packet : Nat
  frameSize : Int
  decodeFec : Int
  api : Int
  deriving DecidableEq, Repr

structure DOut where
  ret : Int
  pcm : Nat
  deriving DecidableEq, Repr

/-- How far a decode call gets. -/
inductive DPath
  | noWrite    -- argument errors, unparsable packet (:700-745): nothing is stored
  | conceal    -- data == NULL / len == 0, or FEC requested on a CELT-only packet (:716-735, :752-760):
               -- only opus_decode_frame(st, NULL, …) runs
  | packet     -- a packet is decoded (after optional concealment of the gap for FEC)
  deriving DecidableEq, Repr

/-- What the frames of one call leave behind. -/
structure DRes where
  streamChannels : Int
  bandwidth : Int
  mode : Int
  prevMode : Int               -- packet path: the mode of the decoded packet
  frameSize : Int
  prevRedundancy : Int
  lastPacketDuration : Int
  softclipMem : Blob
  rangeFinal : Int
  silkRan : Bool               -- silk_Decode was called (SILK / hybrid frame, or SILK concealment / transition)
  silkState : Blob
  celtState : Blob
  dcNChannelsInternal : Int
  dcInternalSampleRate : Int
  dcPayloadSizeMs : Int
  dcPrevPitchLag : Int
  dcEnableDeepPlc : Int
  silkNChannelsAPI : Int
  silkNChannelsInternal : Int
  deriving DecidableEq, Repr

structure DOracles where
  path : DecView → DInp → DPath
  res : DecView → DInp → DRes
  out : DecView → DInp → DOut
  get : DecView → Int → Int

/-- `opus_decode_native` as a footprint.
    * concealment (:311-325): the mode is `prev_redundancy ? CELT : prev_mode`; with mode 0 (nothing decoded
      since init / reset) zeros are returned and only `last_packet_duration` is stored (:733); otherwise
      `prev_mode := mode`, `prev_redundancy := 0` (:676-677) and DecControl.nChannelsInternal /
      internalSampleRate keep their values (they are assigned only under `data != NULL`, :410);
    * packet: `prev_mode` becomes the packet's mode; a SILK-only / hybrid packet runs silk_Decode with
      freshly assigned DecControl members (:410-427);
    * whenever silk_Decode runs it stores its own nChannelsAPI / nChannelsInternal (dec_API.c:214-215),
      payloadSize_ms / enable_deep_plc were assigned before it (:408, :429) and prevPitchLag after it;
      when it does not run, the SILK state and those members are untouched. -/
def decodeStep (O : DOracles) (s : Dec) (x : DInp) : Dec × DOut :=
  let v := decView s
  let d := O.res v x
  match O.path v x with
  | .noWrite => (s, O.out v x)
  | .conceal =>
    let mode := if v.prevRedundancy ≠ 0 then MODE_CELT_ONLY else v.prevMode
    if mode = 0 then ({ s with lastPacketDuration := d.lastPacketDuration }, O.out v x)
    else
      let ran := d.silkRan
      ({ s with
         streamChannels := d.streamChannels, bandwidth := d.bandwidth, mode := d.mode, prevMode := mode,
         frameSize := d.frameSize, prevRedundancy := 0, lastPacketDuration := d.lastPacketDuration,
         softclipMem := d.softclipMem, rangeFinal := d.rangeFinal, celtState := d.celtState,
         silkState := if ran then d.silkState else s.silkState,
         dcPayloadSizeMs := if ran then d.dcPayloadSizeMs else s.dcPayloadSizeMs,
         dcPrevPitchLag := if ran then d.dcPrevPitchLag else s.dcPrevPitchLag,
         dcEnableDeepPlc := if ran then d.dcEnableDeepPlc else s.dcEnableDeepPlc,
         silkNChannelsAPI := if ran then d.silkNChannelsAPI else s.silkNChannelsAPI,
         silkNChannelsInternal := if ran then d.silkNChannelsInternal else s.silkNChannelsInternal },
       O.out v x)
  | .packet =>
    let wrote := isSilkMode d.prevMode          -- a SILK-only / hybrid packet: DecControl assigned, SILK ran
    let ran := d.silkRan || wrote
    ({ s with
       streamChannels := d.streamChannels, bandwidth := d.bandwidth, mode := d.mode, prevMode := d.prevMode,
       frameSize := d.frameSize, prevRedundancy := d.prevRedundancy, lastPacketDuration := d.lastPacketDuration,
       softclipMem := d.softclipMem, rangeFinal := d.rangeFinal, celtState := d.celtState,
       silkState := if ran then d.silkState else s.silkState,
       dcNChannelsInternal := if wrote then d.dcNChannelsInternal else s.dcNChannelsInternal,
       dcInternalSampleRate := if wrote then d.dcInternalSampleRate else s.dcInternalSampleRate,
       dcPayloadSizeMs := if ran then d.dcPayloadSizeMs else s.dcPayloadSizeMs,
       dcPrevPitchLag := if ran then d.dcPrevPitchLag else s.dcPrevPitchLag,
       dcEnableDeepPlc := if ran then d.dcEnableDeepPlc else s.dcEnableDeepPlc,
       silkNChannelsAPI := if ran then d.silkNChannelsAPI else s.silkNChannelsAPI,
       silkNChannelsInternal := if ran then d.silkNChannelsInternal else s.silkNChannelsInternal },
     O.out v x)

/-- Decoder setting requests (opus_decoder.c:998-1008, 1083-1092, 1103-1112). -/
inductive DSetReq | gain | complexity | phaseInversionDisabled
  deriving DecidableEq, Repr

def DSetReq.ofId (req : Int) : Option DSetReq :=
  if req = 4034 then some .gain else if req = 4010 then some .complexity
  else if req = 4046 then some .phaseInversionDisabled else none

def dsetAccept : DSetReq → Int → Bool
  | .gain, v => !decide (v < -32768 ∨ v > 32767)
  | .complexity, v => !decide (v < 0 ∨ v > 10)
  | .phaseInversionDisabled, v => !decide (v < 0 ∨ v > 1)

def dsetApply (s : Dec) : DSetReq → Int → Dec
  | .gain, v => { s with decodeGain := v }
  | .complexity, v => { s with complexity := v, celtComplexity := v }     -- forwarded to CELT
  | .phaseInversionDisabled, v => { s with celtDisableInv := v }

def decSet (s : Dec) (req v : Int) : Option Dec :=
  match DSetReq.ofId req with
  | some k => if dsetAccept k v then some (dsetApply s k v) else none
  | none => none

def decGet (O : DOracles) (s : Dec) (req : Int) : Int := O.get (decView s) req

inductive DOp
  | set (req v : Int)
  | get (req : Int)
  | reset
  | decode (x : DInp)
  deriving DecidableEq, Repr

def runDOp (O : DOracles) (s : Dec) : DOp → Dec × Obs
  | .set req v => match decSet s req v with
    | some s' => (s', (0, 0))
    | none => (s, (-1, 0))
  | .get req => (s, (decGet O s req, 0))
  | .reset => (decReset s, (0, 0))
  | .decode x => let r := decodeStep O s x; (r.1, (r.2.ret, r.2.pcm))

def runDec (O : DOracles) (s : Dec) : List DOp → List Obs
  | [] => []
  | op :: rest => let r := runDOp O s op; r.2 :: runDec O r.1 rest

/-! ### Checking a real decode call against the footprint's structural claims -/

/-- Members no decode call writes. -/
def decConstSame (a b : Dec) : Bool :=
  a.celtDecOffset == b.celtDecOffset && a.silkDecOffset == b.silkDecOffset && a.channels == b.channels && a.fs == b.fs &&
  a.arch == b.arch && a.decodeGain == b.decodeGain && a.complexity == b.complexity && a.celtComplexity == b.celtComplexity &&
  a.celtDisableInv == b.celtDisableInv && a.dcNChannelsAPI == b.dcNChannelsAPI && a.dcApiSampleRate == b.dcApiSampleRate

/-- Is `post` a state `decodeStep` can produce from `pre` on its concealment path? -/
def concealClaim (pre post : Dec) : Bool :=
  let mode := if pre.prevRedundancy ≠ 0 then MODE_CELT_ONLY else pre.prevMode
  if mode = 0 then decide (post = { pre with lastPacketDuration := post.lastPacketDuration })
  else post.prevMode == mode && post.prevRedundancy == 0 &&
       post.dcNChannelsInternal == pre.dcNChannelsInternal && post.dcInternalSampleRate == pre.dcInternalSampleRate

/-- … on its packet path: DecControl.nChannelsInternal / internalSampleRate change only when the call leaves
    `prev_mode` SILK-only or hybrid. -/
def packetClaim (pre post : Dec) : Bool :=
  isSilkMode post.prevMode ||
  (post.dcNChannelsInternal == pre.dcNChannelsInternal && post.dcInternalSampleRate == pre.dcInternalSampleRate)

/-- Verdict on one observed call (`dataNull`: the call passed data == NULL or len == 0). -/
def decStepCheck (pre post : Dec) (dataNull : Bool) : String :=
  if !decConstSame pre post then "constant-member-written"
  else if decide (post = pre) then "ok"
  else if concealClaim pre post then "ok"
  else if dataNull then "conceal-claim-violated"
  else if packetClaim pre post then "ok"
  else "packet-claim-violated"

end Opus.ResetState
