import OpusModel.Framing
import OpusModel.Ext
/-
  OpusModel.Repack — transcription of src/repacketizer.c (repacketizer state machine,
  pad / unpad and their multistream variants).

  Conventions.
  * `OpusRepacketizer` borrows pointers into the packets given to `cat`; the model owns
    copies: `frames[i]` is the byte list `frames[i][0..len[i])`, `pads[i]` is
    `(paddings[i][0..padding_len[i]), padding_nb_frames[i])`.  Only the first `nb_frames`
    entries of the C arrays are observable; the model keeps exactly those
    (`nbFrames = frames.length`, `len[i] = frames[i].length`).
  * `toc` and `framesize` are overwritten by a failed first `cat` exactly as in C
    (unobservable: the next `cat` on an empty repacketizer overwrites them again).
  * The output buffer is returned as the byte list `data[0..ret)`.  In-place operation of
    `opus_packet_unpad` / `opus_multistream_packet_unpad` (source and destination overlap,
    OPUS_MOVE order) is *not* modelled: the frames are read from the owned copies.
  * A write past the 48-entry arrays would be `.oob`; a failing `celt_assert` is `.abort`.
  * `x &&& 0xFC` on a byte is `x / 4 * 4`.
-/
namespace Opus.Repack
open Opus Opus.Framing Opus.Ext

/-- `struct OpusRepacketizer` (opus_private.h:39-48). -/
structure Rp where
  toc : Nat
  framesize : Nat
  frames : List Bytes
  pads : List (Bytes × Nat)
  deriving Repr, DecidableEq

def Rp.nbFrames (rp : Rp) : Nat := rp.frames.length
def Rp.lens (rp : Rp) : List Nat := rp.frames.map List.length

def Rp.empty : Rp := { toc := 0, framesize := 0, frames := [], pads := [] }

/-- `opus_repacketizer_init` (repacketizer.c:43-47): only `nb_frames = 0`. -/
def init (rp : Rp) : Rp := { rp with frames := [], pads := [] }

/-- The frame slices `frames[i][0..size[i])` reported by `opus_packet_parse_impl`. -/
def slices (bs : Bytes) : Nat → List Nat → List Bytes
  | _, [] => []
  | off, s :: ss => (bs.drop off).take s :: slices bs (off + s) ss

/-- `opus_repacketizer_cat_impl` after the TOC check (repacketizer.c:77-101); `rp1` already holds
    the `toc` / `framesize` stored by a first `cat`. -/
def catBody (rp1 : Rp) (bs : Bytes) (sd : Bool) : Rp × Res Unit :=
  match getNbFrames bs with
  | .ok curr =>
    if curr < 1 then (rp1, .err .invalidPacket)
    else if (curr + rp1.nbFrames) * rp1.framesize > 960 then (rp1, .err .invalidPacket)
    else
      match parseImpl sd bs with
      | .ok r =>
        if r.count < 1 then (rp1, .err .invalidPacket)                 -- if(ret<1) return ret
        else if 48 < rp1.nbFrames + r.count ∨ 48 < rp1.nbFrames + curr then (rp1, .oob)
        else if curr ≠ r.count then (rp1, .oob)                        -- model gap guard, see `cat_no_fault`
        else
          let fr := slices bs r.payloadOffset r.sizes
          let pad := (bs.drop r.padOffset).take r.padLen
          ({ rp1 with frames := rp1.frames ++ fr,
                      pads := rp1.pads ++ (pad, r.count) :: List.replicate (curr - 1) ([], 0) }, .ok ())
      | .err e => (rp1, .err e)
      | .oob => (rp1, .oob)
      | .abort => (rp1, .abort)
  | .err _ => (rp1, .err .invalidPacket)                               -- curr_nb_frames<1
  | .oob => (rp1, .oob)
  | .abort => (rp1, .abort)

/-- `opus_repacketizer_cat_impl` (repacketizer.c:62-102) with `len = bs.length`.
    Returns the new state and the return code. -/
def catImpl (rp : Rp) (bs : Bytes) (sd : Bool) : Rp × Res Unit :=
  match bs with
  | [] => (rp, .err .invalidPacket)                                        -- len<1
  | b0 :: _ =>
    if rp.nbFrames ≠ 0 ∧ rp.toc / 4 ≠ b0 / 4 then (rp, .err .invalidPacket)
    else
      catBody (if rp.nbFrames = 0 then { rp with toc := b0, framesize := samplesPerFrame b0 8000 } else rp) bs sd

/-- `opus_repacketizer_cat` (repacketizer.c:104-107). -/
def cat (rp : Rp) (bs : Bytes) : Rp × Res Unit := catImpl rp bs false

/-- `opus_repacketizer_get_nb_frames`. -/
def getNbFrames (rp : Rp) : Nat := rp.nbFrames

/-- "figure out total number of extensions" (repacketizer.c:143-154): every stored packet start
    `i < end` that overlaps `[begin,end)`; `pads` = entries `i, i+1, …` below `end`. -/
def totalExtCount : List (Bytes × Nat) → Nat → Nat → Nat → Res Nat
  | [], _, _, acc => .ok acc
  | (p, nf) :: rest, i, begin_, acc =>
    if i + nf ≤ begin_ then totalExtCount rest (i + 1) begin_ acc
    else
      match Ext.count p p.length nf with
      | .ok n => totalExtCount rest (i + 1) begin_ (acc + n)
      | .err e => .err e
      | .oob => .oob
      | .abort => .abort

/-- Renumbering of one packet's extensions (repacketizer.c:177-188): keep those of frames in
    `[begin,end)`, as frame `i + frame - begin`. -/
def renumber (p : Bytes) (refs : List ExtRef) (i begin_ end_ : Nat) : List Ext :=
  (refs.filter fun r => begin_ ≤ r.frame + i ∧ r.frame + i < end_).map
    fun r => { (r.toExt p) with frame := ((r.frame + i - begin_ : Nat) : Int) }

/-- "incorporate any extensions from the repacketizer padding" (repacketizer.c:162-189):
    `all` = `all_extensions[0..ext_count)`.  Padding that does not parse as an extension list
    carries no extensions (:172-176). -/
def collectExts : List (Bytes × Nat) → Nat → Nat → Nat → Nat → Array Ext → Res (Array Ext)
  | [], _, _, _, _, all => .ok all
  | (p, nf) :: rest, i, begin_, end_, total, all =>
    if i + nf ≤ begin_ then collectExts rest (i + 1) begin_ end_ total all
    else
      match Ext.parse p p.length ((total : Int) - all.size) nf with
      | .ok refs => collectExts rest (i + 1) begin_ end_ total (all ++ (renumber p refs i begin_ end_).toArray)
      | .err _ => collectExts rest (i + 1) begin_ end_ total all
      | .oob => .oob
      | .abort => .abort

/-- Bytes needed by the self-delimited extra length (repacketizer.c:138-141, 234-237). -/
def sdSize (sd : Bool) (lastLen : Nat) : Int :=
  if sd then 1 + (if 252 ≤ lastLen then 1 else 0) else 0

/-- First pass: codes 0/1/2 (repacketizer.c:191-225).  Returns `tot_size` and the header
    written so far; `BUFFER_TOO_SMALL` exits are taken here exactly as in C. -/
def firstPass (toc : Nat) (lens : List Nat) (tot0 : Int) (maxlen : Int) : Res (Int × Bytes) :=
  match lens with
  | [l0] =>
    let tot := tot0 + l0 + 1
    if tot > maxlen then .err .bufferTooSmall else .ok (tot, [toc / 4 * 4])
  | [l0, l1] =>
    if l1 = l0 then
      let tot := tot0 + 2 * l0 + 1
      if tot > maxlen then .err .bufferTooSmall else .ok (tot, [toc / 4 * 4 + 1])
    else
      let tot := tot0 + l0 + l1 + 2 + (if 252 ≤ l0 then 1 else 0)
      if tot > maxlen then .err .bufferTooSmall else .ok (tot, (toc / 4 * 4 + 2) :: encodeSize l0)
  | _ => .ok (tot0, [])

/-- `for (i=0;i<count-1;i++) tot_size += 1 + (len[i]>=252) + len[i]; tot_size += len[count-1]`. -/
def vbrBody : List Nat → Int
  | [] => 0
  | [l] => l
  | l :: ls => 1 + (if 252 ≤ l then 1 else 0) + l + vbrBody ls

/-- `for (i=0;i<count-1;i++) ptr += encode_size(len[i], ptr)`. -/
def vbrSizeBytes : List Nat → Bytes
  | [] => []
  | [_] => []
  | l :: ls => encodeSize l ++ vbrSizeBytes ls

/-- "figure out total number of extensions" + "incorporate any extensions from the repacketizer
    padding" (repacketizer.c:143-189): `all_extensions[0..ext_count)`. -/
def gatherExts (pads : List (Bytes × Nat)) (b e : Nat) (exts : Array Ext) : Res (Array Ext) :=
  match totalExtCount pads 0 b exts.size with
  | .ok total => collectExts pads 0 b e total exts
  | .err er => .err er
  | .oob => .oob
  | .abort => .abort

/-- `vbr` of the code-3 branch (repacketizer.c:238-246). -/
def isVbr (lens : List Nat) : Bool := lens.any (· ≠ lens.headD 0)

/-- `tot_size` of the code-3 branch before padding (repacketizer.c:234-270). -/
def tot3 (lens : List Nat) (tot0 : Int) : Int :=
  if isVbr lens then tot0 + 2 + vbrBody lens else tot0 + lens.length * lens.headD 0 + 2

/-- Code 3 (repacketizer.c:226-305 and the tail :306-334 on that path).  `sdBytes` = the
    self-delimited length, `all` = `all_extensions[0..ext_count)`. -/
def code3 (toc : Nat) (frames : List Bytes) (tot0 maxlen : Int) (sdBytes : Bytes) (pad : Bool)
    (all : Array Ext) : Res Bytes :=
  let lens := frames.map List.length
  let count := frames.length
  let body := frames.flatten
  let extCount := all.size
  let vbr := isVbr lens
  let tot2 : Int := tot3 lens tot0
  if tot2 > maxlen then .err .bufferTooSmall
  else
    let padAmount0 : Int := if pad then maxlen - tot2 else 0
    match (if 0 < extCount then
             (match generateDry (maxlen - tot2) all count false with
              | .ok n => Res.ok ((n : Int), if pad then padAmount0 else (n : Int) + n / 254 + 1)
              | .err e => .err e
              | .oob => .oob
              | .abort => .abort)
           else .ok (0, padAmount0)) with
    | .ok (extLen, padAmount) =>
      let cbyte := count + (if vbr then 128 else 0)
      let sizes := if vbr then vbrSizeBytes lens else []
      if padAmount ≠ 0 then
        let nb255 := (padAmount - 1) / 255
        if tot2 + extLen + nb255 + 1 > maxlen then .err .bufferTooSmall
        else
          let hdr := [toc / 4 * 4 + 3, cbyte + 64] ++ List.replicate nb255.toNat 255 ++
                     [(padAmount - 255 * nb255 - 1).toNat] ++ sizes ++ sdBytes ++ body
          let onesBegin := tot2 + nb255 + 1
          let extBegin := tot2 + padAmount - extLen
          if extBegin < onesBegin then .abort                     -- layout guard: ext_begin ≥ ones_begin (unreachable without extensions: `outRangeImpl_noext`)
          else if pad ∧ extCount = 0 then
            .ok (hdr ++ List.replicate (maxlen - onesBegin).toNat 0)
          else
            match (if 0 < extLen then
                     (match generate false extLen all count false with
                      | .ok g => if (g.size : Int) = extLen then Res.ok g.toList else .abort   -- celt_assert :323
                      | .err _ => .abort
                      | .oob => .oob
                      | .abort => .abort)
                   else .ok []) with
            | .ok g => .ok (hdr ++ List.replicate (extBegin - onesBegin).toNat 1 ++ g)
            | .err e => .err e
            | .oob => .oob
            | .abort => .abort
      else if 0 < extLen then .abort                              -- layout guard (ext_begin = 0), unreachable
      else .ok ([toc / 4 * 4 + 3, cbyte] ++ sizes ++ sdBytes ++ body)
    | .err e => .err e
    | .oob => .oob
    | .abort => .abort

/-- Everything of `opus_repacketizer_out_range_impl` after the extension gathering
    (repacketizer.c:191-334) for the selected `frames` (`count = frames.length ≥ 1`). -/
def emit (toc : Nat) (frames : List Bytes) (maxlen : Int) (sd pad : Bool) (all : Array Ext) : Res Bytes :=
  let lens := frames.map List.length
  let lastLen := lens.getLastD 0
  let tot0 := sdSize sd lastLen
  let sdBytes := if sd then encodeSize lastLen else []
  match firstPass toc lens tot0 maxlen with
  | .ok (tot1, hdr1) =>
    if 2 < frames.length ∨ (pad ∧ tot1 < maxlen) ∨ 0 < all.size then
      code3 toc frames tot0 maxlen sdBytes pad all
    else .ok (hdr1 ++ sdBytes ++ frames.flatten)
  | .err e => .err e
  | .oob => .oob
  | .abort => .abort

/-- The frames `frames[begin..end)` selected by a valid range. -/
def selFrames (rp : Rp) (b e : Nat) : List Bytes := (rp.frames.drop b).take (e - b)

/-- `opus_repacketizer_out_range_impl` (repacketizer.c:114-335): the bytes `data[0..ret)`. -/
def outRangeImpl (rp : Rp) (begin_ end_ : Int) (maxlen : Int) (sd pad : Bool) (exts : Array Ext) :
    Res Bytes :=
  if begin_ < 0 ∨ begin_ ≥ end_ ∨ end_ > rp.nbFrames then .err .badArg
  else
    let b := begin_.toNat
    let e := end_.toNat
    match gatherExts (rp.pads.take e) b e exts with
    | .ok all => emit rp.toc (selFrames rp b e) maxlen sd pad all
    | .err er => .err er
    | .oob => .oob
    | .abort => .abort

/-- `opus_repacketizer_out_range` (repacketizer.c:337-340). -/
def outRange (rp : Rp) (begin_ end_ : Int) (maxlen : Int) : Res Bytes :=
  outRangeImpl rp begin_ end_ maxlen false false #[]

/-- `opus_repacketizer_out` (repacketizer.c:342-345). -/
def out (rp : Rp) (maxlen : Int) : Res Bytes :=
  outRangeImpl rp 0 rp.nbFrames maxlen false false #[]

/-- `opus_packet_pad_impl` (repacketizer.c:347-369) with `len = bs.length`: the new packet
    (`bs` itself when `len == new_len`, where C returns 0). -/
def padImpl (bs : Bytes) (newLen : Int) (pad : Bool) (exts : Array Ext) : Res Bytes :=
  if bs.length < 1 then .err .badArg
  else if (bs.length : Int) = newLen then .ok bs
  else if (bs.length : Int) > newLen then .err .badArg
  else
    match cat (init Rp.empty) bs with
    | (rp, .ok ()) => outRangeImpl rp 0 rp.nbFrames newLen false pad exts
    | (_, .err e) => .err e
    | (_, .oob) => .oob
    | (_, .abort) => .abort

/-- `opus_packet_pad` (repacketizer.c:371-381): `OPUS_OK` with the padded packet. -/
def packetPad (bs : Bytes) (newLen : Int) : Res Bytes := padImpl bs newLen true #[]

/-- `opus_packet_unpad` (repacketizer.c:383-402): the new packet, `ret` = its length. -/
def packetUnpad (bs : Bytes) : Res Bytes :=
  if bs.length < 1 then .err .badArg
  else
    match cat (init Rp.empty) bs with
    | (rp, .ok ()) =>
      let rp' := { rp with pads := rp.pads.map fun _ => ([], 0) }
      match outRangeImpl rp' 0 rp'.nbFrames bs.length false false #[] with
      | .ok o => if 0 < o.length ∧ o.length ≤ bs.length then .ok o else .abort   -- celt_assert :400
      | .err _ => .abort
      | .oob => .oob
      | .abort => .abort
    | (_, .err e) => .err e
    | (_, .oob) => .oob
    | (_, .abort) => .abort

/-- "Seek to last stream" (repacketizer.c:420-431): offset of the last stream. -/
def seekLast : Nat → Bytes → Nat → Res Nat
  | 0, _, off => .ok off
  | n + 1, bs, off =>
    if bs.length ≤ off then .err .invalidPacket                            -- len<=0
    else
      match parseImpl true (bs.drop off) with
      | .ok r => seekLast n bs (off + r.packetOffset)
      | .err e => .err e
      | .oob => .oob
      | .abort => .abort

/-- `opus_multistream_packet_pad` (repacketizer.c:404-433). -/
def msPad (bs : Bytes) (newLen : Int) (nbStreams : Int) : Res Bytes :=
  if bs.length < 1 then .err .badArg
  else if (bs.length : Int) = newLen then .ok bs
  else if (bs.length : Int) > newLen then .err .badArg
  else
    match seekLast (nbStreams - 1).toNat bs 0 with
    | .ok off =>
      let rest := bs.drop off
      if bs.length < off then .oob
      else
        match packetPad rest ((rest.length : Int) + (newLen - bs.length)) with
        | .ok p => .ok (bs.take off ++ p)
        | .err e => .err e
        | .oob => .oob
        | .abort => .abort
    | .err e => .err e
    | .oob => .oob
    | .abort => .abort

/-- The stream loop of `opus_multistream_packet_unpad` (repacketizer.c:450-478);
    `s` streams remain, `acc` = bytes emitted so far. -/
def msUnpadLoop : Nat → Bytes → Bytes → Res Bytes
  | 0, _, acc => .ok acc
  | s + 1, data, acc =>
    let sd := s ≠ 0
    if data.length ≤ 0 then .err .invalidPacket
    else
      match parseImpl sd data with
      | .ok r =>
        if data.length < r.packetOffset then .oob
        else
          match catImpl (init Rp.empty) (data.take r.packetOffset) sd with
          | (rp, .ok ()) =>
            let rp' := { rp with pads := rp.pads.map fun _ => ([], 0) }
            match outRangeImpl rp' 0 rp'.nbFrames data.length sd false #[] with
            | .ok o => msUnpadLoop s (data.drop r.packetOffset) (acc ++ o)
            | .err e => .err e
            | .oob => .oob
            | .abort => .abort
          | (_, .err e) => .err e
          | (_, .oob) => .oob
          | (_, .abort) => .abort
      | .err e => .err e
      | .oob => .oob
      | .abort => .abort

/-- `opus_multistream_packet_unpad` (repacketizer.c:435-480): the new packet. -/
def msUnpad (bs : Bytes) (nbStreams : Int) : Res Bytes :=
  if bs.length < 1 then .err .badArg
  else msUnpadLoop nbStreams.toNat bs []

end Opus.Repack
