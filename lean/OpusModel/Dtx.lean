import OpusModel.Basic
import OpusModel.Gen.DtxConsts
/-
  OpusModel.Dtx — the discontinuous-transmission logic of the Opus encoder (property C20).

  C sources transcribed (branch order and comparisons as in the code):
    * `decide_dtx_mode`                       src/opus_encoder.c:1052-1077
    * DTX part of `silk_encode_do_VAD_FLP`    silk/float/encode_frame_FLP.c:63-77
    * DTX part of `silk_Encode`               silk/enc_API.c:181-196 (mono→stereo init), 219-227
                                              (prefill re-init), 264 (inDTX := useDTX), 456/471
                                              (VAD per channel), 542-544 (nBytes := 0)
    * the packet-level paths of `opus_encode_native` / `opus_encode_frame_native`
                                              src/opus_encoder.c:1154-1168 (argument checks),
                                              1249-1333 (bitrate, CBR bytes, low-budget "PLC" packets),
                                              1388-1399 (silk_mode.useDTX, counter reset), 1508-1513 (SILK re-init when
                                              leaving CELT), 1627-1757 (multi-frame split, dtx_count,
                                              repacketiser), 1825-1837 (activity), 2130-2137
                                              (nBytes==0 return), 2419-2457 (prev_mode, DTX decision,
                                              payload-overrun "PLC" packet)
    * `OPUS_GET_IN_DTX`                       src/opus_encoder.c:3135-3161

  Everything the integer logic consumes from the DSP is an *oracle* argument recorded from the
  running encoder by harness/c20_dtx.c: the input being digital silence, `analysis_info.valid`
  (per call and per coded frame), the activity detector's decision, the mode chosen for the call,
  `to_celt`, and per SILK frame the VAD outcome (`speech_activity_Q8 < threshold`) and the
  mid-only flag.  Times are in the code's own unit, Q1 milliseconds (half milliseconds); frame
  sizes are counted in 2.5 ms units `q` (so one call lasts `5*q` Q1 ms).
-/
namespace Opus.Dtx
open Opus Opus.Gen.DtxConsts

/-! ### The counter machine of `decide_dtx_mode` -/

/-- `NB_SPEECH_FRAMES_BEFORE_DTX*20*2` (src/opus_encoder.c:1065): inactivity, in Q1 ms, that must be
    exceeded before a frame may be dropped. -/
def onsetQ1 : Nat := nbSpeechFramesBeforeDtx * 20 * 2
/-- `(NB_SPEECH_FRAMES_BEFORE_DTX + MAX_CONSECUTIVE_DTX)*20*2` (src/opus_encoder.c:1067). -/
def limitQ1 : Nat := (nbSpeechFramesBeforeDtx + maxConsecutiveDtx) * 20 * 2

/-- `decide_dtx_mode` (src/opus_encoder.c:1052-1077).  `activity` is the C truth value of the
    `opus_int activity` argument; returns (DTX?, new `nb_no_activity_ms_Q1`). -/
def decideDtx (activity : Bool) (nb fQ1 : Nat) : Bool × Nat :=
  if activity then (false, 0)
  else
    let nb' := nb + fQ1
    if nb' > onsetQ1 then
      if nb' ≤ limitQ1 then (true, nb') else (false, onsetQ1)
    else (false, nb')

/-- The counter machine run over a schedule of coded frames `(activity, duration in Q1 ms)`:
    the list of decisions (true = frame dropped) and the final counter. -/
def dtxSteps : Nat → List (Bool × Nat) → List Bool × Nat
  | nb, [] => ([], nb)
  | nb, (a, f) :: rest =>
    let d := decideDtx a nb f
    let r := dtxSteps d.2 rest
    (d.1 :: r.1, r.2)

/-- Total duration of a schedule. -/
def durSum : List (Bool × Nat) → Nat
  | [] => 0
  | (_, f) :: rest => f + durSum rest

/-! ### The SILK machine -/

/-- `noSpeechCounter` and `inDTX` of one `silk_encoder_state` (silk/structs.h:233-235). -/
structure SilkCh where
  cnt : Nat
  inDtx : Bool
  deriving DecidableEq, Repr

/-- DTX part of `silk_encode_do_VAD_FLP` (silk/float/encode_frame_FLP.c:63-77);
    `low` = `speech_activity_Q8 < activity_threshold`. -/
def silkVad (s : SilkCh) (low : Bool) : SilkCh :=
  if low then
    let c := s.cnt + 1
    if c ≤ nbSpeechFramesBeforeDtx then ⟨c, false⟩
    else if c > maxConsecutiveDtx + nbSpeechFramesBeforeDtx then ⟨nbSpeechFramesBeforeDtx, false⟩
    else ⟨c, s.inDtx⟩
  else ⟨0, false⟩

/-- One channel's machine over a schedule of VAD outcomes, the DTX flag being (re)armed before
    every frame as `silk_Encode` does before every packet: the per-frame "this frame may be dropped"
    flags and the final counter. -/
def silkSteps : Nat → List Bool → List Bool × Nat
  | cnt, [] => ([], cnt)
  | cnt, low :: rest =>
    let s := silkVad ⟨cnt, true⟩ low
    let r := silkSteps s.cnt rest
    (s.inDtx :: r.1, r.2)

/-- Oracles of one SILK frame: VAD outcome of the mid channel, mid-only flag
    (`sStereo.mid_only_flags[i]`), VAD outcome of the side channel. -/
structure SFrame where
  low0 : Bool
  mid : Bool
  low1 : Bool
  deriving DecidableEq, Repr

/-- Oracles of one `silk_Encode` call: `prefillFlag`, `encControl->nChannelsInternal`, the frames. -/
structure SCall where
  prefill : Nat
  nch : Nat
  frames : List SFrame
  deriving DecidableEq, Repr

/-- The slice of `silk_encoder` the DTX logic uses. -/
structure SilkSt where
  c0 : Nat            -- state_Fxx[0].sCmn.noSpeechCounter
  c1 : Nat            -- state_Fxx[1].sCmn.noSpeechCounter
  nch : Nat           -- psEnc->nChannelsInternal
  pmo : Bool          -- psEnc->prev_decode_only_middle
  deriving DecidableEq, Repr

/-- `silk_InitEncoder` (silk/enc_API.c:77-104) on that slice. -/
def silkInit : SilkSt := ⟨0, 0, 1, false⟩

/-- One SILK frame inside `silk_Encode` (enc_API.c:437-471, 524): the side channel runs its VAD only
    when the frame is not mid-only; `forceLow` = Opus said `VAD_NO_ACTIVITY`
    (encode_frame_FLP.c:56-58). -/
def silkFrame (nch : Nat) (forceLow : Bool) (s : SilkCh × SilkCh × Bool) (f : SFrame) : SilkCh × SilkCh × Bool :=
  let ch1 := if nch = 2 ∧ f.mid = false then silkVad s.2.1 (f.low1 || forceLow) else s.2.1
  let ch0 := silkVad s.1 (f.low0 || forceLow)
  (ch0, ch1, f.mid)

def silkFrames (nch : Nat) (forceLow : Bool) : SilkCh × SilkCh × Bool → List SFrame → SilkCh × SilkCh × Bool
  | s, [] => s
  | s, f :: fs => silkFrames nch forceLow (silkFrame nch forceLow s f) fs

/-- DTX-relevant effect of one `silk_Encode` call.  Returns the new slice and "all channels DTXed"
    (the condition under which `*nBytesOut = 0`, enc_API.c:542). -/
def silkCall (useDtx : Bool) (forceLow : Bool) (st : SilkSt) (c : SCall) : SilkSt × Bool :=
  -- enc_API.c:181-183  mono → stereo: init the second channel
  let c1 := if c.nch > st.nch then 0 else st.c1
  -- enc_API.c:219-227  prefill: re-init every coded channel
  let c0 := if c.prefill ≠ 0 then 0 else st.c0
  let c1 := if c.prefill ≠ 0 ∧ c.nch = 2 then 0 else c1
  -- enc_API.c:264  inDTX := useDTX
  let r := silkFrames c.nch forceLow (⟨c0, useDtx⟩, ⟨c1, useDtx⟩, st.pmo) c.frames
  let allDtx := r.1.inDtx && (c.nch = 1 || r.2.1.inDtx)
  (⟨r.1.cnt, r.2.1.cnt, c.nch, r.2.2⟩, allDtx)

/-! ### The Opus layer -/

inductive Mode where
  | none | silk | hybrid | celt
  deriving DecidableEq, Repr, Inhabited

/-- The slice of `OpusEncoder` (+ SILK slice) the DTX logic reads and writes. -/
structure St where
  nb : Nat              -- nb_no_activity_ms_Q1
  prevMode : Mode       -- prev_mode (0 = none)
  silkUseDtx : Bool     -- silk_mode.useDTX
  silk : SilkSt
  modeNch : Nat         -- silk_mode.nChannelsInternal
  mode : Mode           -- st->mode (left by the previous call; read by the low-budget path only)
  deriving DecidableEq, Repr

/-- Settings and per-call arguments. `userBitrate` is `user_bitrate_bps` (OPUS_AUTO, OPUS_BITRATE_MAX
    or bits/s); `q` the frame size in 2.5 ms units; `outBytes` the caller's `out_data_bytes`. -/
structure Cfg where
  useDtx : Bool
  fs : Nat
  channels : Nat
  complexity : Nat
  useVbr : Bool
  userBitrate : Int
  outBytes : Nat
  q : Nat
  deriving DecidableEq, Repr

/-- Oracles of one coded frame (one call of `opus_encode_frame_native`). -/
structure Sub where
  valid : Bool          -- analysis_info->valid as this frame sees it
  det : Bool            -- the detector's decision (src/opus_encoder.c:1819-1825), used when valid ∧ ¬silence
  silk : List SCall     -- the silk_Encode calls of this frame: [prefill]? ++ [main]   (ignored in CELT-only mode)
  bust : Bool := false  -- the coded payload exceeded the frame budget: branch `ec_tell(&enc) > (max_data_bytes-1)*8`
                        -- taken (src/opus_encoder.c:2448-2457, "tell the decoder to call the PLC")
  deriving DecidableEq, Repr

/-- Oracles of one `opus_encode*` call. -/
structure CallOr where
  digSil : Bool         -- the input frame is digital silence
  valid0 : Bool         -- analysis_info.valid right after run_analysis
  mode : Mode           -- st->mode as decided for this call
  toCelt : Bool         -- `to_celt` of opus_encode_native (applies to the last coded frame only, :1704)
  subs : List Sub
  deriving DecidableEq, Repr

/-- The analysis (and with it the generalised DTX) runs only here (src/opus_encoder.c:1181). -/
def analysisOn (c : Cfg) : Bool := decide (c.complexity ≥ 7) && decide (c.fs ≥ 16000)

def frameSize (c : Cfg) : Nat := c.q * c.fs / 400

/-- `user_bitrate_to_bitrate` (src/opus_encoder.c:686-695), for `frame_size ≠ 0`. -/
def userBitrateToBitrate (c : Cfg) (maxDataBytes : Nat) : Nat :=
  if c.userBitrate = opusAuto then 60 * c.fs / frameSize c + c.fs * c.channels
  else if c.userBitrate = opusBitrateMax then maxDataBytes * 8 * c.fs / frameSize c
  else c.userBitrate.toNat

/-- `(max_data_bytes, st->bitrate_bps)` after src/opus_encoder.c:1249-1261. -/
def budget (c : Cfg) : Nat × Nat :=
  let maxData := min 1276 c.outBytes
  let br := userBitrateToBitrate c maxData
  if c.useVbr then (maxData, br)
  else
    let fr12 := 12 * c.fs / frameSize c
    let cbr := min ((12 * br / 8 + fr12 / 2) / fr12) maxData
    (max 1 cbr, cbr * fr12 * 8 / 12)

/-- The condition of src/opus_encoder.c:1267-1268 under which only a 1–2 byte "PLC" packet is emitted. -/
def lowBudget (c : Cfg) : Bool :=
  let (maxData, br) := budget c
  let frameRate := c.fs / frameSize c
  decide (maxData < 3) || decide (br < 3 * frameRate * 8)
    || (decide (frameRate < 50) && (decide (maxData * frameRate < 300) || decide (br < 2400)))

/-- Length of the low-budget packet before CBR padding (src/opus_encoder.c:1271-1316):
    `ret = packet_code <= 1 ? 1 : 2`. -/
def lowBudgetRet (c : Cfg) (stMode : Mode) : Nat :=
  let frameRate := c.fs / frameSize c
  -- tocmode = st->mode, 0 counts as SILK (:1271-1277); `frame_rate>100 ⇒ CELT` cannot apply below
  let tocSilk : Bool := decide (stMode = .none ∨ stMode = .silk)
  -- frame_rate==25 && tocmode!=SILK gives code 1 (ret 1); only frame_rate<=16 can give code 3 (ret 2)
  if frameRate ≤ 16 then
    if c.outBytes = 1 ∨ (tocSilk = true ∧ frameRate ≠ 10) then 1 else 2
  else 1

/-- Multi-frame split (src/opus_encoder.c:1627-1654): `(nb_frames, enc_frame_size)`. -/
def split (fs frameSz : Nat) (mode : Mode) : Nat × Nat :=
  if (frameSz > fs / 50 ∧ mode ≠ .silk) ∨ frameSz > 3 * fs / 50 then
    let enc :=
      if mode = .silk then
        (if frameSz = 2 * fs / 25 then fs / 25 else if frameSz = 3 * fs / 25 then 3 * fs / 50 else fs / 50)
      else fs / 50
    (frameSz / enc, enc)
  else (1, frameSz)

/-- `activity` as computed at src/opus_encoder.c:1808,1825-1837 (`VAD_NO_DECISION` when neither
    silence nor a valid analysis). -/
def activityOf (isSil valid det : Bool) : Int :=
  if isSil then 0 else if valid then (if det then 1 else 0) else vadNoDecision

def runSilk (useDtx forceLow : Bool) : SilkSt → List SCall → SilkSt × Bool
  | s, [] => (s, false)
  | s, [c] => silkCall useDtx forceLow s c
  | s, c :: cs => runSilk useDtx forceLow (silkCall useDtx forceLow s c).1 cs

/-- SILK processing of one coded frame (src/opus_encoder.c:1944-2146): the new state and, when
    SILK ran, whether it returned zero bytes.  `silk_mode.nChannelsInternal` is set at :2011. -/
def frameSilk (mode : Mode) (act : Int) (st : St) (o : Sub) : St × Option Bool :=
  if mode = .celt then (st, none)
  else
    let chans := match o.silk.getLast? with | some c => c.nch | none => st.modeNch
    let r := runSilk st.silkUseDtx (act = vadNoActivity) st.silk o.silk
    ({ st with silk := r.1, modeNch := chans }, some r.2)

/-- The end of a coded frame that was not dropped by SILK (src/opus_encoder.c:2419-2441):
    `prev_mode`, then the DTX decision.  `decide_dtx_mode` is consulted exactly when the generalised
    detector was put in charge of this CALL (`st->use_dtx && !st->silk_mode.useDTX`, :2432), whatever the
    per-frame analysis result says; under SILK's own DTX the counter is cleared.  (`isSil` and `o` are
    kept as arguments for the callers; the per-frame `analysis_info->valid` enters through `act`.)
    Returns the state and "return 1". -/
def frameTail (useDtx isSil : Bool) (mode : Mode) (fQ1 : Nat) (toCelt : Bool) (act : Int) (st : St) (o : Sub) : St × Bool :=
  let pm : Mode := if toCelt then .celt else mode
  let _ := isSil
  let _ := o
  if useDtx = true ∧ st.silkUseDtx = false then
    let d := decideDtx (act ≠ 0) st.nb fQ1
    ({ st with prevMode := pm, nb := d.2 }, d.1)
  else ({ st with prevMode := pm, nb := 0 }, false)

/-- One call of `opus_encode_frame_native`, DTX-relevant part.  Returns the new state, whether the
    frame was returned as a 1-byte DTX frame, the `activity` value and whether SILK returned 0 bytes. -/
def frameStep (useDtx isSil : Bool) (mode : Mode) (fQ1 : Nat) (toCelt : Bool) (st : St) (o : Sub) : St × Bool × Int × Option Bool :=
  let act := activityOf isSil o.valid o.det
  let s := frameSilk mode act st o
  if s.2 = some true then (s.1, true, act, s.2)          -- :2130-2137, before prev_mode is updated
  else
    let t := frameTail useDtx isSil mode fQ1 toCelt act s.1 o
    (t.1, t.2, act, s.2)

/-- Result of one encode call, as far as C20 is concerned. -/
inductive Pkt where
  | err (e : Err)
  | lowBudget (len : Nat)     -- the "PLC" packet of the low-budget path (CBR: padded to len)
  | dtx (len : Nat)           -- every coded frame was dropped
  | normal                    -- coded audio; the length is the inner encoders' business
  | bust                      -- single-frame packet whose payload exceeded the budget: TOC + 0x00, 2 bytes (:2448-2457)
  | badOracle                 -- the recorded oracles do not have the shape the model computes (a tie failure)
  deriving DecidableEq, Repr

structure Trace where
  sil : Int := -1
  acts : List Int := []
  nz : List Bool := []
  tc : List Bool := []
  deriving DecidableEq, Repr

/-- The loop over the coded frames of one call (src/opus_encoder.c:1691-1748): final state and the
    per-frame "returned 1 byte" flags (`tmp_len==1`). -/
def frameFlags (useDtx isSil : Bool) (mode : Mode) (fQ1 : Nat) (toCelt : Bool) : St → List Sub → St × List Bool
  | st, [] => (st, [])
  | st, o :: os =>
    -- frame_to_celt = to_celt && i==nb_frames-1  (:1704)
    let r := frameStep useDtx isSil mode fQ1 (toCelt && os.isEmpty) st o
    let t := frameFlags useDtx isSil mode fQ1 toCelt r.1 os
    (t.1, r.2.1 :: t.2)

/-- What the harness can observe of the same loop (for the correspondence run only): the
    `activity` values, SILK's "zero bytes" answers and `frame_to_celt` per coded frame. -/
def frameTrace (useDtx isSil : Bool) (mode : Mode) (fQ1 : Nat) (toCelt : Bool) : St → List Sub → Trace → Trace
  | _, [], tr => tr
  | st, o :: os, tr =>
    let ftc := toCelt && os.isEmpty
    let r := frameStep useDtx isSil mode fQ1 ftc st o
    frameTrace useDtx isSil mode fQ1 toCelt r.1 os
      { tr with acts := tr.acts ++ [r.2.2.1], nz := tr.nz ++ (match r.2.2.2 with | some b => [b] | none => []),
                tc := tr.tc ++ [ftc] }

/-- Length of the repacketised all-DTX packet (`opus_repacketizer_out_range_impl` on `n` empty
    frames with equal TOC): code 0, code 1 (CBR, two frames), code 3 CBR. -/
def dtxPacketLen (nbFrames : Nat) : Nat := if nbFrames ≤ 2 then 1 else 2

/-- Number and duration (Q1 ms, `2*1000*frame_size/Fs` at :2434) of the coded frames of a call. -/
def nSub (c : Cfg) (m : Mode) : Nat := (split c.fs (frameSize c) m).1
def subQ1 (c : Cfg) (m : Mode) : Nat := 2 * 1000 * (split c.fs (frameSize c) m).2 / c.fs

/-- `is_silence` as the encoder sees it: only computed when the analysis runs (:1181-1184). -/
def isSilOf (c : Cfg) (o : CallOr) : Bool := analysisOn c && o.digSil

/-- The new value of `silk_mode.useDTX` (:1388): SILK's own DTX is in charge of this call. -/
def sdtxOf (c : Cfg) (o : CallOr) : Bool := c.useDtx && !((analysisOn c && o.valid0) || isSilOf c o)

/-- :1388-1399  when the DTX detector in charge changes (the new `silk_mode.useDTX` differs from the
    stored one) neither run counter carries over: `nb_no_activity_ms_Q1` and both `noSpeechCounter`s
    are cleared. -/
def switchReset (sdtx : Bool) (st : St) : St :=
  if sdtx ≠ st.silkUseDtx then { st with nb := 0, silk := { st.silk with c0 := 0, c1 := 0 } } else st

/-- State at the start of the frame loop: `silk_mode.useDTX` (:1388-1399, with the counter reset on a
    change of detector), `st->mode`, and the SILK re-initialisation when leaving CELT-only (:1508-1513). -/
def prepCall (c : Cfg) (st : St) (o : CallOr) : St :=
  let sdtx := sdtxOf c o
  let st := switchReset sdtx st
  if o.mode ≠ .celt ∧ st.prevMode = .celt then { st with silkUseDtx := sdtx, mode := o.mode, silk := silkInit }
  else { st with silkUseDtx := sdtx, mode := o.mode }

def encodeLoop (c : Cfg) (st : St) (o : CallOr) : St × List Bool :=
  frameFlags c.useDtx (isSilOf c o) o.mode (subQ1 c o.mode) o.toCelt (prepCall c st o) o.subs

/-- `dtx_count == nb_frames` (:1749-1751); `nb_frames ≥ 1` in the C code, so an empty list is never
    "all dropped". -/
def pktOf (flags : List Bool) (n : Nat) : Pkt :=
  if (!flags.isEmpty && flags.all id) = true then .dtx (dtxPacketLen n) else .normal

/-- The packet of a call that went through the frame loop: all coded frames dropped → DTX packet
    (:1749-1751); a single coded frame, not dropped, whose payload exceeded the budget → the 2-byte
    "PLC" packet of :2448-2457 (`max_data_bytes ≥ 3` on this path, so not `OPUS_BUFFER_TOO_SMALL`); in a
    multi-frame packet such a frame contributes two bytes to a longer packet. -/
def finalPkt (flags : List Bool) (n : Nat) (subs : List Sub) : Pkt :=
  match flags, subs with
  | [false], [s] => if s.bust then .bust else .normal
  | _, _ => pktOf flags n

/-- `opus_encode_native`, DTX-relevant skeleton. -/
def encodeCall (c : Cfg) (st : St) (o : CallOr) : St × Pkt × Trace :=
  let maxData0 := min 1276 c.outBytes
  if frameSize c = 0 ∨ maxData0 = 0 then (st, .err .badArg, {})
  else if maxData0 = 1 ∧ c.fs = frameSize c * 10 then (st, .err .bufferTooSmall, {})
  else if lowBudget c then
    let ret := lowBudgetRet c st.mode
    let maxData := max (budget c).1 ret
    (st, .lowBudget (if c.useVbr then ret else maxData), {})
  else if o.subs.length ≠ nSub c o.mode then (prepCall c st o, .badOracle, {})
  else
    let r := encodeLoop c st o
    (r.1, finalPkt r.2 (nSub c o.mode) o.subs,
     frameTrace c.useDtx (isSilOf c o) o.mode (subQ1 c o.mode) o.toCelt (prepCall c st o) o.subs
       { sil := if isSilOf c o then 1 else 0 })

/-- `OPUS_GET_IN_DTX` (src/opus_encoder.c:3135-3161). -/
def inDtx (c : Cfg) (st : St) : Bool :=
  if st.silkUseDtx ∧ (st.prevMode = .silk ∨ st.prevMode = .hybrid) then
    let v := decide (st.silk.c0 ≥ nbSpeechFramesBeforeDtx)
    if v ∧ st.modeNch = 2 ∧ st.silk.pmo = false then decide (st.silk.c1 ≥ nbSpeechFramesBeforeDtx) else v
  else if c.useDtx then decide (st.nb ≥ onsetQ1)
  else false

/-! ### Shape of the recorded oracles

  Facts about the inner encoders that the theorems of C20 assume and that the correspondence run
  monitors on every call (the driver answers `BAD-ORACLE` when one fails):
    * the main `silk_Encode` call of a coded frame has `prefillFlag = 0`, codes 1..3 SILK frames
      (`MAX_FRAMES_PER_PACKET`) and a SILK frame lasts at most 20 ms; it is preceded by at most one
      prefill call (`prefillFlag` 1 or 2, src/opus_encoder.c:2076-2090);
    * `st->mode` is one of the three modes once a call reaches the frame loop;
    (The per-frame analysis results of a multi-frame packet need not agree with the call-level one that
    chose the detector: the frame tail follows the call-level choice, src/opus_encoder.c:2432.) -/

def mainOk (fQ1 : Nat) (m : SCall) : Bool :=
  m.prefill == 0 && decide (1 ≤ m.frames.length) && decide (m.frames.length ≤ maxFramesPerPacket)
    && decide (fQ1 ≤ 40 * m.frames.length)

def subOk (fQ1 : Nat) (s : Sub) : Bool :=
  match s.silk with
  | [m] => mainOk fQ1 m
  | [p, m] => p.prefill != 0 && decide (1 ≤ p.frames.length) && decide (p.frames.length ≤ maxFramesPerPacket)
      && mainOk fQ1 m
  | _ => false

/-- The contract: true by construction of the encoder; monitored on every call (`BAD-ORACLE`). -/
def shapeOk (c : Cfg) (o : CallOr) : Bool :=
  o.mode != .none && (o.mode == .celt || o.subs.all (subOk (subQ1 c o.mode)))

def oracleOk (c : Cfg) (o : CallOr) : Bool := shapeOk c o

/-- State of a freshly created encoder (`opus_encoder_init`, src/opus_encoder.c:203-285). -/
def initSt (channels : Nat) : St :=
  { nb := 0, prevMode := .none, silkUseDtx := false, silk := silkInit, modeNch := channels, mode := .hybrid }

/-- A whole run: fold `encodeCall` over the recorded oracles. -/
def run (c : Cfg) : St → List CallOr → List (Pkt × Bool)
  | _, [] => []
  | st, o :: os =>
    let r := encodeCall c st o
    (r.2.1, inDtx c r.1) :: run c r.1 os

def runFinal (c : Cfg) : St → List CallOr → St
  | st, [] => st
  | st, o :: os => runFinal c (encodeCall c st o).1 os

end Opus.Dtx
