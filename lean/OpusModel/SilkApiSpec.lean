import OpusModel.SilkApi
/-!
  OpusModel.SilkApiSpec — the state invariant, the argument set and the oracle contracts used by the C01 `SilkApi`
  theorems (definitions only).
-/
namespace Opus.SilkApi

/-- The API rates opus_decoder_init accepts (src/opus_decoder.c:141-143). -/
def ApiOk (api : Int) : Prop := api = 8000 ∨ api = 12000 ∨ api = 16000 ∨ api = 24000 ∨ api = 48000

/-- Rate-dependent configuration of a channel as left by silk_decoder_set_fs for `nb` sub-frames. -/
def Cfg (api : Int) (c : Chan) (nb : Int) : Prop :=
  (c.fs_kHz = 8 ∨ c.fs_kHz = 12 ∨ c.fs_kHz = 16) ∧ (nb = 2 ∨ nb = 4) ∧
  c.frame_length = nb * 5 * c.fs_kHz ∧ c.ltp_mem_length = 20 * c.fs_kHz ∧
  c.LPC_order = (if c.fs_kHz = 16 then 16 else 10) ∧ c.nlsfCb = (if c.fs_kHz = 16 then 2 else 1) ∧
  c.lagLowBits = c.fs_kHz / 2 ∧
  c.pitchContour = (if c.fs_kHz = 8 then (if nb = 4 then 1 else 2) else (if nb = 4 then 3 else 4)) ∧
  c.fs_API_hz = api ∧ c.rsIn = c.fs_kHz ∧ c.rsOut = api / 1000

/-- A configured channel: fs_kHz in {8,12,16}, nb_subfr in {2,4}, frame_length = nb_subfr*5*fs_kHz (<= 320),
    ltp_mem_length = 20*fs_kHz, LPC_order in {10,16}, table tags matching the rate, resampler configured fs_kHz -> API,
    nFramesPerPacket in {1,2,3}, 0 <= nFramesDecoded <= nFramesPerPacket. -/
def ChanOk (api : Int) (c : Chan) : Prop :=
  Cfg api c c.nb_subfr ∧ c.subfr_length = 5 * c.fs_kHz ∧
  (c.nFramesPerPacket = 1 ∨ c.nFramesPerPacket = 2 ∨ c.nFramesPerPacket = 3) ∧
  0 ≤ c.nFramesDecoded ∧ c.nFramesDecoded ≤ c.nFramesPerPacket

/-- Both channels of a stereo stream carry the same configuration and frame counter. -/
def Same (c0 c1 : Chan) : Prop :=
  c1.fs_kHz = c0.fs_kHz ∧ c1.nb_subfr = c0.nb_subfr ∧ c1.nFramesPerPacket = c0.nFramesPerPacket ∧
  c1.nFramesDecoded = c0.nFramesDecoded

/-- State invariant of the SILK decoder for a decoder created at API rate `api`: both channels fresh (after
    silk_InitDecoder / silk_ResetDecoder), or channel 0 configured and, in a stereo stream, channel 1 configured alike. -/
def Inv (api : Int) (d : Dec) : Prop :=
  (d.ch0 = freshChan ∧ d.ch1 = freshChan) ∨
  (ChanOk api d.ch0 ∧ (d.nChannelsInternal = 2 → ChanOk api d.ch1 ∧ Same d.ch0 d.ch1))

/-- The arguments the Opus layer passes (C01 decodeNative_oracle_args: payloadSize_ms, internalSampleRate, channel counts,
    lostFlag) at a decoder of rate `api`, plus the packet protocol of opus_decode_frame (src/opus_decoder.c:442-464): the
    first silk_Decode call of a packet has newPacketFlag set, the following ones (same channel count) stay below
    nFramesPerPacket. -/
def ArgsOk (api : Int) (d : Dec) (a : Args) : Prop :=
  ApiOk api ∧ a.API_sampleRate = api ∧
  (a.payloadSize_ms = 0 ∨ a.payloadSize_ms = 10 ∨ a.payloadSize_ms = 20 ∨ a.payloadSize_ms = 40 ∨ a.payloadSize_ms = 60) ∧
  (a.internalSampleRate = 8000 ∨ a.internalSampleRate = 12000 ∨ a.internalSampleRate = 16000) ∧
  (a.nChannelsAPI = 1 ∨ a.nChannelsAPI = 2) ∧ (a.nChannelsInternal = 1 ∨ a.nChannelsInternal = 2) ∧
  (a.lostFlag = 0 ∨ a.lostFlag = 1 ∨ a.lostFlag = 2) ∧
  (a.newPacketFlag ≠ 0 ∨ (d.ch0.nFramesDecoded < d.ch0.nFramesPerPacket ∧ a.nChannelsInternal = d.nChannelsInternal))

/-- Contract of the oracles for a call on state `d` (after the configuration part): silk_decode_frame returns 0 and
    delivers frame_length int16 samples; silk_resampler returns 0 and delivers inLen*Fs_out/Fs_in samples. -/
def OrcOk (fl nOut : Int) (o : Orc) : Prop :=
  o.frame0.ret = 0 ∧ o.frame1.ret = 0 ∧ o.frame0.samples.length = fl.toNat ∧ o.frame1.samples.length = fl.toNat ∧
  (∀ v ∈ o.frame0.samples, In16 v) ∧ (∀ v ∈ o.frame1.samples, In16 v) ∧
  rsRet o 0 = 0 ∧ rsRet o 1 = 0 ∧ (rsOutp o 0).length = nOut.toNat ∧ (rsOutp o 1).length = nOut.toNat

end Opus.SilkApi
