import OpusModel.Basic
import OpusModel.Gen.CeltTables
import OpusModel.Gen.SilkIcdf
/-
  OpusModel.Icdf — inverse-CDF symbol tables (`ec_enc_icdf` / `ec_dec_icdf`, celt/entenc.c:161-173,
  celt/entdec.c:178-196) at the interval level, and the catalogue of every static ICDF table of
  celt/ and silk/ sliced exactly as the call sites slice it.

  An ICDF table `t` with `ftb` bits gives symbol `s` the cumulative interval
      [2^ftb - t[s-1], 2^ftb - t[s])        (t[-1] := 2^ftb)
  out of 2^ftb.  The table describes an exact prefix-free code iff it is strictly decreasing, ends in
  0 and starts below 2^ftb (`icdfOk`): then the intervals are non-empty and tile [0, 2^ftb).
  Core Lean only.
-/
namespace Opus.Icdf
open Opus

/-- Strictly decreasing list. -/
def strictDecr : List Nat → Bool
  | a :: b :: t => decide (b < a) && strictDecr (b :: t)
  | _ => true

/-- Last element is 0 (and the list is non-empty). -/
def endsZero : List Nat → Bool
  | [] => false
  | [a] => a == 0
  | _ :: b :: t => endsZero (b :: t)

/-- Well-formed ICDF table for `ftb` bits. -/
def icdfOk (ftb : Nat) (t : List Nat) : Bool :=
  match t with
  | [] => false
  | a :: _ => decide (a < 2 ^ ftb) && strictDecr t && endsZero t

/-- Lower end of symbol `s`: `ft - icdf[s-1]` (`ft` for… no: `0` for `s = 0`). -/
def symLow (ftb : Nat) (t : List Nat) (s : Nat) : Nat :=
  match s with
  | 0 => 0
  | s + 1 => 2 ^ ftb - t.getD s 0

/-- Upper end of symbol `s`: `ft - icdf[s]`. -/
def symHigh (ftb : Nat) (t : List Nat) (s : Nat) : Nat := 2 ^ ftb - t.getD s 0

/-- The symbol whose interval contains `x` — the scan `do … while(_d < s)` of `ec_dec_icdf` with the
    range scaling removed: the first `s` with `x < ft - icdf[s]`; `none` if there is none. -/
def symOf (ftb : Nat) (x : Nat) : List Nat → Nat → Option Nat
  | [], _ => none
  | a :: t, s => if x < 2 ^ ftb - a then some s else symOf ftb x t (s + 1)

/-! ## Catalogue -/

structure Entry where
  name : String
  ftb : Nat
  tab : List Nat

/-- Consecutive chunks of length `n`. -/
def chunks (n : Nat) : Nat → List Nat → List (List Nat)
  | 0, _ => []
  | c + 1, l => l.take n :: chunks n c (l.drop n)

def named (name : String) (ftb : Nat) (rows : List (List Nat)) : List Entry :=
  (List.range rows.length).map (fun i => ⟨s!"{name}[{i}]", ftb, rows.getD i []⟩)

open Gen.CeltTables in
/-- CELT: `trim_icdf` ftb 7 (celt_encoder.c:2260, celt_decoder.c:1243), `spread_icdf` ftb 5
    (celt_encoder.c:2185, celt_decoder.c:1202), `tapset_icdf` ftb 2 (celt_encoder.c:1888,
    celt_decoder.c:1140), `small_energy_icdf` ftb 2 (quant_bands.c:236, 470). -/
def celtIcdfs : List Entry :=
  [⟨"trim_icdf", 7, trimIcdf⟩, ⟨"spread_icdf", 5, spreadIcdf⟩, ⟨"tapset_icdf", 2, tapsetIcdf⟩,
   ⟨"small_energy_icdf", 2, smallEnergyIcdf⟩]

open Gen.SilkIcdf in
/-- `&shell_table[ silk_shell_code_table_offsets[ p ] ]` coding `p_child1 ∈ 0..p` for `p = 1..16`
    (silk/shell_coder.c:48-70): `p+1` entries from the offset. -/
def shellSlices (name : String) (t : List Nat) : List Entry :=
  (List.range SILK_MAX_PULSES).map (fun q =>
    let p := q + 1
    ⟨s!"{name}@p={p}", 8, (t.drop (silk_shell_code_table_offsets.getD p 0)).take (p + 1)⟩)

open Gen.SilkIcdf in
/-- SILK: every table is used with ftb 8 (all `ec_enc_icdf`/`ec_dec_icdf` calls of silk/*.c).
    * `silk_sign_iCDF[i]` supplies `icdf[0]` of the two-entry table `{icdf[0], 0}` (code_signs.c:52-66).
    * `CB1_iCDF` is indexed by `(signalType>>1)*nVectors`: two tables of `nVectors` entries
      (encode_indices.c:91, decode_indices.c:80).
    * `ec_iCDF` is indexed by `ec_ix[i] ∈ {0,…,7}·(2·NLSF_QUANT_MAX_AMPLITUDE+1)` (NLSF_unpack.c:46-50):
      eight tables of 9 entries. -/
def silkIcdfs : List Entry :=
  let w := 2 * NLSF_QUANT_MAX_AMPLITUDE + 1
  named "silk_gain_iCDF" 8 silk_gain_iCDF ++
  [⟨"silk_delta_gain_iCDF", 8, silk_delta_gain_iCDF⟩,
   ⟨"silk_pitch_lag_iCDF", 8, silk_pitch_lag_iCDF⟩,
   ⟨"silk_pitch_delta_iCDF", 8, silk_pitch_delta_iCDF⟩,
   ⟨"silk_pitch_contour_iCDF", 8, silk_pitch_contour_iCDF⟩,
   ⟨"silk_pitch_contour_NB_iCDF", 8, silk_pitch_contour_NB_iCDF⟩,
   ⟨"silk_pitch_contour_10_ms_iCDF", 8, silk_pitch_contour_10_ms_iCDF⟩,
   ⟨"silk_pitch_contour_10_ms_NB_iCDF", 8, silk_pitch_contour_10_ms_NB_iCDF⟩] ++
  named "silk_pulses_per_block_iCDF" 8 silk_pulses_per_block_iCDF ++
  named "silk_rate_levels_iCDF" 8 silk_rate_levels_iCDF ++
  shellSlices "silk_shell_code_table0" silk_shell_code_table0 ++
  shellSlices "silk_shell_code_table1" silk_shell_code_table1 ++
  shellSlices "silk_shell_code_table2" silk_shell_code_table2 ++
  shellSlices "silk_shell_code_table3" silk_shell_code_table3 ++
  named "silk_sign_iCDF" 8 (silk_sign_iCDF.map (fun x => [x, 0])) ++
  [⟨"silk_stereo_pred_joint_iCDF", 8, silk_stereo_pred_joint_iCDF⟩,
   ⟨"silk_stereo_only_code_mid_iCDF", 8, silk_stereo_only_code_mid_iCDF⟩,
   ⟨"silk_LBRR_flags_2_iCDF", 8, silk_LBRR_flags_2_iCDF⟩,
   ⟨"silk_LBRR_flags_3_iCDF", 8, silk_LBRR_flags_3_iCDF⟩,
   ⟨"silk_lsb_iCDF", 8, silk_lsb_iCDF⟩,
   ⟨"silk_LTPscale_iCDF", 8, silk_LTPscale_iCDF⟩,
   ⟨"silk_type_offset_VAD_iCDF", 8, silk_type_offset_VAD_iCDF⟩,
   ⟨"silk_type_offset_no_VAD_iCDF", 8, silk_type_offset_no_VAD_iCDF⟩,
   ⟨"silk_NLSF_interpolation_factor_iCDF", 8, silk_NLSF_interpolation_factor_iCDF⟩,
   ⟨"silk_uniform3_iCDF", 8, silk_uniform3_iCDF⟩,
   ⟨"silk_uniform4_iCDF", 8, silk_uniform4_iCDF⟩,
   ⟨"silk_uniform5_iCDF", 8, silk_uniform5_iCDF⟩,
   ⟨"silk_uniform6_iCDF", 8, silk_uniform6_iCDF⟩,
   ⟨"silk_uniform8_iCDF", 8, silk_uniform8_iCDF⟩,
   ⟨"silk_NLSF_EXT_iCDF", 8, silk_NLSF_EXT_iCDF⟩,
   ⟨"silk_LTP_per_index_iCDF", 8, silk_LTP_per_index_iCDF⟩,
   ⟨"silk_LTP_gain_iCDF_0", 8, silk_LTP_gain_iCDF_0⟩,
   ⟨"silk_LTP_gain_iCDF_1", 8, silk_LTP_gain_iCDF_1⟩,
   ⟨"silk_LTP_gain_iCDF_2", 8, silk_LTP_gain_iCDF_2⟩] ++
  named "silk_NLSF_CB1_iCDF_NB_MB" 8 (chunks silk_NLSF_CB_NB_MB_nVectors 2 silk_NLSF_CB1_iCDF_NB_MB) ++
  named "silk_NLSF_CB2_iCDF_NB_MB" 8 (chunks w 8 silk_NLSF_CB2_iCDF_NB_MB) ++
  named "silk_NLSF_CB1_iCDF_WB" 8 (chunks silk_NLSF_CB_WB_nVectors 2 silk_NLSF_CB1_iCDF_WB) ++
  named "silk_NLSF_CB2_iCDF_WB" 8 (chunks w 8 silk_NLSF_CB2_iCDF_WB)

def allIcdfs : List Entry := celtIcdfs ++ silkIcdfs

open Gen.SilkIcdf in
/-- Every word of the flat arrays is covered by the slicing above (no table entry is left unchecked),
    and the side tables agree with the array sizes. -/
def slicingExact : Bool :=
  let w := 2 * NLSF_QUANT_MAX_AMPLITUDE + 1
  silk_NLSF_CB1_iCDF_NB_MB.length == 2 * silk_NLSF_CB_NB_MB_nVectors &&
  silk_NLSF_CB1_iCDF_WB.length == 2 * silk_NLSF_CB_WB_nVectors &&
  silk_NLSF_CB2_iCDF_NB_MB.length == 8 * w && silk_NLSF_CB2_iCDF_WB.length == 8 * w &&
  silk_LTP_vq_sizes == [silk_LTP_gain_iCDF_0.length, silk_LTP_gain_iCDF_1.length, silk_LTP_gain_iCDF_2.length] &&
  silk_shell_code_table_offsets.length == SILK_MAX_PULSES + 1 &&
  -- the shell slices for p = 1..16 are adjacent and exhaust the 152 words
  silk_shell_code_table_offsets.getD 1 1 == 0 &&
  (List.range (SILK_MAX_PULSES - 1)).all (fun q =>
    silk_shell_code_table_offsets.getD (q + 2) 0 == silk_shell_code_table_offsets.getD (q + 1) 0 + (q + 2)) &&
  [silk_shell_code_table0.length, silk_shell_code_table1.length, silk_shell_code_table2.length,
   silk_shell_code_table3.length].all
     (· == silk_shell_code_table_offsets.getD SILK_MAX_PULSES 0 + SILK_MAX_PULSES + 1) &&
  silk_pulses_per_block_iCDF.length == N_RATE_LEVELS &&
  silk_pulses_per_block_iCDF.all (·.length == SILK_MAX_PULSES + 2)

/-- The two-entry table `{256 - (256 >> ((nFramesPerPacket+1)*nChannels)), 0}` that reserves the VAD/LBRR
    flag bits (silk/enc_API.c:347-351). -/
def vadLbrrPlaceholder (nFramesPerPacket nChannels : Nat) : List Nat :=
  [256 - 256 / 2 ^ ((nFramesPerPacket + 1) * nChannels), 0]

end Opus.Icdf
