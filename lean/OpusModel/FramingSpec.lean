import OpusModel.Framing
/-
  OpusModel.FramingSpec — a declarative specification of Opus packet framing, written from
  RFC 6716 §3.1–3.2 (standard framing) and Appendix B (self-delimited framing), independently
  of the parser.  A `Packet` is what the RFC says a packet *contains*; `serialize` writes it
  out; `Valid` are the RFC's constraints R1–R7.  The parser (`Opus.Framing.parseImpl`, the
  transcription of `opus_packet_parse_impl`) is proved sound and complete against this spec in
  `OpusProofs/Framing*.lean`; the statements are in `OpusProps/C06.lean`.
-/
namespace Opus.FramingSpec
open Opus

/-- Frame length coding, RFC 6716 §3.2.1: 0..251 in one byte; otherwise a first byte
    `252..255` and a second byte with `length = 4*second + first`. -/
def encLen (n : Nat) : Bytes :=
  if n < 252 then [n] else [252 + n % 4, (n - (252 + n % 4)) / 4]

/-- Padding of a code-3 packet (§3.2.5): the padding-length chain is `n255` bytes of value 255
    (each standing for 254 bytes of padding, "and continue") followed by one byte `last < 255`;
    then, at the end of the packet, the padding bytes themselves. -/
structure Pad where
  n255 : Nat
  last : Nat
  bytes : Bytes
  deriving Repr, DecidableEq

def Pad.hdr (p : Pad) : Bytes := List.replicate p.n255 255 ++ [p.last]
def Pad.total (p : Pad) : Nat := 254 * p.n255 + p.last

/-- A packet as the RFC describes it.  `toc` is the whole TOC byte (config, stereo flag and
    the frame-count code in its two low bits).  `vbr` and `pad` only exist for code 3. -/
structure Packet where
  toc : Nat
  frames : List Bytes
  vbr : Bool
  pad : Option Pad
  deriving Repr, DecidableEq

def Packet.code (p : Packet) : Nat := p.toc % 4
def Packet.lens (p : Packet) : List Nat := p.frames.map List.length

/-- Frame duration in 48 kHz samples announced by the TOC configuration (RFC 6716 Table 2):
    configs 0..11 SILK 10/20/40/60 ms, 12..15 hybrid 10/20 ms, 16..31 CELT 2.5/5/10/20 ms. -/
def frameDur48 (toc : Nat) : Nat :=
  let config := toc / 8 % 32
  if config < 12 then [480, 960, 1920, 2880].getD (config % 4) 0
  else if config < 16 then [480, 960].getD (config % 2) 0
  else [120, 240, 480, 960].getD (config % 4) 0

/-- The frame-count byte of a code-3 packet (§3.2.5): `v p M M M M M M`. -/
def countByte (p : Packet) : Nat :=
  p.frames.length + (if p.pad.isSome then 64 else 0) + (if p.vbr then 128 else 0)

/-- The explicit frame lengths that precede the frame data.
    Code 2 and code-3 VBR code every length but the last (§3.2.4, §3.2.5); the self-delimited
    framing (Appendix B) adds the length of the last frame (for the CBR forms: the common
    length). -/
def lenFields (sd : Bool) (p : Packet) : List Nat :=
  (if p.code = 2 ∨ (p.code = 3 ∧ p.vbr) then p.lens.dropLast else []) ++
  (if sd then p.lens.getLast?.toList else [])

def header (sd : Bool) (p : Packet) : Bytes :=
  [p.toc] ++
  (if p.code = 3 then [countByte p] ++ (match p.pad with | some pd => pd.hdr | none => []) else []) ++
  (lenFields sd p).flatMap encLen

def padBytes (p : Packet) : Bytes := match p.pad with | some pd => pd.bytes | none => []

/-- The byte string of a packet. -/
def serialize (sd : Bool) (p : Packet) : Bytes :=
  header sd p ++ p.frames.flatten ++ padBytes p

def allEq (l : List Nat) : Prop := ∀ a ∈ l, ∀ b ∈ l, a = b

/-- RFC 6716 framing constraints (R1–R7 of §3.4, plus the structural facts of §3.2). -/
structure Valid (p : Packet) : Prop where
  toc_byte : p.toc < 256
  /- R2: no frame longer than 1275 bytes -/
  frame_max : ∀ f ∈ p.frames, f.length ≤ 1275
  /- codes 0,1,2 have 1,2,2 frames, no VBR flag and no padding -/
  code0 : p.code = 0 → p.frames.length = 1 ∧ p.vbr = false ∧ p.pad = none
  code1 : p.code = 1 → p.frames.length = 2 ∧ p.vbr = false ∧ p.pad = none ∧ allEq p.lens
  code2 : p.code = 2 → p.frames.length = 2 ∧ p.vbr = false ∧ p.pad = none
  /- R5/R6/R7: code 3 has at least one frame, at most 120 ms of audio; CBR frames are equal -/
  code3 : p.code = 3 → 1 ≤ p.frames.length ∧ frameDur48 p.toc * p.frames.length ≤ 5760 ∧
            (p.vbr = false → allEq p.lens)
  /- padding chain well formed: the final length byte is not 255 and the padding is as long as announced -/
  pad_ok : ∀ pd, p.pad = some pd → pd.last < 255 ∧ pd.bytes.length = pd.total

/-- What a parser must report for packet `p` (cf. `Opus.Framing.Parsed`). -/
def view (sd : Bool) (p : Packet) : Framing.Parsed :=
  { toc := p.toc
    count := p.frames.length
    sizes := p.lens
    payloadOffset := (header sd p).length
    padLen := (padBytes p).length
    packetOffset := (serialize sd p).length }

end Opus.FramingSpec
