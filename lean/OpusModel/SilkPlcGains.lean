import OpusModel.Basic
import OpusModel.Gen.PlcConsts
/-
  OpusModel.SilkPlcGains — the scalar gain recursions of SILK packet-loss concealment and the
  CELT `loss_duration` counter (C09).

  C sources:  silk/PLC.c:268-298 (attenuation gains, first-lost-frame set-up),
              silk/PLC.c:352-357 (per-subframe attenuation of the LTP taps `B_Q14[5]` and of
              `rand_scale_Q14`), silk/macros.h (silk_SMULBB, silk_SMULWB),
              celt/celt_decoder.c:957 (`loss_duration = IMIN(10000, loss_duration+(1<<LM))`),
              :1354 (`loss_duration = 0` after a decoded frame).

  The attenuation tables are regenerated from silk/PLC.c on every run (`Gen.PlcConsts`); the
  CELT counter constants are literals in the C code and are regenerated behaviourally (the
  extractor drives a CELT decoder through concealment and reads the counter back).
  `opus_int16` variables are `Int`s passed through `toI16` at every assignment, `opus_int32`
  intermediate products cannot overflow (|int16·int16| < 2^31) and stay unbounded.
-/
namespace Opus.SilkPlcGains
open Opus Opus.Gen.PlcConsts

/-- `(opus_int16)x` for an `int` x (two's complement truncation). -/
def toI16 (x : Int) : Int := (x + 32768) % 65536 - 32768

/-- `silk_SMULBB(a,b)` (silk/macros.h:70). -/
def smulbb (a b : Int) : Int := toI16 a * toI16 b

/-- `silk_SMULWB(a,b)` (silk/macros.h:43, 64-bit variant; the 32-bit variant is equal). -/
def smulwb (a b : Int) : Int := (a * toI16 b) / 65536

/-- `silk_RSHIFT(x, n)`: arithmetic shift = floor division. -/
def rshift (x : Int) (n : Nat) : Int := x / 2 ^ n

/-- `silk_min_int(NB_ATT - 1, lossCnt)` as a table index (`lossCnt ≥ 0`). -/
def attIdx (lossCnt : Int) : Nat := min (NB_ATT - 1) lossCnt.toNat

/-- `harm_Gain_Q15` (PLC.c:269). -/
def harmGain (lossCnt : Int) : Int := HARM_ATT_Q15.getD (attIdx lossCnt) 0

/-- `rand_Gain_Q15` before the first-lost-frame correction (PLC.c:270-274). -/
def randGain0 (lossCnt : Int) (voiced : Bool) : Int :=
  (if voiced then PLC_RAND_ATTENUATE_V_Q15 else PLC_RAND_ATTENUATE_UV_Q15).getD (attIdx lossCnt) 0

/-- PLC.c:354  `B_Q14[j] = silk_RSHIFT(silk_SMULBB(harm_Gain_Q15, B_Q14[j]), 15)` (B_Q14 is opus_int16). -/
def harmStep (g b : Int) : Int := toI16 (rshift (smulbb g b) 15)

/-- PLC.c:357  `rand_scale_Q14 = silk_RSHIFT(silk_SMULBB(rand_scale_Q14, rand_Gain_Q15), 15)` (opus_int16). -/
def randStep (rs rg : Int) : Int := toI16 (rshift (smulbb rs rg) 15)

/-- PLC.c:283-287: first lost frame, voiced: `rand_scale_Q14` from the LTP taps. -/
def randScaleVoiced (B : List Int) (prevLTP_scale_Q14 : Int) : Int :=
  let rs := B.foldl (fun rs b => toI16 (rs - b)) (2 ^ 14)
  let rs := max 3277 rs                                    -- silk_max_16(3277, ·)
  toI16 (rshift (smulbb rs prevLTP_scale_Q14) 14)

/-- PLC.c:289-297: first lost frame, unvoiced: `rand_Gain_Q15` reduced for high LPC gain. -/
def randGainUnvoiced (invGain_Q30 rg0 : Int) : Int :=
  let d := min (rshift (2 ^ 30) LOG2_INV_LPC_GAIN_HIGH_THRES) invGain_Q30
  let d := max (rshift (2 ^ 30) LOG2_INV_LPC_GAIN_LOW_THRES) d
  let d := d * 2 ^ LOG2_INV_LPC_GAIN_HIGH_THRES
  rshift (smulwb d rg0) 14

/-- The pair (`rand_scale_Q14`, `rand_Gain_Q15`) the subframe loop starts from (PLC.c:264-298). -/
def gainSetup (lossCnt : Int) (voiced : Bool) (B : List Int) (randScaleState prevLTP_scale_Q14 invGain_Q30 : Int) : Int × Int :=
  let rg0 := randGain0 lossCnt voiced
  if lossCnt = 0 then
    if voiced then (randScaleVoiced B prevLTP_scale_Q14, rg0)
    else (2 ^ 14, randGainUnvoiced invGain_Q30 rg0)
  else (randScaleState, rg0)

/-- `nb_subfr` iterations of PLC.c:352-357. -/
def subfrLoop (g rg : Int) : Nat → List Int × Int → List Int × Int
  | 0, s => s
  | n + 1, (B, rs) => subfrLoop g rg n (B.map (harmStep g), randStep rs rg)

/-- The gain scalars after concealing one lost frame: new `LTPCoef_Q14[5]`, new `randScale_Q14`. -/
def conceal (lossCnt : Int) (voiced : Bool) (nbSubfr : Nat) (B : List Int)
    (randScaleState prevLTP_scale_Q14 invGain_Q30 : Int) : List Int × Int :=
  let s := gainSetup lossCnt voiced B randScaleState prevLTP_scale_Q14 invGain_Q30
  subfrLoop (harmGain lossCnt) s.2 nbSubfr (B, s.1)

/-! ### CELT loss_duration (celt_decoder.c:957, :1354) -/

/-- After a concealed frame of `120·2^LM` samples. -/
def celtLossStep (loss_duration : Int) (LM : Nat) : Int :=
  min (celtLossCap.getD LM 0) (loss_duration + celtLossInc.getD LM 0)

/-- After a decoded frame. -/
def celtLossGood (LM : Nat) : Int := celtLossAfterGood.getD LM 0

/-- A history of frames: `some LM` = concealed frame, `none` = decoded frame (any size). -/
def celtLossRun : Int → List (Option Nat) → Int
  | ld, [] => ld
  | ld, some lm :: rest => celtLossRun (celtLossStep ld lm) rest
  | _, none :: rest => celtLossRun (celtLossGood 0) rest

/-! ### which concealment a lost CELT frame gets (celt_decoder.c:633-639, 689-691, 953, 1098, 1552)

  `celt_decode_lost` conceals with the pitch-based PLC unless `noise_based = loss_duration >= 40 ||
  start != 0 || st->skip_plc` (no deep PLC in this configuration).  The noise branch sets `skip_plc`
  ("skip regular PLC until we get two consecutive packets"); a decoded frame clears it only when
  `loss_duration` is already 0 on entry, i.e. when the previous frame was decoded too; init / reset
  set it.  The threshold 40 is a literal in the C code and is regenerated behaviourally. -/

/-- The part of `CELTDecoder` that decides the kind of concealment. -/
structure CeltPlc where
  ld : Int          -- loss_duration
  skip : Bool       -- skip_plc
  deriving DecidableEq, Repr

inductive PlcKind where
  | pitch | noise
  deriving DecidableEq, Repr

/-- `noise_based` (:639). `start` is the start band (0, or 17 in hybrid mode). -/
def celtLostKind (s : CeltPlc) (start : Int) : PlcKind :=
  if s.ld ≥ celtNoiseFrom ∨ start ≠ 0 ∨ s.skip = true then .noise else .pitch

/-- State after a concealed frame of `120·2^LM` samples (:691, :957). -/
def celtLost (s : CeltPlc) (start : Int) (LM : Nat) : CeltPlc :=
  { ld := celtLossStep s.ld LM, skip := if celtLostKind s start = .noise then celtSkipAfterNoise else s.skip }

/-- State after a decoded frame (:1098, :1354). -/
def celtGood (s : CeltPlc) (LM : Nat) : CeltPlc :=
  { ld := celtLossGood LM, skip := if s.ld = 0 then false else s.skip }

/-- State after `celt_decoder_init` / `OPUS_RESET_STATE` (:1552). -/
def celtReset : CeltPlc := { ld := 0, skip := celtSkipAfterReset }

/-- One frame event of a CELT decoder. -/
inductive CeltEv where
  | lost (LM : Nat) (start : Int)
  | good (LM : Nat)
  | reset
  deriving DecidableEq, Repr

/-- Run a history; returns the final state and, for every lost frame in order, the kind of concealment it got. -/
def celtPlcRun : CeltPlc → List CeltEv → CeltPlc × List PlcKind
  | s, [] => (s, [])
  | s, .lost lm start :: rest =>
    ((celtPlcRun (celtLost s start lm) rest).1, celtLostKind s start :: (celtPlcRun (celtLost s start lm) rest).2)
  | s, .good lm :: rest => celtPlcRun (celtGood s lm) rest
  | _, .reset :: rest => celtPlcRun celtReset rest

end Opus.SilkPlcGains
