import OpusModel.ResetState
import OpusModel.ResetDecode
import OpusModel.Ctl
/-
  OpusModel.ResetMs — OPUS_RESET_STATE of the multistream encoder / decoder (and, through them, of the
  projection objects, whose ctl forwards the request: src/opus_projection_encoder.c:434-520,
  src/opus_projection_decoder.c:267-277) as the fan-out of the per-stream reset.

  C sources
    src/opus_private.h:58-72, 74-80                  struct OpusMSEncoder / OpusMSDecoder
    src/opus_multistream_encoder.c:1290-1311         OPUS_RESET_STATE: clear the surround analysis memories
                                                     (window_mem, preemph_mem) when mapping_type is SURROUND,
                                                     then reset every stream, stopping at the first error
    src/opus_multistream_decoder.c:500-518           OPUS_RESET_STATE: reset every stream
  The fan-out loop is `Opus.Ctl.fanOut` of the C11 model (imported read-only).
-/
namespace Opus.ResetState
open Opus

abbrev MAPPING_TYPE_SURROUND : Int := 1

/-- Two lists of the same length related position by position. -/
inductive AllPairs {α β : Type} (R : α → β → Prop) : List α → List β → Prop
  | nil : AllPairs R [] []
  | cons {a b as bs} : R a b → AllPairs R as bs → AllPairs R (a :: as) (b :: bs)

/-- OpusMSEncoder: its own members, the surround memories behind it, the stream encoders. -/
structure MsEnc where
  nbChannels : Int
  nbStreams : Int
  nbCoupled : Int
  mapping : List Nat
  arch : Int
  lfeStream : Int
  application : Int
  variableDuration : Int
  mappingType : Int
  bitrateBps : Int
  mems : Blob                 -- window_mem / preemph_mem (written only by surround_analysis)
  streams : List Enc
  deriving DecidableEq, Repr

/-- The per-stream request of the reset fan-out: opus_encoder_ctl(enc, OPUS_RESET_STATE) returns OPUS_OK. -/
def encResetCtl (e : Enc) : Enc × Ctl.Ret := (encReset e, Ctl.Ret.ok)

/-- opus_multistream_encoder_ctl(st, OPUS_RESET_STATE) (opus_multistream_encoder.c:1290-1311). -/
def msEncReset (m : MsEnc) : MsEnc × Ctl.Ret :=
  let r := Ctl.fanOut encResetCtl m.streams
  ({ m with mems := if m.mappingType = MAPPING_TYPE_SURROUND then .fresh else m.mems, streams := r.1 }, r.2)

/-- A newly created multistream encoder with the same layout and multistream-level settings whose stream
    encoders carry the settings of `m`'s stream encoders. -/
def msEncFresh (m : MsEnc) : MsEnc :=
  { m with mems := .fresh,
           streams := m.streams.map (fun e => encFresh e.fs e.channels e.arch e.silkEncOffset e.celtEncOffset (settingsOf e)) }

/-- Indistinguishable multistream encoders: same own members and memories, stream encoders pairwise
    indistinguishable (`ObsEq`). -/
def MsObsEq (a b : MsEnc) : Prop :=
  a.nbChannels = b.nbChannels ∧ a.nbStreams = b.nbStreams ∧ a.nbCoupled = b.nbCoupled ∧ a.mapping = b.mapping ∧
  a.arch = b.arch ∧ a.lfeStream = b.lfeStream ∧ a.application = b.application ∧
  a.variableDuration = b.variableDuration ∧ a.mappingType = b.mappingType ∧ a.bitrateBps = b.bitrateBps ∧
  a.mems = b.mems ∧ AllPairs ObsEq a.streams b.streams

/-- OpusMSDecoder: layout and stream decoders (it has no other state). -/
structure MsDec where
  nbChannels : Int
  nbStreams : Int
  nbCoupled : Int
  mapping : List Nat
  streams : List Dec
  deriving DecidableEq, Repr

def decResetCtl (d : Dec) : Dec × Ctl.Ret := (decReset d, Ctl.Ret.ok)

/-- opus_multistream_decoder_ctl(st, OPUS_RESET_STATE). -/
def msDecReset (m : MsDec) : MsDec × Ctl.Ret :=
  let r := Ctl.fanOut decResetCtl m.streams
  ({ m with streams := r.1 }, r.2)

def msDecFresh (m : MsDec) : MsDec :=
  { m with streams := m.streams.map (fun s => decFresh s.fs s.channels s.arch s.silkDecOffset s.celtDecOffset
                                                 s.decodeGain s.complexity s.celtComplexity s.celtDisableInv) }

def MsDecObsEq (a b : MsDec) : Prop :=
  a.nbChannels = b.nbChannels ∧ a.nbStreams = b.nbStreams ∧ a.nbCoupled = b.nbCoupled ∧ a.mapping = b.mapping ∧
  AllPairs DecObsEq a.streams b.streams

end Opus.ResetState
