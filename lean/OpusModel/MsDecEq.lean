import OpusModel.Layout
import OpusModel.LayoutSpec
/-
  OpusModel.MsDecEq — `opus_multistream_decode_native` (src/opus_multistream_decoder.c:178-307) and
  `opus_multistream_decoder_ctl_va_list` (:430-548) over ABSTRACT elementary decoders.

  An elementary decoder is any deterministic state machine (`Machine σ π`): `decode` is the whole of
  `opus_decode_native(dec, data, len, buf, frame_size, decode_fec, self_delimited, &packet_offset, soft_clip, NULL, 0)`
  seen from outside (new state, return value, `*packet_offset`, the PCM left in `buf`), `ctl` the whole of
  `opus_decoder_ctl(dec, request, arg)` (new state, return code, value stored through the pointer argument).
  Nothing is assumed about the codec interior.  The multistream decoder is the list of the stream states plus the
  (immutable) layout and sampling rate.

  Already modelled elsewhere and imported read-only: the validation pass (`Opus.Layout.msPacketValidate`, C10), the copy-out
  calls (`Opus.Layout.streamCalls` / `mutedCalls`, C10), the packet grammar (`Opus.FramingSpec`, C06; `msSerialize`, C10).
  `Opus.DecSkel.msDecodeFull` (C01) is this loop with the C01 skeleton of `opus_decode_native` as the machine.

  Conventions.  `bs` is the caller's buffer, `len` the C `len` (`len ≤ bs.length` is the caller's obligation); a per-stream
  call on `(data, len)` hands the machine `some (data[0..len))`; a call with `len = 0` (packet loss: `do_plc`) hands it
  `none` (`opus_decode_native` treats `len==0` and `data==NULL` alike, src/opus_decoder.c:706-712).
  `Fs` is the rate the streams were created with (`MUST_SUCCEED(OPUS_GET_SAMPLE_RATE)` :206 reads stream 0's `Fs`, a pure read).
  Definitions only; core Lean only.
-/
namespace Opus.MsDecEq
open Opus Opus.Framing Opus.Layout

/-- What one `opus_decode_native` call leaves behind. -/
structure Step (σ π : Type) where
  st : σ          -- decoder state after the call
  ret : Int       -- return value
  po : Int        -- `*packet_offset` after the call (the caller stored 0 before it, :252)
  pcm : π         -- what the call left in `buf`

/-- An elementary decoder: ANY deterministic machine. -/
structure Machine (σ π : Type) where
  /-- `decode st packet frame_size decode_fec self_delimited soft_clip` -/
  decode : σ → Option Bytes → Int → Int → Bool → Bool → Step σ π
  /-- `ctl st request arg` ↦ (state, return code, value stored through a pointer argument) -/
  ctl : σ → Int → Int → σ × Int × Int

/-- Arguments of one per-stream call as the elementary decoder sees them. -/
structure Args where
  pkt : Option Bytes
  fsz : Int
  fec : Int
  sd : Bool
  sc : Bool
  deriving DecidableEq, Repr

def Machine.run {σ π} (m : Machine σ π) (st : σ) (a : Args) : Step σ π := m.decode st a.pkt a.fsz a.fec a.sd a.sc

/-- One recorded per-stream call of a multistream decode. -/
structure Rec (σ π : Type) where
  s : Nat            -- stream index
  off : Int          -- `data - data₀` at the call
  len : Int          -- `len` at the call
  args : Args
  pre : σ            -- the stream's state before the call
  out : Step σ π

/-- Outcome of one `opus_multistream_decode_native`. -/
structure Out (σ π : Type) where
  ret : Int
  sts : List σ                    -- all stream states after the call
  recs : List (Rec σ π)           -- the per-stream calls made, in order
  copies : List Layout.Call       -- the copy_channel_out calls made, in order

def INTERNAL_ERROR : Int := -3

/-- The arguments of the per-stream call (:253): `opus_decode_native(dec, data, len, buf, frame_size, decode_fec,
    s!=st->layout.nb_streams-1, &packet_offset, soft_clip, NULL, 0)`. -/
def streamArgs (nbStreams : Nat) (doPlc : Bool) (s : Nat) (bs : Bytes) (len fsz fec : Int) (sc : Bool) : Args :=
  { pkt := if doPlc then none else some (bs.take len.toNat), fsz := fsz, fec := fec,
    sd := decide (s ≠ nbStreams - 1), sc := sc }

/-- The stream loop (:238-295) followed by the muted-channel loop (:296-304).  First argument: states of the streams
    still to decode; `s` index of the next; `bs`/`off`/`len`: remaining data, its offset, remaining `len`; `fsz`: the
    current `frame_size`. -/
def msLoop {σ π} (m : Machine σ π) (l : ChannelLayout) (fec : Int) (sc doPlc : Bool) :
    List σ → Nat → Bytes → Int → Int → Int → Out σ π
  | [], _, _, _, _, fsz =>
    { ret := fsz, sts := [], recs := [], copies := mutedCalls fsz (l.mapping.take l.nbChannels) 0 }
  | st :: rest, s, bs, off, len, fsz =>
    if ¬ doPlc ∧ len ≤ 0 then { ret := INTERNAL_ERROR, sts := st :: rest, recs := [], copies := [] }   -- :247-251
    else
      let a : Args := streamArgs l.nbStreams doPlc s bs len fsz fec sc
      let x := m.run st a                                                                              -- :253
      let r : Rec σ π := { s := s, off := off, len := len, args := a, pre := st, out := x }
      if x.ret ≤ 0 then { ret := x.ret, sts := x.st :: rest, recs := [r], copies := [] }               -- :259-263
      else
        let o := msLoop m l fec sc doPlc rest (s + 1)
          (if doPlc then bs else bs.drop x.po.toNat) (if doPlc then off else off + x.po)               -- :254-258
          (if doPlc then len else len - x.po) x.ret                                                    -- :264
        { ret := o.ret, sts := x.st :: o.sts, recs := r :: o.recs, copies := streamCalls l s x.ret ++ o.copies }

/-- `IMIN(frame_size, Fs/25*3)` (:206-207). -/
def clampFs (Fs : Nat) (frame_size : Int) : Int :=
  if frame_size < ((Fs / 25 * 3 : Nat) : Int) then frame_size else ((Fs / 25 * 3 : Nat) : Int)

/-- The validation step (:224-236) against the clamped frame size: `none` = accepted. -/
def msCheck (l : ChannelLayout) (Fs : Nat) (pkt : Bytes) (fsz : Int) : Option Int :=
  match msPacketValidate pkt l.nbStreams Fs with
  | .ok n => if (n : Int) > fsz then some Err.bufferTooSmall.code else none
  | .err e => some e.code
  | _ => some INTERNAL_ERROR      -- parser fault: excluded by C06/C10 (`ms_packet_structure`), never produced

/-- The early exits of `opus_multistream_decode_native` (:199-237): `none` = proceed to the stream loop with the
    clamped frame size.  The order of the checks is the code's. -/
def msEarly (l : ChannelLayout) (Fs : Nat) (bs : Bytes) (len frame_size : Int) : Option Int :=
  if frame_size ≤ 0 then some Err.badArg.code                                                          -- :199-203
  else if len < 0 then some Err.badArg.code                                                            -- :214-218
  else if len ≠ 0 ∧ len < 2 * (l.nbStreams : Int) - 1 then some Err.invalidPacket.code                 -- :219-223
  else if len = 0 then none                                                                            -- do_plc
  else msCheck l Fs (bs.take len.toNat) (clampFs Fs frame_size)                                        -- :224-236

/-- `opus_multistream_decode_native` (:178-307). -/
def msDecode {σ π} (m : Machine σ π) (l : ChannelLayout) (Fs : Nat) (sts : List σ) (bs : Bytes)
    (len frame_size fec : Int) (sc : Bool) : Out σ π :=
  match msEarly l Fs bs len frame_size with
  | some e => { ret := e, sts := sts, recs := [], copies := [] }
  | none => msLoop m l fec sc (decide (len = 0)) sts 0 bs 0 len (clampFs Fs frame_size)

/-! ### what the streams see -/

/-- What one stand-alone decoder is asked to do. -/
inductive In where
  | decode (a : Args)
  | ctl (request arg : Int)
  deriving DecidableEq, Repr

/-- What it answers. -/
inductive Ans (σ π : Type) where
  | decode (x : Step σ π)
  | ctl (st : σ) (ret value : Int)

def Ans.st {σ π} : Ans σ π → σ
  | .decode x => x.st
  | .ctl st _ _ => st

/-- A stand-alone decoder performing one request. -/
def Machine.step {σ π} (m : Machine σ π) (st : σ) : In → Ans σ π
  | .decode a => .decode (m.run st a)
  | .ctl request arg => .ctl (m.ctl st request arg).1 (m.ctl st request arg).2.1 (m.ctl st request arg).2.2

/-- A stand-alone decoder run over a request sequence: the final state and every answer. -/
def Machine.replay {σ π} (m : Machine σ π) : σ → List In → σ × List (Ans σ π)
  | st, [] => (st, [])
  | st, i :: is => ((m.replay (m.step st i).st is).1, m.step st i :: (m.replay (m.step st i).st is).2)

/-- One request as it reached stream `s`, with the answer the stream gave. -/
structure Seen (σ π : Type) where
  s : Nat
  inp : In
  ans : Ans σ π

def Rec.seen {σ π} (r : Rec σ π) : Seen σ π := { s := r.s, inp := .decode r.args, ans := .decode r.out }

/-! ### ctl fan-out (`opus_multistream_decoder_ctl_va_list`, :430-548) -/

structure CtlOut (σ π : Type) where
  ret : Int
  value : Int                -- what was stored through the caller's pointer (0 if nothing)
  sts : List σ
  seen : List (Seen σ π)     -- the opus_decoder_ctl calls made, in order

def ctlSeen {σ π} (m : Machine σ π) (s : Nat) (st : σ) (request arg : Int) : Seen σ π :=
  { s := s, inp := .ctl request arg, ans := m.step st (.ctl request arg) }

/-- `for (s…) { ret = opus_decoder_ctl(dec_s, request, arg); if (ret != OPUS_OK) break; }` (:482-494, :526-538). -/
def ctlAll {σ π} (m : Machine σ π) (request arg : Int) : List σ → Nat → Int × List σ × List (Seen σ π)
  | [], _ => (0, [], [])
  | st :: rest, s =>
    if (m.ctl st request arg).2.1 ≠ 0 then
      ((m.ctl st request arg).2.1, (m.step st (.ctl request arg)).st :: rest, [ctlSeen m s st request arg])
    else
      ((ctlAll m request arg rest (s + 1)).1, (m.step st (.ctl request arg)).st :: (ctlAll m request arg rest (s + 1)).2.1,
        ctlSeen m s st request arg :: (ctlAll m request arg rest (s + 1)).2.2)

/-- The OPUS_GET_FINAL_RANGE loop (:461-478): `*value = 0; for … { ret = ctl(dec, request, &tmp); if (ret != OPUS_OK) break;
    *value ^= tmp; }` — on a failing stream the partial xor stays stored. -/
def ctlXor {σ π} (m : Machine σ π) (request : Int) : List σ → Nat → Nat → Int × Nat × List σ × List (Seen σ π)
  | [], _, acc => (0, acc, [], [])
  | st :: rest, s, acc =>
    if (m.ctl st request 0).2.1 ≠ 0 then
      ((m.ctl st request 0).2.1, acc, (m.step st (.ctl request 0)).st :: rest, [ctlSeen m s st request 0])
    else
      let o := ctlXor m request rest (s + 1) (acc ^^^ (m.ctl st request 0).2.2.toNat)
      (o.1, o.2.1, (m.step st (.ctl request 0)).st :: o.2.2.1, ctlSeen m s st request 0 :: o.2.2.2)

def REQ_GET_BANDWIDTH : Int := 4009
def REQ_RESET_STATE : Int := 4028
def REQ_GET_SAMPLE_RATE : Int := 4029
def REQ_GET_FINAL_RANGE : Int := 4031
def REQ_SET_GAIN : Int := 4034
def REQ_GET_LAST_PACKET_DURATION : Int := 4039
def REQ_GET_GAIN : Int := 4045
def REQ_SET_PHASE_INVERSION_DISABLED : Int := 4046
def REQ_GET_PHASE_INVERSION_DISABLED : Int := 4047
def REQ_GET_DECODER_STATE : Int := 5122

/-- Requests answered by the first stream only (:442-454). -/
def isFirstGet (request : Int) : Bool :=
  request = REQ_GET_BANDWIDTH || request = REQ_GET_SAMPLE_RATE || request = REQ_GET_GAIN ||
  request = REQ_GET_LAST_PACKET_DURATION || request = REQ_GET_PHASE_INVERSION_DISABLED

/-- Requests applied to every stream (:479-495 RESET_STATE, :520-540 the two int32 setters). -/
def isAll (request : Int) : Bool :=
  request = REQ_RESET_STATE || request = REQ_SET_GAIN || request = REQ_SET_PHASE_INVERSION_DISABLED

/-- `opus_multistream_decoder_ctl(st, request, arg)`; `nonNull` = the pointer argument (GET requests) is not NULL.
    `sts` are the `nb_streams` stream states.  A NULL pointer on a first-stream GET is forwarded as it is (the stream's own
    ctl answers); the machine is handed `arg = 0` for GETs and RESET_STATE. -/
def msCtl {σ π} (m : Machine σ π) (sts : List σ) (request arg : Int) (nonNull : Bool) : CtlOut σ π :=
  if isFirstGet request then
    match sts with
    | st :: rest =>
      { ret := (m.ctl st request 0).2.1, value := (m.ctl st request 0).2.2,
        sts := (m.step st (.ctl request 0)).st :: rest, seen := [ctlSeen m 0 st request 0] }
    | [] => { ret := INTERNAL_ERROR, value := 0, sts := [], seen := [] }       -- unreachable: nb_streams ≥ 1
  else if request = REQ_GET_FINAL_RANGE then
    if !nonNull then { ret := Err.badArg.code, value := 0, sts := sts, seen := [] }
    else
      { ret := (ctlXor m request sts 0 0).1, value := (ctlXor m request sts 0 0).2.1,
        sts := (ctlXor m request sts 0 0).2.2.1, seen := (ctlXor m request sts 0 0).2.2.2 }
  else if isAll request then
    let a := if request = REQ_RESET_STATE then 0 else arg
    { ret := (ctlAll m request a sts 0).1, value := 0, sts := (ctlAll m request a sts 0).2.1, seen := (ctlAll m request a sts 0).2.2 }
  else if request = REQ_GET_DECODER_STATE then
    if arg < 0 ∨ arg ≥ sts.length then { ret := Err.badArg.code, value := 0, sts := sts, seen := [] }
    else if !nonNull then { ret := Err.badArg.code, value := 0, sts := sts, seen := [] }
    else { ret := 0, value := arg, sts := sts, seen := [] }                    -- `*value` = pointer to stream `arg`
  else { ret := -5, value := 0, sts := sts, seen := [] }                       -- OPUS_UNIMPLEMENTED

/-! ### histories -/

/-- One API call on a multistream (or projection) decoder. -/
inductive Ev where
  | decode (bs : Bytes) (len frame_size fec : Int) (sc : Bool)   -- `len = 0`: lost packet
  | ctl (request arg : Int) (nonNull : Bool)                      -- opus_multistream_decoder_ctl
  | direct (s : Nat) (request arg : Int)                          -- opus_decoder_ctl on the pointer GET_DECODER_STATE returned
  deriving Repr

/-- Result of one API call: new stream states, return value, everything the streams saw, the copy-out calls. -/
structure EvOut (σ π : Type) where
  sts : List σ
  ret : Int
  seen : List (Seen σ π)
  copies : List Layout.Call

/-- `opus_decoder_ctl` on stream `s` directly. -/
def directCtl {σ π} (m : Machine σ π) (request arg : Int) : List σ → Nat → Nat → List σ × List (Seen σ π)
  | [], _, _ => ([], [])
  | st :: rest, 0, s => ((m.step st (.ctl request arg)).st :: rest, [ctlSeen m s st request arg])
  | st :: rest, k + 1, s => (st :: (directCtl m request arg rest k s).1, (directCtl m request arg rest k s).2)

def apply {σ π} (m : Machine σ π) (l : ChannelLayout) (Fs : Nat) (sts : List σ) : Ev → EvOut σ π
  | .decode bs len frame_size fec sc =>
    { sts := (msDecode m l Fs sts bs len frame_size fec sc).sts, ret := (msDecode m l Fs sts bs len frame_size fec sc).ret,
      seen := (msDecode m l Fs sts bs len frame_size fec sc).recs.map Rec.seen,
      copies := (msDecode m l Fs sts bs len frame_size fec sc).copies }
  | .ctl request arg nonNull =>
    { sts := (msCtl m sts request arg nonNull).sts, ret := (msCtl m sts request arg nonNull).ret,
      seen := (msCtl m sts request arg nonNull).seen, copies := [] }
  | .direct s request arg =>
    { sts := (directCtl m request arg sts s s).1, ret := 0, seen := (directCtl m request arg sts s s).2, copies := [] }

/-- A whole history: final stream states and the outcome of every call. -/
def runHist {σ π} (m : Machine σ π) (l : ChannelLayout) (Fs : Nat) : List σ → List Ev → List σ × List (EvOut σ π)
  | sts, [] => (sts, [])
  | sts, e :: es => ((runHist m l Fs (apply m l Fs sts e).sts es).1, apply m l Fs sts e :: (runHist m l Fs (apply m l Fs sts e).sts es).2)

/-- Everything stream `i` saw during a history, in order. -/
def seenBy {σ π} (i : Nat) (outs : List (EvOut σ π)) : List (Seen σ π) :=
  (outs.flatMap (·.seen)).filter (fun x => x.s = i)

/-! ### the declarative reading (specification side) -/

open Opus.FramingSpec Opus.LayoutSpec in
/-- What the splitter hands stream `i` of a multistream packet `msSerialize (p :: ps)` whose first sub-packet is `p`:
    `feedSuffix` = everything that is left (what the code passes), `feedSub` = only the stream's own sub-packet
    (self-delimited framing for all but the last stream, RFC 6716 Appendix B). -/
def feedSuffix (p : Packet) (ps : List Packet) : Bytes := msSerialize (p :: ps)

open Opus.FramingSpec Opus.LayoutSpec in
def feedSub (p : Packet) (ps : List Packet) : Bytes := serialize (decide (ps ≠ [])) p

open Opus.FramingSpec Opus.LayoutSpec in
/-- **Specification of an accepted multistream decode**, stream by stream, with no pointer arithmetic: stream `s` (state
    `st`) performs ONE stand-alone call on `feed p ps` with the frame size the previous stream returned (the clamped
    caller's frame size for stream 0), the caller's `decode_fec` / `soft_clip`, `self_delimited` = "not the last stream";
    if it returns `≤ 0` the call ends there with that value — the failing stream and all earlier ones HAVE advanced, the
    later ones are untouched, nothing further is copied; otherwise its channels are copied out and the next stream follows. -/
def specLoop {σ π} (m : Machine σ π) (l : ChannelLayout) (fec : Int) (sc : Bool) (feed : Packet → List Packet → Bytes) :
    List Packet → List σ → Nat → Int → Int → Out σ π
  | p :: ps, st :: rest, s, off, fsz =>
    let a : Args := { pkt := some (feed p ps), fsz := fsz, fec := fec, sd := decide (ps ≠ []), sc := sc }
    let r : Rec σ π := { s := s, off := off, len := (msSerialize (p :: ps)).length, args := a, pre := st, out := m.run st a }
    if (m.run st a).ret ≤ 0 then { ret := (m.run st a).ret, sts := (m.run st a).st :: rest, recs := [r], copies := [] }
    else
      let o := specLoop m l fec sc feed ps rest (s + 1) (off + (serialize (decide (ps ≠ [])) p).length) (m.run st a).ret
      { ret := o.ret, sts := (m.run st a).st :: o.sts, recs := r :: o.recs, copies := streamCalls l s (m.run st a).ret ++ o.copies }
  | _, _, _, _, fsz => { ret := fsz, sts := [], recs := [], copies := mutedCalls fsz (l.mapping.take l.nbChannels) 0 }

/-- Forget which bytes were handed over (keeps stream, offset, len, the other arguments, pre-state and the whole answer). -/
def Rec.forget {σ π} (r : Rec σ π) : Rec σ π := { r with args := { r.args with pkt := none } }
def Out.forget {σ π} (o : Out σ π) : Out σ π := { o with recs := o.recs.map Rec.forget }

open Opus.FramingSpec Opus.LayoutSpec in
/-- **The declarative splitter**: the sub-packets of a multistream packet, one per stream — self-delimited framing for all
    but the last (RFC 6716 Appendix B / RFC 7845 §3).  `msSerialize ps` is their concatenation. -/
def subPackets : List Packet → List Bytes
  | [] => []
  | p :: ps => serialize (decide (ps ≠ [])) p :: subPackets ps

open Opus.FramingSpec Opus.LayoutSpec in
/-- A history written declaratively: a multistream packet given by its sub-packets, or any other API call (loss, FEC on
    nothing, a packet the decoder will reject, ctl, direct ctl). -/
inductive HEv where
  | accepted (ps : List Packet) (frame_size fec : Int) (sc : Bool)
  | other (e : Ev)

/-- The API call a declarative event stands for. -/
def HEv.ev : HEv → Ev
  | .accepted ps frame_size fec sc => .decode (LayoutSpec.msSerialize ps) (LayoutSpec.msSerialize ps).length frame_size fec sc
  | .other e => e

/-- **Specification of a history**: an accepted packet is the stream-by-stream run on the splitter's sub-packets
    (`specLoop … feedSub`), everything else is the API call itself.  Yields the final stream states and, per call, the
    return value and every answer the streams gave. -/
def specRun {σ π} (m : Machine σ π) (l : ChannelLayout) (Fs : Nat) : List σ → List HEv → List σ × List (Int × List (Ans σ π))
  | sts, [] => (sts, [])
  | sts, .accepted ps frame_size fec sc :: hs =>
    let o := specLoop m l fec sc feedSub ps sts 0 0 (clampFs Fs frame_size)
    ((specRun m l Fs o.sts hs).1, (o.ret, o.recs.map fun r => Ans.decode r.out) :: (specRun m l Fs o.sts hs).2)
  | sts, .other e :: hs =>
    let o := apply m l Fs sts e
    ((specRun m l Fs o.sts hs).1, (o.ret, o.seen.map (·.ans)) :: (specRun m l Fs o.sts hs).2)

end Opus.MsDecEq
