import OpusModel.SilkCore
/-
  OpusModel.SilkCoreSynth — bit-exact model of `silk_decode_core_c` (silk/decode_core.c:38-243) and of
  `silk_LPC_analysis_filter` (silk/LPC_analysis_filter.c:49-111, the `USE_CELT_FIR 0` branch).

  Buffers that the C code indexes backwards from a moving write position are kept most-recent-first:
    * `hist`  = `sLPC_Q14[ MAX_LPC_ORDER + i - 1 ], sLPC_Q14[ MAX_LPC_ORDER + i - 2 ], …` (always 16 values);
    * `ltpH`  = `sLTP_Q15[ sLTP_buf_idx - 1 ], sLTP_Q15[ sLTP_buf_idx - 2 ], …` — ONLY the elements written so far in this
      call (`sLTP_Q15` is a fresh stack array, decode_core.c:59): a read below them is the outcome `.oob`.
  Outcomes other than `.ok`: `.abort` = `celt_assert( start_idx > 0 )` (:150) / `celt_assert( d <= len )`
  (LPC_analysis_filter.c:69) fires, or a division by zero inside `silk_INVERSE32_varQ` / `silk_DIV32_varQ`
  (`Gains_Q16[k] == 0`; the `silk_assert`s of Inlines.h are compiled out); `.oob` = a read of an unwritten / out-of-range
  element.

  Signed arithmetic that is NOT protected by an unsigned cast in C — `silk_ADD_LSHIFT32( pexc_Q14[i], LTP_pred_Q13, 1 )`
  (:193, `silk_ADD32` is a plain `+`) — is computed exactly and then reduced with `wrap32` (what the compiled code
  stores); the number of such operations whose exact value left the `opus_int32` range is counted in `ub` (each of them is
  signed overflow, i.e. undefined behaviour, in C).  The excitation arithmetic of :81-91 cannot overflow for
  `opus_int16` pulses (`OpusProps.C03SilkCore.excitation_no_wrap`), it is written with the plain operations.
-/
namespace Opus.SilkCore
open Opus Opus.SilkParams Opus.Gen Opus.Frozen

/-! ### silk_LPC_analysis_filter -/

/-- One output sample (LPC_analysis_filter.c:83-105): `x = in[ix]`, `past = in[ix-1], in[ix-2], …`, `B` the `d`
    coefficients.  The first product `silk_SMULBB( in_ptr[0], B[0] )` is below `2^30`, so starting the wrapping
    accumulation at 0 gives the same value. -/
def lpcAnaOut (B : List Int) (x : Int) (past : List Int) : Int :=
  let acc := (List.zip past B).foldl (fun a p => smlabbOvflw a p.1 p.2) 0
  let out32Q12 := sub32Ovflw (lshift32 x 12) acc
  wrap16 (sat16 (rshiftRound out32Q12 12))

/-- The `n` most recent outputs of the filter run over a signal given most-recent-first. -/
def lpcAnaRev (B : List Int) : Nat → List Int → List Int
  | 0, _ => []
  | _, [] => []
  | n + 1, x :: past => lpcAnaOut B x past :: lpcAnaRev B n past

/-! ### excitation (decode_core.c:78-94) -/

/-- One pulse: `(exc_Q14[i], new rand_seed)`. -/
def excStep (offsetQ10 seed pulse : Int) : Int × Int :=
  let seed := silkRand seed
  let e := lshift32 pulse 14
  let e := if e > 0 then e - SilkCoreTabs.quantLevelAdjustQ10 * 16
           else if e < 0 then e + SilkCoreTabs.quantLevelAdjustQ10 * 16 else e
  let e := e + offsetQ10 * 16
  let e := if seed < 0 then -e else e
  (e, add32Ovflw seed pulse)

def excLoop (offsetQ10 : Int) : Int → List Int → List Int
  | _, [] => []
  | seed, p :: ps =>
    let r := excStep offsetQ10 seed p
    r.1 :: excLoop offsetQ10 r.2 ps

/-- `silk_Quantization_Offsets_Q10[ signalType >> 1 ][ quantOffsetType ]` (:69). -/
def quantOffset (signalType quantOffsetType : Int) : Res Int :=
  if quantOffsetType < 0 ∨ quantOffsetType ≥ (SilkCoreTabs.quantOffsetsCols : Int) then .oob
  else getI SilkCoreTabs.quantOffsetsQ10 (shrI signalType 1 * (SilkCoreTabs.quantOffsetsCols : Int) + quantOffsetType)

/-! ### long-term prediction (decode_core.c:178-201) -/

/-- The 5-tap predictor (:184-189): `taps = pred_lag_ptr[0], pred_lag_ptr[-1], …, pred_lag_ptr[-4]`. -/
def ltpPred (taps B : List Int) : Int :=
  (List.zip taps B).foldl (fun a p => smlawb a p.1 p.2) 2

/-- The sample loop :181-198 of a voiced sub-frame: `(res_Q14[], ltpH, ub)`.
    `pred_lag_ptr[-t] = sLTP_Q15[ sLTP_buf_idx - lag + 2 - t ]` is element `lag - 3 + t` of `ltpH`. -/
def ltpSynth (B : List Int) (lag : Int) : List Int → List Int → Nat → Res (List Int × List Int × Nat)
  | [], h, ub => .ok ([], h, ub)
  | e :: es, h, ub =>
    if lag < 3 then .oob
    else
      let taps := (h.drop (lag - 3).toNat).take 5
      if taps.length < 5 then .oob
      else
        let pred := ltpPred taps B
        let r0 := e + lshift32 pred 1                 -- silk_ADD_LSHIFT32: plain signed `+`
        let r := wrap32 r0
        match ltpSynth B lag es (lshift32 r 1 :: h) (ub + (if r = r0 then 0 else 1)) with
        | .ok (rs, h', ub') => .ok (r :: rs, h', ub')
        | .err e => .err e
        | .oob => .oob
        | .abort => .abort

/-! ### short-term prediction (decode_core.c:203-232) -/

/-- :207-225: `silk_RSHIFT( LPC_order, 1 )` plus the `LPC_order` `silk_SMLAWB` terms. -/
def lpcPred (hist A : List Int) : Int :=
  (List.zip hist A).foldl (fun a p => smlawb a p.1 p.2) ((A.length : Int) / 2)

/-- :228 `sLPC_Q14[ MAX_LPC_ORDER + i ]`. -/
def lpcSample (hist A : List Int) (res : Int) : Int :=
  addSat32 res (lshiftSat32 (lpcPred hist A) 4)

/-- :231 `pxq[ i ]`. -/
def xqSample (v gainQ10 : Int) : Int :=
  wrap16 (sat16 (rshiftRound (smulww v gainQ10) 8))

/-- The sample loop :203-232: `(pxq[], hist)`. -/
def lpcSynth (A : List Int) (gainQ10 : Int) : List Int → List Int → List Int × List Int
  | [], hist => ([], hist)
  | r :: rs, hist =>
    let v := lpcSample hist A r
    let rest := lpcSynth A gainQ10 rs ((v :: hist).take SilkCoreTabs.maxLpcOrder)
    (xqSample v gainQ10 :: rest.1, rest.2)

/-! ### the sub-frame loop (decode_core.c:103-238) -/

/-- What the sub-frame loop carries from one sub-frame to the next. -/
structure CoreSt where
  hist : List Int            -- sLPC_Q14, most recent first
  ltpH : List Int            -- written part of sLTP_Q15, most recent first
  outBuf : List Int          -- psDec->outBuf (modified at k == 2, :153)
  xq : List Int              -- output so far
  prevGainQ16 : Int
  ltpCoef : List Int         -- psDecCtrl->LTPCoef_Q14 (modified by the transition branch :135-136)
  pitchL : List Int          -- psDecCtrl->pitchL (modified by the transition branch :139)
  ub : Nat
  deriving Repr, DecidableEq

/-- Replace `n = v.length` elements of `l` starting at `i`. -/
def splice (l : List Int) (i : Nat) (v : List Int) : List Int := l.take i ++ v ++ l.drop (i + v.length)

/-- decode_core.c:152-154: at `k == 2` the first two sub-frames of `xq` are copied behind the LTP memory of `outBuf`. -/
def rewhitenBuf (fs : Nat) (k : Nat) (c : CoreSt) : List Int :=
  if k = 2 then splice c.outBuf (ltpMemLen fs) (c.xq.take (2 * subfrLen fs)) else c.outBuf

/-- The re-whitening :149-166 of sub-frame `k`: new `(outBuf, ltpH)`. -/
def rewhiten (fs : Nat) (k : Nat) (lag : Int) (A : List Int) (invGainQ31 : Int) (c : CoreSt) :
    Res (List Int × List Int) :=
  if (ltpMemLen fs : Int) - lag - (lpcOrder fs : Int) - (SilkCoreTabs.ltpOrder / 2 : Nat) ≤ 0 then .abort     -- celt_assert( start_idx > 0 )
  else if lag + (lpcOrder fs : Int) + (SilkCoreTabs.ltpOrder / 2 : Nat) < (lpcOrder fs : Int) then .abort     -- celt_assert( d <= len ), len = ltp_mem_length - start_idx
  else
    -- sLTP[ ltp_mem_length - 1 ], sLTP[ ltp_mem_length - 2 ], …
    if (lpcAnaRev A (lag + 2).toNat ((rewhitenBuf fs k c).take (ltpMemLen fs + k * subfrLen fs)).reverse).length < (lag + 2).toNat then .oob
    else .ok (rewhitenBuf fs k c,
              (lpcAnaRev A (lag + 2).toNat ((rewhitenBuf fs k c).take (ltpMemLen fs + k * subfrLen fs)).reverse).map
                (fun v => smulwb invGainQ31 v) ++ c.ltpH.drop (lag + 2).toNat)

/-- What sub-frame `k` computes before the long-term prediction (decode_core.c:104-140): pure arithmetic. -/
structure SubPrep where
  A : List Int               -- A_Q12 = PredCoef_Q12[ k >> 1 ]
  gain : Int                 -- Gains_Q16[ k ]
  gainQ10 : Int
  invGainQ31 : Int
  gainAdj : Int
  hist : List Int            -- sLPC_Q14 after the gain adjustment :120-122
  ltpCoef : List Int
  pitchL : List Int
  voiced : Bool              -- signalType == TYPE_VOICED after the transition branch
  B : List Int               -- B_Q14
  excK : List Int            -- pexc_Q14[ 0 .. subfr_length )
  deriving Repr, DecidableEq

/-- decode_core.c:132-133: "avoid abrupt transition from voiced PLC to unvoiced normal decoding". -/
def transK (s : DecState) (f : FrameIn) (k : Nat) : Bool :=
  decide (s.lossCnt ≠ 0) && decide (s.prevSignalType = SilkCoreTabs.typeVoiced) &&
    decide (f.signalType ≠ SilkCoreTabs.typeVoiced) && decide (k < SilkCoreTabs.maxNbSubfr / 2)

/-- decode_core.c:104-140 for a non-zero gain. -/
def subPrep (s : DecState) (f : FrameIn) (ctrl : Ctrl) (exc : List Int) (k : Nat) (c : CoreSt) (gain : Int) : SubPrep :=
  let fs := s.fsKHz
  -- :116-125
  let gainAdj := if gain ≠ c.prevGainQ16 then div32VarQ c.prevGainQ16 gain 16 else 65536
  -- :132-140
  let trans : Bool := transK s f k
  let ltpCoef := if trans then splice c.ltpCoef (k * 5) [0, 0, SilkCoreTabs.transitionTapQ14, 0, 0] else c.ltpCoef
  { A := if k / 2 = 0 then ctrl.pred0 else ctrl.pred1,
    gain := gain,
    gainQ10 := shrI gain 6,
    invGainQ31 := inverse32VarQ gain 47,
    gainAdj := gainAdj,
    hist := if gain ≠ c.prevGainQ16 then c.hist.map (fun v => smulww gainAdj v) else c.hist,
    ltpCoef := ltpCoef,
    pitchL := if trans then splice c.pitchL k [s.lagPrev] else c.pitchL,
    voiced := trans || decide (f.signalType = SilkCoreTabs.typeVoiced),
    B := (ltpCoef.drop (k * 5)).take 5,
    excK := (exc.drop (k * subfrLen fs)).take (subfrLen fs) }

/-- decode_core.c:147-174: the LTP state `(outBuf, ltpH)` a voiced sub-frame starts from — re-whitened (`k == 0`, or `k == 2` with
    NLSF interpolation), re-scaled when the gain changed, or unchanged. -/
def ltpState (fs : Nat) (ltpScaleQ14 : Int) (interpFlag : Bool) (k : Nat) (lag : Int) (p : SubPrep) (c : CoreSt) :
    Res (List Int × List Int) :=
  if k = 0 ∨ (k = 2 ∧ interpFlag) then
    rewhiten fs k lag p.A (if k = 0 then lshift32 (smulwb p.invGainQ31 ltpScaleQ14) 2 else p.invGainQ31)
      { c with hist := p.hist }
  else if p.gainAdj ≠ 65536 then
    .ok (c.outBuf, (c.ltpH.take (lag + 2).toNat).map (fun v => smulww p.gainAdj v) ++ c.ltpH.drop (lag + 2).toNat)
  else .ok (c.outBuf, c.ltpH)

/-- decode_core.c:142-198 of a voiced sub-frame: `(res_Q14[], outBuf, ltpH, ub)`. -/
def voicedLtp (fs : Nat) (ltpScaleQ14 : Int) (interpFlag : Bool) (k : Nat) (p : SubPrep) (c : CoreSt) :
    Res (List Int × List Int × List Int × Nat) := do
  let lag ← getI p.pitchL k
  let ob ← ltpState fs ltpScaleQ14 interpFlag k lag p c
  -- :178-198
  let r ← ltpSynth p.B lag p.excK ob.2 c.ub
  pure (r.1, ob.1, r.2.1, r.2.2)

/-- decode_core.c:203-237: short-term prediction and gain scaling of the sub-frame's residual; the new carried state. -/
def subFinish (p : SubPrep) (c : CoreSt) (res outBuf ltpH : List Int) (ub : Nat) : CoreSt :=
  let r := lpcSynth p.A p.gainQ10 res p.hist
  { hist := r.2, ltpH := ltpH, outBuf := outBuf, xq := c.xq ++ r.1, prevGainQ16 := p.gain,
    ltpCoef := p.ltpCoef, pitchL := p.pitchL, ub := ub }

/-- One sub-frame `k`. -/
def subframe (s : DecState) (f : FrameIn) (ctrl : Ctrl) (interpFlag : Bool) (exc : List Int) (k : Nat) (c : CoreSt) :
    Res CoreSt := do
  let gain ← getI ctrl.gainsQ16 k
  if gain = 0 then .abort                             -- division by zero in silk_INVERSE32_varQ (Inlines.h:159)
  else
    if (subPrep s f ctrl exc k c gain).voiced then
      let v ← voicedLtp s.fsKHz ctrl.ltpScaleQ14 interpFlag k (subPrep s f ctrl exc k c gain) c
      pure (subFinish (subPrep s f ctrl exc k c gain) c v.1 v.2.1 v.2.2.1 v.2.2.2)
    else
      pure (subFinish (subPrep s f ctrl exc k c gain) c (subPrep s f ctrl exc k c gain).excK c.outBuf c.ltpH c.ub)

/-- Sub-frames `k, k+1, …, k+n-1`. -/
def subframes (s : DecState) (f : FrameIn) (ctrl : Ctrl) (interpFlag : Bool) (exc : List Int) :
    Nat → Nat → CoreSt → Res CoreSt
  | 0, _, c => .ok c
  | n + 1, k, c => do
    let c' ← subframe s f ctrl interpFlag exc k c
    subframes s f ctrl interpFlag exc n (k + 1) c'

/-- Result of `silk_decode_core`. -/
structure CoreOut where
  xq : List Int              -- xq[ frame_length ]
  sLPC : List Int            -- psDec->sLPC_Q14_buf
  outBuf : List Int          -- psDec->outBuf
  excQ14 : List Int          -- psDec->exc_Q14
  prevGainQ16 : Int
  ltpCoef : List Int
  pitchL : List Int
  ub : Nat
  deriving Repr, DecidableEq

/-- `silk_decode_core( psDec, psDecCtrl, xq, pulses, arch )` (decode_core.c:38-243); `interp` is
    `psDec->indices.NLSFInterpCoef_Q2` as left by `silk_decode_parameters`. -/
def decodeCore (s : DecState) (f : FrameIn) (ctrl : Ctrl) (interp : Int) : Res CoreOut := do
  let fs := s.fsKHz
  let L := frameLen fs s.nbSubfr
  let off ← quantOffset f.signalType f.quantOffsetType
  let pulses := f.pulses.take L
  if pulses.length < L then .oob
  else
    let exc := excLoop off f.seed pulses
    let c0 : CoreSt := { hist := s.sLPC.reverse, ltpH := [], outBuf := s.outBuf, xq := [], prevGainQ16 := s.prevGainQ16,
                         ltpCoef := ctrl.ltpCoef, pitchL := ctrl.pitchL, ub := 0 }
    let c ← subframes s f ctrl (decide (interp < 4)) exc s.nbSubfr 0 c0
    pure { xq := c.xq, sLPC := c.hist.reverse, outBuf := c.outBuf, excQ14 := exc ++ s.excQ14.drop L,
           prevGainQ16 := c.prevGainQ16, ltpCoef := c.ltpCoef, pitchL := c.pitchL, ub := c.ub }

end Opus.SilkCore
