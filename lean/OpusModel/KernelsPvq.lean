import OpusModel.Basic
/-
  OpusModel.KernelsPvq — the integer bookkeeping of the PVQ pulse search, `op_pvq_search_c` (celt/vq.c:165-339) and
  `op_pvq_search_sse2` (celt/x86/vq_sse2.c:43-216), with everything floating-point as ORACLES (DESIGN.md §2.1):

    * the pre-search ("projection on the pyramid", vq.c:195-236 / vq_sse2.c:91-136) delivers per-position pulse counts
      `proj` — in C `floor(rcp*X[j])`, in SSE2 `_mm_cvttps_epi32(x4*rcp4)` with the approximate `_mm_rcp_ps`;
    * every greedy iteration (vq.c:253-322 / vq_sse2.c:149-202) delivers the position `best_id` that maximises
      `(xy+X[j])²/(yy+y[j])` resp. `(xy+X[j])·rsqrt(yy+y[j])` — an arbitrary function `pick` of the current state here.

  What is transcribed exactly is what the codec relies on afterwards: how `iy`, `yy` and `pulsesLeft` are updated, the
  "too many pulses left" branch, and the sign restoration.  `yy` is a float in C; every value it takes is an integer
  below 2^24 for the codec's K (≤ 2^12 would suffice), so float addition is exact and it is modelled in ℕ.
  Core Lean only.
-/
namespace Opus.Kernels.Pvq

/-- `l[i] += d` (positions outside the list: no effect). -/
def bump : List Nat → Nat → Nat → List Nat
  | [], _, _ => []
  | v :: l, 0, d => (v + d) :: l
  | v :: l, i + 1, d => v :: bump l i d

def sum : List Nat → Nat
  | [] => 0
  | v :: l => v + sum l

def sumSq : List Nat → Nat
  | [] => 0
  | v :: l => v * v + sumSq l

structure St where
  iy : List Nat       -- pulse counts (unsigned; X has been made non-negative)
  yy : Nat            -- running Σ iy²  (the float `yy`)
  left : Nat          -- pulsesLeft
  deriving DecidableEq, Repr

/-- vq.c:244-251 / vq_sse2.c:139-147: "this should never happen, but just in case" — all remaining pulses go to bin 0:
    `yy += tmp*tmp; yy += tmp*y[0]` (`y[0]` holds 2·iy[0]); `iy[0] += pulsesLeft; pulsesLeft = 0`. -/
def dumpStep (n : Nat) (s : St) : St :=
  if s.left > n + 3 then
    { iy := bump s.iy 0 s.left, yy := s.yy + s.left * s.left + s.left * (2 * s.iy.getD 0 0), left := 0 }
  else s

/-- one greedy iteration once `best_id` is known (vq.c:268,311-321 / vq_sse2.c:157,193-201):
    `yy = yy + 1; … yy = yy + y[best_id]; y[best_id] += 2; iy[best_id]++`. -/
def greedyStep (best : Nat) (s : St) : St :=
  { iy := bump s.iy best 1, yy := s.yy + 1 + 2 * s.iy.getD best 0, left := s.left - 1 }

/-- `for (i = 0; i < pulsesLeft; i++)` with the arg-max as an oracle. -/
def greedy (pick : St → Nat) : Nat → St → St
  | 0, s => s
  | c + 1, s => greedy pick c (greedyStep (pick s) s)

/-- sign restoration: C `iy[j] = (iy[j]^-signx[j]) + signx[j]` (vq.c:334), SSE2 `y4 = (y4 + s4) ^ s4` with the compare
    mask `s4 ∈ {0, -1}` (vq_sse2.c:210).  For a 32-bit value `v ^ -1 = -v - 1`. -/
def xorMask (v : Int) (neg : Bool) : Int := if neg then -v - 1 else v
def signRestoreC (v : Nat) (neg : Bool) : Int := xorMask (v : Int) neg + (if neg then 1 else 0)
def signRestoreSse (v : Nat) (neg : Bool) : Int := xorMask ((v : Int) + (if neg then -1 else 0)) neg

def zipSign (f : Nat → Bool → Int) : List Nat → List Bool → List Int
  | v :: l, b :: bs => f v b :: zipSign f l bs
  | _, _ => []

/-- the search after the sign has been removed: `proj` = pre-search counts (all 0 when `K ≤ N/2`), `signs[j]` = `X[j] < 0`. -/
def search (restore : Nat → Bool → Int) (n K : Nat) (proj : List Nat) (pick : St → Nat) (signs : List Bool) :
    List Int × Nat :=
  let s0 : St := { iy := proj, yy := sumSq proj, left := K - sum proj }
  let s1 := dumpStep n s0
  let s2 := greedy pick s1.left s1
  (zipSign restore s2.iy signs, s2.yy)

def searchC := search signRestoreC
def searchSse2 := search signRestoreSse

def sumAbs : List Int → Nat
  | [] => 0
  | v :: l => v.natAbs + sumAbs l

def sumSqI : List Int → Int
  | [] => 0
  | v :: l => v * v + sumSqI l

end Opus.Kernels.Pvq
