import OpusModel.SilkSynthIdx
/-
  OpusModel.SilkSynthIdxParams — index model of silk_decode_parameters (silk/decode_parameters.c:35-115):
  the side-information arrays it reads, the LTP codebook selected by `PERIndex`, the codebook rows
  selected by `LTPIndex[k]`, the LTP scale table, and the control arrays it fills.  The table reads
  INSIDE silk_gains_dequant / silk_NLSF_decode / silk_NLSF2A / silk_decode_pitch are the subject of
  the C18 dequantiser theorems (`nlsf_decode_ordered` … : no `.oob` outcome); here they appear with
  the extents of their array arguments only.  TRUSTED READING, file:line cited; tied by
  harness/c18_synthidx*.c mode `params`.
-/
namespace Opus.SilkSynthIdx
open Opus Opus.Gen

structure ParamsIn where
  fsKHz : Int
  nbSubfr : Nat
  signalType : Int
  perIndex : Int              -- psDec->indices.PERIndex
  ltpIndex : List Int         -- psDec->indices.LTPIndex[ 0..3 ]
  ltpScaleIndex : Int         -- psDec->indices.LTP_scaleIndex
  interpCoefQ2 : Int          -- psDec->indices.NLSFInterpCoef_Q2
  firstFrameAfterReset : Bool
  lossCnt : Int
  deriving Repr

def ParamsIn.cfg (x : ParamsIn) : Cfg := cfgOf x.fsKHz x.nbSubfr

/-- The codebook `silk_LTP_vq_ptrs_Q7[ PERIndex ]` points at (tables_LTP.c:262-266; the extractor
    checks the pointer table against the three arrays: `SilkSynth.ltpVqPtrsOk = 1`). -/
def ltpVqOf (per : Int) : Option Arr :=
  if per = 0 then some .ltpVq0 else if per = 1 then some .ltpVq1 else if per = 2 then some .ltpVq2 else none

/-- decode_parameters.c:97-102 for sub-frames `k, k+1, …`. -/
def ltpRows (cbk : Arr) (ltpIndex : List Int) : Nat → Nat → List Acc
  | 0, _ => []
  | n + 1, k =>
    let ix := ltpIndex.getD k 0
    rd .ltpIdx k (k + 1) ++ rd cbk (ix * SilkSynth.ltpOrder) (ix * SilkSynth.ltpOrder + SilkSynth.ltpOrder) ++
      wrt .ltpCoef ((k : Int) * SilkSynth.ltpOrder) ((k : Int) * SilkSynth.ltpOrder + SilkSynth.ltpOrder) ++
      ltpRows cbk ltpIndex n (k + 1)

def paramsAccesses (x : ParamsIn) : List Acc :=
  let c := x.cfg
  let nb : Int := c.nbSubfr
  let row1 := SilkSynth.szPredCoefCols
  let interp := if x.firstFrameAfterReset then 4 else x.interpCoefQ2                            -- :59-61
  rd .gainsIdx 0 nb ++ wrt .gains 0 nb ++                                                       -- :46-47 silk_gains_dequant
    rd .nlsfIdx 0 (c.lpcOrder + 1) ++                                                           -- :52 silk_NLSF_decode
    wrt .predCoef row1 (row1 + c.lpcOrder) ++                                                   -- :55 silk_NLSF2A
    (if interp < 4 then rd .prevNlsf 0 c.lpcOrder ++ wrt .predCoef 0 c.lpcOrder                 -- :63-72
     else rd .predCoef row1 (row1 + c.lpcOrder) ++ wrt .predCoef 0 c.lpcOrder) ++               -- :75
    wrt .prevNlsf 0 c.lpcOrder ++                                                               -- :78
    (if x.lossCnt ≠ 0 then
       rd .predCoef 0 c.lpcOrder ++ wrt .predCoef 0 c.lpcOrder ++                               -- :82
         rd .predCoef row1 (row1 + c.lpcOrder) ++ wrt .predCoef row1 (row1 + c.lpcOrder)        -- :83
     else []) ++
    (if x.signalType = SilkSynth.typeVoiced then
       wrt .pitchL 0 nb ++ rd .pitchL 0 nb ++                        -- :92 silk_decode_pitch (decode_pitch.c:72-73 stores, then clamps in place)
         rd .ltpVqPtrs x.perIndex (x.perIndex + 1) ++                                           -- :95
         (match ltpVqOf x.perIndex with
          | some cbk => ltpRows cbk x.ltpIndex c.nbSubfr 0                                      -- :97-102
          | none => []) ++
         rd .ltpScales x.ltpScaleIndex (x.ltpScaleIndex + 1)                                     -- :107-108
     else
       wrt .pitchL 0 nb ++ wrt .ltpCoef 0 (SilkSynth.ltpOrder * nb))                            -- :110-111

end Opus.SilkSynthIdx
