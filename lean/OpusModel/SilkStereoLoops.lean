import OpusModel.SilkStereo
/-
  OpusModel.SilkStereoLoops — the search of silk_stereo_quant_pred written with its two nested `for` loops and the
  `goto done` (stereo_quant_pred.c:47-66), statement for statement.  OpusProofs/SilkStereoLoops.lean proves that it is
  the scan over `visitOrder` used by `OpusModel.SilkStereo.quantOne`.
-/
namespace Opus.SilkStereo
open Opus Opus.SilkParams

/-- The `j` loop (stereo_quant_pred.c:51-64) for table interval `i` over the remaining `j` values.  The flag says
    whether `goto done` was taken; `none` = signed overflow in `pred_Q13[ n ] - lvl_Q13` / `silk_abs`. -/
def innerLoop (pred : Int) (i : Nat) : List Nat → QSt → Option (QSt × Bool)
  | [], st => some (st, false)
  | j :: js, st =>
    let lvl := smlabb (low i) (step i) (2 * (j : Int) + 1)      -- :52 (low_Q13, step_Q13 from :48-50)
    let d := pred - lvl                                          -- :53
    if d < -2147483647 ∨ d > 2147483647 then none
    else
      let err := sabs d
      if err < st.errMin then                                    -- :54
        innerLoop pred i js { errMin := err, q := lvl, i0 := wrap8 i, i1 := wrap8 j }   -- :55-58
      else some (st, true)                                       -- :59-62 goto done

/-- The `i` loop (stereo_quant_pred.c:47-65) over the remaining `i` values. -/
def outerLoop (pred : Int) : List Nat → QSt → Option QSt
  | [], st => some st
  | i :: is, st =>
    match innerLoop pred i (List.range subSteps) st with
    | none => none
    | some (st', true) => some st'
    | some (st', false) => outerLoop pred is st'

/-- One round of the `n` loop with the nested loops (compare `quantOne`). -/
def quantOneLoops (pred qIn a b : Int) : Option QOne :=
  match outerLoop pred (List.range (tabSize - 1)) { errMin := int32Max, q := qIn, i0 := a, i1 := b } with
  | none => none
  | some st =>
    let ix2 := wrap8 (Int.tdiv st.i0 3)
    some { q := st.q, ix0 := wrap8 (st.i0 - ix2 * 3), ix1 := st.i1, ix2 := ix2 }

end Opus.SilkStereo
