/-
  OpusModel.Basic — shared vocabulary of the executable models.

  * `Bytes`  : a packet / buffer as a list of naturals, each `< 256`
               (side predicate `BytesOk`).
  * `Err`    : the public error codes of include/opus_defines.h.
  * `Res α`  : result of a modelled API call.  Besides the C return values it has
               the extra outcome `oob`, produced whenever the model would have to
               read a byte the caller did not supply.  C code that does so has
               undefined behaviour; theorems of the form `f x ≠ .oob` are the
               model-level statement of "reads only the packet".
  Core Lean only (no Mathlib) so that the driver links as a `lean_exe`.
-/
namespace Opus

abbrev Bytes := List Nat

def BytesOk (bs : Bytes) : Prop := ∀ b ∈ bs, b < 256

instance (bs : Bytes) : Decidable (BytesOk bs) := by unfold BytesOk; infer_instance

/-- Public error codes (include/opus_defines.h:46-60). -/
inductive Err where
  | badArg           -- OPUS_BAD_ARG          -1
  | bufferTooSmall   -- OPUS_BUFFER_TOO_SMALL -2
  | internalError    -- OPUS_INTERNAL_ERROR   -3
  | invalidPacket    -- OPUS_INVALID_PACKET   -4
  | unimplemented    -- OPUS_UNIMPLEMENTED    -5
  | invalidState     -- OPUS_INVALID_STATE    -6
  | allocFail        -- OPUS_ALLOC_FAIL       -7
  deriving DecidableEq, Repr, Inhabited

def Err.code : Err → Int
  | .badArg => -1 | .bufferTooSmall => -2 | .internalError => -3
  | .invalidPacket => -4 | .unimplemented => -5 | .invalidState => -6
  | .allocFail => -7

def Err.name : Err → String
  | .badArg => "BAD_ARG" | .bufferTooSmall => "BUFFER_TOO_SMALL"
  | .internalError => "INTERNAL_ERROR" | .invalidPacket => "INVALID_PACKET"
  | .unimplemented => "UNIMPLEMENTED" | .invalidState => "INVALID_STATE"
  | .allocFail => "ALLOC_FAIL"

inductive Res (α : Type) where
  | ok  : α → Res α
  | err : Err → Res α
  | oob : Res α          -- the model was asked to read outside the supplied bytes
  | abort : Res α        -- a hardening assertion (celt_assert → abort) fires
  deriving Repr

instance [DecidableEq α] : DecidableEq (Res α) := by
  intro a b; cases a <;> cases b <;> first
    | (apply isFalse; intro h; cases h; done)
    | (apply isTrue; rfl; done)
    | (rename_i x y; exact if h : x = y then isTrue (by rw [h]) else isFalse (by intro h'; cases h'; exact h rfl))

def Res.bind {α β} (r : Res α) (f : α → Res β) : Res β :=
  match r with
  | .ok a => f a
  | .err e => .err e
  | .oob => .oob
  | .abort => .abort

instance : Monad Res where
  pure := .ok
  bind := Res.bind

@[simp] theorem Res.bind_ok {α β} (a : α) (f : α → Res β) : (Res.ok a >>= f) = f a := rfl
@[simp] theorem Res.bind_err {α β} (e : Err) (f : α → Res β) : (Res.err e >>= f) = .err e := rfl
@[simp] theorem Res.bind_oob {α β} (f : α → Res β) : ((Res.oob : Res α) >>= f) = .oob := rfl
@[simp] theorem Res.bind_abort {α β} (f : α → Res β) : ((Res.abort : Res α) >>= f) = .abort := rfl
@[simp] theorem Res.pure_eq {α} (a : α) : (pure a : Res α) = .ok a := rfl

def Res.isOk {α} : Res α → Bool
  | .ok _ => true
  | _ => false

/-- C `>>` on a non-negative value. -/
@[inline] def shr (x n : Nat) : Nat := x / 2 ^ n

/-- Sum of a list of naturals. -/
def sumN : List Nat → Nat
  | [] => 0
  | x :: xs => x + sumN xs

@[simp] theorem sumN_nil : sumN [] = 0 := rfl
@[simp] theorem sumN_cons (x : Nat) (xs : List Nat) : sumN (x :: xs) = x + sumN xs := rfl
theorem sumN_append (xs ys : List Nat) : sumN (xs ++ ys) = sumN xs + sumN ys := by
  induction xs with
  | nil => simp
  | cons x xs ih => simp [ih, Nat.add_assoc]

end Opus
