import OpusModel.Basic
import OpusModel.EncDecide
/-
  OpusModel.Ctl — the `*_ctl` requests of the encoder, decoder, multistream and projection
  objects as state machines, and create/init argument validation (property C11).

  C sources:
    src/opus_encoder.c:202-297   opus_encoder_init          → `encInit`
    src/opus_encoder.c:589-617   opus_encoder_create        → `encCreate`
    src/opus_encoder.c:2624-3175 opus_encoder_ctl           → `encSet`, `encGetVal`, `encReset`, `encCtl`
    celt/celt_encoder.c:2656-2854 opus_custom_encoder_ctl   (the requests the Opus layer forwards:
                                  COMPLEXITY, PACKET_LOSS_PERC, PHASE_INVERSION_DISABLED, LFE,
                                  ENERGY_MASK, RESET_STATE) → the `celt*` fields of `EncSt`
    src/opus_decoder.c:130-204   opus_decoder_init/create   → `decInit`, `decCreate`
    src/opus_decoder.c:973-1142  opus_decoder_ctl           → `decCtl`
    celt/celt_decoder.c:1470-1616 opus_custom_decoder_ctl   → the `celt*` fields of `DecSt`
    src/opus_multistream_encoder.c:429-666, 1109-1306       → `msEncInit`, `msEncCreate`,
                                  `msSurroundCreate`, `msEncCtl`
    src/opus_multistream_decoder.c:66-150, 430-548          → `msDecCreate`, `msDecCtl`
    src/opus_multistream.c:41-96  validate_layout, get_*_channel
    src/opus_projection_encoder.c:90-130, 156-398, 434-520  → `projEncCreate`, `projEncCtl`
    src/opus_projection_decoder.c:267-277                   → projection decoder ctl = `msDecCtl`

  A request is a typed value (`set k v`, `get k nonNull`, …): the C varargs protocol makes a
  request number with the wrong argument type undefined behaviour, so ill-typed calls are not
  representable.  `unknown id` stands for any request number outside the `switch`.
  Getters write through the pointer only on success; `Ret.val` is the value written.
-/
namespace Opus.Ctl
open Opus Opus.EncDecide

/-- Result of a ctl call: the return code and the value stored through the result pointer. -/
structure Ret where
  code : Int
  val : Option Int
  deriving DecidableEq, Repr

def Ret.ok : Ret := ⟨0, none⟩
def Ret.okv (v : Int) : Ret := ⟨0, some v⟩
def Ret.err (e : Err) : Ret := ⟨e.code, none⟩

/-! ## Encoder -/

/-- Every `OpusEncoder` / `silk_mode` / CELT-encoder field a ctl reads or writes. -/
structure EncSt extends DSt where
  useDtx : Int
  complexity : Int              -- silk_mode.complexity
  fecConfig : Int
  useInBandFEC : Int            -- silk_mode.useInBandFEC
  packetLoss : Int              -- silk_mode.packetLossPercentage
  useCBR : Int                  -- silk_mode.useCBR
  voiceRatio : Int
  vbrConstraint : Int
  signalType : Int
  lsbDepth : Int
  variableDuration : Int
  reducedDependency : Int       -- silk_mode.reducedDependency
  maxInternalSampleRate : Int   -- silk_mode.maxInternalSampleRate
  delayCompensation : Int
  celtComplexity : Int          -- CELTEncoder.complexity
  celtLossRate : Int            -- CELTEncoder.loss_rate
  celtDisableInv : Int          -- CELTEncoder.disable_inv
  celtLfe : Int                 -- CELTEncoder.lfe
  celtEnergyMask : Bool         -- CELTEncoder.energy_mask != NULL
  energyMasking : Bool          -- OpusEncoder.energy_masking != NULL
  rangeFinal : Nat
  silkUseDTX : Int              -- silk_mode.useDTX (written by encode only)
  silkInDtx : Int               -- what :3123-3127 compute from the SILK state
  noActivityQ1 : Int            -- nb_no_activity_ms_Q1
  deriving DecidableEq, Repr

def validFs (fs : Int) : Bool := fs = 48000 || fs = 24000 || fs = 16000 || fs = 12000 || fs = 8000
def validApp (a : Int) : Bool := a = APP_VOIP || a = APP_AUDIO || a = APP_RESTRICTED_LOWDELAY

/-- `opus_encoder_init` after the argument check (opus_encoder.c:214-296). -/
def encInit (fs channels application : Int) : EncSt :=
  { fs, channels, application,
    userBitrate := OPUS_AUTO, useVbr := 1, forceChannels := OPUS_AUTO, maxBandwidth := BW_FB,
    userBandwidth := OPUS_AUTO, userForcedMode := OPUS_AUTO, lfe := 0,
    streamChannels := channels, mode := MODE_HYBRID, prevMode := 0, prevChannels := 0,
    prevFramesize := 0, bandwidth := BW_FB, first := true, toMono := 0,
    useDtx := 0, complexity := 9, fecConfig := 0, useInBandFEC := 0, packetLoss := 0, useCBR := 0,
    voiceRatio := -1, vbrConstraint := 1, signalType := OPUS_AUTO, lsbDepth := 24,
    variableDuration := FRAMESIZE_ARG, reducedDependency := 0, maxInternalSampleRate := 16000,
    delayCompensation := fs / 250,
    celtComplexity := 9, celtLossRate := 0, celtDisableInv := 0, celtLfe := 0, celtEnergyMask := false,
    energyMasking := false, rangeFinal := 0, silkUseDTX := 0, silkInDtx := 0, noActivityQ1 := 0 }

/-- Argument check shared by `opus_encoder_init` (:209-212) and `opus_encoder_create` (:593-600). -/
def encArgsOk (fs channels application : Int) : Bool :=
  validFs fs && (channels = 1 || channels = 2) && validApp application

/-- `opus_encoder_create` with `allocOk` = whether `opus_alloc` returned non-NULL (:589-617). -/
def encCreate (fs channels application : Int) (allocOk : Bool := true) : Res EncSt :=
  if !encArgsOk fs channels application then .err .badArg
  else if !allocOk then .err .allocFail
  else .ok (encInit fs channels application)

inductive EncSetK
  | application | bitrate | forceChannels | maxBandwidth | bandwidth | dtx | complexity | inbandFec
  | packetLossPerc | vbr | voiceRatio | vbrConstraint | signal | lsbDepth | expertFrameDuration
  | predictionDisabled | phaseInversionDisabled | forceMode | lfe
  deriving DecidableEq, Repr

inductive EncGetK
  | application | bitrate | forceChannels | maxBandwidth | bandwidth | dtx | complexity | inbandFec
  | packetLossPerc | vbr | voiceRatio | vbrConstraint | signal | lookahead | sampleRate | finalRange
  | lsbDepth | expertFrameDuration | predictionDisabled | phaseInversionDisabled | inDtx
  deriving DecidableEq, Repr

/-- Request numbers (include/opus_defines.h:130-175, src/opus_private.h:151-172, celt/celt.h:132). -/
def EncSetK.id : EncSetK → Int
  | .application => 4000 | .bitrate => 4002 | .maxBandwidth => 4004 | .vbr => 4006
  | .bandwidth => 4008 | .complexity => 4010 | .inbandFec => 4012 | .packetLossPerc => 4014
  | .dtx => 4016 | .vbrConstraint => 4020 | .forceChannels => 4022 | .signal => 4024
  | .lsbDepth => 4036 | .expertFrameDuration => 4040 | .predictionDisabled => 4042
  | .phaseInversionDisabled => 4046 | .voiceRatio => 11018 | .forceMode => 11002 | .lfe => 10024

def EncGetK.id : EncGetK → Int
  | .application => 4001 | .bitrate => 4003 | .maxBandwidth => 4005 | .vbr => 4007
  | .bandwidth => 4009 | .complexity => 4011 | .inbandFec => 4013 | .packetLossPerc => 4015
  | .dtx => 4017 | .vbrConstraint => 4021 | .forceChannels => 4023 | .signal => 4025
  | .lookahead => 4027 | .sampleRate => 4029 | .finalRange => 4031 | .lsbDepth => 4037
  | .expertFrameDuration => 4041 | .predictionDisabled => 4043 | .phaseInversionDisabled => 4047
  | .inDtx => 4049 | .voiceRatio => 11019

def EncSetK.all : List EncSetK :=
  [.application, .bitrate, .forceChannels, .maxBandwidth, .bandwidth, .dtx, .complexity, .inbandFec,
   .packetLossPerc, .vbr, .voiceRatio, .vbrConstraint, .signal, .lsbDepth, .expertFrameDuration,
   .predictionDisabled, .phaseInversionDisabled, .forceMode, .lfe]

def EncGetK.all : List EncGetK :=
  [.application, .bitrate, .forceChannels, .maxBandwidth, .bandwidth, .dtx, .complexity, .inbandFec,
   .packetLossPerc, .vbr, .voiceRatio, .vbrConstraint, .signal, .lookahead, .sampleRate, .finalRange,
   .lsbDepth, .expertFrameDuration, .predictionDisabled, .phaseInversionDisabled, .inDtx]

def OPUS_RESET_STATE : Int := 4028
def OPUS_SET_ENERGY_MASK_REQUEST : Int := 10026
def CELT_GET_MODE_REQUEST : Int := 10015

inductive EncReq
  | set (k : EncSetK) (v : Int)
  | get (k : EncGetK) (nonNull : Bool)
  | resetState
  | setEnergyMask (nonNull : Bool)      -- OPUS_SET_ENERGY_MASK(ptr): the pointer is stored
  | celtGetMode (nonNull : Bool)        -- CELT_GET_MODE(ptr)
  | unknown (id : Int)                  -- any request number outside the switch
  deriving DecidableEq, Repr

/-- `silk_mode.maxInternalSampleRate` as set by SET_MAX_BANDWIDTH / SET_BANDWIDTH (:2716-2722, :2743-2749). -/
def maxIntRate (bw : Int) : Int :=
  if bw = BW_NB then 8000 else if bw = BW_MB then 12000 else 16000

def validFrameDuration (v : Int) : Bool := decide (5000 ≤ v ∧ v ≤ 5009)

/-- The `OPUS_SET_*` cases of `opus_encoder_ctl`; `none` = the request is refused with OPUS_BAD_ARG. -/
def encSet (s : EncSt) : EncSetK → Int → Option EncSt
  | .application, v =>              -- :2637-2652
    if (v ≠ APP_VOIP ∧ v ≠ APP_AUDIO ∧ v ≠ APP_RESTRICTED_LOWDELAY) ∨ (s.first = false ∧ s.application ≠ v)
    then none else some { s with application := v }
  | .bitrate, v =>                  -- :2663-2677
    if v ≠ OPUS_AUTO ∧ v ≠ OPUS_BITRATE_MAX then
      if v ≤ 0 then none
      else if v ≤ 500 then some { s with userBitrate := 500 }
      else if v > 300000 * s.channels then some { s with userBitrate := 300000 * s.channels }
      else some { s with userBitrate := v }
    else some { s with userBitrate := v }
  | .forceChannels, v =>            -- :2688-2697
    if (v < 1 ∨ v > s.channels) ∧ v ≠ OPUS_AUTO then none else some { s with forceChannels := v }
  | .maxBandwidth, v =>             -- :2708-2724
    if v < BW_NB ∨ v > BW_FB then none
    else some { s with maxBandwidth := v, maxInternalSampleRate := maxIntRate v }
  | .bandwidth, v =>                -- :2735-2751
    if (v < BW_NB ∨ v > BW_FB) ∧ v ≠ OPUS_AUTO then none
    else some { s with userBandwidth := v, maxInternalSampleRate := maxIntRate v }
  | .dtx, v => if v < 0 ∨ v > 1 then none else some { s with useDtx := v }                 -- :2762
  | .complexity, v =>               -- :2782-2792 (forwarded to CELT, same range there)
    if v < 0 ∨ v > 10 then none else some { s with complexity := v, celtComplexity := v }
  | .inbandFec, v =>                -- :2803-2813
    if v < 0 ∨ v > 2 then none else some { s with fecConfig := v, useInBandFEC := if v ≠ 0 then 1 else 0 }
  | .packetLossPerc, v =>           -- :2824-2834
    if v < 0 ∨ v > 100 then none else some { s with packetLoss := v, celtLossRate := v }
  | .vbr, v =>                      -- :2845-2855
    if v < 0 ∨ v > 1 then none else some { s with useVbr := v, useCBR := 1 - v }
  | .voiceRatio, v => if v < -1 ∨ v > 100 then none else some { s with voiceRatio := v }   -- :2866
  | .vbrConstraint, v => if v < 0 ∨ v > 1 then none else some { s with vbrConstraint := v } -- :2886
  | .signal, v =>                   -- :2906-2915
    if v ≠ OPUS_AUTO ∧ v ≠ 3001 ∧ v ≠ 3002 then none else some { s with signalType := v }
  | .lsbDepth, v => if v < 8 ∨ v > 24 then none else some { s with lsbDepth := v }          -- :2958
  | .expertFrameDuration, v =>      -- :2978-2991
    if validFrameDuration v then some { s with variableDuration := v } else none
  | .predictionDisabled, v =>       -- :3002-3009
    if v > 1 ∨ v < 0 then none else some { s with reducedDependency := v }
  | .phaseInversionDisabled, v =>   -- :3018-3027 → celt_encoder.c:2747-2756
    if v < 0 ∨ v > 1 then none else some { s with celtDisableInv := v }
  | .forceMode, v =>                -- :3089-3098
    if (v < MODE_SILK_ONLY ∨ v > MODE_CELT_ONLY) ∧ v ≠ OPUS_AUTO then none
    else some { s with userForcedMode := v }
  | .lfe, v => some { s with lfe := v, celtLfe := v }                                      -- :3099-3105

/-- OPUS_GET_IN_DTX (:3113-3139); NB_SPEECH_FRAMES_BEFORE_DTX*20*2 = 400. -/
def encInDtx (s : EncSt) : Int :=
  if s.silkUseDTX ≠ 0 ∧ (s.prevMode = MODE_SILK_ONLY ∨ s.prevMode = MODE_HYBRID) then s.silkInDtx
  else if s.useDtx ≠ 0 then (if s.noActivityQ1 ≥ 400 then 1 else 0)
  else 0

/-- The value each `OPUS_GET_*` case stores. -/
def encGetVal (s : EncSt) : EncGetK → Int
  | .application => s.application
  | .bitrate => userBitrateToBitrate s.toDSt s.prevFramesize 1276      -- :2685
  | .forceChannels => s.forceChannels
  | .maxBandwidth => s.maxBandwidth
  | .bandwidth => s.bandwidth                                          -- :2759: the running bandwidth
  | .dtx => s.useDtx
  | .complexity => s.complexity
  | .inbandFec => s.fecConfig
  | .packetLossPerc => s.packetLoss
  | .vbr => s.useVbr
  | .voiceRatio => s.voiceRatio
  | .vbrConstraint => s.vbrConstraint
  | .signal => s.signalType
  | .lookahead =>                                                      -- :2933-2935
    s.fs / 400 + (if s.application ≠ APP_RESTRICTED_LOWDELAY then s.delayCompensation else 0)
  | .sampleRate => s.fs
  | .finalRange => s.rangeFinal
  | .lsbDepth => s.lsbDepth
  | .expertFrameDuration => s.variableDuration
  | .predictionDisabled => s.reducedDependency
  | .phaseInversionDisabled => s.celtDisableInv
  | .inDtx => encInDtx s

/-- OPUS_RESET_STATE: clears everything from `stream_channels` on, resets the CELT state from
    `rng` on (which includes CELT's `energy_mask`) and re-inits SILK; since 14e3a558 also
    `voice_ratio = -1` (and SILK's LBRR_coded / allowBandwidthSwitch / inWBmodeWithoutVariableLP,
    CELT's prediction, which this state does not carry).  All settings and the rest of `silk_mode`
    (incl. `toMono`, `useDTX`) survive. -/
def encReset (s : EncSt) : EncSt :=
  { s with streamChannels := s.channels, mode := MODE_HYBRID, prevMode := 0, prevChannels := 0,
           prevFramesize := 0, bandwidth := BW_FB, first := true, voiceRatio := -1,
           energyMasking := false, celtEnergyMask := false, rangeFinal := 0,
           silkInDtx := 0, noActivityQ1 := 0 }

/-- `opus_encoder_ctl` (opus_encoder.c:2624-3175). -/
def encCtl (s : EncSt) : EncReq → EncSt × Ret
  | .set k v => match encSet s k v with
    | some s' => (s', .ok)
    | none => (s, .err .badArg)
  | .get k nonNull => if nonNull then (s, .okv (encGetVal s k)) else (s, .err .badArg)
  | .resetState => (encReset s, .ok)
  | .setEnergyMask p => ({ s with energyMasking := p, celtEnergyMask := p }, .ok)   -- :3106-3112
  | .celtGetMode nonNull => if nonNull then (s, .ok) else (s, .err .badArg)          -- :3155-3164
  | .unknown _ => (s, .err .unimplemented)

/-- What an `opus_encode` call leaves in the fields a later ctl can see; the values come from
    the implementation (the DSP is not modelled here), the model only adopts them. -/
structure EncObs where
  first : Bool
  bandwidth : Int
  prevFramesize : Int
  rangeFinal : Nat
  voiceRatio : Int
  forceChannels : Int
  maxInternalSampleRate : Int
  useCBR : Int
  silkUseDTX : Int
  prevMode : Int
  silkInDtx : Int
  noActivityQ1 : Int
  streamChannels : Int
  mode : Int
  prevChannels : Int
  toMono : Int
  celtEnergyMask : Bool         -- a mode switch resets the CELT state, which drops CELT's energy_mask
  deriving DecidableEq, Repr

def encAdopt (s : EncSt) (o : EncObs) : EncSt :=
  { s with first := o.first, bandwidth := o.bandwidth, prevFramesize := o.prevFramesize,
           rangeFinal := o.rangeFinal, voiceRatio := o.voiceRatio, forceChannels := o.forceChannels,
           maxInternalSampleRate := o.maxInternalSampleRate, useCBR := o.useCBR,
           silkUseDTX := o.silkUseDTX, prevMode := o.prevMode, silkInDtx := o.silkInDtx,
           noActivityQ1 := o.noActivityQ1, streamChannels := o.streamChannels, mode := o.mode,
           prevChannels := o.prevChannels, toMono := o.toMono,
           celtEnergyMask := o.celtEnergyMask }

def encObserve (s : EncSt) : EncObs :=
  { first := s.first, bandwidth := s.bandwidth, prevFramesize := s.prevFramesize,
    rangeFinal := s.rangeFinal, voiceRatio := s.voiceRatio, forceChannels := s.forceChannels,
    maxInternalSampleRate := s.maxInternalSampleRate, useCBR := s.useCBR,
    silkUseDTX := s.silkUseDTX, prevMode := s.prevMode, silkInDtx := s.silkInDtx,
    noActivityQ1 := s.noActivityQ1, streamChannels := s.streamChannels, mode := s.mode,
    prevChannels := s.prevChannels, toMono := s.toMono,
    celtEnergyMask := s.celtEnergyMask }

/-- Settings for which the chain :1355-1613 needs no DSP input: channels, mode and bandwidth
    are forced (or the encoder is mono / low-delay) and decide_fec is a no-op. -/
def encForced (s : EncSt) : Bool :=
  (s.channels = 1 || s.forceChannels ≠ OPUS_AUTO) &&
  (s.application = APP_RESTRICTED_LOWDELAY || s.userForcedMode ≠ OPUS_AUTO || s.lfe ≠ 0) &&
  (s.userBandwidth ≠ OPUS_AUTO) &&
  (s.useInBandFEC = 0 || s.packetLoss = 0)

/-- Oracle used for forced settings (every field is irrelevant there). -/
def nullOracle : Oracle :=
  { autoChannels := 1, autoMode := MODE_CELT_ONLY, allowBwSwitch := false, autoBandwidth := BW_FB,
    detected := 0, fecBandwidth := 0, silkBandwidth := 0, completion := 1 }

/-- Every value the DSP-dependent inputs of one encode call can take, as far as the state left
    behind is concerned (`detected` only lowers the bandwidth, which `fecBandwidth` can do alone;
    `silkBandwidth` only enters the TOC). -/
def oracleGrid : List Oracle :=
  [1, 2].flatMap fun ac => [MODE_SILK_ONLY, MODE_CELT_ONLY].flatMap fun am => [false, true].flatMap fun ab =>
  [BW_NB, BW_MB, BW_WB, BW_SWB, BW_FB].flatMap fun abw => [0, BW_NB, BW_MB, BW_WB, BW_SWB, BW_FB].flatMap fun fec =>
  [0, 1, 2].map fun comp =>
    { autoChannels := ac, autoMode := am, allowBwSwitch := ab, autoBandwidth := abw, detected := 0,
      fecBandwidth := fec, silkBandwidth := 0, completion := comp }

/-- Some value of the DSP-dependent inputs makes `EncDecide.step` leave exactly the observed
    decision state (mode, bandwidth, channels, toMono, prev_*, first, force_channels). -/
def stepMatches (s : EncSt) (fsel outDataBytes : Int) (o : EncObs) : Bool :=
  oracleGrid.any fun orc =>
    let d := (step s.toDSt orc fsel outDataBytes).1
    d.streamChannels == o.streamChannels && d.mode == o.mode && d.bandwidth == o.bandwidth && d.toMono == o.toMono &&
    d.prevMode == o.prevMode && d.prevChannels == o.prevChannels && d.prevFramesize == o.prevFramesize &&
    d.first == o.first && d.forceChannels == o.forceChannels

/-- Range part of the encode contract: whatever path an `opus_encode` call takes after the entry
    checks, the fields a later ctl can see stay inside these ranges (they are the ranges the
    invariant `CtlInv`/`DInv` of OpusProofs needs).  `none` = all hold. -/
def obsRange (s : EncSt) (o : EncObs) : Option String :=
  -- an encode call never writes a user setting (force_channels was the one exception before fix 34e4f763)
  if o.forceChannels ≠ s.forceChannels then some "force_channels"
  else if o.voiceRatio < -1 ∨ o.voiceRatio > 100 then some "voice_ratio"
  else if o.bandwidth < BW_NB ∨ o.bandwidth > BW_FB then some "bandwidth"
  else if o.mode < MODE_SILK_ONLY ∨ o.mode > MODE_CELT_ONLY then some "mode"
  else if o.prevMode ≠ 0 ∧ (o.prevMode < MODE_SILK_ONLY ∨ o.prevMode > MODE_CELT_ONLY) then some "prev_mode"
  else if o.streamChannels < 1 ∨ o.streamChannels > s.channels then some "stream_channels"
  else if o.prevChannels < 0 ∨ o.prevChannels > s.channels then some "prev_channels"
  else if o.toMono ≠ 0 ∧ o.toMono ≠ 1 then some "toMono"
  else if o.first ∧ !s.first then some "first"
  else if o.first ∧ o.prevMode ≠ 0 then some "first-prev_mode"
  else if s.application = APP_RESTRICTED_LOWDELAY ∧ o.prevMode ≠ 0 ∧ o.prevMode ≠ MODE_CELT_ONLY then some "lowdelay-prev_mode"
  else if o.maxInternalSampleRate ≠ 8000 ∧ o.maxInternalSampleRate ≠ 12000 ∧ o.maxInternalSampleRate ≠ 16000
    then some "maxInternalSampleRate"
  else if o.useCBR ≠ 0 ∧ o.useCBR ≠ 1 then some "useCBR"
  else if o.celtEnergyMask ∧ !s.celtEnergyMask then some "celt_energy_mask"
  else none

/-- Monitored contract of an `opus_encode(st, pcm, frame_size, data, out_data_bytes)` call that
    returned `ret` (`fmt`: 0 = opus_encode, 1 = opus_encode24, 2 = opus_encode_float), given the fields observed
    afterwards.  `none` = consistent with the model. -/
def encodeContract (s : EncSt) (frameSize outDataBytes ret : Int) (o : EncObs) (fmt : Nat := 0) : Option String :=
  let fsel := frameSizeSelect frameSize s.variableDuration s.fs
  if fsel ≤ 0 then
    -- opus_encode / opus_encode24 (fmt 0 / 1) return OPUS_BAD_ARG before touching the state; opus_encode_float
    -- (fmt 2, float build) hands the -1 to opus_encode_native, which clears rangeFinal before it refuses (:1156-1161)
    if ret ≠ -1 then some "ret"
    else if o ≠ (if fmt = 2 then { encObserve s with rangeFinal := 0 } else encObserve s) then some "state-changed" else none
  else match entryError s.toDSt fsel outDataBytes with
  | some e =>
    if ret ≠ e.code then some "ret"
    else if o ≠ { encObserve s with rangeFinal := 0 } then some "state-changed" else none
  | none =>
    match obsRange s o with
    | some why => some why
    | none =>
    if ret < 0 then none                       -- BUFFER_TOO_SMALL / INTERNAL_ERROR: DSP dependent
    else if lowBudget s.toDSt fsel outDataBytes then
      -- :1267-1333 returns before any update except bitrate_bps / voice_ratio / rangeFinal
      if o ≠ { encObserve s with rangeFinal := 0, voiceRatio := o.voiceRatio } then some "lowbudget-state"
      else none
    else
      if encForced s then
        let d := chain s.toDSt nullOracle fsel (budget s.toDSt fsel outDataBytes).maxDataBytes
        if o.mode ≠ d.mode then some s!"chain-mode {d.mode}"
        else if o.bandwidth ≠ d.bandwidth then some s!"chain-bandwidth {d.bandwidth}"
        else if o.streamChannels ≠ d.streamChannels then some s!"chain-channels {d.streamChannels}"
        else if o.toMono ≠ d.toMono then some s!"chain-toMono {d.toMono}"
        else if !stepMatches s fsel outDataBytes o then some "no-oracle"
        else none
      -- in general: the state left behind is what `step` computes for SOME value of the DSP inputs
      else if !stepMatches s fsel outDataBytes o then some "no-oracle"
      else none

/-! ## Decoder -/

structure DecSt where
  fs : Int
  channels : Int
  decodeGain : Int
  complexity : Int
  celtComplexity : Int          -- CELTDecoder.complexity
  celtDisableInv : Int          -- CELTDecoder.disable_inv
  silkPitch : Int               -- DecControl.prevPitchLag (outside the cleared region; reset sets it to 0)
  -- reset region
  bandwidth : Int
  prevMode : Int
  lastPacketDuration : Int
  rangeFinal : Nat
  celtPitch : Int               -- CELTDecoder.postfilter_period
  deriving DecidableEq, Repr

def decArgsOk (fs channels : Int) : Bool := validFs fs && (channels = 1 || channels = 2)

/-- `opus_decoder_init` (opus_decoder.c:140-174); CELT's `disable_inv = channels == 1`
    (celt_decoder.c opus_custom_decoder_init, DISABLE_UPDATE_DRAFT not defined). -/
def decInit (fs channels : Int) : DecSt :=
  { fs, channels, decodeGain := 0, complexity := 0, celtComplexity := 0,
    celtDisableInv := if channels = 1 then 1 else 0, silkPitch := 0,
    bandwidth := 0, prevMode := 0, lastPacketDuration := 0, rangeFinal := 0, celtPitch := 0 }

def decCreate (fs channels : Int) (allocOk : Bool := true) : Res DecSt :=
  if !decArgsOk fs channels then .err .badArg
  else if !allocOk then .err .allocFail
  else .ok (decInit fs channels)

inductive DecSetK | complexity | gain | phaseInversionDisabled
  deriving DecidableEq, Repr
inductive DecGetK
  | bandwidth | complexity | finalRange | sampleRate | pitch | gain | lastPacketDuration
  | phaseInversionDisabled
  deriving DecidableEq, Repr

def DecSetK.id : DecSetK → Int
  | .complexity => 4010 | .gain => 4034 | .phaseInversionDisabled => 4046
def DecGetK.id : DecGetK → Int
  | .bandwidth => 4009 | .complexity => 4011 | .finalRange => 4031 | .sampleRate => 4029
  | .pitch => 4033 | .gain => 4045 | .lastPacketDuration => 4039 | .phaseInversionDisabled => 4047
def DecSetK.all : List DecSetK := [.complexity, .gain, .phaseInversionDisabled]
def DecGetK.all : List DecGetK :=
  [.bandwidth, .complexity, .finalRange, .sampleRate, .pitch, .gain, .lastPacketDuration,
   .phaseInversionDisabled]

inductive DecReq
  | set (k : DecSetK) (v : Int)
  | get (k : DecGetK) (nonNull : Bool)
  | resetState
  | unknown (id : Int)
  deriving DecidableEq, Repr

def decSet (s : DecSt) : DecSetK → Int → Option DecSt
  | .complexity, v =>               -- opus_decoder.c:998-1008
    if v < 0 ∨ v > 10 then none else some { s with complexity := v, celtComplexity := v }
  | .gain, v =>                     -- :1077-1086
    if v < -32768 ∨ v > 32767 then none else some { s with decodeGain := v }
  | .phaseInversionDisabled, v =>   -- :1097-1106
    if v < 0 ∨ v > 1 then none else some { s with celtDisableInv := v }

def decGetVal (s : DecSt) : DecGetK → Int
  | .bandwidth => s.bandwidth
  | .complexity => s.complexity
  | .finalRange => s.rangeFinal
  | .sampleRate => s.fs
  | .pitch => if s.prevMode = MODE_CELT_ONLY then s.celtPitch else s.silkPitch   -- :1054-1066
  | .gain => s.decodeGain
  | .lastPacketDuration => s.lastPacketDuration
  | .phaseInversionDisabled => s.celtDisableInv

/-- OPUS_RESET_STATE (opus_decoder.c:1029-1048; since 14e3a558 also `DecControl.prevPitchLag = 0`,
    so OPUS_GET_PITCH is 0 after a reset). -/
def decReset (s : DecSt) : DecSt :=
  { s with bandwidth := 0, prevMode := 0, lastPacketDuration := 0, rangeFinal := 0, celtPitch := 0, silkPitch := 0 }

/-- `opus_decoder_ctl` (opus_decoder.c:973-1142). -/
def decCtl (s : DecSt) : DecReq → DecSt × Ret
  | .set k v => match decSet s k v with
    | some s' => (s', .ok)
    | none => (s, .err .badArg)
  | .get k nonNull => if nonNull then (s, .okv (decGetVal s k)) else (s, .err .badArg)
  | .resetState => (decReset s, .ok)
  | .unknown _ => (s, .err .unimplemented)

/-- Fields a decode call leaves for later ctls (adopted from the implementation). -/
structure DecObs where
  bandwidth : Int
  prevMode : Int
  lastPacketDuration : Int
  rangeFinal : Nat
  celtPitch : Int
  silkPitch : Int
  deriving DecidableEq, Repr

def decAdopt (s : DecSt) (o : DecObs) : DecSt :=
  { s with bandwidth := o.bandwidth, prevMode := o.prevMode, lastPacketDuration := o.lastPacketDuration,
           rangeFinal := o.rangeFinal, celtPitch := o.celtPitch, silkPitch := o.silkPitch }

/-! ## Fan-out used by the multistream objects -/

/-- `for (s…) { ret = ctl(stream); if (ret != OPUS_OK) break; }`
    (opus_multistream_encoder.c:1223-1235, :1285-1296; _decoder.c:482-494, :526-538). -/
def fanOut {α} (f : α → α × Ret) : List α → List α × Ret
  | [] => ([], .ok)
  | e :: es =>
    let (e', r) := f e
    if r.code ≠ 0 then (e' :: es, r)
    else
      let (es', r') := fanOut f es
      (e' :: es', r')

/-- The fan-out of OPUS_SET_APPLICATION with roll-back (opus_multistream_encoder.c:1238-1258, fix
    9ffbe457): when a stream refuses, the streams changed before it are set back to the
    application they had (`prev_app`). -/
def fanOutApp (v : Int) : List EncSt → List EncSt × Ret
  | [] => ([], .ok)
  | e :: es =>
    let (e', r) := encCtl e (.set .application v)
    if r.code ≠ 0 then (e' :: es, r)
    else
      let (es', r') := fanOutApp v es
      if r'.code ≠ 0 then ((encCtl e' (.set .application e.application)).1 :: es', r')
      else (e' :: es', r')

def xorAll : List Nat → Nat
  | [] => 0
  | x :: xs => x ^^^ xorAll xs

def sumAll : List Int → Int
  | [] => 0
  | x :: xs => x + sumAll xs

/-! ## Multistream encoder -/

structure MsEncSt where
  nbChannels : Int
  nbStreams : Int
  nbCoupled : Int
  bitrateBps : Int
  variableDuration : Int
  application : Int
  lfeStream : Int
  surround : Bool               -- mapping_type == MAPPING_TYPE_SURROUND
  ambisonics : Bool             -- mapping_type == MAPPING_TYPE_AMBISONICS
  streams : List EncSt
  deriving DecidableEq, Repr

/-- Getters answered by the first stream (opus_multistream_encoder.c:1156-1179). -/
def msEncFwdGet : EncGetK → Bool
  | .lsbDepth | .vbr | .application | .bandwidth | .complexity | .packetLossPerc | .dtx | .voiceRatio
  | .vbrConstraint | .signal | .lookahead | .sampleRate | .inbandFec | .forceChannels
  | .predictionDisabled | .phaseInversionDisabled => true
  | _ => false

/-- Setters applied to every stream (:1204-1237). -/
def msEncFwdSet : EncSetK → Bool
  | .lsbDepth | .complexity | .vbr | .vbrConstraint | .maxBandwidth | .bandwidth | .signal | .application
  | .inbandFec | .packetLossPerc | .dtx | .forceMode | .forceChannels | .predictionDisabled
  | .phaseInversionDisabled => true
  | _ => false

inductive MsEncReq
  | set (k : EncSetK) (v : Int)
  | get (k : EncGetK) (nonNull : Bool)
  | resetState
  | getEncoderState (streamId : Int) (nonNull : Bool)   -- OPUS_MULTISTREAM_GET_ENCODER_STATE
  | unknown (id : Int)
  deriving DecidableEq, Repr

def OPUS_MULTISTREAM_GET_ENCODER_STATE_REQUEST : Int := 5120
def OPUS_MULTISTREAM_GET_DECODER_STATE_REQUEST : Int := 5122

/-- `opus_multistream_encoder_ctl_va_list` (opus_multistream_encoder.c:1109-1306).
    For GET_ENCODER_STATE the value is the index of the stream whose state is returned. -/
def msEncCtl (s : MsEncSt) : MsEncReq → MsEncSt × Ret
  | .set .bitrate v =>              -- :1121-1132
    if v ≠ OPUS_AUTO ∧ v ≠ OPUS_BITRATE_MAX then
      if v ≤ 0 then (s, .err .badArg)
      else ({ s with bitrateBps := min (300000 * s.nbChannels) (max (500 * s.nbChannels) v) }, .ok)
    else ({ s with bitrateBps := v }, .ok)
  | .set .expertFrameDuration v =>  -- :1261-1275 (argument validated like opus_encoder_ctl does)
    if validFrameDuration v then ({ s with variableDuration := v }, .ok) else (s, .err .badArg)
  | .set k v =>
    if msEncFwdSet k then
      -- :1223-1227 (fix a0f32f9c): every mono stream refuses forced stereo; refuse before any
      -- coupled stream has been changed
      if k = .forceChannels ∧ v = 2 ∧ s.nbCoupled < s.nbStreams then (s, .err .badArg) else
      let (ss, r) := if k = .application then fanOutApp v s.streams else fanOut (fun e => encCtl e (.set k v)) s.streams
      ({ s with streams := ss }, r)
    else (s, .err .unimplemented)
  | .get .bitrate nonNull =>        -- :1133-1155
    if !nonNull then (s, .err .badArg)
    else (s, .okv (sumAll (s.streams.map (fun e => encGetVal e .bitrate))))
  | .get .finalRange nonNull =>     -- :1180-1203
    if !nonNull then (s, .err .badArg)
    else (s, .okv (xorAll (s.streams.map (fun e => e.rangeFinal))))
  | .get .expertFrameDuration nonNull =>   -- :1267-1276
    if !nonNull then (s, .err .badArg) else (s, .okv s.variableDuration)
  | .get k nonNull =>
    if msEncFwdGet k then
      match s.streams with
      | e :: _ => (s, (encCtl e (.get k nonNull)).2)
      | [] => (s, .err .internalError)      -- unreachable: nb_streams ≥ 1
    else (s, .err .unimplemented)
  | .resetState =>                  -- :1277-1298
    let (ss, r) := fanOut (fun e => encCtl e .resetState) s.streams
    ({ s with streams := ss }, r)
  | .getEncoderState id nonNull =>  -- :1238-1260
    if id < 0 ∨ id ≥ s.nbStreams then (s, .err .badArg)
    else if !nonNull then (s, .err .badArg)
    else (s, .okv id)
  | .unknown _ => (s, .err .unimplemented)

/-! ### What `opus_multistream_encode_native` writes into the streams (opus_multistream_encoder.c:806-1020) -/

/-- DSP / arithmetic dependent inputs of one multistream encode call. -/
structure MsOracle where
  rates : List Int          -- `bitrates[s]` from rate_allocation (:876)
  bw : Int                  -- the bandwidth chosen for a surround encoder (:903-910)
  lastRate : Option Int     -- CBR: OPUS_SET_BITRATE(curr_max*(8*Fs/frame_size)) on the last stream (:978-979)
  reached : Nat             -- number of streams whose opus_encode_native was called (all, unless one failed)
  obs : List EncObs         -- and the fields observed in each of those streams afterwards

/-- First loop (:890-922): per-stream settings are written THROUGH opus_encoder_ctl, return codes
    ignored — a refused value simply leaves the stream's setting as it was. -/
def msPrep (s : MsEncSt) (i : Nat) (e : EncSt) (rate bw : Int) : EncSt :=
  let e := (encCtl e (.set .bitrate rate)).1
  if s.surround then
    let e := (encCtl e (.set .bandwidth bw)).1
    if (i : Int) < s.nbCoupled then
      (encCtl (encCtl e (.set .forceMode MODE_CELT_ONLY)).1 (.set .forceChannels 2)).1
    else e
  else if s.ambisonics then (encCtl e (.set .forceMode MODE_CELT_ONLY)).1
  else e

/-- Second loop, before the stream's opus_encode_native (:968, :978-979). -/
def msPre2 (s : MsEncSt) (i : Nat) (e : EncSt) (lastRate : Option Int) : EncSt :=
  let e := if s.surround then (encCtl e (.setEnergyMask true)).1 else e
  match lastRate with
  | some r => if (i : Int) = s.nbStreams - 1 then (encCtl e (.set .bitrate r)).1 else e
  | none => e

/-- Early exits of opus_multistream_encode_native (:842-865): nothing has been written yet. -/
def msEncodeEarly (s : MsEncSt) (frameSize maxDataBytes : Int) : Option Err :=
  match s.streams with
  | [] => some .badArg
  | e0 :: _ =>
    let f := frameSizeSelect frameSize s.variableDuration e0.fs
    if f ≤ 0 then some .badArg
    else
      let smallest := s.nbStreams * 2 - 1 + (if e0.fs / f = 10 then s.nbStreams else 0)
      if maxDataBytes < smallest then some .bufferTooSmall else none

/-- State after `opus_multistream_encode*`: every stream is prepared; the streams reached by the
    second loop additionally get the mask / last-stream bit-rate and the effect of their encode call. -/
def msEncode (s : MsEncSt) (frameSize maxDataBytes : Int) (o : MsOracle) : MsEncSt :=
  match msEncodeEarly s frameSize maxDataBytes with
  | some _ => s
  | none =>
    { s with streams := s.streams.mapIdx (fun i e =>
        let e1 := msPrep s i e (o.rates.getD i 0) o.bw
        if i < o.reached then
          match o.obs[i]? with
          | some ob => encAdopt (msPre2 s i e1 o.lastRate) ob
          | none => msPre2 s i e1 o.lastRate
        else e1) }

/-- The monitored contract of a multistream encode call: each reached stream's encode call stays in
    the `obsRange` ranges (from the state it had right before the call). -/
def msEncodeContract (s : MsEncSt) (frameSize maxDataBytes : Int) (o : MsOracle) : Bool :=
  match msEncodeEarly s frameSize maxDataBytes with
  | some _ => true
  | none =>
    let f : Int := match s.streams with | e0 :: _ => frameSizeSelect frameSize s.variableDuration e0.fs | [] => 0
    ((List.range s.streams.length).all fun i =>
      match s.streams[i]?, o.obs[i]? with
      | some e, some ob =>
        !(decide (i < o.reached)) ||
          (obsRange (msPre2 s i (msPrep s i e (o.rates.getD i 0) o.bw) o.lastRate) ob).isNone
      | _, _ => true) && decide (0 < f)

/-! ### Layout validation (src/opus_multistream.c:41-96, opus_multistream_encoder.c:127-144) -/

/-- `validate_layout`. -/
def validateLayout (nbChannels nbStreams nbCoupled : Int) (mapping : List Nat) : Bool :=
  let maxChannel := nbStreams + nbCoupled
  if maxChannel > 255 then false
  else (mapping.take nbChannels.toNat).all (fun m => !(decide ((m : Int) ≥ maxChannel) && m ≠ 255))

/-- `get_*_channel(layout, …, -1) != -1`: some channel is mapped to decoded channel `c`. -/
def hasChannel (nbChannels : Int) (mapping : List Nat) (c : Int) : Bool :=
  (mapping.take nbChannels.toNat).any (fun m => (m : Int) = c)

/-- `validate_encoder_layout`: every stream has its input channel(s). -/
def validateEncoderLayout (nbChannels nbStreams nbCoupled : Int) (mapping : List Nat) : Bool :=
  (List.range nbStreams.toNat).all (fun (n : Nat) =>
    let s : Int := n
    if s < nbCoupled then hasChannel nbChannels mapping (2 * s) && hasChannel nbChannels mapping (2 * s + 1)
    else hasChannel nbChannels mapping (s + nbCoupled))

/-- isqrt32 for the small arguments used here. -/
def isqrtSmall (n : Nat) : Nat := ((List.range 17).filter (fun k => k * k ≤ n)).length - 1

/-- `validate_ambisonics` (opus_multistream_encoder.c:104-125): `(streams, coupled)`. -/
def validateAmbisonics (nbChannels : Int) : Option (Int × Int) :=
  if nbChannels < 1 ∨ nbChannels > 227 then none
  else
    let o : Int := isqrtSmall nbChannels.toNat
    let acn := o * o
    let nd := nbChannels - acn
    if nd ≠ 0 ∧ nd ≠ 2 then none
    else some (acn + (if nd ≠ 0 then 1 else 0), if nd ≠ 0 then 1 else 0)

def msEncArgsOk (channels streams coupled : Int) : Bool :=
  !(decide (channels > 255 ∨ channels < 1 ∨ coupled > streams ∨ streams < 1 ∨ coupled < 0 ∨
            streams > 255 - coupled ∨ streams + coupled > channels))

/-- Stream encoders in creation order: coupled (2 channels) first (:472-487). -/
def msStreams (fs streams coupled application lfeStream : Int) : List EncSt :=
  (List.range streams.toNat).map (fun (n : Nat) =>
    let i : Int := n
    let e := encInit fs (if i < coupled then 2 else 1) application
    if i = lfeStream then { e with lfe := 1, celtLfe := 1 } else e)

/-- `opus_multistream_encoder_init_impl` (:429-495). -/
def msEncInit (fs channels streams coupled : Int) (mapping : List Nat) (application : Int)
    (surround ambisonics : Bool) (lfeStream : Int) : Res MsEncSt :=
  if !msEncArgsOk channels streams coupled then .err .badArg
  else if !validateLayout channels streams coupled mapping then .err .badArg
  else if !validateEncoderLayout channels streams coupled mapping then .err .badArg
  else if ambisonics ∧ (validateAmbisonics channels).isNone then .err .badArg
  else if !(validFs fs && validApp application) then .err .badArg     -- first opus_encoder_init fails
  else .ok { nbChannels := channels, nbStreams := streams, nbCoupled := coupled,
             bitrateBps := OPUS_AUTO, variableDuration := FRAMESIZE_ARG, application,
             lfeStream, surround, ambisonics,
             streams := msStreams fs streams coupled application lfeStream }

/-- `opus_multistream_encoder_create` (:585-621). -/
def msEncCreate (fs channels streams coupled : Int) (mapping : List Nat) (application : Int)
    (allocOk : Bool := true) : Res MsEncSt :=
  if !msEncArgsOk channels streams coupled then .err .badArg
  else if !allocOk then .err .allocFail
  else msEncInit fs channels streams coupled mapping application false false (-1)

/-- `vorbis_mappings` (opus_multistream_encoder.c:53-62). -/
def vorbisMappings : List (Int × Int × List Nat) :=
  [(1, 0, [0]), (1, 1, [0, 1]), (2, 1, [0, 2, 1]), (2, 2, [0, 1, 2, 3]), (3, 2, [0, 4, 1, 2, 3]),
   (4, 2, [0, 4, 1, 2, 3, 5]), (4, 3, [0, 4, 1, 2, 3, 5, 6]), (5, 3, [0, 6, 1, 2, 3, 4, 5, 7])]

/-- Stream layout chosen by `opus_multistream_surround_encoder_init` (:528-569) or the reason
    it refuses.  -/
def surroundLayout (channels family : Int) : Res (Int × Int × List Nat) :=
  if family = 0 then
    if channels = 1 then .ok (1, 0, [0])
    else if channels = 2 then .ok (1, 1, [0, 1])
    else .err .unimplemented
  else if family = 1 ∧ channels ≤ 8 ∧ channels ≥ 1 then
    match vorbisMappings[(channels - 1).toNat]? with
    | some l => .ok l
    | none => .err .internalError
  else if family = 255 then .ok (channels, 0, List.range channels.toNat)
  else if family = 2 then
    match validateAmbisonics channels with
    | none => .err .badArg
    | some (st, cp) =>
      .ok (st, cp, (List.range (st - cp).toNat).map (fun i => i + (cp * 2).toNat) ++ List.range (cp * 2).toNat)
  else .err .unimplemented

/-- `opus_multistream_surround_encoder_create` (:623-666): returns the state and the layout
    reported through `streams`, `coupled_streams`, `mapping`. -/
def msSurroundCreate (fs channels family application : Int) (allocOk : Bool := true) :
    Res (MsEncSt × Int × Int × List Nat) :=
  if channels > 255 ∨ channels < 1 then .err .badArg
  else
    -- opus_multistream_surround_encoder_get_size == 0 → OPUS_UNIMPLEMENTED (:643-649)
    match surroundLayout channels family with
    | .err _ => .err .unimplemented
    | .oob => .oob
    | .abort => .abort
    | .ok (st, cp, mapping) =>
      if !allocOk then .err .allocFail
      else
        let lfe := if family = 1 ∧ channels ≥ 6 then st - 1 else -1
        match msEncInit fs channels st cp mapping application (decide (channels > 2 ∧ family = 1))
                (decide (family = 2)) lfe with
        | .ok s => .ok (s, st, cp, mapping)
        | .err e => .err e
        | .oob => .oob
        | .abort => .abort

/-! ## Multistream decoder -/

structure MsDecSt where
  nbChannels : Int
  nbStreams : Int
  nbCoupled : Int
  streams : List DecSt
  deriving DecidableEq, Repr

inductive MsDecReq
  | set (k : DecSetK) (v : Int)
  | get (k : DecGetK) (nonNull : Bool)
  | resetState
  | getDecoderState (streamId : Int) (nonNull : Bool)
  | unknown (id : Int)
  deriving DecidableEq, Repr

/-- Getters answered by the first stream (opus_multistream_decoder.c:442-454). -/
def msDecFwdGet : DecGetK → Bool
  | .bandwidth | .sampleRate | .gain | .lastPacketDuration | .phaseInversionDisabled => true
  | _ => false

/-- Setters applied to every stream (:520-540). -/
def msDecFwdSet : DecSetK → Bool
  | .gain | .phaseInversionDisabled => true
  | _ => false

/-- `opus_multistream_decoder_ctl_va_list` (opus_multistream_decoder.c:430-548); also
    `opus_projection_decoder_ctl` (opus_projection_decoder.c:267-277). -/
def msDecCtl (s : MsDecSt) : MsDecReq → MsDecSt × Ret
  | .get .finalRange nonNull =>
    if !nonNull then (s, .err .badArg)
    else (s, .okv (xorAll (s.streams.map (fun d => d.rangeFinal))))
  | .get k nonNull =>
    if msDecFwdGet k then
      match s.streams with
      | d :: _ => (s, (decCtl d (.get k nonNull)).2)
      | [] => (s, .err .internalError)
    else (s, .err .unimplemented)
  | .set k v =>
    if msDecFwdSet k then
      let (ss, r) := fanOut (fun d => decCtl d (.set k v)) s.streams
      ({ s with streams := ss }, r)
    else (s, .err .unimplemented)
  | .resetState =>
    let (ss, r) := fanOut (fun d => decCtl d .resetState) s.streams
    ({ s with streams := ss }, r)
  | .getDecoderState id nonNull =>
    if id < 0 ∨ id ≥ s.nbStreams then (s, .err .badArg)
    else if !nonNull then (s, .err .badArg)
    else (s, .okv id)
  | .unknown _ => (s, .err .unimplemented)

def msDecArgsOk (channels streams coupled : Int) : Bool :=
  !(decide (channels > 255 ∨ channels < 1 ∨ coupled > streams ∨ streams < 1 ∨ coupled < 0 ∨
            streams > 255 - coupled))

/-- `opus_multistream_decoder_create` / `_init` (opus_multistream_decoder.c:66-150). -/
def msDecCreate (fs channels streams coupled : Int) (mapping : List Nat) (allocOk : Bool := true) :
    Res MsDecSt :=
  if !msDecArgsOk channels streams coupled then .err .badArg
  else if !allocOk then .err .allocFail
  else if !validateLayout channels streams coupled mapping then .err .badArg
  else if !validFs fs then .err .badArg
  else .ok { nbChannels := channels, nbStreams := streams, nbCoupled := coupled,
             streams := (List.range streams.toNat).map (fun (n : Nat) => decInit fs (if (n : Int) < coupled then 2 else 1)) }

/-! ## Projection encoder -/

structure ProjEncSt where
  ms : MsEncSt
  demixGain : Int
  deriving DecidableEq, Repr

inductive ProjEncReq
  | demixSize (nonNull : Bool)
  | demixGain (nonNull : Bool)
  | demixMatrix (nonNull : Bool) (size : Int)
  | ms (r : MsEncReq)
  deriving DecidableEq, Repr

/-- `opus_projection_encoder_ctl` (opus_projection_encoder.c:434-520). -/
def projEncCtl (s : ProjEncSt) : ProjEncReq → ProjEncSt × Ret
  | .demixSize nonNull =>
    if !nonNull then (s, .err .badArg)
    else (s, .okv (s.ms.nbChannels * (s.ms.nbStreams + s.ms.nbCoupled) * 2))
  | .demixGain nonNull => if !nonNull then (s, .err .badArg) else (s, .okv s.demixGain)
  | .demixMatrix nonNull size =>
    if !nonNull then (s, .err .badArg)
    else if size ≠ (s.ms.nbStreams + s.ms.nbCoupled) * s.ms.nbChannels * 2 then (s, .err .badArg)
    else (s, .ok)
  | .ms r => let (m, ret) := msEncCtl s.ms r; ({ s with ms := m }, ret)

/-- Gain of the pre-computed demixing matrices (src/mapping_matrix.c), by order+1. -/
def projDemixGain (orderPlusOne : Int) : Int := if orderPlusOne = 3 then 3050 else 0

/-- Square dimension of the pre-computed matrices, by order+1 (mapping_matrix.c: 6, 11, 18, 27, 38). -/
def projMatrixDim (orderPlusOne : Int) : Int :=
  if orderPlusOne = 2 then 6 else if orderPlusOne = 3 then 11 else if orderPlusOne = 4 then 18
  else if orderPlusOne = 5 then 27 else if orderPlusOne = 6 then 38 else 0

/-- `get_order_plus_one_from_channels` (opus_projection_encoder.c:91-112). -/
def projOrderPlusOne (channels : Int) : Option Int :=
  if channels < 1 ∨ channels > 227 then none
  else
    let o : Int := isqrtSmall channels.toNat
    let nd := channels - o * o
    if nd ≠ 0 ∧ nd ≠ 2 then none else some o

/-- `opus_projection_ambisonics_encoder_create` (:364-398) with `_get_size` (:156-228) and
    `_init` (:230-362).  A refused channel count / family makes `get_size` return 0, which the
    code reports as OPUS_ALLOC_FAIL. -/
def projEncCreate (fs channels family application : Int) (allocOk : Bool := true) :
    Res (ProjEncSt × Int × Int) :=
  if family ≠ 3 then .err .allocFail
  else match projOrderPlusOne channels with
  | none => .err .allocFail
  | some o =>
    if projMatrixDim o = 0 then .err .allocFail
    else if !allocOk then .err .allocFail
    else
      let streams := (channels + 1) / 2
      let coupled := channels / 2
      if streams + coupled > projMatrixDim o ∨ channels > projMatrixDim o then .err .badArg
      else match msEncInit fs channels streams coupled (List.range channels.toNat) application false false (-1) with
      | .ok m => .ok ({ ms := m, demixGain := projDemixGain o }, streams, coupled)
      | .err e => .err e
      | .oob => .oob
      | .abort => .abort

end Opus.Ctl
