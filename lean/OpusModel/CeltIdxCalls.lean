import OpusModel.CeltIdx
/-
  OpusModel.CeltIdxCalls — index / extent arithmetic of the rest of the CELT decoder interior (C01, index-safety bridge,
  second part): celt_synthesis, deemphasis, celt_decode_lost (pitch-based and noise-based), prefilter_and_fold and the PLC
  pitch search.

  Same conventions as `OpusModel.CeltIdx`: only WHICH elements of WHICH array are touched; hand transcription of the index
  expressions of the C code (a trusted reading, file:line cited).  Two layers:

    * `Call` — a call the decoder makes to a routine of another file, with array-relative pointers (`Ptr`) and the integer
      arguments indices depend on.  The lists of calls (`synthCalls`, `plcPitchCalls`, …) are compared with the calls
      recorded inside the real decoder (tie `celtidx`, lines `celtcalls`).
    * `Call.accs` — the callee's extent contract: which elements it reads / writes given those arguments (transcribed from
      celt/mdct.c, celt/celt_lpc.c, celt/pitch.c, celt/bands.c, celt/celt.c); and `…Inline` — the accesses of the loops
      written inline in celt_decoder.c.

  C sources (tree at b1d58384): celt/celt_decoder.c:277-369 deemphasis, :371-460 celt_synthesis, :491-505
  celt_plc_pitch_search, :507-541 prefilter_and_fold, :596-962 celt_decode_lost; celt/mdct.c:268-371 clt_mdct_backward_c;
  celt/celt_lpc.c celt_fir_c / celt_iir / _celt_autocorr / _celt_lpc; celt/pitch.c:140-205 pitch_downsample, :302-420
  pitch_search, find_best_pitch; celt/bands.c denormalise_bands.
-/
namespace Opus.CeltIdx
open Opus.Gen.CeltIdxConsts

/-- The arrays the CELT decoder indexes.  `mem c`: `decode_mem[c]`; `lpc`, `oldE`: state arrays behind it; the others are
    stack arrays of one call (`ALLOC` or plain locals) or the caller's `pcm`. -/
inductive Arr
  | mem (c : Nat) | lpc | freq | scratch | X | pcm | exc | fir | lpbuf | etmp | lpcMem | ac
  deriving DecidableEq, Repr

structure Ptr where
  arr : Arr
  off : Int
  deriving DecidableEq, Repr

/-- One access: an interval of elements of an array. -/
structure Acc where
  arr : Arr
  ext : Ext
  write : Bool
  deriving Repr

def rd (p : Ptr) (lo hi : Int) : Acc := ⟨p.arr, ⟨p.off + lo, p.off + hi⟩, false⟩
def wr (p : Ptr) (lo hi : Int) : Acc := ⟨p.arr, ⟨p.off + lo, p.off + hi⟩, true⟩

/-- Calls into other files. -/
inductive Call
  /-- `clt_mdct_backward(&mode->mdct, in, out, window, overlap, shift, stride)` with `n2 = (mdct.n >> shift) / 2`. -/
  | mdct (inp : Ptr) (stride : Int) (out : Ptr) (n2 ov : Int)
  /-- `denormalise_bands(mode, X, freq, …, M, …)`: fills `freq[0 .. n)`, `n = M*shortMdctSize`. -/
  | denorm (x : Ptr) (freq : Ptr) (n : Int)
  /-- `OPUS_COPY` / `OPUS_MOVE(dst, src, n)`. -/
  | copy (dst src : Ptr) (n : Int)
  /-- `comb_filter(y, x, T0, T1, n, …, overlap)` with `y ≠ x`. -/
  | comb (y x : Ptr) (T0 T1 n ovl : Int)
  | fir (x num y : Ptr) (n ord : Int)
  | iir (x den y : Ptr) (n ord : Int) (mem : Ptr)
  | acorr (x ac : Ptr) (ovl lag n : Int)
  | lpc (lpc ac : Ptr) (p : Int)
  | pdown (x0 : Ptr) (x1 : Option Ptr) (xlp : Ptr) (len : Int)
  | psearch (xlp y : Ptr) (len maxp : Int)
  deriving Repr

/-- Extent contracts of the callees. -/
def Call.accs : Call → List Acc
  -- mdct.c:289-311 reads in[0], in[2*stride], …, in[stride*(N2-1)] from both ends; :291-311 writes out[ov/2 .. ov/2+N2);
  -- :313-351 FFT and post-rotation in place there; :353-370 TDAC mirror reads and writes out[0 .. ov)
  | .mdct inp stride out n2 ov =>
    [rd inp 0 (stride * (n2 - 1)), wr out (ov / 2) (ov / 2 + n2 - 1), rd out 0 (ov - 1), wr out 0 (ov - 1)]
  -- bands.c denormalise_bands: freq[0 .. N) is written completely (bands, then zero fill up to N); X[0 .. N) read at most
  | .denorm x freq n => [rd x 0 (n - 1), wr freq 0 (n - 1)]
  | .copy dst src n => [rd src 0 (n - 1), wr dst 0 (n - 1)]
  -- celt.c:191-258 with unknown gains: `combRead` / `combWrite` are contained in these for every flag combination
  | .comb y x T0 T1 n _ => [rd x (-(max (clampT T0) (clampT T1)) - 2) (n - 1), wr y 0 (n - 1)]
  -- celt_lpc.c celt_fir_c: y[i] = x[i] + Σ_{j<ord} num[j]·x[i-j-1], i < N
  | .fir x num y n ord => [rd x (-ord) (n - 1), rd num 0 (ord - 1), wr y 0 (n - 1)]
  -- celt_lpc.c celt_iir: y[i] = x[i] - Σ den[j]·mem[j]; mem updated
  | .iir x den y n ord mem => [rd x 0 (n - 1), rd den 0 (ord - 1), wr y 0 (n - 1), rd mem 0 (ord - 1), wr mem 0 (ord - 1)]
  -- celt_lpc.c _celt_autocorr: x[0 .. n) (windowed copy), ac[0 .. lag]
  | .acorr x ac _ lag n => [rd x 0 (n - 1), wr ac 0 lag]
  | .lpc l ac p => [wr l 0 (p - 1), rd ac 0 p]
  -- pitch.c:140-205: x[c][0 .. len) (x[c][2i+1] with i < len/2), x_lp[0 .. len/2)
  | .pdown x0 x1 xlp len =>
    [rd x0 0 (len - 1), wr xlp 0 (len / 2 - 1), rd xlp 0 (len / 2 - 1)] ++
      (match x1 with | some p => [rd p 0 (len - 1)] | none => [])
  -- pitch.c:302-420: x_lp[0 .. len/2) (x_lp[2j], j < len/4, and the inner products over len/2); y[2j], j < (len+maxp)/4;
  -- y[i+j], i < maxp/2, j < len/2; find_best_pitch: y[j], j < len/2 and y[i+len/2], i < maxp/2
  | .psearch xlp y len maxp => [rd xlp 0 (len / 2 - 1), rd y 0 (len / 2 + maxp / 2 - 1)]

/-- Parameters of one CELT frame as far as indices depend on them.  `C`: `st->stream_channels` (coded channels), `CC`:
    `st->channels`, `ds`: `st->downsample`, `B`: number of short blocks (1, or `2^LM` for a transient frame). -/
structure Frame where
  N : Int
  LM : Int
  C : Int
  CC : Int
  ds : Int
  B : Int
  deriving Repr

def Frame.NB (f : Frame) : Int := f.N / f.B

/-- Capacities (elements).  `excLen`: size of `fir_tmp` (celt_decoder.c:718). -/
def Arr.cap (f : Frame) (excLen : Int) : Arr → Int
  | .mem _ => memLen
  | .lpc => f.CC * CELT_LPC_ORDER
  | .freq => f.N                                -- :392  ALLOC(freq, N, celt_sig)
  | .scratch => f.N                             -- :297  ALLOC(scratch, N, celt_sig)
  | .X => f.C * f.N                             -- :1265 / :649  ALLOC(X, C*N, celt_norm)
  | .pcm => (f.N / f.ds) * f.CC                 -- the caller's buffer: frame_size * channels
  | .exc => MAX_PERIOD + CELT_LPC_ORDER         -- :717  ALLOC(_exc, MAX_PERIOD+CELT_LPC_ORDER, opus_val16)
  | .fir => excLen                              -- :718  ALLOC(fir_tmp, exc_length, opus_val16)
  | .lpbuf => DECODE_BUFFER_SIZE / 2            -- :496  ALLOC(lp_pitch_buf, DECODE_BUFFER_SIZE>>1, opus_val16)
  | .etmp => overlap                            -- :517  ALLOC(etmp, overlap, opus_val32)
  | .lpcMem => CELT_LPC_ORDER                   -- :840  opus_val16 lpc_mem[CELT_LPC_ORDER]
  | .ac => CELT_LPC_ORDER + 1                   -- :736  opus_val32 ac[CELT_LPC_ORDER+1]

def outSyn (f : Frame) (c : Nat) : Ptr := ⟨.mem c, outSynOff f.N⟩

/-! ## celt_synthesis (:371-460) -/

def mdctBlocks (f : Frame) (inp : Ptr) (c : Nat) : List Call :=
  (List.range f.B.toNat).map fun (b : Nat) =>
    Call.mdct ⟨inp.arr, inp.off + b⟩ f.B ⟨.mem c, outSynOff f.N + f.NB * b⟩ f.NB overlap

def synthCalls (f : Frame) : List Call :=
  if f.CC = 2 ∧ f.C = 1 then
    -- :412-423  mono stream to two channels; the spectrum is parked in out_syn[1]+overlap/2
    let freq2 : Ptr := ⟨.mem 1, outSynOff f.N + overlap / 2⟩
    [Call.denorm ⟨.X, 0⟩ ⟨.freq, 0⟩ f.N, Call.copy freq2 ⟨.freq, 0⟩ f.N] ++ mdctBlocks f freq2 0 ++ mdctBlocks f ⟨.freq, 0⟩ 1
  else if f.CC = 1 ∧ f.C = 2 then
    -- :424-438  stereo stream to one channel; the second spectrum is built in out_syn[0]+overlap/2
    let freq2 : Ptr := ⟨.mem 0, outSynOff f.N + overlap / 2⟩
    [Call.denorm ⟨.X, 0⟩ ⟨.freq, 0⟩ f.N, Call.denorm ⟨.X, f.N⟩ freq2 f.N] ++ mdctBlocks f ⟨.freq, 0⟩ 0
  else
    -- :439-447
    (List.range f.CC.toNat).flatMap fun (c : Nat) => Call.denorm ⟨.X, c * f.N⟩ ⟨.freq, 0⟩ f.N :: mdctBlocks f ⟨.freq, 0⟩ c

/-- Inline loops of celt_synthesis: the down-mix `freq[i] = ½freq[i] + ½freq2[i]` (:434-435) and the final saturation of
    `out_syn[c][0 .. N)` (:450-454). -/
def synthInline (f : Frame) : List Acc :=
  (if f.CC = 1 ∧ f.C = 2 then
    [rd ⟨.freq, 0⟩ 0 (f.N - 1), wr ⟨.freq, 0⟩ 0 (f.N - 1), rd ⟨.mem 0, outSynOff f.N + overlap / 2⟩ 0 (f.N - 1)] else []) ++
  (List.range f.CC.toNat).flatMap fun c => [rd (outSyn f c) 0 (f.N - 1), wr (outSyn f c) 0 (f.N - 1)]

/-! ## deemphasis (:277-369) — all loops inline -/

def deemphAccs (f : Frame) (accum : Bool) : List Acc :=
  if f.ds = 1 ∧ f.CC = 2 ∧ accum = false then
    -- :254-276 deemphasis_stereo_simple
    [rd (outSyn f 0) 0 (f.N - 1), rd (outSyn f 1) 0 (f.N - 1), wr ⟨.pcm, 0⟩ 0 (2 * f.N - 1)]
  else
    (List.range f.CC.toNat).flatMap fun c =>
      let Nd := f.N / f.ds
      rd (outSyn f c) 0 (f.N - 1) ::
        (if f.ds > 1 then
          -- :318-327 scratch[j], j < N;  :353-365  y[j*C] (= pcm[c + j*CC]) from scratch[j*downsample], j < Nd
          [wr ⟨.scratch, 0⟩ 0 (f.N - 1), rd ⟨.scratch, 0⟩ 0 ((Nd - 1) * f.ds),
           wr ⟨.pcm, c⟩ 0 ((Nd - 1) * f.CC)] ++ (if accum then [rd ⟨.pcm, c⟩ 0 ((Nd - 1) * f.CC)] else [])
        else
          -- :328-347
          [wr ⟨.pcm, c⟩ 0 ((f.N - 1) * f.CC)] ++ (if accum then [rd ⟨.pcm, c⟩ 0 ((f.N - 1) * f.CC)] else []))

/-- `ALLOC(scratch, N, celt_sig)` (:297): made on every path except the stereo shortcut (:289-294). -/
def deemphScratch (f : Frame) (accum : Bool) : Option Int :=
  if f.ds = 1 ∧ f.CC = 2 ∧ accum = false then none else some f.N

/-! ## prefilter_and_fold (:507-541) -/

def foldCalls (f : Frame) (pOld pCur : Int) : List Call :=
  (List.range f.CC.toNat).map fun c => Call.comb ⟨.etmp, 0⟩ (outSyn f c) pOld pCur overlap 0

/-- :533-539  `decode_mem[c][DECODE_BUFFER_SIZE-N+i]`, i < overlap/2, from `etmp[i]` and `etmp[overlap-1-i]`. -/
def foldInline (f : Frame) : List Acc :=
  (List.range f.CC.toNat).flatMap fun c => [wr (outSyn f c) 0 (overlap / 2 - 1), rd ⟨.etmp, 0⟩ 0 (overlap - 1)]

/-! ## celt_decode_lost (:596-962) -/

/-- :491-505 celt_plc_pitch_search. -/
def pitchSearchCalls (f : Frame) : List Call :=
  [Call.pdown ⟨.mem 0, 0⟩ (if f.CC = 2 then some ⟨.mem 1, 0⟩ else none) ⟨.lpbuf, 0⟩ DECODE_BUFFER_SIZE,
   Call.psearch ⟨.lpbuf, PLC_PITCH_LAG_MAX / 2⟩ ⟨.lpbuf, 0⟩ (DECODE_BUFFER_SIZE - PLC_PITCH_LAG_MAX) (PLC_PITCH_LAG_MAX - PLC_PITCH_LAG_MIN)]

/-- `exc_length = IMIN(2*pitch_index, MAX_PERIOD)` (:715). -/
def excLen (pitch : Int) : Int := min (2 * pitch) MAX_PERIOD

/-- `exc = _exc + CELT_LPC_ORDER` (:719): pointer into the `_exc` array. -/
def excP (i : Int) : Ptr := ⟨.exc, CELT_LPC_ORDER + i⟩

/-- Pitch-based concealment of channel `c` (:721-893); `first`: `loss_duration == 0`. -/
def plcPitchCallsCh (f : Frame) (pitch : Int) (first : Bool) (c : Nat) : List Call :=
  let lpcC : Ptr := ⟨.lpc, c * CELT_LPC_ORDER⟩
  (if first then
    [Call.acorr (excP 0) ⟨.ac, 0⟩ overlap CELT_LPC_ORDER MAX_PERIOD,                               -- :739-740
     Call.lpc lpcC ⟨.ac, 0⟩ CELT_LPC_ORDER]                                                       -- :757
   else []) ++
  [Call.fir (excP (MAX_PERIOD - excLen pitch)) lpcC ⟨.fir, 0⟩ (excLen pitch) CELT_LPC_ORDER,       -- :781-782
   Call.copy (excP (MAX_PERIOD - excLen pitch)) ⟨.fir, 0⟩ (excLen pitch),                          -- :783
   Call.copy ⟨.mem c, 0⟩ ⟨.mem c, f.N⟩ (DECODE_BUFFER_SIZE - f.N),                                -- :811
   Call.iir (outSyn f c) lpcC (outSyn f c) (f.N + overlap) CELT_LPC_ORDER ⟨.lpcMem, 0⟩]            -- :847-850

def plcPitchCalls (f : Frame) (pitch : Int) (first : Bool) : List Call :=
  (if first then pitchSearchCalls f else []) ++ (List.range f.CC.toNat).flatMap (plcPitchCallsCh f pitch first)

/-- Inline loops of the pitch-based concealment, channel `c`. -/
def plcPitchInlineCh (f : Frame) (pitch : Int) (c : Nat) : List Acc :=
  let buf : Ptr := ⟨.mem c, 0⟩
  let D := DECODE_BUFFER_SIZE
  [ -- :731-732  exc[i-LPC] = buf[D-MAX_PERIOD-LPC+i], i < MAX_PERIOD+LPC
    rd buf (D - MAX_PERIOD - CELT_LPC_ORDER) (D - 1), wr ⟨.exc, 0⟩ 0 (MAX_PERIOD + CELT_LPC_ORDER - 1),
    -- :796-803  exc[MAX_PERIOD-decay_length+i], exc[MAX_PERIOD-2*decay_length+i], i < decay_length = exc_length>>1
    rd (excP 0) (MAX_PERIOD - 2 * (excLen pitch / 2)) (MAX_PERIOD - 1),
    -- :825-838  buf[D-N+i], i < N+overlap; exc[extrapolation_offset+j], j < pitch; buf[D-MAX_PERIOD-N+extrapolation_offset+j]
    wr buf (D - f.N) (D + overlap - 1), rd (excP 0) (MAX_PERIOD - pitch) (MAX_PERIOD - 1),
    rd buf (D - f.N - pitch) (D - f.N - 1),
    -- :843-844  lpc_mem[i] = buf[D-N-1-i], i < LPC
    rd buf (D - f.N - CELT_LPC_ORDER) (D - f.N - 1), wr ⟨.lpcMem, 0⟩ 0 (CELT_LPC_ORDER - 1),
    -- :859-892  energy check / attenuation over buf[D-N+i], i < N+overlap
    rd buf (D - f.N) (D + overlap - 1), wr buf (D - f.N) (D + overlap - 1) ]

/-- Noise-based concealment (:640-693): shift, optional fold, synthesis with `C = CC = st->channels`, long block. -/
def plcNoiseCalls (f : Frame) (fold : Bool) (pOld pCur : Int) : List Call :=
  ((List.range f.CC.toNat).map fun c => Call.copy ⟨.mem c, 0⟩ ⟨.mem c, f.N⟩ (DECODE_BUFFER_SIZE - f.N + overlap)) ++
  (if fold then foldCalls f pOld pCur else []) ++ synthCalls { f with C := f.CC, B := 1 }

/-- Legal parameters: frame sizes of `LegalFrame`, channel counts 1/2, the five down-sampling factors
    (`resampling_factor`: 48/24/16/12/8 kHz), one long block or `2^LM` short ones. -/
def Frame.Legal (f : Frame) : Prop :=
  LegalFrame f.N f.LM ∧ (f.C = 1 ∨ f.C = 2) ∧ (f.CC = 1 ∨ f.CC = 2) ∧
  (f.ds = 1 ∨ f.ds = 2 ∨ f.ds = 3 ∨ f.ds = 4 ∨ f.ds = 6) ∧ (f.B = 1 ∨ f.B = 2 ^ f.LM.toNat)

instance (f : Frame) : Decidable f.Legal := by unfold Frame.Legal; exact inferInstance

/-- `last_pitch_index` as `VALIDATE_CELT_DECODER` asserts it while a pitch-based concealment runs (:150-151). -/
def PitchOk (p : Int) : Prop := PLC_PITCH_LAG_MIN ≤ p ∧ p ≤ PLC_PITCH_LAG_MAX
instance (p : Int) : Decidable (PitchOk p) := by unfold PitchOk; exact inferInstance

/-- The access lies inside its array. -/
def Acc.ok (f : Frame) (xl : Int) (a : Acc) : Prop := a.ext.within (Arr.cap f xl a.arr)
instance (f : Frame) (xl : Int) (a : Acc) : Decidable (a.ok f xl) := by unfold Acc.ok; exact inferInstance

end Opus.CeltIdx
