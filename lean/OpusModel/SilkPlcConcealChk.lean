import OpusModel.SilkPlcConceal
/-
  OpusModel.SilkPlcConcealChk — a CHECKED twin of the array reads of silk_PLC_conceal (OpusModel.SilkPlcConceal, which the
  driver runs and the tie compares, reads with the total accessor `agetI` / `getD`): every read of `exc_Q14` (PLC.c:206,
  :348 through `rand_ptr`), `outBuf` (silk_LPC_analysis_filter, :320) and `sLTP_Q14` (:338-342 through `pred_lag_ptr`)
  goes through `agetC`, which answers `.oob` outside the array.  Not run by the driver; OpusProofs.SilkPlcTotal proves it
  equal to the unchecked model whenever it does not answer `.oob`, and never `.oob` under the state invariants.
-/
namespace Opus.SilkPlc
open Opus Opus.SilkParams Opus.Gen.PlcConsts Opus.Gen.SilkPlcCngConsts

/-- Checked array read. -/
def agetC (a : Array Int) (i : Int) : Res Int := if 0 ≤ i ∧ i < a.size then .ok (agetI a i) else .oob

/-- `ltpPred` with checked reads of `sLTP_Q14`. -/
def ltpPredC (buf : Array Int) (p : Int) : List Int → Int → Int → Res Int
  | [], _, acc => .ok acc
  | b :: bs, j, acc =>
    match agetC buf (p - j) with
    | .ok v => ltpPredC buf p bs (j + 1) (smlawb acc v b)
    | _ => .oob

/-- `ltpSubfr` with checked reads of `sLTP_Q14` and of `exc_Q14` (through `rand_ptr`). -/
def ltpSubfrC (rnd : Array Int) (roff : Int) (B : List Int) (rs lag : Int) : Nat → Array Int → Int → Res (Array Int × Int)
  | 0, buf, seed => .ok (buf, seed)
  | n + 1, buf, seed =>
    match ltpPredC buf ((buf.size : Int) - lag + (LTP_ORDER : Int) / 2) B 0 2 with
    | .ok pred =>
      let seed := silkRand seed
      let idx := shrI seed 25 % (RAND_BUF_MASK + 1)
      match agetC rnd (roff + idx) with
      | .ok r => ltpSubfrC rnd roff B rs lag n (buf.push (lshift32 (smlawb pred r rs) 2)) seed
      | _ => .oob
    | _ => .oob

/-- `ltpLoop` on the checked sub-frame. -/
def ltpLoopC (rnd : Array Int) (roff : Int) (sl : Nat) (fsKHz harm rg : Int) : Nat → LtpLoop → Res LtpLoop
  | 0, s => .ok s
  | k + 1, s =>
    match ltpSubfrC rnd roff s.B s.rs (lagOf s.pq8) sl s.buf s.seed with
    | .ok r =>
      ltpLoopC rnd roff sl fsKHz harm rg k
        { buf := r.1, seed := r.2, B := s.B.map (SilkPlcGains.harmStep harm), rs := SilkPlcGains.randStep s.rs rg,
          pq8 := pitchDrift fsKHz s.pq8 }
    | _ => .oob

/-- `firAcc` with checked reads of `outBuf`. -/
def firAccC (x : Array Int) (ix : Int) : List Int → Int → Int → Res Int
  | [], _, acc => .ok acc
  | b :: bs, j, acc =>
    match agetC x (ix - 1 - j) with
    | .ok v => firAccC x ix bs (j + 1) (wrap32 (acc + wrap16 v * wrap16 b))
    | _ => .oob

def firSampleC (x : Array Int) (B : List Int) (ix : Int) : Res Int :=
  match firAccC x ix B 0 0, agetC x ix with
  | .ok acc, .ok v => .ok (sat16 (rshiftRound (wrap32 (lshift32 v 12 - acc)) 12))
  | _, _ => .oob

/-- The output samples `ix = start, start+1, …` (n of them). -/
def firRowsC (x : Array Int) (B : List Int) : Nat → Int → Res (List Int)
  | 0, _ => .ok []
  | n + 1, ix =>
    match firSampleC x B ix, firRowsC x B n (ix + 1) with
    | .ok v, .ok vs => .ok (v :: vs)
    | _, _ => .oob

/-- `energyBuf` with checked reads of `exc_Q14`. -/
def energyRowC (exc : Array Int) (g : Int) (off : Int) : Nat → Int → Res (List Int)
  | 0, _ => .ok []
  | n + 1, i =>
    match agetC exc (i + off), energyRowC exc g off n (i + 1) with
    | .ok v, .ok vs => .ok (sat16 (shrI (smulww v g) 8) :: vs)
    | _, _ => .oob

/-- All checked reads of one call of silk_PLC_conceal, in program order: `.ok ()` iff none leaves its array.  The values
    read are the ones the unchecked model uses (`OpusProofs.SilkPlcTotal.*_agree`). -/
def concealReadsC (d : Dec) (p0 : Plc) : Res Unit :=
  let g10 := [shrI (p0.prevGain.getD 0 0) 6, shrI (p0.prevGain.getD 1 0) 6]
  let exc := d.excQ14.toArray
  match energyRowC exc (g10.getD 0 0) (((0 + d.nbSubfr - 2 : Nat) * d.subfrLength : Nat) : Int) d.subfrLength 0,
        energyRowC exc (g10.getD 1 0) (((1 + d.nbSubfr - 2 : Nat) * d.subfrLength : Nat) : Int) d.subfrLength 0 with
  | .ok _, .ok _ =>
    let prevLPC0 := if d.firstFrameAfterReset ≠ 0 then List.replicate MAX_LPC_ORDER 0 else p0.prevLPC
    let e := plcEnergy d g10
    let roff := randPtrOff p0 e
    let voiced := decide (d.prevSignalType = TYPE_VOICED)
    let prevLPC := bwexp16 (prevLPC0.take d.lpcOrder) BWE_COEF_Q16 ++ prevLPC0.drop d.lpcOrder
    let A := prevLPC.take d.lpcOrder
    let invGain := if d.lossCnt = 0 ∧ ¬ voiced then lpcInversePredGain A else 0
    let gs := SilkPlcGains.gainSetup d.lossCnt voiced p0.ltpCoef p0.randScale p0.prevLtpScale invGain
    let harm := SilkPlcGains.harmGain d.lossCnt
    let lag := lagOf p0.pitchLQ8
    let invGainQ30 := min (inverse32VarQ (p0.prevGain.getD 1 0) 46) 1073741823
    let idx := rewhitenIdx d lag
    match firRowsC d.outBuf.toArray A ((d.ltpMemLength : Int) - idx - A.length).toNat (idx + A.length) with
    | .ok _ =>
      match rewhiten d A lag invGainQ30 with
      | .ok buf0 =>
        match ltpLoopC exc roff d.subfrLength d.fsKHz harm gs.2 d.nbSubfr
                { buf := buf0, seed := p0.randSeed, B := p0.ltpCoef, rs := gs.1, pq8 := p0.pitchLQ8 } with
        | .ok _ => .ok ()
        | _ => .oob
      | _ => .abort
    | _ => .oob
  | _, _ => .oob

end Opus.SilkPlc
