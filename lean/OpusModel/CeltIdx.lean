import OpusModel.Gen.CeltIdxConsts
/-
  OpusModel.CeltIdx — index / extent arithmetic of the CELT decoder interior (C01, index-safety bridge).

  Only WHICH elements of WHICH array are read / written is modelled, never sample values.  Every function below is a
  hand transcription of index expressions of the C code (a trusted reading; file:line is cited at each definition) over
  the buffer geometry regenerated from the tree (`Gen.CeltIdxConsts`).  The transcription is supported by a
  differential tie (harness/c01_celtidx.c): the real calls are recorded inside the real decoder and the extents of
  `comb_filter` are MEASURED on the compiled function (NaN propagation / before-after difference), and both are compared
  with this model.

  C sources (tree at b1d58384):
    celt/celt_decoder.c:100-125   struct OpusCustomDecoder, trailing `_decode_mem[1]` and the arrays behind it
    celt/celt_decoder.c:169-177   opus_custom_decoder_get_size
    celt/celt_decoder.c:1024-1028 lpc / oldBandE / oldLogE / oldLogE2 / backgroundLogE pointers
    celt/celt_decoder.c:1064-1067 decode_mem[c], out_syn[c]
    celt/celt_decoder.c:1258-1260 OPUS_MOVE(decode_mem[c], decode_mem[c]+N, DECODE_BUFFER_SIZE-N+overlap)
    celt/celt_decoder.c:1295-1306 the two post-filter `comb_filter` calls
    celt/celt.c:163-186 (float) / :99-158 (fixed)  comb_filter_const_c
    celt/celt.c:191-258           comb_filter
-/
namespace Opus.CeltIdx
open Opus.Gen.CeltIdxConsts

/-- An inclusive interval of element indices relative to some base pointer; empty when `hi < lo`. -/
structure Ext where
  lo : Int
  hi : Int
  deriving DecidableEq, Repr

def Ext.empty : Ext := ⟨0, -1⟩
def Ext.isEmpty (e : Ext) : Bool := decide (e.hi < e.lo)

/-- Smallest interval containing both. -/
def Ext.union (a b : Ext) : Ext :=
  if a.isEmpty then b else if b.isEmpty then a else ⟨min a.lo b.lo, max a.hi b.hi⟩

/-- The same accesses seen from a base `d` elements earlier (`x = base + d`). -/
def Ext.shift (e : Ext) (d : Int) : Ext := if e.isEmpty then e else ⟨e.lo + d, e.hi + d⟩

/-- Every index of the interval lies in an array of `n` elements. -/
def Ext.within (e : Ext) (n : Int) : Prop := e.isEmpty = true ∨ (0 ≤ e.lo ∧ e.hi < n)

instance (e : Ext) (n : Int) : Decidable (e.within n) := by unfold Ext.within; exact inferInstance

/-! ## Decoder state layout (bytes from the start of the state) -/

/-- Elements per channel in `_decode_mem` (celt_decoder.c:117, :1065). -/
def memLen : Int := DECODE_BUFFER_SIZE + overlap

/-- `decode_mem[c] = st->_decode_mem + c*(DECODE_BUFFER_SIZE+overlap)` (:1065), byte offset in the state. -/
def memOff (c : Int) : Int := offMem + c * memLen * szSig
/-- `lpc = (opus_val16*)(st->_decode_mem+(DECODE_BUFFER_SIZE+overlap)*CC)` (:1024). -/
def lpcOff (CC : Int) : Int := offMem + CC * memLen * szSig
/-- `oldBandE = (celt_glog*)(lpc+CC*CELT_LPC_ORDER)` (:1025). -/
def oldBandEOff (CC : Int) : Int := lpcOff CC + CC * CELT_LPC_ORDER * szVal16
/-- `oldLogE = oldBandE + 2*nbEBands` (:1026). -/
def oldLogEOff (CC : Int) : Int := oldBandEOff CC + 2 * nbEBands * szGlog
/-- `oldLogE2 = oldLogE + 2*nbEBands` (:1027). -/
def oldLogE2Off (CC : Int) : Int := oldLogEOff CC + 2 * nbEBands * szGlog
/-- `backgroundLogE = oldLogE2 + 2*nbEBands` (:1028). -/
def backgroundOff (CC : Int) : Int := oldLogE2Off CC + 2 * nbEBands * szGlog
/-- First byte behind `backgroundLogE[2*nbEBands]`. -/
def stateEnd (CC : Int) : Int := backgroundOff CC + 2 * nbEBands * szGlog

/-- `opus_custom_decoder_get_size(mode, channels)` (:169-177). -/
def getSize (CC : Int) : Int :=
  szStruct + (CC * memLen - 1) * szSig + CC * CELT_LPC_ORDER * szVal16 + 4 * 2 * nbEBands * szGlog

/-! ## comb_filter (celt/celt.c:191-258) -/

/-- Arguments of a `comb_filter` call as far as indices depend on them.  `g0z`/`g1z`: the gain is zero;
    `gsame`: `g0==g1 && tapset0==tapset1`; `inPlace`: `x==y`. -/
structure CombArgs where
  T0 : Int
  T1 : Int
  n : Int
  ovl : Int
  g0z : Bool
  g1z : Bool
  gsame : Bool
  inPlace : Bool
  deriving Repr

/-- `IMAX(T, COMBFILTER_MINPERIOD)` (celt.c:213-214). -/
def clampT (T : Int) : Int := max T COMBFILTER_MINPERIOD

/-- The overlap actually cross-faded (celt.c:226-227: 0 when the filter did not change). -/
def combOv (a : CombArgs) : Int := if a.gsame && decide (clampT a.T0 = clampT a.T1) then 0 else a.ovl

/-- Elements of `x` read, relative to `x`. -/
def combRead (a : CombArgs) : Ext :=
  if a.g0z && a.g1z then (if a.inPlace then .empty else ⟨0, a.n - 1⟩)             -- :204-210  OPUS_MOVE(y, x, N)
  else
    let hist : Ext := ⟨-clampT a.T1 - 2, -clampT a.T1 + 1⟩                        -- :221-224
    let fade : Ext :=                                                             -- :228-246, i < overlap:
      if combOv a > 0 then ⟨min (-clampT a.T0 - 2) (-clampT a.T1 + 2), combOv a - 1⟩   -- x[i], x[i-T1+2], x[i-T0-2 .. i-T0+2]
      else .empty
    let tail : Ext :=
      if a.g1z then (if a.inPlace then .empty else ⟨combOv a, a.n - 1⟩)           -- :247-253 OPUS_MOVE(y+overlap, x+overlap, N-overlap)
      else if a.n - combOv a > 0 then ⟨combOv a - clampT a.T1 - 2, a.n - 1⟩        -- :256 comb_filter_const: x[-T-2..-T+1], x[i], x[i-T+2]
      else ⟨combOv a - clampT a.T1 - 2, combOv a - clampT a.T1 + 1⟩
    (hist.union fade).union tail

/-- Elements of `y` written, relative to `y`. -/
def combWrite (a : CombArgs) : Ext :=
  if a.g0z && a.g1z then (if a.inPlace then .empty else ⟨0, a.n - 1⟩)
  else
    let fade : Ext := if combOv a > 0 then ⟨0, combOv a - 1⟩ else .empty
    let tail : Ext :=
      if a.g1z then (if a.inPlace then .empty else ⟨combOv a, a.n - 1⟩)
      else if a.n - combOv a > 0 then ⟨combOv a, a.n - 1⟩ else .empty
    fade.union tail

/-! ## The post-filter of a decoded frame (celt/celt_decoder.c:1295-1306) -/

/-- One `comb_filter(out_syn[c]+d, out_syn[c]+d, T0, T1, n, …, overlap)` call: `xoff` is the offset of `x = y` from
    `decode_mem[c]`. -/
structure PfCall where
  xoff : Int
  T0 : Int
  T1 : Int
  n : Int
  ovl : Int
  deriving DecidableEq, Repr

/-- `out_syn[c] = decode_mem[c]+DECODE_BUFFER_SIZE-N` (:1066). -/
def outSynOff (N : Int) : Int := DECODE_BUFFER_SIZE - N

/-- The post-filter calls for a frame of `N` samples per channel (`LM` = log2(N/shortMdctSize)), with the state's
    `postfilter_period_old`, `postfilter_period` on entry and the frame's decoded `postfilter_pitch` (0 when the frame
    carries no post-filter).  The state periods are clamped first (:1296-1297); the second call is made only for
    `LM != 0` and passes the raw decoded pitch, which `comb_filter` clamps itself. -/
def pfCalls (N LM pOld pCur pNew : Int) : List PfCall :=
  ⟨outSynOff N, clampT pOld, clampT pCur, shortMdctSize, overlap⟩ ::
    (if LM ≠ 0 then [⟨outSynOff N + shortMdctSize, clampT pCur, pNew, N - shortMdctSize, overlap⟩] else [])

def PfCall.args (k : PfCall) (g0z g1z gsame : Bool) : CombArgs :=
  { T0 := k.T0, T1 := k.T1, n := k.n, ovl := k.ovl, g0z, g1z, gsame, inPlace := true }

/-- Accesses of a post-filter call relative to `decode_mem[c]`. -/
def PfCall.read (k : PfCall) (g0z g1z gsame : Bool) : Ext := (combRead (k.args g0z g1z gsame)).shift k.xoff
def PfCall.write (k : PfCall) (g0z g1z gsame : Bool) : Ext := (combWrite (k.args g0z g1z gsame)).shift k.xoff

/-- The post-filter state after the frame (:1308-1319): `(postfilter_period_old, postfilter_period)`. -/
def pfNext (LM _pOld pCur pNew : Int) : Int × Int :=
  if LM ≠ 0 then (pNew, pNew) else (clampT pCur, pNew)

/-- `OPUS_MOVE(decode_mem[c], decode_mem[c]+N, DECODE_BUFFER_SIZE-N+overlap)` (:1258-1260): source and destination
    relative to `decode_mem[c]`. -/
def memMoveSrc (N : Int) : Ext := ⟨N, N + (DECODE_BUFFER_SIZE - N + overlap) - 1⟩
def memMoveDst (N : Int) : Ext := ⟨0, (DECODE_BUFFER_SIZE - N + overlap) - 1⟩

/-- Frame sizes `celt_decode_with_ec_dred` accepts (:1050-1063): `N = shortMdctSize << LM`, `LM ≤ maxLM`. -/
def frameN (LM : Int) : Int := shortMdctSize * 2 ^ LM.toNat
def LegalFrame (N LM : Int) : Prop := 0 ≤ LM ∧ LM ≤ maxLM ∧ N = frameN LM
instance (N LM : Int) : Decidable (LegalFrame N LM) := by unfold LegalFrame; exact inferInstance

/-- Post-filter periods the decoder state can hold (`VALIDATE_CELT_DECODER`, :152-155): 0 or
    `[COMBFILTER_MINPERIOD, MAX_PERIOD)`. -/
def PeriodOk (p : Int) : Prop := p = 0 ∨ (COMBFILTER_MINPERIOD ≤ p ∧ p < MAX_PERIOD)
instance (p : Int) : Decidable (PeriodOk p) := by unfold PeriodOk; exact inferInstance

end Opus.CeltIdx
