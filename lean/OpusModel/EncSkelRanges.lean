import OpusModel.EncSkel.Native
/-
  OpusModel.EncSkelRanges — *traces* of the integer budget arithmetic of the encoder (C05, slice `Ranges`).

  The skeleton (EncSkel/*.lean) computes with unbounded `Int`; the C code computes the same expressions in
  `int` / `opus_int32`.  For each function this file lists EVERY intermediate value the C expression forms, in
  evaluation order with file:line, as a `List Int` whose last entry is the model function's value
  (`OpusProofs/EncSkelRanges*.lean`: `…Trace_last`), and `OpusProofs` proves all entries lie in [-2^31, 2^31) on
  the domain the API admits.  The same lists are printed by the driver op `encskel ranges …` and compared entry by
  entry with a C harness (harness/c05_ranges.c) that recomputes the C expressions in int64 and in wrapped int32.

  Core Lean only (the driver links this file).
-/
namespace Opus.EncSkel
open Opus Opus.EncDecide

/-- `x` is representable as `opus_int32` / `int`. -/
def Fits32 (x : Int) : Prop := -2147483648 ≤ x ∧ x < 2147483648

instance (x : Int) : Decidable (Fits32 x) := by unfold Fits32; infer_instance

/-- Every value the C expressions of `user_bitrate_to_bitrate` (opus_encoder.c:686-695) form. -/
def ubTrace (s : St) (frameSize m : Int) : List Int :=
  let fsz := if frameSize = 0 then s.fs / 400 else frameSize
  [60 * s.fs, 60 * s.fs / fsz, s.fs * s.channels, 60 * s.fs / fsz + s.fs * s.channels,
   m * 8, m * 8 * s.fs, m * 8 * s.fs / fsz, userBitrateToBitrate s frameSize m]

/-- Every value formed by opus_encoder.c:1253-1261 (`frame_rate`, `frame_rate12`, `cbr_bytes`, the new
    `bitrate_bps`, `IMAX(1,cbr_bytes)`) for bit-rate `b` and budget `m`; last entry: the CBR `bitrate_bps`. -/
def cbrTrace (fs frameSize b m : Int) : List Int :=
  let fr12 := 12 * fs / frameSize
  let c := cbrBytes fs frameSize b m
  [fs / frameSize, 12 * fs, fr12, 12 * b, 12 * b / 8, fr12 / 2, 12 * b / 8 + fr12 / 2,
   (12 * b / 8 + fr12 / 2) / fr12, c, max 1 c, c * fr12, c * fr12 * 8, c * fr12 * 8 / 12]

/-- Every value formed by the low-budget gate :1267-1268 and by `max_rate` :1338 for the budget `b`. -/
def gateTrace (fs frameSize : Int) (b : SizeBudget) : List Int :=
  let fr := fs / frameSize
  [fr, 3 * fr, 3 * fr * 8, b.maxDataBytes * fr, fr * b.maxDataBytes * 8]

/-- Every value formed by `compute_equiv_rate` (opus_encoder.c:962-993), all three mode branches listed
    (a superset of what one call evaluates); last entry: the returned value. -/
def erTrace (bitrate channels frameRate vbr mode complexity loss : Int) : List Int :=
  let e0 := bitrate
  let e1 := if frameRate > 50 then e0 - (40 * channels + 20) * (frameRate - 50) else e0
  let e2 := if vbr = 0 then e1 - cdiv e1 12 else e1
  let e3 := cdiv (e2 * (90 + complexity)) 100
  let e4 := if complexity < 2 then cdiv (e3 * 4) 5 else e3
  [40 * channels, 40 * channels + 20, frameRate - 50, (40 * channels + 20) * (frameRate - 50), e1, cdiv e1 12, e2,
   90 + complexity, e2 * (90 + complexity), e3,
   e3 * 4, e4, e4 * loss, 6 * loss, 6 * loss + 10, cdiv (e4 * loss) (6 * loss + 10), e3 * 9, cdiv (e3 * 9) 10,
   e3 * loss, 12 * loss, 12 * loss + 20, cdiv (e3 * loss) (12 * loss + 20),
   computeEquivRate bitrate channels frameRate vbr mode complexity loss]

/-- Every value formed by `compute_redundancy_bytes` (opus_encoder.c:1085-1111); last entry: the returned value. -/
def rbTrace (maxDataBytes bitrateBps frameRate channels : Int) : List Int :=
  let baseBits := 40 * channels + 20
  let rr0 := bitrateBps + baseBits * (200 - frameRate)
  let rr := cdiv (3 * rr0) 2
  let avail := maxDataBytes * 8 - 2 * baseBits
  [40 * channels, baseBits, 200 - frameRate, baseBits * (200 - frameRate), rr0, 3 * rr0, rr, cdiv rr 1600,
   maxDataBytes * 8, 2 * baseBits, avail,
   avail * 240, cdiv 48000 frameRate, 240 + cdiv 48000 frameRate, cdiv (avail * 240) (240 + cdiv 48000 frameRate),
   cdiv (avail * 240) (240 + cdiv 48000 frameRate) + baseBits,
   cdiv (cdiv (avail * 240) (240 + cdiv 48000 frameRate) + baseBits) 8, 8 * channels, 4 + 8 * channels,
   computeRedundancyBytes maxDataBytes bitrateBps frameRate channels]

/-- Every value formed on the way to `max_len_sum` of the multi-frame path (opus_encoder.c:1616-1681):
    the split test, `enc_frame_size`, `nb_frames`, `max_header_bytes`, `nb_frames + repacketize_len`,
    `max_len_sum`; last entry: `(multiCtx …).maxLenSum`. -/
def mlTrace (s : St) (frameSize outDataBytes cbr : Int) : List Int :=
  let c := multiCtx s frameSize outDataBytes cbr
  [s.fs / 50, 3 * s.fs, 3 * s.fs / 50, 2 * s.fs, 2 * s.fs / 25, 3 * s.fs / 25, s.fs / 25, c.encFs, c.nbFrames,
   c.nbFrames - 1, (c.nbFrames - 1) * 2, 2 + (c.nbFrames - 1) * 2, c.repacketizeLen, c.nbFrames + c.repacketizeLen,
   c.maxLenSum]

/-- Every value formed by `curr_max` of one iteration (opus_encoder.c:1709-1716); last entry: `currMax`. -/
def cmTrace (s : St) (c : MultiCtx) (totSize : Int) : List Int :=
  let q := 3 * s.bitrateBps / (3 * 8 * s.fs / c.encFs)
  [3 * s.bitrateBps, 3 * 8 * s.fs, 3 * 8 * s.fs / c.encFs, q, c.maxLenSum / c.nbFrames, min q (c.maxLenSum / c.nbFrames),
   c.maxLenSum - totSize, min (c.maxLenSum - totSize) (min q (c.maxLenSum / c.nbFrames)), currMax s c totSize]

/-- `bytes_target` of `opus_encode_frame_native` (opus_encoder.c:1867) as a function. -/
def bytesTarget (fs frameSize bitrateBps maxDataBytes redundancyBytes : Int) : Int :=
  min (maxDataBytes - redundancyBytes) (bitrateBps * frameSize / (fs * 8)) - 1

/-- Every value formed by :1867 (`bytes_target`) and :1952 (`total_bitRate = 8*bytes_target*frame_rate`). -/
def btTrace (fs frameSize bitrateBps maxDataBytes redundancyBytes : Int) : List Int :=
  let bt := bytesTarget fs frameSize bitrateBps maxDataBytes redundancyBytes
  [maxDataBytes - redundancyBytes, bitrateBps * frameSize, fs * 8, bitrateBps * frameSize / (fs * 8),
   min (maxDataBytes - redundancyBytes) (bitrateBps * frameSize / (fs * 8)), bt, fs / frameSize, 8 * bt,
   8 * bt * (fs / frameSize)]

/-- Every value `frame_size_select` (opus_encoder.c:768-791, with fix 212cbc41) forms, in evaluation order, up to the
    first `return`; last entry: the returned value. -/
def fssTrace (frameSize variableDuration fs : Int) : List Int :=
  let r := frameSizeSelect frameSize variableDuration fs
  if frameSize < fs / 400 then [fs / 400, r]
  else if variableDuration = FRAMESIZE_ARG then
    let ns := frameSize
    if ns > 6 * fs / 50 then [fs / 400, 6 * fs, 6 * fs / 50, r]
    else [fs / 400, 6 * fs, 6 * fs / 50, 400 * ns, 200 * ns, 100 * ns, 50 * ns, 25 * ns, 3 * fs, 4 * fs, 5 * fs, r]
  else if FRAMESIZE_2_5_MS ≤ variableDuration ∧ variableDuration ≤ FRAMESIZE_120_MS then
    let pre := if variableDuration ≤ FRAMESIZE_40_MS
      then [fs / 400, variableDuration - FRAMESIZE_2_5_MS, (fs / 400) * 2 ^ (variableDuration - FRAMESIZE_2_5_MS).toNat]
      else [fs / 400, variableDuration - FRAMESIZE_2_5_MS, variableDuration - FRAMESIZE_2_5_MS - 2,
            (variableDuration - FRAMESIZE_2_5_MS - 2) * fs, (variableDuration - FRAMESIZE_2_5_MS - 2) * fs / 50]
    let ns := if variableDuration ≤ FRAMESIZE_40_MS then (fs / 400) * 2 ^ (variableDuration - FRAMESIZE_2_5_MS).toNat
              else (variableDuration - FRAMESIZE_2_5_MS - 2) * fs / 50
    if ns > frameSize then pre ++ [r]
    else pre ++ [6 * fs, 6 * fs / 50, 400 * ns, 200 * ns, 100 * ns, 50 * ns, 25 * ns, 3 * fs, 4 * fs, 5 * fs, r]
  else [fs / 400, r]

/-- Every value formed by the CBR clamp and `curr_max` of `opus_multistream_encode_native`
    (opus_multistream_encoder.c:856-859, :878-888, :976-986) for stream `s`; `rateSum` from rate_allocation.
    Last entry: `msCurrMax` on the clamped budget. -/
def msTrace (vbr bitrate rateSum nbStreams fs frameSize maxDataBytes totSize s : Int) : List Int :=
  let m := msMaxBytes vbr bitrate rateSum nbStreams fs frameSize maxDataBytes
  let cm := msCurrMax nbStreams fs frameSize m totSize s
  [nbStreams * 2, nbStreams * 2 - 1, fs / frameSize, msSmallest nbStreams fs frameSize,
   3 * rateSum, 3 * bitrate, 3 * 8 * fs, 3 * 8 * fs / frameSize, cdiv (3 * rateSum) (3 * 8 * fs / frameSize),
   cdiv (3 * bitrate) (3 * 8 * fs / frameSize), m,
   m - totSize, nbStreams - s, nbStreams - s - 1, 2 * (nbStreams - s - 1), 2 * (nbStreams - s - 1) - 1,
   m - totSize - max 0 (2 * (nbStreams - s - 1) - 1), 8 * fs, 8 * fs / frameSize, cm * (8 * fs / frameSize), cm]

end Opus.EncSkel
